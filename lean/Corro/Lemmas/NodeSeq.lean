/-
C03 helper lemmas about `Node.bufferChunk` (model of `process_incomplete_version`): the six-case SQL
predicate, the merged row, the point set of the sequence rows, canonical form, and the buffer
(`INSERT … ON CONFLICT DO NOTHING`).
-/
import Corro.Lemmas.NodeServe

namespace Corro.Node
open Corro.Crdt

/-! ### named pieces of `bufferChunk` -/

/-- the `DELETE … WHERE` predicate of `process_incomplete_version`, as written (six cases) -/
def touching (site ver lo hi : Nat) (r : SeqRow) : Bool :=
  r.site == site && r.ver == ver &&
    ((decide (lo ≤ r.lo) && decide (r.lo ≤ hi)) || (decide (r.lo ≤ lo) && decide (hi ≤ r.hi)) ||
     (decide (r.lo ≤ hi) && decide (hi ≤ r.hi)) || (decide (lo ≤ r.hi) && decide (r.hi ≤ hi)) ||
     (r.lo == hi + 1 && r.hi != 0) || (r.hi + 1 == lo))

/-- same `(site_id, db_version, seq)` primary key in `__corro_buffered_changes` -/
def sameKey (c x : Chg) : Bool := decide (x.site = c.site ∧ x.dbv = c.dbv ∧ x.seq = c.seq)

/-- `INSERT … ON CONFLICT DO NOTHING` of a chunk's changes -/
def bufAdd (b : List Chg) (cs : List Chg) : List Chg :=
  cs.foldl (fun b c => if b.any (sameKey c) then b else b ++ [c]) b

def mergedLo (rows : List SeqRow) (site ver lo hi : Nat) : Nat :=
  (rows.filter (touching site ver lo hi)).foldl (fun m r => Nat.min m r.lo) lo

def mergedHi (rows : List SeqRow) (site ver lo hi : Nat) : Nat :=
  (rows.filter (touching site ver lo hi)).foldl (fun m r => Nat.max m r.hi) hi

theorem bufferChunk_eq (n : Node) (site ver lo hi last : Nat) (cs : List Chg) :
    n.bufferChunk site ver lo hi last cs =
      ({ n with buf := bufAdd n.buf cs,
                seqRows := n.seqRows.filter (fun r => !touching site ver lo hi r) ++
                  [⟨site, ver, mergedLo n.seqRows site ver lo hi, mergedHi n.seqRows site ver lo hi, last⟩] },
       (mergedLo n.seqRows site ver lo hi, mergedHi n.seqRows site ver lo hi)) := rfl

/-- rows of one `(site, version)` -/
def rowsOf (rows : List SeqRow) (site ver : Nat) : List SeqRow :=
  rows.filter (fun r => r.site = site ∧ r.ver = ver)

/-- canonical sequence rows of `(site, ver)`: forward, pairwise disjoint and non-adjacent -/
def SeqRowsWF (rows : List SeqRow) (site ver : Nat) : Prop :=
  (∀ r ∈ rowsOf rows site ver, r.lo ≤ r.hi) ∧
  (rowsOf rows site ver).Pairwise (fun a b => a.hi + 1 < b.lo ∨ b.hi + 1 < a.lo)

instance (rows : List SeqRow) (site ver : Nat) : Decidable (SeqRowsWF rows site ver) := by
  unfold SeqRowsWF; exact inferInstance

/-- point set of the sequence rows of `(site, ver)` -/
def SeqMem (rows : List SeqRow) (site ver x : Nat) : Prop :=
  ∃ r ∈ rows, r.site = site ∧ r.ver = ver ∧ r.lo ≤ x ∧ x ≤ r.hi

theorem mem_rowsOf {rows : List SeqRow} {site ver : Nat} {r : SeqRow} :
    r ∈ rowsOf rows site ver ↔ r ∈ rows ∧ r.site = site ∧ r.ver = ver := by
  unfold rowsOf; rw [List.mem_filter]; simp

theorem seqMem_iff_rowsOf {rows : List SeqRow} {site ver x : Nat} :
    SeqMem rows site ver x ↔ ∃ r ∈ rowsOf rows site ver, r.lo ≤ x ∧ x ≤ r.hi := by
  unfold SeqMem
  constructor
  · rintro ⟨r, h1, h2, h3, h4⟩; exact ⟨r, mem_rowsOf.mpr ⟨h1, h2, h3⟩, h4⟩
  · rintro ⟨r, h1, h4⟩; have := mem_rowsOf.mp h1; exact ⟨r, this.1, this.2.1, this.2.2, h4⟩

/-! ### the predicate -/

theorem touching_site {site ver lo hi : Nat} {r : SeqRow} (h : touching site ver lo hi r = true) :
    r.site = site ∧ r.ver = ver := by
  unfold touching at h
  simp only [Bool.and_eq_true, beq_iff_eq] at h
  exact h.1

/-- for a forward row and a forward chunk the six cases say "overlaps or is adjacent to `[lo,hi]`" -/
theorem touching_iff {site ver lo hi : Nat} {r : SeqRow} (hlh : lo ≤ hi) (hr : r.lo ≤ r.hi) :
    touching site ver lo hi r = true ↔
      r.site = site ∧ r.ver = ver ∧ r.lo ≤ hi + 1 ∧ lo ≤ r.hi + 1 := by
  unfold touching
  simp only [Bool.and_eq_true, Bool.or_eq_true, beq_iff_eq, decide_eq_true_eq, bne_iff_ne, ne_eq]
  omega

/-- the odd `AND end_seq` of case 5 is implied for forward rows -/
theorem case5_total {hi : Nat} {r : SeqRow} (hr : r.lo ≤ r.hi) (h : r.lo = hi + 1) :
    (r.lo == hi + 1 && r.hi != 0) = true := by
  simp only [Bool.and_eq_true, beq_iff_eq, bne_iff_ne, ne_eq]
  omega

/-! ### the merged bounds -/

theorem foldl_min_le_init (l : List SeqRow) (m : Nat) :
    l.foldl (fun m r => Nat.min m r.lo) m ≤ m := by
  induction l generalizing m with
  | nil => exact Nat.le_refl _
  | cons a l ih => exact Nat.le_trans (ih _) (Nat.min_le_left _ _)

theorem foldl_min_le_mem {l : List SeqRow} {r : SeqRow} (h : r ∈ l) (m : Nat) :
    l.foldl (fun m r => Nat.min m r.lo) m ≤ r.lo := by
  induction l generalizing m with
  | nil => cases h
  | cons a l ih =>
    simp only [List.foldl_cons]
    rcases List.mem_cons.mp h with rfl | h
    · exact Nat.le_trans (foldl_min_le_init _ _) (Nat.min_le_right _ _)
    · exact ih h _

theorem foldl_min_attained (l : List SeqRow) (m : Nat) :
    l.foldl (fun m r => Nat.min m r.lo) m = m ∨ ∃ r ∈ l, l.foldl (fun m r => Nat.min m r.lo) m = r.lo := by
  induction l generalizing m with
  | nil => left; rfl
  | cons a l ih =>
    simp only [List.foldl_cons]
    rcases ih (Nat.min m a.lo) with h | ⟨r, hr, h⟩
    · rw [h]
      by_cases hm : m ≤ a.lo
      · left; exact Nat.min_eq_left hm
      · right; exact ⟨a, by simp, Nat.min_eq_right (by omega)⟩
    · right; exact ⟨r, by simp [hr], h⟩

theorem foldl_max_ge_init (l : List SeqRow) (m : Nat) :
    m ≤ l.foldl (fun m r => Nat.max m r.hi) m := by
  induction l generalizing m with
  | nil => exact Nat.le_refl _
  | cons a l ih => exact Nat.le_trans (Nat.le_max_left _ _) (ih _)

theorem foldl_max_ge_mem {l : List SeqRow} {r : SeqRow} (h : r ∈ l) (m : Nat) :
    r.hi ≤ l.foldl (fun m r => Nat.max m r.hi) m := by
  induction l generalizing m with
  | nil => cases h
  | cons a l ih =>
    simp only [List.foldl_cons]
    rcases List.mem_cons.mp h with rfl | h
    · exact Nat.le_trans (Nat.le_max_right _ _) (foldl_max_ge_init _ _)
    · exact ih h _

theorem foldl_max_attained (l : List SeqRow) (m : Nat) :
    l.foldl (fun m r => Nat.max m r.hi) m = m ∨ ∃ r ∈ l, l.foldl (fun m r => Nat.max m r.hi) m = r.hi := by
  induction l generalizing m with
  | nil => left; rfl
  | cons a l ih =>
    simp only [List.foldl_cons]
    rcases ih (Nat.max m a.hi) with h | ⟨r, hr, h⟩
    · rw [h]
      by_cases hm : a.hi ≤ m
      · left; exact Nat.max_eq_left hm
      · right; exact ⟨a, by simp, Nat.max_eq_right (by omega)⟩
    · right; exact ⟨r, by simp [hr], h⟩

theorem mergedLo_le (rows : List SeqRow) (site ver lo hi : Nat) : mergedLo rows site ver lo hi ≤ lo :=
  foldl_min_le_init _ _

theorem le_mergedHi (rows : List SeqRow) (site ver lo hi : Nat) : hi ≤ mergedHi rows site ver lo hi :=
  foldl_max_ge_init _ _

theorem mergedLo_le_touching {rows : List SeqRow} {site ver lo hi : Nat} {r : SeqRow} (hr : r ∈ rows)
    (ht : touching site ver lo hi r = true) : mergedLo rows site ver lo hi ≤ r.lo :=
  foldl_min_le_mem (List.mem_filter.mpr ⟨hr, ht⟩) _

theorem touching_le_mergedHi {rows : List SeqRow} {site ver lo hi : Nat} {r : SeqRow} (hr : r ∈ rows)
    (ht : touching site ver lo hi r = true) : r.hi ≤ mergedHi rows site ver lo hi :=
  foldl_max_ge_mem (List.mem_filter.mpr ⟨hr, ht⟩) _

theorem mergedLo_attained (rows : List SeqRow) (site ver lo hi : Nat) :
    mergedLo rows site ver lo hi = lo ∨
      ∃ r ∈ rows, touching site ver lo hi r = true ∧ mergedLo rows site ver lo hi = r.lo := by
  rcases foldl_min_attained (rows.filter (touching site ver lo hi)) lo with h | ⟨r, hr, h⟩
  · exact Or.inl h
  · have := List.mem_filter.mp hr; exact Or.inr ⟨r, this.1, this.2, h⟩

theorem mergedHi_attained (rows : List SeqRow) (site ver lo hi : Nat) :
    mergedHi rows site ver lo hi = hi ∨
      ∃ r ∈ rows, touching site ver lo hi r = true ∧ mergedHi rows site ver lo hi = r.hi := by
  rcases foldl_max_attained (rows.filter (touching site ver lo hi)) hi with h | ⟨r, hr, h⟩
  · exact Or.inl h
  · have := List.mem_filter.mp hr; exact Or.inr ⟨r, this.1, this.2, h⟩

/-! ### rows of other versions / actors are untouched -/

theorem rowsOf_bufferChunk_other (n : Node) (site ver lo hi last : Nat) (cs : List Chg) (s' v' : Nat)
    (hne : ¬ (s' = site ∧ v' = ver)) :
    rowsOf (n.bufferChunk site ver lo hi last cs).1.seqRows s' v' = rowsOf n.seqRows s' v' := by
  rw [bufferChunk_eq]
  simp only [rowsOf, List.filter_append, List.filter_filter]
  have h1 : List.filter (fun r => decide (r.site = s' ∧ r.ver = v'))
      [(⟨site, ver, mergedLo n.seqRows site ver lo hi, mergedHi n.seqRows site ver lo hi, last⟩ : SeqRow)] = [] := by
    rw [List.filter_cons_of_neg]
    · rfl
    · simp only [decide_eq_true_eq]; intro h; exact hne ⟨h.1.symm, h.2.symm⟩
  rw [h1, List.append_nil]
  apply List.filter_congr
  intro r _
  by_cases hr : r.site = s' ∧ r.ver = v'
  · have : touching site ver lo hi r = false := by
      cases ht : touching site ver lo hi r with
      | false => rfl
      | true => have := touching_site ht; exact absurd ⟨hr.1.symm.trans this.1, hr.2.symm.trans this.2⟩ hne
    simp [hr, this]
  · simp [hr]

theorem rowsOf_bufferChunk_same (n : Node) (site ver lo hi last : Nat) (cs : List Chg) :
    rowsOf (n.bufferChunk site ver lo hi last cs).1.seqRows site ver =
      (rowsOf n.seqRows site ver).filter (fun r => !touching site ver lo hi r) ++
        [⟨site, ver, mergedLo n.seqRows site ver lo hi, mergedHi n.seqRows site ver lo hi, last⟩] := by
  rw [bufferChunk_eq]
  simp only [rowsOf, List.filter_append, List.filter_filter]
  congr 1
  · apply List.filter_congr; intro r _; exact Bool.and_comm _ _
  · rw [List.filter_cons_of_pos (by simp)]; rfl

/-! ### the point set -/

/-- after `bufferChunk`, the sequence rows of `(site, ver)` cover exactly the old points plus
`[lo, hi]` -/
theorem seqMem_bufferChunk (n : Node) (site ver lo hi last : Nat) (cs : List Chg) (hlh : lo ≤ hi)
    (hf : ∀ r ∈ rowsOf n.seqRows site ver, r.lo ≤ r.hi) (x : Nat) :
    SeqMem (n.bufferChunk site ver lo hi last cs).1.seqRows site ver x ↔
      SeqMem n.seqRows site ver x ∨ (lo ≤ x ∧ x ≤ hi) := by
  have hfw : ∀ r ∈ n.seqRows, touching site ver lo hi r = true → r.lo ≤ r.hi := by
    intro r hr ht
    have := touching_site ht
    exact hf r (mem_rowsOf.mpr ⟨hr, this.1, this.2⟩)
  have hlo := mergedLo_le n.seqRows site ver lo hi
  have hhi := le_mergedHi n.seqRows site ver lo hi
  rw [seqMem_iff_rowsOf, rowsOf_bufferChunk_same]
  constructor
  · rintro ⟨r, hr, h1, h2⟩
    rcases List.mem_append.mp hr with hr | hr
    · have hr' := mem_rowsOf.mp (List.mem_filter.mp hr).1
      exact Or.inl ⟨r, hr'.1, hr'.2.1, hr'.2.2, h1, h2⟩
    · simp only [List.mem_singleton] at hr
      subst hr
      simp only at h1 h2
      by_cases hx1 : x < lo
      · left
        rcases mergedLo_attained n.seqRows site ver lo hi with h | ⟨r, hr, ht, h⟩
        · omega
        · have hs := touching_site ht
          have := (touching_iff hlh (hfw r hr ht)).mp ht
          exact ⟨r, hr, hs.1, hs.2, by omega, by omega⟩
      · by_cases hx2 : hi < x
        · left
          rcases mergedHi_attained n.seqRows site ver lo hi with h | ⟨r, hr, ht, h⟩
          · omega
          · have hs := touching_site ht
            have := (touching_iff hlh (hfw r hr ht)).mp ht
            exact ⟨r, hr, hs.1, hs.2, by omega, by omega⟩
        · right; omega
  · rintro (⟨r, hr, hs, hv, h1, h2⟩ | ⟨h1, h2⟩)
    · cases ht : touching site ver lo hi r with
      | false =>
        exact ⟨r, List.mem_append.mpr (Or.inl (List.mem_filter.mpr
          ⟨mem_rowsOf.mpr ⟨hr, hs, hv⟩, by simp [ht]⟩)), h1, h2⟩
      | true =>
        have a1 := mergedLo_le_touching hr ht
        have a2 := touching_le_mergedHi hr ht
        exact ⟨_, List.mem_append.mpr (Or.inr (List.mem_singleton.mpr rfl)), by simp only; omega,
          by simp only; omega⟩
    · exact ⟨_, List.mem_append.mpr (Or.inr (List.mem_singleton.mpr rfl)), by simp only; omega,
        by simp only; omega⟩

theorem seqMem_bufferChunk_other (n : Node) (site ver lo hi last : Nat) (cs : List Chg) (s' v' : Nat)
    (hne : ¬ (s' = site ∧ v' = ver)) (x : Nat) :
    SeqMem (n.bufferChunk site ver lo hi last cs).1.seqRows s' v' x ↔ SeqMem n.seqRows s' v' x := by
  rw [seqMem_iff_rowsOf, seqMem_iff_rowsOf, rowsOf_bufferChunk_other n site ver lo hi last cs s' v' hne]

/-! ### canonical form is preserved -/

theorem seqRowsWF_bufferChunk (n : Node) (site ver lo hi last : Nat) (cs : List Chg) (hlh : lo ≤ hi)
    (hw : SeqRowsWF n.seqRows site ver) :
    SeqRowsWF (n.bufferChunk site ver lo hi last cs).1.seqRows site ver := by
  have hfw : ∀ r ∈ n.seqRows, touching site ver lo hi r = true → r.lo ≤ r.hi := by
    intro r hr ht
    have := touching_site ht
    exact hw.1 r (mem_rowsOf.mpr ⟨hr, this.1, this.2⟩)
  have hlo := mergedLo_le n.seqRows site ver lo hi
  have hhi := le_mergedHi n.seqRows site ver lo hi
  unfold SeqRowsWF
  rw [rowsOf_bufferChunk_same]
  constructor
  · intro r hr
    rcases List.mem_append.mp hr with hr | hr
    · exact hw.1 r (List.mem_filter.mp hr).1
    · simp only [List.mem_singleton] at hr
      subst hr; simp only; omega
  · rw [List.pairwise_append]
    refine ⟨hw.2.sublist List.filter_sublist, List.pairwise_singleton _ _, ?_⟩
    intro a ha b hb
    simp only [List.mem_singleton] at hb
    subst hb
    simp only
    have ha' := List.mem_filter.mp ha
    have ham := mem_rowsOf.mp ha'.1
    have hnt : touching site ver lo hi a = false := by simpa using ha'.2
    have haf := hw.1 a ha'.1
    have hna : ¬ (a.lo ≤ hi + 1 ∧ lo ≤ a.hi + 1) := by
      intro hc
      have := (touching_iff hlh haf).mpr ⟨ham.2.1, ham.2.2, hc.1, hc.2⟩
      rw [hnt] at this; cases this
    -- `a` is separated from every touching row, by canonical form of the old rows
    have hsep : ∀ r ∈ n.seqRows, touching site ver lo hi r = true →
        a.hi + 1 < r.lo ∨ r.hi + 1 < a.lo := by
      intro r hr ht
      have hs := touching_site ht
      have hrm : r ∈ rowsOf n.seqRows site ver := mem_rowsOf.mpr ⟨hr, hs.1, hs.2⟩
      have hne : a ≠ r := by rintro rfl; rw [hnt] at ht; cases ht
      -- pairwise on a list gives the relation for distinct members in one of the two orders
      have hp := hw.2
      rcases List.mem_iff_append.mp ha'.1 with ⟨l1, l2, hl⟩
      rw [hl] at hrm hp
      rcases List.mem_append.mp hrm with h1 | h1
      · have := (List.pairwise_append.mp hp).2.2 r h1 a (by simp)
        omega
      · rcases List.mem_cons.mp h1 with h1 | h1
        · exact absurd h1.symm hne
        · have := (List.pairwise_cons.mp (List.pairwise_append.mp hp).2.1).1 r h1
          omega
    rcases mergedLo_attained n.seqRows site ver lo hi with h1 | ⟨r1, hr1, ht1, h1⟩ <;>
    rcases mergedHi_attained n.seqRows site ver lo hi with h2 | ⟨r2, hr2, ht2, h2⟩
    · omega
    · have s2 := hsep r2 hr2 ht2
      have t2 := (touching_iff hlh (hfw r2 hr2 ht2)).mp ht2
      have := hfw r2 hr2 ht2
      omega
    · have s1 := hsep r1 hr1 ht1
      have t1 := (touching_iff hlh (hfw r1 hr1 ht1)).mp ht1
      have := hfw r1 hr1 ht1
      omega
    · have s1 := hsep r1 hr1 ht1
      have t1 := (touching_iff hlh (hfw r1 hr1 ht1)).mp ht1
      have s2 := hsep r2 hr2 ht2
      have t2 := (touching_iff hlh (hfw r2 hr2 ht2)).mp ht2
      have := hfw r1 hr1 ht1
      have := hfw r2 hr2 ht2
      omega

theorem seqRowsWF_bufferChunk_other (n : Node) (site ver lo hi last : Nat) (cs : List Chg) (s' v' : Nat)
    (hne : ¬ (s' = site ∧ v' = ver)) (hw : SeqRowsWF n.seqRows s' v') :
    SeqRowsWF (n.bufferChunk site ver lo hi last cs).1.seqRows s' v' := by
  unfold SeqRowsWF at *
  rw [rowsOf_bufferChunk_other n site ver lo hi last cs s' v' hne]
  exact hw

/-! ### the buffer -/

theorem bufAdd_cons (b : List Chg) (c : Chg) (cs : List Chg) :
    bufAdd b (c :: cs) = bufAdd (if b.any (sameKey c) then b else b ++ [c]) cs := rfl

/-- old rows are kept, in place: the old buffer is a prefix of the new one -/
theorem bufAdd_prefix (b cs : List Chg) : b <+: bufAdd b cs := by
  induction cs generalizing b with
  | nil => exact List.prefix_refl _
  | cons c cs ih =>
    rw [bufAdd_cons]
    split
    · exact ih b
    · exact List.IsPrefix.trans (List.prefix_append b [c]) (ih _)

theorem mem_bufAdd {b cs : List Chg} {x : Chg} (h : x ∈ bufAdd b cs) : x ∈ b ∨ x ∈ cs := by
  induction cs generalizing b with
  | nil => exact Or.inl h
  | cons c cs ih =>
    rw [bufAdd_cons] at h
    split at h
    · rcases ih h with h | h
      · exact Or.inl h
      · exact Or.inr (by simp [h])
    · rcases ih h with h | h
      · rcases List.mem_append.mp h with h | h
        · exact Or.inl h
        · simp only [List.mem_singleton] at h; exact Or.inr (by simp [h])
      · exact Or.inr (by simp [h])

/-- every change of the chunk has a buffered row with its key afterwards -/
theorem bufAdd_has_key (b cs : List Chg) {c : Chg} (hc : c ∈ cs) :
    ∃ x ∈ bufAdd b cs, x.site = c.site ∧ x.dbv = c.dbv ∧ x.seq = c.seq := by
  induction cs generalizing b with
  | nil => cases hc
  | cons d cs ih =>
    rw [bufAdd_cons]
    rcases List.mem_cons.mp hc with rfl | hc
    · split
      · rename_i hany
        obtain ⟨x, hx, hk⟩ := List.any_eq_true.mp hany
        exact ⟨x, (bufAdd_prefix b cs).subset hx, by simpa [sameKey] using hk⟩
      · exact ⟨c, (bufAdd_prefix _ cs).subset (by simp), rfl, rfl, rfl⟩
    · exact ih _ hc

/-- **first writer wins**: the row found under a key that was already present is the old one -/
theorem bufAdd_find_old (b cs : List Chg) (k : Chg) (h : b.any (sameKey k) = true) :
    (bufAdd b cs).find? (sameKey k) = b.find? (sameKey k) := by
  obtain ⟨t, ht⟩ := bufAdd_prefix b cs
  rw [← ht, List.find?_append]
  cases hf : b.find? (sameKey k) with
  | none =>
    obtain ⟨x, hx, hk⟩ := List.any_eq_true.mp h
    have := List.find?_eq_none.mp hf x hx
    exact absurd hk this
  | some y => rfl

/-- keys stay unique in the buffer -/
def BufKeysUnique (b : List Chg) : Prop := b.Pairwise (fun x y => sameKey x y = false)

theorem bufAdd_keysUnique (b cs : List Chg) (h : BufKeysUnique b) : BufKeysUnique (bufAdd b cs) := by
  induction cs generalizing b with
  | nil => exact h
  | cons c cs ih =>
    rw [bufAdd_cons]
    split
    · exact ih b h
    · rename_i hany
      apply ih
      unfold BufKeysUnique
      rw [List.pairwise_append]
      refine ⟨h, List.pairwise_singleton _ _, ?_⟩
      intro x hx y hy
      simp only [List.mem_singleton] at hy
      subst hy
      have : ¬ (sameKey y x = true) := fun hk => hany (List.any_eq_true.mpr ⟨x, hx, hk⟩)
      simp only [sameKey, decide_eq_true_eq] at this
      simp only [sameKey, decide_eq_false_iff_not]
      intro hc; exact this ⟨hc.1.symm, hc.2.1.symm, hc.2.2.symm⟩

/-! ### buffered rows lie inside the sequence rows -/

/-- every buffered row lies inside a sequence row of its `(site, version)` -/
def Node.BufCovered (n : Node) : Prop := ∀ c ∈ n.buf, SeqMem n.seqRows c.site c.dbv c.seq

/-- the chunk is well formed: its changes belong to `(site, ver)` and lie in `[lo, hi]` -/
def ChunkWF (site ver lo hi : Nat) (cs : List Chg) : Prop :=
  ∀ c ∈ cs, c.site = site ∧ c.dbv = ver ∧ lo ≤ c.seq ∧ c.seq ≤ hi

instance (site ver lo hi : Nat) (cs : List Chg) : Decidable (ChunkWF site ver lo hi cs) := by
  unfold ChunkWF; exact inferInstance

theorem bufCovered_bufferChunk (n : Node) (site ver lo hi last : Nat) (cs : List Chg) (hlh : lo ≤ hi)
    (hf : ∀ r ∈ rowsOf n.seqRows site ver, r.lo ≤ r.hi) (hcw : ChunkWF site ver lo hi cs)
    (hb : n.BufCovered) : (n.bufferChunk site ver lo hi last cs).1.BufCovered := by
  intro c hc
  have hc' : c ∈ bufAdd n.buf cs := hc
  by_cases hk : c.site = site ∧ c.dbv = ver
  · rw [hk.1, hk.2, seqMem_bufferChunk n site ver lo hi last cs hlh hf]
    rcases mem_bufAdd hc' with h | h
    · left; have := hb c h; rw [hk.1, hk.2] at this; exact this
    · right; exact (hcw c h).2.2
  · rcases mem_bufAdd hc' with h | h
    · rw [seqMem_bufferChunk_other n site ver lo hi last cs c.site c.dbv hk]
      exact hb c h
    · exact absurd ⟨(hcw c h).1, (hcw c h).2.1⟩ hk

end Corro.Node
