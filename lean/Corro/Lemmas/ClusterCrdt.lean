/-
C01, protocol level — the CRDT-level facts the cluster invariant needs, for histories WITHOUT
re-insertion (every change of the log has causal length 1 or 2, `ChgOK`):

* `Lit db R`  — every live entry of `crsql_changes` is LITERALLY one of the merged changes `R`
  (no zeroed leftovers, no implicit sentinels: those need `cl ≥ 3`), preserved by `merge`;
* `Dom G c`   — "some other change of the log is at least as good as `c`";
* `live_of_nondominated` — the relay lemma: a merged change that is not dominated in the log is a
  live entry of the store, hence is what the store serves for its `(site, version)`;
* `spec_of_held` — a set `R ⊆ G` that contains every non-dominated change of `G` has the same
  specification as `G` (under `NoTies G`, `CompleteStrong G`).
-/
import Corro.Lemmas.CrdtView
import Corro.Lemmas.CrdtLocal
import Corro.Model.ClusterSys

namespace Corro.ClusterSys
open Corro.Crdt

/-! ### well-formed log changes (histories without re-insertion) -/

/-- a change as a local transaction produces it, in a history where no row is re-inserted after a
delete: causal length 1 (insert / update) or 2 (delete); a sentinel entry is `(-1, NULL,
col_version = cl)`; a delete is a sentinel; a column change has a positive column version; the seq
is below the bound `handle_need`'s model uses (`Node.live`). -/
def ChgOK (c : Chg) : Prop :=
  1 ≤ c.cl ∧ c.cl ≤ 2 ∧ (c.cid = sentinel → c.val = .null ∧ c.colv = c.cl) ∧
  (c.cl = 2 → c.cid = sentinel) ∧ (c.cid ≠ sentinel → 1 ≤ c.colv) ∧ c.seq ≤ 1000000000

instance (c : Chg) : Decidable (ChgOK c) := by unfold ChgOK; exact inferInstance

/-- **`Dom G c`**: some OTHER change `d` of the log `G`, for the same row, is at least as good as
`c`: it has a larger causal length; or `c` is a sentinel / delete and `d` carries the same causal
length; or `c` is a column change and `d` is a change of the same cell in the same incarnation whose
key `(col_version, value, site)` is not below `c`'s. -/
def Dom (G : List Chg) (c : Chg) : Prop :=
  ∃ d ∈ G, d ≠ c ∧ d.tbl = c.tbl ∧ d.pk = c.pk ∧
    (c.cl < d.cl ∨ (c.cid = sentinel ∧ d.cl = c.cl) ∨
      (c.cid ≠ sentinel ∧ d.cid = c.cid ∧ d.cl = c.cl ∧ keyLt d.key c.key = false))

instance (G : List Chg) (c : Chg) : Decidable (Dom G c) := by unfold Dom; exact inferInstance

theorem Dom.mono {G G' : List Chg} {c : Chg} (h : Dom G c) (hs : ∀ d ∈ G, d ∈ G') : Dom G' c := by
  obtain ⟨d, hd, h⟩ := h
  exact ⟨d, hs d hd, h⟩

/-- no two distinct changes of the log tie: two sentinels / deletes of the same row with the same
causal length, or two changes of the same cell and incarnation with the same key, are equal -/
def NoTies (G : List Chg) : Prop :=
  ∀ c ∈ G, ∀ d ∈ G, c.tbl = d.tbl → c.pk = d.pk → c.cl = d.cl → c.cid = d.cid →
    (c.cid = sentinel ∨ c.key = d.key) → c = d

instance (G : List Chg) : Decidable (NoTies G) := by unfold NoTies; exact inferInstance

/-! ### live entries -/

def sentEntry (r : Row) (k : Clock) : Chg := ⟨r.tbl, r.pk, sentinel, .null, k.colv, r.cl, k.site, k.dbv, k.seq⟩
def cellEntry (r : Row) (l : Cell) : Chg :=
  ⟨r.tbl, r.pk, l.cid, l.val, l.clk.colv, r.cl, l.clk.site, l.clk.dbv, l.clk.seq⟩

theorem mem_changes {db : Db} {e : Chg} :
    e ∈ db.changes ↔ ∃ r ∈ db.rows, (∃ k, r.sent = some k ∧ e = sentEntry r k) ∨
      (∃ l ∈ r.cells, e = cellEntry r l) := by
  unfold Db.changes
  rw [List.mem_flatMap]
  constructor
  · rintro ⟨r, hr, he⟩
    refine ⟨r, hr, ?_⟩
    rcases List.mem_append.mp he with he | he
    · left
      cases hs : r.sent with
      | none => rw [hs] at he; cases he
      | some k =>
        rw [hs] at he
        simp only [List.mem_singleton] at he
        exact ⟨k, rfl, he⟩
    · right
      obtain ⟨l, hl, rfl⟩ := List.mem_map.mp he
      exact ⟨l, hl, rfl⟩
  · rintro ⟨r, hr, h⟩
    refine ⟨r, hr, ?_⟩
    rcases h with ⟨k, hk, rfl⟩ | ⟨l, hl, rfl⟩
    · apply List.mem_append_left
      rw [hk]
      exact List.mem_singleton.mpr rfl
    · apply List.mem_append_right
      exact List.mem_map.mpr ⟨l, hl, rfl⟩

/-- every live entry of the row is literally one of the changes `R`; a row without a sentinel clock
has a cell -/
structure RowLit (R : List Chg) (r : Row) : Prop where
  sent : ∀ k, r.sent = some k → sentEntry r k ∈ R
  cells : ∀ l ∈ r.cells, cellEntry r l ∈ R
  some : r.sent = none → r.cells ≠ []

/-- **every live entry of the store is literally a merged change** -/
def Lit (db : Db) (R : List Chg) : Prop := ∀ r ∈ db.rows, RowLit R r

theorem RowLit.mono {R R' : List Chg} {r : Row} (h : RowLit R r) (hs : ∀ e ∈ R, e ∈ R') : RowLit R' r :=
  ⟨fun k hk => hs _ (h.sent k hk), fun l hl => hs _ (h.cells l hl), h.some⟩

theorem Lit.mono {db : Db} {R R' : List Chg} (h : Lit db R) (hs : ∀ e ∈ R, e ∈ R') : Lit db R' :=
  fun r hr => (h r hr).mono hs

theorem Lit.mem {db : Db} {R : List Chg} (h : Lit db R) {e : Chg} (he : e ∈ db.changes) : e ∈ R := by
  obtain ⟨r, hr, h1 | h1⟩ := mem_changes.mp he
  · obtain ⟨k, hk, rfl⟩ := h1; exact (h r hr).sent k hk
  · obtain ⟨l, hl, rfl⟩ := h1; exact (h r hr).cells l hl

theorem lit_empty (s : Nat) : Lit (Db.empty s) [] := by
  intro r hr; cases hr

/-! ### `merge` keeps the entries literal -/

theorem chg_eta_sent {c : Chg} (h1 : c.cid = sentinel) (h2 : c.val = .null) (h3 : c.colv = c.cl) :
    (⟨c.tbl, c.pk, sentinel, .null, c.cl, c.cl, c.site, c.dbv, c.seq⟩ : Chg) = c := by
  cases c; simp_all

theorem mergeRow_col_first {o : Option Row} {c : Chg} (h1 : c.cl = 1) (h2 : c.cid ≠ sentinel)
    (h3 : lclOf o = 0) :
    mergeRow o c = some (({ tbl := c.tbl, pk := c.pk, cl := 1, sent := none, cells := [] } : Row).setCell c.cell) := by
  unfold mergeRow
  simp [h1, h2, h3]

theorem rowLit_mergeRow {R : List Chg} {o : Option Row} {c : Chg} (hc : ChgOK c)
    (ho : ∀ r, o = some r → RowLit R r ∧ r.tbl = c.tbl ∧ r.pk = c.pk) :
    ∀ r', mergeRow o c = some r' → RowLit (c :: R) r' := by
  obtain ⟨hc1, hc2, hc3, hc4, hc5, _⟩ := hc
  have hset : ∀ r : Row, RowLit R r → r.tbl = c.tbl → r.pk = c.pk → r.cl = c.cl →
      RowLit (c :: R) (r.setCell c.cell) := by
    intro r hr ht hp hcl
    refine ⟨?_, ?_, ?_⟩
    · intro k hk
      have hs : (r.setCell c.cell).sent = r.sent := by unfold Row.setCell; split <;> rfl
      rw [hs] at hk
      have := hr.sent k hk
      apply List.mem_cons_of_mem
      simpa [sentEntry] using this
    · intro l hl
      rw [Row.setCell_cells] at hl
      rcases mem_upsert _ hl with rfl | hl
      · apply List.mem_cons.mpr
        left
        simp only [cellEntry, setCell_tbl, setCell_pk, setCell_cl, ht, hp, hcl]
        cases c; rfl
      · apply List.mem_cons_of_mem
        simpa [cellEntry] using hr.cells l hl
    · intro _ he
      have := findCell_setCell_same r c.cell
      unfold Row.findCell at this
      rw [he] at this
      cases this
  by_cases hfirst : c.cl % 2 = 1 ∧ c.cid ≠ sentinel ∧ lclOf o < c.cl
  · obtain ⟨hodd, hns, hlt⟩ := hfirst
    have h1 : c.cl = 1 := by omega
    intro r' hr'
    rw [mergeRow_col_first h1 hns (by omega)] at hr'
    cases hr'
    refine ⟨?_, ?_, ?_⟩
    · intro k hk
      have hs : (({ tbl := c.tbl, pk := c.pk, cl := 1, sent := none, cells := [] } : Row).setCell c.cell).sent
          = none := by unfold Row.setCell; split <;> rfl
      rw [hs] at hk; cases hk
    · intro l hl
      rw [Row.setCell_cells] at hl
      rcases mem_upsert _ hl with rfl | hl
      · apply List.mem_cons.mpr
        left
        simp only [cellEntry, setCell_tbl, setCell_pk, setCell_cl]
        rw [← h1]
        cases c; rfl
      · cases hl
    · intro _ he
      have := findCell_setCell_same ({ tbl := c.tbl, pk := c.pk, cl := 1, sent := none, cells := [] } : Row) c.cell
      unfold Row.findCell at this
      rw [he] at this
      cases this
  · refine mergeRow_elim (Q := fun x => ∀ r', x = some r' → RowLit (c :: R) r') o c
      ?_ ?_ ?_ ?_ ?_ ?_ ?_ ?_ ?_
    · intro _ r' h; cases h
    · intro _ _ r' h; cases h
    · intro he hgt r' h
      cases h
      have h2 : c.cl = 2 := by omega
      obtain ⟨hv, hcv⟩ := hc3 (hc4 h2)
      refine ⟨?_, ?_, ?_⟩
      · intro k hk
        cases hk
        apply List.mem_cons.mpr
        left
        exact chg_eta_sent (hc4 h2) hv hcv
      · intro l hl; cases hl
      · intro h; cases h
    · intro _ _ _ r' h; cases h
    · intro hodd hs hgt r' h
      cases h
      have h1 : c.cl = 1 := by omega
      obtain ⟨hv, hcv⟩ := hc3 hs
      have hcells : (resurrect o c).cells = [] := by
        rw [resurrect_cells]
        cases o with
        | none => rfl
        | some r =>
          simp only [lclOf] at hgt
          have : r.cl = 0 := by omega
          simp [this]
      refine ⟨?_, ?_, ?_⟩
      · intro k hk
        have : (resurrect o c).sent = some ⟨c.cl, c.site, c.dbv, c.seq⟩ := rfl
        rw [this] at hk
        cases hk
        apply List.mem_cons.mpr
        left
        exact chg_eta_sent hs hv hcv
      · intro l hl; rw [hcells] at hl; cases hl
      · intro h
        have : (resurrect o c).sent = some ⟨c.cl, c.site, c.dbv, c.seq⟩ := rfl
        rw [this] at h; cases h
    · intro hodd hns hgt
      exact absurd ⟨hodd, hns, hgt⟩ hfirst
    · intro _ _ r hr hcl _ r' h
      cases h
      obtain ⟨h1, h2, h3⟩ := ho r hr
      exact hset r h1 h2 h3 hcl
    · intro _ _ r l hr hcl _ _ r' h
      cases h
      obtain ⟨h1, h2, h3⟩ := ho r hr
      exact hset r h1 h2 h3 hcl
    · intro _ _ _ _ _ _ _ _ r' h; cases h

theorem lit_merge {db : Db} {R : List Chg} {c : Chg} (hl : Lit db R) (hc : ChgOK c) :
    Lit (merge db c) (c :: R) := by
  intro r' hr'
  rw [merge_eq] at hr'
  cases hm : mergeRow (db.findRow c.tbl c.pk) c with
  | none =>
    rw [hm] at hr'
    exact (hl r' hr').mono (fun e he => List.mem_cons_of_mem _ he)
  | some x =>
    rw [hm] at hr'
    simp only [applyRow_some] at hr'
    rw [Db.setRow_rows] at hr'
    rcases mem_upsert _ hr' with rfl | h
    · refine rowLit_mergeRow hc ?_ _ hm
      intro r hr
      obtain ⟨h1, h2, h3⟩ := findRow_some hr
      exact ⟨hl r h3, h1, h2⟩
    · exact (hl r' h).mono (fun e he => List.mem_cons_of_mem _ he)

theorem lit_mergeAll {db : Db} {R R' : List Chg} {cs : List Chg} (hl : Lit db R)
    (hcs : ∀ c ∈ cs, ChgOK c) (hsub : ∀ e, e ∈ R ∨ e ∈ cs → e ∈ R') : Lit (mergeAll db cs) R' := by
  induction cs generalizing db R with
  | nil => exact hl.mono (fun e he => hsub e (Or.inl he))
  | cons c cs ih =>
    show Lit (mergeAll (merge db c) cs) R'
    refine ih (lit_merge hl (hcs c List.mem_cons_self)) (fun d hd => hcs d (List.mem_cons_of_mem _ hd)) ?_
    intro e he
    rcases he with he | he
    · rcases List.mem_cons.mp he with rfl | he
      · exact hsub _ (Or.inr List.mem_cons_self)
      · exact hsub _ (Or.inl he)
    · exact hsub _ (Or.inr (List.mem_cons_of_mem _ he))

/-! ### the store invariant -/

/-- the store `db` is a merge of exactly the set `R`, keys are unique, every live entry is
literally a change of `R` -/
structure StoreOK (db : Db) (R : List Chg) : Prop where
  inv : Inv db R
  nodup : db.NoDup
  lit : Lit db R

theorem storeOK_empty (s : Nat) : StoreOK (Db.empty s) [] :=
  ⟨inv_empty s, ⟨List.Pairwise.nil, fun _ h => by cases h⟩, lit_empty s⟩

theorem StoreOK.mergeAll {db : Db} {R : List Chg} (h : StoreOK db R) {cs : List Chg}
    (hcs : ∀ c ∈ cs, ChgOK c) : StoreOK (mergeAll db cs) (cs ++ R) :=
  ⟨inv_mergeAll h.inv cs _ (by intro c; simp [or_comm]), mergeAll_noDup cs h.nodup,
    lit_mergeAll h.lit hcs (by intro e he; simp [or_comm, he])⟩

/-- the invariant only looks at the rows -/
theorem StoreOK.of_rows {db db' : Db} {R : List Chg} (h : StoreOK db R) (hr : db'.rows = db.rows) :
    StoreOK db' R := by
  refine ⟨?_, ?_, ?_⟩
  · intro t p
    have : db'.findRow t p = db.findRow t p := by unfold Db.findRow; rw [hr]
    rw [this]; exact h.inv t p
  · unfold Db.NoDup; rw [hr]; exact h.nodup
  · unfold Lit; rw [hr]; exact h.lit

theorem StoreOK.congr {db : Db} {R R' : List Chg} (h : StoreOK db R) (hs : ∀ c, c ∈ R ↔ c ∈ R') :
    StoreOK db R' :=
  ⟨h.inv.congr hs, h.nodup, h.lit.mono (fun e he => (hs e).mp he)⟩

/-! ### the relay lemma -/

theorem mem_changes_of_sent {db : Db} {r : Row} {k : Clock} (hr : r ∈ db.rows) (hk : r.sent = some k) :
    sentEntry r k ∈ db.changes :=
  mem_changes.mpr ⟨r, hr, Or.inl ⟨k, hk, rfl⟩⟩

/-- **Relay lemma.**  In a store that is a merge of the set `R ⊆ G` with literal entries, a merged
change of the log that no other change of the log dominates is a LIVE entry. -/
theorem live_of_nondominated {db : Db} {R G : List Chg} (hs : StoreOK db R) (hRG : ∀ e ∈ R, e ∈ G)
    {c : Chg} (hok : ChgOK c) (hcR : c ∈ R) (hnd : ¬ Dom G c) : c ∈ db.changes := by
  obtain ⟨hc1, hc2, hc3, hc4, hc5, _⟩ := hok
  have hrow : c.atRow c.tbl c.pk := ⟨rfl, rfl⟩
  have hi := hs.inv c.tbl c.pk
  cases ho : db.findRow c.tbl c.pk with
  | none =>
    rw [ho] at hi
    have := hi c hcR hrow
    omega
  | some r =>
    rw [ho] at hi
    obtain ⟨hrt, hrp, hrmem⟩ := findRow_some ho
    have hle := hi.ub c hcR hrow
    obtain ⟨c', hc'R, hc'row, hc'cl⟩ := hi.att
    have hcl : r.cl = c.cl := by
      by_cases hlt : c.cl < r.cl
      · exfalso
        apply hnd
        refine ⟨c', hRG c' hc'R, ?_, hc'row.1, hc'row.2, Or.inl (by omega)⟩
        intro he; rw [he] at hc'cl; omega
      · omega
    have hlit := hs.lit r hrmem
    by_cases hsent : c.cid = sentinel
    · -- sentinel / delete
      cases hk : r.sent with
      | some k =>
        have he := hlit.sent k hk
        have heq : sentEntry r k = c := by
          apply Classical.byContradiction
          intro hne
          apply hnd
          exact ⟨sentEntry r k, hRG _ he, hne, hrt, hrp, Or.inr (Or.inl ⟨hsent, hcl⟩)⟩
        rw [← heq]
        exact mem_changes_of_sent hrmem hk
      | none =>
        exfalso
        have hne := hlit.some hk
        cases hcells : r.cells with
        | nil => exact hne hcells
        | cons l ls =>
          have hl : l ∈ r.cells := by rw [hcells]; exact List.mem_cons_self
          have he := hlit.cells l hl
          have hfc := findCell_of_mem (hs.nodup.2 r hrmem) hl
          have hns := (hi.cells l.cid l hfc).notSent
          apply hnd
          refine ⟨cellEntry r l, hRG _ he, ?_, hrt, hrp, Or.inr (Or.inl ⟨hsent, hcl⟩)⟩
          intro heq
          have : (cellEntry r l).cid = c.cid := by rw [heq]
          simp only [cellEntry] at this
          exact hns (this.trans hsent)
    · -- column change
      have hodd : c.cl = 1 := by
        by_cases h2 : c.cl = 2
        · exact absurd (hc4 h2) hsent
        · omega
      obtain ⟨l, hl⟩ := hi.has (by omega) c hcR ⟨rfl, rfl, rfl, hcl.symm⟩ hsent
      obtain ⟨hlc, hlmem⟩ := findCell_some hl
      have hub := (hi.cells c.cid l hl).ub c hcR ⟨rfl, rfl, hlc.symm, hcl.symm⟩
      have he := hlit.cells l hlmem
      have heq : cellEntry r l = c := by
        apply Classical.byContradiction
        intro hne
        apply hnd
        exact ⟨cellEntry r l, hRG _ he, hne, hrt, hrp,
          Or.inr (Or.inr ⟨hsent, hlc, hcl, hub⟩)⟩
      rw [← heq]
      exact mem_changes_of_cell hrmem hlmem

/-! ### quiescence: a set holding every non-dominated change has the log's specification -/

/-- the key-maximal change of a cell in the row's top incarnation is held -/
theorem exists_top_cell {G R : List Chg} (hheld : ∀ c ∈ G, c ∈ R ∨ Dom G c) (hnt : NoTies G)
    (t p x : String) (hx : x ≠ sentinel) (hd : ∃ d ∈ G, d.atCell t p x (specCl G t p)) :
    ∃ c ∈ R, c ∈ G ∧ c.atCell t p x (specCl G t p) ∧
      ∀ d ∈ G, d.atCell t p x (specCl G t p) → keyLt c.key d.key = false := by
  obtain ⟨d, hd, hdat⟩ := hd
  let K := (G.filter (fun c => decide (c.atCell t p x (specCl G t p)))).map Chg.key
  have hdK : d.key ∈ K :=
    List.mem_map.mpr ⟨d, List.mem_filter.mpr ⟨hd, by simpa using hdat⟩, rfl⟩
  cases hmk : maxKey K with
  | none => rw [maxKey_eq_none.mp hmk] at hdK; cases hdK
  | some k =>
    obtain ⟨hk, hkub⟩ := maxKey_spec hmk
    obtain ⟨cs, hcs, hcsk⟩ := List.mem_map.mp hk
    obtain ⟨hcsG, hcsat⟩ := List.mem_filter.mp hcs
    have hcsat : cs.atCell t p x (specCl G t p) := by simpa using hcsat
    have hub : ∀ d' ∈ G, d'.atCell t p x (specCl G t p) → keyLt cs.key d'.key = false := by
      intro d' hd' hd'at
      have hd'K : d'.key ∈ K :=
        List.mem_map.mpr ⟨d', List.mem_filter.mpr ⟨hd', by simpa using hd'at⟩, rfl⟩
      rw [hcsk]; exact hkub d'.key hd'K
    have hnd : ¬ Dom G cs := by
      rintro ⟨d', hd', hne', ht', hp', h⟩
      have hd'row : d'.atRow t p := ⟨ht'.trans hcsat.1, hp'.trans hcsat.2.1⟩
      rcases h with h | h | h
      · have := specCl_ge hd' hd'row
        have := hcsat.2.2.2
        omega
      · exact hx (hcsat.2.2.1.symm.trans h.1)
      · obtain ⟨_, h2, h3, h4⟩ := h
        have hd'at : d'.atCell t p x (specCl G t p) :=
          ⟨hd'row.1, hd'row.2, h2.trans hcsat.2.2.1, h3.trans hcsat.2.2.2⟩
        have hkeq : d'.key = cs.key := keyLt_total h4 (hub d' hd' hd'at)
        exact hne' (hnt d' hd' cs hcsG ht' hp' h3 h2 (Or.inr hkeq))
    rcases hheld cs hcsG with h | h
    · exact ⟨cs, h, hcsG, hcsat, hub⟩
    · exact absurd h hnd

/-- some held change carries the row's top causal length -/
theorem exists_top {G R : List Chg} (hheld : ∀ c ∈ G, c ∈ R ∨ Dom G c)
    (hnt : NoTies G) (hpos : ∀ c ∈ G, 1 ≤ c.cl) (t p : String) (hne : ∃ c ∈ G, c.atRow t p) :
    ∃ c ∈ R, c.atRow t p ∧ c.cl = specCl G t p := by
  rcases specCl_attained G t p with ⟨c0, hc0, hc0row, hc0cl⟩ | h0
  · by_cases hcol : ∃ d ∈ G, d.atRow t p ∧ d.cl = specCl G t p ∧ d.cid ≠ sentinel
    · obtain ⟨d, hd, hdrow, hdcl, hdns⟩ := hcol
      obtain ⟨c, hcR, _, hcat, _⟩ := exists_top_cell hheld hnt t p d.cid hdns
        ⟨d, hd, hdrow.1, hdrow.2, rfl, hdcl⟩
      exact ⟨c, hcR, ⟨hcat.1, hcat.2.1⟩, hcat.2.2.2⟩
    · -- only sentinels / deletes carry the top causal length
      have hsent : ∀ d ∈ G, d.atRow t p → d.cl = specCl G t p → d.cid = sentinel := by
        intro d hd hdrow hdcl
        apply Classical.byContradiction
        intro hns
        exact hcol ⟨d, hd, hdrow, hdcl, hns⟩
      have hnd : ¬ Dom G c0 := by
        rintro ⟨d', hd', hne', ht', hp', h⟩
        have hd'row : d'.atRow t p := ⟨ht'.trans hc0row.1, hp'.trans hc0row.2⟩
        rcases h with h | h | h
        · have := specCl_ge hd' hd'row; omega
        · have hd's := hsent d' hd' hd'row (h.2.trans hc0cl)
          exact hne' (hnt d' hd' c0 hc0 ht' hp' h.2 (hd's.trans h.1.symm) (Or.inl hd's))
        · exact h.1 (hsent c0 hc0 hc0row hc0cl)
      rcases hheld c0 hc0 with h | h
      · exact ⟨c0, h, hc0row, hc0cl⟩
      · exact absurd h hnd
  · obtain ⟨c, hc, hrow⟩ := hne
    have hle := specCl_ge hc hrow
    have := hpos c hc
    omega

theorem specCl_eq_of_held {G R : List Chg} (hRG : ∀ e ∈ R, e ∈ G)
    (hheld : ∀ c ∈ G, c ∈ R ∨ Dom G c) (hnt : NoTies G) (hpos : ∀ c ∈ G, 1 ≤ c.cl) (t p : String) :
    specCl R t p = specCl G t p := by
  apply specCl_unique
  · intro c hc hrow; exact specCl_ge (hRG c hc) hrow
  · by_cases hne : ∃ c ∈ G, c.atRow t p
    · obtain ⟨c, hc, hrow, hcl⟩ := exists_top hheld hnt hpos t p hne
      exact Or.inl ⟨c, hc, hrow, hcl⟩
    · right
      rcases specCl_attained G t p with ⟨c, hc, hr, _⟩ | h0
      · exact absurd ⟨c, hc, hr⟩ hne
      · exact h0

theorem specCell_eq_of_held {G R : List Chg} (hRG : ∀ e ∈ R, e ∈ G)
    (hheld : ∀ c ∈ G, c ∈ R ∨ Dom G c) (hnt : NoTies G) (hpos : ∀ c ∈ G, 1 ≤ c.cl) (t p x : String) :
    specCell R t p x = specCell G t p x := by
  unfold specCell
  rw [specCl_eq_of_held hRG hheld hnt hpos t p]
  simp only
  by_cases hg : specCl G t p % 2 = 0 ∨ x = sentinel
  · rw [if_pos hg, if_pos hg]
  · rw [if_neg hg, if_neg hg]
    congr 1
    have hx : x ≠ sentinel := fun h => hg (Or.inr h)
    by_cases hd : ∃ d ∈ G, d.atCell t p x (specCl G t p)
    · obtain ⟨c, hcR, hcG, hcat, hub⟩ := exists_top_cell hheld hnt t p x hx hd
      rw [maxKey_unique (m := c.key), maxKey_unique (m := c.key)]
      · exact List.mem_map.mpr ⟨c, List.mem_filter.mpr ⟨hcG, by simpa using hcat⟩, rfl⟩
      · intro k hk
        obtain ⟨d, hdm, rfl⟩ := List.mem_map.mp hk
        obtain ⟨hdG, hdat⟩ := List.mem_filter.mp hdm
        exact hub d hdG (by simpa using hdat)
      · exact List.mem_map.mpr ⟨c, List.mem_filter.mpr ⟨hcR, by simpa using hcat⟩, rfl⟩
      · intro k hk
        obtain ⟨d, hdm, rfl⟩ := List.mem_map.mp hk
        obtain ⟨hdR, hdat⟩ := List.mem_filter.mp hdm
        exact hub d (hRG d hdR) (by simpa using hdat)
    · have h1 : G.filter (fun c => decide (c.atCell t p x (specCl G t p))) = [] := by
        apply List.filter_eq_nil_iff.mpr
        intro d hdG hdat
        exact hd ⟨d, hdG, by simpa using hdat⟩
      have h2 : R.filter (fun c => decide (c.atCell t p x (specCl G t p))) = [] := by
        apply List.filter_eq_nil_iff.mpr
        intro d hdR hdat
        exact hd ⟨d, hRG d hdR, by simpa using hdat⟩
      rw [h1, h2]

/-- **Quiescence, CRDT level.**  A set `R` of changes of the log `G` that contains every change of
`G` that is not dominated has the specification of `G`, and is incarnation-complete if `G` is. -/
theorem spec_of_held {G R : List Chg} (hRG : ∀ e ∈ R, e ∈ G) (hok : ∀ c ∈ G, ChgOK c)
    (hheld : ∀ c ∈ G, c ∈ R ∨ Dom G c) (hnt : NoTies G) (hcs : CompleteStrong G) :
    spec R = spec G ∧ CompleteStrong R := by
  have hpos : ∀ c ∈ G, 1 ≤ c.cl := fun c hc => (hok c hc).1
  constructor
  · funext t p
    show RowView.mk _ _ = RowView.mk _ _
    congr 1
    · exact specCl_eq_of_held hRG hheld hnt hpos t p
    · funext x
      exact specCell_eq_of_held hRG hheld hnt hpos t p x
  · intro c hc hns hodd
    rw [specCl_eq_of_held hRG hheld hnt hpos] at hodd ⊢
    obtain ⟨d0, hd0, hd0at, _⟩ := hcs c (hRG c hc) hns hodd
    obtain ⟨cs, hcsR, hcsG, hcsat, _⟩ := exists_top_cell hheld hnt c.tbl c.pk c.cid hns ⟨d0, hd0, hd0at⟩
    refine ⟨cs, hcsR, hcsat, (hok cs hcsG).2.2.2.2.1 ?_⟩
    rw [hcsat.2.2.1]; exact hns

end Corro.ClusterSys
