/-
The pieces of `processOne` / `processActor` / `Node.deliver`, named (all by `rfl`), and what a batch
of INCOMPLETE chunks does (C03 "invisible until covered").
-/
import Corro.Lemmas.NodeBook
namespace Corro.Node
open Corro.Crdt

def stBuffer (st : TxSt) (site ver lo hi last : Nat) (cs : List Chg) : TxSt :=
  let r := st.node.bufferChunk site ver lo hi last cs
  { node := r.1, seen := seenInsert st.seen (ver, ver) (some ⟨[r.2], last⟩),
    processed := st.processed ++ [⟨ver, ver, some ⟨[r.2], last⟩⟩], clears := st.clears }

def stComplete (st : TxSt) (site ver : Nat) (cs : List Chg) : TxSt :=
  let n1 := st.node.mergeChanges cs
  { node := n1, seen := seenInsert st.seen (ver, ver) none,
    processed := st.processed ++ [⟨ver, ver, none⟩],
    clears := if hasBufferedMeta n1 site ver ver then st.clears ++ [(site, ver, ver)] else st.clears }

def stCleared (b0 : Booked) (st : TxSt) (site vlo vhi : Nat) : TxSt :=
  let n1 := if b0.max ≤ vhi then st.node.bumpDbv site vhi else st.node
  { node := n1, seen := seenInsert st.seen (vlo, vhi) none,
    processed := st.processed ++ [⟨vlo, vhi, none⟩],
    clears := if hasBufferedMeta n1 site vlo vhi then st.clears ++ [(site, vlo, vhi)] else st.clears }

theorem processOne_full (b0 : Booked) (st : TxSt) (site ver lo hi last : Nat) (cs : List Chg) :
    processOne b0 st (.full site ver lo hi last cs) =
      if b0.containsAll ver ver (some (lo, hi)) then st
      else if alreadySeen st.seen (.full site ver lo hi last cs) then st
      else if (lo == 0 && hi == last) && cs.isEmpty then stCleared b0 st site ver ver
      else if hi < lo then st
      else if lo == 0 && hi == last then stComplete st site ver cs
      else stBuffer st site ver lo hi last cs := rfl

theorem processOne_empty (b0 : Booked) (st : TxSt) (site vlo vhi : Nat) :
    processOne b0 st (.empty site vlo vhi) =
      if b0.containsAll vlo vhi none then st
      else if alreadySeen st.seen (.empty site vlo vhi) then st
      else stCleared b0 st site vlo vhi := rfl

def commitStep (site : Nat) (acc : Booked × List (Nat × Nat)) (p : Processed) : Booked × List (Nat × Nat) :=
  match p.part with
  | some part =>
    let r := acc.1.insertPartial p.vlo part
    if r.2.complete then (r.1, acc.2 ++ [(site, p.vlo)]) else (r.1, acc.2)
  | none => (acc.1.dropPartials p.vlo p.vhi, acc.2)

def txFold (n : Node) (site : Nat) (items : List Item) : TxSt :=
  items.foldl (processOne (n.booked site)) { node := n, seen := [], processed := [], clears := [] }

theorem processActor_eq (n : Node) (site : Nat) (items : List Item) :
    processActor n site items =
      if (txFold n site items).processed.isEmpty then ((txFold n site items).node, [], (txFold n site items).clears)
      else
        let r := (txFold n site items).processed.foldl (commitStep site)
          ((n.booked site).insertDb ((txFold n site items).processed.map (fun p => (p.vlo, p.vhi))), [])
        ((txFold n site items).node.setBooked site r.1, r.2, (txFold n site items).clears) := rfl

def unknownOf (n : Node) (batch : List Item) : List Item :=
  (dedupeBatch batch).filter (fun it =>
    !((n.booked it.site).containsAll it.versions.1 it.versions.2 it.seqs))

def actorStep (unknown : List Item) (acc : Node × List (Nat × Nat) × List (Nat × Nat × Nat)) (s : Nat) :
    Node × List (Nat × Nat) × List (Nat × Nat × Nat) :=
  let r := processActor acc.1 s (unknown.filter (·.site = s))
  (r.1, acc.2.1 ++ r.2.1, acc.2.2 ++ r.2.2)

def clearAll (n : Node) (clears : List (Nat × Nat × Nat)) : Node :=
  clears.foldl (fun n c => n.clearMeta c.1 c.2.1 c.2.2) n

def applyAll (n : Node) (applies : List (Nat × Nat)) : Node :=
  applies.foldl (fun n a => n.applyBuffered a.1 a.2) n

theorem deliver_eq (n : Node) (batch : List Item) :
    n.deliver batch =
      let r := (sitesOf (unknownOf n batch)).foldl (actorStep (unknownOf n batch)) (n, [], [])
      let n2 := clearAll r.1 r.2.2
      if n2.alive then applyAll n2 r.2.1 else n2 := rfl

/-- the background loops after the transaction: clear jobs always, applies only while alive -/
def finish (r : Node × List (Nat × Nat) × List (Nat × Nat × Nat)) : Node :=
  if (clearAll r.1 r.2.2).alive then applyAll (clearAll r.1 r.2.2) r.2.1 else clearAll r.1 r.2.2

/-- the fold of `processActor` over the actors of the batch -/
def deliverFold (n : Node) (batch : List Item) : Node × List (Nat × Nat) × List (Nat × Nat × Nat) :=
  (sitesOf (unknownOf n batch)).foldl (actorStep (unknownOf n batch)) (n, [], [])

theorem deliver_eq' (n : Node) (batch : List Item) : n.deliver batch = finish (deliverFold n batch) := rfl

/-! ### generic fold invariant -/

theorem foldl_inv {α σ : Type} (P : σ → Prop) (f : σ → α → σ) (l : List α) (s : σ) (h0 : P s)
    (hstep : ∀ s a, a ∈ l → P s → P (f s a)) : P (l.foldl f s) := by
  induction l generalizing s with
  | nil => exact h0
  | cons a l ih =>
    exact ih (f s a) (hstep s a (by simp) h0) (fun s' a' ha' => hstep s' a' (by simp [ha']))

theorem mem_dedupeBatch {batch : List Item} {it : Item} (h : it ∈ dedupeBatch batch) : it ∈ batch := by
  unfold dedupeBatch at h
  suffices hs : ∀ (l acc : List Item), it ∈ l.foldl (fun acc it =>
      if acc.any (fun x => x.site = it.site ∧ x.versions = it.versions ∧ x.seqs = it.seqs) then acc
      else acc ++ [it]) acc → it ∈ acc ∨ it ∈ l by
    rcases hs batch [] h with h | h
    · cases h
    · exact h
  intro l
  induction l with
  | nil => intro acc h; exact Or.inl h
  | cons a l ih =>
    intro acc h
    simp only [List.foldl_cons] at h
    split at h
    · rcases ih acc h with h | h
      · exact Or.inl h
      · exact Or.inr (by simp [h])
    · rcases ih _ h with h | h
      · rcases List.mem_append.mp h with h | h
        · exact Or.inl h
        · simp only [List.mem_singleton] at h; exact Or.inr (by simp [h])
      · exact Or.inr (by simp [h])

theorem mem_unknownOf {n : Node} {batch : List Item} {it : Item} (h : it ∈ unknownOf n batch) :
    it ∈ batch := mem_dedupeBatch (List.mem_filter.mp h).1

/-! ### `clearAll`, `applyAll` frames -/

@[simp] theorem clearAll_nil (n : Node) : clearAll n [] = n := rfl
@[simp] theorem applyAll_nil (n : Node) : applyAll n [] = n := rfl

theorem clearAll_db (n : Node) (cl : List (Nat × Nat × Nat)) : (clearAll n cl).db = n.db := by
  induction cl generalizing n with
  | nil => rfl
  | cons c cl ih => show (clearAll (n.clearMeta c.1 c.2.1 c.2.2) cl).db = _; rw [ih]; rfl

theorem clearAll_book (n : Node) (cl : List (Nat × Nat × Nat)) : (clearAll n cl).book = n.book := by
  induction cl generalizing n with
  | nil => rfl
  | cons c cl ih => show (clearAll (n.clearMeta c.1 c.2.1 c.2.2) cl).book = _; rw [ih]; rfl

theorem clearAll_alive (n : Node) (cl : List (Nat × Nat × Nat)) : (clearAll n cl).alive = n.alive := by
  induction cl generalizing n with
  | nil => rfl
  | cons c cl ih => show (clearAll (n.clearMeta c.1 c.2.1 c.2.2) cl).alive = _; rw [ih]; rfl

theorem clearAll_dbv (n : Node) (cl : List (Nat × Nat × Nat)) : (clearAll n cl).dbv = n.dbv := by
  induction cl generalizing n with
  | nil => rfl
  | cons c cl ih => show (clearAll (n.clearMeta c.1 c.2.1 c.2.2) cl).dbv = _; rw [ih]; rfl

/-- `applyBuffered` never touches the partials map -/
theorem partial?_applyBuffered (n : Node) (site ver a v : Nat) :
    ((n.applyBuffered site ver).booked a).partial? v = (n.booked a).partial? v := by
  unfold Node.applyBuffered
  simp only
  split
  · rfl
  · split
    · rfl
    · rw [booked_clearMeta]
      by_cases ha : a = site
      · subst ha
        rw [booked_setBooked_same, partial?_insertDb]
      · rw [booked_setBooked_other _ _ _ _ ha]
        split
        · rw [booked_bumpDbv]
        · rw [booked_mergeChanges]

theorem partial?_applyAll (n : Node) (ap : List (Nat × Nat)) (a v : Nat) :
    ((applyAll n ap).booked a).partial? v = (n.booked a).partial? v := by
  induction ap generalizing n with
  | nil => rfl
  | cons x ap ih =>
    show ((applyAll (n.applyBuffered x.1 x.2) ap).booked a).partial? v = _
    rw [ih, partial?_applyBuffered]

/-! ### incomplete chunks -/

/-- an incomplete chunk: a forward seq range that is not the whole `0..=last_seq` -/
def Item.incomplete : Item → Prop
  | .full _ _ lo hi last _ => lo ≤ hi ∧ ¬ (lo = 0 ∧ hi = last)
  | .empty .. => False

instance (it : Item) : Decidable it.incomplete := by
  cases it <;> unfold Item.incomplete <;> exact inferInstance

theorem processOne_incomplete (b0 : Booked) (st : TxSt) (it : Item) (h : it.incomplete) :
    processOne b0 st it = st ∨
      ∃ site ver lo hi last cs, it = .full site ver lo hi last cs ∧ lo ≤ hi ∧
        processOne b0 st it = stBuffer st site ver lo hi last cs := by
  cases it with
  | empty s a b => exact absurd h (by simp [Item.incomplete])
  | full site ver lo hi last cs =>
    simp only [Item.incomplete] at h
    have hc : (lo == 0 && hi == last) = false := by
      cases h1 : (lo == 0 && hi == last) with
      | false => rfl
      | true =>
        simp only [Bool.and_eq_true, beq_iff_eq] at h1
        exact absurd h1 h.2
    rw [processOne_full]
    split
    · exact Or.inl rfl
    · split
      · exact Or.inl rfl
      · rw [hc]
        simp only [Bool.false_and, Bool.false_eq_true, if_false]
        rw [if_neg (by omega)]
        exact Or.inr ⟨site, ver, lo, hi, last, cs, rfl, h.1, rfl⟩

/-- the state of the transaction after a list of incomplete chunks -/
structure IncSt (n : Node) (items : List Item) (st : TxSt) : Prop where
  db : st.node.db = n.db
  book : st.node.book = n.book
  alive : st.node.alive = n.alive
  dbv : st.node.dbv = n.dbv
  clears : st.clears = []
  proc : ∀ p ∈ st.processed, ∃ q, p.part = some q ∧ RSet.WF q.seqs ∧
    ∃ s lo hi last cs, Item.full s p.vlo lo hi last cs ∈ items

theorem txFold_incomplete (n : Node) (site : Nat) (items : List Item)
    (hinc : ∀ it ∈ items, it.incomplete) : IncSt n items (txFold n site items) := by
  unfold txFold
  apply foldl_inv (IncSt n items)
  · exact ⟨rfl, rfl, rfl, rfl, rfl, fun p hp => by cases hp⟩
  · intro st it hit hst
    rcases processOne_incomplete (n.booked site) st it (hinc it hit) with h | ⟨s, ver, lo, hi, last, cs, rfl, hlh, h⟩
    · rw [h]; exact hst
    · rw [h]
      refine ⟨hst.db, hst.book, hst.alive, hst.dbv, hst.clears, ?_⟩
      intro p hp
      unfold stBuffer at hp
      simp only at hp
      rcases List.mem_append.mp hp with hp | hp
      · exact hst.proc p hp
      · simp only [List.mem_singleton] at hp
        subst hp
        refine ⟨_, rfl, ?_, s, lo, hi, last, cs, hit⟩
        rw [bufferChunk_eq]
        have h1 := mergedLo_le st.node.seqRows s ver lo hi
        have h2 := le_mergedHi st.node.seqRows s ver lo hi
        refine ⟨Nat.zero_le _, ?_, trivial⟩
        show mergedLo st.node.seqRows s ver lo hi ≤ mergedHi st.node.seqRows s ver lo hi
        omega

/-- "every complete partial of `b` is still a complete partial of `b'`" -/
def CompleteLe (b b' : Booked) : Prop :=
  ∀ v q, b.partial? v = some q → q.complete = true → ∃ q', b'.partial? v = some q' ∧ q'.complete = true

theorem CompleteLe.refl (b : Booked) : CompleteLe b b := fun _ q h hc => ⟨q, h, hc⟩

theorem CompleteLe.trans {a b c : Booked} (h1 : CompleteLe a b) (h2 : CompleteLe b c) : CompleteLe a c := by
  intro v q h hc
  obtain ⟨q', h', hc'⟩ := h1 v q h hc
  exact h2 v q' h' hc'

theorem insertPartial_completeLe {b : Booked} (hb : b.PWF) (v : Nat) {p : Partial} (hp : RSet.WF p.seqs) :
    CompleteLe b (b.insertPartial v p).1 := by
  intro w q h hc
  by_cases hw : w = v
  · subst hw
    exact ⟨_, partial?_insertPartial_same b w p, mergedPartial_complete_mono hb w hp h hc⟩
  · exact ⟨q, by rw [partial?_insertPartial_other b v p w hw]; exact h, hc⟩

/-- invariant of the after-commit fold for a transaction of incomplete chunks -/
structure CommitInv (site : Nat) (b1 : Booked) (l : List Processed) (acc : Booked × List (Nat × Nat)) : Prop where
  pwf : acc.1.PWF
  le : CompleteLe b1 acc.1
  app : ∀ a ∈ acc.2, a.1 = site ∧ (∃ p ∈ l, p.vlo = a.2) ∧
    ∃ q, acc.1.partial? a.2 = some q ∧ q.complete = true

theorem commitFold_incomplete (site : Nat) (b1 : Booked) (hb : b1.PWF) (l : List Processed)
    (hl : ∀ p ∈ l, ∃ q, p.part = some q ∧ RSet.WF q.seqs) :
    CommitInv site b1 l (l.foldl (commitStep site) (b1, [])) := by
  apply foldl_inv (CommitInv site b1 l)
  · exact ⟨hb, CompleteLe.refl _, fun a ha => by cases ha⟩
  · intro acc p hp hacc
    obtain ⟨q, hq, hqw⟩ := hl p hp
    unfold commitStep
    rw [hq]
    simp only
    have hle := insertPartial_completeLe hacc.pwf p.vlo hqw
    have hpwf := insertPartial_pwf hacc.pwf p.vlo hqw
    have hkeep : ∀ a ∈ acc.2, a.1 = site ∧ (∃ p ∈ l, p.vlo = a.2) ∧
        ∃ q', (acc.1.insertPartial p.vlo q).1.partial? a.2 = some q' ∧ q'.complete = true := by
      intro a ha
      obtain ⟨h1, h2, q0, h3, h4⟩ := hacc.app a ha
      exact ⟨h1, h2, hle a.2 q0 h3 h4⟩
    split
    · rename_i hc
      refine ⟨hpwf, hacc.le.trans hle, ?_⟩
      intro a ha
      rcases List.mem_append.mp ha with ha | ha
      · exact hkeep a ha
      · simp only [List.mem_singleton] at ha
        subst ha
        refine ⟨rfl, ⟨p, hp, rfl⟩, _, partial?_insertPartial_same acc.1 p.vlo q, ?_⟩
        rw [insertPartial_snd] at hc
        exact hc
    · exact ⟨hpwf, hacc.le.trans hle, hkeep⟩

/-- what one actor's share of a batch of incomplete chunks does -/
theorem processActor_incomplete (n : Node) (site : Nat) (items : List Item)
    (hinc : ∀ it ∈ items, it.incomplete) (hwf : n.BookWF) :
    (processActor n site items).1.db = n.db ∧
    (processActor n site items).1.alive = n.alive ∧
    (processActor n site items).2.2 = [] ∧
    (processActor n site items).1.BookWF ∧
    (∀ s, CompleteLe (n.booked s) ((processActor n site items).1.booked s)) ∧
    (∀ a ∈ (processActor n site items).2.1, a.1 = site ∧
      (∃ s lo hi last cs, Item.full s a.2 lo hi last cs ∈ items) ∧
      ∃ q, (((processActor n site items).1.booked site).partial? a.2 = some q ∧ q.complete = true)) := by
  have hst := txFold_incomplete n site items hinc
  have hbk : ∀ s, (txFold n site items).node.booked s = n.booked s := by
    intro s; unfold Node.booked; rw [hst.book]
  have hnwf : (txFold n site items).node.BookWF := by unfold Node.BookWF; rw [hst.book]; exact hwf
  rw [processActor_eq]
  split
  · refine ⟨hst.db, hst.alive, hst.clears, hnwf, ?_, ?_⟩
    · intro s; rw [hbk]; exact CompleteLe.refl _
    · intro a ha; cases ha
  · have hb1 : ((n.booked site).insertDb ((txFold n site items).processed.map (fun p => (p.vlo, p.vhi)))).PWF :=
      insertDb_pwf (booked_pwf hwf site) _
    have hci := commitFold_incomplete site _ hb1 (txFold n site items).processed
      (fun p hp => by obtain ⟨q, h1, h2, _⟩ := hst.proc p hp; exact ⟨q, h1, h2⟩)
    simp only
    refine ⟨by rw [setBooked_db]; exact hst.db, by rw [setBooked_alive]; exact hst.alive, hst.clears,
      setBooked_bookWF hnwf site hci.pwf, ?_, ?_⟩
    · intro s
      by_cases hs : s = site
      · subst hs
        rw [booked_setBooked_same]
        intro v q h hc
        exact hci.le v q (by rw [partial?_insertDb]; exact h) hc
      · rw [booked_setBooked_other _ _ _ _ hs, hbk]; exact CompleteLe.refl _
    · intro a ha
      obtain ⟨h1, ⟨p, hp, hpv⟩, h3⟩ := hci.app a ha
      rw [booked_setBooked_same]
      refine ⟨h1, ?_, h3⟩
      obtain ⟨_, _, _, s, lo, hi, last, cs, hmem⟩ := hst.proc p hp
      exact ⟨s, lo, hi, last, cs, by rw [← hpv]; exact hmem⟩

/-- invariant of the fold over the actors of a batch of incomplete chunks -/
structure IncDeliver (n : Node) (batch : List Item)
    (acc : Node × List (Nat × Nat) × List (Nat × Nat × Nat)) : Prop where
  db : acc.1.db = n.db
  alive : acc.1.alive = n.alive
  clears : acc.2.2 = []
  wf : acc.1.BookWF
  app : ∀ a ∈ acc.2.1, (∃ lo hi last cs, Item.full a.1 a.2 lo hi last cs ∈ batch) ∧
    ∃ q, (acc.1.booked a.1).partial? a.2 = some q ∧ q.complete = true

theorem deliverFold_incomplete (n : Node) (batch : List Item) (hinc : ∀ it ∈ batch, it.incomplete)
    (hwf : n.BookWF) :
    IncDeliver n batch ((sitesOf (unknownOf n batch)).foldl (actorStep (unknownOf n batch)) (n, [], [])) := by
  apply foldl_inv (IncDeliver n batch)
  · exact ⟨rfl, rfl, rfl, hwf, fun a ha => by cases ha⟩
  · intro acc s _ hacc
    have hitems : ∀ it ∈ (unknownOf n batch).filter (·.site = s), it.incomplete := by
      intro it hit
      exact hinc it (mem_unknownOf (List.mem_filter.mp hit).1)
    obtain ⟨h1, h2, h3, h4, h5, h6⟩ := processActor_incomplete acc.1 s _ hitems hacc.wf
    unfold actorStep
    simp only
    refine ⟨h1.trans hacc.db, h2.trans hacc.alive, by rw [hacc.clears, h3]; rfl, h4, ?_⟩
    intro a ha
    rcases List.mem_append.mp ha with ha | ha
    · obtain ⟨hb, q, hq, hc⟩ := hacc.app a ha
      exact ⟨hb, h5 a.1 a.2 q hq hc⟩
    · obtain ⟨ha1, ⟨s', lo, hi, last, cs, hm⟩, hq⟩ := h6 a ha
      have hm' := List.mem_filter.mp hm
      have hs' : s' = s := of_decide_eq_true hm'.2
      refine ⟨⟨lo, hi, last, cs, ?_⟩, ?_⟩
      · rw [ha1, ← hs']; exact mem_unknownOf hm'.1
      · rw [ha1]; exact hq

/-- the part that needs no well-formedness: the store, the liveness flag and the clear jobs -/
theorem processActor_incomplete_db (n : Node) (site : Nat) (items : List Item)
    (hinc : ∀ it ∈ items, it.incomplete) :
    (processActor n site items).1.db = n.db ∧ (processActor n site items).1.alive = n.alive ∧
    (processActor n site items).2.2 = [] := by
  have hst := txFold_incomplete n site items hinc
  rw [processActor_eq]
  split
  · exact ⟨hst.db, hst.alive, hst.clears⟩
  · exact ⟨by simp only [setBooked_db]; exact hst.db, by simp only [setBooked_alive]; exact hst.alive,
      hst.clears⟩

theorem deliverFold_incomplete_db (n : Node) (batch : List Item) (hinc : ∀ it ∈ batch, it.incomplete) :
    let r := (sitesOf (unknownOf n batch)).foldl (actorStep (unknownOf n batch)) (n, [], [])
    r.1.db = n.db ∧ r.1.alive = n.alive ∧ r.2.2 = [] := by
  apply foldl_inv (fun (acc : Node × List (Nat × Nat) × List (Nat × Nat × Nat)) =>
    acc.1.db = n.db ∧ acc.1.alive = n.alive ∧ acc.2.2 = [])
  · exact ⟨rfl, rfl, rfl⟩
  · intro acc s _ hacc
    have hitems : ∀ it ∈ (unknownOf n batch).filter (·.site = s), it.incomplete := by
      intro it hit
      exact hinc it (mem_unknownOf (List.mem_filter.mp hit).1)
    obtain ⟨h1, h2, h3⟩ := processActor_incomplete_db acc.1 s _ hitems
    unfold actorStep
    simp only
    exact ⟨h1.trans hacc.1, h2.trans hacc.2.1, by rw [hacc.2.2, h3]; rfl⟩

/-- a dead node (apply loop not running) never changes its store on incomplete chunks -/
theorem deliver_incomplete_dead (n : Node) (batch : List Item) (hinc : ∀ it ∈ batch, it.incomplete)
    (hd : n.alive = false) : (n.deliver batch).db = n.db := by
  obtain ⟨h1, h2, h3⟩ := deliverFold_incomplete_db n batch hinc
  rw [deliver_eq]
  simp only
  rw [h3, clearAll_nil, h2, hd]
  simp only [Bool.false_eq_true, if_false]
  exact h1

/-- an alive node changes its store on a batch of incomplete chunks only if the batch completed a
partial: some chunk's version has a complete partial in the resulting bookkeeping -/
theorem deliver_incomplete_alive (n : Node) (batch : List Item) (hinc : ∀ it ∈ batch, it.incomplete)
    (hwf : n.BookWF) :
    (n.deliver batch).db = n.db ∨
      ∃ site ver lo hi last cs q, Item.full site ver lo hi last cs ∈ batch ∧
        ((n.deliver batch).booked site).partial? ver = some q ∧ q.complete = true := by
  have hinv := deliverFold_incomplete n batch hinc hwf
  rw [deliver_eq]
  simp only
  rw [hinv.clears, clearAll_nil]
  split
  · cases hap : ((sitesOf (unknownOf n batch)).foldl (actorStep (unknownOf n batch)) (n, [], [])).2.1 with
    | nil => left; rw [applyAll_nil]; exact hinv.db
    | cons a ap =>
      right
      obtain ⟨⟨lo, hi, last, cs, hm⟩, q, hq, hc⟩ := hinv.app a (by rw [hap]; simp)
      exact ⟨a.1, a.2, lo, hi, last, cs, q, hm, by rw [partial?_applyAll]; exact hq, hc⟩
  · left; exact hinv.db

end Corro.Node
