/-
C01, protocol level, WITH crashes and restarts — the per-node invariant `CInv P L n R` that survives
`kill` and `restart` (it generalises `LInv` of `ClusterInv.lean`, which is about alive nodes only):

* a partial may be COMPLETE BUT UNAPPLIED (complete, sequence rows still there) for the versions
  allowed by `P` — on a killed node (the apply loop is gone) or between the reload and the
  re-scheduled applies of a restart; such a version is not `Held`;
* `rheld` ("everything merged belongs to a held version") is FALSE across crashes: a version that was
  complete and applied can receive a further chunk while the node is killed, and after the restart
  its partial is rebuilt from the sequence rows of that chunk alone.  It is replaced by `rgot`:
  everything merged belongs to a version ALL of whose changes are merged or dominated;
* `dbv_le`: the durable db-version row of an actor never exceeds the in-memory head (what makes the
  head rebuilt by `from_conn` at most the old one).

This file: the definition, weakening of `P`, and the closing step (`cinv_close`, `cinv_cleared`).
-/
import Corro.Lemmas.ClusterConv
import Corro.Lemmas.NodeRoundtrip

namespace Corro.ClusterSys.Crash
open Corro.Crdt Corro.Node Corro.ClusterSys

/-- invariant of a node (dead or alive) with ghost list `R`, relative to the log `L`; `P a v` says
that `(a, v)` may be complete but unapplied -/
structure CInv (P : Nat → Nat → Prop) (L : Log) (n : Node) (R : List Chg) : Prop where
  sorted : n.book.Pairwise (fun x y => x.1 < y.1)
  needed_wf : ∀ a, RSet.WF (n.booked a).needed
  pwf : ∀ a, (n.booked a).PWF
  keys : ∀ a, (n.booked a).KeysSorted
  rows_fwd : ∀ r ∈ n.seqRows, r.lo ≤ r.hi
  rows_le : ∀ r ∈ n.seqRows, r.ver ≤ (n.booked r.site).max
  head_le : ∀ a, (n.booked a).max ≤ L.head a
  part_known : ∀ a v p, (n.booked a).partial? v = some p → (n.booked a).containsVersion v = true
  /-- a partial is complete and applied, or incomplete with its received ranges in the sequence
  rows, or (where `P` allows) complete and not yet applied -/
  part_state : ∀ a v p, (n.booked a).partial? v = some p →
    (p.complete = true ∧ ¬ HasRows n a v) ∨
    (p.complete = false ∧ HasRows n a v ∧ ∀ x, RSet.Mem p.seqs x → SeqMem n.seqRows a v x) ∨
    (P a v ∧ p.complete = true ∧ HasRows n a v)
  cover : ∀ a v x, SeqMem n.seqRows a v x → ∀ c ∈ L.get a v, c.seq = x → c ∈ n.buf ∨ Dom L.all c
  last_rows : ∀ r ∈ n.seqRows, ∀ c ∈ L.get r.site r.ver, r.last < c.seq → Dom L.all c
  last_part : ∀ a v p, (n.booked a).partial? v = some p → p.complete = false →
    ∀ c ∈ L.get a v, p.last < c.seq → Dom L.all c
  /-- **`held_inv`** -/
  held : ∀ a v, Held n a v → ∀ c ∈ L.get a v, c ∈ R ∨ Dom L.all c
  /-- everything merged belongs to a version all of whose changes are merged or dominated -/
  rgot : ∀ e ∈ R, ∀ c ∈ L.get e.site e.dbv, c ∈ R ∨ Dom L.all c
  rows_part : ∀ r ∈ n.seqRows, ∃ p, (n.booked r.site).partial? r.ver = some p
  buf_rows : ∀ c ∈ n.buf, HasRows n c.site c.dbv
  dbv_le : ∀ a, dbvOf n a ≤ (n.booked a).max

/-- nothing may be pending -/
abbrev NoneP : Nat → Nat → Prop := fun _ _ => False
/-- anything may be pending -/
abbrev AnyP : Nat → Nat → Prop := fun _ _ => True

/-- the invariant of a node of the cluster: versions may be complete but unapplied only while the
node is killed -/
abbrev KInv (L : Log) (n : Node) (R : List Chg) : Prop := CInv (fun _ _ => n.alive = false) L n R

theorem CInv.mono {P Q : Nat → Nat → Prop} {L : Log} {n : Node} {R : List Chg} (h : CInv P L n R)
    (hPQ : ∀ a v, P a v → Q a v) : CInv Q L n R := by
  refine ⟨h.sorted, h.needed_wf, h.pwf, h.keys, h.rows_fwd, h.rows_le, h.head_le, h.part_known, ?_, h.cover,
    h.last_rows, h.last_part, h.held, h.rgot, h.rows_part, h.buf_rows, h.dbv_le⟩
  intro a v p hp
  rcases h.part_state a v p hp with h1 | h1 | ⟨h1, h2⟩
  · exact Or.inl h1
  · exact Or.inr (Or.inl h1)
  · exact Or.inr (Or.inr ⟨hPQ a v h1, h2⟩)

/-- a node on which every complete partial has been applied satisfies the invariant with nothing
pending -/
theorem CInv.settle {P : Nat → Nat → Prop} {L : Log} {n : Node} {R : List Chg} (h : CInv P L n R)
    (hnp : NoPending n) : CInv NoneP L n R := by
  refine ⟨h.sorted, h.needed_wf, h.pwf, h.keys, h.rows_fwd, h.rows_le, h.head_le, h.part_known, ?_, h.cover,
    h.last_rows, h.last_part, h.held, h.rgot, h.rows_part, h.buf_rows, h.dbv_le⟩
  intro a v p hp
  rcases h.part_state a v p hp with h1 | h1 | ⟨_, h2, h3⟩
  · exact Or.inl h1
  · exact Or.inr (Or.inl h1)
  · exact absurd h3 (hnp a v p hp h2)

/-- only membership in the ghost list matters -/
theorem CInv.congr_R {P : Nat → Nat → Prop} {L : Log} {n : Node} {R R' : List Chg} (h : CInv P L n R)
    (hR : ∀ e, e ∈ R' ↔ e ∈ R) : CInv P L n R' := by
  refine ⟨h.sorted, h.needed_wf, h.pwf, h.keys, h.rows_fwd, h.rows_le, h.head_le, h.part_known, h.part_state,
    h.cover, h.last_rows, h.last_part, ?_, ?_, h.rows_part, h.buf_rows, h.dbv_le⟩
  · intro a v hh c hc
    rcases h.held a v hh c hc with h1 | h1
    · exact Or.inl ((hR c).mpr h1)
    · exact Or.inr h1
  · intro e he c hc
    rcases h.rgot e ((hR e).mp he) c hc with h1 | h1
    · exact Or.inl ((hR c).mpr h1)
    · exact Or.inr h1

/-- on a node with nothing pending every complete partial is applied -/
theorem CInv.noPending {L : Log} {n : Node} {R : List Chg} (h : CInv NoneP L n R) : NoPending n := by
  intro a v p hp hc
  rcases h.part_state a v p hp with h1 | ⟨h1, _⟩ | ⟨h1, _⟩
  · exact h1.2
  · rw [hc] at h1; cases h1
  · exact absurd h1 id

/-! ### a range of versions of one actor becomes held -/

/-- **the closing step** (any node, dead or alive): `n'` is `n` after the versions `vlo..=vhi` of
actor `a` were completed, cleared or applied. -/
theorem cinv_close {P P' : Nat → Nat → Prop} {L : Log} {n n' : Node} {R R' : List Chg} {a vlo vhi : Nat}
    (hI : CInv P L n R) (hL : LogOK L)
    (hP : ∀ a' w, ¬ (a' = a ∧ vlo ≤ w ∧ w ≤ vhi) → P a' w → P' a' w)
    (c_sorted : n'.book.Pairwise (fun x y => x.1 < y.1))
    (c_other : ∀ a', a' ≠ a → n'.booked a' = n.booked a')
    (c_cv : ∀ w, (n'.booked a).containsVersion w = true ↔
      (vlo ≤ w ∧ w ≤ vhi) ∨ (n.booked a).containsVersion w = true)
    (c_wf : RSet.WF (n'.booked a).needed) (c_pwf : (n'.booked a).PWF)
    (c_keys : (n'.booked a).KeysSorted)
    (c_max : (n.booked a).max ≤ (n'.booked a).max) (c_head : (n'.booked a).max ≤ L.head a)
    (c_part : ∀ w, ¬ (vlo ≤ w ∧ w ≤ vhi) → (n'.booked a).partial? w = (n.booked a).partial? w)
    (c_part_in : ∀ w p, vlo ≤ w → w ≤ vhi → (n'.booked a).partial? w = some p → p.complete = true)
    (c_rows : ∀ r, r ∈ n'.seqRows ↔ r ∈ n.seqRows ∧ ¬ (r.site = a ∧ vlo ≤ r.ver ∧ r.ver ≤ vhi))
    (c_buf : ∀ c, c ∈ n'.buf ↔ c ∈ n.buf ∧ ¬ (c.site = a ∧ vlo ≤ c.dbv ∧ c.dbv ≤ vhi))
    (c_R : ∀ e ∈ R, e ∈ R') (c_new : ∀ e ∈ R', e ∈ R ∨ (e.site = a ∧ vlo ≤ e.dbv ∧ e.dbv ≤ vhi))
    (c_data : ∀ v, vlo ≤ v → v ≤ vhi → ∀ c ∈ L.get a v, c ∈ R' ∨ Dom L.all c)
    (c_dbv : ∀ a', dbvOf n' a' ≤ (n'.booked a').max) :
    CInv P' L n' R' ∧
    (∀ a' w, Held n' a' w ↔ (a' = a ∧ vlo ≤ w ∧ w ≤ vhi) ∨ Held n a' w) ∧
    (∀ a' w, ¬ (a' = a ∧ vlo ≤ w ∧ w ≤ vhi) → (n'.booked a').partial? w = (n.booked a').partial? w) := by
  have hHR := hasRows_iff_of_rows c_rows
  have hSM := seqMem_iff_of_rows c_rows
  have held_back : ∀ a' w, Held n' a' w → (a' = a ∧ vlo ≤ w ∧ w ≤ vhi) ∨ Held n a' w := by
    intro a' w ⟨h1, h2⟩
    by_cases hin : a' = a ∧ vlo ≤ w ∧ w ≤ vhi
    · exact Or.inl hin
    · right
      by_cases ha : a' = a
      · subst ha
        have hw : ¬ (vlo ≤ w ∧ w ≤ vhi) := fun h => hin ⟨rfl, h⟩
        refine ⟨?_, ?_⟩
        · rcases (c_cv w).mp h1 with h | h
          · exact absurd h hw
          · exact h
        · intro p hp
          rw [← c_part w hw] at hp
          obtain ⟨h3, h4⟩ := h2 p hp
          exact ⟨h3, fun hr => h4 ((hHR a' w).mpr ⟨hr, hin⟩)⟩
      · rw [c_other a' ha] at h1 h2
        refine ⟨h1, ?_⟩
        intro p hp
        obtain ⟨h3, h4⟩ := h2 p hp
        exact ⟨h3, fun hr => h4 ((hHR a' w).mpr ⟨hr, hin⟩)⟩
  have held_in : ∀ w, vlo ≤ w → w ≤ vhi → Held n' a w := by
    intro w h1 h2
    refine ⟨(c_cv w).mpr (Or.inl ⟨h1, h2⟩), ?_⟩
    intro p hp
    exact ⟨c_part_in w p h1 h2 hp, fun hr => ((hHR a w).mp hr).2 ⟨rfl, h1, h2⟩⟩
  have held_fwd : ∀ a' w, Held n a' w → Held n' a' w := by
    intro a' w ⟨h1, h2⟩
    by_cases ha : a' = a
    · subst ha
      by_cases hw : vlo ≤ w ∧ w ≤ vhi
      · exact held_in w hw.1 hw.2
      · refine ⟨(c_cv w).mpr (Or.inr h1), ?_⟩
        intro p hp
        rw [c_part w hw] at hp
        obtain ⟨h3, h4⟩ := h2 p hp
        exact ⟨h3, fun hr => h4 ((hHR a' w).mp hr).1⟩
    · refine ⟨by rw [c_other a' ha]; exact h1, ?_⟩
      intro p hp
      rw [c_other a' ha] at hp
      obtain ⟨h3, h4⟩ := h2 p hp
      exact ⟨h3, fun hr => h4 ((hHR a' w).mp hr).1⟩
  have main : CInv P' L n' R' := by
    refine ⟨c_sorted, ?_, ?_, ?_, ?_, ?_, ?_, ?_, ?_, ?_, ?_, ?_, ?_, ?_, ?_, ?_, c_dbv⟩
    · intro a'
      by_cases ha : a' = a
      · subst ha; exact c_wf
      · rw [c_other a' ha]; exact hI.needed_wf a'
    · intro a'
      by_cases ha : a' = a
      · subst ha; exact c_pwf
      · rw [c_other a' ha]; exact hI.pwf a'
    · intro a'
      by_cases ha : a' = a
      · subst ha; exact c_keys
      · rw [c_other a' ha]; exact hI.keys a'
    · intro r hr; exact hI.rows_fwd r ((c_rows r).mp hr).1
    · intro r hr
      have := hI.rows_le r ((c_rows r).mp hr).1
      by_cases ha : r.site = a
      · rw [ha] at this ⊢; omega
      · rw [c_other _ ha]; exact this
    · intro a'
      by_cases ha : a' = a
      · subst ha; exact c_head
      · rw [c_other a' ha]; exact hI.head_le a'
    · intro a' w p hp
      by_cases ha : a' = a
      · subst ha
        by_cases hw : vlo ≤ w ∧ w ≤ vhi
        · exact (c_cv w).mpr (Or.inl hw)
        · rw [c_part w hw] at hp
          exact (c_cv w).mpr (Or.inr (hI.part_known a' w p hp))
      · rw [c_other a' ha] at hp ⊢
        exact hI.part_known a' w p hp
    · intro a' w p hp
      by_cases hin : a' = a ∧ vlo ≤ w ∧ w ≤ vhi
      · obtain ⟨rfl, h1, h2⟩ := hin
        exact Or.inl ⟨c_part_in w p h1 h2 hp, fun hr => ((hHR a' w).mp hr).2 ⟨rfl, h1, h2⟩⟩
      · have hp' : (n.booked a').partial? w = some p := by
          by_cases ha : a' = a
          · subst ha
            rw [← c_part w (fun h => hin ⟨rfl, h⟩)]; exact hp
          · rw [← c_other a' ha]; exact hp
        rcases hI.part_state a' w p hp' with ⟨h1, h2⟩ | ⟨h1, h2, h3⟩ | ⟨h0, h1, h2⟩
        · exact Or.inl ⟨h1, fun hr => h2 ((hHR a' w).mp hr).1⟩
        · exact Or.inr (Or.inl ⟨h1, (hHR a' w).mpr ⟨h2, hin⟩, fun x hx => (hSM a' w x).mpr ⟨h3 x hx, hin⟩⟩)
        · exact Or.inr (Or.inr ⟨hP a' w hin h0, h1, (hHR a' w).mpr ⟨h2, hin⟩⟩)
    · intro a' w x hx c hc hcx
      obtain ⟨hx1, hx2⟩ := (hSM a' w x).mp hx
      rcases hI.cover a' w x hx1 c hc hcx with h | h
      · left
        refine (c_buf c).mpr ⟨h, ?_⟩
        obtain ⟨_, h1, h2, _⟩ := hL.mem_get hc
        rw [h1, h2]; exact hx2
      · exact Or.inr h
    · intro r hr; exact hI.last_rows r ((c_rows r).mp hr).1
    · intro a' w p hp hc
      by_cases hin : a' = a ∧ vlo ≤ w ∧ w ≤ vhi
      · obtain ⟨rfl, h1, h2⟩ := hin
        rw [c_part_in w p h1 h2 hp] at hc; cases hc
      · have hp' : (n.booked a').partial? w = some p := by
          by_cases ha : a' = a
          · subst ha
            rw [← c_part w (fun h => hin ⟨rfl, h⟩)]; exact hp
          · rw [← c_other a' ha]; exact hp
        exact hI.last_part a' w p hp' hc
    · intro a' w hh c hc
      rcases held_back a' w hh with ⟨rfl, h1, h2⟩ | h
      · exact c_data w h1 h2 c hc
      · rcases hI.held a' w h c hc with h | h
        · exact Or.inl (c_R c h)
        · exact Or.inr h
    · intro e he c hc
      rcases c_new e he with h | ⟨h1, h2, h3⟩
      · rcases hI.rgot e h c hc with h' | h'
        · exact Or.inl (c_R c h')
        · exact Or.inr h'
      · rw [h1] at hc
        exact c_data e.dbv h2 h3 c hc
    · intro r hr
      obtain ⟨hr1, hr2⟩ := (c_rows r).mp hr
      obtain ⟨p, hp⟩ := hI.rows_part r hr1
      refine ⟨p, ?_⟩
      by_cases ha : r.site = a
      · rw [ha] at hp hr2 ⊢
        rw [c_part r.ver (fun h => hr2 ⟨rfl, h⟩)]; exact hp
      · rw [c_other _ ha]; exact hp
    · intro c hc
      obtain ⟨hc1, hc2⟩ := (c_buf c).mp hc
      exact (hHR c.site c.dbv).mpr ⟨hI.buf_rows c hc1, hc2⟩
  refine ⟨main, ?_, ?_⟩
  · intro a' w
    constructor
    · exact held_back a' w
    · rintro (⟨rfl, h1, h2⟩ | h)
      · exact held_in w h1 h2
      · exact held_fwd a' w h
  · intro a' w hne
    by_cases ha : a' = a
    · subst ha
      exact c_part w (fun h => hne ⟨rfl, h⟩)
    · rw [c_other a' ha]

/-! ### complete changesets and `Empty` ranges -/

theorem dbvOf_clearedNode (N : Node) (a vlo vhi : Nat) (B : Booked) (a' : Nat) :
    dbvOf (clearedNode N a vlo vhi B) a' = dbvOf N a' := by
  apply dbvOf_congr
  rw [clearedNode_eq]
  split <;> simp [Node.clearMeta, setBooked_dbv]

theorem cinv_cleared {P : Nat → Nat → Prop} {L : Log} {n N : Node} {R R' : List Chg} {a vlo vhi : Nat}
    (hI : CInv P L n R) (hL : LogOK L) (hbook : N.book = n.book) (hrows : N.seqRows = n.seqRows)
    (hbuf : N.buf = n.buf) (hlh : vlo ≤ vhi) (hhead : vhi ≤ L.head a)
    (hdbv : ∀ a', dbvOf N a' ≤ if a' = a then max (dbvOf n a) vhi else dbvOf n a')
    (c_R : ∀ e ∈ R, e ∈ R') (c_new : ∀ e ∈ R', e ∈ R ∨ (e.site = a ∧ vlo ≤ e.dbv ∧ e.dbv ≤ vhi))
    (c_data : ∀ v, vlo ≤ v → v ≤ vhi → ∀ c ∈ L.get a v, c ∈ R' ∨ Dom L.all c) :
    CInv P L (clearedNode N a vlo vhi (((n.booked a).insertDb [(vlo, vhi)]).dropPartials vlo vhi)) R' ∧
    (∀ a' w, Held (clearedNode N a vlo vhi (((n.booked a).insertDb [(vlo, vhi)]).dropPartials vlo vhi)) a' w ↔
      (a' = a ∧ vlo ≤ w ∧ w ≤ vhi) ∨ Held n a' w) ∧
    (∀ a' w, ¬ (a' = a ∧ vlo ≤ w ∧ w ≤ vhi) →
      ((clearedNode N a vlo vhi (((n.booked a).insertDb [(vlo, vhi)]).dropPartials vlo vhi)).booked a').partial? w =
        (n.booked a').partial? w) := by
  have hmax : ((n.booked a).insertDb [(vlo, vhi)]).max = max (n.booked a).max vhi := by
    rw [insertDb_max _ _ (by simp), sup_singleton]
  refine cinv_close hI hL (fun _ _ _ h => h) ?_ ?_ ?_ ?_ ?_ ?_ ?_ ?_ ?_ ?_ ?_ ?_ c_R c_new c_data ?_
  · exact clearedNode_sorted (by rw [hbook]; exact hI.sorted) _ _ _ _
  · intro a' ha
    rw [clearedNode_booked_other _ _ _ _ _ _ ha]
    exact booked_of_book hbook a'
  · intro w
    rw [clearedNode_booked_same, containsVersion_dropPartials]
    exact containsVersion_insertDb (hI.needed_wf a) hlh w
  · rw [clearedNode_booked_same, dropPartials_needed]
    exact insertDb_needed_wf (hI.needed_wf a) _ (by intro r hr; rw [List.mem_singleton] at hr; subst hr; exact hlh)
  · rw [clearedNode_booked_same]
    exact dropPartials_pwf (insertDb_pwf (hI.pwf a) _) _ _
  · rw [clearedNode_booked_same]
    exact dropPartials_keysSorted (insertDb_keysSorted (hI.keys a) _) _ _
  · rw [clearedNode_booked_same, dropPartials_max, hmax]; omega
  · rw [clearedNode_booked_same, dropPartials_max, hmax]
    have := hI.head_le a
    omega
  · intro w hw
    rw [clearedNode_booked_same, partial?_dropPartials, if_neg hw, partial?_insertDb]
  · intro w p h1 h2 hp
    rw [clearedNode_booked_same, partial?_dropPartials, if_pos ⟨h1, h2⟩] at hp
    cases hp
  · intro r; rw [mem_clearedNode_rows, hrows]
  · intro c; rw [mem_clearedNode_buf, hbuf]
  · intro a'
    rw [dbvOf_clearedNode]
    have h1 := hdbv a'
    by_cases ha : a' = a
    · subst ha
      rw [if_pos rfl] at h1
      rw [clearedNode_booked_same, dropPartials_max, hmax]
      have := hI.dbv_le a'
      omega
    · rw [if_neg ha] at h1
      rw [clearedNode_booked_other _ _ _ _ _ _ ha, booked_of_book hbook a']
      have := hI.dbv_le a'
      omega

end Corro.ClusterSys.Crash
