/-
Helper lemmas for C12: the invariant of `catch_up_sub` before and after the hand-over and its
preservation by every step of the transition system `Corro.CatchUp`.
-/
import Corro.Model.CatchUp

namespace Corro.CatchUp

/-! ### lists of ids -/

theorem idsFrom_self (a : Nat) : idsFrom a a = [] := by simp [idsFrom]

theorem idsFrom_of_le {a b : Nat} (h : b ≤ a) : idsFrom a b = [] := by
  simp [idsFrom, Nat.sub_eq_zero_of_le h]

theorem idsFrom_length (a b : Nat) : (idsFrom a b).length = b - a := by simp [idsFrom]

theorem idsFrom_append {a b c : Nat} (h1 : a ≤ b) (h2 : b ≤ c) :
    idsFrom a b ++ idsFrom b c = idsFrom a c := by
  unfold idsFrom
  have : b + 1 = (a + 1) + (b - a) := by omega
  rw [this, List.range'_append_1]
  congr 1
  omega

theorem idsFrom_succ {a b : Nat} (h : a ≤ b) : idsFrom a b ++ [b + 1] = idsFrom a (b + 1) := by
  have : [b + 1] = idsFrom b (b + 1) := by simp [idsFrom]
  rw [this, idsFrom_append h (Nat.le_succ b)]

theorem chg_append (a b : List Item) : chg (a ++ b) = chg a ++ chg b := by
  induction a with
  | nil => rfl
  | cons x r ih => cases x <;> simp [chg, ih]

theorem chg_map_change (l : List Nat) : chg (l.map Item.change) = l := by
  induction l with
  | nil => rfl
  | cons x r ih => simp [chg, ih]

/-! ### terminal items -/

/-- no `error` / `closed` in the output -/
def NoTerm (out : List Item) : Prop := ∀ x ∈ out, x ≠ Item.error ∧ x ≠ Item.closed

/-- `error` is followed by `closed` only, `closed` by nothing -/
def TermOk : List Item → Prop
  | [] => True
  | .closed :: r => r = []
  | .error :: r => r = [.closed]
  | _ :: r => TermOk r

theorem NoTerm.nil : NoTerm [] := by intro x h; cases h

theorem NoTerm.append {a b : List Item} (ha : NoTerm a) (hb : NoTerm b) : NoTerm (a ++ b) := by
  intro x hx
  rcases List.mem_append.mp hx with h | h
  · exact ha x h
  · exact hb x h

theorem NoTerm.map_change (l : List Nat) : NoTerm (l.map Item.change) := by
  intro x hx
  obtain ⟨k, _, rfl⟩ := List.mem_map.mp hx
  simp

theorem NoTerm.single_change (k : Nat) : NoTerm [Item.change k] := by
  intro x hx; simp at hx; subst hx; simp

theorem NoTerm.single_rows (k : Nat) : NoTerm [Item.rows k] := by
  intro x hx; simp at hx; subst hx; simp

theorem NoTerm.single_eoq (k : Nat) : NoTerm [Item.eoq k] := by
  intro x hx; simp at hx; subst hx; simp

theorem TermOk.of_noTerm_append {a : List Item} (h : NoTerm a) {t : List Item} (ht : TermOk t) :
    TermOk (a ++ t) := by
  induction a with
  | nil => simpa using ht
  | cons x r ih =>
    have hx := h x (List.mem_cons_self ..)
    have hr : NoTerm r := fun y hy => h y (List.mem_cons_of_mem _ hy)
    cases x <;> simp_all [TermOk]

theorem TermOk.of_noTerm {a : List Item} (h : NoTerm a) : TermOk a := by
  have := TermOk.of_noTerm_append h (t := []) trivial
  simpa using this

theorem termOk_err : TermOk [Item.error, Item.closed] := by simp [TermOk]
theorem termOk_closed : TermOk [Item.closed] := by simp [TermOk]

/-! ### invariants -/

/-- matcher / pipe / log sanity: sent before committed, published after sent, the purge never
deletes the newest entry -/
def EnvOk (e : Env) : Prop := e.committed ≤ e.sent ∧ e.published ≤ e.sent ∧ e.pruned ≤ e.committed

theorem envOk_step (cfg : Cfg) (e : Env) (a : Act) (h : EnvOk e) : EnvOk (stepEnv cfg e a) := by
  obtain ⟨sent, committed, pruned, published⟩ := e
  simp only [EnvOk] at h ⊢
  cases a <;> simp only [stepEnv] <;> (try split) <;> (try simp only []) <;> omega

/-- the changes delivered so far are exactly `base+1 ..= last` -/
def Pre (s : Sub) : Prop := ∃ b, s.base = some b ∧ b ≤ s.last ∧ chg s.out = idsFrom b s.last

/-- what holds at each program point of `catch_up_sub` before the hand-over -/
def PcInv (s : Sub) : Prop :=
  match s.pc with
  | .start => s.out = [] ∧ s.base = none
  | .readEoq pin => s.out = [.rows pin] ∧ s.base = none ∧ s.mode = .anew
  | .tryRecv => Pre s
  | .loop _ => Pre s ∧ s.minId ≤ s.last + 1 ∧
      ∃ t, s.target = some t ∧ s.qHead ≤ t + 1 ∧ ∀ p, s.pending = some p → p ≤ t
  | .afterLoop => Pre s ∧ s.minId ≤ s.last + 1 ∧
      ∃ t, s.target = some t ∧ s.qHead ≤ t + 1 ∧ ∀ p, s.pending = some p → p ≤ t
  | .sendPending => Pre s ∧ s.qHead ≤ s.last + 1 ∧ ∀ p, s.pending = some p → p ≤ s.last
  | .cancel => Pre s ∧ s.qHead ≤ s.last + 1
  | .drain => Pre s ∧ s.qHead ≤ s.last + 1
  | .join => Pre s ∧ s.qTail ≤ s.last + 1
  | .live => False
  | .done => Pre s

/-- invariant of a subscriber that has not been handed to `forward_sub_to_sender` yet -/
structure Inv (e : Env) (s : Sub) : Prop where
  q1 : s.qHead ≤ s.qTail
  q2 : s.qTail ≤ s.cur
  q3 : s.cur ≤ e.published + 1
  nh : s.handed = false
  term : if s.pc = .done then TermOk s.out else NoTerm s.out
  pcs : PcInv s

/-- invariant after the hand-over (code since cb48448): the changes delivered are still exactly
`base+1 ..= last`, and the receiver's next id is at most `last + 1` (nothing was skipped) -/
structure InvLive (e : Env) (s : Sub) : Prop where
  h : s.handed = true
  pc : s.pc = .live ∨ s.pc = .done
  q3 : s.cur ≤ e.published + 1
  term : if s.pc = .done then TermOk s.out else NoTerm s.out
  ids : Pre s
  cl : s.cur ≤ s.last + 1
  qt : s.qt ≠ .running

/-- the log read about to be made by the main task (if any) starts inside the retained log -/
def ReadOk (e : Env) (s : Sub) : Prop :=
  match s.pc with
  | .start => match s.mode with | .since n => e.pruned ≤ n | _ => True
  | .loop _ => e.pruned ≤ s.last
  | _ => True

theorem inv_attach (e : Env) (m : Mode) : Inv e (attach e m) := by
  refine ⟨?_, ?_, ?_, rfl, ?_, ?_⟩ <;> simp [attach, PcInv, NoTerm]

theorem logRead_ok {e : Env} {since : Nat} (h : e.pruned ≤ since) :
    logRead e since = ((idsFrom since e.committed).map Item.change, max since e.committed) := by
  simp [logRead, Nat.max_eq_left h]

theorem pre_read {s : Sub} {e : Env} (hp : Pre s) (h : e.pruned ≤ s.last) :
    Pre { s with last := (logRead e s.last).2, out := s.out ++ (logRead e s.last).1 } := by
  obtain ⟨b, hb, hle, hc⟩ := hp
  rw [logRead_ok h]
  refine ⟨b, hb, ?_, ?_⟩
  · simp only []; omega
  · simp only [chg_append, chg_map_change, hc]
    by_cases hcm : s.last ≤ e.committed
    · rw [Nat.max_eq_right hcm]; exact idsFrom_append hle hcm
    · have : e.committed ≤ s.last := by omega
      rw [Nat.max_eq_left this, idsFrom_of_le this]; simp


theorem published_mono (cfg : Cfg) (e : Env) (a : Act) : e.published ≤ (stepEnv cfg e a).published := by
  cases a <;> simp only [stepEnv] <;> (try split) <;> simp

theorem inv_stepEnv (cfg : Cfg) {e : Env} {s : Sub} (a : Act) (h : Inv e s) : Inv (stepEnv cfg e a) s :=
  ⟨h.q1, h.q2, Nat.le_trans h.q3 (Nat.succ_le_succ (published_mono cfg e a)), h.nh, h.term, h.pcs⟩

theorem invLive_stepEnv (cfg : Cfg) {e : Env} {s : Sub} (a : Act) (h : InvLive e s) :
    InvLive (stepEnv cfg e a) s :=
  ⟨h.h, h.pc, Nat.le_trans h.q3 (Nat.succ_le_succ (published_mono cfg e a)), h.term, h.ids, h.cl, h.qt⟩

theorem inv_qcancel {e : Env} {s : Sub} (h : Inv e s) : Inv e (stepQCancel s) := by
  unfold stepQCancel
  split
  · exact ⟨h.q1, h.q2, h.q3, h.nh, h.term, h.pcs⟩
  · exact h

theorem invLive_qcancel {e : Env} {s : Sub} (h : InvLive e s) : InvLive e (stepQCancel s) := by
  unfold stepQCancel
  split
  · exact ⟨h.h, h.pc, h.q3, h.term, h.ids, h.cl, by simp⟩
  · exact h

/-- One step of the main task before the hand-over: either the invariant still holds, or this was
the hand-over itself. -/
theorem inv_main (cfg : Cfg) {e : Env} {s : Sub} (he : EnvOk e) (h : Inv e s) (hr : ReadOk e s) :
    Inv e (stepMain cfg e s) ∨
      (s.pc = .join ∧ s.qt ≠ .failed ∧ stepMain cfg e s = { s with pc := .live, handed := true }) := by
  obtain ⟨q1, q2, q3, nh, term, pcs⟩ := h
  obtain ⟨he1, he2, he3⟩ := he
  obtain ⟨mode, pc, cur, qHead, qTail, qt, cancelled, last, minId, pending, target, base, handed, out⟩ := s
  simp only [] at q1 q2 q3 nh
  cases pc with
  | start =>
    left
    simp only [PcInv] at pcs
    obtain ⟨ho, hb⟩ := pcs
    subst ho hb
    cases mode with
    | anew =>
      simp only [stepMain]
      exact ⟨q1, q2, q3, nh, by simpa using NoTerm.single_rows _, by simp [PcInv]⟩
    | skip =>
      simp only [stepMain]
      exact ⟨q1, q2, q3, nh, by simpa using term, by simp [PcInv, Pre, chg, idsFrom]⟩
    | since n =>
      simp only [ReadOk] at hr
      simp only [stepMain, logRead_ok hr]
      refine ⟨q1, q2, q3, nh, ?_, ?_⟩
      · simpa using NoTerm.map_change _
      · simp only [PcInv, Pre, List.nil_append, chg_map_change]
        refine ⟨n, rfl, by omega, ?_⟩
        by_cases hc : n ≤ e.committed
        · rw [Nat.max_eq_right hc]
        · have : e.committed ≤ n := by omega
          rw [Nat.max_eq_left this, idsFrom_of_le this, idsFrom_self]
  | readEoq pin =>
    left
    simp only [PcInv] at pcs
    obtain ⟨ho, hb, _⟩ := pcs
    subst ho hb
    simp only [stepMain]
    refine ⟨q1, q2, q3, nh, ?_, ?_⟩
    · simpa using NoTerm.append (NoTerm.single_rows pin) (NoTerm.single_eoq pin)
    · simp [PcInv, Pre, chg, idsFrom]
  | tryRecv =>
    left
    simp only [PcInv] at pcs
    have term' : NoTerm out := by simpa using term
    simp only [stepMain]
    split
    · rename_i hq
      skip
      refine ⟨by first | omega | (simp only []; omega), q2, q3, nh, by simpa using term', ?_⟩
      simp only [PcInv]
      exact ⟨pcs, Nat.le_refl _, qHead, rfl, Nat.le_refl _, fun p hp => by cases hp; exact Nat.le_refl _⟩
    · split
      · refine ⟨q1, q2, q3, nh, ?_, ?_⟩
        · simpa using TermOk.of_noTerm_append term' termOk_err
        · obtain ⟨b, hb, hle, hc⟩ := pcs
          simp only [PcInv]
          exact ⟨b, hb, hle, by simpa [chg_append, chg] using hc⟩
      · split
        · rename_i hq _ hs
          skip
          refine ⟨q1, q2, q3, nh, by simpa using term', ?_⟩
          simp only [PcInv]
          refine ⟨pcs, by first | omega | (simp only []; omega), fun p hp => by cases hp⟩
        · rename_i hq _ hs
          skip
          refine ⟨q1, q2, q3, nh, by simpa using term', ?_⟩
          simp only [PcInv]
          exact ⟨pcs, Nat.le_refl _, e.sent, rfl, by first | omega | (simp only []; omega), fun p hp => by cases hp⟩
  | loop i =>
    left
    simp only [PcInv] at pcs
    obtain ⟨hp, hm, t, ht, hqt, hpt⟩ := pcs
    skip
    subst ht
    have term' : NoTerm out := by simpa using term
    simp only [ReadOk] at hr
    simp only [stepMain]
    split
    · split
      · have hp' := pre_read (e := e) hp hr
        rw [logRead_ok hr] at hp' ⊢
        refine ⟨q1, q2, q3, nh, ?_, ?_⟩
        · simpa using NoTerm.append term' (NoTerm.map_change _)
        · simp only [PcInv]
          exact ⟨hp', by first | omega | (simp only []; omega), t, rfl, hqt, hpt⟩
      · refine ⟨q1, q2, q3, nh, by simpa using term', ?_⟩
        simp only [PcInv]
        exact ⟨hp, Nat.le_refl _, t, rfl, hqt, hpt⟩
    · refine ⟨q1, q2, q3, nh, by simpa using term', ?_⟩
      simp only [PcInv]
      exact ⟨hp, hm, t, rfl, hqt, hpt⟩
  | afterLoop =>
    left
    simp only [PcInv] at pcs
    obtain ⟨hp, hm, t, ht, hqt, hpt⟩ := pcs
    skip
    subst ht
    have term' : NoTerm out := by simpa using term
    simp only [stepMain]
    split
    · refine ⟨q1, q2, q3, nh, ?_, ?_⟩
      · simpa using TermOk.of_noTerm_append term' termOk_err
      · obtain ⟨b, hb, hle, hc⟩ := hp
        simp only [PcInv]
        exact ⟨b, hb, hle, by simpa [chg_append, chg] using hc⟩
    · rename_i hlt
      try simp only [] at hlt
      refine ⟨q1, q2, q3, nh, by simpa using term', ?_⟩
      simp only [PcInv]
      refine ⟨hp, by first | omega | (simp only []; omega), fun p hp' => ?_⟩
      have := hpt p hp'
      first | omega | (simp only []; omega)
  | sendPending =>
    left
    simp only [PcInv] at pcs
    obtain ⟨hp, hq, hpl⟩ := pcs
    skip
    have term' : NoTerm out := by simpa using term
    cases pending with
    | none =>
      simp only [stepMain]
      exact ⟨q1, q2, q3, nh, by simpa using term', by simp only [PcInv]; exact ⟨hp, hq⟩⟩
    | some c =>
      have := hpl c rfl
      simp only [stepMain]
      split
      · dsimp only at *; omega
      · exact ⟨q1, q2, q3, nh, by simpa using term', by simp only [PcInv]; exact ⟨hp, hq⟩⟩
  | cancel =>
    left
    simp only [PcInv] at pcs
    have term' : NoTerm out := by simpa using term
    simp only [stepMain]
    exact ⟨q1, q2, q3, nh, by simpa using term', by simp only [PcInv]; exact pcs⟩
  | drain =>
    left
    simp only [PcInv] at pcs
    obtain ⟨hp, hq⟩ := pcs
    skip
    have term' : NoTerm out := by simpa using term
    simp only [stepMain]
    split
    · rename_i hne
      try simp only [] at hne
      split
      · rename_i hlt
        try simp only [] at hlt
        have heq : qHead = last + 1 := by omega
        subst heq
        refine ⟨by first | omega | (simp only []; omega), q2, q3, nh, ?_, ?_⟩
        · simpa using NoTerm.append term' (NoTerm.single_change _)
        · obtain ⟨b, hb, hle, hc⟩ := hp
          dsimp only at hb hle hc
          simp only [PcInv]
          refine ⟨⟨b, hb, by first | omega | (simp only []; omega), ?_⟩, Nat.le_refl _⟩
          simp only [chg_append, chg, hc] at hc ⊢
          exact idsFrom_succ hle
      · refine ⟨by first | omega | (simp only []; omega), q2, q3, nh, by simpa using term', ?_⟩
        simp only [PcInv]
        exact ⟨hp, by first | omega | (simp only []; omega)⟩
    · rename_i hge
      try dsimp only at hge
      split
      · exact ⟨q1, q2, q3, nh, by simpa using term', by simp only [PcInv]; exact ⟨hp, by omega⟩⟩
      · exact ⟨q1, q2, q3, nh, by simpa using term, by simp only [PcInv]; exact ⟨hp, hq⟩⟩
  | join =>
    simp only [PcInv] at pcs
    obtain ⟨hp, hq⟩ := pcs
    have term' : NoTerm out := by simpa using term
    simp only [stepMain]
    split
    · left
      refine ⟨q1, q2, q3, nh, ?_, ?_⟩
      · simpa using TermOk.of_noTerm_append term' termOk_err
      · obtain ⟨b, hb, hle, hc⟩ := hp
        simp only [PcInv]
        exact ⟨b, hb, hle, by simpa [chg_append, chg] using hc⟩
    · rename_i hf
      right
      refine ⟨by trivial, hf, ?_⟩
      first | rfl | trivial | simp
  | live => simp [PcInv] at pcs
  | done =>
    left
    simp only [stepMain]
    exact ⟨q1, q2, q3, nh, term, pcs⟩


/-- the main task waits in `join` only for a buffering task that has ended -/
def JoinQt (s : Sub) : Prop := s.pc = .join → (s.qt = .stopped ∨ s.qt = .failed)

theorem joinQt_attach (e : Env) (m : Mode) : JoinQt (attach e m) := by
  intro h; simp [attach] at h

theorem joinQt_qcancel {s : Sub} (h : JoinQt s) : JoinQt (stepQCancel s) := by
  unfold stepQCancel
  split
  · intro _; left; rfl
  · exact h

theorem joinQt_qrecv (cfg : Cfg) (e : Env) {s : Sub} (h : JoinQt s) : JoinQt (stepQRecv cfg e s) := by
  unfold stepQRecv
  split
  · rename_i hr
    have hn : s.pc ≠ .join := by
      intro hj; rcases h hj with h' | h' <;> rw [h'] at hr <;> cases hr
    split
    · split <;> (intro hj; exact absurd hj hn)
    · split
      · split
        · intro hj; exact absurd hj hn
        · intro hj; exact absurd hj hn
      · exact h
  · exact h

theorem joinQt_main (cfg : Cfg) (e : Env) {s : Sub} : JoinQt (stepMain cfg e s) := by
  obtain ⟨mode, pc, cur, qHead, qTail, qt, cancelled, last, minId, pending, target, base, handed, out⟩ := s
  unfold JoinQt
  cases pc <;> simp only [stepMain]
  case start => cases mode <;> simp
  case readEoq => simp
  case tryRecv => (repeat' split) <;> simp
  case loop => (repeat' split) <;> simp
  case afterLoop => (repeat' split) <;> simp
  case sendPending => (repeat' split) <;> simp
  case cancel => simp
  case drain =>
    split
    · split <;> simp
    · split
      · rename_i hq; intro _; exact hq
      · simp
  case join => split <;> simp
  case live => (repeat' split) <;> simp
  case done => simp

theorem inv_qrecv (cfg : Cfg) {e : Env} {s : Sub} (h : Inv e s) (hj : JoinQt s) :
    Inv e (stepQRecv cfg e s) := by
  obtain ⟨q1, q2, q3, nh, term, pcs⟩ := h
  unfold stepQRecv
  split
  · rename_i hrun
    have hnj : s.pc ≠ .join := by
      intro hpc; rcases hj hpc with h' | h' <;> rw [h'] at hrun <;> cases hrun
    split
    · rename_i hl
      simp only [lagging, decide_eq_true_eq] at hl
      split
      · exact ⟨q1, q2, q3, nh, term, pcs⟩
      · refine ⟨q1, ?_, ?_, nh, term, ?_⟩
        · simp only []; omega
        · simp only []; omega
        · revert pcs hnj
          obtain ⟨mode, pc, cur, qHead, qTail, qt, cancelled, last, minId, pending, target, base, handed, out⟩ := s
          cases pc <;> simp only [PcInv, Pre] <;> intro pcs hnj <;> first | exact pcs | exact absurd rfl hnj
    · split
      · split
        · exact ⟨q1, q2, q3, nh, term, pcs⟩
        · refine ⟨?_, ?_, ?_, nh, term, ?_⟩
          · simp only []; omega
          · simp only []; omega
          · simp only []; omega
          · revert pcs hnj
            obtain ⟨mode, pc, cur, qHead, qTail, qt, cancelled, last, minId, pending, target, base, handed, out⟩ := s
            cases pc <;> simp only [PcInv, Pre] <;> intro pcs hnj <;> first | exact pcs | exact absurd rfl hnj
      · exact ⟨q1, q2, q3, nh, term, pcs⟩
  · exact ⟨q1, q2, q3, nh, term, pcs⟩

/-- buffering task (code since cb48448): it never swallows a lag, and while it runs or after it
stopped everything it read is in the queue -/
def QInv (s : Sub) : Prop :=
  s.handed = false → s.qt ≠ .stuck ∧ ((s.qt = .running ∨ s.qt = .stopped) → s.qTail = s.cur)

theorem qinv_attach (e : Env) (m : Mode) : QInv (attach e m) := by
  intro _; simp [attach]

theorem qinv_qcancel {s : Sub} (h : QInv s) : QInv (stepQCancel s) := by
  unfold stepQCancel
  split
  · rename_i hc
    intro hh
    obtain ⟨h1, h2⟩ := h hh
    refine ⟨by simp, fun _ => ?_⟩
    rcases hc.2 with hr | hr
    · exact h2 (Or.inl hr)
    · exact absurd hr h1
  · exact h

theorem qinv_qrecv (cfg : Cfg) (e : Env) {s : Sub} (hf : cfg.fixed = true) (h : QInv s) :
    QInv (stepQRecv cfg e s) := by
  unfold stepQRecv
  simp only [hf, if_true]
  split
  · split
    · intro _; exact ⟨by simp, fun h' => by rcases h' with h' | h' <;> cases h'⟩
    · split
      · split
        · intro _; exact ⟨by simp, fun h' => by rcases h' with h' | h' <;> cases h'⟩
        · rename_i hrun _ _ _
          intro hh
          refine ⟨?_, fun _ => rfl⟩
          dsimp only; rw [hrun]; simp
      · exact h
  · exact h

theorem qinv_main (cfg : Cfg) (e : Env) {s : Sub} (hpc : s.pc ≠ .live) (h : QInv s) :
    QInv (stepMain cfg e s) := by
  obtain ⟨mode, pc, cur, qHead, qTail, qt, cancelled, last, minId, pending, target, base, handed, out⟩ := s
  unfold QInv at h ⊢
  dsimp only at h hpc
  cases pc <;> simp only [stepMain]
  case start => cases mode <;> exact h
  case readEoq => exact h
  case tryRecv => (repeat' split) <;> exact h
  case loop => (repeat' split) <;> exact h
  case afterLoop => (repeat' split) <;> exact h
  case sendPending => (repeat' split) <;> exact h
  case cancel => exact h
  case drain => (repeat' split) <;> exact h
  case join => split <;> first | exact h | (intro hh; cases hh)
  case live => exact absurd rfl hpc
  case done => exact h

theorem invLive_qrecv (cfg : Cfg) {e : Env} {s : Sub} (h : InvLive e s) : stepQRecv cfg e s = s := by
  unfold stepQRecv
  rw [if_neg h.qt]

theorem invLive_main (cfg : Cfg) {e : Env} {s : Sub} (hf : cfg.fixed = true) (h : InvLive e s) :
    InvLive e (stepMain cfg e s) := by
  obtain ⟨hh, hpc, q3, term, ⟨b, hb, hle, hc⟩, hcl, hqt⟩ := h
  obtain ⟨mode, pc, cur, qHead, qTail, qt, cancelled, last, minId, pending, target, base, handed, out⟩ := s
  dsimp only at hh hpc q3 term hb hle hc hcl hqt
  rcases hpc with rfl | rfl
  · have term' : NoTerm out := by simpa using term
    simp only [stepMain]
    split
    · exact ⟨hh, Or.inr rfl, q3, by simpa using TermOk.of_noTerm_append term' termOk_closed,
        ⟨b, hb, hle, by simpa [chg_append, chg] using hc⟩, hcl, hqt⟩
    · split
      · rename_i hcp
        try dsimp only at hcp
        try simp only [hf, if_true]
        split
        · rename_i hsk
          try dsimp only at hsk
          exact ⟨hh, Or.inl rfl, by dsimp only; omega, by simpa using term', ⟨b, hb, hle, hc⟩,
            by dsimp only; omega, hqt⟩
        · rename_i hsk
          try dsimp only at hsk
          have hcur : cur = last + 1 := by omega
          subst hcur
          refine ⟨hh, Or.inl rfl, by dsimp only; omega, ?_, ⟨b, hb, by dsimp only; omega, ?_⟩,
            by dsimp only; omega, hqt⟩
          · simpa using NoTerm.append term' (NoTerm.single_change _)
          · dsimp only
            simp only [chg_append, chg, hc]
            exact idsFrom_succ hle
      · exact ⟨hh, Or.inl rfl, q3, by simpa using term', ⟨b, hb, hle, hc⟩, hcl, hqt⟩
  · simp only [stepMain]
    exact ⟨hh, Or.inr rfl, q3, term, ⟨b, hb, hle, hc⟩, hcl, hqt⟩

/-- the hand-over step -/
theorem invLive_handover {e : Env} {s : Sub} (h : Inv e s) (hj : s.pc = .join) (hq : JoinQt s) (hqi : QInv s)
    (hf : s.qt ≠ .failed) :
    InvLive e { s with pc := .live, handed := true } := by
  obtain ⟨q1, q2, q3, nh, term, pcs⟩ := h
  unfold PcInv at pcs
  rw [hj] at pcs
  obtain ⟨hpre, hqt⟩ := pcs
  have hst : s.qt = .stopped := by
    rcases hq hj with h' | h'
    · exact h'
    · exact absurd h' hf
  have hcur : s.qTail = s.cur := (hqi nh).2 (Or.inr hst)
  refine ⟨rfl, Or.inl rfl, q3, ?_, hpre, ?_, ?_⟩
  · rw [hj] at term; simpa using term
  · dsimp only at hqt ⊢; omega
  · dsimp only; rw [hst]; simp

/-! ### schedules -/

/-- every log read of the schedule starts inside the retained log (the property's quantifier:
"every resume point within the retained change log") -/
def SchedOk (cfg : Cfg) : State → List Act → Prop
  | _, [] => True
  | st, a :: as => (a = .main → ReadOk st.1 st.2) ∧ SchedOk cfg (step cfg st a) as

theorem handed_mono (cfg : Cfg) (st : State) (a : Act) (h : st.2.handed = true) :
    (step cfg st a).2.handed = true := by
  obtain ⟨e, s⟩ := st
  obtain ⟨mode, pc, cur, qHead, qTail, qt, cancelled, last, minId, pending, target, base, handed, out⟩ := s
  dsimp only at h
  subst h
  cases a <;> simp only [step]
  case main => cases pc <;> simp only [stepMain] <;> (repeat' split) <;> rfl
  case qrecv => simp only [stepQRecv]; (repeat' split) <;> rfl
  case qcancel => simp only [stepQCancel]; (repeat' split) <;> rfl

theorem run_handed (cfg : Cfg) (acts : List Act) : ∀ st : State, st.2.handed = true →
    (run cfg st acts).2.handed = true := by
  induction acts with
  | nil => intro st h; exact h
  | cons a as ih => intro st h; exact ih _ (handed_mono cfg st a h)

theorem run_envOk (cfg : Cfg) (acts : List Act) : ∀ st : State, EnvOk st.1 → EnvOk (run cfg st acts).1 := by
  induction acts with
  | nil => intro st h; exact h
  | cons b bs ihb =>
    intro st h
    simp only [run]
    apply ihb
    cases b <;> first | exact h | exact envOk_step cfg _ _ h

/-- Before the hand-over the invariant holds along every schedule whose reads are inside the log
(for the code before and after cb48448). -/
theorem run_inv (cfg : Cfg) (acts : List Act) : ∀ st : State, EnvOk st.1 → Inv st.1 st.2 → JoinQt st.2 →
    SchedOk cfg st acts →
    ((Inv (run cfg st acts).1 (run cfg st acts).2) ∨ (run cfg st acts).2.handed = true) := by
  induction acts with
  | nil => intro st _ hi _ _; exact Or.inl hi
  | cons a as ih =>
    intro st he hi hj hs
    obtain ⟨e, s⟩ := st
    obtain ⟨hra, hrest⟩ := hs
    dsimp only at he hi hj hra
    simp only [run]
    cases a with
    | main =>
      simp only [step] at hrest ⊢
      rcases inv_main cfg he hi (hra rfl) with h' | ⟨_, _, heq⟩
      · exact ih _ he h' (joinQt_main cfg e) hrest
      · have hh : (stepMain cfg e s).handed = true := by rw [heq]
        exact Or.inr (run_handed cfg as (e, stepMain cfg e s) hh)
    | qrecv => simp only [step] at hrest ⊢; exact ih _ he (inv_qrecv cfg hi hj) (joinQt_qrecv cfg e hj) hrest
    | qcancel => simp only [step] at hrest ⊢; exact ih _ he (inv_qcancel hi) (joinQt_qcancel hj) hrest
    | emit => simp only [step] at hrest ⊢; exact ih _ (envOk_step cfg e .emit he) (inv_stepEnv cfg .emit hi) hj hrest
    | commit => simp only [step] at hrest ⊢; exact ih _ (envOk_step cfg e .commit he) (inv_stepEnv cfg .commit hi) hj hrest
    | publish => simp only [step] at hrest ⊢; exact ih _ (envOk_step cfg e .publish he) (inv_stepEnv cfg .publish hi) hj hrest
    | prune => simp only [step] at hrest ⊢; exact ih _ (envOk_step cfg e .prune he) (inv_stepEnv cfg .prune hi) hj hrest

/-- After the hand-over the live invariant holds (code since cb48448). -/
theorem run_invLive (cfg : Cfg) (hf : cfg.fixed = true) (acts : List Act) : ∀ st : State, InvLive st.1 st.2 →
    InvLive (run cfg st acts).1 (run cfg st acts).2 := by
  induction acts with
  | nil => intro st h; exact h
  | cons a as ih =>
    intro st h
    obtain ⟨e, s⟩ := st
    dsimp only at h
    simp only [run]
    apply ih
    cases a with
    | main => exact invLive_main cfg hf h
    | qrecv => simp only [step]; rw [invLive_qrecv cfg h]; exact h
    | qcancel => exact invLive_qcancel h
    | emit => exact invLive_stepEnv cfg .emit h
    | commit => exact invLive_stepEnv cfg .commit h
    | publish => exact invLive_stepEnv cfg .publish h
    | prune => exact invLive_stepEnv cfg .prune h

/-- Through the hand-over (code since cb48448): one of the two invariants holds along every
schedule whose reads are inside the log. -/
theorem run_inv_full (cfg : Cfg) (hf : cfg.fixed = true) (acts : List Act) : ∀ st : State, EnvOk st.1 →
    Inv st.1 st.2 → JoinQt st.2 → QInv st.2 → SchedOk cfg st acts →
    (Inv (run cfg st acts).1 (run cfg st acts).2) ∨ InvLive (run cfg st acts).1 (run cfg st acts).2 := by
  induction acts with
  | nil => intro st _ hi _ _ _; exact Or.inl hi
  | cons a as ih =>
    intro st he hi hj hq hs
    obtain ⟨e, s⟩ := st
    obtain ⟨hra, hrest⟩ := hs
    dsimp only at he hi hj hq hra
    simp only [run]
    have hnl : s.pc ≠ .live := by
      intro hpc
      have := hi.pcs
      unfold PcInv at this
      rw [hpc] at this
      exact this
    cases a with
    | main =>
      simp only [step] at hrest ⊢
      rcases inv_main cfg he hi (hra rfl) with h' | ⟨hpc, hnf, heq⟩
      · exact ih _ he h' (joinQt_main cfg e) (qinv_main cfg e hnl hq) hrest
      · right
        have hl : InvLive e (stepMain cfg e s) := by
          rw [heq]; exact invLive_handover hi hpc hj hq hnf
        exact run_invLive cfg hf as (e, stepMain cfg e s) hl
    | qrecv =>
      simp only [step] at hrest ⊢
      exact ih _ he (inv_qrecv cfg hi hj) (joinQt_qrecv cfg e hj) (qinv_qrecv cfg e hf hq) hrest
    | qcancel =>
      simp only [step] at hrest ⊢
      exact ih _ he (inv_qcancel hi) (joinQt_qcancel hj) (qinv_qcancel hq) hrest
    | emit => simp only [step] at hrest ⊢; exact ih _ (envOk_step cfg e .emit he) (inv_stepEnv cfg .emit hi) hj hq hrest
    | commit => simp only [step] at hrest ⊢; exact ih _ (envOk_step cfg e .commit he) (inv_stepEnv cfg .commit hi) hj hq hrest
    | publish => simp only [step] at hrest ⊢; exact ih _ (envOk_step cfg e .publish he) (inv_stepEnv cfg .publish hi) hj hq hrest
    | prune => simp only [step] at hrest ⊢; exact ih _ (envOk_step cfg e .prune he) (inv_stepEnv cfg .prune hi) hj hq hrest

end Corro.CatchUp
