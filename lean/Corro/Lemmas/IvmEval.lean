/-
Helper lemmas for C11, part 2: what the relational evaluator returns, row by row (`Chain`), and how
the rewritten per-table statement relates to the user's query.
-/
import Corro.Lemmas.Ivm

namespace Corro.Ivm

/-- how one more FROM position extends a joined row -/
def Link (db : Db) (j : Join) (e0 : Env) : Option Row → Prop
  | some r => r ∈ db j.src.tbl ∧ j.on.holds (e0 ++ [some r]) = true
  | none => j.kind = .left ∧ ∀ r ∈ db j.src.tbl, j.on.holds (e0 ++ [some r]) = false

/-- `e` extends `e0` through the joins `js` -/
def Chain (db : Db) : List Join → Env → Env → Prop
  | [], e0, e => e = e0
  | j :: js, e0, e => ∃ o, Link db j e0 o ∧ Chain db js (e0 ++ [o]) e

theorem mem_joinStep {db : Db} {j : Join} {envs : List Env} {e' : Env} :
    e' ∈ joinStep db j envs ↔ ∃ e ∈ envs, ∃ o, Link db j e o ∧ e' = e ++ [o] := by
  unfold joinStep
  rw [List.mem_flatMap]
  constructor
  · rintro ⟨e, he, hm⟩
    refine ⟨e, he, ?_⟩
    cases hk : j.kind <;> simp only [hk] at hm
    · obtain ⟨r, hr, rfl⟩ := List.mem_map.mp hm
      obtain ⟨h1, h2⟩ := List.mem_filter.mp hr
      exact ⟨some r, ⟨h1, h2⟩, rfl⟩
    · split at hm
      · rename_i hemp
        simp only [List.mem_singleton] at hm
        refine ⟨none, ⟨hk, ?_⟩, hm⟩
        intro r hr
        rw [List.isEmpty_iff] at hemp
        have : r ∉ (db j.src.tbl).filter (fun r => j.on.holds (e ++ [some r])) := by rw [hemp]; simp
        cases hh : j.on.holds (e ++ [some r])
        · rfl
        · exact absurd (List.mem_filter.mpr ⟨hr, hh⟩) this
      · obtain ⟨r, hr, rfl⟩ := List.mem_map.mp hm
        obtain ⟨h1, h2⟩ := List.mem_filter.mp hr
        exact ⟨some r, ⟨h1, h2⟩, rfl⟩
  · rintro ⟨e, he, o, hl, rfl⟩
    refine ⟨e, he, ?_⟩
    cases o with
    | some r =>
      have hr : r ∈ (db j.src.tbl).filter (fun r => j.on.holds (e ++ [some r])) := List.mem_filter.mpr ⟨hl.1, hl.2⟩
      cases hk : j.kind <;> simp only []
      · exact List.mem_map.mpr ⟨r, hr, rfl⟩
      · split
        · rename_i hemp
          rw [List.isEmpty_iff] at hemp
          rw [hemp] at hr; simp at hr
        · exact List.mem_map.mpr ⟨r, hr, rfl⟩
    | none =>
      obtain ⟨hk, hall⟩ := hl
      simp only [hk]
      have hemp : ((db j.src.tbl).filter (fun r => j.on.holds (e ++ [some r]))).isEmpty = true := by
        rw [List.isEmpty_iff, List.filter_eq_nil_iff]
        intro r hr; simp [hall r hr]
      rw [if_pos hemp]; simp

theorem mem_joinAll {db : Db} : ∀ {js : List Join} {envs : List Env} {e : Env},
    e ∈ joinAll db js envs ↔ ∃ e0 ∈ envs, Chain db js e0 e := by
  intro js
  induction js with
  | nil => intro envs e; simp [joinAll, Chain]
  | cons j js ih =>
    intro envs e
    simp only [joinAll, Chain]
    rw [ih]
    constructor
    · rintro ⟨e1, h1, hc⟩
      obtain ⟨e0, h0, o, hl, rfl⟩ := mem_joinStep.mp h1
      exact ⟨e0, h0, o, hl, hc⟩
    · rintro ⟨e0, h0, o, hl, hc⟩
      exact ⟨e0 ++ [o], mem_joinStep.mpr ⟨e0, h0, o, hl, rfl⟩, hc⟩

theorem mem_evalKeyed {q : Query} {db : Db} {x : Out} :
    x ∈ evalKeyed q db ↔ ∃ r0 ∈ db q.base.tbl, ∃ e, Chain db q.joins [some r0] e ∧ q.where_.holds e = true ∧ x = q.out e := by
  unfold evalKeyed Query.envs
  simp only [List.mem_map, List.mem_filter]
  constructor
  · rintro ⟨e, ⟨he, hw⟩, rfl⟩
    obtain ⟨e0, h0, hc⟩ := mem_joinAll.mp he
    obtain ⟨r0, hr0, rfl⟩ := List.mem_map.mp h0
    exact ⟨r0, hr0, e, hc, hw, rfl⟩
  · rintro ⟨r0, hr0, e, hc, hw, rfl⟩
    exact ⟨e, ⟨mem_joinAll.mpr ⟨[some r0], List.mem_map.mpr ⟨r0, hr0, rfl⟩, hc⟩, hw⟩, rfl⟩

theorem chain_prefix {db : Db} : ∀ {js : List Join} {e0 e : Env}, Chain db js e0 e →
    ∃ rest, e = e0 ++ rest ∧ rest.length = js.length := by
  intro js
  induction js with
  | nil => intro e0 e h; exact ⟨[], by simpa [Chain] using h, rfl⟩
  | cons j js ih =>
    intro e0 e h
    obtain ⟨o, _, hc⟩ := h
    obtain ⟨rest, rfl, hl⟩ := ih hc
    exact ⟨o :: rest, by simp, by simp [hl]⟩

theorem chain_snoc {db : Db} : ∀ {pre : List Join} {a b : Env} {j : Join} {o : Option Row},
    Chain db pre a b → Link db j b o → Chain db (pre ++ [j]) a (b ++ [o]) := by
  intro pre
  induction pre with
  | nil => intro a b j o h hl; simp only [Chain] at h; subst h; exact ⟨o, hl, rfl⟩
  | cons p pre ih =>
    intro a b j o h hl
    obtain ⟨o', hl', hc⟩ := h
    exact ⟨o', hl', ih hc hl⟩

/-! ### rows of a joined row belong to their tables; keys identify joined rows -/

def EnvIn (db : Db) : List Src → Env → Prop
  | [], [] => True
  | s :: ss, o :: os => (∀ r, o = some r → r ∈ db s.tbl) ∧ EnvIn db ss os
  | _, _ => False

theorem envIn_snoc {db : Db} : ∀ {ss : List Src} {e : Env} {s : Src} {o : Option Row},
    EnvIn db ss e → (∀ r, o = some r → r ∈ db s.tbl) → EnvIn db (ss ++ [s]) (e ++ [o]) := by
  intro ss
  induction ss with
  | nil => intro e s o h ho; cases e with
    | nil => exact ⟨ho, trivial⟩
    | cons _ _ => simp [EnvIn] at h
  | cons a ss ih =>
    intro e s o h ho
    cases e with
    | nil => simp [EnvIn] at h
    | cons x xs => exact ⟨h.1, ih h.2 ho⟩

theorem chain_envIn {db : Db} : ∀ {js : List Join} {ss : List Src} {e0 e : Env},
    EnvIn db ss e0 → Chain db js e0 e → EnvIn db (ss ++ js.map (·.src)) e := by
  intro js
  induction js with
  | nil => intro ss e0 e h hc; simp only [Chain] at hc; subst hc; simpa using h
  | cons j js ih =>
    intro ss e0 e h hc
    obtain ⟨o, hl, hc⟩ := hc
    have h1 : EnvIn db (ss ++ [j.src]) (e0 ++ [o]) := by
      apply envIn_snoc h
      intro r hr; subst hr; exact hl.1
    have := ih h1 hc
    simpa using this

theorem evalKeyed_envIn {q : Query} {db : Db} {r0 : Row} {e : Env} (hr0 : r0 ∈ db q.base.tbl)
    (hc : Chain db q.joins [some r0] e) : EnvIn db q.srcs e := by
  have h0 : EnvIn db [q.base] [some r0] := ⟨fun r hr => by cases hr; exact hr0, trivial⟩
  have := chain_envIn h0 hc
  simpa [Query.srcs] using this

/-- the tables of a query: distinct keys, clean key values -/
structure DbOk (srcs : List Src) (db : Db) : Prop where
  clean : ∀ s ∈ srcs, ∀ r ∈ db s.tbl, CleanKey (keyOf s.nk r)
  uniq : ∀ s ∈ srcs, ∀ r ∈ db s.tbl, ∀ r' ∈ db s.tbl, keyOf s.nk r = keyOf s.nk r' → r = r'

theorem replicate_null_not_clean {n : Nat} (h : CleanKey (List.replicate n Val.null)) : False := by
  obtain ⟨hne, hall⟩ := h
  cases n with
  | zero => simp at hne
  | succ n => exact (hall Val.null (by simp [List.replicate_succ])).1 rfl

theorem envPks_inj {db : Db} : ∀ {ss : List Src} {e e' : Env}, DbOk ss db → EnvIn db ss e → EnvIn db ss e' →
    envPks ss e = envPks ss e' → e = e' := by
  intro ss
  induction ss with
  | nil => intro e e' _ h h' _; cases e <;> cases e' <;> simp_all [EnvIn]
  | cons s ss ih =>
    intro e e' hdb h h' hp
    cases e with
    | nil => simp [EnvIn] at h
    | cons o os =>
      cases e' with
      | nil => simp [EnvIn] at h'
      | cons o' os' =>
        simp only [envPks, List.cons.injEq] at hp
        have hdb' : DbOk ss db := ⟨fun s hs => hdb.clean s (by simp [hs]), fun s hs => hdb.uniq s (by simp [hs])⟩
        have htl := ih hdb' h.2 h'.2 hp.2
        subst htl
        congr 1
        cases o with
        | some r =>
          cases o' with
          | some r' =>
            have := hdb.uniq s (by simp) r (h.1 r rfl) r' (h'.1 r' rfl) hp.1
            rw [this]
          | none =>
            exfalso
            have hc := hdb.clean s (by simp) r (h.1 r rfl)
            simp only [] at hp
            rw [hp.1] at hc
            exact replicate_null_not_clean hc
        | none =>
          cases o' with
          | some r' =>
            exfalso
            have hc := hdb.clean s (by simp) r' (h'.1 r' rfl)
            simp only [] at hp
            rw [← hp.1] at hc
            exact replicate_null_not_clean hc
          | none => rfl

theorem envPks_proper {db : Db} : ∀ {ss : List Src} {e : Env}, DbOk ss db → EnvIn db ss e →
    Proper (envPks ss e) := by
  intro ss
  induction ss with
  | nil => intro e _ _; cases e <;> simp [envPks, Proper]
  | cons s ss ih =>
    intro e hdb h
    cases e with
    | nil => simp [EnvIn] at h
    | cons o os =>
      have hdb' : DbOk ss db := ⟨fun s hs => hdb.clean s (by simp [hs]), fun s hs => hdb.uniq s (by simp [hs])⟩
      intro k hk v hv
      simp only [envPks, List.mem_cons] at hk
      rcases hk with rfl | hk
      · cases o with
        | some r => exact ((hdb.clean s (by simp) r (h.1 r rfl)).2 v hv).2
        | none =>
          simp only [] at hv
          have := List.eq_of_mem_replicate hv
          rw [this]; simp
      · exact ih hdb' h.2 k hk v hv

theorem envPks_getD {db : Db} : ∀ {ss : List Src} {e : Env} {i : Nat} {s : Src}, EnvIn db ss e → ss[i]? = some s →
    (envPks ss e).getD i [] = (match e.getD i none with | some r => keyOf s.nk r | none => List.replicate s.nk Val.null) := by
  intro ss
  induction ss with
  | nil => intro e i s _ hs; simp at hs
  | cons a ss ih =>
    intro e i s h hs
    cases e with
    | nil => simp [EnvIn] at h
    | cons o os =>
      cases i with
      | zero =>
        simp only [List.getElem?_cons_zero, Option.some.injEq] at hs
        subst hs
        cases o <;> simp [envPks]
      | succ i =>
        simp only [List.getElem?_cons_succ] at hs
        simpa [envPks] using ih h.2 hs

theorem envIn_length {db : Db} : ∀ {ss : List Src} {e : Env}, EnvIn db ss e → e.length = ss.length := by
  intro ss
  induction ss with
  | nil => intro e h; cases e <;> simp_all [EnvIn]
  | cons s ss ih =>
    intro e h
    cases e with
    | nil => simp [EnvIn] at h
    | cons o os => simp [ih h.2]

theorem envIn_get {db : Db} : ∀ {ss : List Src} {e : Env} {i : Nat} {s : Src} {r : Row}, EnvIn db ss e →
    ss[i]? = some s → e.getD i none = some r → r ∈ db s.tbl := by
  intro ss
  induction ss with
  | nil => intro e i s r _ hs; simp at hs
  | cons a ss ih =>
    intro e i s r h hs he
    cases e with
    | nil => simp [EnvIn] at h
    | cons o os =>
      cases i with
      | zero =>
        simp only [List.getElem?_cons_zero, Option.some.injEq] at hs
        subst hs
        simp at he
        exact h.1 r he
      | succ i =>
        simp only [List.getElem?_cons_succ] at hs
        simp at he
        exact ih h.2 hs (by simpa using he)

/-- results of a query on a well-formed database: proper keys, one row per key -/
theorem evalKeyed_proper {q : Query} {db : Db} (hdb : DbOk q.srcs db) {x : Out} (hx : x ∈ evalKeyed q db) :
    Proper x.pks := by
  obtain ⟨r0, hr0, e, hc, _, rfl⟩ := mem_evalKeyed.mp hx
  exact envPks_proper hdb (evalKeyed_envIn hr0 hc)

theorem evalKeyed_functional {q : Query} {db : Db} (hdb : DbOk q.srcs db) {x y : Out}
    (hx : x ∈ evalKeyed q db) (hy : y ∈ evalKeyed q db) (hp : x.pks = y.pks) : x = y := by
  obtain ⟨r0, hr0, e, hc, _, rfl⟩ := mem_evalKeyed.mp hx
  obtain ⟨r0', hr0', e', hc', _, rfl⟩ := mem_evalKeyed.mp hy
  have := envPks_inj hdb (evalKeyed_envIn hr0 hc) (evalKeyed_envIn hr0' hc') hp
  rw [this]

end Corro.Ivm
