/-
C01, protocol level, BATCHES AND CRASHES — one actor's transaction inside `process_multiple_changes`,
followed changeset by changeset with the virtual bookkeeping (`cV`): the merged generalised invariant
`Full.GI` (`Lemmas/ClusterFullGI.lean`) holds at every point (`TXI`), on a dead or alive node, for any
list of changesets that satisfy `ChunkOK`; then `processActor`.  (Port of `ClusterBatchTx.lean`; in
addition the transaction state carries `dbv_le`: the durable db-version rows never exceed the virtual
heads.)
-/
import Corro.Lemmas.ClusterFullGI
import Corro.Lemmas.ClusterBatchTx
import Corro.Lemmas.ClusterCrashDeliver

namespace Corro.ClusterSys.Full
open Corro.Crdt Corro.Node

theorem GI.congr_R {D : Prop} {L : Log} {bk : Nat → Booked} {rows : List SeqRow} {buf R R' : List Chg}
    {C : List (Nat × Nat × Nat)} {A : List (Nat × Nat)} (hG : GI D L bk rows buf R C A)
    (h : ∀ e, e ∈ R ↔ e ∈ R') : GI D L bk rows buf R' C A := by
  have hm : ∀ e ∈ R, e ∈ R' := fun e he => (h e).mp he
  refine ⟨hG.needed_wf, hG.pwf, hG.keys, hG.rows_fwd, hG.rows_le, hG.head_le, hG.part_known, ?_, hG.cover,
    hG.last_rows, fun a v hh => (hG.held a v hh).mono hm,
    fun e he => (hG.rgot e ((h e).mpr he)).mono hm,
    hG.rows_part, hG.buf_rows, hG.bufsub, hG.clr_none⟩
  intro a v p hp
  rcases hG.part_state a v p hp with h1 | h1 | ⟨h1, h2, h3⟩
  · exact Or.inl h1
  · exact Or.inr (Or.inl h1)
  · refine Or.inr (Or.inr ⟨h1, h2, ?_⟩)
    rcases h3 with h3 | ⟨h3, h4⟩
    · exact Or.inl h3
    · refine Or.inr ⟨h3, ?_⟩
      rcases h4 with h4 | h4
      · exact Or.inl (h4.mono hm)
      · exact Or.inr h4

/-! ### the invariant of the transaction -/

/-- inside the transaction of actor `site`, started at node `N0` (ghost list `R0`, pending clear jobs
`C0` and applies `A0` of the actors processed before): `s = (transaction state, merged so far)` -/
structure TXI (D : Prop) (L : Log) (N0 : Node) (site : Nat) (R0 : List Chg) (C0 : List (Nat × Nat × Nat))
    (A0 : List (Nat × Nat)) (s : TxSt × List Chg) : Prop where
  book : s.1.node.book = N0.book
  alive : s.1.node.alive = N0.alive
  fwd : ∀ e ∈ s.1.processed, e.vlo ≤ e.vhi
  gi : GI D L (vbk N0 site s.1.processed) s.1.node.seqRows s.1.node.buf (s.2 ++ R0) (C0 ++ s.1.clears)
    (A0 ++ (cV (N0.booked site) site s.1.processed).2)
  /-- a version that the virtual bookkeeping holds without a partial was held like that before the
  transaction, or was completed / cleared in it (and is marked so in `seen`) -/
  si : ∀ v, (cV (N0.booked site) site s.1.processed).1.containsVersion v = true →
    (cV (N0.booked site) site s.1.processed).1.partial? v = none →
    ((N0.booked site).containsVersion v = true ∧ (N0.booked site).partial? v = none) ∨
      seenGet s.1.seen v = some none
  /-- the durable db-version rows never exceed the virtual heads -/
  dbv : ∀ a, dbvOf s.1.node a ≤ (vbk N0 site s.1.processed a).max

section
variable {D : Prop} {L : Log} {N0 : Node} {site : Nat} {R0 : List Chg} {C0 : List (Nat × Nat × Nat)}
  {A0 : List (Nat × Nat)}

theorem TXI.init (hG : GI D L N0.booked N0.seqRows N0.buf R0 C0 A0)
    (hdbv : ∀ a, dbvOf N0 a ≤ (N0.booked a).max) :
    TXI D L N0 site R0 C0 A0 ({ node := N0, seen := [], processed := [], clears := [] }, []) := by
  refine ⟨rfl, rfl, (fun e he => by cases he), ?_, ?_, ?_⟩
  · show GI D L (vbk N0 site []) N0.seqRows N0.buf ([] ++ R0) (C0 ++ []) (A0 ++ (cV (N0.booked site) site []).2)
    rw [vbk_nil, cV_nil, List.append_nil, List.append_nil]
    exact hG
  · intro v h1 h2
    exact Or.inl ⟨h1, h2⟩
  · intro a
    show dbvOf N0 a ≤ (vbk N0 site [] a).max
    rw [vbk_nil]; exact hdbv a

/-- a version range is completed / cleared -/
theorem TXI.noneStep {st : TxSt} {M : List Chg} (h : TXI D L N0 site R0 C0 A0 (st, M)) (N' : Node)
    (vlo vhi : Nat) (cs : List Chg) (hlh : vlo ≤ vhi) (hhead : vhi ≤ L.head site)
    (hbook : N'.book = st.node.book) (halive : N'.alive = st.node.alive)
    (hrows : N'.seqRows = st.node.seqRows) (hbuf : N'.buf = st.node.buf)
    (hdbv : ∀ a', dbvOf N' a' ≤ if a' = site then max (dbvOf st.node site) vhi else dbvOf st.node a')
    (hcs : ∀ e ∈ cs, e.site = site ∧ vlo ≤ e.dbv ∧ e.dbv ≤ vhi)
    (hdata : ∀ v, vlo ≤ v → v ≤ vhi → ∀ c ∈ L.get site v, c ∈ cs ∨ Dom L.all c) :
    TXI D L N0 site R0 C0 A0
      ({ node := N', seen := seenInsert st.seen (vlo, vhi) none,
         processed := st.processed ++ [⟨vlo, vhi, none⟩],
         clears := if hasBufferedMeta N' site vlo vhi then st.clears ++ [(site, vlo, vhi)] else st.clears },
       M ++ cs) := by
  have hcvE : cV (N0.booked site) site (st.processed ++ [⟨vlo, vhi, none⟩]) =
      ((((cV (N0.booked site) site st.processed).1.insertDb [(vlo, vhi)]).dropPartials vlo vhi),
        (cV (N0.booked site) site st.processed).2) := by
    rw [cV_append, commitStepV_none]
  have hvbk : vbk N0 site (st.processed ++ [⟨vlo, vhi, none⟩]) =
      ovr (vbk N0 site st.processed) site
        (((vbk N0 site st.processed site).insertDb [(vlo, vhi)]).dropPartials vlo vhi) := by
    rw [vbk_site]
    unfold vbk
    rw [hcvE, ovr_ovr]
  have hG := h.gi
  simp only at hG
  refine ⟨hbook.trans h.book, halive.trans h.alive, ?_, ?_, ?_, ?_⟩
  · intro e he
    simp only at he
    rcases List.mem_append.mp he with he | he
    · exact h.fwd e he
    · simp only [List.mem_singleton] at he
      subst he; exact hlh
  · show GI D L (vbk N0 site (st.processed ++ [⟨vlo, vhi, none⟩])) N'.seqRows N'.buf ((M ++ cs) ++ R0)
      (C0 ++ (if hasBufferedMeta N' site vlo vhi then st.clears ++ [(site, vlo, vhi)] else st.clears))
      (A0 ++ (cV (N0.booked site) site (st.processed ++ [⟨vlo, vhi, none⟩])).2)
    rw [hvbk, hcvE, hrows, hbuf]
    refine gi_cleared hG hlh hhead ?_ ?_ ?_ ?_ ?_ ?_
    · intro e he
      rcases List.mem_append.mp he with he | he
      · exact List.mem_append_left _ (List.mem_append_left _ he)
      · exact List.mem_append_right _ he
    · intro e he
      rcases List.mem_append.mp he with he | he
      · rcases List.mem_append.mp he with he | he
        · exact Or.inl (List.mem_append_left _ he)
        · exact Or.inr (hcs e he)
      · exact Or.inl (List.mem_append_right _ he)
    · intro v h1 h2 c hc
      rcases hdata v h1 h2 c hc with h3 | h3
      · exact Or.inl (List.mem_append_left _ (List.mem_append_right _ h3))
      · exact Or.inr h3
    · intro a' v' hc
      rw [inClears_append] at hc ⊢
      rcases hc with hc | hc
      · exact Or.inl hc
      · right
        split
        · rw [inClears_append]; exact Or.inl hc
        · exact hc
    · intro a' v' hc
      rw [inClears_append] at hc
      rcases hc with hc | hc
      · exact Or.inl ((inClears_append _ _ _ _).mpr (Or.inl hc))
      · split at hc
        · rw [inClears_append] at hc
          rcases hc with hc | hc
          · exact Or.inl ((inClears_append _ _ _ _).mpr (Or.inr hc))
          · obtain ⟨c, hcm, h1, h2, h3⟩ := hc
            simp only [List.mem_singleton] at hcm
            subst hcm
            exact Or.inr ⟨h1.symm, h2, h3⟩
        · exact Or.inl ((inClears_append _ _ _ _).mpr (Or.inr hc))
    · intro r hr hs h1 h2
      have hm : hasBufferedMeta N' site vlo vhi = true :=
        hasBufferedMeta_of h1 h2 (Or.inl ⟨r, by rw [hrows]; exact hr, hs, rfl⟩)
      rw [if_pos hm, inClears_append, inClears_append]
      exact Or.inr (Or.inr ⟨(site, vlo, vhi), by simp, rfl, h1, h2⟩)
  · intro v hcv hpn
    simp only at hcv hpn ⊢
    rw [hcvE] at hcv hpn
    simp only at hcv hpn
    rw [seenGet_cons]
    by_cases hin : vlo ≤ v ∧ v ≤ vhi
    · right; rw [if_pos hin]
    · rw [if_neg hin]
      rw [containsVersion_dropPartials,
        containsVersion_insertDb (by have := hG.needed_wf site; rw [vbk_site] at this; exact this) hlh v] at hcv
      rw [partial?_dropPartials, if_neg hin, partial?_insertDb] at hpn
      rcases hcv with hcv | hcv
      · exact absurd hcv hin
      · exact h.si v hcv hpn
  · intro a'
    show dbvOf N' a' ≤ (vbk N0 site (st.processed ++ [⟨vlo, vhi, none⟩]) a').max
    have h1 := hdbv a'
    have h2 := h.dbv a'
    have h3 := h.dbv site
    simp only at h2 h3
    rw [hvbk]
    by_cases ha : a' = site
    · subst ha
      rw [if_pos rfl] at h1
      rw [ovr_same, dropPartials_max, insertDb_max _ _ (by simp), sup_singleton]
      show _ ≤ max _ _
      omega
    · rw [if_neg ha] at h1
      rw [ovr_other _ _ _ ha]
      omega

/-- an incomplete chunk is buffered -/
theorem TXI.bufferStep {st : TxSt} {M : List Chg} (h : TXI D L N0 site R0 C0 A0 (st, M)) (hL : LogOK L)
    (v lo hi last : Nat) (cs : List Chg) (hck : ChunkOK L (.full site v lo hi last cs)) (hlh : lo ≤ hi)
    (hnc : (N0.booked site).containsAll v v (some (lo, hi)) = false)
    (hns : seenGet st.seen v ≠ some none) :
    TXI D L N0 site R0 C0 A0 (stBuffer st site v lo hi last cs, M) := by
  -- the virtual node
  let vb := (cV (N0.booked site) site st.processed).1
  let ap := (cV (N0.booked site) site st.processed).2
  let V := st.node.setBooked site vb
  have hVb : V.booked = vbk N0 site st.processed := by
    show (st.node.setBooked site vb).booked = _
    rw [booked_setBooked_ovr, booked_fun_of_book h.book]
    rfl
  have hVbs : V.booked site = vb := booked_setBooked_same _ _ _
  have hG : GI D L V.booked V.seqRows V.buf (M ++ R0) (C0 ++ st.clears) (A0 ++ ap) := by
    rw [hVb]
    show GI D L _ (st.node.setBooked site vb).seqRows (st.node.setBooked site vb).buf _ _ _
    rw [setBooked_seqRows, setBooked_buf]
    exact h.gi
  obtain ⟨hch2, hchr, hchb⟩ := bufferChunk_setBooked st.node site vb site v lo hi last cs
  have hb0 : (N0.booked site).contains v (some (lo, hi)) = false := by
    rw [← containsAll_single]; exact hnc
  have key : ¬ (vb.containsVersion v = true ∧ vb.partial? v = none) := by
    rintro ⟨h1, h2⟩
    rcases h.si v h1 h2 with ⟨h3, h4⟩ | h3
    · rw [contains_of_cv_none _ h3 h4] at hb0; cases hb0
    · exact hns h3
  have hnclr : ¬ InClears (C0 ++ st.clears) site v := by
    intro hc
    have := hG.clr_none site v hc
    rw [hVbs] at this
    exact key this
  have hres := gi_buffer hG hL hck hlh hnclr
  -- the new virtual bookkeeping
  have hbB : bufBooked V site v lo hi last cs =
      ((vb.insertDb [(v, v)]).insertPartial v ⟨[(st.node.bufferChunk site v lo hi last cs).2], last⟩).1 := by
    unfold bufBooked
    rw [hVbs]
    show ((vb.insertDb [(v, v)]).insertPartial v
      ⟨[((st.node.setBooked site vb).bufferChunk site v lo hi last cs).2], last⟩).1 = _
    rw [hch2]
  have hbP : bufPartial V site v lo hi last cs =
      mergedPartial (vb.insertDb [(v, v)]) v ⟨[(st.node.bufferChunk site v lo hi last cs).2], last⟩ := by
    unfold bufPartial
    rw [hVbs]
    show mergedPartial (vb.insertDb [(v, v)]) v
      ⟨[((st.node.setBooked site vb).bufferChunk site v lo hi last cs).2], last⟩ = _
    rw [hch2]
  have hcvE : cV (N0.booked site) site
      (st.processed ++ [⟨v, v, some ⟨[(st.node.bufferChunk site v lo hi last cs).2], last⟩⟩]) =
      (bufBooked V site v lo hi last cs,
        if (bufPartial V site v lo hi last cs).complete then ap ++ [(site, v)] else ap) := by
    rw [cV_append, commitStepV_some, hbB, hbP]
    split <;> rfl
  have hE1 : (bufNode V site v lo hi last cs).booked =
      vbk N0 site (st.processed ++ [⟨v, v, some ⟨[(st.node.bufferChunk site v lo hi last cs).2], last⟩⟩]) := by
    unfold bufNode vbk
    rw [booked_setBooked_ovr, booked_fun_of_book (bufferChunk_book V site v lo hi last cs), hVb, hcvE]
    unfold vbk
    rw [ovr_ovr]
  have hE2 : (bufNode V site v lo hi last cs).seqRows = (st.node.bufferChunk site v lo hi last cs).1.seqRows := by
    rw [bufNode_rows]; exact hchr
  have hE3 : (bufNode V site v lo hi last cs).buf = (st.node.bufferChunk site v lo hi last cs).1.buf := by
    rw [bufNode_buf]; exact hchb
  have hE4 : (if (bufPartial V site v lo hi last cs).complete then (A0 ++ ap) ++ [(site, v)] else A0 ++ ap) =
      A0 ++ (if (bufPartial V site v lo hi last cs).complete then ap ++ [(site, v)] else ap) := by
    split
    · rw [List.append_assoc]
    · rfl
  rw [hE1, hE2, hE3, hE4] at hres
  refine ⟨h.book, h.alive, ?_, ?_, ?_, ?_⟩
  · intro e he
    unfold stBuffer at he
    simp only at he
    rcases List.mem_append.mp he with he | he
    · exact h.fwd e he
    · simp only [List.mem_singleton] at he
      subst he; exact Nat.le_refl _
  · unfold stBuffer
    simp only
    rw [hcvE]
    exact hres
  · intro w hcv hpn
    unfold stBuffer at hcv hpn ⊢
    simp only at hcv hpn ⊢
    rw [hcvE] at hcv hpn
    simp only at hcv hpn
    by_cases hw : w = v
    · subst hw
      rw [bufBooked_partial_same] at hpn; cases hpn
    · rw [seenGet_cons, if_neg (by omega)]
      rw [@bufBooked_cv V site v lo hi last cs (hG.needed_wf site) w, hVbs] at hcv
      rw [bufBooked_partial_other _ _ _ _ _ _ _ w hw, hVbs] at hpn
      rcases hcv with hcv | hcv
      · exact absurd hcv hw
      · exact h.si w hcv hpn
  · intro a'
    have h2 := h.dbv a'
    simp only at h2
    show dbvOf (st.node.bufferChunk site v lo hi last cs).1 a' ≤
      (vbk N0 site (st.processed ++ [⟨v, v, some ⟨[(st.node.bufferChunk site v lo hi last cs).2], last⟩⟩]) a').max
    rw [dbvOf_congr (bufferChunk_dbv _ _ _ _ _ _ _), ← hE1]
    by_cases ha : a' = site
    · subst ha
      rw [bufNode_booked_same, bufBooked_max, hVbs]
      have : (vbk N0 a' st.processed a').max = vb.max := by rw [vbk_site]
      omega
    · rw [bufNode_booked_other _ _ _ _ _ _ _ a' ha, hVb]
      exact h2

/-- one changeset -/
theorem TXI.step {s : TxSt × List Chg} (h : TXI D L N0 site R0 C0 A0 s) (hL : LogOK L) (it : Item)
    (hck : ChunkOK L it) (hs : it.site = site) :
    TXI D L N0 site R0 C0 A0 (txStepG (N0.booked site) s it) := by
  obtain ⟨st, M⟩ := s
  unfold txStepG
  simp only
  cases it with
  | empty s vlo vhi =>
    simp only [Item.site] at hs
    subst hs
    rw [stepMerged_empty, List.append_nil, processOne_empty]
    cases hc : (N0.booked s).containsAll vlo vhi none with
    | true => simp only [if_true]; exact h
    | false =>
      simp only [Bool.false_eq_true, if_false]
      split
      · exact h
      · have hle : vlo ≤ vhi := by
          apply Classical.byContradiction
          intro hlt
          rw [containsAll_backward _ _ _ _ (by omega)] at hc
          cases hc
        have := h.noneStep (if (N0.booked s).max ≤ vhi then st.node.bumpDbv s vhi else st.node) vlo vhi []
          hle hck.1 (by split <;> simp) (by split <;> simp) (by split <;> simp) (by split <;> simp)
          (Crash.dbvOf_bump_le st.node s vhi · _) (fun e he => by cases he) (fun v h1 h2 c hc => Or.inr (hck.2 v h1 h2 c hc))
        rw [List.append_nil] at this
        exact this
  | full s v lo hi last cs =>
    simp only [Item.site] at hs
    subst hs
    obtain ⟨hvh, hcs, hcov, hlast⟩ := hck
    have hdata : lo = 0 → hi = last → ∀ c ∈ L.get s v, c ∈ cs ∨ Dom L.all c := by
      intro h1 h2 c hc
      by_cases hle : c.seq ≤ last
      · exact hcov c hc (by omega) (by omega)
      · exact Or.inr (hlast c hc (by omega))
    have hcs' : ∀ e ∈ cs, e.site = s ∧ v ≤ e.dbv ∧ e.dbv ≤ v := by
      intro e he
      obtain ⟨_, h1, h2, _⟩ := hL.mem_get (hcs e he)
      exact ⟨h1, by omega, by omega⟩
    rw [stepMerged_full, processOne_full]
    cases hc : (N0.booked s).containsAll v v (some (lo, hi)) with
    | true => simp only [if_true, List.append_nil]; exact h
    | false =>
      simp only [Bool.false_eq_true, if_false]
      cases hseen : alreadySeen st.seen (.full s v lo hi last cs) with
      | true => simp only [if_true, List.append_nil]; exact h
      | false =>
        simp only [Bool.false_eq_true, if_false]
        cases hcomp : (lo == 0 && hi == last) with
        | true =>
          simp only [Bool.and_eq_true, beq_iff_eq] at hcomp
          obtain ⟨rfl, rfl⟩ := hcomp
          simp only [Bool.true_and, if_true]
          cases hem : cs.isEmpty with
          | true =>
            have hnil : cs = [] := List.isEmpty_iff.mp hem
            subst hnil
            simp only [if_true]
            exact h.noneStep (if (N0.booked s).max ≤ v then st.node.bumpDbv s v else st.node) v v []
              (Nat.le_refl _) hvh (by split <;> simp) (by split <;> simp) (by split <;> simp)
              (by split <;> simp) (Crash.dbvOf_bump_le st.node s v · _) (fun e he => by cases he)
              (fun w h1 h2 c hc' => by
                have : w = v := by omega
                subst this
                exact hdata rfl rfl c hc')
          | false =>
            simp only [Bool.false_eq_true, if_false, Nat.not_lt_zero]
            exact h.noneStep (st.node.mergeChanges cs) v v cs (Nat.le_refl _) hvh (mergeChanges_book _ _)
              (mergeChanges_alive _ _) (mergeChanges_seqRows _ _) (mergeChanges_buf _ _)
              (fun a' => by
                have hmx : ∀ x y : Nat, Nat.max x y = max x y := fun _ _ => rfl
                rw [dbvOf_mergeChanges st.node cs s v (fun c hc' => by
                  obtain ⟨_, h1, h2, _⟩ := hL.mem_get (hcs c hc'); exact ⟨h1, h2⟩) a']
                by_cases ha : a' = s
                · rw [if_pos ha]
                  split
                  · rw [hmx]; exact Nat.le_refl _
                  · rw [ha]; omega
                · rw [if_neg (fun h => ha h.1), if_neg ha]; exact Nat.le_refl _)
              hcs'
              (fun w h1 h2 c hc' => by
                have : w = v := by omega
                subst this
                exact hdata rfl rfl c hc')
        | false =>
          simp only [Bool.false_and, Bool.false_eq_true, if_false, List.append_nil]
          split
          · exact h
          · rename_i hlt
            exact h.bufferStep hL v lo hi last cs ⟨hvh, hcs, hcov, hlast⟩ (by omega) hc
              (not_alreadySeen_full hseen)

end

theorem txFoldG_txi {D : Prop} {L : Log} {N0 : Node} {site : Nat} {R0 : List Chg} {C0 : List (Nat × Nat × Nat)}
    {A0 : List (Nat × Nat)} (hG : GI D L N0.booked N0.seqRows N0.buf R0 C0 A0)
    (hdbv : ∀ a, dbvOf N0 a ≤ (N0.booked a).max) (hL : LogOK L)
    (items : List Item) (hit : ∀ it ∈ items, ChunkOK L it ∧ it.site = site) :
    TXI D L N0 site R0 C0 A0 (txFoldG N0 site items) := by
  unfold txFoldG
  apply foldl_inv (TXI D L N0 site R0 C0 A0)
  · exact TXI.init hG hdbv
  · intro s it hmem hs
    exact hs.step hL it (hit it hmem).1 (hit it hmem).2

/-- **one actor's share of the batch**: the generalised invariant holds of the node `processActor`
returns, with the clear jobs and applies it schedules pending -/
theorem processActor_gi {D : Prop} {L : Log} {N0 : Node} {site : Nat} {R0 : List Chg} {C0 : List (Nat × Nat × Nat)}
    {A0 : List (Nat × Nat)} (hG : GI D L N0.booked N0.seqRows N0.buf R0 C0 A0)
    (hdbv : ∀ a, dbvOf N0 a ≤ (N0.booked a).max) (hL : LogOK L)
    (hsorted : N0.book.Pairwise (fun x y => x.1 < y.1))
    (items : List Item) (hit : ∀ it ∈ items, ChunkOK L it ∧ it.site = site) :
    GI D L (processActor N0 site items).1.booked (processActor N0 site items).1.seqRows
      (processActor N0 site items).1.buf (txMerged N0 site items ++ R0)
      (C0 ++ (processActor N0 site items).2.2) (A0 ++ (processActor N0 site items).2.1) ∧
    (processActor N0 site items).1.alive = N0.alive ∧
    (processActor N0 site items).1.book.Pairwise (fun x y => x.1 < y.1) ∧
    (∀ a, dbvOf (processActor N0 site items).1 a ≤ ((processActor N0 site items).1.booked a).max) := by
  have hti := txFoldG_txi hG hdbv hL items hit
  have hfst := txFoldG_fst N0 site items
  have hgi := hti.gi
  have hbook := hti.book
  have halive := hti.alive
  have hfwd := hti.fwd
  have hdv := hti.dbv
  rw [hfst] at hgi hbook halive hfwd hdv
  have hK := committed_eq_cV N0 site (txFold N0 site items) (hG.needed_wf site) hfwd
  rw [processActor_node]
  unfold txMerged
  split
  · rename_i he
    have hnil : (txFold N0 site items).processed = [] := List.isEmpty_iff.mp he
    rw [hnil, vbk_nil, cV_nil, List.append_nil] at hgi
    rw [hnil, vbk_nil] at hdv
    simp only [List.append_nil]
    rw [booked_fun_of_book hbook]
    exact ⟨hgi, halive, by rw [hbook]; exact hsorted, hdv⟩
  · simp only
    rw [hK, booked_setBooked_ovr, booked_fun_of_book hbook, setBooked_seqRows, setBooked_buf, setBooked_alive]
    refine ⟨hgi, halive, setBooked_sorted (by rw [hbook]; exact hsorted) _ _, ?_⟩
    intro a
    rw [dbvOf_congr (setBooked_dbv _ _ _)]
    exact hdv a

end Corro.ClusterSys.Full
