/-
Helper lemmas for C04, part 2: the client-side request chunking and de-duplication of
`parallel_sync` (model: `queueOf`, `roundStep`/`schedule`, `dedupStep`/`sendAll`, `syncSession`).
-/
import Corro.Lemmas.Needs
import Corro.Props.C08

namespace Corro.Needs
open Corro.RSet

/-! ### vocabulary -/

/-- ranges of a need are forward (`lo ≤ hi`) -/
def Need.Forward : Need → Prop
  | .full lo hi => lo ≤ hi
  | .part _ sq => ∀ r ∈ sq, r.1 ≤ r.2

/-- `n` asks for no more than `n0` does: same kind, (same version,) contained range / seq set. -/
def Need.SubOf : Need → Need → Prop
  | .full lo hi, .full lo' hi' => lo' ≤ lo ∧ lo ≤ hi ∧ hi ≤ hi'
  | .part v sq, .part v' sq' => v = v' ∧ ∀ s, Mem sq s → Mem sq' s
  | _, _ => False

/-- version `x` of actor `a` is covered by a `Full` need put on the wire -/
def SentV (sent : List (Actor × Actor × Need)) (a : Actor) (x : Nat) : Prop :=
  ∃ srv lo hi, (srv, a, Need.full lo hi) ∈ sent ∧ lo ≤ x ∧ x ≤ hi

/-- seq `s` of version `v` of actor `a` is covered by a `Partial` need put on the wire -/
def SentS (sent : List (Actor × Actor × Need)) (a : Actor) (v s : Nat) : Prop :=
  ∃ srv sq, (srv, a, Need.part v sq) ∈ sent ∧ Mem sq s

def ItemsV (items : List (Actor × Item)) (a : Actor) (x : Nat) : Prop :=
  ∃ srv lo hi, (srv, (a, Need.full lo hi)) ∈ items ∧ lo ≤ x ∧ x ≤ hi

def ItemsS (items : List (Actor × Item)) (a : Actor) (v s : Nat) : Prop :=
  ∃ srv sq, (srv, (a, Need.part v sq)) ∈ items ∧ Mem sq s

/-! ### the sets computed by one de-duplication step -/

theorem mem_newVersions (R : RSet) (hR : WF R) (lo hi : Nat) (h : lo ≤ hi) (x : Nat) :
    Mem (removeAll [(lo, hi)] (overlapping R (lo, hi))) x ↔ (lo ≤ x ∧ x ≤ hi) ∧ ¬ Mem R x := by
  have hf : ∀ p ∈ overlapping R (lo, hi), p.1 ≤ p.2 :=
    fun p hp => wf_forward hR p ((mem_overlapping _ _ _).mp hp).1
  rw [mem_removeAll _ _ (wf_singleton h) hf, mem_singleton]
  constructor
  · rintro ⟨hx, hno⟩
    refine ⟨hx, ?_⟩
    rintro ⟨p, hp, h1, h2⟩
    exact hno ⟨p, (mem_overlapping _ _ _).mpr ⟨hp, by simp only; omega, by simp only; omega⟩, h1, h2⟩
  · rintro ⟨hx, hno⟩
    refine ⟨hx, ?_⟩
    rintro ⟨p, hp, h1, h2⟩
    exact hno ⟨p, ((mem_overlapping _ _ _).mp hp).1, h1, h2⟩

theorem newVersions_wf (R : RSet) (hR : WF R) (lo hi : Nat) (h : lo ≤ hi) :
    WF (removeAll [(lo, hi)] (overlapping R (lo, hi))) :=
  removeAll_wf _ _ (wf_singleton h)
    (fun p hp => wf_forward hR p ((mem_overlapping _ _ _).mp hp).1)

theorem foldl_removeAll_wf (f : Nat × Nat → RSet) (L : List (Nat × Nat)) (n0 : RSet) (h0 : WF n0)
    (hf : ∀ s ∈ L, ∀ p ∈ f s, p.1 ≤ p.2) :
    WF (L.foldl (fun n s => removeAll n (f s)) n0) := by
  induction L generalizing n0 with
  | nil => exact h0
  | cons s L ih =>
    simp only [List.foldl_cons]
    exact ih _ (removeAll_wf _ _ h0 (hf s (by simp))) (fun s' hs' => hf s' (by simp [hs']))

theorem mem_foldl_removeAll (f : Nat × Nat → RSet) (L : List (Nat × Nat)) (n0 : RSet) (h0 : WF n0)
    (hf : ∀ s ∈ L, ∀ p ∈ f s, p.1 ≤ p.2) (x : Nat) :
    Mem (L.foldl (fun n s => removeAll n (f s)) n0) x ↔
      Mem n0 x ∧ ¬ ∃ s ∈ L, ∃ p ∈ f s, p.1 ≤ x ∧ x ≤ p.2 := by
  induction L generalizing n0 with
  | nil => simp
  | cons s L ih =>
    simp only [List.foldl_cons]
    rw [ih _ (removeAll_wf _ _ h0 (hf s (by simp))) (fun s' hs' => hf s' (by simp [hs'])),
      mem_removeAll _ _ h0 (hf s (by simp))]
    simp only [List.mem_cons, exists_eq_or_imp]
    constructor
    · rintro ⟨⟨h1, h2⟩, h3⟩
      exact ⟨h1, fun h => h.elim h2 h3⟩
    · rintro ⟨h1, h2⟩
      exact ⟨⟨h1, fun h => h2 (Or.inl h)⟩, fun h => h2 (Or.inr h)⟩

theorem ofList_wf (seqs : List (Nat × Nat)) (hs : ∀ r ∈ seqs, r.1 ≤ r.2) : WF (ofList seqs) :=
  insertAll_wf [] seqs wf_nil hs

theorem mem_ofList (seqs : List (Nat × Nat)) (hs : ∀ r ∈ seqs, r.1 ≤ r.2) (x : Nat) :
    Mem (ofList seqs) x ↔ Mem seqs x := by
  have := mem_insertAll [] seqs hs x
  simp only [mem_nil, false_or] at this
  exact this

theorem newSeqs_wf (R : RSet) (hR : WF R) (seqs : List (Nat × Nat)) (hs : ∀ r ∈ seqs, r.1 ≤ r.2) :
    WF (seqs.foldl (fun n s => removeAll n (overlapping R s)) (ofList seqs)) :=
  foldl_removeAll_wf _ _ _ (ofList_wf seqs hs)
    (fun _ _ p hp => wf_forward hR p ((mem_overlapping _ _ _).mp hp).1)

theorem mem_newSeqs (R : RSet) (hR : WF R) (seqs : List (Nat × Nat)) (hs : ∀ r ∈ seqs, r.1 ≤ r.2)
    (x : Nat) :
    Mem (seqs.foldl (fun n s => removeAll n (overlapping R s)) (ofList seqs)) x ↔
      Mem seqs x ∧ ¬ Mem R x := by
  rw [mem_foldl_removeAll _ _ _ (ofList_wf seqs hs)
        (fun s _ p hp => wf_forward hR p ((mem_overlapping _ _ _).mp hp).1),
      mem_ofList seqs hs]
  constructor
  · rintro ⟨⟨r, hr, hx⟩, hno⟩
    refine ⟨⟨r, hr, hx⟩, ?_⟩
    rintro ⟨p, hp, h1, h2⟩
    exact hno ⟨r, hr, p, (mem_overlapping _ _ _).mpr ⟨hp, by omega, by omega⟩, h1, h2⟩
  · rintro ⟨hm, hno⟩
    refine ⟨hm, ?_⟩
    rintro ⟨r, _, p, hp, h1, h2⟩
    exact hno ⟨p, ((mem_overlapping _ _ _).mp hp).1, h1, h2⟩

/-! ### the invariant of the sending task -/

/-- `req_full` / `req_partials` are canonical interval sets and describe exactly what has been put
on the wire so far. -/
structure Inv (st : DState) : Prop where
  fullWF : ∀ a, WF ((aget a st.reqFull).getD [])
  fullMem : ∀ a x, Mem ((aget a st.reqFull).getD []) x ↔ SentV st.sent a x
  partWF : ∀ a v, WF ((aget (a, v) st.reqPartials).getD [])
  partMem : ∀ a v s, Mem ((aget (a, v) st.reqPartials).getD []) s ↔ SentS st.sent a v s

theorem inv_empty : Inv DState.empty := by
  constructor
  · intro a; exact wf_nil
  · intro a x
    simp only [DState.empty, aget, Option.getD_none, SentV, List.not_mem_nil, false_and, exists_false]
    exact ⟨fun h => absurd h (mem_nil x), fun h => h.elim⟩
  · intro a v; exact wf_nil
  · intro a v s
    simp only [DState.empty, aget, Option.getD_none, SentS, List.not_mem_nil, false_and, exists_false]
    exact ⟨fun h => absurd h (mem_nil s), fun h => h.elim⟩

theorem sentV_append (s1 s2 : List (Actor × Actor × Need)) (a : Actor) (x : Nat) :
    SentV (s1 ++ s2) a x ↔ SentV s1 a x ∨ SentV s2 a x := by
  simp only [SentV, List.mem_append]
  constructor
  · rintro ⟨srv, lo, hi, h | h, hx⟩
    · exact Or.inl ⟨srv, lo, hi, h, hx⟩
    · exact Or.inr ⟨srv, lo, hi, h, hx⟩
  · rintro (⟨srv, lo, hi, h, hx⟩ | ⟨srv, lo, hi, h, hx⟩)
    · exact ⟨srv, lo, hi, Or.inl h, hx⟩
    · exact ⟨srv, lo, hi, Or.inr h, hx⟩

theorem sentS_append (s1 s2 : List (Actor × Actor × Need)) (a : Actor) (v s : Nat) :
    SentS (s1 ++ s2) a v s ↔ SentS s1 a v s ∨ SentS s2 a v s := by
  simp only [SentS, List.mem_append]
  constructor
  · rintro ⟨srv, sq, h | h, hx⟩
    · exact Or.inl ⟨srv, sq, h, hx⟩
    · exact Or.inr ⟨srv, sq, h, hx⟩
  · rintro (⟨srv, sq, h, hx⟩ | ⟨srv, sq, h, hx⟩)
    · exact ⟨srv, sq, Or.inl h, hx⟩
    · exact ⟨srv, sq, Or.inr h, hx⟩

/-- the `Full` needs emitted for the new pieces cover exactly the new pieces, for that actor only -/
theorem sentV_newFull (srv a0 : Actor) (new : RSet) (a : Actor) (x : Nat) :
    SentV (new.map (fun v => (srv, a0, Need.full v.1 v.2))) a x ↔ a = a0 ∧ Mem new x := by
  simp only [SentV, List.mem_map]
  constructor
  · rintro ⟨srv', lo, hi, ⟨v, hv, heq⟩, hx⟩
    simp only [Prod.mk.injEq, Need.full.injEq] at heq
    obtain ⟨_, rfl, rfl, rfl⟩ := heq
    exact ⟨rfl, v, hv, hx⟩
  · rintro ⟨rfl, v, hv, hx⟩
    exact ⟨srv, v.1, v.2, ⟨v, hv, rfl⟩, hx⟩

theorem sentS_newFull (srv a0 : Actor) (new : RSet) (a : Actor) (v s : Nat) :
    ¬ SentS (new.map (fun v => (srv, a0, Need.full v.1 v.2))) a v s := by
  simp only [SentS, List.mem_map]
  rintro ⟨_, _, ⟨_, _, heq⟩, _⟩
  simp at heq

theorem sentS_newPart (srv a0 v0 : Actor) (new : RSet) (a : Actor) (v s : Nat) :
    SentS [(srv, a0, Need.part v0 new)] a v s ↔ (a = a0 ∧ v = v0) ∧ Mem new s := by
  simp only [SentS, List.mem_singleton, Prod.mk.injEq, Need.part.injEq]
  constructor
  · rintro ⟨_, _, ⟨_, rfl, rfl, rfl⟩, hx⟩
    exact ⟨⟨rfl, rfl⟩, hx⟩
  · rintro ⟨⟨rfl, rfl⟩, hx⟩
    exact ⟨srv, new, ⟨rfl, rfl, rfl, rfl⟩, hx⟩

theorem sentV_newPart (srv a0 v0 : Actor) (new : RSet) (a : Actor) (x : Nat) :
    ¬ SentV [(srv, a0, Need.part v0 new)] a x := by
  simp only [SentV, List.mem_singleton, Prod.mk.injEq]
  rintro ⟨_, _, _, ⟨_, _, heq⟩, _⟩
  cases heq

/-- one step, `Full` item. -/
theorem dedupStep_full (st : DState) (hinv : Inv st) (srv a0 lo hi : Nat) (h : lo ≤ hi) :
    Inv (dedupStep st srv (a0, Need.full lo hi)) ∧
    (∀ a x, SentV (dedupStep st srv (a0, Need.full lo hi)).sent a x ↔
        SentV st.sent a x ∨ (a = a0 ∧ lo ≤ x ∧ x ≤ hi)) ∧
    (∀ a v s, SentS (dedupStep st srv (a0, Need.full lo hi)).sent a v s ↔ SentS st.sent a v s) ∧
    (∀ e ∈ (dedupStep st srv (a0, Need.full lo hi)).sent,
        e ∈ st.sent ∨ ∃ n, e = (srv, a0, n) ∧ n.SubOf (Need.full lo hi)) := by
  have hR := hinv.fullWF a0
  have hnew := mem_newVersions _ hR lo hi h
  have hnwf := newVersions_wf _ hR lo hi h
  simp only [dedupStep]
  split
  · -- everything already requested
    rename_i hemp
    have hnil : removeAll [(lo, hi)] (overlapping ((aget a0 st.reqFull).getD []) (lo, hi)) = [] := by
      simpa [List.isEmpty_iff] using hemp
    refine ⟨hinv, ?_, fun _ _ _ => Iff.rfl, fun e he => Or.inl he⟩
    intro a x
    constructor
    · exact Or.inl
    · rintro (h1 | ⟨rfl, hx⟩)
      · exact h1
      · have : ¬ Mem (removeAll [(lo, hi)] (overlapping ((aget a st.reqFull).getD []) (lo, hi))) x := by
          rw [hnil]; exact mem_nil x
        rw [hnew x] at this
        have hm : Mem ((aget a st.reqFull).getD []) x := by
          apply Classical.byContradiction
          intro hc; exact this ⟨hx, hc⟩
        exact (hinv.fullMem a x).mp hm
  · -- something new is sent
    have hsv : ∀ a x, SentV (st.sent ++ (removeAll [(lo, hi)] (overlapping ((aget a0 st.reqFull).getD [])
          (lo, hi))).map (fun v => (srv, a0, Need.full v.1 v.2))) a x ↔
        SentV st.sent a x ∨ (a = a0 ∧ lo ≤ x ∧ x ≤ hi) := by
      intro a x
      rw [sentV_append, sentV_newFull, hnew x]
      constructor
      · rintro (h1 | ⟨rfl, hx, _⟩)
        · exact Or.inl h1
        · exact Or.inr ⟨rfl, hx⟩
      · rintro (h1 | ⟨rfl, hx⟩)
        · exact Or.inl h1
        · by_cases hm : Mem ((aget a st.reqFull).getD []) x
          · exact Or.inl ((hinv.fullMem a x).mp hm)
          · exact Or.inr ⟨rfl, hx, hm⟩
    refine ⟨?_, hsv, ?_, ?_⟩
    · constructor
      · intro a
        simp only
        by_cases ha : a = a0
        · subst ha
          rw [aget_aset_same]
          exact insertAll_wf _ _ hR (wf_forward hnwf)
        · rw [aget_aset_other _ _ _ _ ha]; exact hinv.fullWF a
      · intro a x
        simp only
        rw [hsv a x]
        by_cases ha : a = a0
        · subst ha
          rw [aget_aset_same]
          rw [Option.getD_some]
          rw [mem_insertAll _ _ (wf_forward hnwf) x]
          have h1 := hinv.fullMem a x
          have h2 := hnew x
          constructor
          · rintro (hm | ⟨r, hr, hx⟩)
            · exact Or.inl (h1.mp hm)
            · exact Or.inr ⟨rfl, (h2.mp ⟨r, hr, hx⟩).1⟩
          · rintro (hm | ⟨_, hx⟩)
            · exact Or.inl (h1.mpr hm)
            · by_cases hm : Mem ((aget a st.reqFull).getD []) x
              · exact Or.inl hm
              · exact Or.inr (h2.mpr ⟨hx, hm⟩)
        · rw [aget_aset_other _ _ _ _ ha]
          rw [hinv.fullMem a x]
          constructor
          · exact Or.inl
          · rintro (h1 | ⟨h2, _⟩)
            · exact h1
            · exact absurd h2 ha
      · intro a v; exact hinv.partWF a v
      · intro a v s
        simp only
        rw [hinv.partMem a v s, sentS_append]
        constructor
        · exact Or.inl
        · rintro (h1 | h2)
          · exact h1
          · exact absurd h2 (sentS_newFull _ _ _ _ _ _)
    · intro a v s
      rw [sentS_append]
      constructor
      · rintro (h1 | h2)
        · exact h1
        · exact absurd h2 (sentS_newFull _ _ _ _ _ _)
      · exact Or.inl
    · intro e he
      rcases List.mem_append.mp he with h1 | h1
      · exact Or.inl h1
      · obtain ⟨v, hv, rfl⟩ := List.mem_map.mp h1
        refine Or.inr ⟨_, rfl, ?_⟩
        have hvf := wf_forward hnwf v hv
        have hl := ((hnew v.1).mp ⟨v, hv, Nat.le_refl _, hvf⟩).1
        have hr := ((hnew v.2).mp ⟨v, hv, hvf, Nat.le_refl _⟩).1
        simp only [Need.SubOf]
        omega

/-- one step, `Partial` item. -/
theorem dedupStep_part (st : DState) (hinv : Inv st) (srv a0 v0 : Nat) (seqs : List (Nat × Nat))
    (h : ∀ r ∈ seqs, r.1 ≤ r.2) :
    Inv (dedupStep st srv (a0, Need.part v0 seqs)) ∧
    (∀ a x, SentV (dedupStep st srv (a0, Need.part v0 seqs)).sent a x ↔ SentV st.sent a x) ∧
    (∀ a v s, SentS (dedupStep st srv (a0, Need.part v0 seqs)).sent a v s ↔
        SentS st.sent a v s ∨ ((a = a0 ∧ v = v0) ∧ Mem seqs s)) ∧
    (∀ e ∈ (dedupStep st srv (a0, Need.part v0 seqs)).sent,
        e ∈ st.sent ∨ ∃ n, e = (srv, a0, n) ∧ n.SubOf (Need.part v0 seqs)) := by
  have hR := hinv.partWF a0 v0
  have hnew := mem_newSeqs _ hR seqs h
  have hnwf := newSeqs_wf _ hR seqs h
  simp only [dedupStep]
  split
  · rename_i hemp
    have hnil : seqs.foldl (fun n s => removeAll n (overlapping ((aget (a0, v0) st.reqPartials).getD []) s))
        (ofList seqs) = [] := by simpa [List.isEmpty_iff] using hemp
    refine ⟨hinv, fun _ _ => Iff.rfl, ?_, fun e he => Or.inl he⟩
    intro a v s
    constructor
    · exact Or.inl
    · rintro (h1 | ⟨⟨rfl, rfl⟩, hx⟩)
      · exact h1
      · have : ¬ Mem (seqs.foldl (fun n s => removeAll n (overlapping ((aget (a, v) st.reqPartials).getD []) s))
            (ofList seqs)) s := by rw [hnil]; exact mem_nil s
        rw [hnew s] at this
        have hm : Mem ((aget (a, v) st.reqPartials).getD []) s := by
          apply Classical.byContradiction
          intro hc; exact this ⟨hx, hc⟩
        exact (hinv.partMem a v s).mp hm
  · have hss : ∀ a v s, SentS (st.sent ++ [(srv, a0, Need.part v0 (seqs.foldl (fun n s => removeAll n
          (overlapping ((aget (a0, v0) st.reqPartials).getD []) s)) (ofList seqs)))]) a v s ↔
        SentS st.sent a v s ∨ ((a = a0 ∧ v = v0) ∧ Mem seqs s) := by
      intro a v s
      rw [sentS_append, sentS_newPart, hnew s]
      constructor
      · rintro (h1 | ⟨hav, hx, _⟩)
        · exact Or.inl h1
        · exact Or.inr ⟨hav, hx⟩
      · rintro (h1 | ⟨⟨rfl, rfl⟩, hx⟩)
        · exact Or.inl h1
        · by_cases hm : Mem ((aget (a, v) st.reqPartials).getD []) s
          · exact Or.inl ((hinv.partMem a v s).mp hm)
          · exact Or.inr ⟨⟨rfl, rfl⟩, hx, hm⟩
    refine ⟨?_, ?_, hss, ?_⟩
    · constructor
      · intro a; exact hinv.fullWF a
      · intro a x
        simp only
        rw [hinv.fullMem a x, sentV_append]
        constructor
        · exact Or.inl
        · rintro (h1 | h2)
          · exact h1
          · exact absurd h2 (sentV_newPart _ _ _ _ _ _)
      · intro a v
        simp only
        by_cases ha : (a, v) = (a0, v0)
        · rw [ha, aget_aset_same]
          exact insertAll_wf _ _ hR (wf_forward hnwf)
        · rw [aget_aset_other _ _ _ _ ha]; exact hinv.partWF a v
      · intro a v s
        simp only
        rw [hss a v s]
        by_cases ha : (a, v) = (a0, v0)
        · rw [ha, aget_aset_same]
          rw [Option.getD_some]
          rw [mem_insertAll _ _ (wf_forward hnwf) s]
          obtain ⟨rfl, rfl⟩ := Prod.mk.inj ha
          have h1 := hinv.partMem a v s
          have h2 := hnew s
          constructor
          · rintro (hm | ⟨r, hr, hx⟩)
            · exact Or.inl (h1.mp hm)
            · exact Or.inr ⟨⟨rfl, rfl⟩, (h2.mp ⟨r, hr, hx⟩).1⟩
          · rintro (hm | ⟨_, hx⟩)
            · exact Or.inl (h1.mpr hm)
            · by_cases hm : Mem ((aget (a, v) st.reqPartials).getD []) s
              · exact Or.inl hm
              · exact Or.inr (h2.mpr ⟨hx, hm⟩)
        · rw [aget_aset_other _ _ _ _ ha, hinv.partMem a v s]
          constructor
          · exact Or.inl
          · rintro (h1 | ⟨⟨rfl, rfl⟩, _⟩)
            · exact h1
            · exact absurd rfl ha
    · intro a x
      rw [sentV_append]
      constructor
      · rintro (h1 | h2)
        · exact h1
        · exact absurd h2 (sentV_newPart _ _ _ _ _ _)
      · exact Or.inl
    · intro e he
      rcases List.mem_append.mp he with h1 | h1
      · exact Or.inl h1
      · rw [List.mem_singleton] at h1
        refine Or.inr ⟨_, h1, ?_⟩
        simp only [Need.SubOf, true_and]
        intro s hs
        exact ((hnew s).mp hs).1

/-- the whole session, for ANY popping order `items`. -/
theorem sendAll_spec (items : List (Actor × Item)) (hfw : ∀ si ∈ items, si.2.2.Forward)
    (st : DState) (hinv : Inv st) :
    Inv (sendAll st items) ∧
    (∀ a x, SentV (sendAll st items).sent a x ↔ SentV st.sent a x ∨ ItemsV items a x) ∧
    (∀ a v s, SentS (sendAll st items).sent a v s ↔ SentS st.sent a v s ∨ ItemsS items a v s) ∧
    (∀ e ∈ (sendAll st items).sent,
        e ∈ st.sent ∨ ∃ n n0, e = (e.1, e.2.1, n) ∧ (e.1, (e.2.1, n0)) ∈ items ∧ n.SubOf n0) := by
  induction items generalizing st with
  | nil =>
    refine ⟨hinv, ?_, ?_, fun e he => Or.inl he⟩
    · intro a x; simp [sendAll, ItemsV]
    · intro a v s; simp [sendAll, ItemsS]
  | cons si items ih =>
    obtain ⟨srv, a0, n0⟩ := si
    have hf0 : n0.Forward := hfw (srv, a0, n0) (by simp)
    have hfw' : ∀ si ∈ items, si.2.2.Forward := fun si h => hfw si (by simp [h])
    simp only [sendAll, List.foldl_cons]
    cases n0 with
    | full lo hi =>
      obtain ⟨i1, i2, i3, i4⟩ := dedupStep_full st hinv srv a0 lo hi hf0
      obtain ⟨j1, j2, j3, j4⟩ := ih hfw' _ i1
      simp only [sendAll] at j1 j2 j3 j4
      refine ⟨j1, ?_, ?_, ?_⟩
      · intro a x
        rw [j2 a x, i2 a x]
        simp only [ItemsV, List.mem_cons, Prod.mk.injEq, Need.full.injEq]
        constructor
        · rintro ((h1 | ⟨rfl, hx⟩) | ⟨srv', lo', hi', hm, hx⟩)
          · exact Or.inl h1
          · exact Or.inr ⟨srv, lo, hi, Or.inl ⟨rfl, rfl, rfl, rfl⟩, hx⟩
          · exact Or.inr ⟨srv', lo', hi', Or.inr hm, hx⟩
        · rintro (h1 | ⟨srv', lo', hi', hm | hm, hx⟩)
          · exact Or.inl (Or.inl h1)
          · obtain ⟨_, rfl, rfl, rfl⟩ := hm
            exact Or.inl (Or.inr ⟨rfl, hx⟩)
          · exact Or.inr ⟨srv', lo', hi', hm, hx⟩
      · intro a v s
        rw [j3 a v s, i3 a v s]
        simp only [ItemsS, List.mem_cons, Prod.mk.injEq]
        constructor
        · rintro (h1 | ⟨srv', sq, hm, hx⟩)
          · exact Or.inl h1
          · exact Or.inr ⟨srv', sq, Or.inr hm, hx⟩
        · rintro (h1 | ⟨srv', sq, hm | hm, hx⟩)
          · exact Or.inl h1
          · obtain ⟨_, _, hc⟩ := hm; cases hc
          · exact Or.inr ⟨srv', sq, hm, hx⟩
      · intro e he
        rcases j4 e he with h1 | ⟨n, n1, h1, h2, h3⟩
        · rcases i4 e h1 with h2 | ⟨n, rfl, h3⟩
          · exact Or.inl h2
          · exact Or.inr ⟨n, Need.full lo hi, rfl, by simp, h3⟩
        · exact Or.inr ⟨n, n1, h1, List.mem_cons_of_mem _ h2, h3⟩
    | part v0 seqs =>
      obtain ⟨i1, i2, i3, i4⟩ := dedupStep_part st hinv srv a0 v0 seqs hf0
      obtain ⟨j1, j2, j3, j4⟩ := ih hfw' _ i1
      simp only [sendAll] at j1 j2 j3 j4
      refine ⟨j1, ?_, ?_, ?_⟩
      · intro a x
        rw [j2 a x, i2 a x]
        simp only [ItemsV, List.mem_cons, Prod.mk.injEq]
        constructor
        · rintro (h1 | ⟨srv', lo', hi', hm, hx⟩)
          · exact Or.inl h1
          · exact Or.inr ⟨srv', lo', hi', Or.inr hm, hx⟩
        · rintro (h1 | ⟨srv', lo', hi', hm | hm, hx⟩)
          · exact Or.inl h1
          · obtain ⟨_, _, hc⟩ := hm; cases hc
          · exact Or.inr ⟨srv', lo', hi', hm, hx⟩
      · intro a v s
        rw [j3 a v s, i3 a v s]
        simp only [ItemsS, List.mem_cons, Prod.mk.injEq, Need.part.injEq]
        constructor
        · rintro ((h1 | ⟨⟨rfl, rfl⟩, hx⟩) | ⟨srv', sq, hm, hx⟩)
          · exact Or.inl h1
          · exact Or.inr ⟨srv, seqs, Or.inl ⟨rfl, rfl, rfl, rfl⟩, hx⟩
          · exact Or.inr ⟨srv', sq, Or.inr hm, hx⟩
        · rintro (h1 | ⟨srv', sq, hm | hm, hx⟩)
          · exact Or.inl (Or.inl h1)
          · obtain ⟨_, rfl, rfl, rfl⟩ := hm
            exact Or.inl (Or.inr ⟨⟨rfl, rfl⟩, hx⟩)
          · exact Or.inr ⟨srv', sq, hm, hx⟩
      · intro e he
        rcases j4 e he with h1 | ⟨n, n1, h1, h2, h3⟩
        · rcases i4 e h1 with h2 | ⟨n, rfl, h3⟩
          · exact Or.inl h2
          · exact Or.inr ⟨n, Need.part v0 seqs, rfl, by simp, h3⟩
        · exact Or.inr ⟨n, n1, h1, List.mem_cons_of_mem _ h2, h3⟩

end Corro.Needs
