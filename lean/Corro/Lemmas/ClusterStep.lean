/-
C01, protocol level — the cluster invariants and their preservation by every step of the cluster
model (`ClusterSys.step`): local writes (the log grows), original chunks, sync sessions with any
selection of the server's answers, kill and restart.
-/
import Corro.Lemmas.ClusterServe

namespace Corro.ClusterSys
open Corro.Crdt Corro.Node

/-! ### reachability -/

/-- the local write path agrees with merging its own change list: the rows the transaction leaves
are the rows obtained by merging the change list it produced into the rows it started from.
(Decidable for concrete inputs; the local write path of cr-sqlite is trusted, DESIGN §2 — this is
the form in which that trust enters the cluster theorems.) -/
def WriteAgrees (db : Db) (stmts : List Stmt) : Prop :=
  match localTx db stmts with
  | .ok (db', some (_, chs)) => db'.rows = (mergeAll db chs).rows
  | _ => True

instance (db : Db) (stmts : List Stmt) : Decidable (WriteAgrees db stmts) := by
  unfold WriteAgrees
  split
  · exact inferInstance
  · exact inferInstance

/-- side condition of a step -/
def OpOK (c : Cluster) : Op → Prop
  | .write i stmts =>
    match c.nodes[i]? with
    | some n => WriteAgrees n.db stmts
    | none => True
  | _ => True

instance (c : Cluster) (op : Op) : Decidable (OpOK c op) := by
  cases op with
  | write i stmts =>
    show Decidable (match c.nodes[i]? with | some n => WriteAgrees n.db stmts | none => True)
    cases c.nodes[i]? with
    | none => exact isTrue trivial
    | some n => exact inferInstanceAs (Decidable (WriteAgrees n.db stmts))
  | deliverOrigin => exact isTrue trivial
  | sync => exact isTrue trivial
  | kill => exact isTrue trivial
  | restart => exact isTrue trivial

theorem opOK_write {c : Cluster} {i : Nat} {stmts : List Stmt} (h : OpOK c (.write i stmts)) {n : Node}
    (hi : c.nodes[i]? = some n) : WriteAgrees n.db stmts := by
  have h' : (match c.nodes[i]? with | some n => WriteAgrees n.db stmts | none => True) := h
  rw [hi] at h'
  exact h'

/-- clusters reachable from `k` fresh nodes by any steps -/
inductive Reach (k : Nat) : Cluster → Prop
  | init : Reach k (Cluster.init k)
  | step {c : Cluster} (op : Op) : Reach k c → OpOK c op → Reach k (step c op)

def Op.noCrash : Op → Bool
  | .kill _ => false
  | .restart _ => false
  | _ => true

/-- clusters reachable without `kill` / `restart`, through states in which no node has a sequence
row without a buffered row (`Cluster.clean`) -/
inductive ReachLive (k : Nat) : Cluster → Prop
  | init : ReachLive k (Cluster.init k)
  | step {c : Cluster} (op : Op) : ReachLive k c → op.noCrash = true → OpOK c op → c.clean = true →
      ReachLive k (step c op)

theorem ReachLive.reach {k : Nat} {c : Cluster} (h : ReachLive k c) : Reach k c := by
  induction h with
  | init => exact Reach.init
  | step op _ _ hok _ ih => exact Reach.step op ih hok

/-! ### the log only grows -/

theorem step_write (c : Cluster) (i : Nat) (stmts : List Stmt) :
    step c (.write i stmts) =
      match c.nodes[i]? with
      | none => c
      | some n =>
        match n.localWrite stmts with
        | .ok (n', some (ver, chs)) =>
          { nodes := c.nodes.set i n', log := ((n.id, ver), chs) :: c.log,
            recv := c.recv.set i (chs ++ c.R i) }
        | _ => c := rfl

theorem step_deliverOrigin (c : Cluster) (i site ver lo hi : Nat) :
    step c (.deliverOrigin i site ver lo hi) =
      match c.nodes[i]? with
      | none => c
      | some n =>
        if c.log.has site ver && decide (lo ≤ hi) && decide (hi ≤ maxSeq (c.log.get site ver)) then
          c.setNode i (deliverOne (n, c.R i) (originItem c.log site ver lo hi))
        else c := rfl

theorem step_sync (c : Cluster) (i j : Nat) (keep : List Nat) :
    step c (.sync i j keep) =
      match c.nodes[i]?, c.nodes[j]? with
      | some ni, some nj =>
        if i = j then c
        else c.setNode i ((pick (answers ni nj) keep).foldl deliverOne (ni, c.R i))
      | _, _ => c := rfl

theorem step_kill (c : Cluster) (i : Nat) :
    step c (.kill i) = match c.nodes[i]? with
      | none => c
      | some n => c.setNode i (n.kill, c.R i) := rfl

theorem step_restart (c : Cluster) (i : Nat) :
    step c (.restart i) = match c.nodes[i]? with
      | none => c
      | some n => c.setNode i (n.restart, restartMerged n ++ c.R i) := rfl

theorem step_log (c : Cluster) (op : Op) :
    (step c op).log = c.log ∨ ∃ e, (step c op).log = e :: c.log := by
  cases op with
  | write i stmts =>
    rw [step_write]
    split
    · exact Or.inl rfl
    · split
      · exact Or.inr ⟨_, rfl⟩
      · exact Or.inl rfl
  | deliverOrigin i site ver lo hi =>
    rw [step_deliverOrigin]
    split
    · exact Or.inl rfl
    · split <;> exact Or.inl rfl
  | sync i j keep =>
    rw [step_sync]
    split
    · split <;> exact Or.inl rfl
    · exact Or.inl rfl
  | kill i => rw [step_kill]; split <;> exact Or.inl rfl
  | restart i => rw [step_restart]; split <;> exact Or.inl rfl

theorem logOK_of_step {c : Cluster} {op : Op} (h : LogOK (step c op).log) : LogOK c.log := by
  rcases step_log c op with h1 | ⟨e, h1⟩
  · rw [h1] at h; exact h
  · rw [h1] at h; exact h.tail

/-! ### cluster invariants -/

/-- a predicate on `(node, ghost list)` holds of every node of the cluster -/
structure AllNodes (P : Node → List Chg → Prop) (c : Cluster) : Prop where
  len : c.recv.length = c.nodes.length
  node : ∀ i n, c.nodes[i]? = some n → P n (c.R i)

theorem allNodes_setNode {P : Node → List Chg → Prop} {c : Cluster} (h : AllNodes P c) {i : Nat}
    {n : Node} (hi : c.nodes[i]? = some n) {s : Node × List Chg} (hs : P s.1 s.2) :
    AllNodes P (c.setNode i s) := by
  have hlt : i < c.nodes.length := (List.getElem?_eq_some_iff.mp hi).1
  refine ⟨by simp [Cluster.setNode, h.len], ?_⟩
  intro j m hj
  by_cases hij : i = j
  · subst hij
    have h1 : (c.setNode i s).nodes[i]? = some s.1 := by
      simp [Cluster.setNode, hlt]
    have h2 : (c.setNode i s).R i = s.2 := by
      unfold Cluster.R
      simp [Cluster.setNode, h.len, hlt]
    rw [h1] at hj
    cases hj
    rw [h2]; exact hs
  · have h1 : (c.setNode i s).nodes[j]? = c.nodes[j]? := by
      simp [Cluster.setNode, List.getElem?_set_ne hij]
    have h2 : (c.setNode i s).R j = c.R j := by
      unfold Cluster.R
      simp [Cluster.setNode, List.getElem?_set_ne hij]
    rw [h1] at hj
    rw [h2]; exact h.node j m hj

theorem allNodes_mono {P Q : Node → List Chg → Prop} {c c' : Cluster} (h : AllNodes P c)
    (hn : c'.nodes = c.nodes) (hr : c'.recv = c.recv) (hPQ : ∀ n R, P n R → Q n R) : AllNodes Q c' := by
  refine ⟨by rw [hn, hr]; exact h.len, ?_⟩
  intro i n hi
  rw [hn] at hi
  have : c'.R i = c.R i := by unfold Cluster.R; rw [hr]
  rw [this]
  exact hPQ _ _ (h.node i n hi)

theorem allNodes_init (P : Node → List Chg → Prop) (k : Nat) (h : ∀ i, P (Node.fresh i) []) :
    AllNodes P (Cluster.init k) := by
  refine ⟨by simp [Cluster.init], ?_⟩
  intro i n hi
  simp only [Cluster.init, List.getElem?_map] at hi
  cases hr : (List.range k)[i]? with
  | none => rw [hr] at hi; cases hi
  | some x =>
    rw [hr] at hi
    simp only [Option.map_some, Option.some.injEq] at hi
    have hx := List.getElem?_eq_some_iff.mp hr
    obtain ⟨hlt, hx⟩ := hx
    rw [List.getElem_range] at hx
    have hR : (Cluster.init k).R i = [] := by
      unfold Cluster.R
      show ((List.replicate k ([] : List Chg))[i]?).getD [] = []
      cases h' : (List.replicate k ([] : List Chg))[i]? with
      | none => rfl
      | some y =>
        have := List.mem_of_getElem? h'
        rw [List.mem_replicate] at this
        rw [this.2]; rfl
    rw [hR, ← hi, ← hx]
    exact h i

/-! ### fresh nodes -/

theorem ninv_fresh (i : Nat) : NInv [] (Node.fresh i) [] :=
  NInv.mk (storeOK_empty i) (fun _ h => absurd h List.not_mem_nil) (fun _ h => absurd h List.not_mem_nil)

theorem fresh_booked (i a : Nat) : (Node.fresh i).booked a = {} := rfl

theorem linv_fresh (i : Nat) : LInv [] (Node.fresh i) [] := by
  refine ⟨rfl, List.Pairwise.nil, ?_, ?_, ?_, ?_, ?_, ?_, ?_, ?_, ?_, ?_, ?_, ?_, ?_, ?_, ?_⟩
  · intro a; rw [fresh_booked]; simp [RSet.WF, RSet.WFfrom]
  · intro a e he; rw [fresh_booked] at he; cases he
  · intro a; rw [fresh_booked]; exact List.Pairwise.nil
  · intro r hr; cases hr
  · intro r hr; cases hr
  · intro a; rw [fresh_booked]; exact Nat.zero_le _
  · intro a v p hp; rw [fresh_booked] at hp; cases hp
  · intro a v p hp; rw [fresh_booked] at hp; cases hp
  · intro a v x ⟨r, hr, _⟩; cases hr
  · intro r hr; cases hr
  · intro a v p hp; rw [fresh_booked] at hp; cases hp
  · intro a v _ c hc; cases hc
  · intro e he; cases he
  · intro r hr; cases hr
  · intro c hc; cases hc

/-! ### the log grows under a node -/

theorem NInv.cons_log {L : Log} {n : Node} {R : List Chg} (h : NInv L n R) (e : (Nat × Nat) × List Chg) :
    NInv (e :: L) n R :=
  ⟨h.store, fun x hx => mem_all_cons (h.rsub x hx), fun x hx => mem_all_cons (h.bufsub x hx)⟩

theorem dom_cons {L : Log} {e : (Nat × Nat) × List Chg} {c : Chg} (h : Dom L.all c) :
    Dom (Log.all (e :: L)) c :=
  h.mono (fun _ hd => mem_all_cons hd)

/-- the invariant of an alive node survives a new acknowledged transaction (of any site) -/
theorem LInv.cons_log {L : Log} {n : Node} {R : List Chg} (h : LInv L n R) {e : (Nat × Nat) × List Chg}
    (hL : LogOK (e :: L)) : LInv (e :: L) n R := by
  have hget : ∀ a v, v ≤ (n.booked a).max → Log.get (e :: L) a v = Log.get L a v := by
    intro a v hv
    exact hL.get_cons_old (by have := h.head_le a; omega)
  have hor : ∀ {c : Chg} {P : Prop}, P ∨ Dom L.all c → P ∨ Dom (Log.all (e :: L)) c := by
    intro c P hp
    rcases hp with hp | hp
    · exact Or.inl hp
    · exact Or.inr (dom_cons hp)
  refine ⟨h.alive, h.sorted, h.needed_wf, h.pwf, h.keys, h.rows_fwd, h.rows_le, ?_, h.part_known, h.part_state,
    ?_, ?_, ?_, ?_, h.rheld, h.rows_part, h.buf_rows⟩
  · intro a
    have := h.head_le a
    have := head_le_cons e L a
    omega
  · intro a v x hx c hc hcx
    obtain ⟨r, hr, h1, h2, _⟩ := hx
    have hv : v ≤ (n.booked a).max := by
      have := h.rows_le r hr
      rw [h1, h2] at this; exact this
    rw [hget a v hv] at hc
    exact hor (h.cover a v x ⟨r, hr, h1, h2, by assumption⟩ c hc hcx)
  · intro r hr c hc hlt
    rw [hget _ _ (h.rows_le r hr)] at hc
    exact dom_cons (h.last_rows r hr c hc hlt)
  · intro a v p hp hpc c hc hlt
    have hv := ((containsVersion_iff _ _).mp (h.part_known a v p hp)).2
    rw [hget a v hv] at hc
    exact dom_cons (h.last_part a v p hp hpc c hc hlt)
  · intro a v hh c hc
    have hv := ((containsVersion_iff _ _).mp hh.1).2
    rw [hget a v hv] at hc
    exact hor (h.held a v hh c hc)

/-! ### a local write -/

theorem localWrite_ok {n n' : Node} {stmts : List Stmt} {ver : Nat} {chs : List Chg}
    (h : n.localWrite stmts = .ok (n', some (ver, chs))) :
    ∃ db', localTx n.db stmts = .ok (db', some (ver, chs)) ∧
      n' = (({ n with db := db' } : Node).bumpDbv n.id ver).setBooked n.id
        ((({ n with db := db' } : Node).booked n.id).insertDb [(ver, ver)]) := by
  unfold Node.localWrite at h
  split at h
  · cases h
  · cases h
  · rename_i db' v cs htx
    simp only [Except.ok.injEq, Prod.mk.injEq, Option.some.injEq] at h
    obtain ⟨h1, h2, h3⟩ := h
    subst h2; subst h3
    exact ⟨db', htx, h1.symm⟩

theorem ninv_write {L : Log} {n n' : Node} {R : List Chg} {stmts : List Stmt} {ver : Nat}
    {chs : List Chg} (hN : NInv L n R) (hw : n.localWrite stmts = .ok (n', some (ver, chs)))
    (hag : WriteAgrees n.db stmts) (hL : LogOK (((n.id, ver), chs) :: L)) :
    NInv (((n.id, ver), chs) :: L) n' (chs ++ R) := by
  obtain ⟨db', htx, rfl⟩ := localWrite_ok hw
  unfold WriteAgrees at hag
  rw [htx] at hag
  simp only at hag
  have hchs : ∀ c ∈ chs, ChgOK c := fun c hc => (hL.2.2.1 c hc).2.2
  refine ⟨?_, ?_, ?_⟩
  · rw [setBooked_db, bumpDbv_db]
    exact (hN.store.mergeAll hchs).of_rows hag
  · intro e he
    rw [all_cons]
    rcases List.mem_append.mp he with h | h
    · exact List.mem_append_left _ h
    · exact List.mem_append_right _ (hN.rsub e h)
  · intro e he
    rw [setBooked_buf, bumpDbv_buf] at he
    exact mem_all_cons (hN.bufsub e he)

theorem linv_write {L : Log} {n n' : Node} {R : List Chg} {stmts : List Stmt} {ver : Nat}
    {chs : List Chg} (hN : NInv L n R) (hI : LInv L n R)
    (hw : n.localWrite stmts = .ok (n', some (ver, chs)))
    (hL : LogOK (((n.id, ver), chs) :: L)) :
    LInv (((n.id, ver), chs) :: L) n' (chs ++ R) ∧
    (∀ a' w, Held n' a' w ↔ (a' = n.id ∧ ver ≤ w ∧ w ≤ ver) ∨ Held n a' w) ∧ n'.id = n.id := by
  obtain ⟨db', _, rfl⟩ := localWrite_ok hw
  have hI' := hI.cons_log hL
  have hver : ver = L.head n.id + 1 := hL.2.1
  have hmaxle := hI.head_le n.id
  have hbk : ∀ a, ({ n with db := db' } : Node).booked a = n.booked a := fun a => rfl
  have hmax : ((n.booked n.id).insertDb [(ver, ver)]).max = max (n.booked n.id).max ver := by
    rw [insertDb_max _ _ (by simp), sup_singleton]
  have hnorow : ∀ r ∈ n.seqRows, ¬ (r.site = n.id ∧ ver ≤ r.ver ∧ r.ver ≤ ver) := by
    rintro r hr ⟨h1, h2, _⟩
    have := hI.rows_le r hr
    rw [h1] at this
    omega
  have hnobuf : ∀ c ∈ n.buf, ¬ (c.site = n.id ∧ ver ≤ c.dbv ∧ c.dbv ≤ ver) := by
    rintro c hc ⟨h1, h2, _⟩
    have hLt := hL.tail
    have hg := hLt.get_of_mem_all (hN.bufsub c hc)
    rw [hLt.get_beyond (by rw [h1]; omega)] at hg
    cases hg
  suffices hmain : LInv (((n.id, ver), chs) :: L)
      ((({ n with db := db' } : Node).bumpDbv n.id ver).setBooked n.id
        ((({ n with db := db' } : Node).booked n.id).insertDb [(ver, ver)])) (chs ++ R) ∧
      (∀ a' w, Held ((({ n with db := db' } : Node).bumpDbv n.id ver).setBooked n.id
        ((({ n with db := db' } : Node).booked n.id).insertDb [(ver, ver)])) a' w ↔
        (a' = n.id ∧ ver ≤ w ∧ w ≤ ver) ∨ Held n a' w) ∧
      (∀ a' w, ¬ (a' = n.id ∧ ver ≤ w ∧ w ≤ ver) →
        (((({ n with db := db' } : Node).bumpDbv n.id ver).setBooked n.id
          ((({ n with db := db' } : Node).booked n.id).insertDb [(ver, ver)])).booked a').partial? w =
          (n.booked a').partial? w) by
    exact ⟨hmain.1, hmain.2.1, by simp⟩
  refine linv_close (a := n.id) (vlo := ver) (vhi := ver) hI' hL ?_ ?_ ?_ ?_ ?_ ?_ ?_ ?_ ?_ ?_ ?_ ?_ ?_ ?_ ?_ ?_
  · rw [setBooked_alive, bumpDbv_alive]; exact hI.alive
  · exact setBooked_sorted (by rw [bumpDbv_book]; exact hI.sorted) _ _
  · intro a' ha
    rw [booked_setBooked_other _ _ _ _ ha, booked_bumpDbv]
    rfl
  · intro w
    rw [booked_setBooked_same, hbk]
    exact containsVersion_insertDb (hI.needed_wf n.id) (Nat.le_refl ver) w
  · rw [booked_setBooked_same, hbk]
    exact insertDb_needed_wf (hI.needed_wf n.id) _
      (by intro r hr; rw [List.mem_singleton] at hr; subst hr; exact Nat.le_refl _)
  · rw [booked_setBooked_same, hbk]; exact insertDb_pwf (hI.pwf n.id) _
  · rw [booked_setBooked_same, hbk]; exact insertDb_keysSorted (hI.keys n.id) _
  · rw [booked_setBooked_same, hbk, hmax]; omega
  · rw [booked_setBooked_same, hbk, hmax, head_cons, if_pos rfl]; omega
  · intro w _
    rw [booked_setBooked_same, hbk, partial?_insertDb]
  · intro w p h1 h2 hp
    rw [booked_setBooked_same, hbk, partial?_insertDb] at hp
    have := ((containsVersion_iff _ _).mp (hI.part_known n.id w p hp)).2
    omega
  · intro r
    rw [setBooked_seqRows, bumpDbv_seqRows]
    exact ⟨fun h => ⟨h, hnorow r h⟩, fun h => h.1⟩
  · intro c
    rw [setBooked_buf, bumpDbv_buf]
    exact ⟨fun h => ⟨h, hnobuf c h⟩, fun h => h.1⟩
  · intro e he; exact List.mem_append_right _ he
  · intro e he
    rcases List.mem_append.mp he with h | h
    · right
      have := hL.2.2.1 e h
      exact ⟨this.1, by rw [this.2.1]; exact Nat.le_refl _, by rw [this.2.1]; exact Nat.le_refl _⟩
    · exact Or.inl h
  · intro w h1 h2 c hc
    have : w = ver := by omega
    subst this
    rw [hL.get_cons_new] at hc
    exact Or.inl (List.mem_append_left _ hc)

/-! ### original chunks -/

theorem chunkOK_origin {L : Log} (hL : LogOK L) {site ver lo hi : Nat}
    (hhas : L.has site ver = true) : ChunkOK L (originItem L site ver lo hi) := by
  refine ⟨((hL.has_iff site ver).mp hhas).2, ?_, ?_, ?_⟩
  · intro e he; exact (List.mem_filter.mp he).1
  · intro c hc h1 h2
    exact Or.inl (List.mem_filter.mpr ⟨hc, by simpa using ⟨h1, h2⟩⟩)
  · intro c hc hlt
    have := le_maxSeq hc
    omega

theorem originItem_changes {L : Log} (hL : LogOK L) (site ver lo hi : Nat) :
    ∀ e ∈ itemChanges (originItem L site ver lo hi), e ∈ L.all := by
  intro e he
  exact (hL.mem_get (List.mem_filter.mp he).1).1

theorem chunkOK_changes {L : Log} (hL : LogOK L) {it : Item} (h : ChunkOK L it) :
    ∀ e ∈ itemChanges it, e ∈ L.all := by
  cases it with
  | empty => intro e he; cases he
  | full a v lo hi last cs =>
    intro e he
    exact (hL.mem_get (h.2.1 e he)).1

/-! ### a sequence of deliveries to one node -/

theorem deliverOne_fold_inv {L : Log} (hL : LogOK L) (items : List Item) (s : Node × List Chg)
    (hN : NInv L s.1 s.2) (hI : LInv L s.1 s.2) (hck : ∀ it ∈ items, ChunkOK L it) :
    NInv L (items.foldl deliverOne s).1 (items.foldl deliverOne s).2 ∧
    LInv L (items.foldl deliverOne s).1 (items.foldl deliverOne s).2 := by
  induction items generalizing s with
  | nil => exact ⟨hN, hI⟩
  | cons it items ih =>
    have h1 := hck it List.mem_cons_self
    exact ih (deliverOne s it) (ninv_deliver hN hL (chunkOK_changes hL h1)) (linv_deliver hN hI hL h1)
      (fun x hx => hck x (List.mem_cons_of_mem _ hx))

/-- deliveries of arbitrary changesets made of log changes keep the store-level invariant -/
theorem deliverOne_fold_ninv {L : Log} (hL : LogOK L) (items : List Item) (s : Node × List Chg)
    (hN : NInv L s.1 s.2) (hck : ∀ it ∈ items, ∀ e ∈ itemChanges it, e ∈ L.all) :
    NInv L (items.foldl deliverOne s).1 (items.foldl deliverOne s).2 := by
  induction items generalizing s with
  | nil => exact hN
  | cons it items ih =>
    exact ih (deliverOne s it) (ninv_deliver hN hL (hck it List.mem_cons_self))
      (fun x hx => hck x (List.mem_cons_of_mem _ hx))

theorem mem_pick {l : List Item} {keep : List Nat} {it : Item} (h : it ∈ pick l keep) : it ∈ l := by
  unfold pick at h
  obtain ⟨k, _, hk⟩ := List.mem_filterMap.mp h
  exact List.mem_of_getElem? hk


/-! ### what a server sends consists of log changes (any server state) -/

theorem answers_changes {L : Log} {ni nj : Node} {Rj : List Chg} (hN : NInv L nj Rj) :
    ∀ it ∈ answers ni nj, ∀ e ∈ itemChanges it, e ∈ L.all := by
  intro it hit e he
  unfold answers at hit
  obtain ⟨an, _, hit⟩ := List.mem_flatMap.mp hit
  obtain ⟨need, _, hit⟩ := List.mem_flatMap.mp hit
  have hit := mem_serve hit
  have hlive : ∀ a v x, x ∈ nj.live a v → x ∈ L.all := by
    intro a v x hx
    exact hN.rsub x (hN.store.lit.mem (mem_live.mp hx).1)
  have hbuf : ∀ a v lo hi x, x ∈ nj.bufIn a v lo hi → x ∈ L.all := by
    intro a v lo hi x hx
    exact hN.bufsub x (mem_bufIn.mp hx).1
  cases need with
  | full lo hi =>
    rcases mem_handleNeed_full.mp hit with ⟨v, _, _, h3⟩ | ⟨v, r, _, _, _, _, _, rfl⟩ | ⟨p, _, rfl⟩
    · obtain ⟨_, rfl⟩ := liveItem_some h3
      exact hlive _ _ e he
    · exact hbuf _ _ _ _ e he
    · cases he
  | part w seqs =>
    rcases mem_handleNeed_part.mp hit with ⟨_, r, _, h3⟩ | ⟨_, _, r, _, row, _, _, rfl⟩ | ⟨_, _, _, rfl⟩
    · rw [livePart_some h3] at he
      exact hlive _ _ e (List.mem_filter.mp he).1
    · exact hbuf _ _ _ _ e he
    · cases he

/-! ### kill and restart (store level) -/

theorem ninv_kill {L : Log} {n : Node} {R : List Chg} (h : NInv L n R) : NInv L n.kill R :=
  ⟨h.store, h.rsub, h.bufsub⟩

/-- one re-scheduled apply, on the ghost list and the buffer -/
def rmStep (s : List Chg × List Chg) (t : Nat × Nat) : List Chg × List Chg :=
  (s.1 ++ sortBySeq (s.2.filter (fun c => c.site = t.1 ∧ c.dbv = t.2)),
    s.2.filter (fun c => !decide (c.site = t.1 ∧ c.dbv = t.2)))

theorem restartMerged_eq (n : Node) : restartMerged n = ((restartTasks n).foldl rmStep ([], n.buf)).1 := rfl

theorem mergeAll_append (db : Db) (xs ys : List Chg) : mergeAll (mergeAll db xs) ys = mergeAll db (xs ++ ys) := by
  unfold mergeAll; rw [List.foldl_append]

theorem applyTask_fold (T : List (Nat × Nat)) (db0 : Db) (acc buf : List Chg) :
    T.foldl applyTask (mergeAll db0 acc, buf) =
      (mergeAll db0 (T.foldl rmStep (acc, buf)).1, (T.foldl rmStep (acc, buf)).2) := by
  induction T generalizing acc buf with
  | nil => rfl
  | cons t T ih =>
    simp only [List.foldl_cons]
    have : applyTask (mergeAll db0 acc, buf) t =
        (mergeAll db0 (rmStep (acc, buf) t).1, (rmStep (acc, buf) t).2) := by
      unfold applyTask rmStep bufOf
      simp only [mergeAll_append]
    rw [this]
    exact ih _ _

theorem rmStep_fold_sub (T : List (Nat × Nat)) (acc buf : List Chg) (B : List Chg)
    (h1 : ∀ e ∈ acc, e ∈ B) (h2 : ∀ e ∈ buf, e ∈ B) :
    (∀ e ∈ (T.foldl rmStep (acc, buf)).1, e ∈ B) ∧ (∀ e ∈ (T.foldl rmStep (acc, buf)).2, e ∈ B) := by
  induction T generalizing acc buf with
  | nil => exact ⟨h1, h2⟩
  | cons t T ih =>
    simp only [List.foldl_cons]
    apply ih
    · intro e he
      unfold rmStep at he
      rcases List.mem_append.mp he with h | h
      · exact h1 e h
      · rw [mem_sortBySeq] at h
        exact h2 e (List.mem_filter.mp h).1
    · intro e he
      unfold rmStep at he
      exact h2 e (List.mem_filter.mp he).1

theorem restart_db_buf (n : Node) :
    (n.restart).db = mergeAll n.db (restartMerged n) ∧
    (∀ e ∈ restartMerged n, e ∈ n.buf) ∧ (∀ e ∈ (n.restart).buf, e ∈ n.buf) := by
  have h := (restart_effect n).1
  have h0 : (n.db, n.buf) = (mergeAll n.db [], n.buf) := rfl
  rw [h0, applyTask_fold] at h
  have hs := rmStep_fold_sub (restartTasks n) [] n.buf n.buf (fun _ h => absurd h List.not_mem_nil)
    (fun _ h => h)
  refine ⟨?_, ?_, ?_⟩
  · rw [restartMerged_eq]
    exact (Prod.mk.injEq _ _ _ _ ▸ h).1
  · rw [restartMerged_eq]; exact hs.1
  · have := (Prod.mk.injEq _ _ _ _ ▸ h).2
    rw [this]; exact hs.2

theorem ninv_restart {L : Log} {n : Node} {R : List Chg} (h : NInv L n R) (hL : LogOK L) :
    NInv L n.restart (restartMerged n ++ R) := by
  obtain ⟨h1, h2, h3⟩ := restart_db_buf n
  refine ⟨?_, ?_, ?_⟩
  · rw [h1]
    exact h.store.mergeAll (fun c hc => hL.chgOK (h.bufsub c (h2 c hc)))
  · intro e he
    rcases List.mem_append.mp he with h' | h'
    · exact h.bufsub e (h2 e h')
    · exact h.rsub e h'
  · intro e he; exact h.bufsub e (h3 e he)

/-! ### the invariants of reachable clusters -/

theorem clean_node {c : Cluster} (h : c.clean = true) {j : Nat} {n : Node} (hj : c.nodes[j]? = some n) :
    nodeClean n = true := by
  unfold Cluster.clean at h
  exact List.all_eq_true.mp h n (List.mem_of_getElem? hj)

/-- **`received_set` / `store_from_log`, cluster level**: in every reachable cluster whose log is
well formed, every node's store is a merge of exactly its ghost list `R i`, every live entry is
literally a change of `R i`, and `R i` and the buffered rows consist of changes of the log -/
theorem reach_ninv {k : Nat} {c : Cluster} (h : Reach k c) (hL : LogOK c.log) :
    AllNodes (NInv c.log) c := by
  induction h with
  | init => exact allNodes_init _ k ninv_fresh
  | @step c op _ hok ih =>
    have hL0 := logOK_of_step hL
    have ih := ih hL0
    cases op with
    | write i stmts =>
      rw [step_write] at hL ⊢
      cases hi : c.nodes[i]? with
      | none => simp only [hi] at hL ⊢; exact ih
      | some n =>
        simp only [hi] at hL ⊢
        split at hL
        · rename_i n' ver chs hw
          simp only at hL
          have ih' : AllNodes (NInv (((n.id, ver), chs) :: c.log))
              ({ c with log := ((n.id, ver), chs) :: c.log } : Cluster) :=
            allNodes_mono ih rfl rfl (fun _ _ h => h.cons_log _)
          exact allNodes_setNode (c := { c with log := ((n.id, ver), chs) :: c.log }) ih' hi
            (s := (n', chs ++ c.R i)) (ninv_write (ih.node i n hi) hw (opOK_write hok hi) hL)
        · exact ih
    | deliverOrigin i site ver lo hi =>
      rw [step_deliverOrigin] at hL ⊢
      cases hi' : c.nodes[i]? with
      | none => simp only [hi'] at hL ⊢; exact ih
      | some n =>
        simp only [hi'] at hL ⊢
        split
        · exact allNodes_setNode ih hi' (ninv_deliver (ih.node i n hi') hL0 (originItem_changes hL0 _ _ _ _))
        · exact ih
    | sync i j keep =>
      rw [step_sync] at hL ⊢
      cases hi : c.nodes[i]? with
      | none => simp only [hi] at hL ⊢; exact ih
      | some ni =>
        cases hj : c.nodes[j]? with
        | none => simp only [hi, hj] at hL ⊢; exact ih
        | some nj =>
          simp only [hi, hj] at hL ⊢
          split
          · exact ih
          · refine allNodes_setNode ih hi (deliverOne_fold_ninv hL0 _ (ni, c.R i) (ih.node i ni hi) ?_)
            intro it hit
            exact answers_changes (ih.node j nj hj) it (mem_pick hit)
    | kill i =>
      rw [step_kill] at hL ⊢
      cases hi : c.nodes[i]? with
      | none => simp only [hi] at hL ⊢; exact ih
      | some n =>
        simp only [hi] at hL ⊢
        exact allNodes_setNode ih hi (s := (n.kill, c.R i)) (ninv_kill (ih.node i n hi))
    | restart i =>
      rw [step_restart] at hL ⊢
      cases hi : c.nodes[i]? with
      | none => simp only [hi] at hL ⊢; exact ih
      | some n =>
        simp only [hi] at hL ⊢
        exact allNodes_setNode ih hi (s := (n.restart, restartMerged n ++ c.R i))
          (ninv_restart (ih.node i n hi) hL0)

/-- the full node invariant (store level and `held_inv`) of every node -/
def FullInv (L : Log) (n : Node) (R : List Chg) : Prop := NInv L n R ∧ LInv L n R

/-- **`held_inv`, cluster level**: in every cluster reachable without kill / restart through clean
states, with a well-formed log, every node satisfies the full invariant -/
theorem reachLive_inv {k : Nat} {c : Cluster} (h : ReachLive k c) (hL : LogOK c.log) :
    AllNodes (FullInv c.log) c := by
  induction h with
  | init => exact allNodes_init _ k (fun i => ⟨ninv_fresh i, linv_fresh i⟩)
  | @step c op _ hlive hok hclean ih =>
    have hL0 := logOK_of_step hL
    have ih := ih hL0
    cases op with
    | write i stmts =>
      rw [step_write] at hL ⊢
      cases hi : c.nodes[i]? with
      | none => simp only [hi] at hL ⊢; exact ih
      | some n =>
        simp only [hi] at hL ⊢
        split at hL
        · rename_i n' ver chs hw
          simp only at hL
          have ih' : AllNodes (FullInv (((n.id, ver), chs) :: c.log))
              ({ c with log := ((n.id, ver), chs) :: c.log } : Cluster) :=
            allNodes_mono ih rfl rfl (fun _ _ h => ⟨h.1.cons_log _, h.2.cons_log hL⟩)
          have hn := ih.node i n hi
          exact allNodes_setNode (c := { c with log := ((n.id, ver), chs) :: c.log }) ih' hi
            (s := (n', chs ++ c.R i))
            ⟨ninv_write hn.1 hw (opOK_write hok hi) hL, (linv_write hn.1 hn.2 hw hL).1⟩
        · exact ih
    | deliverOrigin i site ver lo hi =>
      rw [step_deliverOrigin] at hL ⊢
      cases hi' : c.nodes[i]? with
      | none => simp only [hi'] at hL ⊢; exact ih
      | some n =>
        simp only [hi'] at hL ⊢
        split
        · rename_i hg
          simp only [Bool.and_eq_true] at hg
          have hn := ih.node i n hi'
          have hck := chunkOK_origin (lo := lo) (hi := hi) hL0 hg.1.1
          exact allNodes_setNode ih hi'
            ⟨ninv_deliver hn.1 hL0 (originItem_changes hL0 _ _ _ _), linv_deliver hn.1 hn.2 hL0 hck⟩
        · exact ih
    | sync i j keep =>
      rw [step_sync] at hL ⊢
      cases hi : c.nodes[i]? with
      | none => simp only [hi] at hL ⊢; exact ih
      | some ni =>
        cases hj : c.nodes[j]? with
        | none => simp only [hi, hj] at hL ⊢; exact ih
        | some nj =>
          simp only [hi, hj] at hL ⊢
          split
          · exact ih
          · have hni := ih.node i ni hi
            have hnj := ih.node j nj hj
            refine allNodes_setNode ih hi (deliverOne_fold_inv hL0 _ (ni, c.R i) hni.1 hni.2 ?_)
            intro it hit
            exact chunkOK_answers hnj.1 hnj.2 hL0 (clean_node hclean hj) (mem_pick hit)
    | kill i => cases hlive
    | restart i => cases hlive


/-! ### checking a concrete run -/

/-- every step of the run is a no-crash step satisfying its side condition from a clean state -/
def runOK : Cluster → List Op → Prop
  | _, [] => True
  | c, op :: ops => op.noCrash = true ∧ OpOK c op ∧ c.clean = true ∧ runOK (step c op) ops

instance : (c : Cluster) → (ops : List Op) → Decidable (runOK c ops)
  | _, [] => isTrue trivial
  | c, op :: ops =>
    have := instDecidableRunOK (step c op) ops
    by unfold runOK; exact inferInstance

theorem reachLive_run {k : Nat} {c : Cluster} (h : ReachLive k c) (ops : List Op) (hok : runOK c ops) :
    ReachLive k (run c ops) := by
  induction ops generalizing c with
  | nil => exact h
  | cons op ops ih =>
    obtain ⟨h1, h2, h3, h4⟩ := hok
    exact ih (ReachLive.step op h h1 h2 h3) h4

/-- every write step of the run satisfies its side condition -/
def runOKAny : Cluster → List Op → Prop
  | _, [] => True
  | c, op :: ops => OpOK c op ∧ runOKAny (step c op) ops

instance : (c : Cluster) → (ops : List Op) → Decidable (runOKAny c ops)
  | _, [] => isTrue trivial
  | c, op :: ops =>
    have := instDecidableRunOKAny (step c op) ops
    by unfold runOKAny; exact inferInstance

theorem reach_run {k : Nat} {c : Cluster} (h : Reach k c) (ops : List Op) (hok : runOKAny c ops) :
    Reach k (run c ops) := by
  induction ops generalizing c with
  | nil => exact h
  | cons op ops ih => exact ih (Reach.step op h hok.1) hok.2

theorem LogOK.entry {L : Log} (h : LogOK L) {e : (Nat × Nat) × List Chg} (he : e ∈ L) : EntryOK e := by
  induction L with
  | nil => cases he
  | cons f L ih =>
    rcases List.mem_cons.mp he with rfl | he
    · exact h.2.2
    · exact ih h.1 he

/-- a change of the log belongs to a transaction of the log, under its own `(site, version)` -/
theorem LogOK.entry_of_mem_all {L : Log} (h : LogOK L) {c : Chg} (hc : c ∈ L.all) :
    ∃ e ∈ L, e.1.1 = c.site ∧ e.1.2 = c.dbv := by
  unfold Log.all at hc
  obtain ⟨e, he, hce⟩ := List.mem_flatMap.mp hc
  have := (h.entry he).1 c hce
  exact ⟨e, he, this.1.symm, this.2.1.symm⟩

end Corro.ClusterSys
