/-
C03 helper lemmas: every delivered chunk of a partially held version leaves a trace — after
`deliver`, the version's partial is gone (the version was completed / cleared) or contains the
chunk's seq range.  Used for `partial_resolved_by_holder` (the live-rows answer).
-/
import Corro.Lemmas.NodeCrash
namespace Corro.Node
open Corro.Crdt

theorem alreadySeen_full_eq (seen : List ((Nat × Nat) × Option Partial)) (s ver lo hi last : Nat)
    (cs : List Chg) :
    alreadySeen seen (.full s ver lo hi last cs) =
      match seenGet seen ver with
      | some (some p) => (RSet.gaps p.seqs (lo, hi)).isEmpty
      | some none => true
      | none => false := by
  unfold alreadySeen
  simp only [Item.versions, Item.seqs, show ver + 1 - ver = 1 by omega, List.range_succ, List.range_zero,
    List.nil_append, List.all_cons, List.all_nil, Bool.and_true, Nat.add_zero]
  cases seenGet seen ver with
  | none => rfl
  | some o => cases o <;> rfl

/-- points of a seq range are in a canonical set when the range has no gap in it -/
theorem mem_of_gaps_empty {s : RSet} (hw : RSet.WF s) {lo hi x : Nat}
    (h : (RSet.gaps s (lo, hi)).isEmpty = true) (hx : lo ≤ x ∧ x ≤ hi) : RSet.Mem s x := by
  apply Classical.byContradiction
  intro hn
  have := (wf_isEmpty_iff (RSet.gaps_wfFrom s lo hi 0 hw)).mp h x
  exact this ((RSet.mem_gaps s lo hi x 0 hw).mpr ⟨hx, hn⟩)

/-- `x` of version `ver` is accounted for inside the transaction: the version was completed /
cleared, or `x` was already in the old partial, or a chunk containing `x` was buffered -/
def Cov (P : List Processed) (p0 : Partial) (ver x : Nat) : Prop :=
  NoneCov P ver ∨ RSet.Mem p0.seqs x ∨ ∃ e ∈ P, e.vlo = ver ∧ ∃ q, e.part = some q ∧ RSet.Mem q.seqs x

theorem Cov.mono {P P' : List Processed} (h : ∀ e ∈ P, e ∈ P') {p0 : Partial} {ver x : Nat}
    (hc : Cov P p0 ver x) : Cov P' p0 ver x := by
  rcases hc with ⟨e, he, h1⟩ | h1 | ⟨e, he, h1⟩
  · exact Or.inl ⟨e, h e he, h1⟩
  · exact Or.inr (Or.inl h1)
  · exact Or.inr (Or.inr ⟨e, h e he, h1⟩)

/-- the `seen` map only mentions what was processed -/
structure SeenOK (st : TxSt) : Prop where
  sm : ∀ v p', seenGet st.seen v = some (some p') → ∃ e ∈ st.processed, e.vlo = v ∧ e.part = some p'
  nn : ∀ v, seenGet st.seen v = some none → NoneCov st.processed v

theorem processOne_processed_mono (b0 : Booked) (st : TxSt) (it : Item) :
    ∀ e ∈ st.processed, e ∈ (processOne b0 st it).processed := by
  intro e he
  cases it with
  | empty s vlo vhi =>
    rw [processOne_empty]
    split
    · exact he
    · split
      · exact he
      · unfold stCleared; simp [he]
  | full s ver lo hi last cs =>
    rw [processOne_full]
    split
    · exact he
    · split
      · exact he
      · split
        · unfold stCleared; simp [he]
        · split
          · exact he
          · split
            · unfold stComplete; simp [he]
            · unfold stBuffer; simp [he]

theorem SeenOK.noneStep {st : TxSt} (h : SeenOK st) (N : Node) (vlo vhi : Nat)
    (cl : List (Nat × Nat × Nat)) :
    SeenOK { node := N, seen := seenInsert st.seen (vlo, vhi) none,
             processed := st.processed ++ [⟨vlo, vhi, none⟩], clears := cl } := by
  constructor
  · intro v p' hs
    simp only at hs
    rw [seenGet_cons] at hs
    split at hs
    · cases hs
    · obtain ⟨e, he, h1⟩ := h.sm v p' hs
      exact ⟨e, by simp [he], h1⟩
  · intro v hs
    simp only at hs
    rw [seenGet_cons] at hs
    split at hs
    · rename_i hv
      exact ⟨⟨vlo, vhi, none⟩, by simp, rfl, hv.1, hv.2⟩
    · obtain ⟨e, he, h1⟩ := h.nn v hs
      exact ⟨e, by simp [he], h1⟩

theorem SeenOK.step {st : TxSt} (h : SeenOK st) (b0 : Booked) (it : Item) : SeenOK (processOne b0 st it) := by
  cases it with
  | empty s vlo vhi =>
    rw [processOne_empty]
    split
    · exact h
    · split
      · exact h
      · unfold stCleared; exact h.noneStep _ _ _ _
  | full s ver lo hi last cs =>
    rw [processOne_full]
    split
    · exact h
    · split
      · exact h
      · split
        · unfold stCleared; exact h.noneStep _ _ _ _
        · split
          · exact h
          · split
            · unfold stComplete; exact h.noneStep _ _ _ _
            · unfold stBuffer
              simp only
              constructor
              · intro v p' hs
                simp only at hs
                rw [seenGet_cons] at hs
                split at hs
                · rename_i hv
                  simp only [Option.some.injEq] at hs
                  have : v = ver := by omega
                  subst this
                  exact ⟨_, List.mem_append.mpr (Or.inr (List.mem_singleton.mpr rfl)), rfl, by rw [← hs]⟩
                · obtain ⟨e, he, h1⟩ := h.sm v p' hs
                  exact ⟨e, by simp [he], h1⟩
              · intro v hs
                simp only at hs
                rw [seenGet_cons] at hs
                split at hs
                · cases hs
                · obtain ⟨e, he, h1⟩ := h.nn v hs
                  exact ⟨e, by simp [he], h1⟩

/-- one chunk of the partially held version: its range is accounted for after `processOne` -/
theorem processOne_cov {L : Nat → Nat → Nat} {n : Node} {site : Nat} {st : TxSt} (hti : TI L n site st)
    (hso : SeenOK st) (ver lo hi last : Nat) (cs : List Chg) (hlh : lo ≤ hi) (p0 : Partial)
    (hp0 : (n.booked site).partial? ver = some p0) (hw0 : RSet.WF p0.seqs) (x : Nat)
    (hx : lo ≤ x ∧ x ≤ hi) :
    Cov (processOne (n.booked site) st (.full site ver lo hi last cs)).processed p0 ver x := by
  rw [processOne_full]
  split
  · rename_i hct
    rw [containsAll_single] at hct
    unfold Booked.contains at hct
    rw [hp0] at hct
    simp only [Bool.and_eq_true] at hct
    exact Or.inr (Or.inl (mem_of_gaps_empty hw0 hct.2 hx))
  · split
    · rename_i hseen
      rw [alreadySeen_full_eq] at hseen
      cases hsg : seenGet st.seen ver with
      | none => rw [hsg] at hseen; cases hseen
      | some o =>
        cases o with
        | none => exact Or.inl (hso.nn ver hsg)
        | some p' =>
          rw [hsg] at hseen
          simp only at hseen
          obtain ⟨e, he, h1, h2⟩ := hso.sm ver p' hsg
          have hw := ((hti.shape e he).2 p' h2).2.1
          exact Or.inr (Or.inr ⟨e, he, h1, p', h2, mem_of_gaps_empty hw hseen hx⟩)
    · split
      · unfold stCleared
        exact Or.inl ⟨⟨ver, ver, none⟩, by simp, rfl, Nat.le_refl _, Nat.le_refl _⟩
      · split
        · omega
        · split
          · unfold stComplete
            exact Or.inl ⟨⟨ver, ver, none⟩, by simp, rfl, Nat.le_refl _, Nat.le_refl _⟩
          · unfold stBuffer
            simp only
            refine Or.inr (Or.inr ⟨_, List.mem_append.mpr (Or.inr (List.mem_singleton.mpr rfl)), rfl, _, rfl, ?_⟩)
            rw [bufferChunk_eq]
            simp only [RSet.mem_singleton]
            have h1 := mergedLo_le st.node.seqRows site ver lo hi
            have h2 := le_mergedHi st.node.seqRows site ver lo hi
            omega

/-- all chunks of the partially held version in the actor's share are accounted for -/
theorem txFold_cov {L : Nat → Nat → Nat} {n : Node} {site : Nat} (hc : ConsA L n site) (items : List Item)
    (hwf : ∀ it ∈ items, ItemWF L it ∧ it.site = site) (ver : Nat) (p0 : Partial)
    (hp0 : (n.booked site).partial? ver = some p0) :
    ∀ lo hi last cs, Item.full site ver lo hi last cs ∈ items → lo ≤ hi → ∀ x, lo ≤ x ∧ x ≤ hi →
      Cov (txFold n site items).processed p0 ver x := by
  have hw0 := hc.pwf.of_partial? hp0
  have hmain : (fun (done : List Item) (st : TxSt) => TI L n site st ∧ SeenOK st ∧
      ∀ lo hi last cs, Item.full site ver lo hi last cs ∈ done → lo ≤ hi → ∀ x, lo ≤ x ∧ x ≤ hi →
        Cov st.processed p0 ver x) items (txFold n site items) := by
    unfold txFold
    apply foldl_inv_prefix items (processOne (n.booked site)) _ (fun (done : List Item) (st : TxSt) =>
      TI L n site st ∧ SeenOK st ∧
      ∀ lo hi last cs, Item.full site ver lo hi last cs ∈ done → lo ≤ hi → ∀ x, lo ≤ x ∧ x ≤ hi →
        Cov st.processed p0 ver x)
    · exact ⟨TI.init L n site hc, ⟨fun v p' h => by simp [seenGet] at h, fun v h => by simp [seenGet] at h⟩,
        fun lo hi last cs h => by cases h⟩
    · intro done it rest st hl ⟨hti, hso, hcov⟩
      have hit : it ∈ items := by rw [hl]; simp
      refine ⟨TI.step hc hti it (hwf it hit).1 (hwf it hit).2, hso.step _ it, ?_⟩
      intro lo hi last cs hm hlh x hx
      rcases List.mem_append.mp hm with hm' | hm'
      · exact (hcov lo hi last cs hm' hlh x hx).mono (processOne_processed_mono _ st it)
      · simp only [List.mem_singleton] at hm'
        subst hm'
        exact processOne_cov hti hso ver lo hi last cs hlh p0 hp0 hw0 x hx
  exact hmain.2.2

/-- what the actor's committed bookkeeping says about a version that was held as a partial `p0`:
either the partial is gone and the version is not needed, or it is still there, contains `p0` and
every accounted-for point, and keeps `p0`'s `last_seq` -/
theorem committed_cov {L : Nat → Nat → Nat} {n : Node} {site : Nat} {st : TxSt} (hc : ConsA L n site)
    (hti : TI L n site st) (ver : Nat) (p0 : Partial) (hp0 : (n.booked site).partial? ver = some p0) :
    ((committed n site st).1.partial? ver = none ∧ ¬ RSet.Mem (committed n site st).1.needed ver) ∨
    ∃ q, (committed n site st).1.partial? ver = some q ∧ q.last = p0.last ∧
      ∀ x, (RSet.Mem p0.seqs x ∨ Cov st.processed p0 ver x) → RSet.Mem q.seqs x := by
  have hci := committed_CI hc hti
  by_cases hnc : NoneCov st.processed ver
  · left
    refine ⟨hci.none_cov ver hnc, ?_⟩
    rw [hci.needed]
    obtain ⟨e, he, _, h1, h2⟩ := hnc
    apply insertDb_not_needed _ hc.needed_wf
    · intro r hr
      obtain ⟨e', he', rfl⟩ := List.mem_map.mp hr
      exact (hti.shape e' he').1
    · exact ⟨(e.vlo, e.vhi), List.mem_map.mpr ⟨e, he, rfl⟩, h1, h2⟩
  · right
    have hs : ((committed n site st).1.partial? ver).isSome = true := by
      rw [hci.some_iff ver hnc, partial?_insertDb, hp0]; exact Or.inl rfl
    cases hq : (committed n site st).1.partial? ver with
    | none => rw [hq] at hs; cases hs
    | some q =>
      refine ⟨q, rfl, ?_, ?_⟩
      · rw [(hci.mem ver q hq).2, hc.part_last ver p0 hp0]
      · intro x hx
        rw [(hci.mem ver q hq).1 x, partial?_insertDb]
        rcases hx with h1 | h1 | h1 | h1
        · exact Or.inl ⟨p0, hp0, h1⟩
        · exact absurd h1 hnc
        · exact Or.inl ⟨p0, hp0, h1⟩
        · exact Or.inr h1

/-! ### at the level of `processActor` and `deliver` -/

/-- the outcome for a version that was held as the partial `p0`, relative to a set of chunks -/
def CovResult (b : Booked) (p0 : Partial) (ver : Nat) (chunks : Nat → Nat → Prop) : Prop :=
  (b.partial? ver = none ∧ ¬ RSet.Mem b.needed ver) ∨
  ∃ q, b.partial? ver = some q ∧ q.last = p0.last ∧ (∀ x, RSet.Mem p0.seqs x → RSet.Mem q.seqs x) ∧
    ∀ lo hi, chunks lo hi → lo ≤ hi → ∀ x, lo ≤ x ∧ x ≤ hi → RSet.Mem q.seqs x

theorem processActor_booked (n : Node) (site : Nat) (items : List Item) :
    (processActor n site items).1.booked site = (committed n site (txFold n site items)).1 := by
  rw [processActor_node]
  split
  · rename_i he
    rw [committed_nil n site _ (List.isEmpty_iff.mp he)]
    show (txFold n site items).node.booked site = n.booked site
    have : (txFold n site items).node.book = n.book := by
      unfold txFold
      apply foldl_inv (fun (st : TxSt) => st.node.book = n.book)
      · rfl
      · intro st it _ hst
        cases it with
        | empty s vlo vhi =>
          rw [processOne_empty]
          split
          · exact hst
          · split
            · exact hst
            · unfold stCleared; simp only; split
              · rw [bumpDbv_book]; exact hst
              · exact hst
        | full s ver lo hi last cs =>
          rw [processOne_full]
          split
          · exact hst
          · split
            · exact hst
            · split
              · unfold stCleared; simp only; split
                · rw [bumpDbv_book]; exact hst
                · exact hst
              · split
                · exact hst
                · split
                  · unfold stComplete; simp only; rw [mergeChanges_book]; exact hst
                  · unfold stBuffer; simp only; exact hst
    unfold Node.booked; rw [this]
  · exact booked_setBooked_same _ _ _

theorem processActor_cov {L : Nat → Nat → Nat} {n : Node} {site : Nat} (hc : ConsA L n site)
    (items : List Item) (hwf : ∀ it ∈ items, ItemWF L it ∧ it.site = site) (ver : Nat) (p0 : Partial)
    (hp0 : (n.booked site).partial? ver = some p0) :
    CovResult ((processActor n site items).1.booked site) p0 ver
      (fun lo hi => ∃ last cs, Item.full site ver lo hi last cs ∈ items) := by
  rw [processActor_booked]
  have hti := txFold_TI hc items hwf
  have hcov := txFold_cov hc items hwf ver p0 hp0
  rcases committed_cov hc hti ver p0 hp0 with h | ⟨q, hq, hl, hm⟩
  · exact Or.inl h
  · refine Or.inr ⟨q, hq, hl, fun x hx => hm x (Or.inl hx), ?_⟩
    rintro lo hi ⟨last, cs, hmem⟩ hlh x hx
    exact hm x (Or.inr (hcov lo hi last cs hmem hlh x hx))

theorem CovResult.mono {b : Booked} {p0 : Partial} {ver : Nat} {c c' : Nat → Nat → Prop}
    (h : CovResult b p0 ver c) (hcc : ∀ lo hi, c' lo hi → c lo hi) : CovResult b p0 ver c' := by
  rcases h with h | ⟨q, h1, h2, h3, h4⟩
  · exact Or.inl h
  · exact Or.inr ⟨q, h1, h2, h3, fun lo hi hc' => h4 lo hi (hcc lo hi hc')⟩

/-- every item of the batch has a representative with the same actor, versions and seq range in the
de-duplicated batch -/
theorem dedupeBatch_repr {batch : List Item} {it : Item} (h : it ∈ batch) :
    ∃ it' ∈ dedupeBatch batch, it'.site = it.site ∧ it'.versions = it.versions ∧ it'.seqs = it.seqs := by
  unfold dedupeBatch
  suffices hs : ∀ (l acc : List Item), (it ∈ l ∨ ∃ it' ∈ acc, it'.site = it.site ∧ it'.versions = it.versions ∧
      it'.seqs = it.seqs) →
      ∃ it' ∈ l.foldl (fun acc it => if acc.any (fun x => x.site = it.site ∧ x.versions = it.versions ∧
        x.seqs = it.seqs) then acc else acc ++ [it]) acc,
        it'.site = it.site ∧ it'.versions = it.versions ∧ it'.seqs = it.seqs from hs batch [] (Or.inl h)
  intro l
  induction l with
  | nil =>
    intro acc h
    rcases h with h | h
    · cases h
    · exact h
  | cons a l ih =>
    intro acc h
    simp only [List.foldl_cons]
    apply ih
    rcases h with h | ⟨it', h1, h2⟩
    · rcases List.mem_cons.mp h with rfl | h
      · right
        split
        · rename_i hany
          obtain ⟨x, hx, hk⟩ := List.any_eq_true.mp hany
          exact ⟨x, hx, by simpa using hk⟩
        · exact ⟨it, by simp, rfl, rfl, rfl⟩
      · exact Or.inl h
    · right
      split
      · exact ⟨it', h1, h2⟩
      · exact ⟨it', by simp [h1], h2⟩

/-- **every chunk of the batch that belongs to a version held as the partial `p0` is recorded**:
after `deliver`, the version has no partial any more and is not needed, or its partial contains
`p0`, keeps its `last_seq`, and contains the seq range of every chunk of the batch -/
theorem deliver_cov {L : Nat → Nat → Nat} {n : Node} (hc : Consistent L n) (batch : List Item)
    (hwf : ∀ it ∈ batch, ItemWF L it) (site ver : Nat) (p0 : Partial)
    (hp0 : (n.booked site).partial? ver = some p0) :
    CovResult ((n.deliver batch).booked site) p0 ver
      (fun lo hi => ∃ last cs, Item.full site ver lo hi last cs ∈ batch) := by
  have hw0 := (hc.actor site).pwf.of_partial? hp0
  -- the bookkeeping of `site` is decided by the fold over the actors
  have hX := preApply_consistent hc batch hwf
  have hbk : (n.deliver batch).booked site = (deliverFold n batch).1.booked site := by
    rw [deliver_eq_preApply]
    have h1 : (preApply n batch).booked site = (deliverFold n batch).1.booked site := by
      unfold preApply Node.booked; rw [clearAll_book]
    split
    · rw [applyAll_booked hX, h1]
    · exact h1
  rw [hbk]
  -- chunks that were dropped before the transaction are already inside `p0`
  have hfold : (site ∈ sitesOf (unknownOf n batch) →
        CovResult ((deliverFold n batch).1.booked site) p0 ver
          (fun lo hi => ∃ last cs, Item.full site ver lo hi last cs ∈ unknownOf n batch)) ∧
      (site ∉ sitesOf (unknownOf n batch) → (deliverFold n batch).1.booked site = n.booked site) := by
    have hmain : (fun (done : List Nat) (acc : Node × List (Nat × Nat) × List (Nat × Nat × Nat)) =>
        DI L n done acc ∧
        (site ∈ done → CovResult (acc.1.booked site) p0 ver
          (fun lo hi => ∃ last cs, Item.full site ver lo hi last cs ∈ unknownOf n batch)))
        (sitesOf (unknownOf n batch)) (deliverFold n batch) := by
      unfold deliverFold
      apply foldl_inv_prefix (sitesOf (unknownOf n batch)) (actorStep (unknownOf n batch)) (n, [], [])
        (fun done acc => DI L n done acc ∧
          (site ∈ done → CovResult (acc.1.booked site) p0 ver
            (fun lo hi => ∃ last cs, Item.full site ver lo hi last cs ∈ unknownOf n batch)))
      · exact ⟨DI.init hc, fun h => by cases h⟩
      · intro done s rest acc hl ⟨hdi, hcv⟩
        have hnd : (sitesOf (unknownOf n batch)).Pairwise (fun x y => x < y) := by
          rw [sitesOf_eq]; exact dedupSorted_sorted _
        have hs : s ∉ done := by
          intro hmem
          rw [hl] at hnd
          have := (List.pairwise_append.mp hnd).2.2 s hmem s (by simp)
          omega
        have hitems : ∀ it ∈ (unknownOf n batch).filter (·.site = s), ItemWF L it ∧ it.site = s := by
          intro it hit
          have := List.mem_filter.mp hit
          exact ⟨hwf it (mem_unknownOf this.1), of_decide_eq_true this.2⟩
        have hstep := hdi.step s hs _ hitems
        unfold actorStep
        simp only
        refine ⟨hstep, ?_⟩
        intro hmem
        have hcl0 : clearsOf acc.2.2 s = [] :=
          clearsOf_other (fun c hc' hcs => hs (hcs ▸ hdi.clrs c hc'))
        have hcs : ConsA L acc.1 s := by have := hdi.cons s; rw [hcl0] at this; exact this
        by_cases hss : s = site
        · subst hss
          have hfr := hdi.fresh s hs
          have hp0' : (acc.1.booked s).partial? ver = some p0 := by rw [hfr.booked]; exact hp0
          apply (processActor_cov hcs _ hitems ver p0 hp0').mono
          rintro lo hi ⟨last, cs, hm⟩
          exact ⟨last, cs, List.mem_filter.mpr ⟨hm, by simp [Item.site]⟩⟩
        · have hsp := processActor_spec hcs _ hitems
          rw [(hsp.other site (fun h => hss h.symm)).booked]
          apply hcv
          rcases List.mem_append.mp hmem with h | h
          · exact h
          · simp only [List.mem_singleton] at h; exact absurd h.symm hss
    refine ⟨hmain.2, ?_⟩
    intro hns
    exact (hmain.1.fresh site hns).booked
  -- chunks of the batch vs chunks that reached the transaction
  have hknown : ∀ lo hi last cs, Item.full site ver lo hi last cs ∈ batch →
      (∃ last' cs', Item.full site ver lo hi last' cs' ∈ unknownOf n batch) ∨
        (RSet.gaps p0.seqs (lo, hi)).isEmpty = true := by
    intro lo hi last cs hm
    obtain ⟨it', h1, h2, h3, h4⟩ := dedupeBatch_repr hm
    cases it' with
    | empty s a b => simp [Item.seqs] at h4
    | full s' v' lo' hi' last' cs' =>
      simp only [Item.site, Item.versions, Item.seqs, Prod.mk.injEq, Option.some.injEq] at h2 h3 h4
      obtain ⟨rfl, _⟩ := h3
      obtain ⟨rfl, rfl⟩ := h4
      subst h2
      by_cases hct : (n.booked s').containsAll v' v' (some (lo', hi')) = true
      · right
        rw [containsAll_single] at hct
        unfold Booked.contains at hct
        rw [hp0] at hct
        simp only [Bool.and_eq_true] at hct
        exact hct.2
      · left
        refine ⟨last', cs', ?_⟩
        unfold unknownOf
        exact List.mem_filter.mpr ⟨h1, by simpa [Item.site, Item.versions, Item.seqs] using hct⟩
  by_cases hsite : site ∈ sitesOf (unknownOf n batch)
  · rcases hfold.1 hsite with h | ⟨q, h1, h2, h3, h4⟩
    · exact Or.inl h
    · refine Or.inr ⟨q, h1, h2, h3, ?_⟩
      rintro lo hi ⟨last, cs, hm⟩ hlh x hx
      rcases hknown lo hi last cs hm with hu | hg
      · exact h4 lo hi hu hlh x hx
      · exact h3 x (mem_of_gaps_empty hw0 hg hx)
  · rw [hfold.2 hsite]
    refine Or.inr ⟨p0, hp0, rfl, fun x hx => hx, ?_⟩
    rintro lo hi ⟨last, cs, hm⟩ hlh x hx
    rcases hknown lo hi last cs hm with ⟨last', cs', hu⟩ | hg
    · exfalso
      apply hsite
      rw [sitesOf_eq, mem_dedupSorted]
      exact List.mem_map.mpr ⟨_, hu, rfl⟩
    · exact mem_of_gaps_empty hw0 hg hx

end Corro.Node
