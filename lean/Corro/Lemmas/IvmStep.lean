/-
Helper lemmas for C11, part 3: the rewritten statement returns the candidate slice of the query;
rows that no candidate touches are the same before and after; `step` as a fold of slices.
-/
import Corro.Lemmas.IvmEval

namespace Corro.Ivm

/-! ### the rewritten statement -/

theorem innerAt_src : ∀ (k : Nat) (js : List Join), (innerAt k js).map (·.src) = js.map (·.src) := by
  intro k js
  induction js generalizing k with
  | nil => simp [innerAt]
  | cons j js ih =>
    cases k with
    | zero => simp [innerAt]
    | succ k => simp [innerAt, ih k]

theorem stmtFor_srcs (q : Query) (i : Nat) (ks : List Key) : (stmtFor q i ks).srcs = q.srcs := by
  unfold stmtFor Query.srcs
  cases i with
  | zero => rfl
  | succ i => simp [innerAt_src]

theorem stmtFor_out (q : Query) (i : Nat) (ks : List Key) (e : Env) : (stmtFor q i ks).out e = q.out e := by
  unfold Query.out
  rw [stmtFor_srcs]
  rfl

theorem link_inner {db : Db} {j : Join} {e0 : Env} {o : Option Row}
    (h : Link db { j with kind := .inner } e0 o) : Link db j e0 o ∧ o ≠ none := by
  cases o with
  | some r => exact ⟨h, by simp⟩
  | none => exact absurd h.1 (by simp)

theorem chain_innerAt_to {db : Db} : ∀ {js : List Join} {k : Nat} {e0 e : Env},
    Chain db (innerAt k js) e0 e → Chain db js e0 e := by
  intro js
  induction js with
  | nil => intro k e0 e h; simpa [innerAt] using h
  | cons j js ih =>
    intro k e0 e h
    cases k with
    | zero =>
      obtain ⟨o, hl, hc⟩ := h
      exact ⟨o, (link_inner hl).1, hc⟩
    | succ k =>
      obtain ⟨o, hl, hc⟩ := h
      exact ⟨o, hl, ih hc⟩

theorem getD_append_left {α} (a b : List α) (i : Nat) (d : α) (h : i < a.length) :
    (a ++ b).getD i d = a.getD i d := by
  simp [List.getD, List.getElem?_append_left h]

theorem getD_append_length {α} (a b : List α) (x : α) (d : α) :
    (a ++ x :: b).getD a.length d = x := by
  simp [List.getD]

theorem chain_innerAt_from {db : Db} : ∀ {js : List Join} {k : Nat} {e0 e : Env},
    Chain db js e0 e → e.getD (e0.length + k) none ≠ none → Chain db (innerAt k js) e0 e := by
  intro js
  induction js with
  | nil => intro k e0 e h _; simpa [innerAt] using h
  | cons j js ih =>
    intro k e0 e h hne
    obtain ⟨o, hl, hc⟩ := h
    cases k with
    | zero =>
      refine ⟨o, ?_, hc⟩
      obtain ⟨rest, rfl, _⟩ := chain_prefix hc
      have : (e0 ++ [o] ++ rest).getD (e0.length + 0) none = o := by
        rw [List.append_assoc]; simp [List.getD]
      rw [this] at hne
      cases o with
      | some r => exact hl
      | none => exact absurd rfl hne
    | succ k =>
      refine ⟨o, hl, ih hc ?_⟩
      have : (e0 ++ [o]).length + k = e0.length + (k + 1) := by simp; omega
      rw [this]; exact hne

theorem and_holds (p w : Pred) (e : Env) :
    (Pred.and p w).holds e = true ↔ p.truth e = some true ∧ w.holds e = true := by
  simp only [Pred.holds, Pred.truth]
  cases hp : p.truth e with
  | none => cases hw : w.truth e with
    | none => simp [and3]
    | some b => cases b <;> simp [and3]
  | some a => cases a <;> cases hw : w.truth e with
    | none => simp [and3]
    | some b => cases b <;> simp [and3]

theorem keyIn_truth (p nk : Nat) (ks : List Key) (e : Env) :
    (Pred.keyIn p nk ks).truth e = some true ↔ ∃ r, e.getD p none = some r ∧ keyOf nk r ∈ ks.map coalKey := by
  simp only [Pred.truth]
  cases e.getD p none with
  | none => simp
  | some r => simp

/-- when does a result row lie in the slice of the candidate keys `ks` of position `i` -/
theorem sliceOut_out {q : Query} {db : Db} {e : Env} {i : Nat} {s : Src} {ks : List Key}
    (hdb : DbOk q.srcs db) (hin : EnvIn db q.srcs e) (hs : q.srcs[i]? = some s) (hks : ∀ k ∈ ks, CleanKey k) :
    sliceOut i ks (q.out e) ↔ ∃ r, e.getD i none = some r ∧ keyOf s.nk r ∈ ks.map coalKey := by
  unfold sliceOut Query.out
  simp only []
  rw [envPks_getD hin hs]
  cases he : e.getD i none with
  | some r =>
    have hr := envIn_get hin hs he
    have hc := hdb.clean s (List.mem_of_getElem? hs) r hr
    simp only [Option.some.injEq, exists_eq_left']
    rw [coalKey_clean hc.2]
  | none =>
    simp only [reduceCtorEq, false_and, exists_false, iff_false]
    intro hmem
    obtain ⟨k, hk, hkeq⟩ := List.mem_map.mp hmem
    have hck := hks k hk
    rw [coalKey_clean hck.2] at hkeq
    -- k = coalKey (replicate nk null) = replicate nk (text [])
    cases hn : s.nk with
    | zero =>
      rw [hn] at hkeq
      simp [coalKey] at hkeq
      exact hck.1 hkeq
    | succ n =>
      rw [hn] at hkeq
      have : Val.text [] ∈ k := by
        rw [hkeq]; simp [coalKey, List.replicate_succ, coal]
      exact (hck.2 _ this).2 rfl

theorem srcs_getD_nk {q : Query} {i : Nat} {s : Src} (hs : q.srcs[i]? = some s) :
    (q.srcs.getD i default).nk = s.nk := by
  simp [List.getD, hs]

/-- **the rewritten statement returns exactly the candidate slice of the query result** (the
LEFT→INNER rewrite of the changed table changes nothing: null-extended rows fail `pk IN temp`) -/
theorem evalKeyed_stmtFor {q : Query} {db : Db} {i : Nat} {s : Src} {ks : List Key}
    (hdb : DbOk q.srcs db) (hs : q.srcs[i]? = some s) (hks : ∀ k ∈ ks, CleanKey k) (x : Out) :
    x ∈ evalKeyed (stmtFor q i ks) db ↔ x ∈ evalKeyed q db ∧ sliceOut i ks x := by
  rw [mem_evalKeyed, mem_evalKeyed]
  have hbase : (stmtFor q i ks).base = q.base := rfl
  have hwhere : (stmtFor q i ks).where_ = .and (.keyIn i ((q.srcs.getD i default).nk) ks) q.where_ := rfl
  constructor
  · rintro ⟨r0, hr0, e, hc, hw, rfl⟩
    rw [hbase] at hr0
    rw [hwhere, and_holds, keyIn_truth, srcs_getD_nk hs] at hw
    have hc' : Chain db q.joins [some r0] e := by
      cases i with
      | zero => exact hc
      | succ i' => exact chain_innerAt_to hc
    have hin := evalKeyed_envIn hr0 hc'
    rw [stmtFor_out]
    exact ⟨⟨r0, hr0, e, hc', hw.2, rfl⟩, (sliceOut_out hdb hin hs hks).mpr hw.1⟩
  · rintro ⟨⟨r0, hr0, e, hc, hw, rfl⟩, hsl⟩
    have hin := evalKeyed_envIn hr0 hc
    have hk := (sliceOut_out hdb hin hs hks).mp hsl
    refine ⟨r0, hr0, e, ?_, ?_, (stmtFor_out q i ks e).symm⟩
    · cases i with
      | zero => exact hc
      | succ i' =>
        show Chain db (innerAt i' q.joins) [some r0] e
        apply chain_innerAt_from hc
        obtain ⟨r, hr, _⟩ := hk
        have : [some r0].length + i' = i' + 1 := by simp; omega
        rw [this, hr]; simp
    · rw [hwhere, and_holds, keyIn_truth, srcs_getD_nk hs]
      exact ⟨hk, hw⟩

/-! ### rows no candidate touches -/

/-- the row `r` of table `t` is in exactly one of the two databases -/
def Changed (a b : Db) (t : Nat) (r : Row) : Prop := (r ∈ a t ∧ r ∉ b t) ∨ (r ∈ b t ∧ r ∉ a t)

theorem Changed.symm {a b : Db} {t : Nat} {r : Row} (h : Changed a b t r) : Changed b a t r := Or.symm h

/-- some position of the joined row holds a row whose key is a candidate of its table -/
def EnvTouched (cands : List (Nat × List Key)) (srcs : List Src) (e : Env) : Prop :=
  ∃ i s r c, srcs[i]? = some s ∧ e.getD i none = some r ∧ c ∈ cands ∧ c.1 = s.tbl ∧ keyOf s.nk r ∈ c.2

/-- the hypotheses of the property on one batch: the candidates contain the key of every changed
row, and every row change on the nullable side of a LEFT join comes with a candidate for (one of)
the preserved rows it joins with, before or after -/
structure Covered (q : Query) (db0 db1 : Db) (cands : List (Nat × List Key)) : Prop where
  complete : ∀ s ∈ q.srcs, ∀ r, Changed db0 db1 s.tbl r → ∃ c ∈ cands, c.1 = s.tbl ∧ keyOf s.nk r ∈ c.2
  leftSafe : ∀ pre j post, q.joins = pre ++ j :: post → j.kind = .left → ∀ r, Changed db0 db1 j.src.tbl r →
    ∀ r0 e0, ((r0 ∈ db0 q.base.tbl ∧ Chain db0 pre [some r0] e0) ∨ (r0 ∈ db1 q.base.tbl ∧ Chain db1 pre [some r0] e0)) →
      j.on.holds (e0 ++ [some r]) = true → EnvTouched cands q.srcs e0

theorem Covered.symm {q : Query} {db0 db1 : Db} {cands : List (Nat × List Key)} (h : Covered q db0 db1 cands) :
    Covered q db1 db0 cands :=
  ⟨fun s hs r hr => h.complete s hs r hr.symm,
   fun pre j post hj hk r hr r0 e0 hc hon => h.leftSafe pre j post hj hk r hr.symm r0 e0 hc.symm hon⟩

theorem envTouched_prefix {cands : List (Nat × List Key)} {srcs : List Src} {e0 rest : Env}
    (h : EnvTouched cands srcs e0) : EnvTouched cands srcs (e0 ++ rest) := by
  obtain ⟨i, s, r, c, h1, h2, h3⟩ := h
  refine ⟨i, s, r, c, h1, ?_, h3⟩
  have hi : i < e0.length := by
    refine Classical.byContradiction fun hge => ?_
    have : e0.getD i none = none := by simp [List.getD, List.getElem?_eq_none (Nat.le_of_not_lt hge)]
    rw [this] at h2; cases h2
  rw [getD_append_left e0 rest i none hi]; exact h2

theorem srcs_get_join (base : Src) (pre : List Join) (j : Join) (post : List Join) :
    (base :: (pre ++ j :: post).map (·.src))[pre.length + 1]? = some j.src := by
  simp

theorem chain_transfer {q : Query} {dbA dbB : Db} {cands : List (Nat × List Key)} (hcov : Covered q dbA dbB cands)
    {r0 : Row} (hr0 : r0 ∈ dbA q.base.tbl) :
    ∀ {js pre : List Join} {e0 e : Env}, q.joins = pre ++ js → Chain dbA pre [some r0] e0 → Chain dbA js e0 e →
      ¬ EnvTouched cands q.srcs e → Chain dbB js e0 e := by
  intro js
  induction js with
  | nil => intro pre e0 e _ _ h _; exact h
  | cons j js ih =>
    intro pre e0 e hq hpre hc hnt
    obtain ⟨o, hl, hc'⟩ := hc
    obtain ⟨rest, hrest, _⟩ := chain_prefix hc'
    obtain ⟨rest0, hrest0, hlen0⟩ := chain_prefix hpre
    have hlen : e0.length = pre.length + 1 := by rw [hrest0]; simp [hlen0]
    have hsrc : q.srcs[e0.length]? = some j.src := by
      rw [hlen]; unfold Query.srcs; rw [hq]; exact srcs_get_join q.base pre j js
    have hget : e.getD e0.length none = o := by
      rw [hrest, List.append_assoc]; simp [List.getD]
    have hlB : Link dbB j e0 o := by
      cases o with
      | some r =>
        refine ⟨?_, hl.2⟩
        refine Classical.byContradiction fun hnot => ?_
        obtain ⟨c, hc1, hc2, hc3⟩ := hcov.complete j.src (List.mem_of_getElem? hsrc) r (Or.inl ⟨hl.1, hnot⟩)
        exact hnt ⟨e0.length, j.src, r, c, hsrc, hget, hc1, hc2, hc3⟩
      | none =>
        refine ⟨hl.1, ?_⟩
        intro r hr
        cases hh : j.on.holds (e0 ++ [some r]) with
        | false => rfl
        | true =>
          exfalso
          have hnA : r ∉ dbA j.src.tbl := by
            intro hin
            have := hl.2 r hin
            rw [hh] at this; cases this
          have ht := hcov.leftSafe pre j js hq hl.1 r (Or.inr ⟨hr, hnA⟩) r0 e0 (Or.inl ⟨hr0, hpre⟩) hh
          apply hnt
          rw [hrest, List.append_assoc]
          exact envTouched_prefix ht
    refine ⟨o, hlB, ?_⟩
    exact ih (pre := pre ++ [j]) (by rw [hq]; simp) (chain_snoc hpre hl) hc' hnt

/-- a result row that no candidate touches is a result row of the other database too -/
theorem untouched_transfer {q : Query} {dbA dbB : Db} {cands : List (Nat × List Key)} (hcov : Covered q dbA dbB cands)
    {r0 : Row} {e : Env} (hr0 : r0 ∈ dbA q.base.tbl) (hc : Chain dbA q.joins [some r0] e)
    (hnt : ¬ EnvTouched cands q.srcs e) : r0 ∈ dbB q.base.tbl ∧ Chain dbB q.joins [some r0] e := by
  constructor
  · refine Classical.byContradiction fun hnot => ?_
    obtain ⟨c, hc1, hc2, hc3⟩ := hcov.complete q.base (by simp [Query.srcs]) r0 (Or.inl ⟨hr0, hnot⟩)
    obtain ⟨rest, rfl, _⟩ := chain_prefix hc
    exact hnt ⟨0, q.base, r0, c, by simp [Query.srcs], by simp, hc1, hc2, hc3⟩
  · exact chain_transfer hcov hr0 (pre := []) (by simp) rfl hc hnt

/-! ### touched result rows -/

theorem posOf_get : ∀ {srcs : List Src} {t i : Nat}, posOf t srcs = some i → ∃ s, srcs[i]? = some s ∧ s.tbl = t := by
  intro srcs
  induction srcs with
  | nil => intro t i h; simp [posOf] at h
  | cons a ss ih =>
    intro t i h
    simp only [posOf] at h
    split at h
    · rename_i heq
      simp only [Option.some.injEq] at h
      subst h
      exact ⟨a, by simp, heq⟩
    · cases hp : posOf t ss with
      | none => simp [hp] at h
      | some k =>
        simp only [hp, Option.map_some, Option.some.injEq] at h
        subst h
        obtain ⟨s, h1, h2⟩ := ih hp
        exact ⟨s, by simpa using h1, h2⟩

theorem posOf_of_get : ∀ {srcs : List Src} {i : Nat} {s : Src}, (srcs.map (·.tbl)).Nodup → srcs[i]? = some s →
    posOf s.tbl srcs = some i := by
  intro srcs
  induction srcs with
  | nil => intro i s _ h; simp at h
  | cons a ss ih =>
    intro i s hnd h
    simp only [List.map_cons, List.nodup_cons] at hnd
    cases i with
    | zero =>
      simp only [List.getElem?_cons_zero, Option.some.injEq] at h
      subst h
      simp [posOf]
    | succ i =>
      simp only [List.getElem?_cons_succ] at h
      have hne : a.tbl ≠ s.tbl := by
        intro he
        apply hnd.1
        rw [he]
        exact List.mem_map.mpr ⟨s, List.mem_of_getElem? h, rfl⟩
      simp only [posOf, if_neg hne, ih hnd.2 h, Option.map_some]

/-- the result row lies in the slice of some candidate list -/
def TouchedOut (cands : List (Nat × List Key)) (srcs : List Src) (x : Out) : Prop :=
  ∃ c ∈ cands, ∃ i, posOf c.1 srcs = some i ∧ sliceOut i c.2 x

theorem touchedOut_append (a b : List (Nat × List Key)) (srcs : List Src) (x : Out) :
    TouchedOut (a ++ b) srcs x ↔ TouchedOut a srcs x ∨ TouchedOut b srcs x := by
  unfold TouchedOut
  constructor
  · rintro ⟨c, hc, h⟩
    rcases List.mem_append.mp hc with h1 | h1
    · exact Or.inl ⟨c, h1, h⟩
    · exact Or.inr ⟨c, h1, h⟩
  · rintro (⟨c, hc, h⟩ | ⟨c, hc, h⟩)
    · exact ⟨c, by simp [hc], h⟩
    · exact ⟨c, by simp [hc], h⟩

theorem envTouched_touchedOut {q : Query} {db : Db} {cands : List (Nat × List Key)} {e : Env}
    (hnd : (q.srcs.map (·.tbl)).Nodup) (hdb : DbOk q.srcs db) (hin : EnvIn db q.srcs e)
    (hks : ∀ c ∈ cands, ∀ k ∈ c.2, CleanKey k) (h : EnvTouched cands q.srcs e) :
    TouchedOut cands q.srcs (q.out e) := by
  obtain ⟨i, s, r, c, h1, h2, h3, h4, h5⟩ := h
  refine ⟨c, h3, i, by rw [h4]; exact posOf_of_get hnd h1, ?_⟩
  rw [sliceOut_out hdb hin h1 (hks c h3)]
  refine ⟨r, h2, List.mem_map.mpr ⟨keyOf s.nk r, h5, ?_⟩⟩
  exact coalKey_clean (hdb.clean s (List.mem_of_getElem? h1) r (envIn_get hin h1 h2)).2

/-- **result rows outside every candidate slice are unchanged** -/
theorem untouched_iff {q : Query} {db0 db1 : Db} {cands : List (Nat × List Key)}
    (hnd : (q.srcs.map (·.tbl)).Nodup) (hdb0 : DbOk q.srcs db0) (hdb1 : DbOk q.srcs db1)
    (hks : ∀ c ∈ cands, ∀ k ∈ c.2, CleanKey k) (hcov : Covered q db0 db1 cands) (x : Out)
    (hnt : ¬ TouchedOut cands q.srcs x) : x ∈ evalKeyed q db0 ↔ x ∈ evalKeyed q db1 := by
  rw [mem_evalKeyed, mem_evalKeyed]
  constructor
  · rintro ⟨r0, hr0, e, hc, hw, rfl⟩
    have hin := evalKeyed_envIn hr0 hc
    have hne : ¬ EnvTouched cands q.srcs e := fun ht => hnt (envTouched_touchedOut hnd hdb0 hin hks ht)
    obtain ⟨h1, h2⟩ := untouched_transfer hcov hr0 hc hne
    exact ⟨r0, h1, e, h2, hw, rfl⟩
  · rintro ⟨r0, hr0, e, hc, hw, rfl⟩
    have hin := evalKeyed_envIn hr0 hc
    have hne : ¬ EnvTouched cands q.srcs e := fun ht => hnt (envTouched_touchedOut hnd hdb1 hin hks ht)
    obtain ⟨h1, h2⟩ := untouched_transfer hcov.symm hr0 hc hne
    exact ⟨r0, h1, e, h2, hw, rfl⟩

end Corro.Ivm
