/-
C19 helper lemmas for the lock model: two invariants of every reachable state of every schedule —
`Compat` (no two processes hold incompatible locks) and `Tracks` (a process's locks are exactly
what the part of its program it has executed leaves it with).  Core only.
-/
import Corro.Model.Locks

namespace Corro.Locks

/-- the locks of two different processes never clash -/
def compatible (p q : Proc) : Prop :=
  ∀ s k k', (s, k) ∈ p.held → (s, k') ∈ q.held → k = .sh ∧ k' = .sh

theorem compatible_symm {p q : Proc} (h : compatible p q) : compatible q p := by
  intro s k k' h1 h2
  have := h s k' k h2 h1
  exact ⟨this.2, this.1⟩

def Compat (sys : List Proc) : Prop :=
  ∀ (i j : Nat) (p q : Proc), i ≠ j → sys[i]? = some p → sys[j]? = some q → compatible p q

theorem mem_others {sys : List Proc} {i j : Nat} {q : Proc} (h : sys[j]? = some q) (hne : j ≠ i) :
    q ∈ others sys i := by
  unfold others
  rw [List.mem_append]
  by_cases hlt : j < i
  · left
    rw [List.mem_iff_getElem?]
    exact ⟨j, by rw [List.getElem?_take]; simp [hlt, h]⟩
  · right
    rw [List.mem_iff_getElem?]
    refine ⟨j - (i + 1), ?_⟩
    rw [List.getElem?_drop]
    have : i + 1 + (j - (i + 1)) = j := by omega
    rw [this, h]

theorem others_mem {sys : List Proc} {i : Nat} {q : Proc} (h : q ∈ others sys i) :
    ∃ j, j ≠ i ∧ sys[j]? = some q := by
  unfold others at h
  rw [List.mem_append] at h
  rcases h with h | h
  · rw [List.mem_iff_getElem?] at h
    obtain ⟨j, hj⟩ := h
    rw [List.getElem?_take] at hj
    by_cases hlt : j < i
    · simp only [hlt, if_true] at hj; exact ⟨j, by omega, hj⟩
    · simp [hlt] at hj
  · rw [List.mem_iff_getElem?] at h
    obtain ⟨j, hj⟩ := h
    rw [List.getElem?_drop] at hj
    exact ⟨i + 1 + j, by omega, hj⟩

theorem no_conflict {os : List Proc} {s : Slot} {k : Kind} (h : conflicts os s k = false)
    {q : Proc} (hq : q ∈ os) {k' : Kind} (hm : (s, k') ∈ q.held) : k = .sh ∧ k' = .sh := by
  unfold conflicts at h
  rw [List.any_eq_false] at h
  have h1 := h q hq
  simp only [Bool.not_eq_true] at h1
  rw [List.any_eq_false] at h1
  have h2 := h1 (s, k') hm
  cases k <;> cases k' <;> simp_all

theorem has_conflict {os : List Proc} {s : Slot} {k k' : Kind} {q : Proc} (hq : q ∈ os)
    (hm : (s, k') ∈ q.held) (hex : k = .ex ∨ k' = .ex) : conflicts os s k = true := by
  unfold conflicts
  rw [List.any_eq_true]
  refine ⟨q, hq, ?_⟩
  rw [List.any_eq_true]
  refine ⟨(s, k'), hm, ?_⟩
  rcases hex with h | h <;> subst h <;> simp

theorem mem_lockSlot {h : Held} {s s' : Slot} {k k' : Kind} :
    (s', k') ∈ lockSlot h s k ↔ (s' = s ∧ k' = k) ∨ ((s', k') ∈ h ∧ s' ≠ s) := by
  unfold lockSlot
  simp [List.mem_filter]

theorem mem_unlockSlot {h : Held} {s s' : Slot} {k' : Kind} :
    (s', k') ∈ unlockSlot h s ↔ (s', k') ∈ h ∧ s' ≠ s := by
  unfold unlockSlot
  simp [List.mem_filter]

/-- a step of `p` keeps it compatible with everybody else -/
theorem step_local {os : List Proc} {p p' : Proc} {c : Choice} (h : p.step os c = some p')
    (hc : ∀ q ∈ os, compatible p q) : ∀ q ∈ os, compatible p' q := by
  intro q hq s' k1 k2 h1 h2
  unfold Proc.step at h
  split at h
  · cases h
  · rename_i s k rest _
    cases c with
    | giveUp =>
      simp only [Option.some.injEq] at h
      subst h
      simp at h1
    | go =>
      simp only at h
      split at h
      · cases h
      · rename_i hconf
        simp only [Option.some.injEq] at h
        subst h
        simp only at h1
        rcases mem_lockSlot.mp h1 with ⟨rfl, rfl⟩ | ⟨hm, _⟩
        · exact no_conflict (by simpa using hconf) hq h2
        · exact hc q hq s' k1 k2 hm h2
  · simp only [Option.some.injEq] at h
    subst h
    simp only at h1
    exact hc q hq s' k1 k2 (mem_unlockSlot.mp h1).1 h2
  · simp only [Option.some.injEq] at h
    subst h
    exact hc q hq s' k1 k2 h1 h2
  · simp only [Option.some.injEq] at h
    subst h
    simp at h1

theorem stepAt_eq {sys sys' : List Proc} {i : Nat} {c : Choice} (h : stepAt sys i c = some sys') :
    ∃ p p', sys[i]? = some p ∧ p.step (others sys i) c = some p' ∧ sys' = sys.set i p' := by
  unfold stepAt at h
  split at h
  · cases h
  · rename_i p hp
    simp only [Option.map_eq_some_iff] at h
    obtain ⟨p', hp', rfl⟩ := h
    exact ⟨p, p', hp, hp', rfl⟩

theorem getElem?_lt {sys : List Proc} {i : Nat} {p : Proc} (h : sys[i]? = some p) : i < sys.length := by
  have := List.getElem?_eq_some_iff.mp h
  exact this.1

theorem step_compat {sys sys' : List Proc} {i : Nat} {c : Choice} (hc : Compat sys)
    (h : stepAt sys i c = some sys') : Compat sys' := by
  obtain ⟨p, p', hp, hstep, rfl⟩ := stepAt_eq h
  have hlt := getElem?_lt hp
  have hloc : ∀ q ∈ others sys i, compatible p' q := by
    apply step_local hstep
    intro q hq
    obtain ⟨j, hj, hjq⟩ := others_mem hq
    exact hc i j p q (Ne.symm hj) hp hjq
  intro a b pa pb hab ha hb
  by_cases hai : a = i
  · subst hai
    rw [List.getElem?_set_self hlt] at ha
    simp only [Option.some.injEq] at ha
    subst ha
    rw [List.getElem?_set_ne (by omega)] at hb
    exact hloc pb (mem_others hb (Ne.symm hab))
  · rw [List.getElem?_set_ne (by omega)] at ha
    by_cases hbi : b = i
    · subst hbi
      rw [List.getElem?_set_self hlt] at hb
      simp only [Option.some.injEq] at hb
      subst hb
      exact compatible_symm (hloc pa (mem_others ha hai))
    · rw [List.getElem?_set_ne (by omega)] at hb
      exact hc a b pa pb hab ha hb

/-! ### a process's locks follow its program -/

theorem heldAfter_append (h : Held) (a b : List Step) :
    heldAfter h (a ++ b) = heldAfter (heldAfter h a) b := by
  induction a generalizing h with
  | nil => rfl
  | cons st r ih => simp only [List.cons_append, heldAfter]; exact ih _

theorem iosOf_append (a b : List Step) : iosOf (a ++ b) = iosOf a ++ iosOf b := by
  induction a with
  | nil => rfl
  | cons st r ih =>
    cases st <;> simp [iosOf, ih]

/-- `p` is the process that started lock-free with program `P`: it has executed a prefix `pre`
(every step of which went through), or it gave up at an `acquire` and dropped everything. -/
def Tracks (P : List Step) (p : Proc) : Prop :=
  ∃ pre post, P = pre ++ post ∧ p.done = iosOf pre ∧
    ((p.held = heldAfter [] pre ∧ p.prog = post) ∨
     (p.held = [] ∧ p.prog = [] ∧ ∃ s k rest, post = .acquire s k :: rest))

theorem step_tracks {P : List Step} {os : List Proc} {p p' : Proc} {c : Choice}
    (ht : Tracks P p) (h : p.step os c = some p') : Tracks P p' := by
  obtain ⟨pre, post, hP, hdone, hst⟩ := ht
  rcases hst with ⟨hheld, hprog⟩ | ⟨_, hprog, _⟩
  · unfold Proc.step at h
    split at h
    · cases h
    · rename_i s k rest hpr
      have hpost : post = .acquire s k :: rest := by rw [← hprog]; exact hpr
      cases c with
      | giveUp =>
        simp only [Option.some.injEq] at h
        subst h
        exact ⟨pre, post, hP, hdone, Or.inr ⟨rfl, rfl, s, k, rest, hpost⟩⟩
      | go =>
        simp only at h
        split at h
        · cases h
        · simp only [Option.some.injEq] at h
          subst h
          refine ⟨pre ++ [.acquire s k], rest, by rw [hP, hpost]; simp, ?_, Or.inl ⟨?_, rfl⟩⟩
          · simp [iosOf_append, iosOf, hdone]
          · simp [heldAfter_append, heldAfter, stepHeld, hheld]
    · rename_i s rest hpr
      have hpost : post = .release s :: rest := by rw [← hprog]; exact hpr
      simp only [Option.some.injEq] at h
      subst h
      refine ⟨pre ++ [.release s], rest, by rw [hP, hpost]; simp, ?_, Or.inl ⟨?_, rfl⟩⟩
      · simp [iosOf_append, iosOf, hdone]
      · simp [heldAfter_append, heldAfter, stepHeld, hheld]
    · rename_i op rest hpr
      have hpost : post = .io op :: rest := by rw [← hprog]; exact hpr
      simp only [Option.some.injEq] at h
      subst h
      refine ⟨pre ++ [.io op], rest, by rw [hP, hpost]; simp, ?_, Or.inl ⟨?_, rfl⟩⟩
      · simp [iosOf_append, iosOf, hdone]
      · simp [heldAfter_append, heldAfter, stepHeld, hheld]
    · rename_i rest hpr
      have hpost : post = .closeAll :: rest := by rw [← hprog]; exact hpr
      simp only [Option.some.injEq] at h
      subst h
      refine ⟨pre ++ [.closeAll], rest, by rw [hP, hpost]; simp, ?_, Or.inl ⟨?_, rfl⟩⟩
      · simp [iosOf_append, iosOf, hdone]
      · simp [heldAfter_append, heldAfter, stepHeld]
  · unfold Proc.step at h
    rw [hprog] at h
    cases h

/-- everybody starts without locks and without having done anything -/
def Init (init : List Proc) : Prop := ∀ p ∈ init, p.held = [] ∧ p.done = []

theorem init_compat {init : List Proc} (hi : Init init) : Compat init := by
  intro i j p q _ hp _ s k k' h1 _
  have := (hi p (List.mem_of_getElem? hp)).1
  rw [this] at h1
  cases h1

theorem reach_compat {init sys : List Proc} (hi : Init init) (h : Reach init sys) : Compat sys := by
  induction h with
  | refl => exact init_compat hi
  | step i c _ hs ih => exact step_compat ih hs

theorem reach_tracks {init sys : List Proc} (hi : Init init) (h : Reach init sys) :
    sys.length = init.length ∧
    ∀ (i : Nat) (p0 p : Proc), init[i]? = some p0 → sys[i]? = some p → Tracks p0.prog p := by
  induction h with
  | refl =>
    refine ⟨rfl, ?_⟩
    intro i p0 p h0 h1
    rw [h0] at h1
    simp only [Option.some.injEq] at h1
    subst h1
    have := hi p0 (List.mem_of_getElem? h0)
    exact ⟨[], p0.prog, rfl, by simp [iosOf, this.2], Or.inl ⟨by simp [heldAfter, this.1], rfl⟩⟩
  | step i c _ hs ih =>
    obtain ⟨p, p', hp, hstep, rfl⟩ := stepAt_eq hs
    have hlt := getElem?_lt hp
    refine ⟨by rw [List.length_set]; exact ih.1, ?_⟩
    intro j p0 pj h0 hj
    by_cases hji : j = i
    · subst hji
      rw [List.getElem?_set_self hlt] at hj
      simp only [Option.some.injEq] at hj
      subst hj
      exact step_tracks (ih.2 j p0 p h0 hp) hstep
    · rw [List.getElem?_set_ne (by omega)] at hj
      exact ih.2 j p0 pj h0 hj

/-- a fact checked at every program point of `P` holds at every way of cutting `P` in two -/
theorem split_check {P : List Step} {φ : List Step → List Step → Bool}
    (h : (List.range (P.length + 1)).all (fun n => φ (P.take n) (P.drop n)) = true)
    {pre post : List Step} (hP : P = pre ++ post) : φ pre post = true := by
  rw [List.all_eq_true] at h
  have := h pre.length (by rw [List.mem_range, hP]; simp; omega)
  rw [hP] at this
  simpa using this

end Corro.Locks
