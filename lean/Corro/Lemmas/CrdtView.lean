/-
C01, CRDT level: what the invariant `Inv db P` says about the view of `db` — causal lengths and
winning cells equal the specification of the set `P` — and absorption of already merged changes.
-/
import Corro.Lemmas.CrdtInv

namespace Corro.Crdt

/-- **row causal length is the maximum.** -/
theorem Inv.cl_eq {db : Db} {P : List Chg} (hi : Inv db P) (t p : String) :
    db.cl t p = specCl P t p := by
  have h := hi t p
  unfold Db.cl
  symm
  cases ho : db.findRow t p with
  | none =>
    rw [ho] at h
    refine specCl_unique (fun c hc hat => ?_) (Or.inr rfl)
    have := h c hc hat
    simp [lclOf, this]
  | some r =>
    rw [ho] at h
    exact specCl_unique h.ub (Or.inl h.att)

theorem not_even_or_sent {n : Nat} {x : String} (hodd : n % 2 = 1) (hx : x ≠ sentinel) :
    ¬ (n % 2 = 0 ∨ x = sentinel) := by
  rintro (h | h)
  · omega
  · exact hx h

theorem filter_atCell_nil {P : List Chg} {t p x : String} {n : Nat}
    (h : ∀ d ∈ P, ¬ d.atCell t p x n) : P.filter (fun c => decide (c.atCell t p x n)) = [] := by
  rw [List.filter_eq_nil_iff]
  intro d hd
  simpa using h d hd

/-- a stored cell whose key is attained by a change of the current incarnation is the
specification's winner -/
theorem specCell_of_attained {P : List Chg} {t p x : String} {l : Cell}
    (hodd : specCl P t p % 2 = 1) (hx : x ≠ sentinel)
    (hub : ∀ d ∈ P, d.atCell t p x (specCl P t p) → keyLt l.key d.key = false)
    (hat : ∃ c ∈ P, c.atCell t p x (specCl P t p) ∧ c.key = l.key) :
    specCell P t p x = some (l.val, l.clk.colv) := by
  unfold specCell
  simp only []
  rw [if_neg (not_even_or_sent hodd hx)]
  obtain ⟨c, hc, hcat, hk⟩ := hat
  have : maxKey ((P.filter (fun c => decide (c.atCell t p x (specCl P t p)))).map Chg.key) =
      some l.key := by
    apply maxKey_unique
    · rw [← hk]
      exact List.mem_map.mpr ⟨c, List.mem_filter.mpr ⟨hc, by simpa using hcat⟩, rfl⟩
    · intro k hk'
      obtain ⟨d, hd, rfl⟩ := List.mem_map.mp hk'
      have := List.mem_filter.mp hd
      exact hub d this.1 (by simpa using this.2)
  rw [this]
  rfl

theorem Db.cell_eq {db : Db} {t p : String} {r : Row} (h : db.findRow t p = some r) (x : String) :
    db.cell t p x = r.findCell x := by
  unfold Db.cell; rw [h]

/-- **cell part, pointwise.**  If the set `P` has a change with a positive column version for cell
`(t,p,x)` in the row's final incarnation, the database shows the specification's winner there. -/
theorem Inv.cell_eq {db : Db} {P : List Chg} (hi : Inv db P) {t p x : String}
    (hodd : specCl P t p % 2 = 1) (hx : x ≠ sentinel)
    (hd : ∃ d ∈ P, d.atCell t p x (specCl P t p) ∧ 1 ≤ d.colv) :
    (view db t p).cell x = specCell P t p x := by
  have hcl := hi.cl_eq t p
  have h := hi t p
  obtain ⟨d, hdP, hdat, hdv⟩ := hd
  cases ho : db.findRow t p with
  | none =>
    rw [ho] at h
    have := h d hdP ⟨hdat.1, hdat.2.1⟩
    have := hdat.2.2.2
    omega
  | some r =>
    rw [ho] at h
    have hrcl : r.cl = specCl P t p := by rw [← hcl]; unfold Db.cl; rw [ho]; rfl
    obtain ⟨l, hl⟩ := h.has (by omega) d hdP (by rw [hdat.2.2.1, hrcl]; exact hdat)
      (by rw [hdat.2.2.1]; exact hx)
    rw [hdat.2.2.1] at hl
    have hci := h.cells x l hl
    have hlx : l.cid = x := (findCell_some hl).1
    have hub := hci.ub
    have hatt := hci.att
    rw [hlx, hrcl] at hub hatt
    show (db.cell t p x).map _ = _
    rw [Db.cell_eq ho, hl]
    symm
    refine specCell_of_attained hodd hx hub ?_
    rcases hatt with ha | hz
    · exact ha
    · have := hub d hdP hdat
      rw [keyLt_of_colv_zero hz (by show 1 ≤ d.colv; exact hdv)] at this
      cases this

/-- **the whole view.**  For an incarnation-complete set the view is the specification. -/
theorem Inv.view_eq {db : Db} {P : List Chg} (hi : Inv db P) (hc : CompleteStrong P) :
    view db = spec P := by
  funext t p
  have hcl := hi.cl_eq t p
  have h := hi t p
  show RowView.mk _ _ = RowView.mk _ _
  congr 1
  funext x
  by_cases hgood : specCl P t p % 2 = 1 ∧ x ≠ sentinel
  · obtain ⟨hodd, hx⟩ := hgood
    cases ho : db.findRow t p with
    | none =>
      have : db.cl t p = 0 := by unfold Db.cl; rw [ho]; rfl
      omega
    | some r =>
      rw [ho] at h
      have hrcl : r.cl = specCl P t p := by rw [← hcl]; unfold Db.cl; rw [ho]; rfl
      cases hl : r.findCell x with
      | none =>
        rw [Db.cell_eq ho, hl]
        unfold specCell
        simp only []
        rw [if_neg (not_even_or_sent hodd hx), filter_atCell_nil]
        · rfl
        · intro d hd hat
          obtain ⟨l, hl'⟩ := h.has (by omega) d hd (by rw [hat.2.2.1, hrcl]; exact hat)
            (by rw [hat.2.2.1]; exact hx)
          rw [hat.2.2.1, hl] at hl'
          cases hl'
      | some l =>
        obtain ⟨c0, hc0, hrow, hcid, _⟩ := (h.cells x l hl).prov
        have hlx : l.cid = x := (findCell_some hl).1
        obtain ⟨d, hd, hdat, hdv⟩ := hc c0 hc0 (by rw [hcid, hlx]; exact hx)
          (by rw [hrow.1, hrow.2]; exact hodd)
        rw [hrow.1, hrow.2, hcid, hlx] at hdat
        exact hi.cell_eq hodd hx ⟨d, hd, hdat, hdv⟩
  · have hs : specCell P t p x = none := by
      unfold specCell
      simp only []
      rw [if_pos (by
        by_cases h1 : x = sentinel
        · exact Or.inr h1
        · left
          have : ¬ specCl P t p % 2 = 1 := fun h2 => hgood ⟨h2, h1⟩
          omega)]
    rw [hs]
    cases ho : db.findRow t p with
    | none => show (db.cell t p x).map _ = none; unfold Db.cell; rw [ho]; rfl
    | some r =>
      rw [ho] at h
      have hrcl : r.cl = specCl P t p := by rw [← hcl]; unfold Db.cl; rw [ho]; rfl
      show (db.cell t p x).map _ = none
      rw [Db.cell_eq ho]
      cases hl : r.findCell x with
      | none => rfl
      | some l =>
        exfalso
        have hlx : l.cid = x := (findCell_some hl).1
        have hns := (h.cells x l hl).notSent
        by_cases h1 : x = sentinel
        · exact hns (hlx.trans h1)
        · have : r.cl % 2 = 0 := by
            have : ¬ specCl P t p % 2 = 1 := fun h2 => hgood ⟨h2, h1⟩
            omega
          have := h.even this
          unfold Row.findCell at hl; rw [this] at hl; cases hl

/-! ### absorption -/

/-- **A change of the merged set is absorbed**: merging it again leaves the database literally
unchanged. -/
theorem Inv.absorb {db : Db} {P : List Chg} (hi : Inv db P) {c : Chg} (hc : c ∈ P) :
    merge db c = db := by
  rw [merge_eq]
  have h := hi c.tbl c.pk
  have hrow : c.atRow c.tbl c.pk := ⟨rfl, rfl⟩
  have hb := lclOf_bound h c hc hrow
  suffices hs : mergeRow (db.findRow c.tbl c.pk) c = none by rw [hs]; rfl
  refine mergeRow_elim (Q := fun x => x = none) (db.findRow c.tbl c.pk) c ?_ ?_ ?_ ?_ ?_ ?_ ?_ ?_ ?_
  · intro _; rfl
  · intro _ _; rfl
  · intro _ hgt; omega
  · intro _ _ _; rfl
  · intro _ _ hgt; omega
  · intro _ _ hgt; omega
  · intro ho hns r hr hcl hf
    rw [hr] at h
    obtain ⟨l, hl⟩ := h.has (by omega) c hc ⟨rfl, rfl, rfl, hcl.symm⟩ hns
    rw [hf] at hl; cases hl
  · intro ho hns r l hr hcl hf hw
    rw [hr] at h
    have := (h.cells c.cid l hf).ub c hc ⟨rfl, rfl, (findCell_some hf).1.symm, hcl.symm⟩
    rw [wins_eq_keyLt, this] at hw
    cases hw
  · intro _ _ _ _ _ _ _ _; rfl

theorem Inv.absorbAll {db : Db} {P : List Chg} (hi : Inv db P) {cs : List Chg}
    (hc : ∀ c ∈ cs, c ∈ P) : mergeAll db cs = db := by
  induction cs with
  | nil => rfl
  | cons c cs ih =>
    show mergeAll (merge db c) cs = db
    rw [hi.absorb (hc c List.mem_cons_self)]
    exact ih (fun d hd => hc d (List.mem_cons_of_mem _ hd))

/-! ### provenance -/

theorem Inv.cell_prov {db : Db} {P : List Chg} (hi : Inv db P) {t p x : String} {l : Cell}
    (hl : db.cell t p x = some l) :
    ∃ c ∈ P, c.tbl = t ∧ c.pk = p ∧ c.cid = x ∧ x ≠ sentinel ∧ c.val = l.val ∧
      c.site = l.clk.site ∧ c.dbv = l.clk.dbv ∧ c.seq = l.clk.seq := by
  have h := hi t p
  cases ho : db.findRow t p with
  | none => unfold Db.cell at hl; rw [ho] at hl; cases hl
  | some r =>
    rw [ho] at h
    rw [Db.cell_eq ho] at hl
    have hlx : l.cid = x := (findCell_some hl).1
    obtain ⟨hns, ⟨c, hc, hrow, h1, h2⟩, _⟩ := h.cells x l hl
    exact ⟨c, hc, hrow.1, hrow.2, h1.trans hlx, hlx ▸ hns, h2⟩

theorem Inv.row_prov {db : Db} {P : List Chg} (hi : Inv db P) {t p : String} {r : Row}
    (hr : db.findRow t p = some r) : ∃ c ∈ P, c.tbl = t ∧ c.pk = p ∧ c.cl = r.cl := by
  have h := hi t p
  rw [hr] at h
  obtain ⟨c, hc, hrow, hcl⟩ := h.att
  exact ⟨c, hc, hrow.1, hrow.2, hcl⟩

/-! ### what may differ between two merges of the same set -/

/-- a deleted (or never seen) row shows no cell, and no row shows a cell for the sentinel column -/
theorem Inv.cell_none {db : Db} {P : List Chg} (hi : Inv db P) {t p x : String}
    (h : specCl P t p % 2 = 0 ∨ x = sentinel) : db.cell t p x = none := by
  have hcl := hi.cl_eq t p
  have hr := hi t p
  cases ho : db.findRow t p with
  | none => unfold Db.cell; rw [ho]
  | some r =>
    rw [ho] at hr
    have hrcl : r.cl = specCl P t p := by rw [← hcl]; unfold Db.cl; rw [ho]; rfl
    rw [Db.cell_eq ho]
    cases hl : r.findCell x with
    | none => rfl
    | some l =>
      exfalso
      rcases h with h | h
      · have := hr.even (by omega)
        unfold Row.findCell at hl; rw [this] at hl; cases hl
      · exact (hr.cells x l hl).notSent ((findCell_some hl).1.trans h)

/-- a cell for which the set has no change in the row's final incarnation is a zeroed leftover:
column version 0 (value and attribution from an older incarnation) -/
theorem Inv.leftover_zero {db : Db} {P : List Chg} (hi : Inv db P) {t p x : String} {l : Cell}
    (hl : db.cell t p x = some l) (hno : ∀ d ∈ P, ¬ d.atCell t p x (specCl P t p)) :
    l.clk.colv = 0 := by
  have hcl := hi.cl_eq t p
  have hr := hi t p
  cases ho : db.findRow t p with
  | none => unfold Db.cell at hl; rw [ho] at hl; cases hl
  | some r =>
    rw [ho] at hr
    have hrcl : r.cl = specCl P t p := by rw [← hcl]; unfold Db.cl; rw [ho]; rfl
    rw [Db.cell_eq ho] at hl
    have hlx : l.cid = x := (findCell_some hl).1
    rcases (hr.cells x l hl).att with ⟨c, hc, hat, _⟩ | hz
    · rw [hlx, hrcl] at hat
      exact absurd hat (hno c hc)
    · exact hz

/-- conversely, for well-formed changes: a cell with column version 0 is a leftover — the set has
no change for it in the row's final incarnation -/
theorem Inv.no_change_of_zero {db : Db} {P : List Chg} (hi : Inv db P) (hwf : ∀ c ∈ P, c.WF)
    {t p x : String} {l : Cell} (hl : db.cell t p x = some l) (hz : l.clk.colv = 0) :
    ∀ d ∈ P, ¬ d.atCell t p x (specCl P t p) := by
  intro d hd hat
  have hcl := hi.cl_eq t p
  have hr := hi t p
  cases ho : db.findRow t p with
  | none => unfold Db.cell at hl; rw [ho] at hl; cases hl
  | some r =>
    rw [ho] at hr
    have hrcl : r.cl = specCl P t p := by rw [← hcl]; unfold Db.cl; rw [ho]; rfl
    rw [Db.cell_eq ho] at hl
    have hlx : l.cid = x := (findCell_some hl).1
    have hci := hr.cells x l hl
    have hub := hci.ub d hd (by rw [hlx, hrcl]; exact hat)
    have hdv : 1 ≤ d.colv := hwf d hd (by rw [hat.2.2.1, ← hlx]; exact hci.notSent)
    rw [keyLt_of_colv_zero hz (by show 1 ≤ d.colv; exact hdv)] at hub
    cases hub

end Corro.Crdt
