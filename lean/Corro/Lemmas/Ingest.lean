/-
Helper lemmas for C10 (`Corro/Props/C10.lean`): structure of the spawn loop, what every event does
to the places a changeset can be in (queue, running batches, delivered, failed, dropped), the
`seen` cache operations.
-/
import Corro.Model.Ingest
import Corro.Lemmas.Ranges

namespace Corro.Ingest
open Corro Corro.Node

/-! ### predicates used by the property statements -/

/-- changesets waiting or running, oldest first -/
def pending (s : State) : List Item := s.inflight.flatten ++ s.queue

/-- everything that was accepted and not dropped: running, queued, delivered by a successful batch
and (with `withFailed`) the contents of failed batches -/
def pool (withFailed : Bool) (s : State) : List Item :=
  s.inflight.flatten ++ s.queue ++ s.delivered.flatten ++ (if withFailed then s.failed.flatten else [])

/-- changeset `it` is about `(actor, version)` -/
def Backs (it : Item) (k : Key) : Prop := it.site = k.1 ∧ it.versions.1 ≤ k.2 ∧ k.2 ≤ it.versions.2

/-- changeset `it` carries seq `x` of `(actor, version)` -/
def Covers (it : Item) (k : Key) (x : Nat) : Prop :=
  Backs it k ∧ ∃ r, it.seqs = some r ∧ r.1 ≤ x ∧ x ≤ r.2

/-- forward ranges (the real code panics on a `Full` changeset whose seq range is inverted) -/
def ItemWF (it : Item) : Prop := ∀ r, it.seqs = some r → r.1 ≤ r.2

/-- one cache entry is justified by the changesets of `P` -/
def EntrySound (P : List Item) (e : Key × RSet) : Prop :=
  (∃ it ∈ P, Backs it e.1) ∧ ∀ x, RSet.Mem e.2 x → ∃ it ∈ P, Covers it e.1 x

/-- representation invariant of the cache: keys are unique, seq sets canonical -/
def SeenInv (sn : Seen) : Prop := (sn.map (·.1)).Nodup ∧ ∀ e ∈ sn, RSet.WF e.2

def SoundWrt (P : List Item) (sn : Seen) : Prop := ∀ e ∈ sn, EntrySound P e

/-- the invariant behind `seen_sound` (`withFailed = true`) and `NoResidue` (`false`) -/
def Inv (withFailed : Bool) (s : State) : Prop :=
  SeenInv s.seen ∧ SoundWrt (pool withFailed s) s.seen ∧ ∀ it ∈ s.queue, ItemWF it

/-- every part of `it` is carried by some changeset of `D` -/
def CoveredBy (D : List Item) : Item → Prop
  | .full site ver lo hi _ _ => ∀ x, lo ≤ x → x ≤ hi → ∃ i ∈ D, Covers i (site, ver) x
  | .empty site vlo vhi => ∀ v, vlo ≤ v → v ≤ vhi → ∃ i ∈ D, Backs i (site, v)

/-- some part of `it` is carried by no changeset of `P` -/
def Fresh (P : List Item) : Item → Prop
  | .full site ver lo hi _ _ => ∃ x, lo ≤ x ∧ x ≤ hi ∧ ∀ i ∈ P, ¬ Covers i (site, ver) x
  | .empty site vlo vhi => ∃ v, vlo ≤ v ∧ v ≤ vhi ∧ ∀ i ∈ P, ¬ Backs i (site, v)

/-- nothing waiting, nothing running -/
def Idle (s : State) : Prop := s.inflight = [] ∧ s.queue = []

/-- what the top of the loop guarantees: something is running whenever something is queued -/
def Stable (s : State) : Prop := s.inflight = [] → s.queue = []

def measure (s : State) : Nat := s.queue.length + s.inflight.length

/-! ### takeBatch -/

theorem takeBatch_append (chunk : Nat) : ∀ (q : List Item) (acc : Nat),
    (takeBatch chunk acc q).1 ++ (takeBatch chunk acc q).2.1 = q := by
  intro q
  induction q with
  | nil => intro acc; simp [takeBatch]
  | cons it rest ih =>
    intro acc
    unfold takeBatch
    split
    · simp
    · simp [ih]

theorem takeBatch_cost (chunk : Nat) : ∀ (q : List Item) (acc : Nat),
    (takeBatch chunk acc q).2.2 = acc + costs (takeBatch chunk acc q).1 := by
  intro q
  induction q with
  | nil => intro acc; simp [takeBatch, costs]
  | cons it rest ih =>
    intro acc
    unfold takeBatch
    split
    · simp [costs]
    · simp only [ih]; simp [costs]; omega

theorem takeBatch_nonempty (chunk acc : Nat) (it : Item) (rest : List Item) :
    (takeBatch chunk acc (it :: rest)).1 ≠ [] := by
  unfold takeBatch
  split <;> simp

theorem costs_append (a b : List Item) : costs (a ++ b) = costs a + costs b := by
  simp [costs]

/-! ### the spawn loop only moves changesets from the queue into new batches -/

theorem spawnLoop_frame (p : Params) : ∀ (fuel : Nat) (s : State),
    (spawnLoop p fuel s).seen = s.seen ∧ (spawnLoop p fuel s).node = s.node ∧
    (spawnLoop p fuel s).delivered = s.delivered ∧ (spawnLoop p fuel s).failed = s.failed ∧
    (spawnLoop p fuel s).droppedItems = s.droppedItems ∧
    (spawnLoop p fuel s).inflight.flatten ++ (spawnLoop p fuel s).queue = s.inflight.flatten ++ s.queue := by
  intro fuel
  induction fuel with
  | zero => intro s; simp [spawnLoop]
  | succ f ih =>
    intro s
    unfold spawnLoop
    split
    · split
      · simp
      · have h := ih (spawned p s)
        obtain ⟨h1, h2, h3, h4, h5, h6⟩ := h
        refine ⟨h1, h2, h3, h4, h5, ?_⟩
        rw [h6]
        simp only [spawned, List.flatten_append, List.flatten_cons, List.flatten_nil, List.append_nil, List.append_assoc]
        rw [takeBatch_append]
    · simp

theorem loopTop_frame (p : Params) (s : State) :
    (loopTop p s).seen = s.seen ∧ (loopTop p s).node = s.node ∧
    (loopTop p s).delivered = s.delivered ∧ (loopTop p s).failed = s.failed ∧
    (loopTop p s).droppedItems = s.droppedItems ∧
    (loopTop p s).inflight.flatten ++ (loopTop p s).queue = s.inflight.flatten ++ s.queue :=
  spawnLoop_frame p _ s

theorem loopTop_pool (p : Params) (wf : Bool) (s : State) : pool wf (loopTop p s) = pool wf s := by
  obtain ⟨_, _, h3, h4, _, h6⟩ := loopTop_frame p s
  simp only [pool, h3, h4, h6]

/-- the queue after the spawn loop is a suffix of the queue before -/
theorem spawnLoop_queue_suffix (p : Params) : ∀ (fuel : Nat) (s : State),
    ∃ pre, s.queue = pre ++ (spawnLoop p fuel s).queue := by
  intro fuel
  induction fuel with
  | zero => intro s; exact ⟨[], by simp [spawnLoop]⟩
  | succ f ih =>
    intro s
    unfold spawnLoop
    split
    · split
      · exact ⟨[], by simp⟩
      · obtain ⟨pre, h⟩ := ih (spawned p s)
        refine ⟨(takeBatch p.maxChangesChunk 0 s.queue).1 ++ pre, ?_⟩
        have hq : (spawned p s).queue = (takeBatch p.maxChangesChunk 0 s.queue).2.1 := rfl
        rw [hq] at h
        rw [List.append_assoc, ← h, takeBatch_append]
    · exact ⟨[], by simp⟩

theorem loopTop_queue_mem (p : Params) (s : State) : ∀ it ∈ (loopTop p s).queue, it ∈ s.queue := by
  intro it hit
  obtain ⟨pre, h⟩ := spawnLoop_queue_suffix p (s.queue.length + 1) s
  rw [h]; exact List.mem_append_right _ hit

/-- `bufCost` stays the cost of the queue -/
theorem spawnLoop_bufCost (p : Params) : ∀ (fuel : Nat) (s : State), s.bufCost = costs s.queue →
    (spawnLoop p fuel s).bufCost = costs (spawnLoop p fuel s).queue := by
  intro fuel
  induction fuel with
  | zero => intro s h; simpa [spawnLoop] using h
  | succ f ih =>
    intro s h
    unfold spawnLoop
    split
    · split
      · exact h
      · apply ih
        simp only [spawned]
        have h1 := takeBatch_append p.maxChangesChunk s.queue 0
        have h2 := takeBatch_cost p.maxChangesChunk s.queue 0
        have h3 : costs s.queue = costs (takeBatch p.maxChangesChunk 0 s.queue).1 + costs (takeBatch p.maxChangesChunk 0 s.queue).2.1 := by
          rw [← costs_append, h1]
        omega
    · exact h

/-- the number of running batches never exceeds `maxConcurrent` -/
theorem spawnLoop_inflight_le (p : Params) : ∀ (fuel : Nat) (s : State), s.inflight.length ≤ p.maxConcurrent →
    (spawnLoop p fuel s).inflight.length ≤ p.maxConcurrent := by
  intro fuel
  induction fuel with
  | zero => intro s h; simpa [spawnLoop] using h
  | succ f ih =>
    intro s h
    unfold spawnLoop
    split
    · rename_i hc
      split
      · exact h
      · apply ih
        simp only [spawnCond, Bool.and_eq_true, decide_eq_true_eq] at hc
        simp only [spawned, List.length_append, List.length_cons, List.length_nil]
        omega
    · exact h

theorem spawnLoop_queue_le (p : Params) (fuel : Nat) (s : State) :
    (spawnLoop p fuel s).queue.length ≤ s.queue.length := by
  obtain ⟨pre, h⟩ := spawnLoop_queue_suffix p fuel s
  rw [h]; simp

/-- the measure `queue length + running batches` does not grow at the top of the loop -/
theorem spawnLoop_measure (p : Params) : ∀ (fuel : Nat) (s : State),
    measure (spawnLoop p fuel s) ≤ measure s := by
  intro fuel
  induction fuel with
  | zero => intro s; simp [spawnLoop]
  | succ f ih =>
    intro s
    unfold spawnLoop
    split
    · split
      · exact Nat.le_refl _
      · rename_i hne
        refine Nat.le_trans (ih _) ?_
        have h1 := takeBatch_append p.maxChangesChunk s.queue 0
        have hlen : s.queue.length = (takeBatch p.maxChangesChunk 0 s.queue).1.length + (takeBatch p.maxChangesChunk 0 s.queue).2.1.length := by
          rw [← List.length_append, h1]
        have hpos : 0 < (takeBatch p.maxChangesChunk 0 s.queue).1.length := by
          cases hb : (takeBatch p.maxChangesChunk 0 s.queue).1 with
          | nil => simp [hb] at hne
          | cons _ _ => simp
        simp only [measure, spawned, List.length_append, List.length_cons, List.length_nil]
        omega
    · exact Nat.le_refl _

/-- the spawn loop only appends batches -/
theorem spawnLoop_inflight_prefix (p : Params) : ∀ (fuel : Nat) (s : State),
    ∃ more, (spawnLoop p fuel s).inflight = s.inflight ++ more := by
  intro fuel
  induction fuel with
  | zero => intro s; exact ⟨[], by simp [spawnLoop]⟩
  | succ f ih =>
    intro s
    unfold spawnLoop
    split
    · split
      · exact ⟨[], by simp⟩
      · obtain ⟨more, h⟩ := ih (spawned p s)
        exact ⟨(takeBatch p.maxChangesChunk 0 s.queue).1 :: more, by rw [h]; simp [spawned]⟩
    · exact ⟨[], by simp⟩

/-- after the top of the loop something is running whenever something is queued -/
theorem spawnLoop_stable (p : Params) (hc : 1 ≤ p.maxConcurrent) : ∀ (fuel : Nat) (s : State),
    s.queue.length < fuel → Stable (spawnLoop p fuel s) := by
  intro fuel
  induction fuel with
  | zero => intro s h; omega
  | succ f ih =>
    intro s hf
    unfold spawnLoop
    split
    · split
      · rename_i hemp
        intro _
        cases hq : s.queue with
        | nil => rfl
        | cons it rest =>
          rw [hq] at hemp
          have := takeBatch_nonempty p.maxChangesChunk 0 it rest
          cases hb : (takeBatch p.maxChangesChunk 0 (it :: rest)).1 with
          | nil => exact absurd hb this
          | cons _ _ => simp [hb] at hemp
      · rename_i hne
        intro hinf
        exfalso
        obtain ⟨more, h⟩ := spawnLoop_inflight_prefix p f (spawned p s)
        rw [h] at hinf
        simp [spawned] at hinf
    · rename_i hc'
      intro hinf
      simp only [spawnCond, Bool.and_eq_true, decide_eq_true_eq, Bool.or_eq_true, Bool.not_eq_true',
        not_and, hinf, List.isEmpty_nil, List.length_nil] at hc'
      cases hq : s.queue with
      | nil => rfl
      | cons it rest =>
        exfalso
        apply hc' _ (by omega)
        right
        simp [hq]

theorem loopTop_stable (p : Params) (hc : 1 ≤ p.maxConcurrent) (s : State) : Stable (loopTop p s) :=
  spawnLoop_stable p hc _ s (Nat.lt_succ_self _)

end Corro.Ingest
