/-
C06 / C03 helper definitions: well-formed inputs (`ItemWF`), the invariant `Consistent` that ties a
node's durable state (sequence rows, buffered rows, db-version rows) to its in-memory bookkeeping,
its variant with pending clear jobs (`ConsP`), and small lemmas about the durable lookups.
-/
import Corro.Lemmas.NodeResolve
namespace Corro.Node
open Corro.Crdt

/-! ### inputs -/

/-- Well-formed changeset relative to the true `last_seq` `L actor version` of every version:
a `Full` changeset carries that `last_seq`, ends at or before it, and its changes belong to its
`(actor, version)` and lie in its seq range; an `Empty` changeset has a forward version range.
(A relay that lost the tail of a version to later versions answers with a smaller `last_seq`; such
answers are outside this predicate.) -/
def ItemWF (L : Nat → Nat → Nat) : Item → Prop
  | .full site ver lo hi last cs => last = L site ver ∧ hi ≤ last ∧ ChunkWF site ver lo hi cs
  | .empty _ vlo vhi => vlo ≤ vhi

/-! ### the invariant, per actor -/

/-- version `v` is covered by one of the pending clear ranges -/
def Covered (cl : List (Nat × Nat)) (v : Nat) : Prop := ∃ c ∈ cl, c.1 ≤ v ∧ v ≤ c.2

/-- "`(a, v)` has a sequence row" -/
def HasRows (n : Node) (a v : Nat) : Prop := ∃ r ∈ n.seqRows, r.site = a ∧ r.ver = v

/-- Consistency of actor `a`'s durable rows with its in-memory bookkeeping, with clear jobs for the
version ranges `cl` still pending. -/
structure ConsP (L : Nat → Nat → Nat) (n : Node) (a : Nat) (cl : List (Nat × Nat)) : Prop where
  pwf : (n.booked a).PWF
  keys : (n.booked a).KeysSorted
  rows_fwd : ∀ r ∈ n.seqRows, r.site = a → r.lo ≤ r.hi ∧ r.last = L a r.ver
  part_last : ∀ v p, (n.booked a).partial? v = some p → p.last = L a v
  rows_part : ∀ v, HasRows n a v → Covered cl v ∨
    ∃ p, (n.booked a).partial? v = some p ∧ ∀ x, RSet.Mem p.seqs x ↔ SeqMem n.seqRows a v x
  norows_part : ∀ v p, (n.booked a).partial? v = some p → ¬ HasRows n a v → p.complete = true
  cleared_none : ∀ v, Covered cl v → (n.booked a).partial? v = none
  buf_cov : ∀ c ∈ n.buf, c.site = a → SeqMem n.seqRows a c.dbv c.seq
  dbv_le : dbvOf n a ≤ (n.booked a).max
  rows_le : ∀ r ∈ n.seqRows, r.site = a → r.ver ≤ (n.booked a).max
  max_att : (n.booked a).max ≤ dbvOf n a ∨
    ∃ r ∈ n.seqRows, r.site = a ∧ (n.booked a).max ≤ r.ver ∧ ¬ Covered cl r.ver
  needed_wf : RSet.WF (n.booked a).needed
  part_known : ∀ v p, (n.booked a).partial? v = some p →
    v ≤ (n.booked a).max ∧ ¬ RSet.Mem (n.booked a).needed v

/-- no clear job pending -/
abbrev ConsA (L : Nat → Nat → Nat) (n : Node) (a : Nat) : Prop := ConsP L n a []

/-- **the durable state is consistent with the memory**: for every actor, and the in-memory map of
actors is sorted by actor id -/
structure Consistent (L : Nat → Nat → Nat) (n : Node) : Prop where
  actor : ∀ a, ConsA L n a
  sorted : n.book.Pairwise (fun x y => x.1 < y.1)

/-- every version with a complete partial has been applied (its rows are gone): what the background
apply loop of an alive node maintains -/
def NoPending (n : Node) : Prop :=
  ∀ a v p, (n.booked a).partial? v = some p → p.complete = true → ¬ HasRows n a v

theorem not_covered_nil (v : Nat) : ¬ Covered [] v := by
  rintro ⟨c, hc, _⟩; cases hc

/-! ### two nodes that agree on everything about actor `a` -/

structure SameActor (n n' : Node) (a : Nat) : Prop where
  booked : n'.booked a = n.booked a
  rows : ∀ r, r.site = a → (r ∈ n'.seqRows ↔ r ∈ n.seqRows)
  buf : ∀ c, c.site = a → (c ∈ n'.buf ↔ c ∈ n.buf)
  dbv : dbvOf n' a = dbvOf n a

theorem SameActor.refl (n : Node) (a : Nat) : SameActor n n a :=
  ⟨rfl, fun _ _ => Iff.rfl, fun _ _ => Iff.rfl, rfl⟩

theorem SameActor.trans {n n' n'' : Node} {a : Nat} (h1 : SameActor n n' a) (h2 : SameActor n' n'' a) :
    SameActor n n'' a :=
  ⟨h2.booked.trans h1.booked, fun r hr => (h2.rows r hr).trans (h1.rows r hr),
    fun c hc => (h2.buf c hc).trans (h1.buf c hc), h2.dbv.trans h1.dbv⟩

theorem SameActor.hasRows {n n' : Node} {a : Nat} (h : SameActor n n' a) (v : Nat) :
    HasRows n' a v ↔ HasRows n a v := by
  unfold HasRows
  constructor
  · rintro ⟨r, hr, hs, hv⟩; exact ⟨r, (h.rows r hs).mp hr, hs, hv⟩
  · rintro ⟨r, hr, hs, hv⟩; exact ⟨r, (h.rows r hs).mpr hr, hs, hv⟩

theorem SameActor.seqMem {n n' : Node} {a : Nat} (h : SameActor n n' a) (v x : Nat) :
    SeqMem n'.seqRows a v x ↔ SeqMem n.seqRows a v x := by
  unfold SeqMem
  constructor
  · rintro ⟨r, hr, hs, hv⟩; exact ⟨r, (h.rows r hs).mp hr, hs, hv⟩
  · rintro ⟨r, hr, hs, hv⟩; exact ⟨r, (h.rows r hs).mpr hr, hs, hv⟩

theorem ConsP.transfer {L : Nat → Nat → Nat} {n n' : Node} {a : Nat} {cl : List (Nat × Nat)}
    (hc : ConsP L n a cl) (h : SameActor n n' a) : ConsP L n' a cl := by
  have hb := h.booked
  refine ⟨by rw [hb]; exact hc.pwf, by rw [hb]; exact hc.keys,
    fun r hr hs => hc.rows_fwd r ((h.rows r hs).mp hr) hs,
    by rw [hb]; exact hc.part_last, ?_, ?_, by rw [hb]; exact hc.cleared_none,
    fun c hcm hs => (h.seqMem _ _).mpr (hc.buf_cov c ((h.buf c hs).mp hcm) hs),
    by rw [hb, h.dbv]; exact hc.dbv_le,
    fun r hr hs => by rw [hb]; exact hc.rows_le r ((h.rows r hs).mp hr) hs, ?_,
    by rw [hb]; exact hc.needed_wf, by rw [hb]; exact hc.part_known⟩
  · intro v hv
    rcases hc.rows_part v ((h.hasRows v).mp hv) with h1 | ⟨p, hp, hm⟩
    · exact Or.inl h1
    · exact Or.inr ⟨p, by rw [hb]; exact hp, fun x => (hm x).trans (h.seqMem v x).symm⟩
  · intro v p hp hnr
    rw [hb] at hp
    exact hc.norows_part v p hp (fun hr => hnr ((h.hasRows v).mpr hr))
  · rw [hb, h.dbv]
    rcases hc.max_att with h1 | ⟨r, hr, hs, h2, h3⟩
    · exact Or.inl h1
    · exact Or.inr ⟨r, (h.rows r hs).mpr hr, hs, h2, h3⟩

/-! ### the db-version rows -/

theorem dbvOf_eq (n : Node) (a : Nat) : dbvOf n a = (alook n.dbv a).getD 0 := rfl

theorem dbvOf_bumpDbv (n : Node) (s v a : Nat) :
    dbvOf (n.bumpDbv s v) a = if a = s then Nat.max (dbvOf n s) v else dbvOf n a := by
  unfold Node.bumpDbv
  split
  · rename_i h
    rw [any_key_eq] at h
    rw [dbvOf_eq, dbvOf_eq, dbvOf_eq]
    simp only
    rw [alook_map_replace n.dbv s (fun e => Nat.max e.2 v) a]
    by_cases ha : a = s
    · subst ha
      rw [if_pos rfl, if_pos rfl]
      cases hf : n.dbv.find? (·.1 = a) with
      | none => simp [alook, hf] at h
      | some e => simp [alook, hf]
    · rw [if_neg ha, if_neg ha]
  · rename_i h
    rw [any_key_eq] at h
    have hn : alook n.dbv s = none := by
      cases hx : alook n.dbv s with
      | none => rfl
      | some x => simp [hx] at h
    rw [dbvOf_eq, dbvOf_eq, dbvOf_eq]
    simp only
    by_cases ha : a = s
    · subst ha
      rw [if_pos rfl, alook_insertSortedBy_same _ _ _ hn, hn]
      simp
    · rw [if_neg ha, alook_insertSortedBy_other _ _ _ _ ha]

theorem dbvOf_mergeChanges (n : Node) (cs : List Chg) (s v : Nat)
    (hcs : ∀ c ∈ cs, c.site = s ∧ c.dbv = v) (a : Nat) :
    dbvOf (n.mergeChanges cs) a =
      if a = s ∧ cs ≠ [] then Nat.max (dbvOf n s) v else dbvOf n a := by
  induction cs generalizing n with
  | nil => simp [mergeChanges_nil]
  | cons c cs ih =>
    rw [mergeChanges_cons, ih _ (fun c' hc' => hcs c' (by simp [hc']))]
    have hc := hcs c (by simp)
    have hd : ∀ b, dbvOf ({ (n.bumpDbv c.site c.dbv) with db := merge n.db c } : Node) b =
        dbvOf (n.bumpDbv c.site c.dbv) b := fun _ => rfl
    rw [hd, hd, dbvOf_bumpDbv, dbvOf_bumpDbv, hc.1, hc.2]
    have hmax : ∀ x y : Nat, Nat.max x y = max x y := fun _ _ => rfl
    by_cases ha : a = s
    · subst ha
      simp only [true_and, if_true, ne_eq, reduceCtorEq, not_false_eq_true, hmax]
      split <;> omega
    · simp [ha]

end Corro.Node
