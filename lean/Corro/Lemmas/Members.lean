/-
Helper lemmas for C18 (`Corro/Props/C18.lean`): association-list facts, what `recalc` touches,
and the one-step preservation of the invariants of `Corro.Members`.
-/
import Corro.Model.Members

namespace Corro.Members

variable {cfg : Cfg}

/-! ### association lists -/

theorem get_put {α : Type} (k : Nat) (v : α) (m : Map α) (k' : Nat) :
    get (put k v m) k' = if k = k' then some v else get m k' := by
  induction m with
  | nil => simp [put, get]
  | cons h t ih =>
    obtain ⟨hk, hv⟩ := h
    simp only [put, get]
    split
    · simp only [get]
    · split
      · simp only [get]; grind
      · simp only [get, ih]; grind

theorem get_del {α : Type} (k : Nat) (m : Map α) (k' : Nat) :
    get (del k m) k' = if k = k' then none else get m k' := by
  induction m with
  | nil => simp [del, get]
  | cons h t ih =>
    obtain ⟨hk, hv⟩ := h
    simp only [del, get]
    split
    · grind
    · simp only [get, ih]; grind

/-- keys strictly increasing (what a `BTreeMap` iteration yields) -/
def Sorted {α : Type} (m : Map α) : Prop := (m.map Prod.fst).Pairwise (· < ·)

theorem keys_put {α : Type} (k : Nat) (v : α) (m : Map α) :
    ∀ x ∈ (put k v m).map Prod.fst, x = k ∨ x ∈ m.map Prod.fst := by
  induction m with
  | nil => simp [put]
  | cons h t ih =>
    obtain ⟨hk, hv⟩ := h
    intro x hx
    simp only [put] at hx
    split at hx
    · simp at hx ⊢; grind
    · split at hx
      · simp at hx ⊢; grind
      · simp only [List.map_cons, List.mem_cons] at hx ⊢
        rcases hx with hx | hx
        · grind
        · have := ih x hx; grind

theorem keys_del {α : Type} (k : Nat) (m : Map α) :
    ∀ x ∈ (del k m).map Prod.fst, x ∈ m.map Prod.fst := by
  induction m with
  | nil => simp [del]
  | cons h t ih =>
    obtain ⟨hk, hv⟩ := h
    intro x hx
    simp only [del] at hx
    split at hx
    · have := ih x hx; simp only [List.map_cons, List.mem_cons]; exact Or.inr this
    · simp only [List.map_cons, List.mem_cons] at hx ⊢
      rcases hx with hx | hx
      · exact Or.inl hx
      · exact Or.inr (ih x hx)

theorem sorted_put {α : Type} (k : Nat) (v : α) (m : Map α) (h : Sorted m) : Sorted (put k v m) := by
  induction m with
  | nil => simp [put, Sorted]
  | cons hd t ih =>
    obtain ⟨hk, hv⟩ := hd
    simp only [Sorted, List.map_cons, List.pairwise_cons] at h
    obtain ⟨h1, h2⟩ := h
    simp only [put]
    split
    · simp only [Sorted, List.map_cons, List.pairwise_cons, List.mem_cons]
      refine ⟨?_, h1, h2⟩
      intro x hx
      rcases hx with hx | hx
      · omega
      · have := h1 x hx; omega
    · split
      · subst_vars
        simp only [Sorted, List.map_cons, List.pairwise_cons]
        exact ⟨h1, h2⟩
      · simp only [Sorted, List.map_cons, List.pairwise_cons]
        refine ⟨?_, ih h2⟩
        intro x hx
        rcases keys_put k v t x hx with hx | hx
        · omega
        · exact h1 x hx

theorem sorted_del {α : Type} (k : Nat) (m : Map α) (h : Sorted m) : Sorted (del k m) := by
  induction m with
  | nil => simp [del, Sorted]
  | cons hd t ih =>
    obtain ⟨hk, hv⟩ := hd
    simp only [Sorted, List.map_cons, List.pairwise_cons] at h
    obtain ⟨h1, h2⟩ := h
    simp only [del]
    split
    · exact ih h2
    · simp only [Sorted, List.map_cons, List.pairwise_cons]
      exact ⟨fun x hx => h1 x (keys_del k t x hx), ih h2⟩

theorem mem_of_get {α : Type} (m : Map α) (k : Nat) (v : α) (h : get m k = some v) : (k, v) ∈ m := by
  induction m with
  | nil => simp [get] at h
  | cons hd t ih =>
    obtain ⟨hk, hv⟩ := hd
    simp only [get] at h
    split at h
    · subst_vars; simp at h; subst h; simp
    · exact List.mem_cons_of_mem _ (ih h)

theorem get_of_mem {α : Type} (m : Map α) (k : Nat) (v : α) (hs : Sorted m) (h : (k, v) ∈ m) :
    get m k = some v := by
  induction m with
  | nil => simp at h
  | cons hd t ih =>
    obtain ⟨hk, hv⟩ := hd
    simp only [Sorted, List.map_cons, List.pairwise_cons] at hs
    obtain ⟨h1, h2⟩ := hs
    simp only [List.mem_cons, Prod.mk.injEq] at h
    simp only [get]
    rcases h with ⟨rfl, rfl⟩ | h
    · simp
    · have : hk < k := h1 k (List.mem_map.mpr ⟨(k, v), h, rfl⟩)
      rw [if_neg (by omega)]
      exact ih h2 h

/-! ### `recalc` only touches the ring of the indexed member -/

@[simp] theorem recalc_byAddr (m : Members) (a : Nat) : (recalc cfg m a).byAddr = m.byAddr := by
  unfold recalc; repeat (first | rfl | split)

@[simp] theorem recalc_rtts (m : Members) (a : Nat) : (recalc cfg m a).rtts = m.rtts := by
  unfold recalc; repeat (first | rfl | split)

@[simp] theorem view_recalc (m : Members) (a id : Nat) : view (recalc cfg m a) id = view m id := by
  unfold recalc
  split
  · rfl
  · split
    · rfl
    · split
      · rfl
      · rename_i id0 _ _ _ st hst
        simp only [view, get_put]
        split
        · subst_vars; simp [hst]
        · rfl

theorem recalc_other (m : Members) (a id : Nat) (h : get m.byAddr a ≠ some id) :
    get (recalc cfg m a).states id = get m.states id := by
  cases hb : get m.byAddr a with
  | none => simp only [recalc, hb]
  | some id0 =>
    have hne : id0 ≠ id := by intro e; subst e; exact h hb
    cases ha : (get m.rtts a).bind avgOf with
    | none => simp only [recalc, hb, ha]
    | some avg =>
      cases hs : get m.states id0 with
      | none => simp only [recalc, hb, ha, hs]
      | some st => simp only [recalc, hb, ha, hs, get_put, if_neg hne]

theorem avg_getD (r : Map (List Nat)) (a : Nat) : (get r a).bind avgOf = avgOf ((get r a).getD []) := by
  cases get r a <;> simp [avgOf]

/-- the ring after a recalculation that found the member: unchanged without samples, else the bucket -/
def newRing (cfg : Cfg) (old : Option Nat) (buf : List Nat) : Option Nat :=
  match avgOf buf with
  | none => old
  | some avg => findBucket cfg.buckets avg 0

theorem recalc_hit (m : Members) (a id : Nat) (st : MemberState)
    (h1 : get m.byAddr a = some id) (h2 : get m.states id = some st) :
    get (recalc cfg m a).states id =
      some { st with ring := newRing cfg st.ring ((get m.rtts a).getD []) } := by
  have ha := avg_getD m.rtts a
  cases hv : avgOf ((get m.rtts a).getD []) with
  | none => rw [hv] at ha; simp [recalc, h1, ha, h2, newRing, hv]
  | some avg => rw [hv] at ha; simp [recalc, h1, ha, h2, newRing, hv, get_put]

theorem sorted_recalc (m : Members) (a : Nat) (h : Sorted m.states) : Sorted (recalc cfg m a).states := by
  unfold recalc
  repeat (first | exact h | exact sorted_put _ _ _ h | split)

/-! ### what each operation does to the view `(addr, ts, cluster)` and to the index -/

theorem get_dropIndex (ba : Map Nat) (a id a' : Nat) :
    get (dropIndex ba a id) a' = if a = a' ∧ get ba a = some id then none else get ba a' := by
  unfold dropIndex
  split
  · rename_i h; simp [get_del, h]
  · rename_i h; simp [h]

theorem view_addMember (m : Members) (id a ts c id' : Nat) :
    view (addMember cfg m id a ts c).1 id' =
      if id = id' then
        (match view m id with
         | none => some (a, ts, c)
         | some v => if ts < v.2.1 then some v else if v.2.1 < ts then some (a, ts, c) else some v)
      else view m id' := by
  cases hs : get m.states id with
  | none =>
    simp only [addMember, hs, view_recalc]
    simp only [view, get_put, hs]
    split <;> simp
  | some st =>
    simp only [addMember, hs]
    split
    · simp only [view, hs]; split
      · subst_vars; simp [*]
      · rfl
    · split
      · split
        · simp only [view_recalc]
          simp only [view, get_put, hs]
          split <;> simp [*]
        · simp only [view, get_put, hs]
          split <;> simp [*]
      · simp only [view, hs]; split
        · subst_vars; simp [*]
        · rfl

theorem view_removeMember (m : Members) (id ts id' : Nat) :
    view (removeMember m id ts).1 id' =
      if id = id' then
        (match view m id with
         | none => none
         | some v => if v.2.1 ≤ ts then none else some v)
      else view m id' := by
  cases hs : get m.states id with
  | none =>
    simp only [removeMember, hs, view]
    split
    · subst_vars; simp [hs]
    · rfl
  | some st =>
    simp only [removeMember, hs]
    split
    · simp only [view, get_del, hs]
      split <;> simp [*]
    · simp only [view, hs]; split
      · subst_vars; simp [*]
      · rfl

@[simp] theorem view_addRtt (m : Members) (a ms id : Nat) : view (addRtt cfg m a ms) id = view m id := by
  simp only [addRtt, view_recalc]; rfl

theorem byAddr_addMember (m : Members) (id a ts c : Nat) :
    (addMember cfg m id a ts c).1.byAddr =
      match get m.states id with
      | none => put a id m.byAddr
      | some st =>
        if st.ts < ts ∧ st.addr ≠ a then put a id (dropIndex m.byAddr st.addr id) else m.byAddr := by
  cases hs : get m.states id with
  | none => simp [addMember, hs]
  | some st =>
    simp only [addMember, hs]
    split
    · rw [if_neg (by omega)]
    · split
      · split
        · simp [*]
        · simp [*]
      · rw [if_neg (by omega)]

theorem byAddr_removeMember (m : Members) (id ts : Nat) :
    (removeMember m id ts).1.byAddr =
      match get m.states id with
      | none => m.byAddr
      | some st => if st.ts ≤ ts then dropIndex m.byAddr st.addr id else m.byAddr := by
  cases hs : get m.states id with
  | none => simp [removeMember, hs]
  | some st => simp only [removeMember, hs]; split <;> rfl

@[simp] theorem byAddr_addRtt (m : Members) (a ms : Nat) : (addRtt cfg m a ms).byAddr = m.byAddr := by
  simp [addRtt]

/-! ### invariants, one step at a time -/

/-- `IndexSound` phrased through `view` (internal form used by the step lemmas) -/
def K (m : Members) : Prop := ∀ a id, get m.byAddr a = some id → (view m id).map (·.1) = some a

theorem K_iff (m : Members) : K m ↔ IndexSound m := by
  constructor
  · intro h a id hb
    have := h a id hb
    simp only [view] at this
    cases hs : get m.states id with
    | none => simp [hs] at this
    | some st => simp [hs] at this; exact ⟨st, rfl, this⟩
  · intro h a id hb
    obtain ⟨st, h1, h2⟩ := h a id hb
    simp [view, h1, h2]

theorem K_step (m : Members) (op : Op) (h : K m) : K (step cfg m op) := by
  intro a' id' hb
  cases op with
  | up id a ts c =>
    simp only [step, byAddr_addMember] at hb
    simp only [step, view_addMember]
    have h1 := h a' id'
    have h2 := h a' id
    cases hs : get m.states id with
    | none =>
      simp only [hs] at hb
      simp only [view, hs] at h1 h2 ⊢
      grind [get_put]
    | some st =>
      have h3 := h st.addr
      simp only [hs] at hb
      simp only [view, hs] at h1 h2 h3 ⊢
      grind [get_put, get_dropIndex]
  | down id a ts c =>
    simp only [step, byAddr_removeMember] at hb
    simp only [step, view_removeMember]
    have h1 := h a' id'
    have h2 := h a' id
    cases hs : get m.states id with
    | none =>
      simp only [hs] at hb
      simp only [view, hs] at h1 h2 ⊢
      grind
    | some st =>
      simp only [hs] at hb
      simp only [view, hs] at h1 h2 ⊢
      grind [get_dropIndex]
  | rtt a ms => simpa [step] using h a' id' (by simpa [step] using hb)
  | ring0 c => exact h a' id' hb

/-- `IndexComplete` phrased through `view` -/
def B' (m : Members) : Prop := ∀ id v, view m id = some v → get m.byAddr v.1 = some id

/-- `DistinctAddrs` phrased through `view` -/
def D' (m : Members) : Prop :=
  ∀ i j vi vj, view m i = some vi → view m j = some vj → vi.1 = vj.1 → i = j

theorem B'_iff (m : Members) : B' m ↔ IndexComplete m := by
  constructor
  · intro h id st hs
    exact h id (st.addr, st.ts, st.cluster) (by simp [view, hs])
  · intro h id v hv
    simp only [view] at hv
    cases hs : get m.states id with
    | none => simp [hs] at hv
    | some st => simp [hs] at hv; subst hv; exact h id st hs

theorem D'_of_distinct (m : Members) (h : DistinctAddrs m) : D' m := by
  intro i j vi vj hi hj hij
  simp only [view] at hi hj
  cases hsi : get m.states i with
  | none => simp [hsi] at hi
  | some si =>
    cases hsj : get m.states j with
    | none => simp [hsj] at hj
    | some sj =>
      simp [hsi] at hi; simp [hsj] at hj
      subst hi; subst hj
      exact h (i, si) (mem_of_get _ _ _ hsi) (j, sj) (mem_of_get _ _ _ hsj) hij

theorem B'_step (m : Members) (op : Op) (h : B' m) (hD : D' (step cfg m op)) : B' (step cfg m op) := by
  intro id' v' hv'
  have hB1 := h id'
  cases op with
  | up id a ts c =>
    have hD1 := hD id id'
    have hB2 := h id
    simp only [step, view_addMember] at hv' hD1
    simp only [step, byAddr_addMember]
    cases hs : get m.states id with
    | none =>
      simp only [view, hs] at hv' hB1 hB2 hD1 ⊢
      simp only [get_put]
      grind
    | some st =>
      simp only [view, hs] at hv' hB1 hB2 hD1 ⊢
      grind [get_put, get_dropIndex]
  | down id a ts c =>
    have hB2 := h id
    simp only [step, view_removeMember] at hv'
    simp only [step, byAddr_removeMember]
    cases hs : get m.states id with
    | none =>
      simp only [view, hs] at hv' hB1 hB2 ⊢
      grind
    | some st =>
      simp only [view, hs] at hv' hB1 hB2 ⊢
      grind [get_dropIndex]
  | rtt a ms => simp only [step, view_addRtt, byAddr_addRtt] at hv' ⊢; exact hB1 v' hv'
  | ring0 c => exact hB1 v' hv'
@[simp] theorem rtts_addMember (m : Members) (id a ts c : Nat) : (addMember cfg m id a ts c).1.rtts = m.rtts := by
  unfold addMember
  repeat (first | rfl | simp only [recalc_rtts] | split)

@[simp] theorem rtts_removeMember (m : Members) (id ts : Nat) : (removeMember m id ts).1.rtts = m.rtts := by
  unfold removeMember
  repeat (first | rfl | split)

theorem newRing_none (buf : List Nat) : newRing cfg none buf = ringOf cfg buf := by
  simp only [newRing, ringOf]; split <;> simp_all

theorem newRing_nonempty (old : Option Nat) (buf : List Nat) (h : buf ≠ []) : newRing cfg old buf = ringOf cfg buf := by
  simp only [newRing, ringOf, avgOf]
  cases buf with
  | nil => exact absurd rfl h
  | cons x t => simp

theorem pushSample_ne (ms : Nat) (buf : List Nat) : pushSample cfg ms buf ≠ [] := by
  have := cfg.cap_pos
  cases h : cfg.cap with
  | zero => omega
  | succ n => simp [pushSample, h]

theorem J_step (m : Members) (op : Op) (hK : K m) (h : RingCurrent cfg m) : RingCurrent cfg (step cfg m op) := by
  intro id' st' hs' hb'
  have hJ := h id' st'
  cases op with
  | up id a ts c =>
    simp only [step] at hs' hb' ⊢
    simp only [rtts_addMember]
    simp only [byAddr_addMember] at hb'
    cases hs : get m.states id with
    | none =>
      simp only [hs] at hb'
      simp only [addMember, hs] at hs'
      by_cases hid : id' = id
      · subst hid
        rw [recalc_hit _ a id' ⟨a, ts, c, none⟩ (by simp [get_put]) (by simp [get_put])] at hs'
        simp only [Option.some.injEq] at hs'
        subst hs'
        simp [newRing_none]
      · rw [recalc_other _ a id' (by simp [get_put]; omega)] at hs'
        simp only [get_put] at hs' hb'
        grind
    | some st =>
      have hJ2 := h id st hs
      simp only [hs] at hb'
      simp only [addMember, hs] at hs'
      split at hs'
      · grind
      · split at hs'
        · split at hs'
          · by_cases hid : id' = id
            · subst hid
              rw [recalc_hit _ a id' ⟨a, ts, c, none⟩ (by simp [get_put]) (by simp [get_put])] at hs'
              simp only [Option.some.injEq] at hs'
              subst hs'
              simp [newRing_none]
            · rw [recalc_other _ a id' (by simp [get_put]; omega)] at hs'
              simp only [get_put] at hs'
              grind [get_put, get_dropIndex]
          · simp only [get_put] at hs'
            grind
        · grind
  | down id a ts c =>
    simp only [step] at hs' hb' ⊢
    simp only [rtts_removeMember]
    simp only [byAddr_removeMember] at hb'
    cases hs : get m.states id with
    | none =>
      simp only [hs] at hb'
      simp only [removeMember, hs] at hs'
      grind
    | some st =>
      simp only [hs] at hb'
      simp only [removeMember, hs] at hs'
      split at hs'
      · simp only [get_del] at hs'
        grind [get_dropIndex]
      · grind
  | rtt a ms =>
    simp only [step, byAddr_addRtt] at hs' hb' ⊢
    simp only [addRtt, recalc_rtts, get_put] at hs' ⊢
    by_cases hba : get m.byAddr a = some id'
    · have hv := view_recalc (cfg := cfg) { m with rtts := put a (pushSample cfg ms ((get m.rtts a).getD [])) m.rtts } a id'
      have hk := hK a id' hba
      cases hs0 : get m.states id' with
      | none => simp [view, hs', hs0] at hv
      | some st0 =>
        rw [recalc_hit { m with rtts := put a (pushSample cfg ms ((get m.rtts a).getD [])) m.rtts } a id' st0 hba hs0] at hs'
        simp only [Option.some.injEq] at hs'
        simp only [view, hs0] at hk
        subst hs'
        simp only [get_put]
        simp at hk
        simp [hk, newRing_nonempty _ _ (pushSample_ne _ _)]
    · rw [recalc_other { m with rtts := put a (pushSample cfg ms ((get m.rtts a).getD [])) m.rtts } a id' hba] at hs'
      grind
  | ring0 c => exact h id' st' hs' hb'

/-! ### the member table follows the fold by newest identity, one step at a time -/

theorem agree_step (m : Members) (sp : Map Ident) (op : Op)
    (hA : ∀ id, view m id = specView sp id)
    (hF : ∀ id a ts c e, op = .up id a ts c → get sp id = some e → e.up = false → e.ts ≤ ts) :
    ∀ id', view (step cfg m op) id' = specView (specStep sp op) id' := by
  intro id'
  cases op with
  | up id a ts c =>
    have hA1 := hA id
    have hA2 := hA id'
    have hF1 := hF id a ts c
    simp only [step, view_addMember, specStep]
    simp only [specView] at hA1 hA2 ⊢
    cases he : get sp id with
    | none =>
      simp only [he] at hA1 ⊢
      simp only [get_put, hA1]
      grind
    | some e =>
      have hF2 := hF1 e rfl he
      simp only [he] at hA1 ⊢
      cases hu : e.up with
      | false =>
        simp only [hu] at hA1 hF2 ⊢
        have := hF2 trivial
        simp only [hA1]
        grind [get_put]
      | true =>
        simp only [hu] at hA1 ⊢
        simp only [hA1]
        grind [get_put]
  | down id a ts c =>
    have hA1 := hA id
    have hA2 := hA id'
    simp only [step, view_removeMember, specStep]
    simp only [specView] at hA1 hA2 ⊢
    cases he : get sp id with
    | none =>
      simp only [he] at hA1 ⊢
      simp only [get_put, hA1]
      grind
    | some e =>
      simp only [he] at hA1 ⊢
      cases hu : e.up with
      | false =>
        simp only [hu] at hA1 ⊢
        simp only [hA1]
        grind [get_put]
      | true =>
        simp only [hu] at hA1 ⊢
        simp only [hA1]
        grind [get_put]
  | rtt a ms => simpa [step, specStep] using hA id'
  | ring0 c => simpa [step, specStep] using hA id'

/-- a "down" record of the specification after a step is either the old record or was written by a
down notification about that actor carrying that very timestamp -/
theorem down_entry_origin (sp : Map Ident) (op : Op) (id : Nat) (e : Ident)
    (h : get (specStep sp op) id = some e) (hu : e.up = false) :
    get sp id = some e ∨
      (match op with
       | .down i _ t _ => i = id ∧ t = e.ts
       | _ => False) := by
  cases op with
  | up i a t c =>
    simp only [specStep] at h
    cases he : get sp i with
    | none => simp only [he, get_put] at h; grind
    | some e0 => simp only [he] at h; grind [get_put]
  | down i a t c =>
    simp only [specStep] at h
    cases he : get sp i with
    | none => simp only [he, get_put] at h; grind
    | some e0 => simp only [he] at h; grind [get_put]
  | rtt a ms => exact Or.inl h
  | ring0 c => exact Or.inl h

/-! ### key order -/

theorem sorted_step (m : Members) (op : Op) (h : Sorted m.states) : Sorted (step cfg m op).states := by
  cases op with
  | up id a ts c =>
    simp only [step, addMember]
    repeat (first | exact h | exact sorted_put _ _ _ h | apply sorted_recalc | split)
  | down id a ts c =>
    simp only [step, removeMember]
    repeat (first | exact h | exact sorted_del _ _ h | split)
  | rtt a ms => exact sorted_recalc _ _ h
  | ring0 c => exact h

/-! ### the sample buffers hold the newest 20 samples -/

theorem take_append_take (n : Nat) (l t : List Nat) : (l ++ t.take n).take n = (l ++ t).take n := by
  simp only [List.take_append, List.take_take]
  congr 2
  omega

theorem rtts_step (m : Members) (op : Op) (a : Nat) :
    (get (step cfg m op).rtts a).getD [] =
      match op with
      | .rtt a' ms => if a' = a then pushSample cfg ms ((get m.rtts a).getD []) else (get m.rtts a).getD []
      | _ => (get m.rtts a).getD [] := by
  cases op with
  | up id a' ts c => simp [step]
  | down id a' ts c => simp [step]
  | rtt a' ms =>
    simp only [step, addRtt, recalc_rtts, get_put]
    split
    · subst_vars; simp
    · rfl
  | ring0 c => rfl

theorem rtts_runFrom (a : Nat) : ∀ (ops : List Op) (m : Members),
    ((get m.rtts a).getD []).length ≤ cfg.cap →
    (get (runFrom cfg m ops).rtts a).getD [] =
      ((samplesFor a ops).reverse ++ (get m.rtts a).getD []).take cfg.cap := by
  intro ops
  induction ops with
  | nil =>
    intro m hm
    simp only [runFrom, List.foldl_nil, samplesFor, List.reverse_nil, List.nil_append]
    exact (List.take_of_length_le hm).symm
  | cons op r ih =>
    intro m hm
    have hstep := rtts_step (cfg := cfg) m op a
    have hlen : ((get (step cfg m op).rtts a).getD []).length ≤ cfg.cap := by
      rw [hstep]
      cases op with
      | rtt a' ms =>
        simp only []
        split
        · simp only [pushSample, List.length_take]; omega
        · exact hm
      | up _ _ _ _ => exact hm
      | down _ _ _ _ => exact hm
      | ring0 _ => exact hm
    have := ih (step cfg m op) hlen
    simp only [runFrom, List.foldl_cons] at this ⊢
    rw [this, hstep]
    cases op with
    | rtt a' ms =>
      simp only [samplesFor]
      split
      · simp only [pushSample, List.reverse_cons, List.append_assoc, List.singleton_append]
        exact take_append_take _ _ _
      · rfl
    | up _ _ _ _ => rfl
    | down _ _ _ _ => rfl
    | ring0 _ => rfl

/-! ### `ring0` -/

theorem mem_ring0 (m : Members) (c a : Nat) :
    a ∈ ring0 m c ↔ ∃ kv ∈ m.states, kv.2.addr = a ∧ kv.2.cluster = c ∧ kv.2.ring = some 0 := by
  simp only [ring0, List.mem_filterMap]
  constructor
  · rintro ⟨kv, hkv, h⟩
    refine ⟨kv, hkv, ?_⟩
    cases hr : kv.2.ring with
    | none => simp [hr] at h
    | some r =>
      simp only [hr] at h
      split at h
      · rename_i hc; simp at h; exact ⟨h, hc.1, by rw [hc.2]⟩
      · simp at h
  · rintro ⟨kv, hkv, h1, h2, h3⟩
    exact ⟨kv, hkv, by simp [h3, h2, h1]⟩

theorem findBucket_ge (bs : List (Nat × Nat)) (avg : Nat) : ∀ i j, findBucket bs avg i = some j → i ≤ j := by
  induction bs with
  | nil => intro i j h; simp [findBucket] at h
  | cons b t ih =>
    obtain ⟨lo, hi⟩ := b
    intro i j h
    simp only [findBucket] at h
    split at h
    · simp at h; omega
    · have := ih (i + 1) j h; omega

theorem findBucket_zero_iff (bs : List (Nat × Nat)) (avg : Nat) :
    findBucket bs avg 0 = some 0 ↔ inFirstBucket bs avg := by
  cases bs with
  | nil => simp [findBucket, inFirstBucket]
  | cons b t =>
    obtain ⟨lo, hi⟩ := b
    simp only [findBucket, inFirstBucket]
    constructor
    · intro h
      split at h
      · assumption
      · have := findBucket_ge _ _ _ _ h; omega
    · intro h
      rw [if_pos h]

theorem ringOf_zero_iff (buf : List Nat) :
    ringOf cfg buf = some 0 ↔ buf ≠ [] ∧ inFirstBucket cfg.buckets (buf.sum / buf.length) := by
  cases buf with
  | nil => simp [ringOf, avgOf]
  | cons x t =>
    simp only [ringOf, avgOf, List.isEmpty_cons, Bool.false_eq_true, if_false, findBucket_zero_iff]
    simp
/-! ### from steps to whole sequences -/

theorem runFrom_cons (m : Members) (op : Op) (r : List Op) :
    runFrom cfg m (op :: r) = runFrom cfg (step cfg m op) r := rfl

theorem invariant_runFrom (P : Members → Prop) (hstep : ∀ m op, P m → P (step cfg m op)) :
    ∀ (ops : List Op) (m : Members), P m → P (runFrom cfg m ops) := by
  intro ops
  induction ops with
  | nil => intro m h; exact h
  | cons op r ih => intro m h; exact ih (step cfg m op) (hstep m op h)

theorem K_run (ops : List Op) : K (run cfg ops) :=
  invariant_runFrom K K_step ops init (by intro a id h; simp [init, get] at h)

theorem sorted_run (ops : List Op) : Sorted (run cfg ops).states :=
  invariant_runFrom (fun m => Sorted m.states) sorted_step ops init (by simp [init, Sorted])

theorem ringCurrent_run (ops : List Op) : RingCurrent cfg (run cfg ops) := by
  have : K (run cfg ops) ∧ RingCurrent cfg (run cfg ops) :=
    invariant_runFrom (fun m => K m ∧ RingCurrent cfg m)
      (fun m op h => ⟨K_step m op h.1, J_step m op h.1 h.2⟩) ops init
      ⟨by intro a id h; simp [init, get] at h, by intro id st h; simp [init, get] at h⟩
  exact this.2

theorem B'_runFrom : ∀ (ops : List Op) (m : Members), B' m →
    (∀ k, k ≤ ops.length → D' (runFrom cfg m (ops.take k))) → B' (runFrom cfg m ops) := by
  intro ops
  induction ops with
  | nil => intro m h _; exact h
  | cons op r ih =>
    intro m h hD
    have h1 : D' (step cfg m op) := by simpa [runFrom] using hD 1 (by simp)
    refine ih (step cfg m op) (B'_step m op h h1) ?_
    intro k hk
    have := hD (k + 1) (by simp; omega)
    simpa [runFrom] using this

theorem agree_fold : ∀ (ops : List Op) (m : Members) (sp : Map Ident),
    (∀ id, view m id = specView sp id) →
    (∀ id e, get sp id = some e → e.up = false →
      ∀ o ∈ ops, ∀ a t c, o = Op.up id a t c → e.ts ≤ t) →
    Admissible ops →
    ∀ id, view (ops.foldl (step cfg) m) id = specView (ops.foldl specStep sp) id := by
  intro ops
  induction ops with
  | nil => intro m sp hA _ _; exact hA
  | cons op r ih =>
    intro m sp hA hF hadm
    simp only [Admissible, List.pairwise_cons] at hadm
    obtain ⟨hhead, htail⟩ := hadm
    simp only [List.foldl_cons]
    refine ih (step cfg m op) (specStep sp op) ?_ ?_ htail
    · exact agree_step m sp op hA
        (fun id a ts c e hop he hu => hF id e he hu op (List.mem_cons_self ..) a ts c hop)
    · intro id e he hu o ho a t c hop
      rcases down_entry_origin sp op id e he hu with h0 | hd
      · exact hF id e h0 hu o (List.mem_cons_of_mem _ ho) a t c hop
      · cases op with
        | down i a' t' c' =>
          simp only at hd
          have := hhead o ho
          subst hop
          simp only [upRespectsDown, hd.1, bne_self_eq_false, Bool.false_or, decide_eq_true_eq] at this
          omega
        | up _ _ _ _ => exact absurd hd (by simp)
        | rtt _ _ => exact absurd hd (by simp)
        | ring0 _ => exact absurd hd (by simp)

theorem distinct_of_D' (m : Members) (hs : Sorted m.states) (h : D' m) : DistinctAddrs m := by
  intro kv hkv kv' hkv' heq
  have h1 := get_of_mem m.states kv.1 kv.2 hs hkv
  have h2 := get_of_mem m.states kv'.1 kv'.2 hs hkv'
  exact h kv.1 kv'.1 (kv.2.addr, kv.2.ts, kv.2.cluster) (kv'.2.addr, kv'.2.ts, kv'.2.cluster)
    (by simp [view, h1]) (by simp [view, h2]) heq

/-! ### a notification about one actor leaves the other entries alone -/

theorem get_states_addMember_other (m : Members) (id a ts c id' : Nat) (hne : id ≠ id') :
    get (addMember cfg m id a ts c).1.states id' = get m.states id' := by
  unfold addMember
  split
  · simp only []
    rw [recalc_other _ a id' (by simp [get_put]; omega)]
    simp [get_put, hne]
  · split
    · rfl
    · split
      · split
        · simp only []
          rw [recalc_other _ a id' (by simp [get_put]; omega)]
          simp [get_put, hne]
        · simp [get_put, hne]
      · rfl

theorem get_states_removeMember_other (m : Members) (id ts id' : Nat) (hne : id ≠ id') :
    get (removeMember m id ts).1.states id' = get m.states id' := by
  unfold removeMember
  split
  · rfl
  · split
    · simp [get_del, hne]
    · rfl

/-! ### what the specification fold means: newest timestamp, last notification, origin of the address -/

def SpecInv (sp : Map Ident) (M : Nat → Option Nat) (L : Nat → Nat → Option Bool) : Prop :=
  ∀ id, (get sp id).map (·.ts) = M id ∧ ∀ e, get sp id = some e → L id e.ts = some e.up

theorem specInv_step (sp : Map Ident) (M : Nat → Option Nat) (L : Nat → Nat → Option Bool) (op : Op)
    (h : SpecInv sp M L) :
    SpecInv (specStep sp op) (fun id => maxStep id (M id) op) (fun id t => lastStep id t (L id t) op) := by
  intro id
  have h1 := h id
  cases op with
  | up i a t c =>
    have h2 := h i
    simp only [specStep, maxStep, lastStep]
    cases he : get sp i with
    | none => simp only [he] at h2 ⊢; grind [get_put]
    | some e0 => simp only [he] at h2 ⊢; grind [get_put]
  | down i a t c =>
    have h2 := h i
    simp only [specStep, maxStep, lastStep]
    cases he : get sp i with
    | none => simp only [he] at h2 ⊢; grind [get_put]
    | some e0 => simp only [he] at h2 ⊢; grind [get_put]
  | rtt a ms => exact h1
  | ring0 c => exact h1

theorem specInv_fold : ∀ (ops : List Op) (sp : Map Ident) (M : Nat → Option Nat) (L : Nat → Nat → Option Bool),
    SpecInv sp M L →
    SpecInv (ops.foldl specStep sp) (fun id => ops.foldl (maxStep id) (M id))
      (fun id t => ops.foldl (lastStep id t) (L id t)) := by
  intro ops
  induction ops with
  | nil => intro sp M L h; exact h
  | cons op r ih =>
    intro sp M L h
    exact ih _ _ _ (specInv_step sp M L op h)

/-- the identity part of a record -/
def identOf (e : Ident) : Nat × Nat × Nat := (e.ts, e.addr, e.cluster)

theorem origin_step (sp : Map Ident) (op : Op) (id : Nat) (e : Ident)
    (he : get (specStep sp op) id = some e) :
    (get sp id).map identOf = some (identOf e) ∨ op = .up id e.addr e.ts e.cluster ∨
      op = .down id e.addr e.ts e.cluster := by
  cases op with
  | up i a t c =>
    simp only [specStep] at he
    cases hg : get sp i with
    | none => simp only [hg, get_put] at he; grind [identOf]
    | some e0 => simp only [hg] at he; grind [get_put, identOf]
  | down i a t c =>
    simp only [specStep] at he
    cases hg : get sp i with
    | none => simp only [hg, get_put] at he; grind [identOf]
    | some e0 => simp only [hg] at he; grind [get_put, identOf]
  | rtt a ms => left; simp only [specStep] at he; simp [he]
  | ring0 c => left; simp only [specStep] at he; simp [he]

/-- every record of the specification carries the (timestamp, address, cluster) of some notification
about that actor in the sequence folded so far -/
def Origin (sp : Map Ident) (pre : List Op) : Prop :=
  ∀ id e, get sp id = some e →
    Op.up id e.addr e.ts e.cluster ∈ pre ∨ Op.down id e.addr e.ts e.cluster ∈ pre

theorem origin_snoc (sp : Map Ident) (pre : List Op) (op : Op) (h : Origin sp pre) :
    Origin (specStep sp op) (pre ++ [op]) := by
  intro id e he
  rcases origin_step sp op id e he with h0 | h0 | h0
  · cases hg : get sp id with
    | none => simp [hg] at h0
    | some e0 =>
      simp [hg, identOf] at h0
      have := h id e0 hg
      simp only [h0.1, h0.2.1, h0.2.2] at this
      simp only [List.mem_append]
      rcases this with h1 | h1
      · exact Or.inl (Or.inl h1)
      · exact Or.inr (Or.inl h1)
  · subst h0; simp
  · subst h0; simp

theorem origin_fold : ∀ (ops pre : List Op) (sp : Map Ident), Origin sp pre →
    Origin (ops.foldl specStep sp) (pre ++ ops) := by
  intro ops
  induction ops with
  | nil => intro pre sp h; simpa using h
  | cons op r ih =>
    intro pre sp h
    have := ih (pre ++ [op]) (specStep sp op) (origin_snoc sp pre op h)
    simpa using this


theorem agreeOnIdentity_down_up (id a t c : Nat) (op : Op) :
    agreeOnIdentity (.down id a t c) op = agreeOnIdentity (.up id a t c) op := rfl

theorem first_step (sp1 sp2 : Map Ident) (op : Op)
    (hext : ∀ id, get sp1 id = get sp2 id)
    (hO : ∀ id e, get sp1 id = some e → agreeOnIdentity (.up id e.addr e.ts e.cluster) op = true) :
    ∀ id, get (specStep sp1 op) id = get (specStepFirst sp2 op) id := by
  intro id
  have h1 := hext id
  cases op with
  | up i a t c =>
    have h2 := hext i
    have h3 := hO i
    simp only [specStep, specStepFirst]
    rw [← h2]
    cases hg : get sp1 i with
    | none => simp only [get_put, h1]
    | some e =>
      have h4 := h3 e hg
      obtain ⟨ets, eaddr, ecl, eup⟩ := e
      simp only [agreeOnIdentity, notif] at h4
      simp only []
      rw [hg] at h2
      split
      · exact h1
      · split
        · simp only [get_put, h1]
        · cases eup with
          | true => simp only [get_put]; grind
          | false =>
            simp only [get_put, Bool.false_eq_true, if_false]
            have : ets = t := by rename_i hh1 hh2; have a1 : ¬ t < ets := hh1; have a2 : ¬ ets < t := hh2; omega
            simp [this] at h4
            grind
  | down i a t c =>
    have h2 := hext i
    simp only [specStep, specStepFirst]
    rw [← h2]
    cases hg : get sp1 i with
    | none => simp only [get_put, h1]
    | some e =>
      simp only []
      split
      · exact h1
      · split <;> simp only [get_put, h1]
  | rtt a ms => exact h1
  | ring0 c => exact h1

theorem first_fold : ∀ (ops pre : List Op) (sp1 sp2 : Map Ident),
    (∀ id, get sp1 id = get sp2 id) → Origin sp1 pre → TsDeterminesIdentity (pre ++ ops) →
    ∀ id, get (ops.foldl specStep sp1) id = get (ops.foldl specStepFirst sp2) id := by
  intro ops
  induction ops with
  | nil => intro pre sp1 sp2 h _ _; exact h
  | cons op r ih =>
    intro pre sp1 sp2 hext hO hT
    simp only [List.foldl_cons]
    refine ih (pre ++ [op]) _ _ (first_step sp1 sp2 op hext ?_) (origin_snoc sp1 pre op hO) (by simpa using hT)
    intro id e he
    have hop : op ∈ pre ++ op :: r := by simp
    rcases hO id e he with h | h
    · exact hT _ (by simp [h]) op hop
    · rw [← agreeOnIdentity_down_up]; exact hT _ (by simp [h]) op hop

end Corro.Members
