/-
Helper lemmas for C02, part 6: the bookkeeping against the *history* of operations — which versions
were ever handed to `insert_db` (`Touched`), which were inserted as complete/cleared changesets
(`Completed`) — so that "held" has a meaning that does not come from the state itself.
-/
import Corro.Lemmas.BookReach

namespace Corro.Book
open Corro Corro.RSet

theorem isComplete_iff {p : Partial} (hw : WF p.seqs) :
    p.isComplete = true ↔ ∀ q, q ≤ p.last → Mem p.seqs q := by
  unfold Partial.isComplete Partial.fullRange
  constructor
  · intro hc q hq
    have hnil : p.seqs.gaps (0, p.last) = [] := by simpa using hc
    by_cases hm : Mem p.seqs q
    · exact hm
    · have := (mem_gaps p.seqs 0 p.last q 0 hw).mpr ⟨⟨Nat.zero_le _, hq⟩, hm⟩
      rw [hnil] at this
      exact absurd this (mem_nil q)
  · intro hall
    cases hg : p.seqs.gaps (0, p.last) with
    | nil => rfl
    | cons r t =>
      exfalso
      have hin := gaps_inside p.seqs 0 p.last 0 hw r (by rw [hg]; simp)
      have hm : Mem (p.seqs.gaps (0, p.last)) r.1 := by
        rw [hg]; exact ⟨r, by simp, Nat.le_refl _, hin.2.1⟩
      have := (mem_gaps p.seqs 0 p.last r.1 0 hw).mp hm
      exact this.2 (hall r.1 (by omega))

/-! ### what one executed operation hands to `insert_db` -/

/-- versions that operation `op`, executed in state `st`, passes through `insert_db`
(a partial chunk that is skipped, invalid or rolled back touches nothing) -/
def touchedBy (st : Node) : Op → Nat → Prop
  | .ins rs, x => ∃ r ∈ rs, r.1 ≤ x ∧ x ≤ r.2
  | .part v seqs last, x => x = v ∧ ∃ st', opPartial st v seqs last = .done st'
  | .reload, _ => False

/-- versions touched by running `ops` from `st` -/
def Touched : Node → List Op → Nat → Prop
  | _, [], _ => False
  | st, op :: t, x => touchedBy st op x ∨ Touched (step st op) t x

theorem supHi_single (v : Nat) : supHi [(v, v)] = v := by simp [supHi]

/-- what one chunk does: nothing (already known / inverted range), or it is accepted — as a cleared
version when it spans `0..=last_seq` (it carries no changes), as a buffered part otherwise -/
theorem opPartial_cases {L : Nat → Nat} {st : Node} (h : Inv L st) {v : Nat} (seqs : Nat × Nat) (hv : 1 ≤ v) :
    (step st (.part v seqs (L v)) = st ∧ ¬ ∃ st', opPartial st v seqs (L v) = .done st') ∨
    (∃ st', opPartial st v seqs (L v) = .done st' ∧ step st (.part v seqs (L v)) = st' ∧
      containsAll st.book (v, v) (some seqs) = false ∧ Inv L st' ∧
      st'.book.max.getD 0 = max (st.book.max.getD 0) v ∧
      (∀ x, Mem st'.book.needed x ↔
        (Mem st.book.needed x ∨ (st.book.max.getD 0 + 1 ≤ x ∧ x ≤ v)) ∧ x ≠ v) ∧
      (st'.book.partials = st.book.partials.filter (fun e => !coveredBy [(v, v)] e.1) ∨
       (seqs.1 ≤ seqs.2 ∧ st'.book.partials =
          pmPut st.book.partials v ⟨RSet.insert (seqsOf st.book.partials v) seqs, L v⟩))) := by
  by_cases hc : containsAll st.book (v, v) (some seqs) = true
  · left
    have ho : opPartial st v seqs (L v) = .skipped := by simp only [opPartial, hc, if_true]
    refine ⟨by simp only [step, ho], ?_⟩
    rintro ⟨st', hd⟩; rw [ho] at hd; cases hd
  · have hcf : containsAll st.book (v, v) (some seqs) = false := by simpa using hc
    by_cases hw : seqs.1 = 0 ∧ seqs.2 = L v
    · right
      obtain ⟨st', e1, e2, e3, e4, e5⟩ := wholeVersions_inv h (rs := [(v, v)]) (by simp)
        (by intro r hr; simp at hr; subst hr; exact ⟨hv, Nat.le_refl _⟩)
      have ho : opPartial st v seqs (L v) = .done st' := by
        simp only [opPartial, hc, hw, Bool.false_eq_true, if_false, and_self, if_true, e1]
      refine ⟨st', ho, by simp only [step, ho], hcf, e2, ?_, ?_, Or.inl e4⟩
      · rw [e3, supHi_single]; rfl
      · intro x
        rw [e5 x, supHi_single]
        simp only [List.mem_singleton, exists_eq_left]
        constructor
        · rintro ⟨a, b⟩; exact ⟨a, by omega⟩
        · rintro ⟨a, b⟩; exact ⟨a, by omega⟩
    · by_cases hi : seqs.2 < seqs.1
      · left
        have ho : opPartial st v seqs (L v) = .invalid := by
          simp only [opPartial, hc, hw, hi, Bool.false_eq_true, if_true, if_false]
        refine ⟨by simp only [step, ho], ?_⟩
        rintro ⟨st', hd⟩; rw [ho] at hd; cases hd
      · right
        obtain ⟨b', mg, e1, e2, e3, e4, e5, e6, e7⟩ := opPartial_inv h (seqs := seqs) hv (by omega)
        have ho : opPartial st v seqs (L v) = .done
            ⟨(insertPartial b' v ⟨[mg], L v⟩).1,
             { st.db with gaps := b'.needed,
                          seqs := seqRowsOf (pmPut st.book.partials v
                            ⟨RSet.insert (seqsOf st.book.partials v) mg, L v⟩) }⟩ := by
          simp only [opPartial, hc, hw, hi, Bool.false_eq_true, if_false, e2, e1]
        refine ⟨_, ho, by simp only [step, ho], hcf, e3, e5, ?_, Or.inr ⟨by omega, e4⟩⟩
        intro x
        show Mem (insertPartial b' v ⟨[mg], L v⟩).1.needed x ↔ _
        rw [e6]; exact e7 x

/-- one step against the history: the head only grows, everything touched is in `1..=head'`,
`needed' = (needed ∪ (head, head']) \ touched`, and a head that moved is a touched version. -/
theorem step_needed {L : Nat → Nat} {st : Node} (h : Inv L st) {op : Op} (hop : OpOk L op) :
    st.book.max.getD 0 ≤ (step st op).book.max.getD 0 ∧
    (∀ x, touchedBy st op x → 1 ≤ x ∧ x ≤ (step st op).book.max.getD 0) ∧
    (∀ x, Mem (step st op).book.needed x ↔
      (Mem st.book.needed x ∨ (st.book.max.getD 0 + 1 ≤ x ∧ x ≤ (step st op).book.max.getD 0)) ∧
        ¬ touchedBy st op x) ∧
    ((step st op).book.max.getD 0 = st.book.max.getD 0 ∨
      touchedBy st op ((step st op).book.max.getD 0)) := by
  cases op with
  | ins rs =>
    obtain ⟨_, hm, _, e5⟩ := opInsert_inv h hop.1 hop.2
    rw [hm]
    refine ⟨by omega, ?_, ?_, ?_⟩
    · rintro x ⟨r, hr, h1, h2⟩
      have := le_supHi hr
      have := (hop.2 r hr).1
      omega
    · intro x
      rw [e5 x]
      simp only [touchedBy]
      constructor
      · rintro ⟨h1 | h1, h2⟩
        · exact ⟨Or.inl h1, h2⟩
        · exact ⟨Or.inr ⟨h1.1, by omega⟩, h2⟩
      · rintro ⟨h1 | h1, h2⟩
        · exact ⟨Or.inl h1, h2⟩
        · refine ⟨?_, h2⟩
          by_cases hx : x ≤ supHi rs
          · exact Or.inr ⟨h1.1, hx⟩
          · omega
    · by_cases hle : supHi rs ≤ st.book.max.getD 0
      · exact Or.inl (by omega)
      · obtain ⟨r, hr, he⟩ := supHi_attained hop.1
        refine Or.inr ⟨r, hr, ?_, by omega⟩
        have := (hop.2 r hr).2; omega
  | part v seqs last =>
    obtain ⟨hv, hl⟩ := hop
    subst hl
    rcases opPartial_cases h seqs hv with ⟨hstep, hnd⟩ | ⟨st', hc, hstep, _, _, e4, e6, _⟩
    · rw [hstep]
      refine ⟨Nat.le_refl _, ?_, ?_, Or.inl rfl⟩
      · rintro x ⟨_, hd⟩; exact absurd hd hnd
      · intro x
        constructor
        · intro hx
          exact ⟨Or.inl hx, fun hh => hnd hh.2⟩
        · rintro ⟨h1 | h1, _⟩
          · exact h1
          · omega
    · rw [hstep, e4]
      have htb : ∀ x, touchedBy st (.part v seqs (L v)) x ↔ x = v := by
        intro x
        simp only [touchedBy]
        constructor
        · exact fun hh => hh.1
        · exact fun hh => ⟨hh, st', hc⟩
      refine ⟨by omega, ?_, ?_, ?_⟩
      · intro x hx; rw [htb] at hx; omega
      · intro x
        rw [e6 x, htb]
        constructor
        · rintro ⟨h1 | h1, h2⟩
          · exact ⟨Or.inl h1, h2⟩
          · exact ⟨Or.inr ⟨h1.1, by omega⟩, h2⟩
        · rintro ⟨h1 | h1, h2⟩
          · exact ⟨Or.inl h1, h2⟩
          · exact ⟨Or.inr ⟨h1.1, by omega⟩, h2⟩
      · by_cases hle : v ≤ st.book.max.getD 0
        · exact Or.inl (by omega)
        · exact Or.inr ((htb _).mpr (by omega))
  | reload =>
    have hstep : step st .reload = st := by
      simp only [step, opReload]; rw [fromConn_eq h]
    rw [hstep]
    refine ⟨Nat.le_refl _, fun x hx => absurd hx (by simp [touchedBy]), ?_, Or.inl rfl⟩
    intro x
    simp only [touchedBy, not_false_eq_true, and_true]
    constructor
    · exact Or.inl
    · rintro (h1 | h1)
      · exact h1
      · omega

/-- the same over a whole run -/
theorem run_needed {L : Nat → Nat} : ∀ (ops : List Op) (st : Node), Inv L st → (∀ op ∈ ops, OpOk L op) →
    st.book.max.getD 0 ≤ (run st ops).book.max.getD 0 ∧
    (∀ x, Touched st ops x → 1 ≤ x ∧ x ≤ (run st ops).book.max.getD 0) ∧
    (∀ x, Mem (run st ops).book.needed x ↔
      (Mem st.book.needed x ∨ (st.book.max.getD 0 + 1 ≤ x ∧ x ≤ (run st ops).book.max.getD 0)) ∧
        ¬ Touched st ops x) ∧
    ((run st ops).book.max.getD 0 = st.book.max.getD 0 ∨
      Touched st ops ((run st ops).book.max.getD 0)) := by
  intro ops
  induction ops with
  | nil =>
    intro st _ _
    refine ⟨Nat.le_refl _, fun x hx => absurd hx (by simp [Touched]), ?_, Or.inl rfl⟩
    intro x
    simp only [run, List.foldl_nil, Touched, not_false_eq_true, and_true]
    constructor
    · exact Or.inl
    · rintro (h1 | h1)
      · exact h1
      · omega
  | cons op t ih =>
    intro st h hops
    have hop := hops op (by simp)
    obtain ⟨s1, s2, s3, s4⟩ := step_needed h hop
    obtain ⟨i1, i2, i3, i4⟩ := ih (step st op) (step_inv h hop) (fun o ho => hops o (by simp [ho]))
    have hrun : run st (op :: t) = run (step st op) t := by simp [run]
    rw [hrun]
    refine ⟨by omega, ?_, ?_, ?_⟩
    · intro x hx
      rcases hx with hx | hx
      · have := s2 x hx; omega
      · exact i2 x hx
    · intro x
      rw [i3 x, s3 x]
      simp only [Touched, not_or]
      constructor
      · rintro ⟨(⟨h1 | h1, h2⟩ | h1), h3⟩
        · exact ⟨Or.inl h1, h2, h3⟩
        · exact ⟨Or.inr ⟨h1.1, by omega⟩, h2, h3⟩
        · refine ⟨Or.inr ⟨by omega, h1.2⟩, ?_, h3⟩
          intro hh; have := s2 x hh; omega
      · rintro ⟨h1 | h1, h2, h3⟩
        · exact ⟨Or.inl ⟨Or.inl h1, h2⟩, h3⟩
        · by_cases hx : x ≤ (step st op).book.max.getD 0
          · exact ⟨Or.inl ⟨Or.inr ⟨h1.1, hx⟩, h2⟩, h3⟩
          · exact ⟨Or.inr ⟨by omega, h1.2⟩, h3⟩
    · rcases i4 with i4 | i4
      · rcases s4 with s4 | s4
        · exact Or.inl (by omega)
        · rw [i4]; exact Or.inr (Or.inl s4)
      · exact Or.inr (Or.inr i4)

/-! ### versions that arrived as a whole (complete / cleared changesets) -/

/-- `x` was covered by a whole-version changeset of `ops` (whether or not the `contains_all` guard
then dropped it as already known) -/
def Completed (ops : List Op) (x : Nat) : Prop :=
  ∃ rs, Op.ins rs ∈ ops ∧ ∃ r ∈ rs, r.1 ≤ x ∧ x ≤ r.2

/-- versions that `op` brings as a whole -/
def completeBy : Op → Nat → Prop
  | .ins rs, x => ∃ r ∈ rs, r.1 ≤ x ∧ x ≤ r.2
  | _, _ => False

/-- every version of `C` is known, not needed, and if buffered as a partial then completely -/
def HeldOk (C : Nat → Prop) (st : Node) : Prop :=
  ∀ x, C x → ¬ Mem st.book.needed x ∧ x ≤ st.book.max.getD 0 ∧
    ∀ p, st.book.partials.lookup x = some p → p.isComplete = true

theorem lookup_pmPut_eq (m : PMap) (v : Nat) (p : Partial) : (pmPut m v p).lookup v = some p := by
  induction m with
  | nil => exact lookup_cons_eq _ _ _
  | cons a t ih =>
    obtain ⟨k, q⟩ := a
    unfold pmPut
    split
    · exact lookup_cons_eq _ _ _
    · split
      · rename_i hk; subst hk; exact lookup_cons_eq _ _ _
      · rename_i hk; rw [lookup_cons_ne hk]; exact ih

theorem lookup_pmPut_ne (m : PMap) {v x : Nat} (p : Partial) (hx : ¬ x = v) :
    (pmPut m v p).lookup x = m.lookup x := by
  induction m with
  | nil => simp only [pmPut]; rw [lookup_cons_ne hx]
  | cons a t ih =>
    obtain ⟨k, q⟩ := a
    unfold pmPut
    split
    · rw [lookup_cons_ne hx]
    · split
      · rename_i hk; subst hk; rw [lookup_cons_ne hx, lookup_cons_ne hx]
      · by_cases hxk : x = k
        · subst hxk; rw [lookup_cons_eq, lookup_cons_eq]
        · rw [lookup_cons_ne hxk, lookup_cons_ne hxk]; exact ih

/-- an entry found in a filtered partial map is the entry of the full map, and passes the filter -/
theorem lookup_filter_some {lb : Nat} {P : PMap} (hk : KeysFrom lb P) {f : Nat × Partial → Bool}
    {x : Nat} {p : Partial} (h : (P.filter f).lookup x = some p) :
    P.lookup x = some p ∧ f (x, p) = true := by
  have hm := List.mem_filter.mp (mem_of_lookup h)
  exact ⟨lookup_of_mem hk hm.1, hm.2⟩

theorem containsAll_single (b : Book) (v : Nat) (s : Option (Nat × Nat)) :
    containsAll b (v, v) s = contains b v s := by
  unfold containsAll
  have : v + 1 - v = 1 := by omega
  simp [this]

theorem heldOk_step {L : Nat → Nat} {st : Node} (h : Inv L st) {op : Op} (hop : OpOk L op)
    {C : Nat → Prop} (hC : HeldOk C st) :
    HeldOk (fun x => C x ∨ completeBy op x) (step st op) := by
  cases op with
  | ins rs =>
    obtain ⟨_, hm, hp, hn⟩ := opInsert_inv h hop.1 hop.2
    intro x hx
    rw [hm, hp, hn x]
    rcases hx with hx | ⟨r, hr, hxr⟩
    · obtain ⟨c1, c2, c3⟩ := hC x hx
      refine ⟨?_, by omega, ?_⟩
      · rintro ⟨h1 | h1, _⟩
        · exact c1 h1
        · omega
      · intro p hpl
        exact c3 p (lookup_filter_some h.keys hpl).1
    · refine ⟨fun hh => hh.2 ⟨r, hr, hxr⟩, ?_, ?_⟩
      · have := le_supHi hr; omega
      · intro p hpl
        obtain ⟨hl, hf⟩ := lookup_filter_some h.keys hpl
        -- the range was not processed (else `x` would be covered): the guard knew it as a whole
        by_cases hg : containsAll st.book r none = true
        · have hcx := containsAll_true hg x hxr.1 hxr.2
          unfold contains at hcx
          rw [hl] at hcx
          simp only [Bool.and_eq_true] at hcx
          exact hcx.2
        · exfalso
          have hin : r ∈ rs.filter (fun r => !containsAll st.book r none) :=
            List.mem_filter.mpr ⟨hr, by simpa using hg⟩
          have hcov : coveredBy (rs.filter (fun r => !containsAll st.book r none)) x = true :=
            (coveredBy_iff _ _).mpr ⟨r, hin, hxr⟩
          simp only [hcov, Bool.not_true] at hf
          cases hf
  | part v seqs last =>
    obtain ⟨hv, hl⟩ := hop
    subst hl
    rcases opPartial_cases h seqs hv with ⟨hstep, _⟩ | ⟨st', _, hstep, hnc, _, e4, e6, hparts⟩
    · rw [hstep]; intro x hx
      rcases hx with hx | hx
      · exact hC x hx
      · cases hx
    · rw [hstep]
      intro x hx
      rcases hx with hx | hx
      · obtain ⟨c1, c2, c3⟩ := hC x hx
        rw [e4, e6 x]
        refine ⟨?_, by omega, ?_⟩
        · rintro ⟨h1 | h1, _⟩
          · exact c1 h1
          · omega
        · intro p hp
          rcases hparts with hparts | ⟨hlh, hparts⟩
          · rw [hparts] at hp
            exact c3 p (lookup_filter_some h.keys hp).1
          · rw [hparts] at hp
            by_cases hxv : x = v
            · subst hxv
              rw [lookup_pmPut_eq] at hp
              cases hp
              -- `x` is known, yet the chunk was not skipped: it is a (complete) partial
              rw [containsAll_single] at hnc
              unfold contains at hnc
              have hcv : containsVersion st.book x = true := (containsVersion_iff _ _).mpr ⟨c1, c2⟩
              rw [hcv] at hnc
              cases hl : st.book.partials.lookup x with
              | none => rw [hl] at hnc; simp at hnc
              | some p0 =>
                have hp0 := c3 p0 hl
                have hpw := h.pwf _ (mem_of_lookup hl)
                have hs0 : seqsOf st.book.partials x = p0.seqs := by simp [seqsOf, hl]
                rw [hs0]
                have hwf' : WF (RSet.insert p0.seqs seqs) := insert_wf _ seqs.1 seqs.2 hlh hpw.1
                apply (isComplete_iff (p := ⟨RSet.insert p0.seqs seqs, L x⟩) hwf').mpr
                intro q hq
                have := (isComplete_iff hpw.1).mp hp0 q (by rw [hpw.2.2]; exact hq)
                show Mem (RSet.insert p0.seqs (seqs.1, seqs.2)) q
                rw [mem_insert _ _ _ _ hlh]
                exact Or.inl this
            · rw [lookup_pmPut_ne _ _ hxv] at hp
              exact c3 p hp
      · cases hx
  | reload =>
    have hstep : step st .reload = st := by
      simp only [step, opReload]; rw [fromConn_eq h]
    rw [hstep]
    intro x hx
    rcases hx with hx | hx
    · exact hC x hx
    · cases hx

theorem heldOk_run {L : Nat → Nat} : ∀ (ops : List Op) (st : Node) (C : Nat → Prop), Inv L st →
    (∀ op ∈ ops, OpOk L op) → HeldOk C st →
    HeldOk (fun x => C x ∨ Completed ops x) (run st ops) := by
  intro ops
  induction ops with
  | nil =>
    intro st C _ _ hC x hx
    rcases hx with hx | ⟨rs, hrs, _⟩
    · exact hC x hx
    · cases hrs
  | cons op t ih =>
    intro st C h hops hC
    have hop := hops op (by simp)
    have h1 := heldOk_step h hop hC
    have h2 := ih (step st op) _ (step_inv h hop) (fun o ho => hops o (by simp [ho])) h1
    have hrun : run st (op :: t) = run (step st op) t := by simp [run]
    rw [hrun]
    intro x hx
    apply h2 x
    rcases hx with hx | ⟨rs, hrs, hx⟩
    · exact Or.inl (Or.inl hx)
    · rcases List.mem_cons.mp hrs with heq | hrs
      · subst heq; exact Or.inl (Or.inr hx)
      · exact Or.inr ⟨rs, hrs, hx⟩

end Corro.Book
