/-
Helper lemmas for C19 (site-table look-ups, ordinal rewriting).  Core only.
-/
import Corro.Model.Backup

namespace Corro.Backup

/-- `ordinal INTEGER PRIMARY KEY` -/
def OrdsKey (sites : List (Nat × Site)) : Prop := ∀ p ∈ sites, ∀ q ∈ sites, p.1 = q.1 → p = q
/-- `CREATE UNIQUE INDEX crsql_site_id_site_id ON crsql_site_id (site_id)` -/
def SitesKey (sites : List (Nat × Site)) : Prop := ∀ p ∈ sites, ∀ q ∈ sites, p.2 = q.2 → p = q

theorem siteOf_eq_none {sites : List (Nat × Site)} {o : Nat} :
    siteOf sites o = none ↔ ∀ p ∈ sites, p.1 ≠ o := by
  unfold siteOf
  simp only [Option.map_eq_none_iff, List.find?_eq_none]
  constructor
  · intro h p hp e; exact h p hp (by simp [e])
  · intro h p hp e; exact h p hp (by simpa using e)

theorem siteOf_some_mem {sites : List (Nat × Site)} {o : Nat} {s : Site}
    (h : siteOf sites o = some s) : (o, s) ∈ sites := by
  unfold siteOf at h
  simp only [Option.map_eq_some_iff] at h
  obtain ⟨p, hp, rfl⟩ := h
  have hm := List.mem_of_find?_eq_some hp
  have he := List.find?_some hp
  have : p.1 = o := by simpa using he
  rw [← this]; exact hm

theorem siteOf_eq_some {sites : List (Nat × Site)} (hk : OrdsKey sites) {o : Nat} {s : Site} :
    siteOf sites o = some s ↔ (o, s) ∈ sites := by
  constructor
  · exact siteOf_some_mem
  · intro hm
    cases h : siteOf sites o with
    | none => exact absurd rfl (siteOf_eq_none.mp h (o, s) hm)
    | some s' =>
      have hm' := siteOf_some_mem h
      have := hk _ hm _ hm' rfl
      simp only [Prod.mk.injEq, true_and] at this
      rw [this]

theorem ordOf_eq_none {sites : List (Nat × Site)} {a : Site} :
    ordOf sites a = none ↔ ∀ p ∈ sites, p.2 ≠ a := by
  unfold ordOf
  simp only [Option.map_eq_none_iff, List.find?_eq_none]
  constructor
  · intro h p hp e; exact h p hp (by simp [e])
  · intro h p hp e; exact h p hp (by simpa using e)

theorem ordOf_some_mem {sites : List (Nat × Site)} {a : Site} {k : Nat}
    (h : ordOf sites a = some k) : (k, a) ∈ sites := by
  unfold ordOf at h
  simp only [Option.map_eq_some_iff] at h
  obtain ⟨p, hp, rfl⟩ := h
  have hm := List.mem_of_find?_eq_some hp
  have he := List.find?_some hp
  have : p.2 = a := by simpa using he
  rw [← this]; exact hm

/-- two look-ups agree as soon as they find the same sites -/
theorem opt_ext {α} {x y : Option α} (h : ∀ s, x = some s ↔ y = some s) : x = y := by
  cases x with
  | none =>
    cases y with
    | none => rfl
    | some b => exact ((h b).mpr rfl)
  | some a => exact ((h a).mp rfl).symm

theorem le_maxOrd {sites : List (Nat × Site)} {p : Nat × Site} (hp : p ∈ sites) : p.1 ≤ maxOrd sites := by
  induction sites with
  | nil => cases hp
  | cons q qs ih =>
    simp only [maxOrd]
    cases hp with
    | head => exact Nat.le_max_left _ _
    | tail _ h => exact Nat.le_trans (ih h) (Nat.le_max_right _ _)

/-- the ordinal SQLite hands out is not in the table, and is not 0 -/
theorem nextOrd_fresh (sites : List (Nat × Site)) :
    (∀ p ∈ sites, p.1 < nextOrd sites) ∧ 0 < nextOrd sites := by
  unfold nextOrd
  split
  · rename_i h
    have : sites = [] := by simpa using h
    subst this
    exact ⟨fun p hp => (nomatch hp), by decide⟩
  · exact ⟨fun p hp => Nat.lt_succ_of_le (le_maxOrd hp), Nat.succ_pos _⟩

theorem mem_rewriteOrd {frm to : Nat} {clock : List ClockRow} {r : ClockRow} :
    r ∈ rewriteOrd frm to clock ↔ ∃ r0 ∈ clock, r = if r0.ord = frm then { r0 with ord := to } else r0 := by
  unfold rewriteOrd
  simp only [List.mem_map]
  constructor
  · rintro ⟨r0, h0, rfl⟩; exact ⟨r0, h0, rfl⟩
  · rintro ⟨r0, h0, rfl⟩; exact ⟨r0, h0, rfl⟩

/-- rewriting ordinals does not change the resolved changes when the new ordinal resolves to what
the old one did and nothing else sits on the new ordinal -/
theorem changes_rewrite (sites sites' : List (Nat × Site)) (frm to : Nat) (clock : List ClockRow)
    (hmoved : siteOf sites' to = siteOf sites frm)
    (hkeep : ∀ r ∈ clock, r.ord ≠ frm → siteOf sites' r.ord = siteOf sites r.ord) :
    (rewriteOrd frm to clock).map (resolve sites') = clock.map (resolve sites) := by
  unfold rewriteOrd
  rw [List.map_map]
  apply List.map_congr_left
  intro r hr
  simp only [Function.comp]
  by_cases h : r.ord = frm
  · simp only [h, if_true, resolve]
    rw [hmoved, ← h]
  · simp only [h, if_false, resolve]
    rw [hkeep r hr h]

theorem changes_same_clock (sites sites' : List (Nat × Site)) (clock : List ClockRow)
    (hkeep : ∀ r ∈ clock, siteOf sites' r.ord = siteOf sites r.ord) :
    clock.map (resolve sites') = clock.map (resolve sites) := by
  apply List.map_congr_left
  intro r hr
  simp only [resolve]
  rw [hkeep r hr]

end Corro.Backup
