/-
Helper lemmas for C04, part 4: within one session nothing is put on the wire twice
(`req_full` / `req_partials` make the requests pairwise disjoint, across servers).
-/
import Corro.Lemmas.NeedsSession

namespace Corro.Needs
open Corro.RSet

/-- two wire entries `(server, actor, need)` do not ask for the same thing: if they concern the
same actor, two `Full` ranges share no version and two `Partial` needs of the same version share
no seq (whichever servers they were sent to). -/
def DisjointReq (e1 e2 : Actor × Actor × Need) : Prop :=
  e1.2.1 = e2.2.1 →
    match e1.2.2, e2.2.2 with
    | .full l1 h1, .full l2 h2 => ∀ x, ¬ ((l1 ≤ x ∧ x ≤ h1) ∧ (l2 ≤ x ∧ x ≤ h2))
    | .part v1 s1, .part v2 s2 => v1 = v2 → ∀ s, ¬ (Mem s1 s ∧ Mem s2 s)
    | _, _ => True

theorem wfFrom_lb {lb : Nat} {s : RSet} (h : WFfrom lb s) : ∀ q ∈ s, lb ≤ q.1 := by
  induction s generalizing lb with
  | nil => intro q hq; cases hq
  | cons p t ih =>
    obtain ⟨a, b⟩ := p
    simp only [WFfrom] at h
    intro q hq
    rcases List.mem_cons.mp hq with h1 | h1
    · subst h1; exact h.1
    · have := ih h.2.2 q h1; omega

/-- the intervals of a canonical set are pairwise disjoint (and ordered) -/
theorem wfFrom_pairwise {lb : Nat} {s : RSet} (h : WFfrom lb s) :
    s.Pairwise (fun p q => p.2 < q.1) := by
  induction s generalizing lb with
  | nil => exact List.Pairwise.nil
  | cons p t ih =>
    obtain ⟨a, b⟩ := p
    simp only [WFfrom] at h
    rw [List.pairwise_cons]
    refine ⟨?_, ih h.2.2⟩
    intro q hq
    have := wfFrom_lb h.2.2 q hq
    simp only; omega

theorem dedupStep_pairwise (st : DState) (hinv : Inv st) (hpw : st.sent.Pairwise DisjointReq)
    (srv : Actor) (it : Item) (hf : it.2.Forward) :
    (dedupStep st srv it).sent.Pairwise DisjointReq := by
  obtain ⟨a0, n0⟩ := it
  cases n0 with
  | full lo hi =>
    have hR := hinv.fullWF a0
    have hnew := mem_newVersions _ hR lo hi hf
    have hnwf := newVersions_wf _ hR lo hi hf
    simp only [dedupStep]
    split
    · exact hpw
    · simp only
      rw [List.pairwise_append]
      refine ⟨hpw, ?_, ?_⟩
      · rw [List.pairwise_map]
        refine List.Pairwise.imp ?_ (wfFrom_pairwise hnwf)
        intro p q hpq _
        simp only
        intro x hx
        omega
      · intro e1 he1 e2 he2
        obtain ⟨v, hv, rfl⟩ := List.mem_map.mp he2
        obtain ⟨s1, a1, n1⟩ := e1
        intro hsame
        simp only at hsame
        subst hsame
        cases n1 with
        | full l1 h1 =>
          simp only
          intro x hx
          have hm : Mem ((aget a1 st.reqFull).getD []) x :=
            (hinv.fullMem a1 x).mpr ⟨s1, l1, h1, he1, hx.1⟩
          exact ((hnew x).mp ⟨v, hv, hx.2⟩).2 hm
        | part _ _ => trivial
  | part v0 seqs =>
    have hR := hinv.partWF a0 v0
    have hnew := mem_newSeqs _ hR seqs hf
    simp only [dedupStep]
    split
    · exact hpw
    · simp only
      rw [List.pairwise_append]
      refine ⟨hpw, List.pairwise_singleton _ _, ?_⟩
      intro e1 he1 e2 he2
      rw [List.mem_singleton] at he2
      subst he2
      obtain ⟨s1, a1, n1⟩ := e1
      intro hsame
      simp only at hsame
      subst hsame
      cases n1 with
      | full _ _ => trivial
      | part v1 sq1 =>
        simp only
        intro hv s hs
        subst hv
        have hm : Mem ((aget (a1, v1) st.reqPartials).getD []) s :=
          (hinv.partMem a1 v1 s).mpr ⟨s1, sq1, he1, hs.1⟩
        exact ((hnew s).mp hs.2).2 hm

theorem sendAll_pairwise (items : List (Actor × Item)) (hfw : ∀ si ∈ items, si.2.2.Forward)
    (st : DState) (hinv : Inv st) (hpw : st.sent.Pairwise DisjointReq) :
    (sendAll st items).sent.Pairwise DisjointReq := by
  induction items generalizing st with
  | nil => exact hpw
  | cons si items ih =>
    obtain ⟨srv, a0, n0⟩ := si
    have hf0 : n0.Forward := hfw (srv, a0, n0) (by simp)
    have hfw' : ∀ si ∈ items, si.2.2.Forward := fun si h => hfw si (by simp [h])
    simp only [sendAll, List.foldl_cons]
    have hinv' : Inv (dedupStep st srv (a0, n0)) := by
      cases n0 with
      | full lo hi => exact (dedupStep_full st hinv srv a0 lo hi hf0).1
      | part v0 seqs => exact (dedupStep_part st hinv srv a0 v0 seqs hf0).1
    exact ih hfw' _ hinv' (dedupStep_pairwise st hinv hpw srv (a0, n0) hf0)

/-- the session never asks twice for the same version / seq, whatever the servers. -/
theorem session_pairwise (k d : Nat) (hk : 1 ≤ k) (hd : 1 ≤ d) (us : SyncState)
    (peers : List SyncState)
    (hfw : ∀ p ∈ peers, ∀ a ns, (a, ns) ∈ computeAvailableNeeds us p → ∀ n ∈ ns, n.Forward) :
    (syncSession k d us peers).Pairwise DisjointReq := by
  apply sendAll_pairwise _ _ DState.empty inv_empty List.Pairwise.nil
  rintro ⟨srv, a, c⟩ hsi
  obtain ⟨q, hq, hc⟩ := (mem_schedule d hd _ _ (Nat.lt_succ_self _) srv (a, c)).mp hsi
  obtain ⟨p, hp, _, _, rfl⟩ := (mem_serversOf k us peers srv q).mp hq
  obtain ⟨ns, hns, n, hn, hcn⟩ := (mem_queueOf k _ a c).mp hc
  exact ((chunkNeed_spec k hk n (hfw p hp a ns hns n hn)).1 c hcn).1

end Corro.Needs
