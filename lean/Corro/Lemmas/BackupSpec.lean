/-
C19 helper lemmas: the effect of `backup` and `adopt` on resolved changes.
-/
import Corro.Lemmas.BackupSites

namespace Corro.Backup

/-- the constraints cr-sqlite's schema puts on a database file: `ordinal` is the primary key of
`crsql_site_id`, `site_id` has a unique index, and every clock row's author ordinal is in the
site table (cr-sqlite allocates the ordinal before it writes the clock row). -/
structure WF (db : Db) : Prop where
  ords : OrdsKey db.sites
  sitesU : SitesKey db.sites
  resolved : ∀ r ∈ db.clock, (siteOf db.sites r.ord).isSome

/-- nobody sits on ordinal 0 and no clock row is attributed to it -/
def ZeroVacant (db : Db) : Prop := siteOf db.sites 0 = none ∧ ∀ r ∈ db.clock, r.ord ≠ 0

theorem backup_eq {db b : Db} (h : backup db = some b) :
    ∃ self, siteOf db.sites 0 = some self ∧
      b = { db with
        sites := backupSites db.sites self
        clock := rewriteOrd 0 (nextOrd (db.sites.filter (fun p => p.1 != 0))) db.clock
        members := 0
        subs := db.subs.map (fun _ => 0)
        consulServices := (dropConsul db.consulServices db.consulChecks).1
        consulChecks := (dropConsul db.consulServices db.consulChecks).2
        wal := true } := by
  unfold backup at h
  simp only [Db.siteOf] at h
  split at h
  · cases h
  · rename_i self hs
    refine ⟨self, hs, ?_⟩
    simp only [Option.some.injEq] at h
    rw [← h]
    rfl

theorem backup_changes {db b : Db} (hwf : WF db) (h : backup db = some b) :
    b.changes = db.changes := by
  obtain ⟨self, h0, rfl⟩ := backup_eq h
  simp only [Db.changes]
  apply changes_rewrite
  · rw [backupSites_moved hwf.ords, h0]
  · intro r hr hne
    exact backupSites_keep hwf.ords hne (hwf.resolved r hr)

theorem backup_zeroVacant {db b : Db} (h : backup db = some b) : ZeroVacant b := by
  obtain ⟨self, h0, rfl⟩ := backup_eq h
  refine ⟨backupSites_zero, ?_⟩
  intro r hr
  simp only at hr
  obtain ⟨r0, _, rfl⟩ := mem_rewriteOrd.mp hr
  have hpos := (nextOrd_fresh (db.sites.filter (fun p => p.1 != 0))).2
  split
  · simp only; omega
  · assumption

theorem backup_wf {db b : Db} (hwf : WF db) (h : backup db = some b) : WF b := by
  obtain ⟨self, h0, rfl⟩ := backup_eq h
  refine ⟨backupSites_ordsKey hwf.ords, backupSites_sitesKey hwf.sitesU (siteOf_some_mem h0), ?_⟩
  intro r hr
  simp only at hr ⊢
  obtain ⟨r0, hr0, rfl⟩ := mem_rewriteOrd.mp hr
  split
  · simp only [backupSites_moved hwf.ords, Option.isSome_some]
  · rename_i hne
    rw [backupSites_keep hwf.ords hne (hwf.resolved r0 hr0)]
    exact hwf.resolved r0 hr0

/-! ### adopt -/

theorem adopt_sites (snap : Db) (a : Site) : (adopt snap a).sites = adoptSites snap.sites a := by
  unfold adopt adoptSites
  rfl

theorem adopt_zero {snap : Db} (hwf : WF snap) (a : Site) : siteOf (adopt snap a).sites 0 = some a := by
  rw [adopt_sites]; exact adoptSites_zero hwf.ords

/-- `restore --self-actor-id` on a snapshot whose ordinal 0 is vacant keeps every resolved author -/
theorem adopt_changes {snap : Db} (hwf : WF snap) (hz : ZeroVacant snap) (a : Site) :
    (adopt snap a).changes = snap.changes := by
  have hno0 : ∀ p ∈ snap.sites, p.1 ≠ 0 := siteOf_eq_none.mp hz.1
  simp only [Db.changes, adopt_sites]
  cases hk : ordOf snap.sites a with
  | none =>
    have hna := ordOf_eq_none.mp hk
    have : (adopt snap a).clock = snap.clock := by
      unfold adopt; simp only [Db.ordOf, hk]
    rw [this]
    apply changes_same_clock
    intro r hr
    exact adoptSites_keep hwf.ords (hz.2 r hr) (fun s hs => hna (r.ord, s) hs)
  | some k =>
    have hmem := ordOf_some_mem hk
    cases k with
    | zero => exact absurd rfl (hno0 _ hmem)
    | succ k =>
      have : (adopt snap a).clock = rewriteOrd (k + 1) 0 snap.clock := by
        unfold adopt; simp only [Db.ordOf, hk]
      rw [this]
      apply changes_rewrite
      · rw [adoptSites_zero hwf.ords, (siteOf_eq_some hwf.ords).mpr hmem]
      · intro r hr hne
        apply adoptSites_keep hwf.ords (hz.2 r hr)
        intro s hs hsa
        subst hsa
        have := hwf.sitesU _ hs _ hmem rfl
        simp only [Prod.mk.injEq, and_true] at this
        exact hne this

theorem adopt_wf {snap : Db} (hwf : WF snap) (hz : ZeroVacant snap) (a : Site) : WF (adopt snap a) := by
  refine ⟨by rw [adopt_sites]; exact adoptSites_ordsKey hwf.ords,
          by rw [adopt_sites]; exact adoptSites_sitesKey hwf.sitesU, ?_⟩
  -- every row still resolves: the resolved changes are the same list, read the authors off it
  intro r hr
  have hc := adopt_changes hwf hz a
  simp only [Db.changes] at hc
  obtain ⟨i, hi, rfl⟩ := List.getElem_of_mem hr
  have hlen : (adopt snap a).clock.length = snap.clock.length := by
    have := congrArg List.length hc
    simpa using this
  have h1 : ((adopt snap a).clock.map (resolve (adopt snap a).sites))[i]'(by simpa using hi) =
      (snap.clock.map (resolve snap.sites))[i]'(by simp; omega) := by
    simp only [hc]
  simp only [List.getElem_map, resolve, Change.mk.injEq] at h1
  rw [h1.2.2.2.2.2.2]
  exact hwf.resolved _ (List.getElem_mem _)

end Corro.Backup
