/-
Order lemmas for the cr-sqlite cell store model (`Corro.Crdt`): `bytesLt` and `Val.lt` are strict
total orders, and `wins` is the strict lexicographic order on the key `(colv, value, site)`.
-/
import Corro.Model.Crdt

namespace Corro.Crdt

/-! ### `bytesLt` -/

theorem bytesLt_irrefl : ∀ a : List Nat, bytesLt a a = false
  | [] => rfl
  | a :: as => by simp [bytesLt, bytesLt_irrefl as]

theorem bytesLt_trans : ∀ {a b c : List Nat}, bytesLt a b = true → bytesLt b c = true →
    bytesLt a c = true
  | [], [], _, h, _ => by simp [bytesLt] at h
  | [], _ :: _, [], _, h => by simp [bytesLt] at h
  | [], _ :: _, _ :: _, _, _ => by simp [bytesLt]
  | _ :: _, [], _, h, _ => by simp [bytesLt] at h
  | _ :: _, _ :: _, [], _, h => by simp [bytesLt] at h
  | x :: xs, y :: ys, z :: zs, h1, h2 => by
    unfold bytesLt at h1 h2 ⊢
    by_cases hxy : x < y
    · by_cases hyz : y < z
      · have : x < z := by omega
        simp [this]
      · by_cases hzy : z < y
        · simp [hyz, hzy] at h2
        · have : x < z := by omega
          simp [this]
    · by_cases hyx : y < x
      · simp [hxy, hyx] at h1
      · simp only [hxy, hyx, if_false] at h1
        have hxy' : x = y := by omega
        subst hxy'
        by_cases hyz : x < z
        · simp [hyz]
        · by_cases hzy : z < x
          · simp [hyz, hzy] at h2
          · simp only [hyz, hzy, if_false] at h2 ⊢
            exact bytesLt_trans h1 h2

/-- trichotomy: two byte strings neither of which is below the other are equal -/
theorem bytesLt_total : ∀ {a b : List Nat}, bytesLt a b = false → bytesLt b a = false → a = b
  | [], [], _, _ => rfl
  | [], _ :: _, h, _ => by simp [bytesLt] at h
  | _ :: _, [], _, h => by simp [bytesLt] at h
  | x :: xs, y :: ys, h1, h2 => by
    unfold bytesLt at h1 h2
    by_cases hxy : x < y
    · simp [hxy] at h1
    · by_cases hyx : y < x
      · simp [hyx] at h2
      · simp only [hxy, hyx, if_false] at h1 h2
        have : x = y := by omega
        subst this
        rw [bytesLt_total h1 h2]

theorem bytesLt_asymm {a b : List Nat} (h : bytesLt a b = true) : bytesLt b a = false := by
  cases h2 : bytesLt b a with
  | false => rfl
  | true => have := bytesLt_trans h h2; rw [bytesLt_irrefl] at this; cases this

/-! ### `Val.lt` -/

theorem Val.lt_irrefl (a : Val) : a.lt a = false := by
  cases a <;> simp [Val.lt, bytesLt_irrefl]

theorem Val.lt_trans {a b c : Val} (h1 : a.lt b = true) (h2 : b.lt c = true) : a.lt c = true := by
  cases a <;> cases b <;> cases c <;> simp [Val.lt, Val.rank] at h1 h2 ⊢
  · exact bytesLt_trans h1 h2
  · exact bytesLt_trans h1 h2
  · omega

/-- trichotomy of the value order -/
theorem Val.lt_total {a b : Val} (h1 : a.lt b = false) (h2 : b.lt a = false) : a = b := by
  cases a <;> cases b <;> simp [Val.lt, Val.rank] at h1 h2 ⊢
  · exact bytesLt_total h1 h2
  · exact bytesLt_total h1 h2
  · omega

theorem Val.lt_asymm {a b : Val} (h : a.lt b = true) : b.lt a = false := by
  cases h2 : b.lt a with
  | false => rfl
  | true => have := Val.lt_trans h h2; rw [Val.lt_irrefl] at this; cases this

/-! ### the key `(colv, value, site)` -/

/-- what `wins` compares -/
structure Key where
  colv : Nat
  val  : Val
  site : Nat
deriving Repr, DecidableEq, Inhabited

/-- strict lexicographic order on keys, written exactly as `wins` decides -/
def keyLt (a b : Key) : Bool :=
  if a.colv ≠ b.colv then a.colv < b.colv
  else if a.val.lt b.val then true
  else if b.val.lt a.val then false
  else a.site < b.site

def Chg.key (c : Chg) : Key := ⟨c.colv, c.val, c.site⟩
def Cell.key (l : Cell) : Key := ⟨l.clk.colv, l.val, l.clk.site⟩

theorem wins_eq_keyLt (c : Chg) (l : Cell) : wins c l = keyLt l.key c.key := by
  unfold wins keyLt Chg.key Cell.key
  by_cases h : c.colv = l.clk.colv
  · simp [h]
  · have h' : ¬ l.clk.colv = c.colv := fun e => h e.symm
    simp [h, h']

theorem keyLt_irrefl (a : Key) : keyLt a a = false := by
  simp [keyLt, Val.lt_irrefl]

theorem keyLt_trans {a b c : Key} (h1 : keyLt a b = true) (h2 : keyLt b c = true) :
    keyLt a c = true := by
  obtain ⟨a1, a2, a3⟩ := a
  obtain ⟨b1, b2, b3⟩ := b
  obtain ⟨c1, c2, c3⟩ := c
  unfold keyLt at h1 h2 ⊢
  simp only [] at h1 h2 ⊢
  by_cases e1 : a1 = b1
  · by_cases e2 : b1 = c1
    · subst e1; subst e2
      simp only [ne_eq, not_true_eq_false, if_false] at h1 h2 ⊢
      cases hab : a2.lt b2 with
      | true =>
        cases hbc : b2.lt c2 with
        | true => simp [Val.lt_trans hab hbc]
        | false =>
          cases hcb : c2.lt b2 with
          | true => simp [hbc, hcb] at h2
          | false =>
            have := Val.lt_total hbc hcb
            subst this
            simp [hab]
      | false =>
        cases hba : b2.lt a2 with
        | true => simp [hab, hba] at h1
        | false =>
          have := Val.lt_total hab hba
          subst this
          simp only [Val.lt_irrefl, if_false, Bool.false_eq_true] at h1
          cases hbc : a2.lt c2 with
          | true => simp
          | false =>
            cases hcb : c2.lt a2 with
            | true => simp [hbc, hcb] at h2
            | false =>
              simp only [hbc, hcb, if_false, Bool.false_eq_true] at h2 ⊢
              simp at h1 h2 ⊢
              omega
    · simp only [e2, ne_eq, not_false_eq_true, if_true, decide_eq_true_eq] at h2
      have e3 : ¬ a1 = c1 := by omega
      simp [e3]; omega
  · simp only [e1, ne_eq, not_false_eq_true, if_true, decide_eq_true_eq] at h1
    by_cases e2 : b1 = c1
    · have e3 : ¬ a1 = c1 := by omega
      simp [e3]; omega
    · simp only [e2, ne_eq, not_false_eq_true, if_true, decide_eq_true_eq] at h2
      have e3 : ¬ a1 = c1 := by omega
      simp [e3]; omega

/-- trichotomy of the key order: this is what makes the winner of a cell unique -/
theorem keyLt_total {a b : Key} (h1 : keyLt a b = false) (h2 : keyLt b a = false) : a = b := by
  unfold keyLt at h1 h2
  by_cases e1 : a.colv = b.colv
  · have e1' : b.colv = a.colv := e1.symm
    simp only [e1, ne_eq, not_true_eq_false, if_false] at h1
    simp only [e1', ne_eq, not_true_eq_false, if_false] at h2
    cases hab : a.val.lt b.val with
    | true => simp [hab] at h1
    | false =>
      cases hba : b.val.lt a.val with
      | true => simp [hba] at h2
      | false =>
        simp only [hab, hba, if_false, Bool.false_eq_true, decide_eq_false_iff_not] at h1 h2
        have hv := Val.lt_total hab hba
        have hs : a.site = b.site := by omega
        cases a; cases b; simp_all
  · have e1' : ¬ b.colv = a.colv := fun e => e1 e.symm
    simp only [e1, e1', ne_eq, not_false_eq_true, if_true, decide_eq_false_iff_not] at h1 h2
    omega

theorem keyLt_asymm {a b : Key} (h : keyLt a b = true) : keyLt b a = false := by
  cases h2 : keyLt b a with
  | false => rfl
  | true => have := keyLt_trans h h2; rw [keyLt_irrefl] at this; cases this

/-- a key with a positive column version beats every key with column version 0 -/
theorem keyLt_of_colv_zero {a b : Key} (ha : a.colv = 0) (hb : 1 ≤ b.colv) : keyLt a b = true := by
  unfold keyLt
  have : ¬ a.colv = b.colv := by omega
  simp [this]; omega

theorem keyLt_colv_le {a b : Key} (h : keyLt a b = true) : a.colv ≤ b.colv := by
  unfold keyLt at h
  by_cases e : a.colv = b.colv
  · omega
  · simp [e] at h; omega

/-! ### the maximum of a list of keys -/

def maxKey : List Key → Option Key
  | [] => none
  | k :: ks => match maxKey ks with
    | none => some k
    | some m => if keyLt m k then some k else some m

theorem maxKey_eq_none {ks : List Key} : maxKey ks = none ↔ ks = [] := by
  cases ks with
  | nil => simp [maxKey]
  | cons k ks =>
    simp only [maxKey]
    cases maxKey ks with
    | none => simp
    | some m => by_cases h : keyLt m k = true <;> simp [h]

theorem maxKey_spec : ∀ {ks : List Key} {m : Key}, maxKey ks = some m →
    m ∈ ks ∧ ∀ k ∈ ks, keyLt m k = false
  | [], m, h => by simp [maxKey] at h
  | k :: ks, m, h => by
    simp only [maxKey] at h
    cases hm : maxKey ks with
    | none =>
      rw [hm] at h
      have := maxKey_eq_none.mp hm
      subst this
      simp at h; subst h
      simp [keyLt_irrefl]
    | some m' =>
      rw [hm] at h
      have ⟨ih1, ih2⟩ := maxKey_spec hm
      by_cases hlt : keyLt m' k = true
      · simp [hlt] at h; subst h
        refine ⟨by simp, ?_⟩
        intro k' hk'
        rcases List.mem_cons.mp hk' with rfl | hk'
        · exact keyLt_irrefl _
        · cases h3 : keyLt k k' with
          | false => rfl
          | true => have := keyLt_trans hlt h3; rw [ih2 k' hk'] at this; cases this
      · simp [hlt] at h; subst h
        refine ⟨by simp [ih1], ?_⟩
        intro k' hk'
        rcases List.mem_cons.mp hk' with rfl | hk'
        · simpa using hlt
        · exact ih2 k' hk'

/-- a list's maximum key is characterised by "is an element and nothing is above it" -/
theorem maxKey_unique {ks : List Key} {m : Key} (hm : m ∈ ks) (hub : ∀ k ∈ ks, keyLt m k = false) :
    maxKey ks = some m := by
  cases h : maxKey ks with
  | none => rw [maxKey_eq_none.mp h] at hm; cases hm
  | some m' =>
    have ⟨h1, h2⟩ := maxKey_spec h
    rw [keyLt_total (h2 m hm) (hub m' h1)]

end Corro.Crdt
