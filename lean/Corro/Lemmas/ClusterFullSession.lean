/-
C01, protocol level, BATCHES AND CRASHES — progress of a sequence of batches on an ALIVE node with
nothing pending (`foldB_*`), and what a LOSSLESS sync session achieves when an alive client processes
the answers of a clean server — dead or alive — in batches (`session_progressB`).  (Port of
`ClusterBatchSession.lean`; the request side — which needs are computed, what a holder answers — is
`ClusterCrashSession.lean`.)
-/
import Corro.Lemmas.ClusterFullEffect
import Corro.Lemmas.ClusterBatchSession
import Corro.Lemmas.ClusterCrashSession

namespace Corro.ClusterSys.Full
open Corro.Crdt Corro.Node

section Fold
variable {L : Log}

theorem foldB_step (hL : LogOK L) (s : Node × List Chg) (b : List Item) (hA : Crash.AInv L s.1 s.2)
    (hck : ∀ it ∈ b, ChunkOK L it) : Crash.AInv L (deliverB s b).1 (deliverB s b).2 :=
  ⟨ninv_deliverB hA.ninv hL (fun it hit => chunkOK_changes hL (hck it hit)),
    ainv_deliverB hA.ninv hA.cinv hA.alive hL hck,
    by show (s.1.deliver b).alive = true; rw [deliverB_alive hA.ninv hA.cinv hL hck]; exact hA.alive⟩

theorem foldB_ainv (hL : LogOK L) (batches : List (List Item)) (s : Node × List Chg)
    (hA : Crash.AInv L s.1 s.2) (hck : ∀ b ∈ batches, ∀ it ∈ b, ChunkOK L it) :
    Crash.AInv L (batches.foldl deliverB s).1 (batches.foldl deliverB s).2 := by
  induction batches generalizing s with
  | nil => exact hA
  | cons b batches ih =>
    exact ih (deliverB s b) (foldB_step hL s b hA (hck b List.mem_cons_self))
      (fun x hx => hck x (List.mem_cons_of_mem _ hx))

/-- what is held stays held -/
theorem foldB_held_mono (hL : LogOK L) (batches : List (List Item)) (s : Node × List Chg)
    (hA : Crash.AInv L s.1 s.2) (hck : ∀ b ∈ batches, ∀ it ∈ b, ChunkOK L it) {a v : Nat}
    (h : Held s.1 a v) : Held (batches.foldl deliverB s).1 a v := by
  induction batches generalizing s with
  | nil => exact h
  | cons b batches ih =>
    have hc := hck b List.mem_cons_self
    have hA' := foldB_step hL s b hA hc
    exact ih (deliverB s b) hA' (fun x hx => hck x (List.mem_cons_of_mem _ hx))
      (deliverB_held_mono hA.ninv hA.cinv hA.alive hL hc h)

/-- an `Empty` covering `(a, v)` in one of the batches (no incomplete chunk of the version in any
batch): held at the end -/
theorem foldB_empty_holds (hL : LogOK L) (batches : List (List Item)) (s : Node × List Chg)
    (hA : Crash.AInv L s.1 s.2) (hck : ∀ b ∈ batches, ∀ it ∈ b, ChunkOK L it) {a v lo hi : Nat}
    (hall : ∀ b ∈ batches, AllCompleteFor a v b)
    (hm : ∃ b ∈ batches, Item.empty a lo hi ∈ b) (h1 : lo ≤ v) (h2 : v ≤ hi) :
    Held (batches.foldl deliverB s).1 a v := by
  induction batches generalizing s with
  | nil => obtain ⟨b, hb, _⟩ := hm; cases hb
  | cons b batches ih =>
    have hc := hck b List.mem_cons_self
    have hA' := foldB_step hL s b hA hc
    have hck' : ∀ x ∈ batches, ∀ it ∈ x, ChunkOK L it := fun x hx => hck x (List.mem_cons_of_mem _ hx)
    obtain ⟨b', hb', hmem⟩ := hm
    rcases List.mem_cons.mp hb' with rfl | hb'
    · exact foldB_held_mono hL batches _ hA' hck'
        (deliverB_settles_empty hA.ninv hA.cinv hA.alive hL hc (hall _ List.mem_cons_self) hmem h1 h2)
    · exact ih (deliverB s b) hA' hck' (fun x hx => hall x (List.mem_cons_of_mem _ hx)) ⟨b', hb', hmem⟩

/-- **no partial → settled**: the node has no partial of `(a, v)`, every `Full` changeset of `(a, v)`
in the batches is complete, and some batch contains a changeset that settles the version -/
theorem foldB_finalize (hL : LogOK L) (batches : List (List Item)) (s : Node × List Chg)
    (hA : Crash.AInv L s.1 s.2) (hck : ∀ b ∈ batches, ∀ it ∈ b, ChunkOK L it) {a v : Nat}
    (hall : ∀ b ∈ batches, AllCompleteFor a v b)
    (hstart : Held s.1 a v ∨ ((s.1.booked a).partial? v = none ∧ ∃ b ∈ batches, ∃ it ∈ b, Final a v it)) :
    Held (batches.foldl deliverB s).1 a v := by
  induction batches generalizing s with
  | nil =>
    rcases hstart with h | ⟨_, b, hb, _⟩
    · exact h
    · cases hb
  | cons b batches ih =>
    have hc := hck b List.mem_cons_self
    have hA' := foldB_step hL s b hA hc
    have hck' : ∀ x ∈ batches, ∀ it ∈ x, ChunkOK L it := fun x hx => hck x (List.mem_cons_of_mem _ hx)
    have hall' : ∀ x ∈ batches, AllCompleteFor a v x := fun x hx => hall x (List.mem_cons_of_mem _ hx)
    have hb := hall b List.mem_cons_self
    rcases hstart with h | ⟨hp, b', hb', fin, hfin, hF⟩
    · exact foldB_held_mono hL (b :: batches) s hA hck h
    · rcases List.mem_cons.mp hb' with rfl | hb'
      · refine foldB_held_mono hL batches _ hA' hck' ?_
        rcases hF with ⟨last, cs, rfl⟩ | ⟨lo, hi, rfl, h1, h2⟩
        · exact deliverB_settles_full hA.ninv hA.cinv hA.alive hL hc hb hp hfin
        · exact deliverB_settles_empty hA.ninv hA.cinv hA.alive hL hc hb hfin h1 h2
      · refine ih (deliverB s b) hA' hck' hall' ?_
        rcases deliverB_nopartial hA.ninv hA.cinv hA.alive hL hc hb hp with h | h
        · exact Or.inl h
        · exact Or.inr ⟨h, b', hb', fin, hfin, hF⟩

/-- **a partial grows**: starting from an incomplete partial containing `p.seqs` (with `p`'s
`last_seq`), after the batches the version is held or the partial — still with that `last_seq` —
contains `p.seqs` and the range of every changeset of `(a, v)` in every batch -/
theorem foldB_partial_grows (hL : LogOK L) (batches : List (List Item)) (s : Node × List Chg)
    (hA : Crash.AInv L s.1 s.2) (hck : ∀ b ∈ batches, ∀ it ∈ b, ChunkOK L it) {a v : Nat}
    {p : Partial} (D : Nat × Nat → Prop)
    (hstart : Held s.1 a v ∨ ∃ q, (s.1.booked a).partial? v = some q ∧ q.complete = false ∧
      q.last = p.last ∧ (∀ x, RSet.Mem p.seqs x → RSet.Mem q.seqs x) ∧
      (∀ r, D r → ∀ x, r.1 ≤ x → x ≤ r.2 → RSet.Mem q.seqs x)) :
    Held (batches.foldl deliverB s).1 a v ∨
    ∃ q, ((batches.foldl deliverB s).1.booked a).partial? v = some q ∧ q.complete = false ∧
      q.last = p.last ∧ (∀ x, RSet.Mem p.seqs x → RSet.Mem q.seqs x) ∧
      (∀ r, (D r ∨ ∃ b ∈ batches, r ∈ rangesFor a v b) → ∀ x, r.1 ≤ x → x ≤ r.2 → RSet.Mem q.seqs x) := by
  induction batches generalizing s D with
  | nil =>
    rcases hstart with h | ⟨q, h1, h2, h3, h4, h5⟩
    · exact Or.inl h
    · refine Or.inr ⟨q, h1, h2, h3, h4, ?_⟩
      intro r hr
      rcases hr with hr | ⟨b, hb, _⟩
      · exact h5 r hr
      · cases hb
  | cons b batches ih =>
    have hc := hck b List.mem_cons_self
    have hA' := foldB_step hL s b hA hc
    have hck' : ∀ x ∈ batches, ∀ it ∈ x, ChunkOK L it := fun x hx => hck x (List.mem_cons_of_mem _ hx)
    rcases hstart with h | ⟨q, h1, h2, h3, h4, h5⟩
    · exact Or.inl (foldB_held_mono hL (b :: batches) s hA hck h)
    · have hnext : Held (deliverB s b).1 a v ∨ ∃ q', ((deliverB s b).1.booked a).partial? v = some q' ∧
          q'.complete = false ∧ q'.last = p.last ∧ (∀ x, RSet.Mem p.seqs x → RSet.Mem q'.seqs x) ∧
          (∀ r, (D r ∨ r ∈ rangesFor a v b) → ∀ x, r.1 ≤ x → x ≤ r.2 → RSet.Mem q'.seqs x) := by
        rcases deliverB_partial_grows hA.ninv hA.cinv hA.alive hL hc h1 with h | ⟨q', g1, g2, g3, g4, g5⟩
        · exact Or.inl h
        · refine Or.inr ⟨q', g1, g2, g3.trans h3, fun x hx => g4 x (h4 x hx), ?_⟩
          intro r hr x hx1 hx2
          rcases hr with hr | hr
          · exact g4 x (h5 r hr x hx1 hx2)
          · exact g5 r hr x hx1 hx2
      rcases ih (deliverB s b) hA' hck' (fun r => D r ∨ r ∈ rangesFor a v b) hnext with h | ⟨q2, k1, k2, k3, k4, k5⟩
      · exact Or.inl h
      · refine Or.inr ⟨q2, k1, k2, k3, k4, ?_⟩
        intro r hr
        apply k5 r
        rcases hr with hr | ⟨b', hb', hr⟩
        · exact Or.inl (Or.inl hr)
        · rcases List.mem_cons.mp hb' with rfl | hb'
          · exact Or.inl (Or.inr hr)
          · exact Or.inr ⟨b', hb', hr⟩

end Fold

/-! ### what a holder without live entries sends -/

section Session
open Corro.Needs
variable {Pj : Nat → Nat → Prop} {L : Log} {ni nj : Node} {Ri Rj : List Chg}

/-- a holder of `(a, v)` that has no live entry of it sends no `Full` changeset of the version -/
theorem answers_no_full (hIj : Crash.CInv Pj L nj Rj) {a v : Nat} (hh : Held nj a v)
    (hl : (nj.live a v).isEmpty = true) :
    ∀ it ∈ answers ni nj, ∀ lo hi last cs, it ≠ Corro.Node.Item.full a v lo hi last cs := by
  intro it hit lo hi last cs heq
  unfold answers at hit
  obtain ⟨an, _, hit⟩ := List.mem_flatMap.mp hit
  obtain ⟨need, _, hit⟩ := List.mem_flatMap.mp hit
  have hit := mem_serve hit
  subst heq
  have hnb := Crash.held_no_buf hIj hh
  cases need with
  | full lo' hi' =>
    rcases mem_handleNeed_full.mp hit with ⟨w, _, _, h3⟩ | ⟨w, r, _, _, _, hb, _, h6⟩ | ⟨p, _, h6⟩
    · obtain ⟨hne, he⟩ := liveItem_some h3
      simp only [Corro.Node.Item.full.injEq] at he
      obtain ⟨rfl, rfl, _⟩ := he
      rw [hl] at hne; cases hne
    · simp only [bufItem, Corro.Node.Item.full.injEq] at h6
      obtain ⟨rfl, rfl, _⟩ := h6
      rw [hnb] at hb; cases hb
    · cases h6
  | part w seqs =>
    rcases mem_handleNeed_part.mp hit with ⟨hne, r, _, h3⟩ | ⟨_, hb, r, _, row, _, _, h6⟩ | ⟨_, _, _, h6⟩
    · have he := livePart_some h3
      simp only [Corro.Node.Item.full.injEq] at he
      obtain ⟨rfl, rfl, _⟩ := he
      rw [hl] at hne; cases hne
    · simp only [partItem, Corro.Node.Item.full.injEq] at h6
      obtain ⟨rfl, rfl, _⟩ := h6
      rw [hnb] at hb; cases hb
    · cases h6

/-- **`sync_round_progress`, one version, BATCHED.**  After a LOSSLESS session — every answer of the
server is in at least one of the batches the client processes, and the batches contain nothing else —
the client holds every version of a foreign actor that the server holds. -/
theorem session_progressB (hL : LogOK L) (hAi : Crash.AInv L ni Ri) (hNj : NInv L nj Rj)
    (hIj : Crash.CInv Pj L nj Rj) (hcl : nodeClean nj = true) {a v : Nat} (ha : a ≠ ni.id) (hv : 1 ≤ v)
    (hh : Held nj a v) (batches : List (List Corro.Node.Item))
    (hsub : ∀ b ∈ batches, ∀ it ∈ b, it ∈ answers ni nj)
    (hcov : ∀ it ∈ answers ni nj, ∃ b ∈ batches, it ∈ b) :
    Held (batches.foldl deliverB (ni, Ri)).1 a v := by
  have hIi := hAi.cinv
  have hck : ∀ b ∈ batches, ∀ it ∈ b, ChunkOK L it :=
    fun b hb it hit => Crash.chunkOK_answers hNj hIj hL hcl (hsub b hb it hit)
  cases hp : (ni.booked a).partial? v with
  | none =>
    have hshape := Crash.answers_shape hIi hIj hh (fun p hp' => by rw [hp] at hp'; cases hp')
    have hall : ∀ b ∈ batches, AllCompleteFor a v b :=
      fun b hb it hit lo hi last cs he => hshape it (hsub b hb it hit) lo hi last cs he
    cases hcv : (ni.booked a).containsVersion v with
    | true =>
      exact foldB_held_mono hL _ (ni, Ri) hAi hck ⟨hcv, fun p hp' => by rw [hp] at hp'; cases hp'⟩
    | false =>
      obtain ⟨ns, lo, hi, hns, hneed, h1, h2⟩ := Crash.need_full_exists hIi hIj ha hv hh hcv
      obtain ⟨it, hit, hF⟩ := Crash.final_item_exists hIj hh h1 h2
      have hmem : it ∈ answers ni nj :=
        mem_answers hns hneed (by rw [serve_of_held hh hv (need := .full lo hi) ⟨h1, h2⟩]; exact hit)
      obtain ⟨b, hb, hib⟩ := hcov it hmem
      exact foldB_finalize hL _ (ni, Ri) hAi hck hall (Or.inr ⟨hp, b, hb, it, hib, hF⟩)
  | some p =>
    cases hpc : p.complete with
    | true =>
      rcases hIi.part_state a v p hp with ⟨_, h2⟩ | ⟨h1, _⟩ | ⟨h1, _⟩
      · refine foldB_held_mono hL _ (ni, Ri) hAi hck ⟨hIi.part_known a v p hp, ?_⟩
        intro q hq
        rw [hp] at hq; cases hq
        exact ⟨hpc, h2⟩
      · rw [hpc] at h1; cases h1
      · exact absurd h1 id
    | false =>
      obtain ⟨ns, hns, hneed⟩ := Crash.need_part_exists hIi hIj ha hv hh hp hpc
      have hserve := serve_of_held hh hv (need := .part v (RSet.gaps p.seqs (0, p.last))) rfl
      cases hl : (nj.live a v).isEmpty with
      | false =>
        -- one changeset per missing range
        have hallr : ∀ r ∈ RSet.gaps p.seqs (0, p.last), ∃ last cs,
            Corro.Node.Item.full a v r.1 r.2 last cs ∈ handleNeed nj a (.part v (RSet.gaps p.seqs (0, p.last))) := by
          intro r hr
          exact ⟨_, _, mem_handleNeed_part.mpr (Or.inl ⟨hl, r, hr, livePart_isSome hl r⟩)⟩
        have hgw := RSet.gaps_wfFrom p.seqs 0 p.last 0 ((hIi.pwf a).of_partial? hp)
        have hranges : ∀ r ∈ RSet.gaps p.seqs (0, p.last), ∃ b ∈ batches, r ∈ rangesFor a v b := by
          intro r hr
          obtain ⟨last, cs, hit⟩ := hallr r hr
          have hmem : Corro.Node.Item.full a v r.1 r.2 last cs ∈ answers ni nj :=
            mem_answers hns hneed (by rw [hserve]; exact hit)
          obtain ⟨b, hb, hib⟩ := hcov _ hmem
          have hfw := Corro.Node.wfFrom_forward hgw r hr
          exact ⟨b, hb, mem_rangesFor.mpr ⟨⟨last, cs, hib⟩, hfw⟩⟩
        rcases foldB_partial_grows hL batches (ni, Ri) hAi hck (p := p) (fun _ => False)
            (Or.inr ⟨p, hp, hpc, rfl, fun x hx => hx, fun r hr => absurd hr id⟩) with h | ⟨q, h1, h2, h3, h4, h5⟩
        · exact h
        · exfalso
          have hI' := (foldB_ainv hL batches (ni, Ri) hAi hck).cinv
          have hqw := (hI'.pwf a).of_partial? h1
          have : q.complete = true := by
            rw [complete_iff hqw]
            intro x hx
            by_cases hm : RSet.Mem p.seqs x
            · exact h4 x hm
            · have hg : RSet.Mem (RSet.gaps p.seqs (0, p.last)) x :=
                (RSet.mem_gaps p.seqs 0 p.last x 0 ((hIi.pwf a).of_partial? hp)).mpr
                  ⟨⟨Nat.zero_le _, by rw [← h3]; exact hx⟩, hm⟩
              obtain ⟨r, hr, hx1, hx2⟩ := hg
              exact h5 r (Or.inr (hranges r hr)) x hx1 hx2
          rw [h2] at this; cases this
      | true =>
        -- the holder has no live entry of the version: `Empty`, and no `Full` changeset of it at all
        have hg : nj.inGaps a v = false := by
          cases hgg : nj.inGaps a v with
          | false => rfl
          | true => exact absurd (inGaps_iff.mp hgg) ((containsVersion_iff _ _).mp hh.1).1
        have hemp : Corro.Node.Item.empty a v v ∈ handleNeed nj a (.part v (RSet.gaps p.seqs (0, p.last))) :=
          mem_handleNeed_part.mpr (Or.inr (Or.inr ⟨hl, Crash.held_no_buf hIj hh, hg, rfl⟩))
        have hmem : Corro.Node.Item.empty a v v ∈ answers ni nj :=
          mem_answers hns hneed (by rw [hserve]; exact hemp)
        obtain ⟨b, hb, hib⟩ := hcov _ hmem
        have hall : ∀ b ∈ batches, AllCompleteFor a v b := by
          intro b hb it hit lo hi last cs he
          exact absurd he (answers_no_full hIj hh hl it (hsub b hb it hit) lo hi last cs)
        exact foldB_empty_holds hL _ (ni, Ri) hAi hck hall ⟨b, hb, hib⟩ (Nat.le_refl v) (Nat.le_refl v)

end Session

end Corro.ClusterSys.Full
