/-
C01, protocol level, BATCHES AND CRASHES — `Node.deliver batch` for an ARBITRARY batch of changesets
that satisfy `ChunkOK`, delivered to ANY node — dead or alive — preserves the crash-tolerant node
invariant `Crash.KInv` (`held_inv` included), with the ghost list extended by what the batch merged:
the fold over the actors (`deliverFoldG_gi`), the clear jobs (`clearAll_gi`), the applies
(`applyAll_gi`, alive nodes only — on a dead node `Node.deliver` does not run them, and the versions
completed by the batch stay COMPLETE BUT UNAPPLIED), and the whole (`kinv_deliverB`).
(Port of `ClusterBatchDeliver.lean` to the merged invariant `Full.GI`.)
-/
import Corro.Lemmas.ClusterFullTx
import Corro.Lemmas.ClusterBatchDeliver
import Corro.Lemmas.ClusterCrashStep

namespace Corro.ClusterSys.Full
open Corro.Crdt Corro.Node

/-! ### the db-version rows through clear jobs and applies -/

theorem dbvOf_clearAll (N : Node) (C : List (Nat × Nat × Nat)) (a : Nat) : dbvOf (clearAll N C) a = dbvOf N a :=
  dbvOf_congr (clearAll_dbv N C) a

theorem dbv_le_applyBuffered {N : Node} (h : ∀ a', dbvOf N a' ≤ (N.booked a').max) (a v : Nat)
    (hv : ∀ p, (N.booked a).partial? v = some p → v ≤ (N.booked a).max) (a' : Nat) :
    dbvOf (N.applyBuffered a v) a' ≤ ((N.applyBuffered a v).booked a').max := by
  by_cases hskip : ∀ p, (N.booked a).partial? v = some p → p.complete = false
  · rw [applyBuffered_skip N a v hskip]; exact h a'
  · have hex : ∃ p, (N.booked a).partial? v = some p ∧ p.complete = true := by
      apply Classical.byContradiction
      intro hne
      apply hskip
      intro p hp
      cases hc : p.complete with
      | false => rfl
      | true => exact absurd ⟨p, hp, hc⟩ hne
    obtain ⟨p, hp, hpc⟩ := hex
    have hmx : ∀ x y : Nat, Nat.max x y = max x y := fun _ _ => rfl
    rw [applyBuffered_complete N a v p hp hpc, booked_clearMeta, dbvOf_congr (clearMeta_dbv _ _ _ _),
      dbvOf_applyCore]
    by_cases ha : a' = a
    · subst ha
      rw [if_pos rfl, applyCore_booked_same, insertDb_max _ _ (by simp), sup_singleton, hmx, hmx]
      have := h a'
      have := hv p hp
      omega
    · rw [if_neg ha, applyCore_booked_other _ _ _ _ ha]; exact h a'

/-! ### the fold over the actors -/

structure DG (D : Prop) (L : Log) (n : Node) (R : List Chg)
    (acc : (Node × List (Nat × Nat) × List (Nat × Nat × Nat)) × List Chg) : Prop where
  gi : GI D L acc.1.1.booked acc.1.1.seqRows acc.1.1.buf (acc.2 ++ R) acc.1.2.2 acc.1.2.1
  alive : acc.1.1.alive = n.alive
  sorted : acc.1.1.book.Pairwise (fun x y => x.1 < y.1)
  dbv : ∀ a, dbvOf acc.1.1 a ≤ (acc.1.1.booked a).max

theorem DG.init {D : Prop} {P : Nat → Nat → Prop} {L : Log} {n : Node} {R : List Chg} (hN : NInv L n R)
    (hI : Crash.CInv P L n R) (hP : ∀ a v, P a v → D) : DG D L n R ((n, [], []), []) :=
  ⟨gi_of_cinv hN hI hP, rfl, hI.sorted, hI.dbv_le⟩

theorem DG.step {D : Prop} {L : Log} {n : Node} {R : List Chg} (hL : LogOK L) (batch : List Item)
    (hck : ∀ it ∈ batch, ChunkOK L it)
    {acc : (Node × List (Nat × Nat) × List (Nat × Nat × Nat)) × List Chg} (hacc : DG D L n R acc) (s : Nat) :
    DG D L n R (actorStepG (unknownB n batch) acc s) := by
  have hit : ∀ it ∈ (unknownB n batch).filter (·.site = s), ChunkOK L it ∧ it.site = s := by
    intro it hit
    have := List.mem_filter.mp hit
    exact ⟨hck it (mem_unknownOf (n := n) this.1), of_decide_eq_true this.2⟩
  obtain ⟨h1, h2, h3, h4⟩ := processActor_gi hacc.gi hacc.dbv hL hacc.sorted _ hit
  unfold actorStepG
  refine ⟨?_, h2.trans hacc.alive, h3, h4⟩
  simp only
  apply h1.congr_R
  intro e
  simp only [List.mem_append]
  constructor
  · rintro (h | h | h)
    · exact Or.inl (Or.inr h)
    · exact Or.inl (Or.inl h)
    · exact Or.inr h
  · rintro ((h | h) | h)
    · exact Or.inr (Or.inl h)
    · exact Or.inl h
    · exact Or.inr (Or.inr h)

theorem deliverFoldG_gi {D : Prop} {P : Nat → Nat → Prop} {L : Log} {n : Node} {R : List Chg}
    (hN : NInv L n R) (hI : Crash.CInv P L n R) (hP : ∀ a v, P a v → D)
    (hL : LogOK L) (batch : List Item) (hck : ∀ it ∈ batch, ChunkOK L it) :
    DG D L n R (deliverFoldG n batch) := by
  unfold deliverFoldG
  apply foldl_inv (DG D L n R)
  · exact DG.init hN hI hP
  · intro acc s _ hacc
    exact hacc.step hL batch hck s

/-! ### the clear jobs -/

theorem clearAll_gi {D : Prop} {L : Log} {R : List Chg} {A : List (Nat × Nat)} (hL : LogOK L)
    (C : List (Nat × Nat × Nat)) (N : Node) (hG : GI D L N.booked N.seqRows N.buf R C A) :
    GI D L (clearAll N C).booked (clearAll N C).seqRows (clearAll N C).buf R [] A := by
  induction C generalizing N with
  | nil => exact hG
  | cons c C ih =>
    show GI D L (clearAll (N.clearMeta c.1 c.2.1 c.2.2) C).booked _ _ R [] A
    apply ih
    have hb : (N.clearMeta c.1 c.2.1 c.2.2).booked = N.booked := rfl
    rw [hb]
    refine gi_clear hG hL (fun r => mem_clearMeta_rows) (fun x => mem_clearMeta_buf) ?_ ?_ ?_
    · intro v h1 h2
      exact (inClears_cons c C c.1 v).mpr (Or.inl ⟨rfl, h1, h2⟩)
    · intro a v h
      rcases (inClears_cons c C a v).mp h with ⟨h1, h2⟩ | h
      · exact Or.inr ⟨h1.symm, h2⟩
      · exact Or.inl h
    · intro a v h
      exact (inClears_cons c C a v).mpr (Or.inr h)

/-! ### the applies (alive nodes) -/

theorem applyAll_gi {D : Prop} {L : Log} {R : List Chg} (hL : LogOK L) (hD : ¬ D) (A : List (Nat × Nat))
    (N : Node) (M : List Chg) (hG : GI D L N.booked N.seqRows N.buf (M ++ R) [] A)
    (hdbv : ∀ a, dbvOf N a ≤ (N.booked a).max) :
    GI D L (applyAll N A).booked (applyAll N A).seqRows (applyAll N A).buf ((M ++ applyMerged N A) ++ R) [] [] ∧
    ∀ a, dbvOf (applyAll N A) a ≤ ((applyAll N A).booked a).max := by
  induction A generalizing N M with
  | nil =>
    refine ⟨?_, hdbv⟩
    show GI D L N.booked N.seqRows N.buf ((M ++ []) ++ R) [] []
    rw [List.append_nil]; exact hG
  | cons t A ih =>
    rw [applyMerged_cons]
    show GI D L (applyAll (N.applyBuffered t.1 t.2) A).booked _ _ _ [] [] ∧
      ∀ a, dbvOf (applyAll (N.applyBuffered t.1 t.2) A) a ≤ ((applyAll (N.applyBuffered t.1 t.2) A).booked a).max
    rw [← List.append_assoc]
    apply ih
    · have := gi_apply hG hL hD t.1 t.2 (A' := A) (by
        intro t' ht'
        rcases List.mem_cons.mp ht' with h | h
        · exact Or.inl h
        · exact Or.inr h)
      apply this.congr_R
      intro e
      simp only [List.mem_append]
      constructor
      · rintro (h | h | h)
        · exact Or.inl (Or.inr h)
        · exact Or.inl (Or.inl h)
        · exact Or.inr h
      · rintro ((h | h) | h)
        · exact Or.inr (Or.inl h)
        · exact Or.inl h
        · exact Or.inr (Or.inr h)
    · exact dbv_le_applyBuffered hdbv t.1 t.2
        (fun p hp => ((containsVersion_iff _ _).mp (hG.part_known t.1 t.2 p hp)).2)

/-! ### the whole batch -/

/-- **`held_inv`, one BATCH, any node**: delivering ANY batch of changesets that satisfy `ChunkOK` —
several changesets of several actors, duplicates, chunks of the same version, `Empty` ranges, in any
order — to a node that is dead or alive, with or without complete-but-unapplied versions, preserves
the crash-tolerant node invariant, with the ghost list extended by what the batch merged.  On a dead
node the applies scheduled by the batch do not run: the versions the batch completed stay complete
but unapplied (not `Held`) until a restart. -/
theorem kinv_deliverB {L : Log} {n : Node} {R : List Chg} {batch : List Item} (hN : NInv L n R)
    (hI : Crash.KInv L n R) (hL : LogOK L) (hck : ∀ it ∈ batch, ChunkOK L it) :
    Crash.KInv L (n.deliver batch) (mergedByBatch n batch ++ R) := by
  have hdg := deliverFoldG_gi (D := n.alive = false) hN hI (fun _ _ h => h) hL batch hck
  have hgi := hdg.gi
  have halive := hdg.alive
  have hsorted := hdg.sorted
  have hdbv := hdg.dbv
  rw [deliverFoldG_fst] at hgi halive hsorted hdbv
  have hcl := clearAll_gi hL _ _ hgi
  have hal2 : (clearAll (deliverFold n batch).1 (deliverFold n batch).2.2).alive = n.alive := by
    rw [clearAll_alive, halive]
  have hdbv2 : ∀ a, dbvOf (clearAll (deliverFold n batch).1 (deliverFold n batch).2.2) a ≤
      ((clearAll (deliverFold n batch).1 (deliverFold n batch).2.2).booked a).max := by
    intro a
    rw [dbvOf_clearAll, booked_of_book (clearAll_book _ _) a]
    exact hdbv a
  rw [deliver_eq', mergedByBatch_eq]
  unfold finish
  cases hal : n.alive with
  | true =>
    rw [hal] at hal2
    rw [if_pos hal2, if_pos hal2]
    have hD : ¬ (n.alive = false) := by rw [hal]; exact Bool.noConfusion
    obtain ⟨h1, h2⟩ := applyAll_gi hL hD _ _ _ hcl hdbv2
    have hal3 : (applyAll (clearAll (deliverFold n batch).1 (deliverFold n batch).2.2)
        (deliverFold n batch).2.1).alive = true := by rw [applyAll_alive]; exact hal2
    have := cinv_of_gi h1 (fun _ => rfl) (applyAll_sorted (by rw [clearAll_book]; exact hsorted) _) h2
    exact this.mono (fun _ _ h => absurd h hD)
  | false =>
    rw [hal] at hal2
    have hnal : ¬ ((clearAll (deliverFold n batch).1 (deliverFold n batch).2.2).alive = true) := by
      rw [hal2]; exact Bool.noConfusion
    rw [if_neg hnal, if_neg hnal]
    have := cinv_of_gi hcl (fun h => absurd hal h) (by rw [clearAll_book]; exact hsorted) hdbv2
    exact this.mono (fun _ _ _ => hal2)

/-- a batch does not touch the `alive` flag -/
theorem deliverB_alive {P : Nat → Nat → Prop} {L : Log} {n : Node} {R : List Chg} {batch : List Item}
    (hN : NInv L n R) (hI : Crash.CInv P L n R) (hL : LogOK L) (hck : ∀ it ∈ batch, ChunkOK L it) :
    (n.deliver batch).alive = n.alive := by
  have hdg := deliverFoldG_gi (D := True) hN hI (fun _ _ _ => trivial) hL batch hck
  have halive := hdg.alive
  rw [deliverFoldG_fst] at halive
  rw [deliver_eq']
  unfold finish
  split
  · rw [applyAll_alive, clearAll_alive, halive]
  · rw [clearAll_alive, halive]

/-- a batch to an ALIVE node with nothing pending leaves nothing pending -/
theorem ainv_deliverB {L : Log} {n : Node} {R : List Chg} {batch : List Item} (hN : NInv L n R)
    (hI : Crash.CInv Crash.NoneP L n R) (hal : n.alive = true) (hL : LogOK L)
    (hck : ∀ it ∈ batch, ChunkOK L it) :
    Crash.CInv Crash.NoneP L (n.deliver batch) (mergedByBatch n batch ++ R) :=
  (kinv_deliverB hN (hI.mono (fun _ _ h' => absurd h' id)) hL hck).mono (fun _ _ h' => by
    rw [deliverB_alive hN hI hL hck, hal] at h'; cases h')

/-- a sequence of batches to one node -/
theorem deliverB_fold_kinv {L : Log} (hL : LogOK L) (batches : List (List Item)) (s : Node × List Chg)
    (hN : NInv L s.1 s.2) (hI : Crash.KInv L s.1 s.2) (hck : ∀ b ∈ batches, ∀ it ∈ b, ChunkOK L it) :
    Crash.FullK L (batches.foldl deliverB s).1 (batches.foldl deliverB s).2 := by
  induction batches generalizing s with
  | nil => exact ⟨hN, hI⟩
  | cons b batches ih =>
    have h1 := hck b List.mem_cons_self
    exact ih (deliverB s b)
      (ninv_deliverB hN hL (fun it hit => chunkOK_changes hL (h1 it hit)))
      (kinv_deliverB hN hI hL h1)
      (fun x hx => hck x (List.mem_cons_of_mem _ hx))

end Corro.ClusterSys.Full
