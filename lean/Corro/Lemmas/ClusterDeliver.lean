/-
C01, protocol level — `Node.deliver` of a batch with ONE changeset, in closed form for every shape
of changeset (already known / complete / complete and empty / `Empty` range / backward range /
incomplete chunk with or without the apply it triggers), for ANY node state; what it merges into the
store (`mergedBy_spec`) and where its buffered rows come from.
-/
import Corro.Lemmas.NodeUnchunked
import Corro.Lemmas.ClusterCrdt

namespace Corro.ClusterSys
open Corro.Crdt Corro.Node

/-! ### the clearing branch (complete changesets and `Empty` ranges) -/

/-- the node after a changeset that completes / clears the versions `vlo..=vhi` of actor `a`:
`N` is the node after the data part of the transaction, `B` the new bookkeeping of `a` -/
def clearedNode (N : Node) (a vlo vhi : Nat) (B : Booked) : Node :=
  clearAll (N.setBooked a B) (if hasBufferedMeta N a vlo vhi then [(a, vlo, vhi)] else [])

theorem clearedNode_eq (N : Node) (a vlo vhi : Nat) (B : Booked) :
    clearedNode N a vlo vhi B =
      if hasBufferedMeta N a vlo vhi then (N.setBooked a B).clearMeta a vlo vhi else N.setBooked a B := by
  unfold clearedNode
  split <;> rfl

theorem clearedNode_booked_same (N : Node) (a vlo vhi : Nat) (B : Booked) :
    (clearedNode N a vlo vhi B).booked a = B := by
  rw [clearedNode_eq]
  split
  · rw [booked_clearMeta, booked_setBooked_same]
  · rw [booked_setBooked_same]

theorem clearedNode_booked_other (N : Node) (a vlo vhi : Nat) (B : Booked) (a' : Nat) (h : a' ≠ a) :
    (clearedNode N a vlo vhi B).booked a' = N.booked a' := by
  rw [clearedNode_eq]
  split
  · rw [booked_clearMeta, booked_setBooked_other _ _ _ _ h]
  · rw [booked_setBooked_other _ _ _ _ h]

theorem clearedNode_db (N : Node) (a vlo vhi : Nat) (B : Booked) :
    (clearedNode N a vlo vhi B).db = N.db := by
  rw [clearedNode_eq]; split <;> simp

theorem clearedNode_alive (N : Node) (a vlo vhi : Nat) (B : Booked) :
    (clearedNode N a vlo vhi B).alive = N.alive := by
  rw [clearedNode_eq]; split <;> simp

theorem clearedNode_sorted {N : Node} (h : N.book.Pairwise (fun x y => x.1 < y.1)) (a vlo vhi : Nat)
    (B : Booked) : (clearedNode N a vlo vhi B).book.Pairwise (fun x y => x.1 < y.1) := by
  rw [clearedNode_eq]
  split
  · exact setBooked_sorted h a B
  · exact setBooked_sorted h a B

theorem mem_clearedNode_rows {N : Node} {a vlo vhi : Nat} {B : Booked} {r : SeqRow} :
    r ∈ (clearedNode N a vlo vhi B).seqRows ↔
      r ∈ N.seqRows ∧ ¬ (r.site = a ∧ vlo ≤ r.ver ∧ r.ver ≤ vhi) := by
  rw [clearedNode_eq]
  split
  · rw [mem_clearMeta_rows, setBooked_seqRows]
  · rename_i h
    have := (hasBufferedMeta_false (Bool.eq_false_iff.mpr h)).2
    rw [setBooked_seqRows]
    exact ⟨fun hr => ⟨hr, this r hr⟩, fun hr => hr.1⟩

theorem mem_clearedNode_buf {N : Node} {a vlo vhi : Nat} {B : Booked} {c : Chg} :
    c ∈ (clearedNode N a vlo vhi B).buf ↔
      c ∈ N.buf ∧ ¬ (c.site = a ∧ vlo ≤ c.dbv ∧ c.dbv ≤ vhi) := by
  rw [clearedNode_eq]
  split
  · rw [mem_clearMeta_buf, setBooked_buf]
  · rename_i h
    have := (hasBufferedMeta_false (Bool.eq_false_iff.mpr h)).1
    rw [setBooked_buf]
    exact ⟨fun hr => ⟨hr, this c hr⟩, fun hr => hr.1⟩

/-! ### closed forms -/

theorem deliver_full_skip (n : Node) (site ver lo hi last : Nat) (cs : List Chg)
    (h : (n.booked site).containsAll ver ver (some (lo, hi)) = true) :
    n.deliver [Item.full site ver lo hi last cs] = n :=
  deliver_single_skip n (Item.full site ver lo hi last cs) h

theorem deliver_empty_skip (n : Node) (site vlo vhi : Nat)
    (h : (n.booked site).containsAll vlo vhi none = true) :
    n.deliver [Item.empty site vlo vhi] = n :=
  deliver_single_skip n (Item.empty site vlo vhi) h

/-- a complete changeset with changes: merged right away, booked, stale partial and meta dropped -/
theorem deliver_full_complete (n : Node) (site ver last : Nat) (cs : List Chg)
    (hnc : (n.booked site).containsAll ver ver (some (0, last)) = false) (hne : cs ≠ []) :
    n.deliver [Item.full site ver 0 last last cs] =
      clearedNode (n.mergeChanges cs) site ver ver
        (((n.booked site).insertDb [(ver, ver)]).dropPartials ver ver) := by
  have h1 : deliverFold n [Item.full site ver 0 last last cs] =
      processActor n site [Item.full site ver 0 last last cs] :=
    deliverFold_single n (Item.full site ver 0 last last cs) hnc
  rw [deliver_eq', h1, processActor_single_complete n site ver last cs hnc hne, finish_noApplies]
  rfl

/-- a complete changeset without changes: the version is booked as cleared -/
theorem deliver_full_cleared (n : Node) (site ver last : Nat)
    (hnc : (n.booked site).containsAll ver ver (some (0, last)) = false) :
    n.deliver [Item.full site ver 0 last last []] =
      clearedNode (if (n.booked site).max ≤ ver then n.bumpDbv site ver else n) site ver ver
        (((n.booked site).insertDb [(ver, ver)]).dropPartials ver ver) := by
  have h1 : deliverFold n [Item.full site ver 0 last last []] =
      processActor n site [Item.full site ver 0 last last []] :=
    deliverFold_single n (Item.full site ver 0 last last []) hnc
  rw [deliver_eq', h1, processActor_single_cleared n site ver last hnc, finish_noApplies]
  rfl

theorem containsAll_backward (b : Booked) (vlo vhi : Nat) (s : Option (Nat × Nat)) (h : vhi < vlo) :
    b.containsAll vlo vhi s = true := by
  unfold Booked.containsAll
  have : vhi + 1 - vlo = 0 := by omega
  rw [this]; rfl

theorem alreadySeen_nil_empty (s vlo vhi : Nat) (h : vlo ≤ vhi) :
    alreadySeen [] (Item.empty s vlo vhi) = false := by
  unfold alreadySeen
  simp only [Item.versions, Item.seqs]
  have : vhi + 1 - vlo = (vhi - vlo) + 1 := by omega
  rw [this, List.range_succ_eq_map]
  simp [seenGet]

/-- an `Empty` changeset: the whole range is booked as cleared -/
theorem processActor_single_empty (n : Node) (site vlo vhi : Nat)
    (hnc : (n.booked site).containsAll vlo vhi none = false) :
    processActor n site [Item.empty site vlo vhi] =
      (((if (n.booked site).max ≤ vhi then n.bumpDbv site vhi else n).setBooked site
          (((n.booked site).insertDb [(vlo, vhi)]).dropPartials vlo vhi)),
        [],
        (if hasBufferedMeta (if (n.booked site).max ≤ vhi then n.bumpDbv site vhi else n) site vlo vhi
          then [(site, vlo, vhi)] else [])) := by
  have hle : vlo ≤ vhi := by
    apply Classical.byContradiction
    intro h
    rw [containsAll_backward _ _ _ _ (by omega)] at hnc
    cases hnc
  have htx : txFold n site [Item.empty site vlo vhi] =
      stCleared (n.booked site) { node := n, seen := [], processed := [], clears := [] } site vlo vhi := by
    unfold txFold
    simp only [List.foldl_cons, List.foldl_nil]
    rw [processOne_empty, hnc, alreadySeen_nil_empty _ _ _ hle]
    simp
  rw [processActor_node, htx]
  unfold stCleared committed procRanges
  simp only [List.nil_append, List.isEmpty_cons, Bool.false_eq_true, if_false, List.map_cons,
    List.map_nil, List.foldl_cons, List.foldl_nil, commitStep]

theorem deliver_empty (n : Node) (site vlo vhi : Nat)
    (hnc : (n.booked site).containsAll vlo vhi none = false) :
    n.deliver [Item.empty site vlo vhi] =
      clearedNode (if (n.booked site).max ≤ vhi then n.bumpDbv site vhi else n) site vlo vhi
        (((n.booked site).insertDb [(vlo, vhi)]).dropPartials vlo vhi) := by
  have h1 : deliverFold n [Item.empty site vlo vhi] = processActor n site [Item.empty site vlo vhi] :=
    deliverFold_single n (Item.empty site vlo vhi) hnc
  rw [deliver_eq', h1, processActor_single_empty n site vlo vhi hnc, finish_noApplies]
  rfl

/-- an incomplete changeset with a backward range is ignored -/
theorem deliver_full_backward (n : Node) (site ver lo hi last : Nat) (cs : List Chg)
    (hnc : (n.booked site).containsAll ver ver (some (lo, hi)) = false) (hlt : hi < lo) :
    n.deliver [Item.full site ver lo hi last cs] = n := by
  have h1 : deliverFold n [Item.full site ver lo hi last cs] =
      processActor n site [Item.full site ver lo hi last cs] :=
    deliverFold_single n (Item.full site ver lo hi last cs) hnc
  have hc : (lo == 0 && hi == last) = false := by
    cases h : (lo == 0 && hi == last) with
    | false => rfl
    | true =>
      simp only [Bool.and_eq_true, beq_iff_eq] at h
      omega
  have htx : txFold n site [Item.full site ver lo hi last cs] =
      { node := n, seen := [], processed := [], clears := [] } := by
    unfold txFold
    simp only [List.foldl_cons, List.foldl_nil]
    rw [processOne_full, hnc, alreadySeen_nil_full, hc]
    simp [hlt]
  have h2 : processActor n site [Item.full site ver lo hi last cs] = (n, [], []) := by
    rw [processActor_eq, htx]
    rfl
  rw [deliver_eq', h1, h2, finish_nil]

/-- the bookkeeping after buffering the chunk `[lo, hi]` of `(site, ver)` -/
def bufBooked (n : Node) (site ver lo hi last : Nat) (cs : List Chg) : Booked :=
  (((n.booked site).insertDb [(ver, ver)]).insertPartial ver
    ⟨[(n.bufferChunk site ver lo hi last cs).2], last⟩).1

/-- the partial of `(site, ver)` after buffering the chunk -/
def bufPartial (n : Node) (site ver lo hi last : Nat) (cs : List Chg) : Partial :=
  mergedPartial ((n.booked site).insertDb [(ver, ver)]) ver
    ⟨[(n.bufferChunk site ver lo hi last cs).2], last⟩

/-- the node right after the transaction that buffered the chunk -/
def bufNode (n : Node) (site ver lo hi last : Nat) (cs : List Chg) : Node :=
  (n.bufferChunk site ver lo hi last cs).1.setBooked site (bufBooked n site ver lo hi last cs)

theorem bufNode_partial (n : Node) (site ver lo hi last : Nat) (cs : List Chg) :
    ((bufNode n site ver lo hi last cs).booked site).partial? ver =
      some (bufPartial n site ver lo hi last cs) := by
  unfold bufNode bufBooked bufPartial
  rw [booked_setBooked_same, partial?_insertPartial_same]

/-- an incomplete chunk: buffered, booked as partial; applied at once if it completed the version
and the apply loop runs -/
theorem deliver_full_buffer (n : Node) (site ver lo hi last : Nat) (cs : List Chg)
    (hnc : (n.booked site).containsAll ver ver (some (lo, hi)) = false) (hlh : lo ≤ hi)
    (hinc : ¬ (lo = 0 ∧ hi = last)) :
    n.deliver [Item.full site ver lo hi last cs] =
      if (bufPartial n site ver lo hi last cs).complete && n.alive then
        (bufNode n site ver lo hi last cs).applyBuffered site ver
      else bufNode n site ver lo hi last cs := by
  have h1 : deliverFold n [Item.full site ver lo hi last cs] =
      processActor n site [Item.full site ver lo hi last cs] :=
    deliverFold_single n (Item.full site ver lo hi last cs) hnc
  rw [deliver_eq', h1, processActor_single_buffer n site ver lo hi last cs hnc hlh hinc]
  have hal : (bufNode n site ver lo hi last cs).alive = n.alive := by
    unfold bufNode; simp
  show finish (bufNode n site ver lo hi last cs,
    (if (bufPartial n site ver lo hi last cs).complete then [(site, ver)] else []), []) = _
  unfold finish
  simp only [clearAll_nil, hal]
  cases hc : (bufPartial n site ver lo hi last cs).complete <;> cases ha : n.alive <;> simp [applyAll]

/-! ### what a delivery merges -/

theorem mergeAll_nil (db : Db) : mergeAll db [] = db := rfl

/-- **the ghost list is exact**: delivering one changeset merges exactly `mergedBy n it`, in that
order, into the store -/
theorem mergedBy_spec (n : Node) (it : Item) :
    (n.deliver [it]).db = mergeAll n.db (mergedBy n it) := by
  cases it with
  | empty site vlo vhi =>
    show _ = n.db
    cases hc : (n.booked site).containsAll vlo vhi none with
    | true => rw [deliver_empty_skip n site vlo vhi hc]
    | false =>
      rw [deliver_empty n site vlo vhi hc, clearedNode_db]
      split <;> simp
  | full site ver lo hi last cs =>
    unfold mergedBy
    cases hc : (n.booked site).containsAll ver ver (some (lo, hi)) with
    | true =>
      rw [deliver_full_skip n site ver lo hi last cs hc]
      simp only [hc, if_true]
      rfl
    | false =>
      simp only [hc, Bool.false_eq_true, if_false]
      by_cases hcomp : lo = 0 ∧ hi = last
      · obtain ⟨rfl, rfl⟩ := hcomp
        simp only [beq_self_eq_true, Bool.and_self, if_true]
        by_cases hne : cs = []
        · subst hne
          rw [deliver_full_cleared n site ver hi hc, clearedNode_db]
          split <;> simp [mergeAll_nil]
        · rw [deliver_full_complete n site ver hi cs hc hne, clearedNode_db, mergeChanges_db]
      · have hb : (lo == 0 && hi == last) = false := by
          cases h : (lo == 0 && hi == last) with
          | false => rfl
          | true =>
            simp only [Bool.and_eq_true, beq_iff_eq] at h
            exact absurd h hcomp
        simp only [hb, Bool.false_eq_true, if_false]
        by_cases hlt : hi < lo
        · rw [deliver_full_backward n site ver lo hi last cs hc hlt]
          simp [hlt, mergeAll_nil]
        · simp only [hlt, if_false]
          rw [deliver_full_buffer n site ver lo hi last cs hc (by omega) hcomp, insertPartial_snd]
          show _ = mergeAll n.db (if (bufPartial n site ver lo hi last cs).complete && n.alive then _ else [])
          split
          · rename_i hca
            simp only [Bool.and_eq_true] at hca
            rw [applyBuffered_complete _ site ver _ (bufNode_partial n site ver lo hi last cs) hca.1,
              clearMeta_db, applyCore_db]
            unfold bufNode
            simp only [setBooked_db, bufferChunk_db, setBooked_buf]
            rfl
          · unfold bufNode
            simp [mergeAll_nil]

/-- the changes a changeset carries -/
def itemChanges : Item → List Chg
  | .full _ _ _ _ _ cs => cs
  | .empty .. => []

theorem mem_applyBuffered_buf {n : Node} {a v : Nat} {e : Chg} (h : e ∈ (n.applyBuffered a v).buf) :
    e ∈ n.buf := by
  unfold Node.applyBuffered at h
  simp only at h
  split at h
  · exact h
  · split at h
    · exact h
    · rw [mem_clearMeta_buf, setBooked_buf] at h
      have := h.1
      split at this
      · simpa using this
      · simpa using this

/-- every buffered row after a delivery was buffered before or came with the changeset -/
theorem mem_deliver_buf {n : Node} {it : Item} {e : Chg} (h : e ∈ (n.deliver [it]).buf) :
    e ∈ n.buf ∨ e ∈ itemChanges it := by
  cases it with
  | empty site vlo vhi =>
    cases hc : (n.booked site).containsAll vlo vhi none with
    | true => rw [deliver_empty_skip n site vlo vhi hc] at h; exact Or.inl h
    | false =>
      rw [deliver_empty n site vlo vhi hc, mem_clearedNode_buf] at h
      left
      have := h.1
      split at this <;> simpa using this
  | full site ver lo hi last cs =>
    cases hc : (n.booked site).containsAll ver ver (some (lo, hi)) with
    | true => rw [deliver_full_skip n site ver lo hi last cs hc] at h; exact Or.inl h
    | false =>
      by_cases hcomp : lo = 0 ∧ hi = last
      · obtain ⟨rfl, rfl⟩ := hcomp
        by_cases hne : cs = []
        · subst hne
          rw [deliver_full_cleared n site ver hi hc, mem_clearedNode_buf] at h
          left
          have := h.1
          split at this <;> simpa using this
        · rw [deliver_full_complete n site ver hi cs hc hne, mem_clearedNode_buf] at h
          left
          simpa using h.1
      · by_cases hlt : hi < lo
        · rw [deliver_full_backward n site ver lo hi last cs hc hlt] at h; exact Or.inl h
        · rw [deliver_full_buffer n site ver lo hi last cs hc (by omega) hcomp] at h
          have hX : ∀ e, e ∈ (bufNode n site ver lo hi last cs).buf → e ∈ n.buf ∨ e ∈ cs := by
            intro e he
            unfold bufNode at he
            rw [setBooked_buf] at he
            exact mem_bufferChunk_buf he
          split at h
          · exact hX e (mem_applyBuffered_buf h)
          · exact hX e h

end Corro.ClusterSys
