/-
Helper lemmas for C14 (update feed): `lookup`/`upsert` algebra, the coherence invariant of the
batching loop and its preservation.  Core Lean only.
-/
import Corro.Model.Updates

namespace Corro.Updates

/-! ### lookup / upsert -/

theorem lookup_upsert_self (k v : Nat) (l : List Cand) : lookup k (upsert k v l) = some v := by
  induction l with
  | nil => simp [upsert, lookup]
  | cons c rest ih =>
    unfold upsert
    split
    · simp [lookup]
    · rename_i h; simp [lookup, h, ih]

theorem lookup_upsert_ne {k k' : Nat} (v : Nat) (l : List Cand) (h : k' ≠ k) :
    lookup k' (upsert k v l) = lookup k' l := by
  induction l with
  | nil => simp [upsert, lookup]; exact fun e => h e.symm
  | cons c rest ih =>
    unfold upsert
    split
    · rename_i hc; simp only [lookup]
      rw [if_neg (fun e => h e.symm), if_neg (fun e => h (hc ▸ e).symm)]
    · simp only [lookup]; rw [ih]

theorem lookup_isSome_iff_mem_keys (k : Nat) (l : List Cand) :
    (lookup k l).isSome ↔ k ∈ l.map (·.1) := by
  induction l with
  | nil => simp [lookup]
  | cons c rest ih =>
    simp only [lookup, List.map_cons, List.mem_cons]
    split
    · rename_i h; simp [h]
    · rename_i h; rw [ih]; constructor
      · intro h'; exact Or.inr h'
      · intro h'; rcases h' with h' | h'
        · exact absurd h'.symm h
        · exact h'

theorem lookup_eq_none_iff (k : Nat) (l : List Cand) : lookup k l = none ↔ k ∉ l.map (·.1) := by
  rw [← lookup_isSome_iff_mem_keys]; cases lookup k l <;> simp

theorem lookup_some_mem {k v : Nat} {l : List Cand} (h : lookup k l = some v) : (k, v) ∈ l := by
  induction l with
  | nil => simp [lookup] at h
  | cons c rest ih =>
    simp only [lookup] at h
    split at h
    · rename_i hc; simp only [Option.some.injEq] at h; subst h; subst hc; simp
    · exact List.mem_cons_of_mem _ (ih h)

theorem keys_upsert (k v : Nat) (l : List Cand) :
    (upsert k v l).map (·.1) = if k ∈ l.map (·.1) then l.map (·.1) else l.map (·.1) ++ [k] := by
  induction l with
  | nil => simp [upsert]
  | cons c rest ih =>
    unfold upsert
    split
    · rename_i h; simp [h]
    · rename_i h
      simp only [List.map_cons, ih, List.mem_cons]
      have : ¬ k = c.1 := fun e => h e.symm
      by_cases hm : k ∈ rest.map (·.1)
      · simp [hm]
      · simp [hm, this]

theorem length_upsert_le (k v : Nat) (l : List Cand) : (upsert k v l).length ≤ l.length + 1 := by
  have := congrArg List.length (keys_upsert k v l)
  simp only [List.length_map] at this
  rw [this]; split <;> simp

theorem nodup_keys_upsert {k v : Nat} {l : List Cand} (h : (l.map (·.1)).Nodup) :
    ((upsert k v l).map (·.1)).Nodup := by
  rw [keys_upsert]
  split
  · exact h
  · rename_i hk
    rw [List.nodup_append]
    refine ⟨h, by simp, ?_⟩
    intro a ha b hb
    simp only [List.mem_singleton] at hb
    subst hb; intro e; subst e; exact hk ha

theorem mem_keys_upsert (k v k' : Nat) (l : List Cand) :
    k' ∈ (upsert k v l).map (·.1) ↔ k' = k ∨ k' ∈ l.map (·.1) := by
  rw [keys_upsert]; split
  · rename_i h; constructor
    · exact Or.inr
    · rintro (rfl | h'); exact h; exact h'
  · simp only [List.mem_append, List.mem_singleton]; constructor
    · rintro (h' | h'); exact Or.inr h'; exact Or.inl h'
    · rintro (h' | h'); exact Or.inr h'; exact Or.inl h'

/-- with distinct keys, a suffix of the map agrees with the map wherever it is defined -/
theorem lookup_drop {k v : Nat} (n : Nat) {l : List Cand} (hn : (l.map (·.1)).Nodup)
    (h : lookup k (l.drop n) = some v) : lookup k l = some v := by
  induction n generalizing l with
  | zero => simpa using h
  | succ n ih =>
    cases l with
    | nil => simp [lookup] at h
    | cons c rest =>
      simp only [List.drop_succ_cons] at h
      simp only [List.map_cons, List.nodup_cons] at hn
      have hr := ih hn.2 h
      simp only [lookup]
      split
      · rename_i hc
        have : k ∈ rest.map (·.1) := (lookup_isSome_iff_mem_keys k rest).1 (by simp [hr])
        exact absurd (hc ▸ this) hn.1
      · exact hr

theorem lookup_evict {p : Params} {k v : Nat} {l : List Cand} (hn : (l.map (·.1)).Nodup)
    (h : lookup k (evict p l) = some v) : lookup k l = some v := by
  unfold evict at h
  split at h
  · exact lookup_drop _ hn h
  · exact h

theorem nodup_keys_evict {p : Params} {l : List Cand} (hn : (l.map (·.1)).Nodup) :
    ((evict p l).map (·.1)).Nodup := by
  unfold evict
  split
  · rw [List.map_drop]; exact (List.drop_sublist _ _).nodup hn
  · exact hn

/-! ### events of a flush -/

theorem clsOf_nil (k : Nat) : clsOf k [] = [] := rfl

theorem clsOf_append (k : Nat) (a b : List Event) : clsOf k (a ++ b) = clsOf k a ++ clsOf k b := by
  simp [clsOf]

theorem clsOf_map_toEvent_of_none {k : Nat} {l : List Cand} (h : lookup k l = none) :
    clsOf k (l.map toEvent) = [] := by
  induction l with
  | nil => rfl
  | cons c rest ih =>
    simp only [lookup] at h
    split at h
    · simp at h
    · rename_i hc
      simp only [List.map_cons, clsOf, List.filter_cons, toEvent]
      simp only [clsOf] at ih
      simp [hc, ih h]

theorem clsOf_map_toEvent_of_some {k v : Nat} {l : List Cand} (hn : (l.map (·.1)).Nodup)
    (h : lookup k l = some v) : clsOf k (l.map toEvent) = [v] := by
  induction l with
  | nil => simp [lookup] at h
  | cons c rest ih =>
    simp only [List.map_cons, List.nodup_cons] at hn
    simp only [lookup] at h
    split at h
    · rename_i hc
      simp only [Option.some.injEq] at h
      have hnone : lookup k rest = none := by
        rw [lookup_eq_none_iff]; rw [← hc]; exact hn.1
      have := clsOf_map_toEvent_of_none hnone
      simp only [clsOf] at this
      simp [clsOf, toEvent, hc, h, this]
    · rename_i hc
      have := ih hn.2 h
      simp only [clsOf] at this
      simp [clsOf, toEvent, hc, this]

/-! ### the coherence invariant -/

/-- what every reachable state of the loop satisfies -/
structure Coh (s : St) : Prop where
  cacheNodup : (s.cache.map (·.1)).Nodup
  bufNodup : (s.buf.map (·.1)).Nodup
  agree : ∀ k c b, lookup k s.cache = some c → lookup k s.buf = some b → b = c
  count : s.bufCount = 0 → s.buf = []

theorem coh_init : Coh init := ⟨by simp [init], by simp [init], by simp [init, lookup], by simp [init]⟩

theorem stale_false_iff {s : St} {c : Cand} :
    stale s c = false ↔ ∀ old, lookup c.1 s.cache = some old → old ≤ c.2 := by
  unfold stale
  cases h : lookup c.1 s.cache with
  | none => simp
  | some old => simp

theorem coh_pushCand {s : St} (c : Cand) (h : Coh s) : Coh (pushCand s c) := by
  unfold pushCand
  split
  · exact h
  · refine ⟨nodup_keys_upsert h.cacheNodup, nodup_keys_upsert h.bufNodup, ?_, by simp⟩
    intro k cc b hc hb
    simp only at hc hb
    by_cases hk : k = c.1
    · subst hk
      rw [lookup_upsert_self] at hc hb
      simp only [Option.some.injEq] at hc hb; omega
    · rw [lookup_upsert_ne _ _ hk] at hc hb
      exact h.agree k cc b hc hb

theorem coh_fold {s : St} (b : List Cand) (h : Coh s) : Coh (b.foldl pushCand s) := by
  induction b generalizing s with
  | nil => exact h
  | cons c rest ih => exact ih (coh_pushCand c h)

theorem coh_arm {p : Params} {s : St} (x : In) (h : Coh s) : Coh (arm p s x) := by
  cases x with
  | tick =>
    simp only [arm]; split
    · exact ⟨h.cacheNodup, h.bufNodup, h.agree, h.count⟩
    · exact h
  | batch b =>
    have h1 := coh_fold b h
    have h2 : Coh { (b.foldl pushCand s) with cache := evict p (b.foldl pushCand s).cache } :=
      ⟨nodup_keys_evict h1.cacheNodup, h1.bufNodup,
        fun k c bb hc hb => h1.agree k c bb (lookup_evict h1.cacheNodup hc) hb, h1.count⟩
    simp only [arm]; split
    · exact ⟨h2.cacheNodup, h2.bufNodup, h2.agree, h2.count⟩
    · exact h2

theorem coh_finish {s : St} (h : Coh s) : Coh (finish s).1 := by
  unfold finish; split
  · exact ⟨h.cacheNodup, by simp, by simp [lookup], by simp⟩
  · exact h

theorem coh_step {p : Params} {s : St} (x : In) (h : Coh s) : Coh (step p s x).1 :=
  coh_finish (coh_arm x h)

theorem coh_stateAfter {p : Params} {s : St} (xs : List In) (h : Coh s) : Coh (stateAfter p s xs) := by
  induction xs generalizing s with
  | nil => exact h
  | cons x xs ih => exact ih (coh_step x h)

theorem finish_cache (s : St) : (finish s).1.cache = s.cache := by
  unfold finish; split <;> rfl

theorem step_cache (p : Params) (s : St) (x : In) : (step p s x).1.cache = (arm p s x).cache :=
  finish_cache _

/-! ### run algebra -/

theorem run_append (p : Params) (s : St) (xs ys : List In) :
    run p s (xs ++ ys) =
      ((run p (run p s xs).1 ys).1, (run p s xs).2 ++ (run p (run p s xs).1 ys).2) := by
  induction xs generalizing s with
  | nil => simp [run]
  | cons x xs ih => simp only [List.cons_append, run, ih, List.append_assoc]

theorem events_append (p : Params) (s : St) (xs ys : List In) :
    events p s (xs ++ ys) = events p s xs ++ events p (stateAfter p s xs) ys := by
  simp [events, stateAfter, run_append]

theorem stateAfter_append (p : Params) (s : St) (xs ys : List In) :
    stateAfter p s (xs ++ ys) = stateAfter p (stateAfter p s xs) ys := by
  simp [stateAfter, run_append]

theorem events_cons (p : Params) (s : St) (x : In) (xs : List In) :
    events p s (x :: xs) = (step p s x).2 ++ events p (step p s x).1 xs := by
  simp [events, run]

theorem stateAfter_cons (p : Params) (s : St) (x : In) (xs : List In) :
    stateAfter p s (x :: xs) = stateAfter p (step p s x).1 xs := by
  simp [stateAfter, run]

end Corro.Updates
