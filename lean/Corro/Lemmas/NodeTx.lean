/-
The transaction part of `process_multiple_changes` for one actor (`txFold`): invariant `TI` relating
the node inside the transaction, the `seen` map, the `processed` list and the scheduled clear jobs
to the node before the transaction.
-/
import Corro.Lemmas.NodeConsistent
namespace Corro.Node
open Corro.Crdt

/-! ### small lookups -/

theorem seenGet_cons (r : Nat × Nat) (p : Option Partial) (seen : List ((Nat × Nat) × Option Partial))
    (v : Nat) :
    seenGet (seenInsert seen r p) v = if r.1 ≤ v ∧ v ≤ r.2 then some p else seenGet seen v := by
  unfold seenGet seenInsert
  by_cases h : r.1 ≤ v ∧ v ≤ r.2
  · simp [h]
  · simp [h]

/-- a `Full` changeset that is not "already seen" was not cleared earlier in the transaction -/
theorem not_alreadySeen_full {seen : List ((Nat × Nat) × Option Partial)} {site ver lo hi last : Nat}
    {cs : List Chg} (h : alreadySeen seen (.full site ver lo hi last cs) = false) :
    seenGet seen ver ≠ some none := by
  intro hs
  unfold alreadySeen at h
  simp only [Item.versions, Item.seqs, show ver + 1 - ver = 1 by omega, List.range_succ, List.range_zero,
    List.nil_append, List.all_cons, List.all_nil, Bool.and_true, Nat.add_zero] at h
  rw [hs] at h
  cases h

theorem mem_bufferChunk_rows_other {n : Node} {site ver lo hi last : Nat} {cs : List Chg} {r : SeqRow}
    (h : ¬ (r.site = site ∧ r.ver = ver)) :
    r ∈ (n.bufferChunk site ver lo hi last cs).1.seqRows ↔ r ∈ n.seqRows := by
  rw [bufferChunk_eq]
  simp only [List.mem_append, List.mem_filter, List.mem_singleton]
  have ht : touching site ver lo hi r = false := by
    cases ht : touching site ver lo hi r with
    | false => rfl
    | true => exact absurd (touching_site ht) h
  constructor
  · rintro (⟨h1, _⟩ | h1)
    · exact h1
    · subst h1; exact absurd ⟨rfl, rfl⟩ h
  · intro h1; exact Or.inl ⟨h1, by simp [ht]⟩

theorem mem_bufferChunk_buf {n : Node} {site ver lo hi last : Nat} {cs : List Chg} {c : Chg} :
    c ∈ (n.bufferChunk site ver lo hi last cs).1.buf → c ∈ n.buf ∨ c ∈ cs := by
  rw [bufferChunk_eq]; exact mem_bufAdd

theorem mem_buf_bufferChunk {n : Node} {site ver lo hi last : Nat} {cs : List Chg} {c : Chg}
    (h : c ∈ n.buf) : c ∈ (n.bufferChunk site ver lo hi last cs).1.buf := by
  rw [bufferChunk_eq]; exact (bufAdd_prefix n.buf cs).subset h

theorem hasRows_bufferChunk_same (n : Node) (site ver lo hi last : Nat) (cs : List Chg) :
    HasRows (n.bufferChunk site ver lo hi last cs).1 site ver :=
  ⟨⟨site, ver, mergedLo n.seqRows site ver lo hi, mergedHi n.seqRows site ver lo hi, last⟩,
    by rw [bufferChunk_eq]; simp, rfl, rfl⟩

theorem hasRows_bufferChunk_other (n : Node) (site ver lo hi last : Nat) (cs : List Chg) (a v : Nat)
    (h : ¬ (a = site ∧ v = ver)) :
    HasRows (n.bufferChunk site ver lo hi last cs).1 a v ↔ HasRows n a v := by
  unfold HasRows
  constructor
  · rintro ⟨r, hr, hs, hv⟩
    exact ⟨r, (mem_bufferChunk_rows_other (by rw [hs, hv]; exact h)).mp hr, hs, hv⟩
  · rintro ⟨r, hr, hs, hv⟩
    exact ⟨r, (mem_bufferChunk_rows_other (by rw [hs, hv]; exact h)).mpr hr, hs, hv⟩

/-! ### the invariant -/

/-- a processed entry that cleared / completed its versions -/
def Processed.isNone (e : Processed) : Prop := e.part = none

structure TI (L : Nat → Nat → Nat) (n : Node) (site : Nat) (st : TxSt) : Prop where
  book : st.node.book = n.book
  alive : st.node.alive = n.alive
  id : st.node.id = n.id
  other : ∀ a, a ≠ site → (∀ r, r.site = a → (r ∈ st.node.seqRows ↔ r ∈ n.seqRows)) ∧
    (∀ c, c.site = a → (c ∈ st.node.buf ↔ c ∈ n.buf)) ∧ dbvOf st.node a = dbvOf n a
  seenNone : ∀ v, (∃ e ∈ st.processed, e.part = none ∧ e.vlo ≤ v ∧ v ≤ e.vhi) →
    seenGet st.seen v = some none
  pw : st.processed.Pairwise (fun e f => e.part = none → f.part.isSome = true →
    ¬ (e.vlo ≤ f.vlo ∧ f.vlo ≤ e.vhi))
  shape : ∀ e ∈ st.processed, e.vlo ≤ e.vhi ∧ ∀ q, e.part = some q →
    e.vlo = e.vhi ∧ RSet.WF q.seqs ∧ q.last = L site e.vlo ∧
      (∀ p0, (n.booked site).partial? e.vlo = some p0 → p0.complete = false)
  clearsFrom : ∀ c ∈ st.clears, c.1 = site ∧
    ∃ e ∈ st.processed, e.part = none ∧ c.2.1 = e.vlo ∧ c.2.2 = e.vhi
  cleared : ∀ e ∈ st.processed, e.part = none → ∀ v, e.vlo ≤ v → v ≤ e.vhi →
    (HasRows st.node site v ∨ ∃ c ∈ st.node.buf, c.site = site ∧ c.dbv = v) →
      ∃ c ∈ st.clears, c.2.1 ≤ v ∧ v ≤ c.2.2
  rows_fwd : ∀ r ∈ st.node.seqRows, r.site = site → r.lo ≤ r.hi ∧ r.last = L site r.ver
  seqmem : ∀ v x, SeqMem st.node.seqRows site v x ↔ SeqMem n.seqRows site v x ∨
    ∃ e ∈ st.processed, e.vlo = v ∧ ∃ q, e.part = some q ∧ RSet.Mem q.seqs x
  buf_cov : ∀ c ∈ st.node.buf, c.site = site → SeqMem st.node.seqRows site c.dbv c.seq
  dbv_ge : dbvOf n site ≤ dbvOf st.node site
  dbv_le : dbvOf st.node site ≤ dbvOf n site ∨ ∃ e ∈ st.processed, dbvOf st.node site ≤ e.vhi
  dbv_none : ∀ e ∈ st.processed, e.part = none → (n.booked site).max ≤ e.vhi →
    e.vhi ≤ dbvOf st.node site

theorem TI.init (L : Nat → Nat → Nat) (n : Node) (site : Nat) (hc : ConsA L n site) :
    TI L n site { node := n, seen := [], processed := [], clears := [] } := by
  refine ⟨rfl, rfl, rfl, fun a _ => ⟨fun _ _ => Iff.rfl, fun _ _ => Iff.rfl, rfl⟩, ?_, List.Pairwise.nil,
    (fun e he => by cases he), (fun c hc' => by cases hc'), (fun e he => by cases he),
    hc.rows_fwd, ?_, hc.buf_cov, Nat.le_refl _, Or.inl (Nat.le_refl _), (fun e he => by cases he)⟩
  · rintro v ⟨e, he, _⟩; cases he
  · intro v x
    constructor
    · intro h; exact Or.inl h
    · rintro (h | ⟨e, he, _⟩)
      · exact h
      · cases he

end Corro.Node
