/-
The transaction part of `process_multiple_changes` for one actor (`txFold`): invariant `TI` relating
the node inside the transaction, the `seen` map, the `processed` list and the scheduled clear jobs
to the node before the transaction.
-/
import Corro.Lemmas.NodeConsistent
namespace Corro.Node
open Corro.Crdt

/-! ### small lookups -/

theorem seenGet_cons (r : Nat × Nat) (p : Option Partial) (seen : List ((Nat × Nat) × Option Partial))
    (v : Nat) :
    seenGet (seenInsert seen r p) v = if r.1 ≤ v ∧ v ≤ r.2 then some p else seenGet seen v := by
  unfold seenGet seenInsert
  by_cases h : r.1 ≤ v ∧ v ≤ r.2
  · simp [h]
  · simp [h]

/-- a `Full` changeset that is not "already seen" was not cleared earlier in the transaction -/
theorem not_alreadySeen_full {seen : List ((Nat × Nat) × Option Partial)} {site ver lo hi last : Nat}
    {cs : List Chg} (h : alreadySeen seen (.full site ver lo hi last cs) = false) :
    seenGet seen ver ≠ some none := by
  intro hs
  unfold alreadySeen at h
  simp only [Item.versions, Item.seqs, show ver + 1 - ver = 1 by omega, List.range_succ, List.range_zero,
    List.nil_append, List.all_cons, List.all_nil, Bool.and_true, Nat.add_zero] at h
  rw [hs] at h
  cases h

theorem mem_bufferChunk_rows_other {n : Node} {site ver lo hi last : Nat} {cs : List Chg} {r : SeqRow}
    (h : ¬ (r.site = site ∧ r.ver = ver)) :
    r ∈ (n.bufferChunk site ver lo hi last cs).1.seqRows ↔ r ∈ n.seqRows := by
  rw [bufferChunk_eq]
  simp only [List.mem_append, List.mem_filter, List.mem_singleton]
  have ht : touching site ver lo hi r = false := by
    cases ht : touching site ver lo hi r with
    | false => rfl
    | true => exact absurd (touching_site ht) h
  constructor
  · rintro (⟨h1, _⟩ | h1)
    · exact h1
    · subst h1; exact absurd ⟨rfl, rfl⟩ h
  · intro h1; exact Or.inl ⟨h1, by simp [ht]⟩

theorem mem_bufferChunk_buf {n : Node} {site ver lo hi last : Nat} {cs : List Chg} {c : Chg} :
    c ∈ (n.bufferChunk site ver lo hi last cs).1.buf → c ∈ n.buf ∨ c ∈ cs := by
  rw [bufferChunk_eq]; exact mem_bufAdd

theorem mem_buf_bufferChunk {n : Node} {site ver lo hi last : Nat} {cs : List Chg} {c : Chg}
    (h : c ∈ n.buf) : c ∈ (n.bufferChunk site ver lo hi last cs).1.buf := by
  rw [bufferChunk_eq]; exact (bufAdd_prefix n.buf cs).subset h

theorem hasRows_bufferChunk_same (n : Node) (site ver lo hi last : Nat) (cs : List Chg) :
    HasRows (n.bufferChunk site ver lo hi last cs).1 site ver :=
  ⟨⟨site, ver, mergedLo n.seqRows site ver lo hi, mergedHi n.seqRows site ver lo hi, last⟩,
    by rw [bufferChunk_eq]; simp, rfl, rfl⟩

theorem hasRows_bufferChunk_other (n : Node) (site ver lo hi last : Nat) (cs : List Chg) (a v : Nat)
    (h : ¬ (a = site ∧ v = ver)) :
    HasRows (n.bufferChunk site ver lo hi last cs).1 a v ↔ HasRows n a v := by
  unfold HasRows
  constructor
  · rintro ⟨r, hr, hs, hv⟩
    exact ⟨r, (mem_bufferChunk_rows_other (by rw [hs, hv]; exact h)).mp hr, hs, hv⟩
  · rintro ⟨r, hr, hs, hv⟩
    exact ⟨r, (mem_bufferChunk_rows_other (by rw [hs, hv]; exact h)).mpr hr, hs, hv⟩

/-! ### the invariant -/

/-- a processed entry that cleared / completed its versions -/
def Processed.isNone (e : Processed) : Prop := e.part = none

structure TI (L : Nat → Nat → Nat) (n : Node) (site : Nat) (st : TxSt) : Prop where
  book : st.node.book = n.book
  alive : st.node.alive = n.alive
  id : st.node.id = n.id
  other : ∀ a, a ≠ site → (∀ r, r.site = a → (r ∈ st.node.seqRows ↔ r ∈ n.seqRows)) ∧
    (∀ c, c.site = a → (c ∈ st.node.buf ↔ c ∈ n.buf)) ∧ dbvOf st.node a = dbvOf n a
  seenNone : ∀ v, (∃ e ∈ st.processed, e.part = none ∧ e.vlo ≤ v ∧ v ≤ e.vhi) →
    seenGet st.seen v = some none
  pw : st.processed.Pairwise (fun e f => e.part = none → f.part.isSome = true →
    ¬ (e.vlo ≤ f.vlo ∧ f.vlo ≤ e.vhi))
  shape : ∀ e ∈ st.processed, e.vlo ≤ e.vhi ∧ ∀ q, e.part = some q →
    e.vlo = e.vhi ∧ RSet.WF q.seqs ∧ q.last = L site e.vlo ∧
      (∀ p0, (n.booked site).partial? e.vlo = some p0 → p0.complete = false) ∧
      ∃ x, RSet.Mem q.seqs x
  clearsFrom : ∀ c ∈ st.clears, c.1 = site ∧
    ∃ e ∈ st.processed, e.part = none ∧ c.2.1 = e.vlo ∧ c.2.2 = e.vhi
  cleared : ∀ e ∈ st.processed, e.part = none → ∀ v, e.vlo ≤ v → v ≤ e.vhi →
    (HasRows st.node site v ∨ ∃ c ∈ st.node.buf, c.site = site ∧ c.dbv = v) →
      ∃ c ∈ st.clears, c.2.1 ≤ v ∧ v ≤ c.2.2
  rows_fwd : ∀ r ∈ st.node.seqRows, r.site = site → r.lo ≤ r.hi ∧ r.last = L site r.ver
  seqmem : ∀ v x, SeqMem st.node.seqRows site v x ↔ SeqMem n.seqRows site v x ∨
    ∃ e ∈ st.processed, e.vlo = v ∧ ∃ q, e.part = some q ∧ RSet.Mem q.seqs x
  buf_cov : ∀ c ∈ st.node.buf, c.site = site → SeqMem st.node.seqRows site c.dbv c.seq
  dbv_ge : dbvOf n site ≤ dbvOf st.node site
  dbv_le : dbvOf st.node site ≤ dbvOf n site ∨ ∃ e ∈ st.processed, dbvOf st.node site ≤ e.vhi
  dbv_none : ∀ e ∈ st.processed, e.part = none → (n.booked site).max ≤ e.vhi →
    e.vhi ≤ dbvOf st.node site

theorem TI.init (L : Nat → Nat → Nat) (n : Node) (site : Nat) (hc : ConsA L n site) :
    TI L n site { node := n, seen := [], processed := [], clears := [] } := by
  refine ⟨rfl, rfl, rfl, fun a _ => ⟨fun _ _ => Iff.rfl, fun _ _ => Iff.rfl, rfl⟩, ?_, List.Pairwise.nil,
    (fun e he => by cases he), (fun c hc' => by cases hc'), (fun e he => by cases he),
    hc.rows_fwd, ?_, hc.buf_cov, Nat.le_refl _, Or.inl (Nat.le_refl _), (fun e he => by cases he)⟩
  · rintro v ⟨e, he, _⟩; cases he
  · intro v x
    constructor
    · intro h; exact Or.inl h
    · rintro (h | ⟨e, he, _⟩)
      · exact h
      · cases he

theorem dbvOf_congr {n n' : Node} (h : n'.dbv = n.dbv) (a : Nat) : dbvOf n' a = dbvOf n a := by
  unfold dbvOf; rw [h]

theorem hasBufferedMeta_of {n : Node} {site vlo vhi v : Nat} (h1 : vlo ≤ v) (h2 : v ≤ vhi)
    (h : HasRows n site v ∨ ∃ c ∈ n.buf, c.site = site ∧ c.dbv = v) :
    hasBufferedMeta n site vlo vhi = true := by
  unfold hasBufferedMeta
  simp only [Bool.or_eq_true, List.any_eq_true, decide_eq_true_eq]
  rcases h with ⟨r, hr, hs, hv⟩ | ⟨c, hc, hs, hv⟩
  · exact Or.inr ⟨r, hr, hs, by omega, by omega⟩
  · exact Or.inl ⟨c, hc, hs, by omega, by omega⟩

/-! ### the step that buffers a chunk -/

theorem TI.buffer {L : Nat → Nat → Nat} {n : Node} {site : Nat} {st : TxSt} (h : TI L n site st)
    (ver lo hi last : Nat) (cs : List Chg) (hlh : lo ≤ hi) (hlast : last = L site ver)
    (hcw : ChunkWF site ver lo hi cs) (hseen : seenGet st.seen ver ≠ some none)
    (hp0 : ∀ p0, (n.booked site).partial? ver = some p0 → p0.complete = false) :
    TI L n site (stBuffer st site ver lo hi last cs) := by
  have hf : ∀ r ∈ rowsOf st.node.seqRows site ver, r.lo ≤ r.hi := by
    intro r hr; have := mem_rowsOf.mp hr; exact (h.rows_fwd r this.1 this.2.1).1
  have hmlo := mergedLo_le st.node.seqRows site ver lo hi
  have hmhi := le_mergedHi st.node.seqRows site ver lo hi
  have hnone : ∀ e ∈ st.processed, e.part = none → ¬ (e.vlo ≤ ver ∧ ver ≤ e.vhi) := by
    intro e he hn hc
    exact hseen (h.seenNone ver ⟨e, he, hn, hc.1, hc.2⟩)
  have hsm := seqMem_bufferChunk st.node site ver lo hi last cs hlh hf
  have hsmo := seqMem_bufferChunk_other st.node site ver lo hi last cs
  unfold stBuffer
  simp only
  refine ⟨h.book, h.alive, h.id, ?_, ?_, ?_, ?_, ?_, ?_, ?_, ?_, ?_, ?_, ?_, ?_⟩
  · intro a ha
    obtain ⟨o1, o2, o3⟩ := h.other a ha
    refine ⟨?_, ?_, ?_⟩
    · intro r hr
      rw [mem_bufferChunk_rows_other (by rw [hr]; intro hc; exact ha hc.1)]
      exact o1 r hr
    · intro c hc
      rw [← o2 c hc]
      constructor
      · intro hm
        rcases mem_bufferChunk_buf hm with h1 | h1
        · exact h1
        · exact absurd ((hcw c h1).1 ▸ hc) (fun h' => ha h'.symm)
      · exact mem_buf_bufferChunk
    · exact (dbvOf_congr (bufferChunk_dbv _ _ _ _ _ _ _) a).trans o3
  · rintro v ⟨e, he, hn, hc1, hc2⟩
    rcases List.mem_append.mp he with he' | he'
    · rw [seenGet_cons]
      by_cases hv : ver ≤ v ∧ v ≤ ver
      · have hvv : v = ver := by omega
        rw [hvv] at hc1 hc2
        exact absurd ⟨hc1, hc2⟩ (hnone e he' hn)
      · rw [if_neg hv]; exact h.seenNone v ⟨e, he', hn, hc1, hc2⟩
    · simp only [List.mem_singleton] at he'
      rw [he'] at hn; cases hn
  · rw [List.pairwise_append]
    refine ⟨h.pw, List.pairwise_singleton _ _, ?_⟩
    intro e he f hf'
    simp only [List.mem_singleton] at hf'
    subst hf'
    intro hn _
    exact hnone e he hn
  · intro e he
    rcases List.mem_append.mp he with he | he
    · exact h.shape e he
    · simp only [List.mem_singleton] at he
      subst he
      refine ⟨Nat.le_refl _, ?_⟩
      intro q hq
      simp only [Option.some.injEq] at hq
      subst hq
      refine ⟨rfl, ?_, hlast, hp0, ?_⟩
      · rw [bufferChunk_eq]
        exact ⟨Nat.zero_le _, by show mergedLo _ _ _ _ _ ≤ mergedHi _ _ _ _ _; omega, trivial⟩
      · rw [bufferChunk_eq]
        refine ⟨mergedLo st.node.seqRows site ver lo hi, ?_⟩
        simp only [RSet.mem_singleton]
        omega
  · intro c hc
    obtain ⟨h1, e, he, h2⟩ := h.clearsFrom c hc
    exact ⟨h1, e, by simp [he], h2⟩
  · intro e he hn v hv1 hv2 hex
    rcases List.mem_append.mp he with he' | he'
    · have hvne : v ≠ ver := by
        intro hvv; rw [hvv] at hv1 hv2; exact hnone e he' hn ⟨hv1, hv2⟩
      apply h.cleared e he' hn v hv1 hv2
      rcases hex with hr | ⟨c, hc, hs, hd⟩
      · exact Or.inl ((hasRows_bufferChunk_other _ _ _ _ _ _ _ site v (fun hc => hvne hc.2)).mp hr)
      · right
        rcases mem_bufferChunk_buf hc with h1 | h1
        · exact ⟨c, h1, hs, hd⟩
        · exact absurd ((hcw c h1).2.1 ▸ hd) (fun h' => hvne h'.symm)
    · simp only [List.mem_singleton] at he'
      rw [he'] at hn; cases hn
  · intro r hr hs
    by_cases hv : r.ver = ver
    · rw [bufferChunk_eq] at hr
      simp only [List.mem_append, List.mem_filter, List.mem_singleton] at hr
      rcases hr with ⟨h1, _⟩ | h1
      · exact h.rows_fwd r h1 hs
      · subst h1
        exact ⟨by show mergedLo _ _ _ _ _ ≤ mergedHi _ _ _ _ _; omega, hlast⟩
    · rw [mem_bufferChunk_rows_other (fun hc => hv hc.2)] at hr
      exact h.rows_fwd r hr hs
  · intro v x
    by_cases hv : v = ver
    · subst hv
      have hnew : SeqMem (st.node.bufferChunk site v lo hi last cs).1.seqRows site v x ↔
          SeqMem st.node.seqRows site v x ∨
            RSet.Mem [(st.node.bufferChunk site v lo hi last cs).2] x := by
        rw [hsm x, bufferChunk_eq]
        simp only [RSet.mem_singleton]
        constructor
        · rintro (h1 | h1)
          · exact Or.inl h1
          · right; omega
        · rintro (h1 | h1)
          · exact Or.inl h1
          · rw [← hsm x]
            exact ⟨⟨site, v, mergedLo st.node.seqRows site v lo hi, mergedHi st.node.seqRows site v lo hi, last⟩,
              by rw [bufferChunk_eq]; simp, rfl, rfl, h1.1, h1.2⟩
      rw [hnew, h.seqmem v x]
      constructor
      · rintro ((h1 | ⟨e, he, h2⟩) | h1)
        · exact Or.inl h1
        · exact Or.inr ⟨e, by simp [he], h2⟩
        · exact Or.inr ⟨⟨v, v, some ⟨[(st.node.bufferChunk site v lo hi last cs).2], last⟩⟩,
            List.mem_append.mpr (Or.inr (List.mem_singleton.mpr rfl)), rfl, _, rfl, h1⟩
      · rintro (h1 | ⟨e, he, h2, q, h3, h4⟩)
        · exact Or.inl (Or.inl h1)
        · rcases List.mem_append.mp he with he | he
          · exact Or.inl (Or.inr ⟨e, he, h2, q, h3, h4⟩)
          · simp only [List.mem_singleton] at he
            subst he
            simp only [Option.some.injEq] at h3
            subst h3
            exact Or.inr h4
    · rw [hsmo site v (fun hc => hv hc.2) x, h.seqmem v x]
      constructor
      · rintro (h1 | ⟨e, he, h2⟩)
        · exact Or.inl h1
        · exact Or.inr ⟨e, by simp [he], h2⟩
      · rintro (h1 | ⟨e, he, h2, h3⟩)
        · exact Or.inl h1
        · rcases List.mem_append.mp he with he | he
          · exact Or.inr ⟨e, he, h2, h3⟩
          · simp only [List.mem_singleton] at he
            subst he
            exact absurd h2.symm hv
  · intro c hc hs
    rcases mem_bufferChunk_buf hc with h1 | h1
    · have := h.buf_cov c h1 hs
      by_cases hv : c.dbv = ver
      · rw [hv, hsm]; left; rw [← hv]; exact this
      · rw [hsmo site c.dbv (fun hc' => hv hc'.2)]; exact this
    · have := hcw c h1
      rw [this.2.1, hsm]; right; exact this.2.2
  · exact h.dbv_ge
  · rcases h.dbv_le with h1 | ⟨e, he, h1⟩
    · exact Or.inl h1
    · exact Or.inr ⟨e, by simp [he], h1⟩
  · intro e he hn hm
    rcases List.mem_append.mp he with he' | he'
    · exact h.dbv_none e he' hn hm
    · simp only [List.mem_singleton] at he'
      rw [he'] at hn; cases hn

/-! ### the step that clears / completes a version range -/

theorem TI.noneStep {L : Nat → Nat → Nat} {n : Node} {site : Nat} {st : TxSt} (h : TI L n site st)
    (N' : Node) (vlo vhi : Nat) (hv : vlo ≤ vhi)
    (hbook : N'.book = st.node.book) (halive : N'.alive = st.node.alive) (hid : N'.id = st.node.id)
    (hrows : N'.seqRows = st.node.seqRows) (hbuf : N'.buf = st.node.buf)
    (hdo : ∀ a, a ≠ site → dbvOf N' a = dbvOf st.node a)
    (hd1 : dbvOf st.node site ≤ dbvOf N' site)
    (hd2 : dbvOf N' site ≤ dbvOf st.node site ∨ dbvOf N' site ≤ vhi)
    (hd3 : (n.booked site).max ≤ vhi → vhi ≤ dbvOf N' site) :
    TI L n site
      { node := N', seen := seenInsert st.seen (vlo, vhi) none,
        processed := st.processed ++ [⟨vlo, vhi, none⟩],
        clears := if hasBufferedMeta N' site vlo vhi then st.clears ++ [(site, vlo, vhi)] else st.clears } := by
  have hhr : ∀ v, HasRows N' site v ↔ HasRows st.node site v := by
    intro v; unfold HasRows; rw [hrows]
  refine ⟨hbook.trans h.book, halive.trans h.alive, hid.trans h.id, ?_, ?_, ?_, ?_, ?_, ?_, ?_, ?_, ?_, ?_, ?_, ?_⟩
  · intro a ha
    obtain ⟨o1, o2, o3⟩ := h.other a ha
    exact ⟨by rw [hrows]; exact o1, by rw [hbuf]; exact o2, (hdo a ha).trans o3⟩
  · rintro v ⟨e, he, hn, hc1, hc2⟩
    simp only at he
    rw [seenGet_cons]
    by_cases hvv : vlo ≤ v ∧ v ≤ vhi
    · rw [if_pos hvv]
    · rw [if_neg hvv]
      rcases List.mem_append.mp he with he' | he'
      · exact h.seenNone v ⟨e, he', hn, hc1, hc2⟩
      · simp only [List.mem_singleton] at he'
        rw [he'] at hc1 hc2
        exact absurd ⟨hc1, hc2⟩ hvv
  · simp only
    rw [List.pairwise_append]
    refine ⟨h.pw, List.pairwise_singleton _ _, ?_⟩
    intro e _ f hf'
    simp only [List.mem_singleton] at hf'
    rw [hf']
    intro _ hs; cases hs
  · intro e he
    simp only at he
    rcases List.mem_append.mp he with he' | he'
    · exact h.shape e he'
    · simp only [List.mem_singleton] at he'
      rw [he']
      exact ⟨hv, fun q hq => by cases hq⟩
  · intro c hc
    simp only at hc
    have hold : ∀ c ∈ st.clears, c.1 = site ∧
        ∃ e ∈ st.processed ++ [(⟨vlo, vhi, none⟩ : Processed)], e.part = none ∧ c.2.1 = e.vlo ∧ c.2.2 = e.vhi := by
      intro c hc
      obtain ⟨h1, e, he, h2⟩ := h.clearsFrom c hc
      exact ⟨h1, e, by simp [he], h2⟩
    split at hc
    · rcases List.mem_append.mp hc with hc' | hc'
      · exact hold c hc'
      · simp only [List.mem_singleton] at hc'
        rw [hc']
        exact ⟨rfl, ⟨vlo, vhi, none⟩, by simp, rfl, rfl, rfl⟩
    · exact hold c hc
  · intro e he hn v hv1 hv2 hex
    simp only at he hex ⊢
    have hex' : HasRows st.node site v ∨ ∃ c ∈ st.node.buf, c.site = site ∧ c.dbv = v := by
      rw [← hhr v, ← hbuf]; exact hex
    rcases List.mem_append.mp he with he' | he'
    · obtain ⟨c, hc, h1⟩ := h.cleared e he' hn v hv1 hv2 hex'
      refine ⟨c, ?_, h1⟩
      split
      · exact List.mem_append.mpr (Or.inl hc)
      · exact hc
    · simp only [List.mem_singleton] at he'
      rw [he'] at hv1 hv2
      simp only at hv1 hv2
      rw [if_pos (hasBufferedMeta_of hv1 hv2 hex)]
      exact ⟨(site, vlo, vhi), by simp, hv1, hv2⟩
  · simp only; rw [hrows]; exact h.rows_fwd
  · intro v x
    simp only
    rw [hrows, h.seqmem v x]
    constructor
    · rintro (h1 | ⟨e, he, h2⟩)
      · exact Or.inl h1
      · exact Or.inr ⟨e, by simp [he], h2⟩
    · rintro (h1 | ⟨e, he, h2, q, h3, h4⟩)
      · exact Or.inl h1
      · rcases List.mem_append.mp he with he' | he'
        · exact Or.inr ⟨e, he', h2, q, h3, h4⟩
        · simp only [List.mem_singleton] at he'
          rw [he'] at h3; cases h3
  · simp only; rw [hrows, hbuf]; exact h.buf_cov
  · exact Nat.le_trans h.dbv_ge hd1
  · simp only
    rcases hd2 with h1 | h1
    · rcases h.dbv_le with h2 | ⟨e, he, h2⟩
      · exact Or.inl (Nat.le_trans h1 h2)
      · exact Or.inr ⟨e, by simp [he], Nat.le_trans h1 h2⟩
    · exact Or.inr ⟨⟨vlo, vhi, none⟩, by simp, h1⟩
  · intro e he hn hm
    simp only at he ⊢
    rcases List.mem_append.mp he with he' | he'
    · exact Nat.le_trans (h.dbv_none e he' hn hm) hd1
    · simp only [List.mem_singleton] at he'
      rw [he'] at hm ⊢
      exact hd3 hm

theorem TI.complete {L : Nat → Nat → Nat} {n : Node} {site : Nat} {st : TxSt} (h : TI L n site st)
    (ver : Nat) (cs : List Chg) (hne : cs ≠ []) (hcs : ∀ c ∈ cs, c.site = site ∧ c.dbv = ver) :
    TI L n site (stComplete st site ver cs) := by
  have hmax : ∀ x y : Nat, Nat.max x y = max x y := fun _ _ => rfl
  have hd := dbvOf_mergeChanges st.node cs site ver hcs
  unfold stComplete
  simp only
  refine h.noneStep (st.node.mergeChanges cs) ver ver (Nat.le_refl _) (mergeChanges_book _ _)
    (mergeChanges_alive _ _) (mergeChanges_id _ _) (mergeChanges_seqRows _ _) (mergeChanges_buf _ _)
    ?_ ?_ ?_ ?_
  · intro a ha; rw [hd a, if_neg (fun hc => ha hc.1)]
  · rw [hd site, if_pos ⟨rfl, hne⟩, hmax]; omega
  · rw [hd site, if_pos ⟨rfl, hne⟩, hmax]; omega
  · intro _; rw [hd site, if_pos ⟨rfl, hne⟩, hmax]; omega

theorem TI.clearedStep {L : Nat → Nat → Nat} {n : Node} {site : Nat} {st : TxSt} (h : TI L n site st)
    (vlo vhi : Nat) (hv : vlo ≤ vhi) :
    TI L n site (stCleared (n.booked site) st site vlo vhi) := by
  have hmax : ∀ x y : Nat, Nat.max x y = max x y := fun _ _ => rfl
  unfold stCleared
  simp only
  by_cases hm : (n.booked site).max ≤ vhi
  · simp only [if_pos hm]
    refine h.noneStep (st.node.bumpDbv site vhi) vlo vhi hv (bumpDbv_book _ _ _) (bumpDbv_alive _ _ _)
      (bumpDbv_id _ _ _) (bumpDbv_seqRows _ _ _) (bumpDbv_buf _ _ _) ?_ ?_ ?_ ?_
    · intro a ha; rw [dbvOf_bumpDbv, if_neg ha]
    · rw [dbvOf_bumpDbv, if_pos rfl, hmax]; omega
    · rw [dbvOf_bumpDbv, if_pos rfl, hmax]; omega
    · intro _; rw [dbvOf_bumpDbv, if_pos rfl, hmax]; omega
  · simp only [if_neg hm]
    exact h.noneStep st.node vlo vhi hv rfl rfl rfl rfl rfl (fun _ _ => rfl) (Nat.le_refl _)
      (Or.inl (Nat.le_refl _)) (fun hc => absurd hc hm)

/-! ### one changeset -/

/-- a version held as a complete partial (applied or not) is "contained" for every seq range up to
its `last_seq` -/
theorem contains_of_complete {b : Booked} {v lo hi : Nat} {p0 : Partial} (hw : RSet.WF p0.seqs)
    (hp : b.partial? v = some p0) (hc : p0.complete = true) (hhi : hi ≤ p0.last)
    (hk : v ≤ b.max ∧ ¬ RSet.Mem b.needed v) : b.contains v (some (lo, hi)) = true := by
  unfold Booked.contains Booked.containsVersion
  rw [hp]
  simp only [Bool.and_eq_true, Bool.not_eq_true', decide_eq_true_eq]
  refine ⟨⟨?_, hk.1⟩, ?_⟩
  · cases hcn : RSet.contains b.needed v with
    | false => rfl
    | true => exact absurd ((RSet.contains_iff _ _).mp hcn) hk.2
  · rw [wf_isEmpty_iff (RSet.gaps_wfFrom p0.seqs lo hi 0 hw)]
    intro x hx
    have := (RSet.mem_gaps p0.seqs lo hi x 0 hw).mp hx
    exact this.2 ((complete_iff hw).mp hc x (by omega))

theorem TI.step {L : Nat → Nat → Nat} {n : Node} {site : Nat} {st : TxSt} (hc : ConsA L n site)
    (h : TI L n site st) (it : Item) (hwf : ItemWF L it) (hs : it.site = site) :
    TI L n site (processOne (n.booked site) st it) := by
  cases it with
  | empty s vlo vhi =>
    simp only [Item.site] at hs
    subst hs
    rw [processOne_empty]
    split
    · exact h
    · split
      · exact h
      · exact h.clearedStep vlo vhi hwf
  | full s ver lo hi last cs =>
    simp only [Item.site] at hs
    subst hs
    obtain ⟨hl, hhi, hcw⟩ := hwf
    rw [processOne_full]
    split
    · exact h
    · rename_i hnc
      split
      · exact h
      · rename_i hns
        split
        · exact h.clearedStep ver ver (Nat.le_refl _)
        · rename_i hne
          split
          · exact h
          · rename_i hlh
            split
            · rename_i hcomp
              have hcs : cs ≠ [] := by
                intro he
                apply hne
                rw [hcomp, he]; rfl
              exact h.complete ver cs hcs (fun c hc' => ⟨(hcw c hc').1, (hcw c hc').2.1⟩)
            · refine h.buffer ver lo hi last cs (by omega) hl hcw ?_ ?_
              · exact not_alreadySeen_full (by simpa using hns)
              · intro p0 hp0
                cases hcc : p0.complete with
                | false => rfl
                | true =>
                  exfalso
                  apply hnc
                  rw [containsAll_single]
                  exact contains_of_complete (hc.pwf.of_partial? hp0) hp0 hcc
                    (by rw [hc.part_last ver p0 hp0, ← hl]; exact hhi) (hc.part_known ver p0 hp0)

theorem txFold_TI {L : Nat → Nat → Nat} {n : Node} {site : Nat} (hc : ConsA L n site) (items : List Item)
    (hwf : ∀ it ∈ items, ItemWF L it ∧ it.site = site) : TI L n site (txFold n site items) := by
  unfold txFold
  apply foldl_inv (TI L n site)
  · exact TI.init L n site hc
  · intro st it hit hst
    exact TI.step hc hst it (hwf it hit).1 (hwf it hit).2

end Corro.Node
