/-
The invariant of the ingest model (C10) is preserved by every event; what draining does.
-/
import Corro.Lemmas.IngestSeen

namespace Corro.Ingest
open Corro Corro.Node

/-! ### where changesets go -/

theorem mem_eraseIdx_flatten {l : List (List Item)} {i : Nat} {b : List Item} (h : l[i]? = some b) (it : Item) :
    it ∈ l.flatten ↔ it ∈ (l.eraseIdx i).flatten ∨ it ∈ b := by
  induction l generalizing i with
  | nil => simp at h
  | cons a t ih =>
    cases i with
    | zero =>
      simp at h; subst h
      simp [List.eraseIdx]; exact Or.comm
    | succ j =>
      simp at h
      simp only [List.eraseIdx, List.flatten_cons, List.mem_append, ih h]
      grind

theorem batchDone_pool_ok (p : Params) (s : State) (i : Nat) (wf : Bool) :
    ∀ it, it ∈ pool wf s ↔ it ∈ pool wf (batchDone p s i true) := by
  intro it
  unfold batchDone
  cases hb : s.inflight[i]? with
  | none => simp
  | some b =>
    simp only [if_true, pool, List.mem_append, List.flatten_append, List.flatten_cons, List.flatten_nil,
      List.append_nil, mem_eraseIdx_flatten hb it]
    grind

theorem batchDone_pool_err (p : Params) (s : State) (i : Nat) :
    ∀ it, it ∈ pool true s ↔ it ∈ pool true (batchDone p s i false) := by
  intro it
  unfold batchDone
  cases hb : s.inflight[i]? with
  | none => simp
  | some b =>
    simp only [pool, if_true, List.mem_append, List.flatten_append, List.flatten_cons, List.flatten_nil,
      List.append_nil, mem_eraseIdx_flatten hb it, Bool.false_eq_true, if_false]
    grind

theorem batchDone_frame (p : Params) (s : State) (i : Nat) (ok : Bool) :
    (batchDone p s i ok).queue = s.queue ∧
    (batchDone p s i ok).bufCost = s.bufCost ∧ (batchDone p s i ok).droppedItems = s.droppedItems ∧
    ((batchDone p s i ok).seen = s.seen ∨ (ok = false ∧ p.clearOnFail = true ∧ (batchDone p s i ok).seen = [])) := by
  unfold batchDone
  cases s.inflight[i]? with
  | none => simp
  | some b =>
    cases ok with
    | true => simp
    | false => cases hc : p.clearOnFail <;> simp

theorem flush_pool (p : Params) (wf : Bool) (s : State) : pool wf (flush p s) = pool wf s := by
  unfold flush
  split <;> simp [pool]

theorem trim_pool (p : Params) (wf : Bool) (s : State) : pool wf (trim p s) = pool wf s := by
  unfold trim
  split <;> simp [pool]


/-! ### frames of the small steps -/

theorem shed_frame (p : Params) (s : State) (it : Item) :
    (shed p s it).inflight = s.inflight ∧ (shed p s it).delivered = s.delivered ∧
    (shed p s it).failed = s.failed ∧ (shed p s it).node = s.node ∧
    ∀ x ∈ (shed p s it).queue, x ∈ s.queue := by
  unfold shed
  split
  · unfold dropOldest
    cases hq : s.queue with
    | nil => simp [hq]
    | cons d r => simp only [true_and]; intro x hx; exact List.mem_cons_of_mem _ hx
  · simp

theorem flush_frame (p : Params) (s : State) :
    (flush p s).seen = s.seen ∧ ∀ x ∈ (flush p s).queue, x ∈ s.queue := by
  unfold flush
  split <;> simp

theorem trim_queue (p : Params) (s : State) : (trim p s).queue = s.queue := by
  unfold trim
  split <;> rfl

theorem trim_seen (p : Params) (s : State) :
    (trim p s).seen = if s.seen.length > p.maxQueueLen then s.seen.drop (s.seen.length - p.keepSeen) else s.seen := by
  unfold trim
  split <;> simp_all

/-! ### the invariant -/

theorem seenInv_drop {sn : Seen} (n : Nat) (h : SeenInv sn) : SeenInv (sn.drop n) := by
  refine ⟨?_, fun e he => h.2 e (List.mem_of_mem_drop he)⟩
  rw [List.map_drop]
  exact List.Sublist.nodup (List.drop_sublist _ _) h.1

theorem inv_loopTop (p : Params) (wf : Bool) (s : State) (h : Inv wf s) : Inv wf (loopTop p s) := by
  obtain ⟨h1, h2, h3⟩ := h
  have hf := loopTop_frame p s
  refine ⟨by rw [hf.1]; exact h1, by rw [hf.1, loopTop_pool]; exact h2, ?_⟩
  intro it hit
  exact h3 it (loopTop_queue_mem p s it hit)

theorem inv_tick (p : Params) (wf : Bool) (s : State) (h : Inv wf s) : Inv wf (tick p s) := by
  obtain ⟨h1, h2, h3⟩ := h
  have hfl : Inv wf (flush p s) := by
    refine ⟨?_, ?_, ?_⟩
    · unfold flush; split <;> exact h1
    · rw [flush_pool]; unfold flush; split <;> exact h2
    · unfold flush; split
      · intro it hit; simp at hit
      · exact h3
  obtain ⟨g1, g2, g3⟩ := hfl
  unfold tick
  refine ⟨?_, ?_, ?_⟩
  · unfold trim; split
    · exact seenInv_drop _ g1
    · exact g1
  · rw [trim_pool]; unfold trim; split
    · intro e he; exact g2 e (List.mem_of_mem_drop he)
    · exact g2
  · unfold trim; split <;> exact g3

theorem inv_batchDone (p : Params) (wf : Bool) (s : State) (i : Nat) (ok : Bool)
    (hok : wf = false → ok = true ∨ p.clearOnFail = true)
    (h : Inv wf s) : Inv wf (batchDone p s i ok) := by
  obtain ⟨h1, h2, h3⟩ := h
  cases hb : s.inflight[i]? with
  | none =>
    have : batchDone p s i ok = s := by unfold batchDone; simp [hb]
    rw [this]; exact ⟨h1, h2, h3⟩
  | some b =>
    cases ok with
    | true =>
      have hseen : (batchDone p s i true).seen = s.seen := by unfold batchDone; simp [hb]
      have hq : (batchDone p s i true).queue = s.queue := by unfold batchDone; simp [hb]
      refine ⟨by rw [hseen]; exact h1, ?_, by rw [hq]; exact h3⟩
      rw [hseen]; exact soundWrt_mono (fun it hit => (batchDone_pool_ok p s i wf it).1 hit) h2
    | false =>
      have hq : (batchDone p s i false).queue = s.queue := by unfold batchDone; simp [hb]
      cases hc : p.clearOnFail with
      | true =>
        have hseen : (batchDone p s i false).seen = [] := by unfold batchDone; simp [hb, hc]
        exact ⟨by rw [hseen]; exact ⟨by simp, by simp⟩, by rw [hseen]; intro e he; simp at he,
          by rw [hq]; exact h3⟩
      | false =>
        have hseen : (batchDone p s i false).seen = s.seen := by unfold batchDone; simp [hb, hc]
        cases wf with
        | false => rcases hok rfl with h' | h' <;> simp_all
        | true =>
          refine ⟨by rw [hseen]; exact h1, ?_, by rw [hq]; exact h3⟩
          rw [hseen]; exact soundWrt_mono (fun it hit => (batchDone_pool_err p s i it).1 hit) h2

/-- load shedding with the repaired eviction -/
theorem inv_shed (p : Params) (hp : p.evictDropped = true) (wf : Bool) (s : State) (it : Item) (h : Inv wf s) :
    Inv wf (shed p s it) := by
  obtain ⟨h1, h2, h3⟩ := h
  unfold shed
  split
  · unfold dropOldest
    cases hq : s.queue with
    | nil => simp only; exact ⟨h1, h2, h3⟩
    | cons d rest =>
      simp only [hp, if_true]
      have hP : ∀ i ∈ pool wf s, i ∈ (s.inflight.flatten ++ rest ++ s.delivered.flatten ++
          (if wf then s.failed.flatten else [])) ∨ i = d := by
        intro i hi
        simp only [pool, hq, List.mem_append, List.mem_cons] at hi ⊢
        grind
      have := evictAll_inv h1 h2 hP (h3 d (by simp [hq]))
      refine ⟨this.1, this.2, ?_⟩
      intro i hi
      exact h3 i (by simp [hq]; right; exact hi)
  · exact ⟨h1, h2, h3⟩

theorem inv_enqueue (wf : Bool) (s : State) (it : Item) (hw : ItemWF it) (h : Inv wf s) :
    Inv wf (enqueue s it) := by
  obtain ⟨h1, h2, h3⟩ := h
  unfold enqueue
  have hmono : ∀ i ∈ pool wf s, i ∈ (s.inflight.flatten ++ (s.queue ++ [it]) ++ s.delivered.flatten ++
      (if wf then s.failed.flatten else [])) := by
    intro i hi
    simp only [pool, List.mem_append] at hi ⊢
    grind
  have hit : it ∈ (s.inflight.flatten ++ (s.queue ++ [it]) ++ s.delivered.flatten ++
      (if wf then s.failed.flatten else [])) := by
    simp
  have := record_inv hit hw s.seen h1 (soundWrt_mono hmono h2)
  refine ⟨this.1, this.2, ?_⟩
  intro i hi
  simp only [List.mem_append, List.mem_singleton] at hi
  rcases hi with hi | rfl
  · exact h3 i hi
  · exact hw

theorem itemWF_of_accepts {s : State} {it : Item} (h : accepts s it = true) : ItemWF it := by
  intro r hr
  cases it with
  | empty site vlo vhi => simp [Item.seqs] at hr
  | full site ver lo hi last cs =>
    simp only [Item.seqs, Option.some.injEq] at hr
    subst hr
    simp only [accepts, inverted, Bool.and_eq_true, Bool.not_eq_true', decide_eq_false_iff_not] at h
    omega

theorem inv_offer (p : Params) (hp : p.evictDropped = true) (wf : Bool) (s : State) (it : Item)
    (h : Inv wf s) : Inv wf (offer p s it) := by
  unfold offer
  split
  · rename_i hacc
    exact inv_enqueue wf _ it (itemWF_of_accepts hacc) (inv_shed p hp wf s it h)
  · exact h

/-- every event keeps the invariant — except, when failed batches are not part of the pool, a failing
batch in the variant that does not clear the cache -/
theorem inv_step (p : Params) (hp : p.evictDropped = true) (wf : Bool) (s : State) (ev : Event)
    (hfail : wf = false → p.clearOnFail = true ∨ ∀ i, ev ≠ .batchDone i false) (h : Inv wf s) :
    Inv wf (step p s ev) := by
  cases ev with
  | offer it b => exact inv_loopTop p wf _ (inv_offer p hp wf s it h)
  | tick => exact inv_loopTop p wf _ (inv_tick p wf s h)
  | batchDone i ok =>
    apply inv_loopTop
    apply inv_batchDone p wf s i ok _ h
    intro hwf
    cases ok with
    | true => left; rfl
    | false =>
      rcases hfail hwf with h' | h'
      · right; exact h'
      · exact absurd rfl (h' i)

theorem inv_init (wf : Bool) (n : Node) : Inv wf (State.init n) := by
  refine ⟨⟨by simp [State.init], by simp [State.init]⟩, ?_, by simp [State.init]⟩
  intro e he
  simp [State.init] at he

/-! ### the pool only grows while batches succeed and nothing is dropped -/

theorem pool_step_batchDone_ok (p : Params) (wf : Bool) (s : State) (i : Nat) :
    ∀ it, it ∈ pool wf s → it ∈ pool wf (step p s (.batchDone i true)) := by
  intro it hit
  simp only [step, loopTop_pool]
  exact (batchDone_pool_ok p s i wf it).1 hit

theorem pool_step_tick (p : Params) (wf : Bool) (s : State) : pool wf (step p s .tick) = pool wf s := by
  simp only [step, loopTop_pool, tick, trim_pool, flush_pool]

/-! ### draining -/

theorem step_stable (p : Params) (hc : 1 ≤ p.maxConcurrent) (s : State) (ev : Event) : Stable (step p s ev) := by
  cases ev <;> exact loopTop_stable p hc _

theorem measure_batchDone (p : Params) (s : State) (ok : Bool) (h : s.inflight ≠ []) :
    measure (step p s (.batchDone 0 ok)) < measure s := by
  simp only [step]
  refine Nat.lt_of_le_of_lt (spawnLoop_measure p _ _) ?_
  cases hi : s.inflight with
  | nil => exact absurd hi h
  | cons b t =>
    unfold batchDone
    simp only [hi, List.getElem?_cons_zero]
    cases ok <;> simp [measure, hi]

/-- with enough rounds, draining empties queue and running batches -/
theorem drainN_idle (p : Params) (ok : Bool) (hc : 1 ≤ p.maxConcurrent) : ∀ (n : Nat) (s : State),
    Stable s → measure s ≤ n → Idle (drainN p ok n s) := by
  intro n
  induction n with
  | zero =>
    intro s _ hm
    simp only [measure] at hm
    simp only [drainN, Idle]
    exact ⟨List.length_eq_zero_iff.1 (by omega), List.length_eq_zero_iff.1 (by omega)⟩
  | succ k ih =>
    intro s hst hm
    unfold drainN
    split
    · rename_i hemp
      have : s.inflight = [] := by simpa using hemp
      exact ⟨this, hst this⟩
    · rename_i hne
      have hne' : s.inflight ≠ [] := by simpa using hne
      apply ih _ (step_stable p hc s _)
      have := measure_batchDone p s ok hne'
      omega

theorem drain_idle (p : Params) (ok : Bool) (hc : 1 ≤ p.maxConcurrent) (s : State) (hst : Stable s) :
    Idle (drain p ok s) :=
  drainN_idle p ok hc _ s hst (by simp [measure])

theorem drainN_pool (p : Params) (wf : Bool) : ∀ (n : Nat) (s : State),
    ∀ it, it ∈ pool wf s → it ∈ pool wf (drainN p true n s) := by
  intro n
  induction n with
  | zero => intro s it h; exact h
  | succ k ih =>
    intro s it h
    unfold drainN
    split
    · exact h
    · exact ih _ it (pool_step_batchDone_ok p wf s 0 it h)

/-- draining is a run of at most `n` successful batch completions -/
theorem drainN_is_run (p : Params) (ok : Bool) : ∀ (n : Nat) (s : State),
    ∃ evs : List Event, evs.length ≤ n ∧ (∀ e ∈ evs, e = .batchDone 0 ok) ∧ drainN p ok n s = run p s evs := by
  intro n
  induction n with
  | zero => intro s; exact ⟨[], by simp, by simp, rfl⟩
  | succ k ih =>
    intro s
    unfold drainN
    split
    · exact ⟨[], by simp, by simp, rfl⟩
    · obtain ⟨evs, h1, h2, h3⟩ := ih (step p s (.batchDone 0 ok))
      refine ⟨.batchDone 0 ok :: evs, by simp; omega, ?_, ?_⟩
      · intro e he
        simp only [List.mem_cons] at he
        rcases he with rfl | he
        · rfl
        · exact h2 e he
      · rw [h3]; simp [run]

/-! ### bookkeeping is touched through `deliver` only -/

theorem step_node (p : Params) (s : State) (ev : Event) :
    ((step p s ev).delivered = s.delivered ∧ (step p s ev).node = s.node) ∨
    (∃ b, b ∈ s.inflight ∧ (step p s ev).delivered = s.delivered ++ [b] ∧ (step p s ev).node = s.node.deliver b) := by
  have hf := fun t => loopTop_frame p t
  cases ev with
  | offer it b =>
    left
    simp only [step, (hf _).2.1, (hf _).2.2.1]
    unfold offer
    split
    · simp only [enqueue, shed]
      split
      · unfold dropOldest; cases s.queue <;> simp
      · simp
    · simp
  | tick =>
    left
    simp only [step, (hf _).2.1, (hf _).2.2.1, tick]
    unfold trim flush
    split <;> split <;> simp
  | batchDone i ok =>
    simp only [step, (hf _).2.1, (hf _).2.2.1]
    unfold batchDone
    cases hb : s.inflight[i]? with
    | none => left; simp
    | some b =>
      cases ok with
      | false => left; simp
      | true => right; exact ⟨b, List.mem_of_getElem? hb, by simp, by simp⟩

/-! ### cost accounting and bounds -/

theorem step_bufCost (p : Params) (s : State) (ev : Event) (h : s.bufCost = costs s.queue) :
    (step p s ev).bufCost = costs (step p s ev).queue := by
  have key : ∀ t : State, t.bufCost = costs t.queue → (loopTop p t).bufCost = costs (loopTop p t).queue :=
    fun t ht => spawnLoop_bufCost p _ t ht
  cases ev with
  | offer it b =>
    apply key
    unfold offer
    split
    · simp only [enqueue, costs_append]
      have : (shed p s it).bufCost = costs (shed p s it).queue := by
        unfold shed
        split
        · unfold dropOldest
          cases hq : s.queue with
          | nil => simp only; rw [h, hq]
          | cons d rest => simp only; rw [h, hq]; simp [costs]
        · exact h
      rw [this]; simp [costs]
    · exact h
  | tick =>
    apply key
    simp only [tick]
    have : (flush p s).bufCost = costs (flush p s).queue := by
      unfold flush; split
      · simp [costs]
      · exact h
    unfold trim; split <;> exact this
  | batchDone i ok =>
    apply key
    have hf := batchDone_frame p s i ok
    rw [hf.2.1, hf.1]; exact h

theorem step_queue_le (p : Params) (hq : 1 ≤ p.maxQueueLen) (s : State) (ev : Event)
    (h : s.queue.length ≤ p.maxQueueLen) : (step p s ev).queue.length ≤ p.maxQueueLen := by
  have key : ∀ t : State, t.queue.length ≤ p.maxQueueLen → (loopTop p t).queue.length ≤ p.maxQueueLen :=
    fun t ht => Nat.le_trans (spawnLoop_queue_le p _ t) ht
  cases ev with
  | offer it b =>
    apply key
    unfold offer
    split
    · simp only [enqueue, List.length_append, List.length_cons, List.length_nil]
      unfold shed
      split
      · unfold dropOldest
        cases hq' : s.queue with
        | nil => rw [hq'] at *; simp at *; omega
        | cons d rest => rw [hq'] at h; simp at h ⊢; omega
      · omega
    · exact h
  | tick =>
    apply key
    simp only [tick]
    unfold trim flush
    split <;> split <;> first | exact h | (simp only [List.length_nil]; omega)
  | batchDone i ok =>
    apply key
    rw [(batchDone_frame p s i ok).1]; exact h

theorem step_inflight_le (p : Params) (s : State) (ev : Event)
    (h : s.inflight.length ≤ p.maxConcurrent) : (step p s ev).inflight.length ≤ p.maxConcurrent := by
  have key : ∀ t : State, t.inflight.length ≤ p.maxConcurrent → (loopTop p t).inflight.length ≤ p.maxConcurrent :=
    fun t ht => spawnLoop_inflight_le p _ t ht
  cases ev with
  | offer it b =>
    apply key
    unfold offer
    split
    · simp only [enqueue, shed]
      split
      · unfold dropOldest; cases s.queue <;> simpa using h
      · exact h
    · exact h
  | tick =>
    apply key
    simp only [tick]
    unfold trim flush
    split <;> split <;> first | exact h | (simp only [List.length_append, List.length_cons, List.length_nil]; omega)
  | batchDone i ok =>
    apply key
    unfold batchDone
    cases hb : s.inflight[i]? with
    | none => exact h
    | some b =>
      cases ok <;> simp only [Bool.false_eq_true, if_false, if_true] <;>
        exact Nat.le_trans (List.length_eraseIdx_le _ _) h

end Corro.Ingest
