/-
C01, protocol level, BATCHES — the VIRTUAL bookkeeping of the actor whose transaction is running.

`process_multiple_changes` updates the in-memory bookkeeping of an actor only after the commit:
`insert_db` of ALL processed versions at once, then `insert_partial` / removal of stale partials in
processing order (`committed`).  The same bookkeeping is obtained by updating per processed changeset
(`cV`: `insert_db` of its versions, then its `insert_partial` / removal) — `committed_eq_cV`.  This
lets the transaction be followed changeset by changeset with a bookkeeping that is always "as if
committed now".
-/
import Corro.Lemmas.ClusterBatchGI

namespace Corro.ClusterSys
open Corro.Crdt Corro.Node

/-- the after-commit step of one processed changeset, preceded by `insert_db` of its versions -/
def commitStepV (site : Nat) (acc : Booked × List (Nat × Nat)) (p : Processed) : Booked × List (Nat × Nat) :=
  commitStep site (acc.1.insertDb [(p.vlo, p.vhi)], acc.2) p

/-- the virtual bookkeeping (and scheduled applies) after the processed changesets `P` -/
def cV (b0 : Booked) (site : Nat) (P : List Processed) : Booked × List (Nat × Nat) :=
  P.foldl (commitStepV site) (b0, [])

theorem cV_nil (b0 : Booked) (site : Nat) : cV b0 site [] = (b0, []) := rfl

theorem cV_append (b0 : Booked) (site : Nat) (P : List Processed) (p : Processed) :
    cV b0 site (P ++ [p]) = commitStepV site (cV b0 site P) p := by
  unfold cV; rw [List.foldl_append]; rfl

theorem commitStepV_none (site : Nat) (acc : Booked × List (Nat × Nat)) (vlo vhi : Nat) :
    commitStepV site acc ⟨vlo, vhi, none⟩ = ((acc.1.insertDb [(vlo, vhi)]).dropPartials vlo vhi, acc.2) := rfl

theorem commitStepV_some (site : Nat) (acc : Booked × List (Nat × Nat)) (v : Nat) (p : Partial) :
    commitStepV site acc ⟨v, v, some p⟩ =
      if (mergedPartial (acc.1.insertDb [(v, v)]) v p).complete then
        (((acc.1.insertDb [(v, v)]).insertPartial v p).1, acc.2 ++ [(site, v)])
      else (((acc.1.insertDb [(v, v)]).insertPartial v p).1, acc.2) := by
  unfold commitStepV commitStep
  simp only
  rw [insertPartial_snd]

/-! ### components of `commitStep` -/

theorem commitStep_needed (site : Nat) (acc : Booked × List (Nat × Nat)) (p : Processed) :
    (commitStep site acc p).1.needed = acc.1.needed := by
  unfold commitStep
  cases hq : p.part with
  | none => rfl
  | some q =>
    simp only
    split <;> exact insertPartial_needed _ _ _

theorem commitStep_max (site : Nat) (acc : Booked × List (Nat × Nat)) (p : Processed)
    (h : p.vlo ≤ acc.1.max) : (commitStep site acc p).1.max = acc.1.max := by
  unfold commitStep
  cases hq : p.part with
  | none => rfl
  | some q =>
    simp only
    have : (acc.1.insertPartial p.vlo q).1.max = acc.1.max := by
      rw [insertPartial_max]
      split
      · rfl
      · exact Nat.max_eq_left h
    split <;> exact this

theorem insertPartial_congr {b b' : Booked} (h : b.partials = b'.partials) (v : Nat) (p : Partial) :
    (b.insertPartial v p).1.partials = (b'.insertPartial v p).1.partials ∧
    (b.insertPartial v p).2 = (b'.insertPartial v p).2 := by
  have hp : b.partial? v = b'.partial? v := by unfold Booked.partial?; rw [h]
  unfold Booked.insertPartial
  rw [hp]
  cases b'.partial? v with
  | none => simp [h]
  | some old => simp [h]

theorem commitStep_congr (site : Nat) {x y : Booked × List (Nat × Nat)} (h1 : x.1.partials = y.1.partials)
    (h2 : x.2 = y.2) (p : Processed) :
    (commitStep site x p).1.partials = (commitStep site y p).1.partials ∧
    (commitStep site x p).2 = (commitStep site y p).2 := by
  unfold commitStep
  cases hq : p.part with
  | none =>
    simp only
    refine ⟨?_, h2⟩
    unfold Booked.dropPartials
    simp only [h1]
  | some q =>
    simp only
    obtain ⟨h3, h4⟩ := insertPartial_congr h1 p.vlo q
    rw [h4, h2]
    split
    · exact ⟨h3, rfl⟩
    · exact ⟨h3, rfl⟩

theorem fold_congr (site : Nat) (P : List Processed) (x y : Booked × List (Nat × Nat))
    (h1 : x.1.partials = y.1.partials) (h2 : x.2 = y.2) :
    (P.foldl (commitStep site) x).1.partials = (P.foldl (commitStepV site) y).1.partials ∧
    (P.foldl (commitStep site) x).2 = (P.foldl (commitStepV site) y).2 := by
  induction P generalizing x y with
  | nil => exact ⟨h1, h2⟩
  | cons p P ih =>
    simp only [List.foldl_cons]
    have := commitStep_congr site (x := x) (y := (y.1.insertDb [(p.vlo, p.vhi)], y.2))
      (by rw [h1]; simp) h2 p
    exact ih _ _ this.1 this.2

theorem fold_commit_frame (site : Nat) (P : List Processed) (acc : Booked × List (Nat × Nat))
    (h : ∀ e ∈ P, e.vlo ≤ acc.1.max) :
    (P.foldl (commitStep site) acc).1.max = acc.1.max ∧
    (P.foldl (commitStep site) acc).1.needed = acc.1.needed := by
  induction P generalizing acc with
  | nil => exact ⟨rfl, rfl⟩
  | cons p P ih =>
    simp only [List.foldl_cons]
    have hm := commitStep_max site acc p (h p (by simp))
    have := ih (commitStep site acc p) (by intro e he; rw [hm]; exact h e (by simp [he]))
    rw [this.1, this.2, hm, commitStep_needed]
    exact ⟨rfl, rfl⟩

/-! ### the head after the processed ranges -/

/-- the head after `insert_db` of the ranges one by one -/
def maxOf (m : Nat) (rs : List (Nat × Nat)) : Nat := rs.foldl (fun m r => Nat.max m r.2) m

theorem maxOf_append (m : Nat) (rs : List (Nat × Nat)) (r : Nat × Nat) :
    maxOf m (rs ++ [r]) = Nat.max (maxOf m rs) r.2 := by
  unfold maxOf; rw [List.foldl_append]; rfl

theorem maxOf_ge (m : Nat) (rs : List (Nat × Nat)) : m ≤ maxOf m rs := sup_foldl_ge rs m

theorem maxOf_ge_mem {m : Nat} {rs : List (Nat × Nat)} {r : Nat × Nat} (h : r ∈ rs) : r.2 ≤ maxOf m rs := by
  unfold maxOf
  induction rs generalizing m with
  | nil => cases h
  | cons a l ih =>
    simp only [List.foldl_cons]
    rcases List.mem_cons.mp h with rfl | h
    · exact Nat.le_trans (Nat.le_max_right _ _) (sup_foldl_ge _ _)
    · exact ih h

theorem maxOf_eq (m : Nat) (rs : List (Nat × Nat)) : maxOf m rs = Nat.max m (sup rs) := by
  unfold maxOf sup
  suffices h : ∀ (k m : Nat), rs.foldl (fun m r => Nat.max m r.2) (Nat.max m k) =
      Nat.max m (rs.foldl (fun m r => Nat.max m r.2) k) by
    have := h 0 m
    have e : Nat.max m 0 = m := Nat.max_eq_left (Nat.zero_le m)
    rw [e] at this
    exact this
  induction rs with
  | nil => intro k m; rfl
  | cons r rs ih =>
    intro k m
    simp only [List.foldl_cons]
    have : Nat.max (Nat.max m k) r.2 = Nat.max m (Nat.max k r.2) := Nat.max_assoc m k r.2
    rw [this]
    exact ih _ _

/-! ### `max` and `needed` of the virtual bookkeeping -/

/-- what the virtual bookkeeping looks like after the processed ranges `Q` -/
structure VInv (b0 : Booked) (Q : List (Nat × Nat)) (b : Booked) : Prop where
  max : b.max = maxOf b0.max Q
  wf : RSet.WF b.needed
  mem : ∀ x, RSet.Mem b.needed x ↔
    (RSet.Mem b0.needed x ∨ (b0.max + 1 ≤ x ∧ x ≤ maxOf b0.max Q)) ∧ ¬ ∃ r ∈ Q, r.1 ≤ x ∧ x ≤ r.2

theorem VInv.init {b0 : Booked} (hw : RSet.WF b0.needed) : VInv b0 [] b0 := by
  refine ⟨rfl, hw, ?_⟩
  intro x
  show _ ↔ (_ ∨ (b0.max + 1 ≤ x ∧ x ≤ b0.max)) ∧ _
  constructor
  · intro h
    exact ⟨Or.inl h, by rintro ⟨r, hr, _⟩; cases hr⟩
  · rintro ⟨h | h, _⟩
    · exact h
    · omega

theorem VInv.step {b0 : Booked} {Q : List (Nat × Nat)} {b : Booked} (h : VInv b0 Q b) (site : Nat)
    (ap : List (Nat × Nat)) (p : Processed) (hp : p.vlo ≤ p.vhi) :
    VInv b0 (Q ++ [(p.vlo, p.vhi)]) (commitStepV site (b, ap) p).1 := by
  have hmx : ∀ x y : Nat, Nat.max x y = Max.max x y := fun _ _ => rfl
  have hfw : ∀ r ∈ [(p.vlo, p.vhi)], r.1 ≤ r.2 := by
    intro r hr; rw [List.mem_singleton] at hr; subst hr; exact hp
  have h1max : (b.insertDb [(p.vlo, p.vhi)]).max = Nat.max b.max p.vhi := by
    rw [insertDb_max _ _ (by simp), sup_singleton]
  have hle : p.vlo ≤ (b.insertDb [(p.vlo, p.vhi)]).max := by
    rw [h1max, hmx]; omega
  unfold commitStepV
  refine ⟨?_, ?_, ?_⟩
  · rw [commitStep_max site _ p hle, h1max, maxOf_append, h.max]
  · rw [commitStep_needed]
    exact insertDb_needed_wf h.wf _ hfw
  · intro x
    rw [commitStep_needed]
    show RSet.Mem (b.insertDb [(p.vlo, p.vhi)]).needed x ↔ _
    rw [mem_insertDb_needed h.wf _ hfw (by simp), sup_singleton, h.mem x, h.max, maxOf_append, hmx]
    have hM := maxOf_ge b0.max Q
    simp only [List.mem_singleton, exists_eq_left, List.mem_append]
    constructor
    · rintro ⟨(⟨h1 | h1, h2⟩ | h1), h3⟩
      · refine ⟨Or.inl h1, ?_⟩
        rintro ⟨r, hr | hr, h4⟩
        · exact h2 ⟨r, hr, h4⟩
        · subst hr; exact h3 h4
      · refine ⟨Or.inr ⟨h1.1, by omega⟩, ?_⟩
        rintro ⟨r, hr | hr, h4⟩
        · exact h2 ⟨r, hr, h4⟩
        · subst hr; exact h3 h4
      · refine ⟨Or.inr ⟨by omega, by omega⟩, ?_⟩
        rintro ⟨r, hr | hr, h4⟩
        · have := maxOf_ge_mem (m := b0.max) hr
          omega
        · subst hr; exact h3 h4
    · rintro ⟨h1, h2⟩
      have h3 : ¬ (p.vlo ≤ x ∧ x ≤ p.vhi) := fun h4 => h2 ⟨_, Or.inr rfl, h4⟩
      have h4 : ¬ ∃ r ∈ Q, r.1 ≤ x ∧ x ≤ r.2 := by
        rintro ⟨r, hr, h5⟩; exact h2 ⟨r, Or.inl hr, h5⟩
      refine ⟨?_, h3⟩
      rcases h1 with h1 | h1
      · exact Or.inl ⟨Or.inl h1, h4⟩
      · by_cases h5 : x ≤ maxOf b0.max Q
        · exact Or.inl ⟨Or.inr ⟨h1.1, h5⟩, h4⟩
        · exact Or.inr ⟨by omega, by omega⟩

theorem cV_vinv (b0 : Booked) (hw : RSet.WF b0.needed) (site : Nat) (P : List Processed)
    (hf : ∀ e ∈ P, e.vlo ≤ e.vhi) : VInv b0 (P.map (fun p => (p.vlo, p.vhi))) (cV b0 site P).1 := by
  unfold cV
  have := foldl_inv_prefix P (commitStepV site) (b0, [])
    (fun done acc => VInv b0 (done.map (fun p => (p.vlo, p.vhi))) acc.1) (VInv.init hw) (by
      intro done p rest acc hl hacc
      rw [List.map_append]
      exact hacc.step site acc.2 p (hf p (by rw [hl]; simp)))
  exact this

theorem booked_ext {b b' : Booked} (h1 : b.max = b'.max) (h2 : b.needed = b'.needed)
    (h3 : b.partials = b'.partials) : b = b' := by
  cases b; cases b'
  simp only at h1 h2 h3
  subst h1; subst h2; subst h3
  rfl

/-- **the bookkeeping installed after the commit is the virtual one** -/
theorem committed_eq_cV (n : Node) (site : Nat) (st : TxSt) (hw : RSet.WF (n.booked site).needed)
    (hf : ∀ e ∈ st.processed, e.vlo ≤ e.vhi) :
    committed n site st = cV (n.booked site) site st.processed := by
  have hmx : ∀ x y : Nat, Nat.max x y = max x y := fun _ _ => rfl
  by_cases hnil : st.processed = []
  · rw [committed_nil n site st hnil, hnil]; rfl
  · have hrs : procRanges st ≠ [] := by
      unfold procRanges
      intro h
      exact hnil (List.map_eq_nil_iff.mp h)
    have hfw : ∀ r ∈ procRanges st, r.1 ≤ r.2 := by
      intro r hr
      obtain ⟨e, he, rfl⟩ := List.mem_map.mp hr
      exact hf e he
    have hcong := fold_congr site st.processed ((n.booked site).insertDb (procRanges st), []) (n.booked site, [])
      (by simp) rfl
    have hb1max : ((n.booked site).insertDb (procRanges st)).max = Nat.max (n.booked site).max (sup (procRanges st)) :=
      insertDb_max _ _ hrs
    have hframe := fold_commit_frame site st.processed ((n.booked site).insertDb (procRanges st), []) (by
      intro e he
      show e.vlo ≤ ((n.booked site).insertDb (procRanges st)).max
      rw [hb1max, hmx]
      have h1 : e.vhi ≤ sup (procRanges st) := le_sup (r := (e.vlo, e.vhi)) (List.mem_map.mpr ⟨e, he, rfl⟩)
      have := hf e he
      omega)
    have hv := cV_vinv (n.booked site) hw site st.processed hf
    have hQ : st.processed.map (fun p => (p.vlo, p.vhi)) = procRanges st := rfl
    rw [hQ] at hv
    unfold committed
    apply Prod.ext
    · apply booked_ext
      · rw [hframe.1, hv.max, maxOf_eq]; exact hb1max
      · rw [hframe.2]
        apply RSet.wf_unique _ _ (insertDb_needed_wf hw _ hfw) hv.wf
        intro x
        rw [mem_insertDb_needed hw _ hfw hrs, hv.mem x, maxOf_eq, hmx]
        have : sup (procRanges st) ≤ max (n.booked site).max (sup (procRanges st)) := Nat.le_max_right _ _
        constructor
        · rintro ⟨h1 | h1, h2⟩
          · exact ⟨Or.inl h1, h2⟩
          · exact ⟨Or.inr ⟨h1.1, by omega⟩, h2⟩
        · rintro ⟨h1 | h1, h2⟩
          · exact ⟨Or.inl h1, h2⟩
          · exact ⟨Or.inr ⟨h1.1, by omega⟩, h2⟩
      · exact hcong.1
    · exact hcong.2

end Corro.ClusterSys
