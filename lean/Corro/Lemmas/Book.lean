/-
Helper lemmas for C02, part 1: element-level facts about canonical interval lists and the
modelled `__corro_bookkeeping_gaps` table (`rowCount` / `rowDelete` / `rowInsert`).
-/
import Corro.Model.Book
import Corro.Lemmas.Ranges

namespace Corro.RSet

/-- `r` is separated from every stored interval by at least one missing point -/
def Isolated (s : RSet) (r : Nat × Nat) : Prop := ∀ p ∈ s, p.2 + 1 < r.1 ∨ r.2 + 1 < p.1

theorem wfFrom_forall {lb : Nat} {s : RSet} (h : WFfrom lb s) : ∀ p ∈ s, lb ≤ p.1 ∧ p.1 ≤ p.2 := by
  induction s generalizing lb with
  | nil => intro p hp; cases hp
  | cons q t ih =>
    obtain ⟨a, b⟩ := q
    simp only [WFfrom] at h
    intro p hp
    rcases List.mem_cons.mp hp with rfl | hp
    · exact ⟨h.1, h.2.1⟩
    · have := ih h.2.2 p hp; omega

theorem wf_forward {s : RSet} (h : WF s) : ∀ p ∈ s, p.1 ≤ p.2 := fun p hp => (wfFrom_forall h p hp).2

theorem wfFrom_tail {lb a b : Nat} {t : RSet} (h : WFfrom lb ((a, b) :: t)) : WFfrom (b + 2) t := by
  simp only [WFfrom] at h; exact h.2.2

theorem wf_of_wfFrom {lb : Nat} {s : RSet} (h : WFfrom lb s) : WF s := WFfrom_mono h (Nat.zero_le _)

theorem mem_of_elem {s : RSet} {p : Nat × Nat} (hp : p ∈ s) {x : Nat} (h1 : p.1 ≤ x) (h2 : x ≤ p.2) :
    Mem s x := ⟨p, hp, h1, h2⟩

/-- two different stored intervals are separated -/
theorem wf_pairwise {lb : Nat} {s : RSet} (h : WFfrom lb s) {p q : Nat × Nat} (hp : p ∈ s) (hq : q ∈ s)
    (hne : p ≠ q) : p.2 + 1 < q.1 ∨ q.2 + 1 < p.1 := by
  induction s generalizing lb with
  | nil => cases hp
  | cons r t ih =>
    obtain ⟨a, b⟩ := r
    have ht := wfFrom_tail h
    have hall := wfFrom_forall ht
    simp only [WFfrom] at h
    rcases List.mem_cons.mp hp with rfl | hp <;> rcases List.mem_cons.mp hq with rfl | hq
    · exact absurd rfl hne
    · have := hall q hq; simp at *; omega
    · have := hall p hp; simp at *; omega
    · exact ih ht hp hq

/-- a point lies in at most one stored interval -/
theorem wf_elem_unique {lb : Nat} {s : RSet} (h : WFfrom lb s) {p q : Nat × Nat} (hp : p ∈ s) (hq : q ∈ s)
    {x : Nat} (hxp : p.1 ≤ x ∧ x ≤ p.2) (hxq : q.1 ≤ x ∧ x ≤ q.2) : p = q := by
  by_cases hne : p = q
  · exact hne
  · have := wf_pairwise h hp hq hne; omega

theorem wfFrom_filter {lb : Nat} {s : RSet} (h : WFfrom lb s) (f : Nat × Nat → Bool) :
    WFfrom lb (s.filter f) := by
  induction s generalizing lb with
  | nil => simp [WFfrom]
  | cons r t ih =>
    obtain ⟨a, b⟩ := r
    simp only [WFfrom] at h
    simp only [List.filter_cons]
    split
    · simp only [WFfrom]; exact ⟨h.1, h.2.1, ih h.2.2⟩
    · exact WFfrom_mono (ih h.2.2) (by omega)

/-! ### get? -/

theorem get?_some {s : RSet} {x : Nat} {r : Nat × Nat} (h : get? s x = some r) :
    r ∈ s ∧ r.1 ≤ x ∧ x ≤ r.2 := by
  unfold get? at h
  have h1 := List.mem_of_find?_eq_some h
  have h2 := List.find?_some h
  simp at h2
  exact ⟨h1, h2.1, h2.2⟩

theorem get?_of_elem {lb : Nat} {s : RSet} (h : WFfrom lb s) {q : Nat × Nat} (hq : q ∈ s) {x : Nat}
    (h1 : q.1 ≤ x) (h2 : x ≤ q.2) : get? s x = some q := by
  cases hg : get? s x with
  | none =>
    unfold get? at hg
    have := List.find?_eq_none.mp hg q hq
    simp at this; omega
  | some r =>
    have hr := get?_some hg
    rw [wf_elem_unique h hr.1 hq hr.2 ⟨h1, h2⟩]

end Corro.RSet

namespace Corro.Book
open Corro Corro.RSet

/-! ### the gaps table against a canonical list -/

theorem remove_exact {lb : Nat} {s : RSet} (h : WFfrom lb s) {r : Nat × Nat} (hr : r ∈ s) :
    RSet.remove s r = rowDelete s r := by
  induction s generalizing lb with
  | nil => cases hr
  | cons p t ih =>
    obtain ⟨a, b⟩ := p
    obtain ⟨lo, hi⟩ := r
    have ht := wfFrom_tail h
    have hall := wfFrom_forall ht
    simp only [WFfrom] at h
    unfold RSet.remove rowDelete
    rcases List.mem_cons.mp hr with heq | hr
    · -- the head is the removed interval; nothing in the tail equals it
      have h1 : a = lo := by have := congrArg Prod.fst heq; simp at this; omega
      have h2 : b = hi := by have := congrArg Prod.snd heq; simp at this; omega
      subst h1; subst h2
      have hnot : ∀ q ∈ t, ¬ (q == (a, b)) = true := by
        intro q hq hqe
        have := hall q hq
        have : q = (a, b) := by simpa using hqe
        subst this; simp at *; omega
      have hfil : t.filter (fun p => !(p == (a, b))) = t := by
        apply List.filter_eq_self.mpr
        intro q hq; simp [hnot q hq]
      simp only [List.filter_cons]
      have hlt1 : ¬ b < a := by omega
      simp [hlt1, hfil]
      cases t with
      | nil => simp [RSet.remove]
      | cons q t' =>
        obtain ⟨c, d⟩ := q
        have := hall (c, d) (by simp)
        unfold RSet.remove
        have : ¬ d < a := by simp at this; omega
        have h3 : b < c := by simp at *; omega
        simp [this, h3]
    · have hlh := hall (lo, hi) hr
      have hne : ¬ ((a, b) == (lo, hi)) = true := by
        intro he; have : (a, b) = (lo, hi) := by simpa using he
        have h1 := congrArg Prod.fst this; simp at h1; simp at hlh; omega
      have hb : b < lo := by simp at hlh; omega
      simp only [List.filter_cons, hb, if_true]
      have ih' := ih ht hr
      unfold rowDelete at ih'
      simp [hne, ih']

theorem rowCount_one {lb : Nat} {s : RSet} (h : WFfrom lb s) {r : Nat × Nat} (hr : r ∈ s) :
    rowCount s r = 1 := by
  induction s generalizing lb with
  | nil => cases hr
  | cons p t ih =>
    obtain ⟨a, b⟩ := p
    have ht := wfFrom_tail h
    have hall := wfFrom_forall ht
    unfold rowCount
    simp only [List.filter_cons]
    rcases List.mem_cons.mp hr with heq | hr
    · subst heq
      have : t.filter (fun p => p == (a, b)) = [] := by
        apply List.filter_eq_nil_iff.mpr
        intro q hq hqe
        have : q = (a, b) := by simpa using hqe
        subst this; have := hall _ hq; simp at this; omega
      simp [this]
    · have hne : ¬ ((a, b) == r) = true := by
        intro he; have : (a, b) = r := by simpa using he
        subst this; have := hall _ hr; simp at this; omega
      have ih' := ih ht hr
      unfold rowCount at ih'
      simp [hne, ih']

theorem mem_rowDelete {s : Rows} {r p : Nat × Nat} : p ∈ rowDelete s r ↔ p ∈ s ∧ p ≠ r := by
  simp [rowDelete]

theorem mem_rowInsert {s : Rows} {r p : Nat × Nat} : p ∈ rowInsert s r ↔ p = r ∨ p ∈ s := by
  induction s with
  | nil => simp [rowInsert]
  | cons q t ih =>
    unfold rowInsert
    split
    · simp
    · simp only [List.mem_cons, ih]; grind

/-- inserting an interval that touches nothing is a plain ordered insertion, and the primary key
`start` is free -/
theorem insert_isolated {lb : Nat} {s : RSet} (h : WFfrom lb s) {r : Nat × Nat} (hr : r.1 ≤ r.2)
    (hiso : Isolated s r) : RSet.insert s r = rowInsert s r ∧ rowConflict s r = false := by
  induction s generalizing lb with
  | nil => simp [RSet.insert, rowInsert, rowConflict]
  | cons p t ih =>
    obtain ⟨a, b⟩ := p
    obtain ⟨lo, hi⟩ := r
    have ht := wfFrom_tail h
    simp only [WFfrom] at h
    have hp := hiso (a, b) (by simp)
    have ih' := ih ht (fun q hq => hiso q (by simp [hq]))
    unfold RSet.insert rowInsert rowConflict
    simp only at hp hr
    by_cases h1 : hi + 1 < a
    · have : lo < a := by omega
      have hc : ¬ a = lo := by omega
      have := ih'.2
      unfold rowConflict at this
      simp [*]
    · have h2 : b + 1 < lo := by omega
      have : ¬ lo < a := by omega
      have hc : ¬ a = lo := by omega
      have := ih'.2
      unfold rowConflict at this
      simp [ih'.1, *]

theorem iso_of_pointwise {a b lo hi : Nat} (hab : a ≤ b) (hlh : lo ≤ hi)
    (h : ∀ x y, lo ≤ x → x ≤ hi → a ≤ y → y ≤ b → x + 1 < y ∨ y + 1 < x) :
    b + 1 < lo ∨ hi + 1 < a := by
  have h1 := h (max lo a) (max lo a)
  have h2 := h lo b
  have h3 := h hi a
  omega

end Corro.Book
