/-
C01, protocol level, BATCHES — `Node.deliver batch` for an ARBITRARY batch of changesets that satisfy
`ChunkOK` preserves the node invariant `LInv` (`held_inv` included), with the ghost list extended by
what the batch merged: the fold over the actors (`deliverFoldG_gi`), the clear jobs (`clearAll_gi`),
the applies (`applyAll_gi`), and the whole (`linv_deliverB`).
-/
import Corro.Lemmas.ClusterBatchTx
import Corro.Lemmas.ClusterBatchDb

namespace Corro.ClusterSys
open Corro.Crdt Corro.Node

/-! ### the fold over the actors -/

structure DG (L : Log) (n : Node) (R : List Chg)
    (acc : (Node × List (Nat × Nat) × List (Nat × Nat × Nat)) × List Chg) : Prop where
  gi : GI L acc.1.1.booked acc.1.1.seqRows acc.1.1.buf (acc.2 ++ R) acc.1.2.2 acc.1.2.1
  alive : acc.1.1.alive = n.alive
  sorted : acc.1.1.book.Pairwise (fun x y => x.1 < y.1)

theorem deliverFoldG_gi {L : Log} {n : Node} {R : List Chg} (hN : NInv L n R) (hI : LInv L n R)
    (hL : LogOK L) (batch : List Item) (hck : ∀ it ∈ batch, ChunkOK L it) :
    DG L n R (deliverFoldG n batch) := by
  unfold deliverFoldG
  apply foldl_inv (DG L n R)
  · exact ⟨gi_of_linv hN hI, rfl, hI.sorted⟩
  · intro acc s _ hacc
    have hit : ∀ it ∈ (unknownB n batch).filter (·.site = s), ChunkOK L it ∧ it.site = s := by
      intro it hit
      have := List.mem_filter.mp hit
      exact ⟨hck it (mem_unknownOf (n := n) this.1), of_decide_eq_true this.2⟩
    obtain ⟨h1, h2, h3⟩ := processActor_gi hacc.gi hL hacc.sorted _ hit
    unfold actorStepG
    refine ⟨?_, h2.trans hacc.alive, h3⟩
    simp only
    apply h1.congr_R
    intro e
    simp only [List.mem_append]
    constructor
    · rintro (h | h | h)
      · exact Or.inl (Or.inr h)
      · exact Or.inl (Or.inl h)
      · exact Or.inr h
    · rintro ((h | h) | h)
      · exact Or.inr (Or.inl h)
      · exact Or.inl h
      · exact Or.inr (Or.inr h)

/-! ### the clear jobs -/

theorem clearAll_gi {L : Log} {R : List Chg} {A : List (Nat × Nat)} (hL : LogOK L)
    (C : List (Nat × Nat × Nat)) (N : Node) (hG : GI L N.booked N.seqRows N.buf R C A) :
    GI L (clearAll N C).booked (clearAll N C).seqRows (clearAll N C).buf R [] A := by
  induction C generalizing N with
  | nil => exact hG
  | cons c C ih =>
    show GI L (clearAll (N.clearMeta c.1 c.2.1 c.2.2) C).booked _ _ R [] A
    apply ih
    have hb : (N.clearMeta c.1 c.2.1 c.2.2).booked = N.booked := rfl
    rw [hb]
    refine gi_clear hG hL (fun r => mem_clearMeta_rows) (fun x => mem_clearMeta_buf) ?_ ?_ ?_
    · intro v h1 h2
      exact (inClears_cons c C c.1 v).mpr (Or.inl ⟨rfl, h1, h2⟩)
    · intro a v h
      rcases (inClears_cons c C a v).mp h with ⟨h1, h2⟩ | h
      · exact Or.inr ⟨h1.symm, h2⟩
      · exact Or.inl h
    · intro a v h
      exact (inClears_cons c C a v).mpr (Or.inr h)

/-! ### the applies -/

theorem applyBuffered_alive (N : Node) (a v : Nat) : (N.applyBuffered a v).alive = N.alive := by
  by_cases hskip : ∀ p, (N.booked a).partial? v = some p → p.complete = false
  · rw [applyBuffered_skip N a v hskip]
  · have hex : ∃ p, (N.booked a).partial? v = some p ∧ p.complete = true := by
      apply Classical.byContradiction
      intro hne
      apply hskip
      intro p hp
      cases hc : p.complete with
      | false => rfl
      | true => exact absurd ⟨p, hp, hc⟩ hne
    obtain ⟨p, hp, hpc⟩ := hex
    rw [applyBuffered_complete N a v p hp hpc, clearMeta_alive, applyCore_alive]

theorem applyAll_alive (N : Node) (ap : List (Nat × Nat)) : (applyAll N ap).alive = N.alive := by
  induction ap generalizing N with
  | nil => rfl
  | cons t ap ih =>
    show (applyAll (N.applyBuffered t.1 t.2) ap).alive = _
    rw [ih, applyBuffered_alive]

theorem applyAll_sorted {N : Node} (h : N.book.Pairwise (fun x y => x.1 < y.1)) (ap : List (Nat × Nat)) :
    (applyAll N ap).book.Pairwise (fun x y => x.1 < y.1) := by
  induction ap generalizing N with
  | nil => exact h
  | cons t ap ih => exact ih (applyBuffered_sorted h t.1 t.2)

theorem applyAll_gi {L : Log} {R : List Chg} (hL : LogOK L) (A : List (Nat × Nat)) (N : Node) (M : List Chg)
    (hG : GI L N.booked N.seqRows N.buf (M ++ R) [] A) :
    GI L (applyAll N A).booked (applyAll N A).seqRows (applyAll N A).buf ((M ++ applyMerged N A) ++ R) [] [] := by
  induction A generalizing N M with
  | nil =>
    show GI L N.booked N.seqRows N.buf ((M ++ []) ++ R) [] []
    rw [List.append_nil]; exact hG
  | cons t A ih =>
    rw [applyMerged_cons]
    show GI L (applyAll (N.applyBuffered t.1 t.2) A).booked _ _ _ [] []
    rw [← List.append_assoc]
    apply ih
    have := gi_apply hG hL t.1 t.2 (A' := A) (by
      intro t' ht'
      rcases List.mem_cons.mp ht' with h | h
      · exact Or.inl h
      · exact Or.inr h)
    apply this.congr_R
    intro e
    simp only [List.mem_append]
    constructor
    · rintro (h | h | h)
      · exact Or.inl (Or.inr h)
      · exact Or.inl (Or.inl h)
      · exact Or.inr h
    · rintro ((h | h) | h)
      · exact Or.inr (Or.inl h)
      · exact Or.inl h
      · exact Or.inr (Or.inr h)

/-! ### the whole batch -/

/-- **`held_inv`, one BATCH**: delivering ANY batch of changesets that satisfy `ChunkOK` — several
changesets of several actors, duplicates, chunks of the same version, `Empty` ranges, in any order —
to an alive node preserves the node invariant, with the ghost list extended by what the batch
merged -/
theorem linv_deliverB {L : Log} {n : Node} {R : List Chg} {batch : List Item} (hN : NInv L n R)
    (hI : LInv L n R) (hL : LogOK L) (hck : ∀ it ∈ batch, ChunkOK L it) :
    LInv L (n.deliver batch) (mergedByBatch n batch ++ R) := by
  have hdg := deliverFoldG_gi hN hI hL batch hck
  have hgi := hdg.gi
  have halive := hdg.alive
  have hsorted := hdg.sorted
  rw [deliverFoldG_fst] at hgi halive hsorted
  have hcl := clearAll_gi hL _ _ hgi
  have hal2 : (clearAll (deliverFold n batch).1 (deliverFold n batch).2.2).alive = true := by
    rw [clearAll_alive, halive]; exact hI.alive
  rw [deliver_eq', mergedByBatch_eq]
  unfold finish
  rw [if_pos hal2, if_pos hal2]
  refine linv_of_gi (applyAll_gi hL _ _ _ hcl) ?_ ?_
  · rw [applyAll_alive]; exact hal2
  · apply applyAll_sorted
    rw [clearAll_book]; exact hsorted

/-- a sequence of batches to one node -/
theorem deliverB_fold_inv {L : Log} (hL : LogOK L) (batches : List (List Item)) (s : Node × List Chg)
    (hN : NInv L s.1 s.2) (hI : LInv L s.1 s.2) (hck : ∀ b ∈ batches, ∀ it ∈ b, ChunkOK L it) :
    NInv L (batches.foldl deliverB s).1 (batches.foldl deliverB s).2 ∧
    LInv L (batches.foldl deliverB s).1 (batches.foldl deliverB s).2 := by
  induction batches generalizing s with
  | nil => exact ⟨hN, hI⟩
  | cons b batches ih =>
    have h1 := hck b List.mem_cons_self
    exact ih (deliverB s b)
      (ninv_deliverB hN hL (fun it hit => chunkOK_changes hL (h1 it hit)))
      (linv_deliverB hN hI hL h1)
      (fun x hx => hck x (List.mem_cons_of_mem _ hx))

/-- batches of arbitrary changesets made of log changes keep the store-level invariant -/
theorem deliverB_fold_ninv {L : Log} (hL : LogOK L) (batches : List (List Item)) (s : Node × List Chg)
    (hN : NInv L s.1 s.2) (hck : ∀ b ∈ batches, ∀ it ∈ b, ∀ e ∈ itemChanges it, e ∈ L.all) :
    NInv L (batches.foldl deliverB s).1 (batches.foldl deliverB s).2 := by
  induction batches generalizing s with
  | nil => exact hN
  | cons b batches ih =>
    exact ih (deliverB s b) (ninv_deliverB hN hL (hck b List.mem_cons_self))
      (fun x hx => hck x (List.mem_cons_of_mem _ hx))

end Corro.ClusterSys
