/-
C01, protocol level — progress: what one delivery does to `Held` and to the partial of a version
(`deliver_empty_effect`, `deliver_full_effect`), and what a LOSSLESS sync session achieves
(`session_progress`): afterwards the client holds every version of a foreign actor that the server
holds.
-/
import Corro.Lemmas.ClusterStep
import Corro.Lemmas.NodeHolder

namespace Corro.ClusterSys
open Corro.Crdt Corro.Node

/-! ### "already known" -/

theorem containsAll_iff (b : Booked) (vlo vhi : Nat) (s : Option (Nat × Nat)) :
    b.containsAll vlo vhi s = true ↔ ∀ w, vlo ≤ w → w ≤ vhi → b.contains w s = true := by
  unfold Booked.containsAll
  rw [List.all_eq_true]
  constructor
  · intro h w h1 h2
    have := h (w - vlo) (List.mem_range.mpr (by omega))
    rw [show vlo + (w - vlo) = w by omega] at this
    exact this
  · intro h i hi
    have hi := List.mem_range.mp hi
    exact h (vlo + i) (by omega) (by omega)

/-- a version the bookkeeping "contains" as a whole is held (nothing pending on an alive node) -/
theorem held_of_contains_none {L : Log} {n : Node} {R : List Chg} (hI : LInv L n R) {a w : Nat}
    (h : (n.booked a).contains w none = true) : Held n a w := by
  unfold Booked.contains at h
  rw [Bool.and_eq_true] at h
  refine ⟨h.1, ?_⟩
  intro p hp
  rw [hp] at h
  have hc : p.complete = true := h.2
  rcases hI.part_state a w p hp with h1 | ⟨h1, _⟩
  · exact h1
  · rw [hc] at h1; cases h1

/-! ### the effect of one delivery -/

section Effect
variable {L : Log} {n : Node} {R : List Chg}

/-- an `Empty` changeset: its versions are held afterwards, nothing held is lost, and every partial
outside it is untouched -/
theorem deliver_empty_effect (hN : NInv L n R) (hI : LInv L n R) (hL : LogOK L) {a vlo vhi : Nat}
    (hck : ChunkOK L (.empty a vlo vhi)) :
    (∀ w, vlo ≤ w → w ≤ vhi → Held (n.deliver [.empty a vlo vhi]) a w) ∧
    (∀ a' w, Held n a' w → Held (n.deliver [.empty a vlo vhi]) a' w) ∧
    (∀ a' w, Held (n.deliver [.empty a vlo vhi]) a' w ∨
      ((n.deliver [.empty a vlo vhi]).booked a').partial? w = (n.booked a').partial? w) := by
  have _ := hN
  cases hc : (n.booked a).containsAll vlo vhi none with
  | true =>
    rw [deliver_empty_skip n a vlo vhi hc]
    refine ⟨?_, fun _ _ h => h, fun _ _ => Or.inr rfl⟩
    intro w h1 h2
    exact held_of_contains_none hI ((containsAll_iff _ _ _ _).mp hc w h1 h2)
  | false =>
    have hle : vlo ≤ vhi := by
      apply Classical.byContradiction
      intro h
      rw [containsAll_backward _ _ _ _ (by omega)] at hc
      cases hc
    rw [deliver_empty n a vlo vhi hc]
    obtain ⟨_, h2, h3⟩ := linv_cleared (R' := R) (N := if (n.booked a).max ≤ vhi then n.bumpDbv a vhi else n)
      hI hL (by split <;> simp) (by split <;> simp) (by split <;> simp) (by split <;> simp) hle hck.1
      (fun e he => he) (fun e he => Or.inl he)
      (fun w h1 h2 c hcm => Or.inr (hck.2 w h1 h2 c hcm))
    refine ⟨fun w h1 h2' => (h2 a w).mpr (Or.inl ⟨rfl, h1, h2'⟩), fun a' w h => (h2 a' w).mpr (Or.inr h), ?_⟩
    intro a' w
    by_cases hin : a' = a ∧ vlo ≤ w ∧ w ≤ vhi
    · exact Or.inl ((h2 a' w).mpr (Or.inl hin))
    · exact Or.inr (h3 a' w hin)

/-- a `Full` changeset of `(a, v)` with range `[lo, hi]`:
* nothing held is lost, partials of other versions are untouched;
* if it is complete (`0..=last_seq`) and the node has no partial of `(a, v)`, the version is held
  afterwards;
* if the node holds `(a, v)` as an incomplete partial, afterwards the version is held or the partial
  has grown by `[lo, hi]` (same `last_seq`, still incomplete). -/
theorem deliver_full_effect (hN : NInv L n R) (hI : LInv L n R) (hL : LogOK L)
    {a v lo hi last : Nat} {cs : List Chg} (hck : ChunkOK L (.full a v lo hi last cs)) :
    (∀ a' w, Held n a' w → Held (n.deliver [.full a v lo hi last cs]) a' w) ∧
    (∀ a' w, ¬ (a' = a ∧ w = v) →
      ((n.deliver [.full a v lo hi last cs]).booked a').partial? w = (n.booked a').partial? w) ∧
    (lo = 0 → hi = last → (n.booked a).partial? v = none → Held (n.deliver [.full a v lo hi last cs]) a v) ∧
    (∀ q, (n.booked a).partial? v = some q → q.complete = false →
      Held (n.deliver [.full a v lo hi last cs]) a v ∨
      ∃ q', ((n.deliver [.full a v lo hi last cs]).booked a).partial? v = some q' ∧ q'.complete = false ∧
        q'.last = q.last ∧ (∀ x, RSet.Mem q.seqs x → RSet.Mem q'.seqs x) ∧
        (lo ≤ hi → ∀ x, lo ≤ x → x ≤ hi → RSet.Mem q'.seqs x)) := by
  obtain ⟨hvh, hcs, hcov, hlast⟩ := hck
  have hck' : ChunkOK L (.full a v lo hi last cs) := ⟨hvh, hcs, hcov, hlast⟩
  have hdata : lo = 0 → hi = last → ∀ c ∈ L.get a v, c ∈ cs ∨ Dom L.all c := by
    intro h1 h2 c hc
    by_cases hle : c.seq ≤ last
    · exact hcov c hc (by omega) (by omega)
    · exact Or.inr (hlast c hc (by omega))
  have hrange : ∀ a' w, ¬ (a' = a ∧ w = v) → ¬ (a' = a ∧ v ≤ w ∧ w ≤ v) :=
    fun a' w h h' => h ⟨h'.1, by omega⟩
  cases hc : (n.booked a).containsAll v v (some (lo, hi)) with
  | true =>
    rw [deliver_full_skip n a v lo hi last cs hc]
    rw [containsAll_single] at hc
    unfold Booked.contains at hc
    rw [Bool.and_eq_true] at hc
    refine ⟨fun _ _ h => h, fun _ _ _ => rfl, ?_, ?_⟩
    · intro _ _ hp
      exact ⟨hc.1, fun p hp' => by rw [hp] at hp'; cases hp'⟩
    · intro q hq hqc
      right
      refine ⟨q, hq, hqc, rfl, fun x hx => hx, ?_⟩
      intro _ x h1 h2
      have h3 := hc.2
      rw [hq] at h3
      exact mem_of_gaps_empty ((hI.pwf a).of_partial? hq) h3 ⟨h1, h2⟩
  | false =>
    by_cases hcomp : lo = 0 ∧ hi = last
    · obtain ⟨rfl, rfl⟩ := hcomp
      have key : ∀ (N : Node) (R' : List Chg), N.book = n.book → N.seqRows = n.seqRows → N.buf = n.buf →
          N.alive = n.alive → (∀ e ∈ R, e ∈ R') → (∀ e ∈ R', e ∈ R ∨ (e.site = a ∧ v ≤ e.dbv ∧ e.dbv ≤ v)) →
          (∀ c ∈ L.get a v, c ∈ R' ∨ Dom L.all c) →
          let n' := clearedNode N a v v (((n.booked a).insertDb [(v, v)]).dropPartials v v)
          (∀ a' w, Held n a' w → Held n' a' w) ∧
          (∀ a' w, ¬ (a' = a ∧ w = v) → (n'.booked a').partial? w = (n.booked a').partial? w) ∧
          Held n' a v := by
        intro N R' h1 h2 h3 h4 h5 h6 h7
        obtain ⟨_, g2, g3⟩ := linv_cleared (R' := R') hI hL h1 h2 h3 h4 (Nat.le_refl v) hvh h5 h6
          (fun w k1 k2 c hcm => by
            have : w = v := by omega
            subst this
            exact h7 c hcm)
        exact ⟨fun a' w h => (g2 a' w).mpr (Or.inr h), fun a' w h => g3 a' w (hrange a' w h),
          (g2 a v).mpr (Or.inl ⟨rfl, Nat.le_refl _, Nat.le_refl _⟩)⟩
      by_cases hne : cs = []
      · subst hne
        rw [deliver_full_cleared n a v hi hc]
        obtain ⟨k1, k2, k3⟩ := key (if (n.booked a).max ≤ v then n.bumpDbv a v else n) R
          (by split <;> simp) (by split <;> simp) (by split <;> simp) (by split <;> simp)
          (fun e he => he) (fun e he => Or.inl he)
          (fun c hcm => by
            rcases hdata rfl rfl c hcm with h | h
            · cases h
            · exact Or.inr h)
        exact ⟨k1, k2, fun _ _ _ => k3, fun _ _ _ => Or.inl k3⟩
      · rw [deliver_full_complete n a v hi cs hc hne]
        obtain ⟨k1, k2, k3⟩ := key (n.mergeChanges cs) (cs ++ R) (by simp) (by simp) (by simp) (by simp)
          (fun e he => List.mem_append_right _ he)
          (fun e he => by
            rcases List.mem_append.mp he with h | h
            · right
              obtain ⟨_, h1, h2, _⟩ := hL.mem_get (hcs e h)
              exact ⟨h1, by omega, by omega⟩
            · exact Or.inl h)
          (fun c hcm => by
            rcases hdata rfl rfl c hcm with h | h
            · exact Or.inl (List.mem_append_left _ h)
            · exact Or.inr h)
        exact ⟨k1, k2, fun _ _ _ => k3, fun _ _ _ => Or.inl k3⟩
    · by_cases hlt : hi < lo
      · rw [deliver_full_backward n a v lo hi last cs hc hlt]
        refine ⟨fun _ _ h => h, fun _ _ _ => rfl, fun h1 h2 => absurd ⟨h1, h2⟩ hcomp, ?_⟩
        intro q hq hqc
        exact Or.inr ⟨q, hq, hqc, rfl, fun x hx => hx, fun h => by omega⟩
      · have hlh : lo ≤ hi := by omega
        rw [deliver_full_buffer n a v lo hi last cs hc hlh hcomp, hI.alive, Bool.and_true]
        cases hpc : (bufPartial n a v lo hi last cs).complete with
        | true =>
          simp only [if_true]
          obtain ⟨_, g2, g3⟩ := linv_buffer_apply hN hI hL hck' hlh hpc
          have hh : Held ((bufNode n a v lo hi last cs).applyBuffered a v) a v :=
            (g2 a v).mpr (Or.inl ⟨rfl, Nat.le_refl _, Nat.le_refl _⟩)
          exact ⟨fun a' w h => (g2 a' w).mpr (Or.inr h), fun a' w h => g3 a' w (hrange a' w h),
            fun _ _ _ => hh, fun _ _ _ => Or.inl hh⟩
        | false =>
          simp only [Bool.false_eq_true, if_false]
          obtain ⟨_, g2, g3⟩ := linv_buffer_pending hN hI hL hck' hc hlh hpc
          refine ⟨?_, ?_, fun h1 h2 => absurd ⟨h1, h2⟩ hcomp, ?_⟩
          · intro a' w h
            by_cases hav : a' = a ∧ w = v
            · rw [hav.1, hav.2] at h; exact absurd h g3
            · exact (g2 a' w hav).mpr h
          · intro a' w hav
            by_cases ha : a' = a
            · subst ha
              rw [bufNode_booked_same, bufBooked_partial_other _ _ _ _ _ _ _ w (fun h => hav ⟨rfl, h⟩)]
            · rw [bufNode_booked_other _ _ _ _ _ _ _ a' ha]
          · intro q hq _
            right
            have hr := bufChunk_range n a v lo hi last cs
            refine ⟨bufPartial n a v lo hi last cs, ?_, hpc, ?_, ?_, ?_⟩
            · rw [bufNode_booked_same, bufBooked_partial_same]
            · rw [bufPartial_last, hq]
            · intro x hx
              exact (mem_bufPartial hlh x).mpr (Or.inl ⟨q, hq, hx⟩)
            · intro _ x h1 h2
              exact (mem_bufPartial hlh x).mpr (Or.inr ⟨by omega, by omega⟩)

end Effect

/-! ### a sequence of deliveries -/

section Fold
variable {L : Log}

/-- the changeset settles `(a, v)` on a node without a partial of it: a complete changeset of the
version, or an `Empty` covering it -/
def Final (a v : Nat) (it : Corro.Node.Item) : Prop :=
  (∃ last cs, it = .full a v 0 last last cs) ∨ (∃ lo hi, it = .empty a lo hi ∧ lo ≤ v ∧ v ≤ hi)

theorem fold_step (hL : LogOK L) (s : Node × List Chg) (it : Corro.Node.Item) (hN : NInv L s.1 s.2)
    (hI : LInv L s.1 s.2) (hck : ChunkOK L it) :
    NInv L (deliverOne s it).1 (deliverOne s it).2 ∧ LInv L (deliverOne s it).1 (deliverOne s it).2 :=
  ⟨ninv_deliver hN hL (chunkOK_changes hL hck), linv_deliver hN hI hL hck⟩

/-- what is held stays held -/
theorem fold_held_mono (hL : LogOK L) (items : List Corro.Node.Item) (s : Node × List Chg)
    (hN : NInv L s.1 s.2) (hI : LInv L s.1 s.2) (hck : ∀ it ∈ items, ChunkOK L it) {a v : Nat}
    (h : Held s.1 a v) : Held (items.foldl deliverOne s).1 a v := by
  induction items generalizing s with
  | nil => exact h
  | cons it items ih =>
    have hc := hck it List.mem_cons_self
    obtain ⟨hN', hI'⟩ := fold_step hL s it hN hI hc
    refine ih (deliverOne s it) hN' hI' (fun x hx => hck x (List.mem_cons_of_mem _ hx)) ?_
    cases it with
    | empty a' lo hi => exact (deliver_empty_effect hN hI hL hc).2.1 a v h
    | full a' w lo hi last cs => exact (deliver_full_effect hN hI hL hc).1 a v h

/-- an `Empty` covering `(a, v)` somewhere in the list: held at the end -/
theorem fold_empty_holds (hL : LogOK L) (items : List Corro.Node.Item) (s : Node × List Chg)
    (hN : NInv L s.1 s.2) (hI : LInv L s.1 s.2) (hck : ∀ it ∈ items, ChunkOK L it) {a v lo hi : Nat}
    (hm : Corro.Node.Item.empty a lo hi ∈ items) (h1 : lo ≤ v) (h2 : v ≤ hi) :
    Held (items.foldl deliverOne s).1 a v := by
  induction items generalizing s with
  | nil => cases hm
  | cons it items ih =>
    have hc := hck it List.mem_cons_self
    obtain ⟨hN', hI'⟩ := fold_step hL s it hN hI hc
    have hck' : ∀ x ∈ items, ChunkOK L x := fun x hx => hck x (List.mem_cons_of_mem _ hx)
    rcases List.mem_cons.mp hm with rfl | hm
    · exact fold_held_mono hL items _ hN' hI' hck' ((deliver_empty_effect hN hI hL hc).1 v h1 h2)
    · exact ih (deliverOne s it) hN' hI' hck' hm

/-- **no partial → settled**: if the node has no partial of `(a, v)`, every changeset of `(a, v)` in
the list is complete, and the list contains one that settles the version, it is held at the end -/
theorem fold_finalize (hL : LogOK L) (items : List Corro.Node.Item) (s : Node × List Chg)
    (hN : NInv L s.1 s.2) (hI : LInv L s.1 s.2) (hck : ∀ it ∈ items, ChunkOK L it) {a v : Nat}
    (hshape : ∀ it ∈ items, ∀ lo hi last cs, it = Corro.Node.Item.full a v lo hi last cs → lo = 0 ∧ hi = last)
    (hstart : Held s.1 a v ∨ ((s.1.booked a).partial? v = none ∧ ∃ it ∈ items, Final a v it)) :
    Held (items.foldl deliverOne s).1 a v := by
  induction items generalizing s with
  | nil =>
    rcases hstart with h | ⟨_, it, hit, _⟩
    · exact h
    · cases hit
  | cons it items ih =>
    have hc := hck it List.mem_cons_self
    obtain ⟨hN', hI'⟩ := fold_step hL s it hN hI hc
    have hck' : ∀ x ∈ items, ChunkOK L x := fun x hx => hck x (List.mem_cons_of_mem _ hx)
    have hshape' : ∀ x ∈ items, ∀ lo hi last cs, x = Corro.Node.Item.full a v lo hi last cs → lo = 0 ∧ hi = last :=
      fun x hx => hshape x (List.mem_cons_of_mem _ hx)
    rcases hstart with h | ⟨hp, fin, hfin, hF⟩
    · exact fold_held_mono hL (it :: items) s hN hI hck h
    · -- the state after this delivery: held, or still no partial
      have hnext : Held (deliverOne s it).1 a v ∨ ((deliverOne s it).1.booked a).partial? v = none := by
        cases it with
        | empty a' lo hi =>
          rcases (deliver_empty_effect hN hI hL hc).2.2 a v with h | h
          · exact Or.inl h
          · right; show ((s.1.deliver [_]).booked a).partial? v = none; rw [h]; exact hp
        | full a' w lo hi last cs =>
          by_cases hav : a = a' ∧ v = w
          · obtain ⟨rfl, rfl⟩ := hav
            obtain ⟨h1, h2⟩ := hshape _ List.mem_cons_self lo hi last cs rfl
            exact Or.inl ((deliver_full_effect hN hI hL hc).2.2.1 h1 h2 hp)
          · right
            show ((s.1.deliver [_]).booked a).partial? v = none
            rw [(deliver_full_effect hN hI hL hc).2.1 a v (fun h => hav ⟨h.1, h.2⟩)]
            exact hp
      rcases List.mem_cons.mp hfin with rfl | hfin
      · -- this is the settling changeset
        refine ih (deliverOne s fin) hN' hI' hck' hshape' (Or.inl ?_)
        rcases hF with ⟨last, cs, rfl⟩ | ⟨lo, hi, rfl, h1, h2⟩
        · exact (deliver_full_effect hN hI hL hc).2.2.1 rfl rfl hp
        · exact (deliver_empty_effect hN hI hL hc).1 v h1 h2
      · refine ih (deliverOne s it) hN' hI' hck' hshape' ?_
        rcases hnext with h | h
        · exact Or.inl h
        · exact Or.inr ⟨h, fin, hfin, hF⟩

/-- the seq ranges of the changesets of `(a, v)` in the list -/
def rangesFor (a v : Nat) (items : List Corro.Node.Item) : List (Nat × Nat) :=
  items.filterMap (fun it => match it with
    | .full a' w lo hi _ _ => if a' = a ∧ w = v ∧ lo ≤ hi then some (lo, hi) else none
    | .empty .. => none)

/-- **a partial grows**: starting from an incomplete partial containing `p.seqs` (with `p`'s
`last_seq`), after the list the version is held or the partial — still with that `last_seq` —
contains `p.seqs` and the range of every changeset of `(a, v)` in the list -/
theorem fold_partial_grows (hL : LogOK L) (items : List Corro.Node.Item) (s : Node × List Chg)
    (hN : NInv L s.1 s.2) (hI : LInv L s.1 s.2) (hck : ∀ it ∈ items, ChunkOK L it) {a v : Nat}
    {p : Partial} (D : Nat × Nat → Prop)
    (hstart : Held s.1 a v ∨ ∃ q, (s.1.booked a).partial? v = some q ∧ q.complete = false ∧
      q.last = p.last ∧ (∀ x, RSet.Mem p.seqs x → RSet.Mem q.seqs x) ∧
      (∀ r, D r → ∀ x, r.1 ≤ x → x ≤ r.2 → RSet.Mem q.seqs x)) :
    Held (items.foldl deliverOne s).1 a v ∨
    ∃ q, ((items.foldl deliverOne s).1.booked a).partial? v = some q ∧ q.complete = false ∧
      q.last = p.last ∧ (∀ x, RSet.Mem p.seqs x → RSet.Mem q.seqs x) ∧
      (∀ r, D r ∨ r ∈ rangesFor a v items → ∀ x, r.1 ≤ x → x ≤ r.2 → RSet.Mem q.seqs x) := by
  induction items generalizing s D with
  | nil =>
    rcases hstart with h | ⟨q, h1, h2, h3, h4, h5⟩
    · exact Or.inl h
    · refine Or.inr ⟨q, h1, h2, h3, h4, ?_⟩
      intro r hr
      rcases hr with hr | hr
      · exact h5 r hr
      · cases hr
  | cons it items ih =>
    have hc := hck it List.mem_cons_self
    obtain ⟨hN', hI'⟩ := fold_step hL s it hN hI hc
    have hck' : ∀ x ∈ items, ChunkOK L x := fun x hx => hck x (List.mem_cons_of_mem _ hx)
    rcases hstart with h | ⟨q, h1, h2, h3, h4, h5⟩
    · exact Or.inl (fold_held_mono hL (it :: items) s hN hI hck h)
    · cases it with
      | empty a' lo hi =>
        have hr : rangesFor a v (Corro.Node.Item.empty a' lo hi :: items) = rangesFor a v items := rfl
        rw [hr]
        refine ih (deliverOne s (.empty a' lo hi)) hN' hI' hck' D ?_
        rcases (deliver_empty_effect hN hI hL hc).2.2 a v with h | h
        · exact Or.inl h
        · exact Or.inr ⟨q, by show ((s.1.deliver [_]).booked a).partial? v = some q; rw [h]; exact h1,
            h2, h3, h4, h5⟩
      | full a' w lo hi last cs =>
        by_cases hav : a' = a ∧ w = v
        · obtain ⟨rfl, rfl⟩ := hav
          rcases (deliver_full_effect hN hI hL hc).2.2.2 q h1 h2 with h | ⟨q', g1, g2, g3, g4, g5⟩
          · exact Or.inl (fold_held_mono hL items _ hN' hI' hck' h)
          · have := ih (deliverOne s (.full a' w lo hi last cs)) hN' hI' hck'
              (fun r => D r ∨ (lo ≤ hi ∧ r = (lo, hi)))
              (Or.inr ⟨q', g1, g2, g3.trans h3, fun x hx => g4 x (h4 x hx), ?_⟩)
            · rcases this with h | ⟨q2, k1, k2, k3, k4, k5⟩
              · exact Or.inl h
              · refine Or.inr ⟨q2, k1, k2, k3, k4, ?_⟩
                intro r hr
                apply k5 r
                rcases hr with hr | hr
                · exact Or.inl (Or.inl hr)
                · unfold rangesFor at hr
                  rw [List.filterMap_cons] at hr
                  simp only [true_and] at hr
                  split at hr
                  · exact Or.inr hr
                  · rename_i heq
                    split at heq
                    · simp only [Option.some.injEq] at heq
                      rcases List.mem_cons.mp hr with hr | hr
                      · rename_i hle
                        exact Or.inl (Or.inr ⟨hle, by rw [hr, heq]⟩)
                      · exact Or.inr hr
                    · cases heq
            · intro r hr x hx1 hx2
              rcases hr with hr | ⟨hle, rfl⟩
              · exact g4 x (h5 r hr x hx1 hx2)
              · exact g5 hle x hx1 hx2
        · have hr : rangesFor a v (Corro.Node.Item.full a' w lo hi last cs :: items) = rangesFor a v items := by
            unfold rangesFor
            rw [List.filterMap_cons]
            have : ¬ (a' = a ∧ w = v ∧ lo ≤ hi) := fun h => hav ⟨h.1, h.2.1⟩
            simp only [this, if_false]
          rw [hr]
          refine ih (deliverOne s (.full a' w lo hi last cs)) hN' hI' hck' D (Or.inr ⟨q, ?_, h2, h3, h4, h5⟩)
          show ((s.1.deliver [_]).booked a).partial? v = some q
          rw [(deliver_full_effect hN hI hL hc).2.1 a v (fun h => hav ⟨h.1.symm ▸ rfl, h.2.symm ▸ rfl⟩)]
          exact h1

end Fold

/-! ### what a lossless session contains -/

section Session
open Corro.Needs

theorem mem_answers {ni nj : Node} {a : Nat} {ns : List Need} {need : Need} {it : Corro.Node.Item}
    (h1 : (a, ns) ∈ computeAvailableNeeds ni.syncState nj.syncState) (h2 : need ∈ ns)
    (h3 : it ∈ nj.serve a need) : it ∈ answers ni nj := by
  unfold answers
  exact List.mem_flatMap.mpr ⟨(a, ns), h1, List.mem_flatMap.mpr ⟨need, h2, h3⟩⟩

theorem syncState_actor (n : Node) : n.syncState.actor = n.id := rfl

theorem mem_nf_of {β γ : Type} {g : β → Option γ} {l : List (Nat × β)} {e : Nat × β} {y : γ}
    (he : e ∈ l) (hg : g e.2 = some y) : (e.1, y) ∈ nf g l := by
  unfold nf
  exact List.mem_filterMap.mpr ⟨e, he, by rw [hg]; rfl⟩

theorem heads_mem {n : Node} (hs : n.book.Pairwise (fun x y => x.1 < y.1)) {a : Nat}
    (hm : (n.booked a).max ≠ 0) : (a, (n.booked a).max) ∈ n.syncState.heads := by
  rw [syncState_nf]
  apply alook_some_mem
  rw [nf_alook gH hs, bind_booked gH rfl]
  unfold gH
  rw [if_pos hm]

theorem aget_heads {n : Node} (hs : n.book.Pairwise (fun x y => x.1 < y.1)) (a : Nat) :
    aget a n.syncState.heads = if (n.booked a).max ≠ 0 then some (n.booked a).max else none := by
  rw [syncState_nf, aget_eq_alook]
  simp only
  rw [nf_alook gH hs, bind_booked gH rfl]
  rfl

theorem needOf_eq {n : Node} (hs : n.book.Pairwise (fun x y => x.1 < y.1)) (a : Nat)
    (hm : (n.booked a).max ≠ 0) : needOf n.syncState a = (n.booked a).needed := by
  unfold needOf
  rw [syncState_nf, aget_eq_alook]
  simp only
  rw [nf_alook gN hs, bind_booked gN rfl]
  unfold gN
  rw [if_pos hm]
  split
  · rename_i he
    exact (List.isEmpty_iff.mp he).symm
  · rfl

theorem partialsOf_eq {n : Node} (hs : n.book.Pairwise (fun x y => x.1 < y.1)) (a : Nat)
    (hm : (n.booked a).max ≠ 0) : partialsOf n.syncState a = nf gP (n.booked a).partials := by
  unfold partialsOf
  rw [syncState_nf, aget_eq_alook]
  simp only
  rw [nf_alook gPN hs, bind_booked gPN rfl]
  unfold gPN
  rw [if_pos hm]
  split
  · rename_i he
    exact (List.isEmpty_iff.mp he).symm
  · rfl

/-- an advertised partial is an incomplete partial of the bookkeeping -/
theorem partialsOf_incomplete {L : Log} {n : Node} {R : List Chg} (hI : LInv L n R) {a : Nat}
    {x : Nat × List (Nat × Nat)} (hx : x ∈ partialsOf n.syncState a) :
    ∃ q, (n.booked a).partial? x.1 = some q ∧ q.complete = false ∧ x.2 = RSet.gaps q.seqs (0, q.last) := by
  by_cases hm : (n.booked a).max ≠ 0
  · rw [partialsOf_eq hI.sorted a hm] at hx
    obtain ⟨e, he, h1, h2⟩ := mem_nf hx
    have hp := partial?_of_mem (hI.keys a) (show (x.1, e.2) ∈ (n.booked a).partials by rw [← h1]; exact he)
    unfold gP at h2
    split at h2
    · cases h2
    · rename_i hc
      simp only [Option.some.injEq] at h2
      exact ⟨e.2, hp, by simpa using hc, h2.symm⟩
  · exfalso
    unfold partialsOf at hx
    rw [syncState_nf, aget_eq_alook] at hx
    simp only at hx
    rw [nf_alook gPN hI.sorted, bind_booked gPN rfl] at hx
    unfold gPN at hx
    rw [if_neg hm] at hx
    cases hx

variable {L : Log} {ni nj : Node} {Ri Rj : List Chg}

theorem held_max_ne_zero {n : Node} {a v : Nat} (hh : Held n a v) (hv : 1 ≤ v) : (n.booked a).max ≠ 0 := by
  have := ((containsVersion_iff _ _).mp hh.1).2
  omega

theorem held_no_rows {n : Node} {R : List Chg} (hI : LInv L n R) {a v : Nat} (hh : Held n a v) :
    ¬ HasRows n a v := by
  rintro ⟨r, hr, h1, h2⟩
  obtain ⟨p, hp⟩ := hI.rows_part r hr
  rw [h1, h2] at hp
  exact (hh.2 p hp).2 ⟨r, hr, h1, h2⟩

theorem held_no_buf {n : Node} {R : List Chg} (hI : LInv L n R) {a v : Nat} (hh : Held n a v) :
    n.hasBuf a v = false := by
  apply hasBuf_false_iff.mpr
  intro c hc hk
  have := hI.buf_rows c hc
  rw [hk.1, hk.2] at this
  exact held_no_rows hI hh this

/-- the server answers a need that names a version it holds -/
theorem serve_of_held {n : Node} {a v : Nat} (hh : Held n a v) (hv : 1 ≤ v) {need : Need}
    (hr : requests need v) : n.serve a need = handleNeed n a need := by
  have hcv := (containsVersion_iff _ _).mp hh.1
  unfold Node.serve
  suffices hs : n.serves a need = true by rw [hs]; rfl
  unfold Node.serves
  cases hf : n.book.find? (·.1 = a) with
  | none =>
    exfalso
    have : n.booked a = {} := by unfold Node.booked; rw [hf]; rfl
    rw [this] at hcv
    have : ({} : Booked).max = 0 := rfl
    omega
  | some e =>
    obtain ⟨a', b⟩ := e
    have hb : n.booked a = b := by unfold Node.booked; rw [hf]; rfl
    rw [hb] at hcv
    have hlack : (RSet.contains b.needed v || (b.max != 0 && decide (v > b.max))) = false := by
      have h1 : RSet.contains b.needed v = false := by
        cases hcn : RSet.contains b.needed v with
        | false => rfl
        | true => exact absurd ((RSet.contains_iff _ _).mp hcn) hcv.1
      have h2 : decide (v > b.max) = false := by simp; omega
      rw [h1, h2]; simp
    cases need with
    | full lo hi =>
      simp only [requests] at hr
      simp only [Bool.not_eq_true']
      apply Bool.eq_false_iff.mpr
      intro hall
      have := List.all_eq_true.mp hall v (mem_versionsAsc.mpr hr)
      rw [hlack] at this; cases this
    | part w seqs =>
      simp only [requests] at hr
      subst hr
      simp only [hlack, Bool.not_false]

/-- the version the server holds is among what it advertises as held -/
theorem haves_mem (hIj : LInv L nj Rj) {a v : Nat} (hh : Held nj a v) (hv : 1 ≤ v) :
    RSet.Mem (otherHaves (nj.booked a).max (needOf nj.syncState a) (partialsOf nj.syncState a)) v := by
  have hcv := (containsVersion_iff _ _).mp hh.1
  have hfw : ∀ r ∈ needOf nj.syncState a, r.1 ≤ r.2 := by
    intro r hr
    exact Corro.Needs.wf_forward (hIj.needed_wf a) r (needOf_syncState hIj.sorted a hr)
  refine (mem_otherHaves _ (by omega) _ _ hfw v).mpr ⟨⟨hv, hcv.2⟩, ?_, ?_⟩
  · rintro ⟨r, hr, hx⟩
    exact hcv.1 ⟨r, needOf_syncState hIj.sorted a hr, hx⟩
  · intro x hx hxv
    obtain ⟨q, hq, hqc, _⟩ := partialsOf_incomplete hIj hx
    rw [hxv] at hq
    have := (hh.2 q hq).1
    rw [hqc] at this; cases this

/-- **a version the client lacks and the server holds is requested** (C04 `full_complete`) -/
theorem need_full_exists (hIi : LInv L ni Ri) (hIj : LInv L nj Rj) {a v : Nat} (ha : a ≠ ni.id)
    (hv : 1 ≤ v) (hh : Held nj a v) (hlack : (ni.booked a).containsVersion v = false) :
    ∃ ns lo hi, (a, ns) ∈ computeAvailableNeeds ni.syncState nj.syncState ∧ Need.full lo hi ∈ ns ∧
      lo ≤ v ∧ v ≤ hi := by
  have hcv := (containsVersion_iff _ _).mp hh.1
  have hM := held_max_ne_zero hh hv
  have hlack' : RSet.Mem (ni.booked a).needed v ∨ (ni.booked a).max < v := by
    by_cases hm : RSet.Mem (ni.booked a).needed v
    · exact Or.inl hm
    · right
      apply Classical.byContradiction
      intro hle
      have := (containsVersion_iff (ni.booked a) v).mpr ⟨hm, by omega⟩
      rw [hlack] at this; cases this
  suffices key : ∃ lo hi, Need.full lo hi ∈ needsFor ni.syncState nj.syncState a (nj.booked a).max ∧
      lo ≤ v ∧ v ≤ hi by
    obtain ⟨lo, hi, hn, h1, h2⟩ := key
    exact ⟨_, lo, hi, mem_compute_of_mem_needsFor (heads_mem hIj.sorted hM) (by rw [syncState_actor]; exact ha)
      hM hn, hn, h1, h2⟩
  by_cases hz : (ni.booked a).max ≠ 0
  · rcases hlack' with hm | hgt
    · -- listed in the client's `need`
      obtain ⟨r, hr, hrv⟩ := hm
      have hr' : r ∈ needOf ni.syncState a := by rw [needOf_eq hIi.sorted a hz]; exact hr
      obtain ⟨p, hp, hx⟩ := (mem_clip_overlapping _ r v).mpr ⟨hrv, haves_mem hIj hh hv⟩
      exact ⟨_, _, mem_needsFor.mpr (Or.inl (mem_fullFromNeed.mpr ⟨r, hr', p, hp, rfl⟩)), hx⟩
    · refine ⟨(ni.booked a).max + 1, (nj.booked a).max, mem_needsFor.mpr (Or.inr (Or.inr ?_)), by omega, hcv.2⟩
      rw [aget_heads hIi.sorted a, if_pos hz]
      exact mem_missing.mpr (Or.inr ⟨_, rfl, by omega, rfl⟩)
  · refine ⟨1, (nj.booked a).max, mem_needsFor.mpr (Or.inr (Or.inr ?_)), hv, hcv.2⟩
    rw [aget_heads hIi.sorted a, if_neg hz]
    exact mem_missing.mpr (Or.inl ⟨rfl, rfl⟩)

/-- **the missing seq ranges of a partial are requested from a holder** (C04 `partial_complete`) -/
theorem need_part_exists (hIi : LInv L ni Ri) (hIj : LInv L nj Rj) {a v : Nat} (ha : a ≠ ni.id)
    (hv : 1 ≤ v) (hh : Held nj a v) {p : Partial} (hp : (ni.booked a).partial? v = some p)
    (hpc : p.complete = false) :
    ∃ ns, (a, ns) ∈ computeAvailableNeeds ni.syncState nj.syncState ∧
      Need.part v (RSet.gaps p.seqs (0, p.last)) ∈ ns := by
  have hM := held_max_ne_zero hh hv
  have hz : (ni.booked a).max ≠ 0 := by
    have := ((containsVersion_iff _ _).mp (hIi.part_known a v p hp)).2
    omega
  have hin : (v, RSet.gaps p.seqs (0, p.last)) ∈ partialsOf ni.syncState a := by
    rw [partialsOf_eq hIi.sorted a hz]
    exact mem_nf_of (e := (v, p)) (alook_some_mem hp) (by unfold gP; rw [hpc]; rfl)
  have hn : Need.part v (RSet.gaps p.seqs (0, p.last)) ∈
      needsFor ni.syncState nj.syncState a (nj.booked a).max :=
    mem_needsFor.mpr (Or.inr (Or.inl (mem_partialNeeds.mpr
      ⟨(v, RSet.gaps p.seqs (0, p.last)), hin, Or.inl ⟨haves_mem hIj hh hv, rfl⟩⟩)))
  exact ⟨_, mem_compute_of_mem_needsFor (heads_mem hIj.sorted hM) (by rw [syncState_actor]; exact ha) hM hn, hn⟩

/-- a holder settles a requested version: one complete changeset with its live changes, or an
`Empty` covering it -/
theorem final_item_exists (hIj : LInv L nj Rj) {a v lo hi : Nat} (hh : Held nj a v) (h1 : lo ≤ v)
    (h2 : v ≤ hi) : ∃ it ∈ handleNeed nj a (.full lo hi), Final a v it := by
  cases hl : (nj.live a v).isEmpty with
  | false =>
    exact ⟨_, mem_handleNeed_full.mpr (Or.inl ⟨v, h1, h2, liveItem_of_live hl⟩), Or.inl ⟨_, _, rfl⟩⟩
  | true =>
    have hg : nj.inGaps a v = false := by
      cases hgg : nj.inGaps a v with
      | false => rfl
      | true => exact absurd (inGaps_iff.mp hgg) ((containsVersion_iff _ _).mp hh.1).1
    have hm : RSet.Mem (emptyRanges nj a lo hi) v :=
      mem_emptyRanges.mpr (mem_emptyVs.mpr ⟨h1, h2, hl, held_no_buf hIj hh, hg⟩)
    obtain ⟨p, hp, hx⟩ := hm
    exact ⟨_, mem_handleNeed_full.mpr (Or.inr (Or.inr ⟨p, hp, rfl⟩)), Or.inr ⟨_, _, rfl, hx.1, hx.2⟩⟩

/-- a holder answers a `Partial` need with one changeset per requested range, or with `Empty` -/
theorem part_items_exist (hIj : LInv L nj Rj) {a v : Nat} (hh : Held nj a v) (seqs : List (Nat × Nat)) :
    (∀ r ∈ seqs, ∃ last cs, Corro.Node.Item.full a v r.1 r.2 last cs ∈ handleNeed nj a (.part v seqs)) ∨
    Corro.Node.Item.empty a v v ∈ handleNeed nj a (.part v seqs) := by
  cases hl : (nj.live a v).isEmpty with
  | false =>
    left
    intro r hr
    exact ⟨_, _, mem_handleNeed_part.mpr (Or.inl ⟨hl, r, hr, livePart_isSome hl r⟩)⟩
  | true =>
    right
    have hg : nj.inGaps a v = false := by
      cases hgg : nj.inGaps a v with
      | false => rfl
      | true => exact absurd (inGaps_iff.mp hgg) ((containsVersion_iff _ _).mp hh.1).1
    exact mem_handleNeed_part.mpr (Or.inr (Or.inr ⟨hl, held_no_buf hIj hh, hg, rfl⟩))

/-- every changeset of `(a, v)` a holder sends to a client without an incomplete partial of it is
complete -/
theorem answers_shape (hIi : LInv L ni Ri) (hIj : LInv L nj Rj) {a v : Nat} (hh : Held nj a v)
    (hnp : ∀ p, (ni.booked a).partial? v = some p → p.complete = true) :
    ∀ it ∈ answers ni nj, ∀ lo hi last cs, it = Corro.Node.Item.full a v lo hi last cs → lo = 0 ∧ hi = last := by
  intro it hit lo hi last cs heq
  unfold answers at hit
  obtain ⟨an, han, hit⟩ := List.mem_flatMap.mp hit
  obtain ⟨need, hneed, hit⟩ := List.mem_flatMap.mp hit
  obtain ⟨a', ns⟩ := an
  have hit := mem_serve hit
  subst heq
  cases need with
  | full lo' hi' =>
    rcases mem_handleNeed_full.mp hit with ⟨w, _, _, h3⟩ | ⟨w, r, _, _, _, hb, h5, h6⟩ | ⟨p, _, h6⟩
    · obtain ⟨_, he⟩ := liveItem_some h3
      simp only [Corro.Node.Item.full.injEq] at he
      exact ⟨he.2.2.1, by rw [he.2.2.2.1, he.2.2.2.2.1]⟩
    · exfalso
      simp only [bufItem, Corro.Node.Item.full.injEq] at h6
      obtain ⟨rfl, rfl, _⟩ := h6
      rw [held_no_buf hIj hh] at hb; cases hb
    · cases h6
  | part w seqs =>
    exfalso
    -- a `Partial` need for `(a, v)` means the client has an incomplete partial of it
    have hav : a' = a ∧ w = v := by
      rcases mem_handleNeed_part.mp hit with ⟨_, r, _, h3⟩ | ⟨_, _, r, _, row, _, _, h6⟩ | ⟨_, _, _, h6⟩
      · have := livePart_some h3
        simp only [Corro.Node.Item.full.injEq] at this
        exact ⟨this.1.symm, this.2.1.symm⟩
      · simp only [partItem, Corro.Node.Item.full.injEq] at h6
        exact ⟨h6.1.symm, h6.2.1.symm⟩
      · cases h6
    obtain ⟨rfl, rfl⟩ := hav
    obtain ⟨head, _, _, _, rfl, _⟩ := mem_computeAvailableNeeds.mp han
    rcases mem_needsFor.mp hneed with h | h | h
    · obtain ⟨r, _, p, _, he⟩ := mem_fullFromNeed.mp h; cases he
    · obtain ⟨q, hq, h⟩ := mem_partialNeeds.mp h
      have hqw : q.1 = w := by
        rcases h with ⟨_, he⟩ | ⟨_, os, _, _, he⟩ <;> (simp only [Need.part.injEq] at he; exact he.1.symm)
      obtain ⟨p, hp, hpc, _⟩ := partialsOf_incomplete hIi hq
      rw [hqw] at hp
      rw [hnp p hp] at hpc; cases hpc
    · rcases mem_missing.mp h with ⟨_, he⟩ | ⟨oh, _, _, he⟩ <;> cases he

/-- **`sync_round_progress`, one version.**  After a LOSSLESS session (every answer of the server
delivered, in order, one changeset per batch) the client holds every version of a foreign actor that
the server holds. -/
theorem session_progress (hL : LogOK L) (hNi : NInv L ni Ri) (hIi : LInv L ni Ri) (hNj : NInv L nj Rj)
    (hIj : LInv L nj Rj) (hcl : nodeClean nj = true) {a v : Nat} (ha : a ≠ ni.id) (hv : 1 ≤ v)
    (hh : Held nj a v) : Held ((answers ni nj).foldl deliverOne (ni, Ri)).1 a v := by
  have hck : ∀ it ∈ answers ni nj, ChunkOK L it := fun it hit => chunkOK_answers hNj hIj hL hcl hit
  cases hp : (ni.booked a).partial? v with
  | none =>
    have hshape := answers_shape hIi hIj hh (fun p hp' => by rw [hp] at hp'; cases hp')
    cases hcv : (ni.booked a).containsVersion v with
    | true =>
      exact fold_held_mono hL _ (ni, Ri) hNi hIi hck ⟨hcv, fun p hp' => by rw [hp] at hp'; cases hp'⟩
    | false =>
      obtain ⟨ns, lo, hi, hns, hneed, h1, h2⟩ := need_full_exists hIi hIj ha hv hh hcv
      obtain ⟨it, hit, hF⟩ := final_item_exists hIj hh h1 h2
      have hmem : it ∈ answers ni nj :=
        mem_answers hns hneed (by rw [serve_of_held hh hv (need := .full lo hi) ⟨h1, h2⟩]; exact hit)
      exact fold_finalize hL _ (ni, Ri) hNi hIi hck hshape (Or.inr ⟨hp, it, hmem, hF⟩)
  | some p =>
    cases hpc : p.complete with
    | true =>
      rcases hIi.part_state a v p hp with ⟨_, h2⟩ | ⟨h1, _⟩
      · refine fold_held_mono hL _ (ni, Ri) hNi hIi hck ⟨hIi.part_known a v p hp, ?_⟩
        intro q hq
        rw [hp] at hq; cases hq
        exact ⟨hpc, h2⟩
      · rw [hpc] at h1; cases h1
    | false =>
      obtain ⟨ns, hns, hneed⟩ := need_part_exists hIi hIj ha hv hh hp hpc
      have hserve := serve_of_held hh hv (need := .part v (RSet.gaps p.seqs (0, p.last))) rfl
      rcases part_items_exist hIj hh (RSet.gaps p.seqs (0, p.last)) with hall | hemp
      · -- one changeset per missing range
        have hgw := RSet.gaps_wfFrom p.seqs 0 p.last 0 ((hIi.pwf a).of_partial? hp)
        have hranges : ∀ r ∈ RSet.gaps p.seqs (0, p.last), r ∈ rangesFor a v (answers ni nj) := by
          intro r hr
          obtain ⟨last, cs, hit⟩ := hall r hr
          have hmem : Corro.Node.Item.full a v r.1 r.2 last cs ∈ answers ni nj :=
            mem_answers hns hneed (by rw [hserve]; exact hit)
          unfold rangesFor
          refine List.mem_filterMap.mpr ⟨_, hmem, ?_⟩
          have hfw := Corro.Node.wfFrom_forward hgw r hr
          simp only [hfw, and_self, if_true]
        rcases fold_partial_grows hL (answers ni nj) (ni, Ri) hNi hIi hck (p := p) (fun _ => False)
            (Or.inr ⟨p, hp, hpc, rfl, fun x hx => hx, fun r hr => absurd hr id⟩) with h | ⟨q, h1, h2, h3, h4, h5⟩
        · exact h
        · exfalso
          obtain ⟨_, hI'⟩ := deliverOne_fold_inv hL (answers ni nj) (ni, Ri) hNi hIi hck
          have hqw := (hI'.pwf a).of_partial? h1
          have : q.complete = true := by
            rw [complete_iff hqw]
            intro x hx
            by_cases hm : RSet.Mem p.seqs x
            · exact h4 x hm
            · have hg : RSet.Mem (RSet.gaps p.seqs (0, p.last)) x :=
                (RSet.mem_gaps p.seqs 0 p.last x 0 ((hIi.pwf a).of_partial? hp)).mpr
                  ⟨⟨Nat.zero_le _, by rw [← h3]; exact hx⟩, hm⟩
              obtain ⟨r, hr, hx1, hx2⟩ := hg
              exact h5 r (Or.inr (hranges r hr)) x hx1 hx2
          rw [h2] at this; cases this
      · exact fold_empty_holds hL _ (ni, Ri) hNi hIi hck
          (mem_answers hns hneed (by rw [hserve]; exact hemp)) (Nat.le_refl v) (Nat.le_refl v)

end Session

end Corro.ClusterSys
