/-
C01, protocol level, BATCHES AND CRASHES — progress inside one actor's transaction of a batch, on the
virtual bookkeeping, for the merged invariant `Full.GI` / `Full.TXI` (port of the `TXI`-dependent
lemmas of `ClusterBatchLive.lean`; the definitions `WillHold`, `AllCompleteFor`, `StepKind`, `vbOf`,
`vNode`, `PU`, `PB`, `Grown` are those of that file):

* `TXI.willHold_step`: "will be held" is monotone;
* `TXI.own_step`: a version booked WITHOUT A PARTIAL stays booked without a partial (what keeps a
  node's own versions intact across any batch, on a dead node too);
* `PU_step`, `PB_step`: a version all of whose `Full` changesets in the batch are complete; a partial
  grows by every changeset of its version.
-/
import Corro.Lemmas.ClusterFullDeliver
import Corro.Lemmas.ClusterBatchLive

namespace Corro.ClusterSys.Full
open Corro.Crdt Corro.Node

section
variable {D : Prop} {L : Log} {N0 : Node} {site : Nat} {R0 : List Chg} {C0 : List (Nat × Nat × Nat)}
  {A0 : List (Nat × Nat)}

theorem TXI.vb_wf {s : TxSt × List Chg} (h : TXI D L N0 site R0 C0 A0 s) : RSet.WF (vbOf N0 site s).needed := by
  have := h.gi.needed_wf site
  rw [vbk_site] at this
  exact this

theorem TXI.vb_pwf {s : TxSt × List Chg} (h : TXI D L N0 site R0 C0 A0 s) : (vbOf N0 site s).PWF := by
  have := h.gi.pwf site
  rw [vbk_site] at this
  exact this

/-- a version the virtual bookkeeping holds without a partial gets no chunk buffered -/
theorem TXI.key {st : TxSt} {M : List Chg} (h : TXI D L N0 site R0 C0 A0 (st, M)) {v lo hi : Nat}
    (hnc : (N0.booked site).containsAll v v (some (lo, hi)) = false) (hns : seenGet st.seen v ≠ some none) :
    ¬ ((vbOf N0 site (st, M)).containsVersion v = true ∧ (vbOf N0 site (st, M)).partial? v = none) := by
  rintro ⟨h1, h2⟩
  have hb0 : (N0.booked site).contains v (some (lo, hi)) = false := by
    rw [← containsAll_single]; exact hnc
  rcases h.si v h1 h2 with ⟨h3, h4⟩ | h3
  · rw [contains_of_cv_none _ h3 h4] at hb0; cases hb0
  · exact hns h3

/-- the effect of one step on the virtual bookkeeping of version `v` -/
theorem none_step_cv {s : TxSt × List Chg} (h : TXI D L N0 site R0 C0 A0 s) {vlo vhi : Nat} (hlh : vlo ≤ vhi)
    (w : Nat) :
    (((vbOf N0 site s).insertDb [(vlo, vhi)]).dropPartials vlo vhi).containsVersion w = true ↔
      (vlo ≤ w ∧ w ≤ vhi) ∨ (vbOf N0 site s).containsVersion w = true := by
  rw [containsVersion_dropPartials]
  exact containsVersion_insertDb h.vb_wf hlh w

theorem none_step_partial (b : Booked) (vlo vhi w : Nat) :
    ((b.insertDb [(vlo, vhi)]).dropPartials vlo vhi).partial? w =
      if vlo ≤ w ∧ w ≤ vhi then none else b.partial? w := by
  rw [partial?_dropPartials, partial?_insertDb]

/-- **"will be held" is monotone** inside the transaction -/
theorem TXI.willHold_step {s : TxSt × List Chg} (h : TXI D L N0 site R0 C0 A0 s) (it : Item)
    (hs : it.site = site) {v : Nat} (hw : WillHold (vbOf N0 site s) v) :
    WillHold (vbOf N0 site (txStepG (N0.booked site) s it)) v := by
  obtain ⟨st, M⟩ := s
  unfold txStepG vbOf at *
  simp only at *
  cases stepKind (N0.booked site) site st it hs with
  | skip hsk _ => rw [hsk]; exact hw
  | none vlo vhi hlh hv hshape hnc hns hseen hproc =>
    rw [hproc, cV_none_eq]
    refine ⟨(none_step_cv h hlh v).mpr (Or.inr hw.1), ?_⟩
    intro p hp
    rw [none_step_partial] at hp
    split at hp
    · cases hp
    · exact hw.2 p hp
  | buffer v' lo hi last cs hit hlh hinc hnc hns hst =>
    rw [hst, cV_buffer_eq]
    have hVb := vNode_booked (N0.booked site) site st
    have hwf : RSet.WF ((vNode (N0.booked site) site st).booked site).needed := by rw [hVb]; exact h.vb_wf
    have hpwf : ((vNode (N0.booked site) site st).booked site).PWF := by rw [hVb]; exact h.vb_pwf
    refine ⟨?_, ?_⟩
    · rw [@bufBooked_cv (vNode (N0.booked site) site st) site v' lo hi last cs hwf v, hVb]
      exact Or.inr hw.1
    · intro p hp
      by_cases hv : v = v'
      · subst hv
        rw [bufBooked_partial_same] at hp
        cases hp
        cases ho : ((vNode (N0.booked site) site st).booked site).partial? v with
        | none =>
          exfalso
          rw [hVb] at ho
          subst hit
          exact h.key hnc (not_alreadySeen_full hns) ⟨hw.1, ho⟩
        | some old =>
          apply bufPartial_complete_of_old hpwf hlh ho
          rw [hVb] at ho
          exact hw.2 old ho
      · rw [bufBooked_partial_other _ _ _ _ _ _ _ v hv, hVb] at hp
        exact hw.2 p hp

/-- booked, without a partial -/
def OwnB (b : Booked) (v : Nat) : Prop := b.containsVersion v = true ∧ b.partial? v = none

/-- **a version booked without a partial stays booked without a partial** inside the transaction: no
chunk of it is ever buffered (`TXI.key`) -/
theorem TXI.own_step {s : TxSt × List Chg} (h : TXI D L N0 site R0 C0 A0 s) (it : Item)
    (hs : it.site = site) {v : Nat} (hw : OwnB (vbOf N0 site s) v) :
    OwnB (vbOf N0 site (txStepG (N0.booked site) s it)) v := by
  obtain ⟨st, M⟩ := s
  unfold OwnB txStepG vbOf at *
  simp only at *
  cases stepKind (N0.booked site) site st it hs with
  | skip hsk _ => rw [hsk]; exact hw
  | none vlo vhi hlh hv hshape hnc hns hseen hproc =>
    rw [hproc, cV_none_eq]
    refine ⟨(none_step_cv h hlh v).mpr (Or.inr hw.1), ?_⟩
    rw [none_step_partial]
    split
    · rfl
    · exact hw.2
  | buffer v' lo hi last cs hit hlh hinc hnc hns hst =>
    rw [hst, cV_buffer_eq]
    have hVb := vNode_booked (N0.booked site) site st
    have hwf : RSet.WF ((vNode (N0.booked site) site st).booked site).needed := by rw [hVb]; exact h.vb_wf
    have hv : v ≠ v' := by
      rintro rfl
      subst hit
      exact h.key hnc (not_alreadySeen_full hns) hw
    refine ⟨?_, ?_⟩
    · rw [@bufBooked_cv (vNode (N0.booked site) site st) site v' lo hi last cs hwf v, hVb]
      exact Or.inr hw.1
    · rw [bufBooked_partial_other _ _ _ _ _ _ _ v hv, hVb]
      exact hw.2

end

section
variable {D : Prop} {L : Log} {N0 : Node} {site : Nat} {R0 : List Chg} {C0 : List (Nat × Nat × Nat)}
  {A0 : List (Nat × Nat)}


theorem PU_step {v : Nat} {done : List Item} {s : TxSt × List Chg} (hp : PU N0 site v done s)
    (h : TXI D L N0 site R0 C0 A0 s) (it : Item) (hs : it.site = site)
    (hcomp : ∀ lo hi last cs, it = Item.full site v lo hi last cs → lo = 0 ∧ hi = last) :
    PU N0 site v (done ++ [it]) (txStepG (N0.booked site) s it) := by
  have hW := fun hw => h.willHold_step it hs (v := v) hw
  obtain ⟨st, M⟩ := s
  -- what the step does when the version has not been touched
  have hright : seenGet st.seen v = none → ¬ WillHold (N0.booked site) v →
      (vbOf N0 site (st, M)).partial? v = (N0.booked site).partial? v →
      (WillHold (vbOf N0 site (txStepG (N0.booked site) (st, M) it)) v ∨
        (seenGet (txStepG (N0.booked site) (st, M) it).1.seen v = none ∧
          (vbOf N0 site (txStepG (N0.booked site) (st, M) it)).partial? v = (N0.booked site).partial? v)) ∧
      ((∃ last cs, it = Item.full site v 0 last last cs) → (N0.booked site).partial? v = none →
        WillHold (vbOf N0 site (txStepG (N0.booked site) (st, M) it)) v) ∧
      ((∃ lo hi, it = Item.empty site lo hi ∧ lo ≤ v ∧ v ≤ hi) →
        WillHold (vbOf N0 site (txStepG (N0.booked site) (st, M) it)) v) := by
    intro h1 h2 h3
    unfold txStepG vbOf at *
    simp only at *
    cases stepKind (N0.booked site) site st it hs with
    | skip hsk why =>
      rw [hsk]
      refine ⟨Or.inr ⟨h1, h3⟩, ?_, ?_⟩
      · rintro ⟨last, cs, rfl⟩ hpn
        exfalso
        rcases why with hc | hc | ⟨v', lo, hi, last', cs', he, hlt⟩
        · have hc' : (N0.booked site).containsAll v v (some (0, last)) = true := hc
          rw [containsAll_single] at hc'
          exact h2 ⟨contains_cv hc', fun p hp' => by rw [hpn] at hp'; cases hp'⟩
        · rw [alreadySeen_full_eq, h1] at hc; cases hc
        · simp only [Item.full.injEq] at he
          omega
      · rintro ⟨lo, hi, rfl, hl1, hl2⟩
        exfalso
        rcases why with hc | hc | ⟨v', lo', hi', last', cs', he, _⟩
        · have hc' : (N0.booked site).containsAll lo hi none = true := hc
          exact h2 ((contains_none_iff _ _).mp ((containsAll_iff _ _ _ _).mp hc' v hl1 hl2))
        · have := alreadySeen_empty_mem hc hl1 hl2
          rw [h1] at this; cases this
        · cases he
    | none vlo vhi hlh hv hshape hnc hns hseen hproc =>
      rw [hproc, cV_none_eq, hseen]
      have hin : vlo ≤ v ∧ v ≤ vhi → WillHold
          (((cV (N0.booked site) site st.processed).1.insertDb [(vlo, vhi)]).dropPartials vlo vhi) v := by
        intro hin
        refine ⟨(none_step_cv h hlh v).mpr (Or.inl hin), ?_⟩
        intro p hp'
        rw [none_step_partial, if_pos hin] at hp'
        cases hp'
      refine ⟨?_, ?_, ?_⟩
      · by_cases hin' : vlo ≤ v ∧ v ≤ vhi
        · exact Or.inl (hin hin')
        · right
          rw [seenGet_cons, if_neg hin', none_step_partial, if_neg hin']
          exact ⟨h1, h3⟩
      · rintro ⟨last, cs, rfl⟩ _
        simp only [Item.versions, Prod.mk.injEq] at hv
        exact hin ⟨by omega, by omega⟩
      · rintro ⟨lo, hi, rfl, hl1, hl2⟩
        simp only [Item.versions, Prod.mk.injEq] at hv
        exact hin ⟨by omega, by omega⟩
    | buffer v' lo hi last cs hit hlh hinc hnc hns hst =>
      have hv : v ≠ v' := by
        rintro rfl
        exact hinc (hcomp lo hi last cs hit)
      rw [hst, cV_buffer_eq, stBuffer_seen]
      refine ⟨Or.inr ⟨?_, ?_⟩, ?_, ?_⟩
      · rw [seenGet_cons, if_neg (by omega)]; exact h1
      · rw [bufBooked_partial_other _ _ _ _ _ _ _ v hv, vNode_booked]; exact h3
      · rintro ⟨last', cs', rfl⟩ _
        simp only [Item.full.injEq] at hit
        exact absurd hit.2.1 hv
      · rintro ⟨lo', hi', rfl, _⟩
        cases hit
  refine ⟨?_, ?_, ?_⟩
  · rcases hp.st with hw | ⟨h1, h2, h3⟩
    · exact Or.inl (hW hw)
    · rcases (hright h1 h2 h3).1 with hw | ⟨g1, g2⟩
      · exact Or.inl hw
      · exact Or.inr ⟨g1, h2, g2⟩
  · intro hpn ⟨last, cs, hm⟩
    rcases List.mem_append.mp hm with hm | hm
    · exact hW (hp.finFull hpn ⟨last, cs, hm⟩)
    · simp only [List.mem_singleton] at hm
      rcases hp.st with hw | ⟨h1, h2, h3⟩
      · exact hW hw
      · exact (hright h1 h2 h3).2.1 ⟨last, cs, hm.symm⟩ hpn
  · rintro ⟨lo, hi, hm, hl1, hl2⟩
    rcases List.mem_append.mp hm with hm | hm
    · exact hW (hp.finEmpty ⟨lo, hi, hm, hl1, hl2⟩)
    · simp only [List.mem_singleton] at hm
      rcases hp.st with hw | ⟨h1, h2, h3⟩
      · exact hW hw
      · exact (hright h1 h2 h3).2.2 ⟨lo, hi, hm.symm, hl1, hl2⟩

end

section
variable {D : Prop} {L : Log} {N0 : Node} {site : Nat} {R0 : List Chg} {C0 : List (Nat × Nat × Nat)}
  {A0 : List (Nat × Nat)}


theorem PB_step {v : Nat} {q0 : Partial} {done : List Item} {s : TxSt × List Chg}
    (hq0 : (N0.booked site).partial? v = some q0) (hwf0 : RSet.WF q0.seqs)
    (hp : PB N0 site v q0 done s) (h : TXI D L N0 site R0 C0 A0 s) (it : Item) (hs : it.site = site) :
    PB N0 site v q0 (done ++ [it]) (txStepG (N0.booked site) s it) := by
  rcases hp with hw | ⟨q, hq, hlast, hsub0, hranges, hseenS, hseenN⟩
  · exact Or.inl (h.willHold_step it hs hw)
  obtain ⟨st, M⟩ := s
  unfold PB txStepG vbOf at *
  simp only at *
  -- the ranges of `done ++ [it]`, given those of `it`
  have hgrow : ∀ (q' : Partial), (∀ x, RSet.Mem q.seqs x → RSet.Mem q'.seqs x) →
      (∀ lo hi last cs, it = Item.full site v lo hi last cs → lo ≤ hi → ∀ x, lo ≤ x → x ≤ hi → RSet.Mem q'.seqs x) →
      ∀ r ∈ rangesFor site v (done ++ [it]), ∀ x, r.1 ≤ x → x ≤ r.2 → RSet.Mem q'.seqs x := by
    intro q' hqq hnew r hr x h1 h2
    rw [rangesFor_append] at hr
    rcases List.mem_append.mp hr with hr | hr
    · exact hqq x (hranges r hr x h1 h2)
    · obtain ⟨⟨last, cs, hm⟩, hle⟩ := mem_rangesFor.mp hr
      simp only [List.mem_singleton] at hm
      exact hnew r.1 r.2 last cs hm.symm hle x h1 h2
  cases stepKind (N0.booked site) site st it hs with
  | skip hsk why =>
    rw [hsk]
    right
    refine ⟨q, hq, hlast, hsub0, hgrow q (fun x hx => hx) ?_, hseenS, hseenN⟩
    rintro lo hi last cs rfl hle x h1 h2
    rcases why with hc | hc | ⟨v', lo', hi', last', cs', he, hlt⟩
    · have hc' : (N0.booked site).containsAll v v (some (lo, hi)) = true := hc
      rw [containsAll_single] at hc'
      exact hsub0 x (mem_of_gaps_empty hwf0 (contains_some_gaps hc' hq0) ⟨h1, h2⟩)
    · rw [alreadySeen_full_eq] at hc
      cases hsg : seenGet st.seen v with
      | none => rw [hsg] at hc; cases hc
      | some o =>
        cases o with
        | none => exact absurd hsg hseenN
        | some pm =>
          rw [hsg] at hc
          obtain ⟨hw, hsub⟩ := hseenS pm hsg
          exact hsub x (mem_of_gaps_empty hw hc ⟨h1, h2⟩)
    · simp only [Item.full.injEq] at he
      omega
  | none vlo vhi hlh hv hshape hnc hns hseen hproc =>
    rw [hproc, cV_none_eq, hseen]
    by_cases hin : vlo ≤ v ∧ v ≤ vhi
    · left
      refine ⟨(none_step_cv h hlh v).mpr (Or.inl hin), ?_⟩
      intro p hp'
      rw [none_step_partial, if_pos hin] at hp'
      cases hp'
    · right
      refine ⟨q, by rw [none_step_partial, if_neg hin]; exact hq, hlast, hsub0, hgrow q (fun x hx => hx) ?_, ?_, ?_⟩
      · rintro lo hi last cs rfl _
        simp only [Item.versions, Prod.mk.injEq] at hv
        exact absurd ⟨by omega, by omega⟩ hin
      · intro pm hpm
        rw [seenGet_cons, if_neg hin] at hpm
        exact hseenS pm hpm
      · rw [seenGet_cons, if_neg hin]; exact hseenN
  | buffer v' lo hi last cs hit hlh hinc hnc hns hst =>
    rw [hst, cV_buffer_eq, stBuffer_seen]
    have hVb := vNode_booked (N0.booked site) site st
    by_cases hv : v = v'
    · subst hv
      right
      have hq' : ((vNode (N0.booked site) site st).booked site).partial? v = some q := by rw [hVb]; exact hq
      have hm := @mem_bufPartial (vNode (N0.booked site) site st) site v lo hi last cs hlh
      have hch := (bufferChunk_setBooked st.node site (cV (N0.booked site) site st.processed).1 site v lo hi last cs).1
      have hrange := bufChunk_range (vNode (N0.booked site) site st) site v lo hi last cs
      have hfwd := bufChunk_fwd (vNode (N0.booked site) site st) site v last cs hlh
      refine ⟨bufPartial (vNode (N0.booked site) site st) site v lo hi last cs, bufBooked_partial_same _ _ _ _ _ _ _,
        ?_, ?_, ?_, ?_, ?_⟩
      · rw [bufPartial_last, hq']; exact hlast
      · intro x hx
        exact (hm x).mpr (Or.inl ⟨q, hq', hsub0 x hx⟩)
      · apply hgrow _ (fun x hx => (hm x).mpr (Or.inl ⟨q, hq', hx⟩))
        intro lo' hi' last' cs' he _ x h1 h2
        simp only [hit, Item.full.injEq] at he
        obtain ⟨_, _, rfl, rfl, _⟩ := he
        exact (hm x).mpr (Or.inr ⟨by omega, by omega⟩)
      · intro pm hpm
        rw [seenGet_cons, if_pos ⟨Nat.le_refl _, Nat.le_refl _⟩] at hpm
        simp only [Option.some.injEq] at hpm
        subst hpm
        simp only
        have hch' : (st.node.bufferChunk site v lo hi last cs).2 =
            ((vNode (N0.booked site) site st).bufferChunk site v lo hi last cs).2 := hch.symm
        rw [hch']
        refine ⟨wf_single_range hfwd, ?_⟩
        intro x hx
        exact (hm x).mpr (Or.inr ((mem_single_range _ _ _).mp hx))
      · rw [seenGet_cons, if_pos ⟨Nat.le_refl _, Nat.le_refl _⟩]
        intro hc; cases hc
    · right
      refine ⟨q, ?_, hlast, hsub0, hgrow q (fun x hx => hx) ?_, ?_, ?_⟩
      · rw [bufBooked_partial_other _ _ _ _ _ _ _ v hv, hVb]; exact hq
      · intro lo' hi' last' cs' he
        simp only [hit, Item.full.injEq] at he
        exact absurd he.2.1.symm hv
      · intro pm hpm
        rw [seenGet_cons, if_neg (by omega)] at hpm
        exact hseenS pm hpm
      · rw [seenGet_cons, if_neg (by omega)]; exact hseenN

end

end Corro.ClusterSys.Full
