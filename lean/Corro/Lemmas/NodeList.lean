/-
Small algebraic lemmas about the list functions the node model (`Corro/Model/Node.lean`) is made
of: sorted insertion, the version enumerations, folds of `RSet.insert` over singletons, `maxSeq`,
`sortBySeq`.
-/
import Corro.Model.Node
import Corro.Lemmas.Ranges
import Corro.Lemmas.CrdtLocal

namespace Corro.Node
open Corro.Crdt

/-! ### `insertSortedBy` -/

theorem mem_insertSortedBy {α : Type} (key : α → Nat) {x a : α} {l : List α} :
    x ∈ insertSortedBy key a l ↔ x = a ∨ x ∈ l := by
  induction l with
  | nil => simp [insertSortedBy]
  | cons y ys ih =>
    unfold insertSortedBy
    split
    · simp
    · simp only [List.mem_cons, ih]; grind

theorem insertSortedBy_perm {α : Type} (key : α → Nat) (a : α) (l : List α) :
    (insertSortedBy key a l).Perm (a :: l) := by
  induction l with
  | nil => simp [insertSortedBy]
  | cons y ys ih =>
    unfold insertSortedBy
    split
    · exact List.Perm.refl _
    · exact (List.Perm.cons y ih).trans (List.Perm.swap a y ys)

theorem insertSortedBy_length {α : Type} (key : α → Nat) (a : α) (l : List α) :
    (insertSortedBy key a l).length = l.length + 1 := by
  have := (insertSortedBy_perm key a l).length_eq
  simpa using this

theorem insertSortedBy_sorted {α : Type} (key : α → Nat) (a : α) {l : List α}
    (h : l.Pairwise (fun x y => key x ≤ key y)) :
    (insertSortedBy key a l).Pairwise (fun x y => key x ≤ key y) := by
  induction l with
  | nil => simp [insertSortedBy]
  | cons y ys ih =>
    unfold insertSortedBy
    have h' := List.pairwise_cons.mp h
    split
    · rename_i hlt
      refine List.pairwise_cons.mpr ⟨?_, h⟩
      intro z hz
      rcases List.mem_cons.mp hz with rfl | hz
      · omega
      · have := h'.1 z hz; omega
    · rename_i hge
      refine List.pairwise_cons.mpr ⟨?_, ih h'.2⟩
      intro z hz
      rcases (mem_insertSortedBy key).mp hz with rfl | hz
      · omega
      · exact h'.1 z hz

/-- strict version: inserting a fresh key keeps the keys strictly increasing -/
theorem insertSortedBy_strict {α : Type} (key : α → Nat) (a : α) {l : List α}
    (h : l.Pairwise (fun x y => key x < key y)) (hne : ∀ x ∈ l, key x ≠ key a) :
    (insertSortedBy key a l).Pairwise (fun x y => key x < key y) := by
  induction l with
  | nil => simp [insertSortedBy]
  | cons y ys ih =>
    unfold insertSortedBy
    have h' := List.pairwise_cons.mp h
    split
    · rename_i hlt
      refine List.pairwise_cons.mpr ⟨?_, h⟩
      intro z hz
      rcases List.mem_cons.mp hz with rfl | hz
      · omega
      · have := h'.1 z hz; omega
    · rename_i hge
      refine List.pairwise_cons.mpr ⟨?_, ih h'.2 (fun x hx => hne x (by simp [hx]))⟩
      intro z hz
      rcases (mem_insertSortedBy key).mp hz with rfl | hz
      · have := hne y (by simp); omega
      · exact h'.1 z hz

theorem mem_foldl_insertSortedBy {α : Type} (key : α → Nat) {x : α} (l acc : List α) :
    x ∈ l.foldl (fun acc r => insertSortedBy key r acc) acc ↔ x ∈ acc ∨ x ∈ l := by
  induction l generalizing acc with
  | nil => simp
  | cons y ys ih =>
    simp only [List.foldl_cons, ih, mem_insertSortedBy, List.mem_cons]; grind

theorem foldl_insertSortedBy_perm {α : Type} (key : α → Nat) (l acc : List α) :
    (l.foldl (fun acc r => insertSortedBy key r acc) acc).Perm (l ++ acc) := by
  induction l generalizing acc with
  | nil => simp
  | cons y ys ih =>
    simp only [List.foldl_cons]
    refine (ih _).trans ?_
    refine (List.Perm.append_left ys (insertSortedBy_perm key y acc)).trans ?_
    simp only [List.cons_append]
    exact List.perm_middle

theorem foldl_insertSortedBy_sorted {α : Type} (key : α → Nat) (l : List α) {acc : List α}
    (h : acc.Pairwise (fun x y => key x ≤ key y)) :
    (l.foldl (fun acc r => insertSortedBy key r acc) acc).Pairwise (fun x y => key x ≤ key y) := by
  induction l generalizing acc with
  | nil => exact h
  | cons y ys ih => exact ih (insertSortedBy_sorted key y h)

/-- inserting a key that is below every element is `cons` -/
theorem insertSortedBy_lt_all {α : Type} (key : α → Nat) (a : α) (l : List α)
    (h : ∀ x ∈ l, key a < key x) : insertSortedBy key a l = a :: l := by
  cases l with
  | nil => rfl
  | cons y ys => unfold insertSortedBy; rw [if_pos (h y (by simp))]

/-- inserting a key that is not below any element is `snoc` -/
theorem insertSortedBy_ge_all {α : Type} (key : α → Nat) (a : α) (l : List α)
    (h : ∀ x ∈ l, key x ≤ key a) : insertSortedBy key a l = l ++ [a] := by
  induction l with
  | nil => rfl
  | cons y ys ih =>
    unfold insertSortedBy
    have := h y (by simp)
    rw [if_neg (by omega), ih (fun x hx => h x (by simp [hx]))]; rfl

/-! ### `sortBySeq` -/

theorem insertBySeq_perm (c : Chg) (l : List Chg) : (insertBySeq c l).Perm (c :: l) := by
  induction l with
  | nil => simp [insertBySeq]
  | cons y ys ih =>
    unfold insertBySeq
    split
    · exact List.Perm.refl _
    · exact (List.Perm.cons y ih).trans (List.Perm.swap c y ys)

theorem insertBySeq_sorted (c : Chg) {l : List Chg} (h : l.Pairwise (fun x y => x.seq ≤ y.seq)) :
    (insertBySeq c l).Pairwise (fun x y => x.seq ≤ y.seq) := by
  induction l with
  | nil => simp [insertBySeq]
  | cons y ys ih =>
    unfold insertBySeq
    have h' := List.pairwise_cons.mp h
    split
    · refine List.pairwise_cons.mpr ⟨?_, h⟩
      intro z hz
      rcases List.mem_cons.mp hz with rfl | hz
      · omega
      · have := h'.1 z hz; omega
    · refine List.pairwise_cons.mpr ⟨?_, ih h'.2⟩
      intro z hz
      rcases mem_insertBySeq.mp hz with rfl | hz
      · omega
      · exact h'.1 z hz

theorem foldl_insertBySeq_sorted (cs : List Chg) {acc : List Chg}
    (h : acc.Pairwise (fun x y => x.seq ≤ y.seq)) :
    (cs.foldl (fun acc c => insertBySeq c acc) acc).Pairwise (fun x y => x.seq ≤ y.seq) := by
  induction cs generalizing acc with
  | nil => exact h
  | cons y ys ih => exact ih (insertBySeq_sorted y h)

theorem foldl_insertBySeq_perm (cs acc : List Chg) :
    (cs.foldl (fun acc c => insertBySeq c acc) acc).Perm (cs ++ acc) := by
  induction cs generalizing acc with
  | nil => simp
  | cons y ys ih =>
    simp only [List.foldl_cons]
    refine (ih _).trans ?_
    refine (List.Perm.append_left ys (insertBySeq_perm y acc)).trans ?_
    simp only [List.cons_append]
    exact List.perm_middle

/-- `sortBySeq` sorts by seq … -/
theorem sortBySeq_sorted (cs : List Chg) : (sortBySeq cs).Pairwise (fun x y => x.seq ≤ y.seq) :=
  foldl_insertBySeq_sorted cs List.Pairwise.nil

/-- … and is a permutation of its input -/
theorem sortBySeq_perm (cs : List Chg) : (sortBySeq cs).Perm cs := by
  have := foldl_insertBySeq_perm cs []
  simpa [sortBySeq] using this

theorem sortBySeq_isEmpty (cs : List Chg) : (sortBySeq cs).isEmpty = cs.isEmpty := by
  have := (sortBySeq_perm cs).length_eq
  cases h1 : sortBySeq cs <;> cases h2 : cs <;> simp_all

theorem insertBySeq_ge_all (c : Chg) (l : List Chg) (h : ∀ x ∈ l, x.seq ≤ c.seq) :
    insertBySeq c l = l ++ [c] := by
  induction l with
  | nil => rfl
  | cons y ys ih =>
    unfold insertBySeq
    have := h y (by simp)
    rw [if_neg (by omega), ih (fun x hx => h x (by simp [hx]))]; rfl

/-- a list that is already sorted by seq is a fixed point -/
theorem sortBySeq_of_sorted (cs : List Chg) (h : cs.Pairwise (fun x y => x.seq ≤ y.seq)) :
    sortBySeq cs = cs := by
  suffices hs : ∀ (l acc : List Chg), (acc ++ l).Pairwise (fun x y => x.seq ≤ y.seq) →
      l.foldl (fun acc c => insertBySeq c acc) acc = acc ++ l by
    simpa [sortBySeq] using hs cs [] (by simpa using h)
  intro l
  induction l with
  | nil => intro acc _; simp
  | cons y ys ih =>
    intro acc hp
    simp only [List.foldl_cons]
    have hy : ∀ x ∈ acc, x.seq ≤ y.seq := by
      intro x hx
      exact (List.pairwise_append.mp hp).2.2 x hx y (by simp)
    rw [insertBySeq_ge_all y acc hy, ih (acc ++ [y]) (by simpa using hp)]
    simp

/-- two lists sorted by a key with pairwise distinct keys and the same elements are equal -/
theorem eq_of_sorted_perm {α : Type} (key : α → Nat) :
    ∀ {l₁ l₂ : List α}, l₁.Pairwise (fun x y => key x < key y) →
      l₂.Pairwise (fun x y => key x < key y) → (∀ x, x ∈ l₁ ↔ x ∈ l₂) → l₁ = l₂ := by
  intro l₁
  induction l₁ with
  | nil =>
    intro l₂ _ _ h
    cases l₂ with
    | nil => rfl
    | cons b t => exact absurd ((h b).mpr (by simp)) (by simp)
  | cons a s ih =>
    intro l₂ h1 h2 h
    cases l₂ with
    | nil => exact absurd ((h a).mp (by simp)) (by simp)
    | cons b t =>
      have h1' := List.pairwise_cons.mp h1
      have h2' := List.pairwise_cons.mp h2
      have hab : a = b := by
        have ha := (h a).mp (by simp)
        have hb := (h b).mpr (by simp)
        rcases List.mem_cons.mp ha with ha | ha
        · exact ha
        · rcases List.mem_cons.mp hb with hb | hb
          · exact hb.symm
          · have := h1'.1 b hb; have := h2'.1 a ha; omega
      subst hab
      congr 1
      apply ih h1'.2 h2'.2
      intro x
      constructor
      · intro hx
        rcases List.mem_cons.mp ((h x).mp (by simp [hx])) with rfl | hx'
        · have := h1'.1 x hx; omega
        · exact hx'
      · intro hx
        rcases List.mem_cons.mp ((h x).mpr (by simp [hx])) with rfl | hx'
        · have := h2'.1 x hx; omega
        · exact hx'

/-! ### `maxSeq` -/

theorem maxSeq_ge_init (cs : List Chg) (m : Nat) : m ≤ cs.foldl (fun m c => Nat.max m c.seq) m := by
  induction cs generalizing m with
  | nil => exact Nat.le_refl _
  | cons c cs ih =>
    simp only [List.foldl_cons]
    exact Nat.le_trans (Nat.le_max_left _ _) (ih _)

theorem le_maxSeq {cs : List Chg} {c : Chg} (h : c ∈ cs) : c.seq ≤ maxSeq cs := by
  unfold maxSeq
  suffices hs : ∀ (m : Nat), c.seq ≤ cs.foldl (fun m c => Nat.max m c.seq) m from hs 0
  induction cs with
  | nil => cases h
  | cons a l ih =>
    intro m
    simp only [List.foldl_cons]
    rcases List.mem_cons.mp h with rfl | h
    · exact Nat.le_trans (Nat.le_max_right _ _) (maxSeq_ge_init _ _)
    · exact ih h _

/-- the maximum is attained (or the list is empty and it is 0) -/
theorem maxSeq_attained (cs : List Chg) : (∃ c ∈ cs, c.seq = maxSeq cs) ∨ (cs = [] ∧ maxSeq cs = 0) := by
  unfold maxSeq
  suffices hs : ∀ (m : Nat), (∃ c ∈ cs, c.seq = cs.foldl (fun m c => Nat.max m c.seq) m) ∨
      cs.foldl (fun m c => Nat.max m c.seq) m = m by
    rcases hs 0 with h | h
    · exact Or.inl h
    · cases cs with
      | nil => exact Or.inr ⟨rfl, rfl⟩
      | cons a l =>
        left
        simp only [List.foldl_cons] at h
        have h1 := maxSeq_ge_init l (Nat.max 0 a.seq)
        have h2 : a.seq ≤ Nat.max 0 a.seq := Nat.le_max_right _ _
        refine ⟨a, by simp, ?_⟩
        simp only [List.foldl_cons]
        omega
  induction cs with
  | nil => intro m; right; rfl
  | cons a l ih =>
    intro m
    simp only [List.foldl_cons]
    rcases ih (Nat.max m a.seq) with ⟨c, hc, he⟩ | h
    · exact Or.inl ⟨c, by simp [hc], he⟩
    · rw [h]
      by_cases hm : a.seq ≤ m
      · right; exact Nat.max_eq_left hm
      · left; exact ⟨a, by simp, (Nat.max_eq_right (by omega)).symm⟩

/-! ### version enumerations -/

theorem mem_versionsAsc {lo hi v : Nat} : v ∈ versionsAsc lo hi ↔ lo ≤ v ∧ v ≤ hi := by
  simp only [versionsAsc, List.mem_map, List.mem_range]
  constructor
  · rintro ⟨i, hi', rfl⟩; omega
  · intro h; exact ⟨v - lo, by omega, by omega⟩

theorem mem_versionsDesc {lo hi v : Nat} : v ∈ versionsDesc lo hi ↔ lo ≤ v ∧ v ≤ hi := by
  simp only [versionsDesc, List.mem_map, List.mem_reverse, List.mem_range]
  constructor
  · rintro ⟨i, hi', rfl⟩; omega
  · intro h; exact ⟨v - lo, by omega, by omega⟩

theorem versionsAsc_nodup (lo hi : Nat) : (versionsAsc lo hi).Nodup := by
  unfold versionsAsc List.Nodup
  refine List.pairwise_map.mpr (List.Pairwise.imp ?_ List.nodup_range)
  intro a b h; omega

theorem versionsDesc_nodup (lo hi : Nat) : (versionsDesc lo hi).Nodup := by
  unfold versionsDesc List.Nodup
  refine List.pairwise_map.mpr (List.Pairwise.imp ?_ (List.pairwise_reverse.mpr (List.Pairwise.imp (fun h => Ne.symm h) List.nodup_range)))
  intro a b h; omega

theorem versionsAsc_single (v : Nat) : versionsAsc v v = [v] := by
  simp [versionsAsc, show v + 1 - v = 1 by omega, List.range_succ]

theorem versionsDesc_single (v : Nat) : versionsDesc v v = [v] := by
  simp [versionsDesc, show v + 1 - v = 1 by omega, List.range_succ]

/-- filtering a duplicate-free list for one of its elements leaves that element alone -/
theorem filter_eq_singleton {α : Type} [DecidableEq α] {l : List α} (hn : l.Nodup) {a : α}
    (ha : a ∈ l) : l.filter (fun x => decide (x = a)) = [a] := by
  induction l with
  | nil => cases ha
  | cons y ys ih =>
    have hn' := List.nodup_cons.mp hn
    by_cases hy : y = a
    · subst hy
      rw [List.filter_cons_of_pos (by simp)]
      congr 1
      apply List.filter_eq_nil_iff.mpr
      intro x hx
      simp only [decide_eq_true_eq]
      rintro rfl
      exact hn'.1 hx
    · rw [List.filter_cons_of_neg (by simpa using hy)]
      rcases List.mem_cons.mp ha with rfl | ha
      · exact absurd rfl hy
      · exact ih hn'.2 ha

/-! ### folds of `RSet.insert` over single versions -/

theorem wf_foldl_insert_singletons (vs : List Nat) (s : RSet) (hs : RSet.WF s) :
    RSet.WF (vs.foldl (fun s v => RSet.insert s (v, v)) s) := by
  induction vs generalizing s with
  | nil => exact hs
  | cons v vs ih => exact ih _ (RSet.insert_wf s v v (Nat.le_refl _) hs)

theorem mem_foldl_insert_singletons (vs : List Nat) (s : RSet) (x : Nat) :
    RSet.Mem (vs.foldl (fun s v => RSet.insert s (v, v)) s) x ↔ RSet.Mem s x ∨ x ∈ vs := by
  induction vs generalizing s with
  | nil => simp
  | cons v vs ih =>
    simp only [List.foldl_cons, ih, RSet.mem_insert s v v x (Nat.le_refl _), List.mem_cons]
    constructor
    · rintro ((h | h) | h)
      · exact Or.inl h
      · exact Or.inr (Or.inl (by omega))
      · exact Or.inr (Or.inr h)
    · rintro (h | rfl | h)
      · exact Or.inl (Or.inl h)
      · exact Or.inl (Or.inr ⟨Nat.le_refl _, Nat.le_refl _⟩)
      · exact Or.inr h

/-- every stored interval of a canonical set is forward -/
theorem wfFrom_forward {lb : Nat} {s : RSet} (h : RSet.WFfrom lb s) : ∀ p ∈ s, p.1 ≤ p.2 := by
  induction s generalizing lb with
  | nil => intro p hp; cases hp
  | cons q t ih =>
    obtain ⟨a, b⟩ := q
    simp only [RSet.WFfrom] at h
    intro p hp
    rcases List.mem_cons.mp hp with rfl | hp
    · exact h.2.1
    · exact ih h.2.2 p hp

/-- a canonical set is empty iff it has no point -/
theorem wf_isEmpty_iff {lb : Nat} {s : RSet} (h : RSet.WFfrom lb s) :
    s.isEmpty = true ↔ ∀ x, ¬ RSet.Mem s x := by
  cases s with
  | nil => simp [RSet.mem_nil]
  | cons q t =>
    obtain ⟨a, b⟩ := q
    simp only [RSet.WFfrom] at h
    simp only [List.isEmpty_cons, Bool.false_eq_true, false_iff]
    intro hx
    exact hx a (RSet.mem_cons.mpr (Or.inl ⟨Nat.le_refl _, h.2.1⟩))

end Corro.Node
