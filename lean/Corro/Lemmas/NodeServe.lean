/-
C05 helper lemmas: the pieces `handleNeed` (model of `handle_need`) is made of, named, with their
membership characterisations.  Everything here holds for ANY node state.
-/
import Corro.Lemmas.NodeList

namespace Corro.Node
open Corro.Crdt Corro.Needs

/-! ### named pieces of `handleNeed` -/

/-- "the version has at least one row in `__corro_buffered_changes`" -/
def Node.hasBuf (n : Node) (site v : Nat) : Bool := n.buf.any (fun c => c.site = site ∧ c.dbv = v)

/-- buffered rows of `(site, v)` with `lo ≤ seq ≤ hi`, by seq -/
def Node.bufIn (n : Node) (site v lo hi : Nat) : List Chg :=
  sortBySeq (n.buf.filter (fun c => c.site = site ∧ c.dbv = v ∧ lo ≤ c.seq ∧ c.seq ≤ hi))

def liveItem (n : Node) (site v : Nat) : Option Item :=
  let cs := n.live site v
  if cs.isEmpty then none else some (Item.full site v 0 (maxSeq cs) (maxSeq cs) cs)

def liveMsgs (n : Node) (site lo hi : Nat) : List Item := (versionsDesc lo hi).filterMap (liveItem n site)

def restVs (n : Node) (site lo hi : Nat) : List Nat :=
  (versionsAsc lo hi).filter (fun v => (n.live site v).isEmpty)

def bufItem (n : Node) (site v : Nat) (r : SeqRow) : Item :=
  Item.full site v r.lo r.hi r.last (n.bufIn site v r.lo r.hi)

def bufItemsOf (n : Node) (site v : Nat) : List Item :=
  if !(n.hasBuf site v) then [] else (seqRowsOf n site v).map (bufItem n site v)

def bufMsgs (n : Node) (site lo hi : Nat) : List Item := (restVs n site lo hi).flatMap (bufItemsOf n site)

def emptyVs (n : Node) (site lo hi : Nat) : List Nat :=
  (restVs n site lo hi).filter fun v => !(n.hasBuf site v) && !(n.inGaps site v)

def emptyRanges (n : Node) (site lo hi : Nat) : RSet :=
  (emptyVs n site lo hi).foldl (fun s v => RSet.insert s (v, v)) ([] : RSet)

theorem handleNeed_full (n : Node) (site lo hi : Nat) :
    handleNeed n site (.full lo hi) =
      liveMsgs n site lo hi ++ bufMsgs n site lo hi ++
        (emptyRanges n site lo hi).map (fun r => Item.empty site r.1 r.2) := rfl

/-- the answer to one requested seq range of a version with live changes -/
def livePart (n : Node) (site v : Nat) (r : Nat × Nat) : Option Item :=
  let cs := n.live site v
  let sub := cs.filter (fun c => r.1 ≤ c.seq ∧ c.seq ≤ r.2)
  if sub.isEmpty && r.1 == 0 && r.2 == maxSeq cs then none
  else some (Item.full site v r.1 r.2 (maxSeq cs) sub)

/-- the four-case SQL predicate `handle_need` selects sequence rows with -/
def rowOverlaps (r : Nat × Nat) (row : SeqRow) : Bool :=
  (decide (r.1 ≤ row.lo) && decide (row.lo ≤ r.2)) || (decide (row.lo ≤ r.1) && decide (r.2 ≤ row.hi)) ||
  (decide (row.lo ≤ r.2) && decide (r.2 ≤ row.hi)) || (decide (r.1 ≤ row.hi) && decide (row.hi ≤ r.2))

def partItem (n : Node) (site v : Nat) (r : Nat × Nat) (row : SeqRow) : Item :=
  Item.full site v (Nat.max row.lo r.1) (Nat.min row.hi r.2) row.last
    (n.bufIn site v (Nat.max row.lo r.1) (Nat.min row.hi r.2))

def partItemsOf (n : Node) (site v : Nat) (r : Nat × Nat) : List Item :=
  ((seqRowsOf n site v).filter (rowOverlaps r)).map (partItem n site v r)

theorem handleNeed_part (n : Node) (site v : Nat) (seqs : List (Nat × Nat)) :
    handleNeed n site (.part v seqs) =
      if !(n.live site v).isEmpty then seqs.filterMap (livePart n site v)
      else (if !(n.hasBuf site v) then [] else seqs.flatMap (partItemsOf n site v)) ++
        (if !(n.hasBuf site v) && !(n.inGaps site v) then [Item.empty site v v] else []) := rfl

/-! ### lookups -/

theorem mem_live {n : Node} {site v : Nat} {c : Chg} :
    c ∈ n.live site v ↔ c ∈ n.db.changes ∧ c.site = site ∧ c.dbv = v ∧ c.seq ≤ 1000000000 := by
  unfold Node.live Db.changesOf
  rw [mem_sortBySeq, List.mem_filter]
  simp only [decide_eq_true_eq, Nat.zero_le, true_and]

theorem live_sorted (n : Node) (site v : Nat) :
    (n.live site v).Pairwise (fun x y => x.seq ≤ y.seq) := sortBySeq_sorted _

theorem mem_bufIn {n : Node} {site v lo hi : Nat} {c : Chg} :
    c ∈ n.bufIn site v lo hi ↔ c ∈ n.buf ∧ c.site = site ∧ c.dbv = v ∧ lo ≤ c.seq ∧ c.seq ≤ hi := by
  unfold Node.bufIn
  rw [mem_sortBySeq, List.mem_filter]
  simp only [decide_eq_true_eq]

theorem bufIn_sorted (n : Node) (site v lo hi : Nat) :
    (n.bufIn site v lo hi).Pairwise (fun x y => x.seq ≤ y.seq) := sortBySeq_sorted _

theorem hasBuf_iff {n : Node} {site v : Nat} :
    n.hasBuf site v = true ↔ ∃ c ∈ n.buf, c.site = site ∧ c.dbv = v := by
  simp [Node.hasBuf]

theorem hasBuf_false_iff {n : Node} {site v : Nat} :
    n.hasBuf site v = false ↔ ∀ c ∈ n.buf, ¬ (c.site = site ∧ c.dbv = v) := by
  simp [Node.hasBuf]

theorem inGaps_iff {n : Node} {site v : Nat} :
    n.inGaps site v = true ↔ RSet.Mem (n.booked site).needed v := by
  unfold Node.inGaps; exact RSet.contains_iff _ _

theorem mem_seqRowsOf {n : Node} {site v : Nat} {r : SeqRow} :
    r ∈ seqRowsOf n site v ↔ r ∈ n.seqRows ∧ r.site = site ∧ r.ver = v := by
  unfold seqRowsOf
  rw [mem_foldl_insertSortedBy, List.mem_filter]
  simp

theorem seqRowsOf_sorted (n : Node) (site v : Nat) :
    (seqRowsOf n site v).Pairwise (fun a b => a.lo ≤ b.lo) :=
  foldl_insertSortedBy_sorted (fun (r : SeqRow) => r.lo) _ List.Pairwise.nil

theorem seqRowsOf_perm (n : Node) (site v : Nat) :
    (seqRowsOf n site v).Perm (n.seqRows.filter (fun r => r.site = site ∧ r.ver = v)) := by
  have := foldl_insertSortedBy_perm (fun (r : SeqRow) => r.lo)
    (n.seqRows.filter (fun r => r.site = site ∧ r.ver = v)) []
  simpa [seqRowsOf] using this

theorem liveItem_some {n : Node} {site v : Nat} {it : Item} (h : liveItem n site v = some it) :
    (n.live site v).isEmpty = false ∧
      it = Item.full site v 0 (maxSeq (n.live site v)) (maxSeq (n.live site v)) (n.live site v) := by
  unfold liveItem at h
  simp only at h
  split at h
  · cases h
  · rename_i hne
    simp only [Option.some.injEq] at h
    exact ⟨by simpa using hne, h.symm⟩

theorem liveItem_of_live {n : Node} {site v : Nat} (h : (n.live site v).isEmpty = false) :
    liveItem n site v =
      some (Item.full site v 0 (maxSeq (n.live site v)) (maxSeq (n.live site v)) (n.live site v)) := by
  unfold liveItem
  simp only [h, Bool.false_eq_true, if_false]

theorem mem_restVs {n : Node} {site lo hi v : Nat} :
    v ∈ restVs n site lo hi ↔ lo ≤ v ∧ v ≤ hi ∧ (n.live site v).isEmpty = true := by
  unfold restVs
  rw [List.mem_filter, mem_versionsAsc]
  exact ⟨fun h => ⟨h.1.1, h.1.2, h.2⟩, fun h => ⟨⟨h.1, h.2.1⟩, h.2.2⟩⟩

theorem mem_emptyVs {n : Node} {site lo hi v : Nat} :
    v ∈ emptyVs n site lo hi ↔
      lo ≤ v ∧ v ≤ hi ∧ (n.live site v).isEmpty = true ∧ n.hasBuf site v = false ∧
        n.inGaps site v = false := by
  unfold emptyVs
  rw [List.mem_filter, mem_restVs]
  simp only [Bool.and_eq_true, Bool.not_eq_true']
  exact ⟨fun h => ⟨h.1.1, h.1.2.1, h.1.2.2, h.2.1, h.2.2⟩, fun h => ⟨⟨h.1, h.2.1, h.2.2.1⟩, h.2.2.2⟩⟩

theorem emptyRanges_wf (n : Node) (site lo hi : Nat) : RSet.WF (emptyRanges n site lo hi) :=
  wf_foldl_insert_singletons _ _ (by simp [RSet.WF, RSet.WFfrom])

theorem mem_emptyRanges {n : Node} {site lo hi v : Nat} :
    RSet.Mem (emptyRanges n site lo hi) v ↔ v ∈ emptyVs n site lo hi := by
  unfold emptyRanges
  rw [mem_foldl_insert_singletons]
  simp [RSet.mem_nil]

/-- membership in the answer to a `Full` need -/
theorem mem_handleNeed_full {n : Node} {site lo hi : Nat} {it : Item} :
    it ∈ handleNeed n site (.full lo hi) ↔
      (∃ v, lo ≤ v ∧ v ≤ hi ∧ liveItem n site v = some it) ∨
      (∃ v r, lo ≤ v ∧ v ≤ hi ∧ (n.live site v).isEmpty = true ∧ n.hasBuf site v = true ∧
        r ∈ seqRowsOf n site v ∧ it = bufItem n site v r) ∨
      (∃ p ∈ emptyRanges n site lo hi, it = Item.empty site p.1 p.2) := by
  rw [handleNeed_full]
  simp only [List.mem_append, liveMsgs, bufMsgs, List.mem_filterMap, List.mem_flatMap, List.mem_map,
    mem_versionsDesc, mem_restVs, or_assoc]
  constructor
  · rintro (⟨v, ⟨h1, h2⟩, h3⟩ | ⟨v, ⟨h1, h2, h3⟩, h4⟩ | ⟨p, hp, rfl⟩)
    · exact Or.inl ⟨v, h1, h2, h3⟩
    · right; left
      unfold bufItemsOf at h4
      split at h4
      · cases h4
      · rename_i hb
        obtain ⟨r, hr, rfl⟩ := List.mem_map.mp h4
        exact ⟨v, r, h1, h2, h3, by simpa using hb, hr, rfl⟩
    · exact Or.inr (Or.inr ⟨p, hp, rfl⟩)
  · rintro (⟨v, h1, h2, h3⟩ | ⟨v, r, h1, h2, h3, h4, h5, rfl⟩ | ⟨p, hp, rfl⟩)
    · exact Or.inl ⟨v, ⟨h1, h2⟩, h3⟩
    · right; left
      refine ⟨v, ⟨h1, h2, h3⟩, ?_⟩
      unfold bufItemsOf
      rw [h4]
      exact List.mem_map.mpr ⟨r, h5, rfl⟩
    · exact Or.inr (Or.inr ⟨p, hp, rfl⟩)

theorem livePart_some {n : Node} {site v : Nat} {r : Nat × Nat} {it : Item}
    (h : livePart n site v r = some it) :
    it = Item.full site v r.1 r.2 (maxSeq (n.live site v))
      ((n.live site v).filter (fun c => r.1 ≤ c.seq ∧ c.seq ≤ r.2)) := by
  unfold livePart at h
  simp only at h
  split at h
  · cases h
  · simp only [Option.some.injEq] at h; exact h.symm

/-- for forward rows and a forward request the four SQL cases say "the intervals intersect" -/
theorem rowOverlaps_iff {r : Nat × Nat} {row : SeqRow} (hr : r.1 ≤ r.2) (hrow : row.lo ≤ row.hi) :
    rowOverlaps r row = true ↔ Nat.max row.lo r.1 ≤ Nat.min row.hi r.2 := by
  unfold rowOverlaps
  simp only [Bool.or_eq_true, Bool.and_eq_true, decide_eq_true_eq]
  have h1 : Nat.max row.lo r.1 = max row.lo r.1 := rfl
  have h2 : Nat.min row.hi r.2 = min row.hi r.2 := rfl
  rw [h1, h2]
  omega

theorem mem_partItemsOf {n : Node} {site v : Nat} {r : Nat × Nat} {it : Item} :
    it ∈ partItemsOf n site v r ↔
      ∃ row ∈ seqRowsOf n site v, rowOverlaps r row = true ∧ it = partItem n site v r row := by
  unfold partItemsOf
  simp only [List.mem_map, List.mem_filter]
  constructor
  · rintro ⟨row, ⟨h1, h2⟩, rfl⟩; exact ⟨row, h1, h2, rfl⟩
  · rintro ⟨row, h1, h2, rfl⟩; exact ⟨row, ⟨h1, h2⟩, rfl⟩

/-- membership in the answer to a `Partial` need -/
theorem mem_handleNeed_part {n : Node} {site v : Nat} {seqs : List (Nat × Nat)} {it : Item} :
    it ∈ handleNeed n site (.part v seqs) ↔
      ((n.live site v).isEmpty = false ∧ ∃ r ∈ seqs, livePart n site v r = some it) ∨
      ((n.live site v).isEmpty = true ∧ n.hasBuf site v = true ∧
        ∃ r ∈ seqs, ∃ row ∈ seqRowsOf n site v, rowOverlaps r row = true ∧ it = partItem n site v r row) ∨
      ((n.live site v).isEmpty = true ∧ n.hasBuf site v = false ∧ n.inGaps site v = false ∧
        it = Item.empty site v v) := by
  rw [handleNeed_part]
  cases hl : (n.live site v).isEmpty <;> cases hb : n.hasBuf site v <;> cases hg : n.inGaps site v <;>
    simp [List.mem_filterMap, List.mem_flatMap, mem_partItemsOf]

end Corro.Node

namespace Corro.Node
open Corro.Crdt Corro.Needs

/-! ### helpers for the property statements -/

/-- the item speaks about version `v` -/
def Item.covers (v : Nat) (it : Item) : Bool := decide (it.versions.1 ≤ v) && decide (v ≤ it.versions.2)

theorem covers_full (v s w lo hi l : Nat) (cs : List Chg) :
    Item.covers v (Item.full s w lo hi l cs) = true ↔ w = v := by
  show (decide (w ≤ v) && decide (v ≤ w)) = true ↔ w = v
  simp only [Bool.and_eq_true, decide_eq_true_eq]; omega

theorem covers_empty (v s a b : Nat) :
    Item.covers v (Item.empty s a b) = true ↔ a ≤ v ∧ v ≤ b := by
  show (decide (a ≤ v) && decide (v ≤ b)) = true ↔ _
  simp only [Bool.and_eq_true, decide_eq_true_eq]

/-- the versions a need asks for -/
def requests : Need → Nat → Prop
  | .full lo hi, v => lo ≤ v ∧ v ≤ hi
  | .part w _, v => v = w

/-- durable sequence rows are forward and end at or before `last_seq` -/
def Node.RowsForward (n : Node) : Prop := ∀ r ∈ n.seqRows, r.lo ≤ r.hi ∧ r.hi ≤ r.last

instance (n : Node) : Decidable n.RowsForward := by unfold Node.RowsForward; exact inferInstance

theorem filterMap_eq_singleton {α β : Type} {l : List α} (hn : l.Nodup) {a : α}
    (ha : a ∈ l) {g : α → Option β} {y : β} (hg : g a = some y) (hne : ∀ x ∈ l, x ≠ a → g x = none) :
    l.filterMap g = [y] := by
  induction l with
  | nil => cases ha
  | cons z zs ih =>
    have hn' := List.nodup_cons.mp hn
    by_cases hz : z = a
    · subst hz
      rw [List.filterMap_cons_some hg]
      congr 1
      apply List.filterMap_eq_nil_iff.mpr
      intro x hx
      exact hne x (by simp [hx]) (by rintro rfl; exact hn'.1 hx)
    · rw [List.filterMap_cons_none (hne z (by simp) hz)]
      rcases List.mem_cons.mp ha with rfl | ha
      · exact absurd rfl hz
      · exact ih hn'.2 ha (fun x hx => hne x (by simp [hx]))

theorem mem_serve {n : Node} {site : Nat} {need : Need} {it : Item} (h : it ∈ n.serve site need) :
    it ∈ handleNeed n site need := by
  unfold Node.serve at h
  split at h
  · exact h
  · cases h

end Corro.Node
