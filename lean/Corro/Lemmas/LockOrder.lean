/-
Lemmas for the resource-ordering argument (`Corro.Model.LockOrder`).
-/
import Corro.Model.LockOrder

namespace Corro.LockOrder

theorem rankOf_le_max (rk : Ranking) (k : Kind) : rankOf rk k ≤ maxRank rk := by
  induction rk with
  | nil => simp [rankOf, maxRank]
  | cons e rest ih =>
    obtain ⟨k', n⟩ := e
    simp only [rankOf, maxRank]
    split
    · exact Nat.le_max_left _ _
    · exact Nat.le_trans ih (Nat.le_max_right _ _)

theorem eraseKind_kinds (k : Kind) (l : List Held) :
    (eraseKind k l).map (·.kind) = (l.map (·.kind)).erase k := by
  induction l with
  | nil => rfl
  | cons h t ih =>
    unfold eraseKind
    by_cases e : h.kind = k
    · simp [e]
    · simp only [e, if_false, List.map_cons]
      rw [List.erase_cons_tail (by simpa using e), ih]

/-- the discipline does not look at the actor -/
theorem ordered_congr (rk : Ranking) : ∀ (p q : Prog) (held : List Kind), p.map Op.shape = q.map Op.shape →
    ordered rk held p = ordered rk held q := by
  intro p
  induction p with
  | nil =>
    intro q held h
    cases q with
    | nil => rfl
    | cons _ _ => simp at h
  | cons a p ih =>
    intro q held h
    cases q with
    | nil => simp at h
    | cons b q =>
      simp only [List.map_cons, List.cons.injEq] at h
      obtain ⟨hab, hpq⟩ := h
      cases a with
      | acq k x m =>
        cases b with
        | acq k' x' m' =>
          simp only [Op.shape, Prod.mk.injEq, Option.some.injEq] at hab
          obtain ⟨rfl, rfl⟩ := hab
          simp only [ordered]
          rw [ih q _ hpq]
        | rel k' => simp [Op.shape] at hab
      | rel k =>
        cases b with
        | acq k' x' m' => simp [Op.shape] at hab
        | rel k' =>
          simp only [Op.shape, Prod.mk.injEq, and_true] at hab
          subst hab
          simp only [ordered]
          rw [ih q _ hpq]

/-- every task's remaining program respects the discipline relative to what the task holds -/
def OrdInv (rk : Ranking) (s : State) : Prop :=
  ∀ i, ordered rk ((s i).held.map (·.kind)) (s i).rest = true

theorem ordInv_init {rk : Ranking} (progs : Nat → Prog) (h : ∀ i, ordered rk [] (progs i) = true) :
    OrdInv rk (initState progs) := by
  intro i; simpa [initState] using h i

theorem ordInv_step {rk : Ranking} {pol : Policy} {s s' : State} (h : OrdInv rk s) (st : Step pol s s') :
    OrdInv rk s' := by
  cases st with
  | acq i k a m rest hrest _ =>
    intro j
    by_cases e : j = i
    · subst e
      have := h j
      rw [hrest] at this
      simp only [ordered, Bool.and_eq_true] at this
      simpa [update] using this.2
    · simpa [update, e] using h j
  | rel i k rest hrest =>
    intro j
    by_cases e : j = i
    · subst e
      have := h j
      rw [hrest] at this
      simp only [ordered, Bool.and_eq_true] at this
      simp only [update, if_true]
      rw [eraseKind_kinds]
      exact this.2
    · simpa [update, e] using h j

theorem ordInv_reachable {rk : Ranking} {pol : Policy} {s0 s : State} (h0 : OrdInv rk s0)
    (hr : Reachable pol s0 s) : OrdInv rk s := by
  induction hr with
  | refl => exact h0
  | step _ st ih => exact ordInv_step ih st

/-- **The resource-ordering argument.**  In a state from which no step is possible, no task can be
waiting for a lock: its holder would have to be waiting for a strictly higher-ranked one, and ranks
are bounded.  `n` counts how far the rank is from the top. -/
theorem no_waiter_when_stuck {rk : Ranking} {pol : Policy} {s : State} (hinv : OrdInv rk s)
    (stuck : ∀ s', ¬ Step pol s s') :
    ∀ (n : Nat) (i : Nat) (k : Kind) (a : Nat) (m : Mode) (rest : Prog),
      (s i).rest = .acq k a m :: rest → maxRank rk < rankOf rk k + n → False := by
  intro n
  induction n with
  | zero =>
    intro i k a m rest _ hk
    have := rankOf_le_max rk k
    omega
  | succ n ih =>
    intro i k a m rest hrest hk
    -- the acquisition is not granted, so somebody else holds the lock
    have hng : ¬ pol.grant (heldByOther s i k a) m := fun g => stuck _ (Step.acq i k a m rest hrest g)
    have hheld : ∃ m', heldByOther s i k a m' := by
      apply Classical.byContradiction
      intro hno
      exact hng (pol.free _ m (fun m' hm' => hno ⟨m', hm'⟩))
    obtain ⟨m', j, _, h, hmem, hlock, _⟩ := hheld
    have hkind : h.kind = k := by
      simp only [Held.isLock, Bool.and_eq_true, beq_iff_eq] at hlock
      exact hlock.1
    have hkmem : k ∈ (s j).held.map (·.kind) := by
      rw [← hkind]; exact List.mem_map_of_mem hmem
    have hj := hinv j
    -- what does the holder do next?
    cases hr : (s j).rest with
    | nil =>
      rw [hr] at hj
      simp only [ordered, List.isEmpty_iff] at hj
      rw [hj] at hkmem
      cases hkmem
    | cons op rest' =>
      cases op with
      | rel k' => exact stuck _ (Step.rel j k' rest' hr)
      | acq k' a' m'' =>
        rw [hr] at hj
        simp only [ordered, Bool.and_eq_true, List.all_eq_true, decide_eq_true_eq] at hj
        have hlt := hj.1 k hkmem
        exact ih j k' a' m'' rest' hr (by omega)

end Corro.LockOrder
