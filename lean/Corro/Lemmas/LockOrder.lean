/-
Lemmas for the resource-ordering argument (`Corro.Model.LockOrder`).
-/
import Corro.Model.LockOrder

namespace Corro.LockOrder

theorem rank_le_two (k : Kind) : k.rank ≤ 2 := by cases k <;> simp [Kind.rank]

theorem eraseKind_kinds (k : Kind) (l : List Held) :
    (eraseKind k l).map (·.kind) = (l.map (·.kind)).erase k := by
  induction l with
  | nil => rfl
  | cons h t ih =>
    unfold eraseKind
    by_cases e : h.kind = k
    · simp [e]
    · simp only [e, if_false, List.map_cons]
      rw [List.erase_cons_tail (by simpa using e), ih]

/-- the discipline does not look at the actor -/
theorem ordered_congr : ∀ (p q : Prog) (held : List Kind), p.map Op.shape = q.map Op.shape →
    ordered held p = ordered held q := by
  intro p
  induction p with
  | nil =>
    intro q held h
    cases q with
    | nil => rfl
    | cons _ _ => simp at h
  | cons a p ih =>
    intro q held h
    cases q with
    | nil => simp at h
    | cons b q =>
      simp only [List.map_cons, List.cons.injEq] at h
      obtain ⟨hab, hpq⟩ := h
      cases a with
      | acq k x m =>
        cases b with
        | acq k' x' m' =>
          simp only [Op.shape, Prod.mk.injEq, Option.some.injEq] at hab
          obtain ⟨rfl, rfl⟩ := hab
          simp only [ordered]
          rw [ih q _ hpq]
        | rel k' => simp [Op.shape] at hab
      | rel k =>
        cases b with
        | acq k' x' m' => simp [Op.shape] at hab
        | rel k' =>
          simp only [Op.shape, Prod.mk.injEq, and_true] at hab
          subst hab
          simp only [ordered]
          rw [ih q _ hpq]

/-- every task's remaining program respects the discipline relative to what the task holds -/
def OrdInv (s : State) : Prop :=
  ∀ i, ordered ((s i).held.map (·.kind)) (s i).rest = true

theorem ordInv_init (progs : Nat → Prog) (h : ∀ i, ordered [] (progs i) = true) :
    OrdInv (initState progs) := by
  intro i; simpa [initState] using h i

theorem ordInv_step {pol : Policy} {s s' : State} (h : OrdInv s) (st : Step pol s s') :
    OrdInv s' := by
  cases st with
  | acq i k a m rest hrest _ =>
    intro j
    by_cases e : j = i
    · subst e
      have := h j
      rw [hrest] at this
      simp only [ordered, Bool.and_eq_true] at this
      simpa [update] using this.2
    · simpa [update, e] using h j
  | rel i k rest hrest =>
    intro j
    by_cases e : j = i
    · subst e
      have := h j
      rw [hrest] at this
      simp only [ordered, Bool.and_eq_true] at this
      simp only [update, if_true]
      rw [eraseKind_kinds]
      exact this.2
    · simpa [update, e] using h j

theorem ordInv_reachable {pol : Policy} {s0 s : State} (h0 : OrdInv s0)
    (hr : Reachable pol s0 s) : OrdInv s := by
  induction hr with
  | refl => exact h0
  | step _ st ih => exact ordInv_step ih st

/-- **The resource-ordering argument.**  In a state from which no step is possible, no task can be
waiting for a lock: its holder would have to be waiting for a strictly higher-ranked one, and ranks
are bounded.  `n` counts how far the rank is from the top. -/
theorem no_waiter_when_stuck {pol : Policy} {s : State} (hinv : OrdInv s)
    (stuck : ∀ s', ¬ Step pol s s') :
    ∀ (n : Nat) (i : Nat) (k : Kind) (a : Nat) (m : Mode) (rest : Prog),
      (s i).rest = .acq k a m :: rest → 3 ≤ k.rank + n → False := by
  intro n
  induction n with
  | zero =>
    intro i k a m rest _ hk
    have := rank_le_two k
    omega
  | succ n ih =>
    intro i k a m rest hrest hk
    -- the acquisition is not granted, so somebody else holds the lock
    have hng : ¬ pol.grant (heldByOther s i k a) m := fun g => stuck _ (Step.acq i k a m rest hrest g)
    have hheld : ∃ m', heldByOther s i k a m' := by
      apply Classical.byContradiction
      intro hno
      exact hng (pol.free _ m (fun m' hm' => hno ⟨m', hm'⟩))
    obtain ⟨m', j, _, h, hmem, hlock, _⟩ := hheld
    have hkind : h.kind = k := by
      simp only [Held.isLock, Bool.and_eq_true, beq_iff_eq] at hlock
      exact hlock.1
    have hkmem : k ∈ (s j).held.map (·.kind) := by
      rw [← hkind]; exact List.mem_map_of_mem hmem
    have hj := hinv j
    -- what does the holder do next?
    cases hr : (s j).rest with
    | nil =>
      rw [hr] at hj
      simp only [ordered, List.isEmpty_iff] at hj
      rw [hj] at hkmem
      cases hkmem
    | cons op rest' =>
      cases op with
      | rel k' => exact stuck _ (Step.rel j k' rest' hr)
      | acq k' a' m'' =>
        rw [hr] at hj
        simp only [ordered, Bool.and_eq_true, List.all_eq_true, decide_eq_true_eq] at hj
        have hlt := hj.1 k hkmem
        exact ih j k' a' m'' rest' hr (by omega)

end Corro.LockOrder
