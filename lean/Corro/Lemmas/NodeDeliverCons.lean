/-
`Node.deliver` preserves the consistency of durable state and memory: the fold over the actors of the
batch, the clear jobs, and the re-applies of versions whose partial became complete.
-/
import Corro.Lemmas.NodeActor
namespace Corro.Node
open Corro.Crdt

/-! ### `setBooked` keeps the actor map sorted -/

theorem setBooked_sorted {n : Node} (h : n.book.Pairwise (fun x y => x.1 < y.1)) (a : Nat) (b : Booked) :
    (n.setBooked a b).book.Pairwise (fun x y => x.1 < y.1) := by
  unfold Node.setBooked
  split
  · simp only
    rw [List.pairwise_map]
    refine List.Pairwise.imp ?_ h
    intro x y hxy
    by_cases h1 : x.1 = a <;> by_cases h2 : y.1 = a <;> simp [h1, h2] <;> omega
  · rename_i hany
    simp only
    refine insertSortedBy_strict (fun (e : Nat × Booked) => e.1) (a, b) h ?_
    intro x hx hxa
    apply hany
    exact List.any_eq_true.mpr ⟨x, hx, by simpa using hxa⟩

/-! ### one actor -/

theorem processActor_node (n : Node) (site : Nat) (items : List Item) :
    processActor n site items =
      if (txFold n site items).processed.isEmpty then
        ((txFold n site items).node, [], (txFold n site items).clears)
      else
        ((txFold n site items).node.setBooked site (committed n site (txFold n site items)).1,
          (committed n site (txFold n site items)).2, (txFold n site items).clears) := rfl

theorem committed_nil (n : Node) (site : Nat) (st : TxSt) (h : st.processed = []) :
    committed n site st = (n.booked site, []) := by
  unfold committed procRanges
  rw [h]
  simp only [List.map_nil, List.foldl_nil]
  rfl

structure ActorSpec (L : Nat → Nat → Nat) (n : Node) (site : Nat)
    (r : Node × List (Nat × Nat) × List (Nat × Nat × Nat)) : Prop where
  cons : ConsP L r.1 site (r.2.2.map (·.2))
  clears : ∀ c ∈ r.2.2, c.1 = site
  other : ∀ a, a ≠ site → SameActor n r.1 a
  alive : r.1.alive = n.alive
  id : r.1.id = n.id
  sorted : n.book.Pairwise (fun x y => x.1 < y.1) → r.1.book.Pairwise (fun x y => x.1 < y.1)
  apps : ∀ t ∈ r.2.1, t.1 = site
  np : ∀ v p, (r.1.booked site).partial? v = some p → p.complete = true →
    (∃ p0, (n.booked site).partial? v = some p0 ∧ p0.complete = true ∧
      (HasRows r.1 site v → HasRows n site v)) ∨ (site, v) ∈ r.2.1

theorem processActor_spec {L : Nat → Nat → Nat} {n : Node} {site : Nat} (hc : ConsA L n site)
    (items : List Item) (hwf : ∀ it ∈ items, ItemWF L it ∧ it.site = site) :
    ActorSpec L n site (processActor n site items) := by
  have hti := txFold_TI hc items hwf
  have hci := committed_CI hc hti
  generalize hst : txFold n site items = st at hti hci
  -- facts common to both shapes of the result
  have hmain : ∀ (N : Node) (ap : List (Nat × Nat)), N.seqRows = st.node.seqRows → N.buf = st.node.buf →
      N.dbv = st.node.dbv → N.alive = st.node.alive → N.id = st.node.id →
      N.booked site = (committed n site st).1 → (∀ a, a ≠ site → N.booked a = st.node.booked a) →
      (n.book.Pairwise (fun x y => x.1 < y.1) → N.book.Pairwise (fun x y => x.1 < y.1)) →
      ap = (committed n site st).2 → ActorSpec L n site (N, ap, st.clears) := by
    intro N ap hrows hbuf hdbv halive hid hbk hbko hsorted hap
    refine ⟨cons_after_tx hc hti N hrows hbuf (dbvOf_congr hdbv site) hbk,
      fun c hcm => (hti.clearsFrom c hcm).1, ?_, halive.trans hti.alive, hid.trans hti.id, hsorted, ?_, ?_⟩
    · intro a ha
      obtain ⟨o1, o2, o3⟩ := hti.other a ha
      refine ⟨?_, by rw [hrows]; exact o1, by rw [hbuf]; exact o2, (dbvOf_congr hdbv a).trans o3⟩
      rw [hbko a ha]; unfold Node.booked; rw [hti.book]
    · intro t ht
      simp only at ht
      rw [hap] at ht
      exact (hci.app_site t ht).1
    · intro v p hp hcomp
      simp only at hp ⊢
      rw [hbk] at hp
      rcases hci.app_complete v p hp hcomp with ⟨p0, hp0, hc0⟩ | h1
      · left
        rw [partial?_insertDb] at hp0
        refine ⟨p0, hp0, hc0, ?_⟩
        intro hr
        have hr' : HasRows st.node site v := by
          obtain ⟨r, hr1, hr2⟩ := hr
          exact ⟨r, by rw [← hrows]; exact hr1, hr2⟩
        rcases (hti.hasRows_iff hc v).mp hr' with h2 | ⟨e, he, h2, h3⟩
        · exact h2
        · exfalso
          cases hq : e.part with
          | none => rw [hq] at h3; cases h3
          | some q =>
            have := ((hti.shape e he).2 q hq).2.2.2.1 p0 (by rw [h2]; exact hp0)
            rw [hc0] at this; cases this
      · right; rw [hap]; exact h1
  rw [processActor_node, hst]
  split
  · rename_i he
    have hnil : st.processed = [] := List.isEmpty_iff.mp he
    have hcm := committed_nil n site st hnil
    refine hmain st.node [] rfl rfl rfl rfl rfl ?_ (fun _ _ => rfl) ?_ (by rw [hcm])
    · rw [hcm]; unfold Node.booked; rw [hti.book]
    · intro h; rw [hti.book]; exact h
  · refine hmain _ _ (setBooked_seqRows _ _ _) (setBooked_buf _ _ _) (setBooked_dbv _ _ _)
      (setBooked_alive _ _ _) (setBooked_id _ _ _) (booked_setBooked_same _ _ _)
      (fun a ha => booked_setBooked_other _ _ _ _ ha) ?_ rfl
    intro h
    apply setBooked_sorted
    rw [hti.book]; exact h

/-! ### the fold over the actors -/

theorem foldl_inv_prefix {α σ : Type} (l : List α) (f : σ → α → σ) (init : σ) (P : List α → σ → Prop)
    (h0 : P [] init)
    (hstep : ∀ done a rest acc, l = done ++ a :: rest → P done acc → P (done ++ [a]) (f acc a)) :
    P l (l.foldl f init) := by
  suffices hs : ∀ (rest done : List α) (acc : σ), l = done ++ rest → P done acc →
      P (done ++ rest) (rest.foldl f acc) by
    simpa using hs l [] init rfl h0
  intro rest
  induction rest with
  | nil => intro done acc _ h; simpa using h
  | cons a rest ih =>
    intro done acc hl h
    have := ih (done ++ [a]) (f acc a) (by rw [hl]; simp) (hstep done a rest acc hl h)
    simpa using this

/-- pending clear ranges of actor `a` -/
def clearsOf (cl : List (Nat × Nat × Nat)) (a : Nat) : List (Nat × Nat) :=
  (cl.filter (fun c => c.1 = a)).map (·.2)

theorem clearsOf_append (c1 c2 : List (Nat × Nat × Nat)) (a : Nat) :
    clearsOf (c1 ++ c2) a = clearsOf c1 a ++ clearsOf c2 a := by
  unfold clearsOf; rw [List.filter_append, List.map_append]

theorem clearsOf_same {cl : List (Nat × Nat × Nat)} {a : Nat} (h : ∀ c ∈ cl, c.1 = a) :
    clearsOf cl a = cl.map (·.2) := by
  unfold clearsOf
  rw [List.filter_eq_self.mpr (fun c hc => by simpa using h c hc)]

theorem clearsOf_other {cl : List (Nat × Nat × Nat)} {a : Nat} (h : ∀ c ∈ cl, c.1 ≠ a) :
    clearsOf cl a = [] := by
  unfold clearsOf
  rw [List.filter_eq_nil_iff.mpr (fun c hc => by simpa using h c hc)]
  rfl

structure DI (L : Nat → Nat → Nat) (n : Node) (done : List Nat)
    (acc : Node × List (Nat × Nat) × List (Nat × Nat × Nat)) : Prop where
  cons : ∀ a, ConsP L acc.1 a (clearsOf acc.2.2 a)
  sorted : acc.1.book.Pairwise (fun x y => x.1 < y.1)
  alive : acc.1.alive = n.alive
  id : acc.1.id = n.id
  fresh : ∀ a, a ∉ done → SameActor n acc.1 a
  clrs : ∀ c ∈ acc.2.2, c.1 ∈ done
  apps : ∀ t ∈ acc.2.1, t.1 ∈ done
  np : ∀ a v p, (acc.1.booked a).partial? v = some p → p.complete = true →
    (∃ p0, (n.booked a).partial? v = some p0 ∧ p0.complete = true ∧
      (HasRows acc.1 a v → HasRows n a v)) ∨ (a, v) ∈ acc.2.1

theorem DI.step {L : Nat → Nat → Nat} {n : Node} {done : List Nat}
    {acc : Node × List (Nat × Nat) × List (Nat × Nat × Nat)} (h : DI L n done acc) (s : Nat)
    (hs : s ∉ done) (items : List Item) (hwf : ∀ it ∈ items, ItemWF L it ∧ it.site = s) :
    DI L n (done ++ [s])
      ((processActor acc.1 s items).1, acc.2.1 ++ (processActor acc.1 s items).2.1,
        acc.2.2 ++ (processActor acc.1 s items).2.2) := by
  have hcl0 : clearsOf acc.2.2 s = [] :=
    clearsOf_other (fun c hc hcs => hs (hcs ▸ h.clrs c hc))
  have hcs : ConsA L acc.1 s := by have := h.cons s; rw [hcl0] at this; exact this
  have hsp := processActor_spec hcs items hwf
  generalize processActor acc.1 s items = r at hsp
  refine ⟨?_, hsp.sorted h.sorted, hsp.alive.trans h.alive, hsp.id.trans h.id, ?_, ?_, ?_, ?_⟩
  · intro a
    simp only
    rw [clearsOf_append]
    by_cases ha : a = s
    · subst ha
      rw [hcl0, clearsOf_same hsp.clears, List.nil_append]
      exact hsp.cons
    · rw [clearsOf_other (cl := r.2.2) (fun c hc hca => ha (hca.symm.trans (hsp.clears c hc))), List.append_nil]
      exact (h.cons a).transfer (hsp.other a ha)
  · intro a ha
    simp only [List.mem_append, List.mem_singleton, not_or] at ha
    exact (h.fresh a ha.1).trans (hsp.other a ha.2)
  · intro c hc
    simp only at hc
    rcases List.mem_append.mp hc with hc' | hc'
    · exact List.mem_append.mpr (Or.inl (h.clrs c hc'))
    · rw [hsp.clears c hc']; simp
  · intro t ht
    simp only at ht
    rcases List.mem_append.mp ht with ht' | ht'
    · exact List.mem_append.mpr (Or.inl (h.apps t ht'))
    · rw [hsp.apps t ht']; simp
  · intro a v p hp hcomp
    simp only at hp ⊢
    by_cases ha : a = s
    · subst ha
      have hfr := h.fresh a hs
      rcases hsp.np v p hp hcomp with ⟨p0, hp0, hc0, hr0⟩ | h1
      · left
        rw [hfr.booked] at hp0
        exact ⟨p0, hp0, hc0, fun hr => (hfr.hasRows v).mp (hr0 hr)⟩
      · right; exact List.mem_append.mpr (Or.inr h1)
    · have hsa := hsp.other a ha
      rw [hsa.booked] at hp
      rcases h.np a v p hp hcomp with ⟨p0, hp0, hc0, hr0⟩ | h1
      · left
        exact ⟨p0, hp0, hc0, fun hr => hr0 ((hsa.hasRows v).mp hr)⟩
      · right; exact List.mem_append.mpr (Or.inl h1)

theorem DI.init {L : Nat → Nat → Nat} {n : Node} (hc : Consistent L n) : DI L n [] (n, [], []) := by
  refine ⟨fun a => hc.actor a, hc.sorted, rfl, rfl, fun a _ => SameActor.refl n a,
    (fun c hc' => by cases hc'), (fun t ht => by cases ht), ?_⟩
  intro a v p hp hcomp
  exact Or.inl ⟨p, hp, hcomp, fun h => h⟩

theorem deliverFold_DI {L : Nat → Nat → Nat} {n : Node} (hc : Consistent L n) (batch : List Item)
    (hwf : ∀ it ∈ batch, ItemWF L it) :
    DI L n (sitesOf (unknownOf n batch)) (deliverFold n batch) := by
  unfold deliverFold
  apply foldl_inv_prefix (sitesOf (unknownOf n batch)) (actorStep (unknownOf n batch)) (n, [], [])
    (DI L n) (DI.init hc)
  intro done s rest acc hl hacc
  have hnd : (sitesOf (unknownOf n batch)).Pairwise (fun x y => x < y) := by
    rw [sitesOf_eq]; exact dedupSorted_sorted _
  have hs : s ∉ done := by
    intro hmem
    rw [hl] at hnd
    have := (List.pairwise_append.mp hnd).2.2 s hmem s (by simp)
    omega
  unfold actorStep
  simp only
  apply hacc.step s hs
  intro it hit
  have := List.mem_filter.mp hit
  exact ⟨hwf it (mem_unknownOf this.1), of_decide_eq_true this.2⟩

/-! ### the clear jobs -/

theorem mem_clearMeta_rows {n : Node} {s lo hi : Nat} {r : SeqRow} :
    r ∈ (n.clearMeta s lo hi).seqRows ↔ r ∈ n.seqRows ∧ ¬ (r.site = s ∧ lo ≤ r.ver ∧ r.ver ≤ hi) := by
  unfold Node.clearMeta
  simp only [List.mem_filter, Bool.not_eq_true', Bool.and_eq_false_iff, beq_eq_false_iff_ne,
    decide_eq_false_iff_not, ne_eq]
  constructor
  · rintro ⟨h1, h2⟩
    refine ⟨h1, ?_⟩
    rintro ⟨h3, h4, h5⟩
    rcases h2 with (h2 | h2) | h2
    · exact h2 h3
    · exact h2 h4
    · exact h2 h5
  · rintro ⟨h1, h2⟩
    refine ⟨h1, ?_⟩
    by_cases h3 : r.site = s
    · by_cases h4 : lo ≤ r.ver
      · exact Or.inr (fun h5 => h2 ⟨h3, h4, h5⟩)
      · exact Or.inl (Or.inr h4)
    · exact Or.inl (Or.inl h3)

theorem mem_clearMeta_buf {n : Node} {s lo hi : Nat} {x : Chg} :
    x ∈ (n.clearMeta s lo hi).buf ↔ x ∈ n.buf ∧ ¬ (x.site = s ∧ lo ≤ x.dbv ∧ x.dbv ≤ hi) := by
  unfold Node.clearMeta
  simp only [List.mem_filter, Bool.not_eq_true', Bool.and_eq_false_iff, beq_eq_false_iff_ne,
    decide_eq_false_iff_not, ne_eq]
  constructor
  · rintro ⟨h1, h2⟩
    refine ⟨h1, ?_⟩
    rintro ⟨h3, h4, h5⟩
    rcases h2 with (h2 | h2) | h2
    · exact h2 h3
    · exact h2 h4
    · exact h2 h5
  · rintro ⟨h1, h2⟩
    refine ⟨h1, ?_⟩
    by_cases h3 : x.site = s
    · by_cases h4 : lo ≤ x.dbv
      · exact Or.inr (fun h5 => h2 ⟨h3, h4, h5⟩)
      · exact Or.inl (Or.inr h4)
    · exact Or.inl (Or.inl h3)

theorem covered_clearsOf_cons (c : Nat × Nat × Nat) (cl : List (Nat × Nat × Nat)) (a v : Nat) :
    Covered (clearsOf (c :: cl) a) v ↔ (c.1 = a ∧ c.2.1 ≤ v ∧ v ≤ c.2.2) ∨ Covered (clearsOf cl a) v := by
  unfold Covered clearsOf
  by_cases hc : c.1 = a
  · rw [List.filter_cons_of_pos (by simpa using hc)]
    simp only [List.map_cons, List.mem_cons, exists_eq_or_imp, hc, true_and]
  · rw [List.filter_cons_of_neg (by simpa using hc)]
    simp only [hc, false_and, false_or]

theorem mem_clearAll_rows {n : Node} {cl : List (Nat × Nat × Nat)} {r : SeqRow} :
    r ∈ (clearAll n cl).seqRows ↔ r ∈ n.seqRows ∧ ¬ Covered (clearsOf cl r.site) r.ver := by
  induction cl generalizing n with
  | nil =>
    simp only [clearAll_nil, clearsOf, List.filter_nil, List.map_nil]
    exact ⟨fun h => ⟨h, not_covered_nil _⟩, fun h => h.1⟩
  | cons c cl ih =>
    show r ∈ (clearAll (n.clearMeta c.1 c.2.1 c.2.2) cl).seqRows ↔ _
    rw [ih, mem_clearMeta_rows, covered_clearsOf_cons]
    constructor
    · rintro ⟨⟨h1, h2⟩, h3⟩
      refine ⟨h1, ?_⟩
      rintro (h4 | h4)
      · exact h2 ⟨h4.1.symm, h4.2⟩
      · exact h3 h4
    · rintro ⟨h1, h2⟩
      exact ⟨⟨h1, fun h3 => h2 (Or.inl ⟨h3.1.symm, h3.2⟩)⟩, fun h3 => h2 (Or.inr h3)⟩

theorem mem_clearAll_buf {n : Node} {cl : List (Nat × Nat × Nat)} {x : Chg} :
    x ∈ (clearAll n cl).buf ↔ x ∈ n.buf ∧ ¬ Covered (clearsOf cl x.site) x.dbv := by
  induction cl generalizing n with
  | nil =>
    simp only [clearAll_nil, clearsOf, List.filter_nil, List.map_nil]
    exact ⟨fun h => ⟨h, not_covered_nil _⟩, fun h => h.1⟩
  | cons c cl ih =>
    show x ∈ (clearAll (n.clearMeta c.1 c.2.1 c.2.2) cl).buf ↔ _
    rw [ih, mem_clearMeta_buf, covered_clearsOf_cons]
    constructor
    · rintro ⟨⟨h1, h2⟩, h3⟩
      refine ⟨h1, ?_⟩
      rintro (h4 | h4)
      · exact h2 ⟨h4.1.symm, h4.2⟩
      · exact h3 h4
    · rintro ⟨h1, h2⟩
      exact ⟨⟨h1, fun h3 => h2 (Or.inl ⟨h3.1.symm, h3.2⟩)⟩, fun h3 => h2 (Or.inr h3)⟩

/-- running the pending clear jobs restores plain consistency -/
theorem ConsP.clearAll {L : Nat → Nat → Nat} {n : Node} {a : Nat} {cl : List (Nat × Nat × Nat)}
    (h : ConsP L n a (clearsOf cl a)) : ConsA L (clearAll n cl) a := by
  have hbk : (Corro.Node.clearAll n cl).booked a = n.booked a := by
    unfold Node.booked; rw [clearAll_book]
  have hdbv : dbvOf (Corro.Node.clearAll n cl) a = dbvOf n a := dbvOf_congr (clearAll_dbv n cl) a
  have hrows : ∀ r, r.site = a → (r ∈ (Corro.Node.clearAll n cl).seqRows ↔
      r ∈ n.seqRows ∧ ¬ Covered (clearsOf cl a) r.ver) := by
    intro r hr; rw [mem_clearAll_rows, hr]
  have hsm : ∀ v, ¬ Covered (clearsOf cl a) v → ∀ x,
      (SeqMem (Corro.Node.clearAll n cl).seqRows a v x ↔ SeqMem n.seqRows a v x) := by
    intro v hv x
    unfold SeqMem
    constructor
    · rintro ⟨r, hr, hs, hv', hx⟩; exact ⟨r, ((hrows r hs).mp hr).1, hs, hv', hx⟩
    · rintro ⟨r, hr, hs, hv', hx⟩; exact ⟨r, (hrows r hs).mpr ⟨hr, by rw [hv']; exact hv⟩, hs, hv', hx⟩
  have hhr : ∀ v, HasRows (Corro.Node.clearAll n cl) a v ↔ HasRows n a v ∧ ¬ Covered (clearsOf cl a) v := by
    intro v
    unfold HasRows
    constructor
    · rintro ⟨r, hr, hs, hv⟩
      have := (hrows r hs).mp hr
      exact ⟨⟨r, this.1, hs, hv⟩, by rw [← hv]; exact this.2⟩
    · rintro ⟨⟨r, hr, hs, hv⟩, hnc⟩
      exact ⟨r, (hrows r hs).mpr ⟨hr, by rw [hv]; exact hnc⟩, hs, hv⟩
  refine ⟨by rw [hbk]; exact h.pwf, by rw [hbk]; exact h.keys,
    fun r hr hs => h.rows_fwd r ((hrows r hs).mp hr).1 hs, by rw [hbk]; exact h.part_last, ?_, ?_,
    fun v hv => absurd hv (not_covered_nil v), ?_, by rw [hbk, hdbv]; exact h.dbv_le,
    fun r hr hs => by rw [hbk]; exact h.rows_le r ((hrows r hs).mp hr).1 hs, ?_,
    by rw [hbk]; exact h.needed_wf, by rw [hbk]; exact h.part_known⟩
  · intro v hv
    right
    obtain ⟨hv1, hv2⟩ := (hhr v).mp hv
    rcases h.rows_part v hv1 with h1 | ⟨p, hp, hm⟩
    · exact absurd h1 hv2
    · exact ⟨p, by rw [hbk]; exact hp, fun x => (hm x).trans (hsm v hv2 x).symm⟩
  · intro v p hp hnr
    rw [hbk] at hp
    by_cases hcov : Covered (clearsOf cl a) v
    · rw [h.cleared_none v hcov] at hp; cases hp
    · exact h.norows_part v p hp (fun hr => hnr ((hhr v).mpr ⟨hr, hcov⟩))
  · intro c hc hs
    have hc' := mem_clearAll_buf.mp hc
    rw [hs] at hc'
    rw [hsm c.dbv hc'.2]
    exact h.buf_cov c hc'.1 hs
  · rw [hbk, hdbv]
    rcases h.max_att with h1 | ⟨r, hr, hs, h1, h2⟩
    · exact Or.inl h1
    · exact Or.inr ⟨r, (hrows r hs).mpr ⟨hr, h2⟩, hs, h1, not_covered_nil _⟩

/-! ### `applyBuffered` preserves consistency -/

theorem dbvOf_applyCore (n : Node) (a v a' : Nat) :
    dbvOf (applyCore n a v) a' = if a' = a then Nat.max (dbvOf n a) v else dbvOf n a' := by
  unfold applyCore
  simp only
  rw [dbvOf_congr (setBooked_dbv _ _ _)]
  split
  · exact dbvOf_bumpDbv n a v a'
  · rename_i hne
    have hrows : ∀ c ∈ sortBySeq (bufOf n.buf a v), c.site = a ∧ c.dbv = v := by
      intro c hc
      have := List.mem_filter.mp (mem_sortBySeq.mp hc)
      simpa using this.2
    rw [dbvOf_mergeChanges n _ a v hrows a']
    have hne' : sortBySeq (bufOf n.buf a v) ≠ [] := by
      intro h; apply hne; rw [h]; rfl
    by_cases ha : a' = a
    · rw [if_pos ⟨ha, hne'⟩, if_pos ha]
    · rw [if_neg (fun h => ha h.1), if_neg ha]

theorem applyBuffered_consA {L : Nat → Nat → Nat} {n : Node} (hc : ∀ a, ConsA L n a) (a v : Nat)
    (a' : Nat) : ConsA L (n.applyBuffered a v) a' := by
  cases hp : (n.booked a).partial? v with
  | none => rw [applyBuffered_skip n a v (fun p h => by rw [hp] at h; cases h)]; exact hc a'
  | some p =>
    cases hcomp : p.complete with
    | false =>
      rw [applyBuffered_skip n a v (fun q h => by rw [hp] at h; cases h; exact hcomp)]; exact hc a'
    | true =>
      rw [applyBuffered_complete n a v p hp hcomp]
      have hrows : ∀ r, r ∈ ((applyCore n a v).clearMeta a v v).seqRows ↔
          r ∈ n.seqRows ∧ ¬ (r.site = a ∧ r.ver = v) := by
        intro r
        rw [mem_clearMeta_rows, applyCore_seqRows]
        constructor
        · rintro ⟨h1, h2⟩; exact ⟨h1, fun h3 => h2 ⟨h3.1, by omega, by omega⟩⟩
        · rintro ⟨h1, h2⟩; exact ⟨h1, fun h3 => h2 ⟨h3.1, by omega⟩⟩
      have hbuf : ∀ c, c ∈ ((applyCore n a v).clearMeta a v v).buf ↔
          c ∈ n.buf ∧ ¬ (c.site = a ∧ c.dbv = v) := by
        intro c
        rw [mem_clearMeta_buf, applyCore_buf]
        constructor
        · rintro ⟨h1, h2⟩; exact ⟨h1, fun h3 => h2 ⟨h3.1, by omega, by omega⟩⟩
        · rintro ⟨h1, h2⟩; exact ⟨h1, fun h3 => h2 ⟨h3.1, by omega⟩⟩
      have hdbv : ∀ a'', dbvOf ((applyCore n a v).clearMeta a v v) a'' =
          if a'' = a then Nat.max (dbvOf n a) v else dbvOf n a'' := by
        intro a''
        rw [dbvOf_congr (clearMeta_dbv _ _ _ _)]; exact dbvOf_applyCore n a v a''
      by_cases ha : a' = a
      · subst ha
        have hca := hc a'
        have hk := hca.part_known v p hp
        have hbk : ((applyCore n a' v).clearMeta a' v v).booked a' = (n.booked a').insertDb [(v, v)] := by
          rw [booked_clearMeta]; exact applyCore_booked_same n a' v
        have hmx : ((n.booked a').insertDb [(v, v)]).max = (n.booked a').max := by
          rw [insertDb_max _ _ (by simp), sup_singleton]
          exact Nat.max_eq_left hk.1
        have hnd : ∀ x, RSet.Mem ((n.booked a').insertDb [(v, v)]).needed x ↔
            RSet.Mem (n.booked a').needed x := by
          intro x
          rw [mem_insertDb_needed hca.needed_wf [(v, v)] (by simp) (by simp), sup_singleton]
          simp only [List.mem_singleton, exists_eq_left]
          constructor
          · rintro ⟨h1 | h1, _⟩
            · exact h1
            · omega
          · intro h1
            refine ⟨Or.inl h1, ?_⟩
            intro h2
            have : x = v := by omega
            rw [this] at h1; exact hk.2 h1
        have hhr : ∀ w, HasRows ((applyCore n a' v).clearMeta a' v v) a' w ↔ HasRows n a' w ∧ w ≠ v := by
          intro w
          unfold HasRows
          constructor
          · rintro ⟨r, hr, hs, hv⟩
            have := (hrows r).mp hr
            exact ⟨⟨r, this.1, hs, hv⟩, fun hw => this.2 ⟨hs, hv.trans hw⟩⟩
          · rintro ⟨⟨r, hr, hs, hv⟩, hw⟩
            exact ⟨r, (hrows r).mpr ⟨hr, fun h3 => hw (hv.symm.trans h3.2)⟩, hs, hv⟩
        have hsm : ∀ w, w ≠ v → ∀ x, (SeqMem ((applyCore n a' v).clearMeta a' v v).seqRows a' w x ↔
            SeqMem n.seqRows a' w x) := by
          intro w hw x
          unfold SeqMem
          constructor
          · rintro ⟨r, hr, h1⟩; exact ⟨r, ((hrows r).mp hr).1, h1⟩
          · rintro ⟨r, hr, hs, hv, h1⟩
            exact ⟨r, (hrows r).mpr ⟨hr, fun h3 => hw (hv.symm.trans h3.2)⟩, hs, hv, h1⟩
        have hmax : ∀ x y : Nat, Nat.max x y = Max.max x y := fun _ _ => rfl
        refine ⟨by rw [hbk]; exact insertDb_pwf hca.pwf _, by rw [hbk]; exact insertDb_keysSorted hca.keys _,
          fun r hr hs => hca.rows_fwd r ((hrows r).mp hr).1 hs, ?_, ?_, ?_,
          fun w hw => absurd hw (not_covered_nil w), ?_, ?_, ?_, ?_,
          by rw [hbk]; exact insertDb_needed_wf hca.needed_wf _ (by simp), ?_⟩
        · intro w q hq; rw [hbk, partial?_insertDb] at hq; exact hca.part_last w q hq
        · intro w hw
          right
          obtain ⟨hw1, hw2⟩ := (hhr w).mp hw
          rcases hca.rows_part w hw1 with h1 | ⟨q, hq, hm⟩
          · exact absurd h1 (not_covered_nil w)
          · exact ⟨q, by rw [hbk, partial?_insertDb]; exact hq, fun x => (hm x).trans (hsm w hw2 x).symm⟩
        · intro w q hq hnr
          rw [hbk, partial?_insertDb] at hq
          by_cases hw : w = v
          · subst hw; rw [hp] at hq; cases hq; exact hcomp
          · exact hca.norows_part w q hq (fun hr => hnr ((hhr w).mpr ⟨hr, hw⟩))
        · intro c hcm hs
          have hc' := (hbuf c).mp hcm
          have hw : c.dbv ≠ v := fun h3 => hc'.2 ⟨hs, h3⟩
          rw [hsm c.dbv hw]; exact hca.buf_cov c hc'.1 hs
        · rw [hbk, hmx, hdbv, if_pos rfl, hmax]
          have := hca.dbv_le; omega
        · intro r hr hs
          rw [hbk, hmx]; exact hca.rows_le r ((hrows r).mp hr).1 hs
        · rw [hbk, hmx, hdbv, if_pos rfl, hmax]
          rcases hca.max_att with h1 | ⟨r, hr, hs, h1, _⟩
          · left; omega
          · by_cases hrv : r.ver = v
            · left; omega
            · right
              exact ⟨r, (hrows r).mpr ⟨hr, fun h3 => hrv h3.2⟩, hs, h1, not_covered_nil _⟩
        · intro w q hq
          rw [hbk, partial?_insertDb] at hq
          rw [hbk, hmx, hnd]
          exact hca.part_known w q hq
      · apply (hc a').transfer
        refine ⟨?_, ?_, ?_, ?_⟩
        · rw [booked_clearMeta]; exact applyCore_booked_other n a v a' ha
        · intro r hr
          rw [hrows]
          exact ⟨fun h => h.1, fun h => ⟨h, fun h3 => ha (hr.symm.trans h3.1)⟩⟩
        · intro c hcs
          rw [hbuf]
          exact ⟨fun h => h.1, fun h => ⟨h, fun h3 => ha (hcs.symm.trans h3.1)⟩⟩
        · rw [hdbv, if_neg ha]

theorem applyBuffered_sorted {n : Node} (h : n.book.Pairwise (fun x y => x.1 < y.1)) (a v : Nat) :
    (n.applyBuffered a v).book.Pairwise (fun x y => x.1 < y.1) := by
  unfold Node.applyBuffered
  simp only
  split
  · exact h
  · split
    · exact h
    · rw [clearMeta_book]
      apply setBooked_sorted
      split
      · rw [bumpDbv_book]; exact h
      · rw [mergeChanges_book]; exact h

theorem applyBuffered_consistent {L : Nat → Nat → Nat} {n : Node} (hc : Consistent L n) (a v : Nat) :
    Consistent L (n.applyBuffered a v) :=
  ⟨fun a' => applyBuffered_consA hc.actor a v a', applyBuffered_sorted hc.sorted a v⟩

theorem applyAll_consistent {L : Nat → Nat → Nat} {n : Node} (hc : Consistent L n) (ap : List (Nat × Nat)) :
    Consistent L (applyAll n ap) := by
  induction ap generalizing n with
  | nil => exact hc
  | cons t ap ih => exact ih (applyBuffered_consistent hc t.1 t.2)

/-! ### rows under the applies -/

theorem mem_rows_applyBuffered {n : Node} {a v : Nat} {r : SeqRow}
    (h : r ∈ (n.applyBuffered a v).seqRows) : r ∈ n.seqRows := by
  unfold Node.applyBuffered at h
  simp only at h
  split at h
  · exact h
  · split at h
    · exact h
    · have := (mem_clearMeta_rows.mp h).1
      rw [setBooked_seqRows] at this
      split at this
      · rw [bumpDbv_seqRows] at this; exact this
      · rw [mergeChanges_seqRows] at this; exact this

theorem hasRows_applyAll_sub {n : Node} {ap : List (Nat × Nat)} {a v : Nat}
    (h : HasRows (applyAll n ap) a v) : HasRows n a v := by
  induction ap generalizing n with
  | nil => exact h
  | cons t ap ih =>
    obtain ⟨r, hr, hs⟩ := ih (n := n.applyBuffered t.1 t.2) h
    exact ⟨r, mem_rows_applyBuffered hr, hs⟩

theorem not_hasRows_applyBuffered {n : Node} {a v : Nat} {p : Partial}
    (hp : (n.booked a).partial? v = some p) (hc : p.complete = true) :
    ¬ HasRows (n.applyBuffered a v) a v := by
  rw [applyBuffered_complete n a v p hp hc]
  rintro ⟨r, hr, hs, hv⟩
  exact (mem_clearMeta_rows.mp hr).2 ⟨hs, by omega, by omega⟩

theorem not_hasRows_applyAll {n : Node} {ap : List (Nat × Nat)} {a v : Nat} {p : Partial}
    (hp : (n.booked a).partial? v = some p) (hc : p.complete = true) (hm : (a, v) ∈ ap) :
    ¬ HasRows (applyAll n ap) a v := by
  induction ap generalizing n with
  | nil => cases hm
  | cons t ap ih =>
    show ¬ HasRows (applyAll (n.applyBuffered t.1 t.2) ap) a v
    rcases List.mem_cons.mp hm with rfl | hm'
    · intro h
      exact not_hasRows_applyBuffered hp hc (hasRows_applyAll_sub h)
    · exact ih (by rw [partial?_applyBuffered]; exact hp) hm'

/-! ### `deliver` -/

/-- the node after the transaction(s) and the clear jobs, before the re-applies -/
def preApply (n : Node) (batch : List Item) : Node :=
  clearAll (deliverFold n batch).1 (deliverFold n batch).2.2

theorem deliver_eq_preApply (n : Node) (batch : List Item) :
    n.deliver batch =
      if (preApply n batch).alive then applyAll (preApply n batch) (deliverFold n batch).2.1
      else preApply n batch := rfl

theorem preApply_alive {L : Nat → Nat → Nat} {n : Node} (hc : Consistent L n) (batch : List Item)
    (hwf : ∀ it ∈ batch, ItemWF L it) : (preApply n batch).alive = n.alive := by
  unfold preApply; rw [clearAll_alive]; exact (deliverFold_DI hc batch hwf).alive

theorem preApply_consistent {L : Nat → Nat → Nat} {n : Node} (hc : Consistent L n) (batch : List Item)
    (hwf : ∀ it ∈ batch, ItemWF L it) : Consistent L (preApply n batch) := by
  have hdi := deliverFold_DI hc batch hwf
  exact ⟨fun a => (hdi.cons a).clearAll, by unfold preApply; rw [clearAll_book]; exact hdi.sorted⟩

/-- **`deliver` preserves consistency** -/
theorem deliver_consistent' {L : Nat → Nat → Nat} {n : Node} (hc : Consistent L n) (batch : List Item)
    (hwf : ∀ it ∈ batch, ItemWF L it) : Consistent L (n.deliver batch) := by
  rw [deliver_eq_preApply]
  split
  · exact applyAll_consistent (preApply_consistent hc batch hwf) _
  · exact preApply_consistent hc batch hwf

/-- every complete partial of the pre-apply node that still has rows is scheduled for apply
(for a node that had nothing pending before) -/
theorem preApply_np {L : Nat → Nat → Nat} {n : Node} (hc : Consistent L n) (batch : List Item)
    (hwf : ∀ it ∈ batch, ItemWF L it) (hnp : NoPending n) (a v : Nat) (p : Partial)
    (hp : ((preApply n batch).booked a).partial? v = some p) (hcomp : p.complete = true)
    (hr : HasRows (preApply n batch) a v) : (a, v) ∈ (deliverFold n batch).2.1 := by
  have hdi := deliverFold_DI hc batch hwf
  have hbk : (preApply n batch).booked a = (deliverFold n batch).1.booked a := by
    unfold preApply Node.booked; rw [clearAll_book]
  rw [hbk] at hp
  rcases hdi.np a v p hp hcomp with ⟨p0, hp0, hc0, hr0⟩ | h1
  · exfalso
    apply hnp a v p0 hp0 hc0
    apply hr0
    obtain ⟨r, hr1, hr2⟩ := hr
    exact ⟨r, (mem_clearAll_rows.mp hr1).1, hr2⟩
  · exact h1

/-- **an alive node with nothing pending has nothing pending after `deliver`** -/
theorem deliver_noPending' {L : Nat → Nat → Nat} {n : Node} (hc : Consistent L n) (batch : List Item)
    (hwf : ∀ it ∈ batch, ItemWF L it) (hal : n.alive = true) (hnp : NoPending n) :
    NoPending (n.deliver batch) := by
  rw [deliver_eq_preApply, preApply_alive hc batch hwf, hal]
  simp only [if_true]
  intro a v p hp hcomp
  rw [partial?_applyAll] at hp
  by_cases hr : HasRows (preApply n batch) a v
  · exact not_hasRows_applyAll hp hcomp (preApply_np hc batch hwf hnp a v p hp hcomp hr)
  · exact fun h => hr (hasRows_applyAll_sub h)

end Corro.Node
