/-
Helper lemmas for C04, part 3: the popping order of a `parallel_sync` session (`roundStep`,
`schedule`) visits every queued item, chunking preserves coverage, and the composition
`syncSession`.
-/
import Corro.Lemmas.NeedsDedup

namespace Corro.Needs
open Corro.RSet

/-! ### rounds -/

theorem mem_split_back {α : Type} (q : List α) (d : Nat) (x : α) :
    x ∈ q ↔ x ∈ q.reverse.take d ∨ x ∈ q.take (q.length - d) := by
  rw [List.take_reverse, List.mem_reverse]
  conv => lhs; rw [← List.take_append_drop (q.length - d) q]
  rw [List.mem_append]; exact Or.comm

theorem totalLen_cons (s : Actor) (q : List Item) (rest : List (Actor × List Item)) :
    totalLen ((s, q) :: rest) = q.length + totalLen rest := by
  simp [totalLen]

/-- one round neither loses nor invents an item. -/
theorem roundStep_mem (d : Nat) (servers : List (Actor × List Item)) (s : Actor) (it : Item) :
    ((s, it) ∈ (roundStep d servers).1 ∨ ∃ q, (s, q) ∈ (roundStep d servers).2 ∧ it ∈ q) ↔
      ∃ q, (s, q) ∈ servers ∧ it ∈ q := by
  induction servers with
  | nil => simp [roundStep]
  | cons sq rest ih =>
    obtain ⟨s0, q0⟩ := sq
    unfold roundStep
    by_cases he : q0.isEmpty = true
    · have hq : q0 = [] := List.isEmpty_iff.mp he
      simp only [he, if_true]
      rw [ih]
      constructor
      · rintro ⟨q, hq1, hq2⟩; exact ⟨q, List.mem_cons_of_mem _ hq1, hq2⟩
      · rintro ⟨q, hq1, hq2⟩
        rcases List.mem_cons.mp hq1 with h | h
        · cases h; rw [hq] at hq2; cases hq2
        · exact ⟨q, h, hq2⟩
    · simp only [he, Bool.false_eq_true, if_false]
      have hsplit := mem_split_back q0 d it
      by_cases hr : (List.take (q0.length - d) q0).isEmpty = true
      · have hrn : List.take (q0.length - d) q0 = [] := List.isEmpty_iff.mp hr
        simp only [hr, if_true, List.mem_append, List.mem_map]
        constructor
        · rintro ((⟨it', h1, h2⟩ | h) | h)
          · cases h2
            exact ⟨q0, by simp, hsplit.mpr (Or.inl h1)⟩
          · obtain ⟨q, hq1, hq2⟩ := ih.mp (Or.inl h)
            exact ⟨q, List.mem_cons_of_mem _ hq1, hq2⟩
          · obtain ⟨q, hq1, hq2⟩ := ih.mp (Or.inr h)
            exact ⟨q, List.mem_cons_of_mem _ hq1, hq2⟩
        · rintro ⟨q, hq1, hq2⟩
          rcases List.mem_cons.mp hq1 with h | h
          · cases h
            rcases hsplit.mp hq2 with h1 | h1
            · exact Or.inl (Or.inl ⟨it, h1, rfl⟩)
            · rw [hrn] at h1; cases h1
          · rcases ih.mpr ⟨q, h, hq2⟩ with h1 | h1
            · exact Or.inl (Or.inr h1)
            · exact Or.inr h1
      · simp only [hr, Bool.false_eq_true, if_false, List.mem_append, List.mem_map, List.mem_cons,
          Prod.mk.injEq]
        constructor
        · rintro ((⟨it', h1, h2⟩ | h) | ⟨q, (⟨rfl, rfl⟩ | hq1), hq2⟩)
          · obtain ⟨rfl, rfl⟩ := h2
            exact ⟨q0, Or.inl ⟨rfl, rfl⟩, hsplit.mpr (Or.inl h1)⟩
          · obtain ⟨q, hq1, hq2⟩ := ih.mp (Or.inl h)
            exact ⟨q, Or.inr hq1, hq2⟩
          · exact ⟨q0, Or.inl ⟨rfl, rfl⟩, hsplit.mpr (Or.inr hq2)⟩
          · obtain ⟨q', hq1', hq2'⟩ := ih.mp (Or.inr ⟨q, hq1, hq2⟩)
            exact ⟨q', Or.inr hq1', hq2'⟩
        · rintro ⟨q, (⟨rfl, rfl⟩ | h), hq2⟩
          · rcases hsplit.mp hq2 with h1 | h1
            · exact Or.inl (Or.inl ⟨it, h1, rfl, rfl⟩)
            · exact Or.inr ⟨_, Or.inl ⟨rfl, rfl⟩, h1⟩
          · rcases ih.mpr ⟨q, h, hq2⟩ with h1 | ⟨q', h1, h2⟩
            · exact Or.inl (Or.inr h1)
            · exact Or.inr ⟨q', Or.inr h1, h2⟩

/-- one round makes progress (for `d ≥ 1`): the queues shrink, or no server is left. -/
theorem roundStep_progress (d : Nat) (hd : 1 ≤ d) (servers : List (Actor × List Item)) :
    totalLen (roundStep d servers).2 ≤ totalLen servers ∧
    (totalLen (roundStep d servers).2 + 1 ≤ totalLen servers ∨ (roundStep d servers).2 = []) := by
  induction servers with
  | nil => simp [roundStep, totalLen]
  | cons sq rest ih =>
    obtain ⟨s0, q0⟩ := sq
    unfold roundStep
    rw [totalLen_cons]
    by_cases he : q0.isEmpty = true
    · simp only [he, if_true]
      obtain ⟨h1, h2⟩ := ih
      exact ⟨by omega, h2.elim (fun h => Or.inl (by omega)) Or.inr⟩
    · simp only [he, Bool.false_eq_true, if_false]
      have hlen : 1 ≤ q0.length := by
        cases q0 with
        | nil => simp at he
        | cons _ _ => simp
      obtain ⟨h1, h2⟩ := ih
      by_cases hr : (List.take (q0.length - d) q0).isEmpty = true
      · simp only [hr, if_true]
        exact ⟨by omega, h2.elim (fun h => Or.inl (by omega)) Or.inr⟩
      · simp only [hr, Bool.false_eq_true, if_false]
        rw [totalLen_cons, List.length_take]
        exact ⟨by omega, Or.inl (by omega)⟩

theorem schedule_nil (d f : Nat) : schedule d f [] = [] := by
  cases f <;> simp [schedule]

/-- with enough fuel the popping order of the session visits exactly the queued items. -/
theorem mem_schedule (d : Nat) (hd : 1 ≤ d) :
    ∀ (f : Nat) (servers : List (Actor × List Item)), totalLen servers < f →
      ∀ s it, (s, it) ∈ schedule d f servers ↔ ∃ q, (s, q) ∈ servers ∧ it ∈ q := by
  intro f
  induction f with
  | zero => intro servers h; omega
  | succ f ih =>
    intro servers hlt s it
    cases servers with
    | nil => simp [schedule]
    | cons sq rest =>
      simp only [schedule, List.mem_append]
      rw [← roundStep_mem d (sq :: rest) s it]
      obtain ⟨_, h2⟩ := roundStep_progress d hd (sq :: rest)
      rcases h2 with h2 | h2
      · rw [ih _ (by omega) s it]
      · rw [h2, schedule_nil]
        simp

/-! ### chunking -/

theorem chunkNeed_spec (k : Nat) (hk : 1 ≤ k) (n : Need) (hn : n.Forward) :
    (∀ c ∈ chunkNeed k n, c.Forward ∧ c.SubOf n) ∧
    (∀ x, (∃ lo hi, Need.full lo hi ∈ chunkNeed k n ∧ lo ≤ x ∧ x ≤ hi) ↔
          (∃ lo hi, n = Need.full lo hi ∧ lo ≤ x ∧ x ≤ hi)) ∧
    (∀ v s, (∃ sq, Need.part v sq ∈ chunkNeed k n ∧ Mem sq s) ↔
          (∃ sq, n = Need.part v sq ∧ Mem sq s)) := by
  cases n with
  | full lo hi =>
    obtain ⟨h1, h2⟩ := Corro.Chunker.chunkRange_union lo hi k hk
    simp only [chunkNeed, List.mem_map]
    refine ⟨?_, ?_, ?_⟩
    · rintro c ⟨b, hb, rfl⟩
      have := h1 b hb
      simp only [Need.Forward, Need.SubOf]
      omega
    · intro x
      constructor
      · rintro ⟨lo', hi', ⟨b, hb, heq⟩, hx⟩
        cases heq
        exact ⟨lo, hi, rfl, (h2 x).mp ⟨b, hb, hx⟩⟩
      · rintro ⟨lo', hi', heq, hx⟩
        cases heq
        obtain ⟨b, hb, hx2⟩ := (h2 x).mpr hx
        exact ⟨b.1, b.2, ⟨b, hb, rfl⟩, hx2⟩
    · intro v s
      constructor
      · rintro ⟨sq, ⟨b, _, heq⟩, _⟩; cases heq
      · rintro ⟨sq, heq, _⟩; cases heq
  | part v0 sq0 =>
    simp only [chunkNeed, List.mem_singleton]
    refine ⟨?_, ?_, ?_⟩
    · rintro c rfl
      exact ⟨hn, rfl, fun s hs => hs⟩
    · intro x
      constructor
      · rintro ⟨_, _, heq, _⟩; cases heq
      · rintro ⟨_, _, heq, _⟩; cases heq
    · intro v s
      constructor
      · rintro ⟨sq, heq, hs⟩; cases heq; exact ⟨_, rfl, hs⟩
      · rintro ⟨sq, heq, hs⟩; cases heq; exact ⟨_, rfl, hs⟩

theorem mem_queueOf (k : Nat) (needs : List (Actor × List Need)) (a : Actor) (c : Need) :
    (a, c) ∈ queueOf k needs ↔ ∃ ns, (a, ns) ∈ needs ∧ ∃ n ∈ ns, c ∈ chunkNeed k n := by
  simp only [queueOf, List.mem_flatMap, List.mem_map, Prod.mk.injEq]
  constructor
  · rintro ⟨⟨a', ns⟩, h1, c', ⟨n, hn, hc⟩, rfl, rfl⟩
    exact ⟨ns, h1, n, hn, hc⟩
  · rintro ⟨ns, h1, n, hn, hc⟩
    exact ⟨(a, ns), h1, c, ⟨n, hn, hc⟩, rfl, rfl⟩

theorem mem_serversOf (k : Nat) (us : SyncState) (peers : List SyncState) (srv : Actor)
    (q : List Item) :
    (srv, q) ∈ serversOf k us peers ↔
      ∃ p ∈ peers, p.actor = srv ∧ computeAvailableNeeds us p ≠ [] ∧
        q = queueOf k (computeAvailableNeeds us p) := by
  simp only [serversOf, List.mem_filterMap]
  constructor
  · rintro ⟨p, hp, h⟩
    by_cases he : (computeAvailableNeeds us p).isEmpty = true
    · simp [he] at h
    · simp only [he, Bool.false_eq_true, if_false, Option.some.injEq, Prod.mk.injEq] at h
      exact ⟨p, hp, h.1, by simpa [List.isEmpty_iff] using he, h.2.symm⟩
  · rintro ⟨p, hp, rfl, hne, rfl⟩
    refine ⟨p, hp, ?_⟩
    have he : ¬ (computeAvailableNeeds us p).isEmpty = true := by simpa [List.isEmpty_iff] using hne
    simp [he]

/-! ### the whole session -/

/-- Everything proved about the session, in terms of the computed needs.  `hfw` (all computed needs
have forward ranges) is discharged from well-formedness in `Corro/Props/C04.lean`. -/
theorem session_spec (k d : Nat) (hk : 1 ≤ k) (hd : 1 ≤ d) (us : SyncState) (peers : List SyncState)
    (hfw : ∀ p ∈ peers, ∀ a ns, (a, ns) ∈ computeAvailableNeeds us p → ∀ n ∈ ns, n.Forward) :
    (∀ a x, SentV (syncSession k d us peers) a x ↔
        ∃ p ∈ peers, ∃ ns lo hi, (a, ns) ∈ computeAvailableNeeds us p ∧ Need.full lo hi ∈ ns ∧
          lo ≤ x ∧ x ≤ hi) ∧
    (∀ a v s, SentS (syncSession k d us peers) a v s ↔
        ∃ p ∈ peers, ∃ ns sq, (a, ns) ∈ computeAvailableNeeds us p ∧ Need.part v sq ∈ ns ∧
          Mem sq s) ∧
    (∀ srv a n, (srv, a, n) ∈ syncSession k d us peers →
        ∃ p ∈ peers, p.actor = srv ∧ ∃ ns n0, (a, ns) ∈ computeAvailableNeeds us p ∧ n0 ∈ ns ∧
          n.SubOf n0) := by
  -- what the popping order contains
  have hsched : ∀ srv a c, (srv, (a, c)) ∈ schedule d (totalLen (serversOf k us peers) + 1) (serversOf k us peers) ↔
      ∃ p ∈ peers, p.actor = srv ∧ ∃ ns, (a, ns) ∈ computeAvailableNeeds us p ∧
        ∃ n ∈ ns, c ∈ chunkNeed k n := by
    intro srv a c
    rw [mem_schedule d hd _ _ (Nat.lt_succ_self _) srv (a, c)]
    constructor
    · rintro ⟨q, hq, hc⟩
      obtain ⟨p, hp, hsrv, _, rfl⟩ := (mem_serversOf k us peers srv q).mp hq
      exact ⟨p, hp, hsrv, (mem_queueOf k _ a c).mp hc⟩
    · rintro ⟨p, hp, hsrv, ns, hns, n, hn, hc⟩
      refine ⟨queueOf k (computeAvailableNeeds us p), (mem_serversOf k us peers srv _).mpr
        ⟨p, hp, hsrv, ?_, rfl⟩, (mem_queueOf k _ a c).mpr ⟨ns, hns, n, hn, hc⟩⟩
      intro he; rw [he] at hns; cases hns
  have hitems : ∀ si ∈ schedule d (totalLen (serversOf k us peers) + 1) (serversOf k us peers),
      si.2.2.Forward := by
    rintro ⟨srv, a, c⟩ hsi
    obtain ⟨p, hp, _, ns, hns, n, hn, hc⟩ := (hsched srv a c).mp hsi
    exact ((chunkNeed_spec k hk n (hfw p hp a ns hns n hn)).1 c hc).1
  obtain ⟨_, j2, j3, j4⟩ := sendAll_spec _ hitems DState.empty inv_empty
  have e1 : ∀ a x, ¬ SentV DState.empty.sent a x := by
    intro a x; simp [SentV, DState.empty]
  have e2 : ∀ a v s, ¬ SentS DState.empty.sent a v s := by
    intro a v s; simp [SentS, DState.empty]
  refine ⟨?_, ?_, ?_⟩
  · intro a x
    show SentV (sendAll DState.empty _).sent a x ↔ _
    rw [j2 a x]
    constructor
    · rintro (h | ⟨srv, lo, hi, hm, hx⟩)
      · exact absurd h (e1 a x)
      · obtain ⟨p, hp, _, ns, hns, n, hn, hc⟩ := (hsched srv a _).mp hm
        obtain ⟨lo0, hi0, rfl, hx0⟩ :=
          ((chunkNeed_spec k hk n (hfw p hp a ns hns n hn)).2.1 x).mp ⟨lo, hi, hc, hx⟩
        exact ⟨p, hp, ns, lo0, hi0, hns, hn, hx0⟩
    · rintro ⟨p, hp, ns, lo, hi, hns, hn, hx⟩
      obtain ⟨lo', hi', hc, hx'⟩ :=
        ((chunkNeed_spec k hk _ (hfw p hp a ns hns _ hn)).2.1 x).mpr ⟨lo, hi, rfl, hx⟩
      exact Or.inr ⟨p.actor, lo', hi', (hsched p.actor a _).mpr ⟨p, hp, rfl, ns, hns, _, hn, hc⟩, hx'⟩
  · intro a v s
    show SentS (sendAll DState.empty _).sent a v s ↔ _
    rw [j3 a v s]
    constructor
    · rintro (h | ⟨srv, sq, hm, hx⟩)
      · exact absurd h (e2 a v s)
      · obtain ⟨p, hp, _, ns, hns, n, hn, hc⟩ := (hsched srv a _).mp hm
        obtain ⟨sq0, rfl, hx0⟩ :=
          ((chunkNeed_spec k hk n (hfw p hp a ns hns n hn)).2.2 v s).mp ⟨sq, hc, hx⟩
        exact ⟨p, hp, ns, sq0, hns, hn, hx0⟩
    · rintro ⟨p, hp, ns, sq, hns, hn, hx⟩
      obtain ⟨sq', hc, hx'⟩ :=
        ((chunkNeed_spec k hk _ (hfw p hp a ns hns _ hn)).2.2 v s).mpr ⟨sq, rfl, hx⟩
      exact Or.inr ⟨p.actor, sq', (hsched p.actor a _).mpr ⟨p, hp, rfl, ns, hns, _, hn, hc⟩, hx'⟩
  · intro srv a n hm
    rcases j4 (srv, a, n) hm with h | ⟨n1, c, h1, h2, h3⟩
    · simp [DState.empty] at h
    · simp only [Prod.mk.injEq] at h1
      obtain ⟨_, _, rfl⟩ := h1
      obtain ⟨p, hp, hsrv, ns, hns, n0, hn0, hc⟩ := (hsched srv a c).mp h2
      have hsub := ((chunkNeed_spec k hk n0 (hfw p hp a ns hns n0 hn0)).1 c hc).2
      refine ⟨p, hp, hsrv, ns, n0, hns, hn0, ?_⟩
      -- SubOf is transitive
      cases n with
      | full l1 h1' =>
        cases c with
        | full l2 h2' =>
          cases n0 with
          | full l3 h3' => simp only [Need.SubOf] at *; omega
          | part _ _ => simp [Need.SubOf] at hsub
        | part _ _ => simp [Need.SubOf] at h3
      | part v1 s1 =>
        cases c with
        | full _ _ => simp [Need.SubOf] at h3
        | part v2 s2 =>
          cases n0 with
          | full _ _ => simp [Need.SubOf] at hsub
          | part v3 s3 =>
            simp only [Need.SubOf] at *
            exact ⟨h3.1.trans hsub.1, fun s hs => hsub.2 s (h3.2 s hs)⟩

end Corro.Needs
