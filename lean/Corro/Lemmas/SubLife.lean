/-
Invariants of the subscription life-cycle model (`Corro/Model/SubLife.lean`): structural
well-formedness of every reachable state and the freshness invariant (materialised rows equal the
table on every key that has no candidate waiting, as long as no transaction was missed).
-/
import Corro.Model.SubLife

namespace Corro.SubLife

/-! ### tables -/

theorem Tbl.apply_not_mem (t : Tbl) (tx : Tx) (k : Nat) (h : k ∉ tx.keys) : t.apply tx k = t k := by
  induction tx generalizing t with
  | nil => rfl
  | cons a r ih =>
    obtain ⟨a1, a2⟩ := a
    simp only [Tx.keys, List.map_cons, List.mem_cons, not_or] at h
    simp only [Tbl.apply]
    rw [ih _ (by simpa [Tx.keys] using h.2)]
    simp [Tbl.set, h.1]

/-! ### applying candidates -/

theorem applyOne_fields (s : S) (k : Nat) :
    (applyOne s k).db = s.db ∧ (applyOne s k).dir = s.dir ∧ (applyOne s k).sid = s.sid ∧
    (applyOne s k).state = s.state ∧ (applyOne s k).applied = s.applied ∧ (applyOne s k).up = s.up ∧
    (applyOne s k).phase = s.phase ∧ (applyOne s k).reg = s.reg ∧ (applyOne s k).clone = s.clone ∧
    (applyOne s k).cancelled = s.cancelled ∧ (applyOne s k).tripped = s.tripped ∧
    (applyOne s k).snap = s.snap ∧ (applyOne s k).pending = s.pending ∧ (applyOne s k).held = s.held ∧
    (applyOne s k).nextSid = s.nextSid ∧ (applyOne s k).missed = s.missed := by
  simp only [applyOne]; split <;> simp

theorem applyAll_fields (s : S) (ks : List Nat) :
    (applyAll s ks).db = s.db ∧ (applyAll s ks).dir = s.dir ∧ (applyAll s ks).sid = s.sid ∧
    (applyAll s ks).state = s.state ∧ (applyAll s ks).applied = s.applied ∧ (applyAll s ks).up = s.up ∧
    (applyAll s ks).phase = s.phase ∧ (applyAll s ks).reg = s.reg ∧ (applyAll s ks).clone = s.clone ∧
    (applyAll s ks).cancelled = s.cancelled ∧ (applyAll s ks).tripped = s.tripped ∧
    (applyAll s ks).snap = s.snap ∧ (applyAll s ks).pending = s.pending ∧ (applyAll s ks).held = s.held ∧
    (applyAll s ks).nextSid = s.nextSid ∧ (applyAll s ks).missed = s.missed := by
  induction ks generalizing s with
  | nil => simp [applyAll]
  | cons k r ih =>
    have h1 := applyOne_fields s k
    have h2 := ih (applyOne s k)
    simp only [applyAll, List.foldl_cons] at h2 ⊢
    grind

/-- after applying the candidates `ks`, a key in `ks` carries the table's value, any other key is
untouched -/
theorem applyAll_rows (s : S) (ks : List Nat) (k : Nat) :
    (applyAll s ks).rows k = if k ∈ ks then s.db k else s.rows k := by
  induction ks generalizing s with
  | nil => simp [applyAll]
  | cons a r ih =>
    simp only [applyAll, List.foldl_cons] at ih ⊢
    rw [ih (applyOne s a)]
    have hdb : (applyOne s a).db = s.db := (applyOne_fields s a).1
    rw [hdb]
    by_cases hr : k ∈ r
    · simp [hr]
    · simp only [hr, if_false, List.mem_cons, or_false]
      by_cases hka : k = a
      · subst hka
        simp only [if_true, applyOne]
        split
        · assumption
        · simp [Tbl.set]
      · simp only [hka, if_false, applyOne]
        split
        · rfl
        · simp [Tbl.set, hka]

/-- change ids stay consecutive: every change appended gets the previous maximum + 1 -/
def Consecutive : List Nat → Prop
  | [] => True
  | [x] => x = 1
  | x :: y :: r => x = y + 1 ∧ Consecutive (y :: r)

theorem consecutive_cons {l : List Nat} (h : Consecutive l) : Consecutive ((l.headD 0 + 1) :: l) := by
  cases l with
  | nil => simp [Consecutive]
  | cons y r => simp [Consecutive, h]

theorem applyOne_consecutive (s : S) (k : Nat) (h : Consecutive s.log) : Consecutive (applyOne s k).log := by
  simp only [applyOne]; split
  · exact h
  · exact consecutive_cons h

theorem applyAll_consecutive (s : S) (ks : List Nat) (h : Consecutive s.log) :
    Consecutive (applyAll s ks).log := by
  induction ks generalizing s with
  | nil => simpa [applyAll] using h
  | cons a r ih =>
    simp only [applyAll, List.foldl_cons] at ih ⊢
    exact ih _ (applyOne_consecutive s a h)

theorem flush_fields (s : S) :
    s.flush.db = s.db ∧ s.flush.dir = s.dir ∧ s.flush.sid = s.sid ∧ s.flush.state = s.state ∧
    s.flush.up = s.up ∧ s.flush.phase = s.phase ∧ s.flush.reg = s.reg ∧ s.flush.clone = s.clone ∧
    s.flush.cancelled = s.cancelled ∧ s.flush.tripped = s.tripped ∧ s.flush.snap = s.snap ∧
    s.flush.held = s.held ∧ s.flush.nextSid = s.nextSid ∧ s.flush.missed = s.missed ∧
    s.flush.pending = [] ∧ s.flush.applied = s.applied + s.pending.length ∧
    s.flush.log = (applyAll s s.pending).log ∧ s.flush.rows = (applyAll s s.pending).rows := by
  have h := applyAll_fields s s.pending
  simp only [S.flush]
  grind

/-! ### structural invariant -/

structure WF (s : S) : Prop where
  phase_up      : s.phase ≠ .gone → s.up = true ∧ s.dir = true
  reg_alive     : s.reg = true → s.up = true ∧ s.phase ≠ .gone ∧ s.cancelled = false ∧ s.clone = false
  init_state    : s.phase = .init → s.state = some .created
  loop_state    : s.phase = .loop → s.state = some .running
  drain_state   : s.phase = .drain → s.state = some .running ∨ s.state = some .cancelled
  completed     : s.state = some .completed → s.phase = .gone ∧ s.reg = false ∧ s.pending = []
  created_init  : s.up = true → s.state = some .created → s.phase = .init
  clone_up      : s.clone = true → s.up = true
  flags_up      : (s.cancelled = true ∨ s.tripped = true ∨ s.held ≠ []) → s.up = true
  pending_alive : s.pending ≠ [] → s.phase ≠ .gone
  nodir         : s.dir = false → s.state = none
  ids           : Consecutive s.log
  drain_reg     : s.phase = .drain → s.reg = true → s.tripped = true
  sid_lt        : s.sid < s.nextSid

theorem init_wf : WF init := by
  constructor <;> simp [init, Consecutive]

theorem WF.flush {s : S} (h : WF s) : WF s.flush := by
  obtain ⟨h1, h2, h3, h4, h5, h6, h7, h8, h9, h10, h11, h12, h14, h15⟩ := h
  obtain ⟨_, e_dir, e_sid, e_state, e_up, e_phase, e_reg, e_clone, e_canc, e_trip, _, e_held, e_next, _, e_pend, _, e_log, _⟩ :=
    flush_fields s
  have hc := applyAll_consecutive s s.pending h12
  constructor
  · rw [e_phase, e_up, e_dir]; exact h1
  · rw [e_reg, e_up, e_phase, e_canc, e_clone]; exact h2
  · rw [e_phase, e_state]; exact h3
  · rw [e_phase, e_state]; exact h4
  · rw [e_phase, e_state]; exact h5
  · rw [e_state, e_phase, e_reg, e_pend]; intro h; exact ⟨(h6 h).1, (h6 h).2.1, rfl⟩
  · rw [e_up, e_state, e_phase]; exact h7
  · rw [e_clone, e_up]; exact h8
  · rw [e_canc, e_trip, e_held, e_up]; exact h9
  · rw [e_pend]; intro h; exact absurd rfl h
  · rw [e_dir, e_state]; exact h11
  · rw [e_log]; exact hc
  · rw [e_phase, e_reg, e_trip]; exact h14
  · rw [e_sid, e_next]; exact h15

macro "wf_case" : tactic =>
  `(tactic| (constructor <;> simp_all <;> grind))

theorem step_wf_mkdir {s s' : S} (h : WF s) (hs : step s .mkdir = some s') : WF s' := by
  obtain ⟨h1, h2, h3, h4, h5, h6, h7, h8, h9, h10, h11, h12, h14, h15⟩ := h
  simp only [step] at hs
  split at hs <;> simp at hs
  subst hs
  constructor <;> simp_all [Consecutive] <;> grind

theorem step_wf_create {s s' : S} (h : WF s) (hs : step s .create = some s') : WF s' := by
  obtain ⟨h1, h2, h3, h4, h5, h6, h7, h8, h9, h10, h11, h12, h14, h15⟩ := h
  simp only [step] at hs
  split at hs <;> simp at hs
  subst hs
  wf_case

theorem step_wf_initialDone {s s' : S} (h : WF s) (hs : step s .initialDone = some s') : WF s' := by
  obtain ⟨h1, h2, h3, h4, h5, h6, h7, h8, h9, h10, h11, h12, h14, h15⟩ := h
  simp only [step] at hs
  split at hs <;> simp at hs
  subst hs
  wf_case

theorem step_wf_write {s s' : S} {tx : Tx} (h : WF s) (hs : step s (.write tx) = some s') : WF s' := by
  obtain ⟨h1, h2, h3, h4, h5, h6, h7, h8, h9, h10, h11, h12, h14, h15⟩ := h
  simp only [step] at hs
  split at hs
  · split at hs
    · split at hs <;> (simp at hs; subst hs; wf_case)
    · simp at hs; subst hs; constructor <;> simp_all
  · simp at hs

theorem step_wf_writeHeld {s s' : S} {tx : Tx} (h : WF s) (hs : step s (.writeHeld tx) = some s') : WF s' := by
  obtain ⟨h1, h2, h3, h4, h5, h6, h7, h8, h9, h10, h11, h12, h14, h15⟩ := h
  simp only [step] at hs
  split at hs <;> simp at hs
  subst hs
  constructor <;> simp_all

theorem step_wf_matchHeld {s s' : S} (h : WF s) (hs : step s .matchHeld = some s') : WF s' := by
  obtain ⟨h1, h2, h3, h4, h5, h6, h7, h8, h9, h10, h11, h12, h14, h15⟩ := h
  simp only [step] at hs
  split at hs
  · split at hs
    · simp at hs; subst hs; wf_case
    · split at hs <;> (simp at hs; subst hs; wf_case)
  · simp at hs

theorem step_wf_process {s s' : S} (h : WF s) (hs : step s .process = some s') : WF s' := by
  simp only [step] at hs
  split at hs <;> simp at hs
  subst hs
  exact h.flush

theorem step_wf_unreg {s s' : S} {keep : Bool} (h : WF s) (hs : step s (.unreg keep) = some s') : WF s' := by
  obtain ⟨h1, h2, h3, h4, h5, h6, h7, h8, h9, h10, h11, h12, h14, h15⟩ := h
  simp only [step] at hs
  split at hs <;> simp at hs
  subst hs
  wf_case

theorem step_wf_dropClone {s s' : S} (h : WF s) (hs : step s .dropClone = some s') : WF s' := by
  obtain ⟨h1, h2, h3, h4, h5, h6, h7, h8, h9, h10, h11, h12, h14, h15⟩ := h
  simp only [step] at hs
  split at hs <;> simp at hs
  subst hs
  constructor <;> simp_all

theorem step_wf_trip {s s' : S} (h : WF s) (hs : step s .trip = some s') : WF s' := by
  obtain ⟨h1, h2, h3, h4, h5, h6, h7, h8, h9, h10, h11, h12, h14, h15⟩ := h
  simp only [step] at hs
  split at hs <;> simp at hs
  subst hs
  constructor <;> simp_all

theorem step_wf_ack {s s' : S} (h : WF s) (hs : step s .ack = some s') : WF s' := by
  obtain ⟨h1, h2, h3, h4, h5, h6, h7, h8, h9, h10, h11, h12, h14, h15⟩ := h
  simp only [step] at hs
  split at hs <;> simp at hs
  subst hs
  cases hcz : s.cancelled <;> (constructor <;> simp_all <;> grind)

theorem step_wf_drainEnd {s s' : S} (h : WF s) (hs : step s .drainEnd = some s') : WF s' := by
  simp only [step] at hs
  split at hs <;> simp at hs
  subst hs
  rename_i hp
  have hfl := flush_fields s
  obtain ⟨h1, h2, h3, h4, h5, h6, h7, h8, h9, h10, h11, h12, h14, h15⟩ := h.flush
  constructor <;> simp_all

theorem step_wf_stop {s s' : S} (h : WF s) (hs : step s .stop = some s') : WF s' := by
  obtain ⟨h1, h2, h3, h4, h5, h6, h7, h8, h9, h10, h11, h12, h14, h15⟩ := h
  simp only [step] at hs
  split at hs <;> simp at hs
  subst hs
  constructor <;> simp_all

theorem step_wf_restart {s s' : S} (h : WF s) (hs : step s .restart = some s') : WF s' := by
  obtain ⟨h1, h2, h3, h4, h5, h6, h7, h8, h9, h10, h11, h12, h14, h15⟩ := h
  simp only [step] at hs
  split at hs
  · split at hs
    · split at hs <;> (simp at hs; subst hs; constructor <;> simp_all [Consecutive] <;> grind)
    · simp at hs; subst hs; wf_case
  · simp at hs

theorem step_wf {s s' : S} {o : Op} (h : WF s) (hs : step s o = some s') : WF s' := by
  cases o with
  | mkdir => exact step_wf_mkdir h hs
  | create => exact step_wf_create h hs
  | initialDone => exact step_wf_initialDone h hs
  | write tx => exact step_wf_write h hs
  | writeHeld tx => exact step_wf_writeHeld h hs
  | matchHeld => exact step_wf_matchHeld h hs
  | process => exact step_wf_process h hs
  | unreg keep => exact step_wf_unreg h hs
  | dropClone => exact step_wf_dropClone h hs
  | trip => exact step_wf_trip h hs
  | ack => exact step_wf_ack h hs
  | drainEnd => exact step_wf_drainEnd h hs
  | stop => exact step_wf_stop h hs
  | restart => exact step_wf_restart h hs

theorem stepD_wf {s : S} (o : Op) (h : WF s) : WF (stepD s o) := by
  unfold stepD
  cases hs : step s o with
  | none => simpa using h
  | some s' => simpa using step_wf h hs

theorem run_wf {s : S} (ops : List Op) (h : WF s) : WF (run s ops) := by
  induction ops generalizing s with
  | nil => simpa [run] using h
  | cons o r ih => simpa [run] using ih (stepD_wf o h)

/-! ### freshness -/

/-- As long as no committed transaction was missed, the materialised rows (the initial query's
snapshot while it is still running) agree with the table on every key that has no candidate waiting
and no match step outstanding.  Only claimed while the process is up or the directory is marked
`completed` (otherwise the directory is going to be removed at the next start). -/
def Fresh (s : S) : Prop :=
  s.missed = 0 → s.onDisk = true → (s.up = true ∨ s.state = some .completed) →
    ∀ k, k ∉ s.pending → k ∉ s.held →
      (if s.phase = .init then s.snap k else s.rows k) = s.db k

theorem init_fresh : Fresh init := by
  intro _ h; simp [init, S.onDisk] at h

theorem step_fresh {s s' : S} {o : Op} (hw : WF s) (hf : Fresh s) (hs : step s o = some s') : Fresh s' := by
  obtain ⟨h1, h2, h3, h4, h5, h6, h7, h8, h9, h10, h11, _, _, _⟩ := hw
  cases o with
  | mkdir =>
    simp only [step] at hs
    split at hs <;> simp at hs
    subst hs
    intro _ h; simp [S.onDisk] at h
  | create =>
    simp only [step] at hs
    split at hs <;> simp at hs
    subst hs
    intro _ _ _ k _ _; simp
  | initialDone =>
    simp only [step] at hs
    split at hs <;> simp at hs
    subst hs
    rename_i hp
    intro hm hd hu k hk1 hk2
    have := hf hm (by simp_all [S.onDisk]) (by simp_all) k hk1 hk2
    simp_all
  | write tx =>
    simp only [step] at hs
    split at hs
    · split at hs
      · split at hs
        · simp at hs; subst hs
          intro hm hd hu k hk1 hk2
          simp only [List.mem_append, not_or] at hk1
          have := hf hm (by simp_all [S.onDisk]) (by simp_all) k hk1.1 hk2
          simp only [Tbl.apply_not_mem _ _ _ hk1.2]
          exact this
        · simp at hs; subst hs
          intro hm; simp at hm
      · simp at hs; subst hs
        intro _ hd; simp_all [S.onDisk]
    · simp at hs
  | writeHeld tx =>
    simp only [step] at hs
    split at hs <;> simp at hs
    subst hs
    intro hm hd hu k hk1 hk2
    simp only [List.mem_append, not_or] at hk2
    have := hf hm (by simp_all [S.onDisk]) (by simp_all) k hk1 hk2.1
    simp only [Tbl.apply_not_mem _ _ _ hk2.2]
    exact this
  | matchHeld =>
    simp only [step] at hs
    split at hs
    · split at hs
      · simp at hs; subst hs
        intro hm hd hu k hk1 _
        simp only [List.mem_append, not_or] at hk1
        exact hf hm (by simp_all [S.onDisk]) (by simp_all) k hk1.1 hk1.2
      · split at hs
        · simp at hs; subst hs; intro hm; simp at hm
        · simp at hs; subst hs; intro _ hd; simp_all [S.onDisk]
    · simp at hs
  | process =>
    simp only [step] at hs
    split at hs <;> simp at hs
    subst hs
    rename_i hp
    have hfl := flush_fields s
    intro hm hd hu k _ hk2
    have hph : s.phase = .loop := by simp_all
    have hrow : s.flush.rows k = if k ∈ s.pending then s.db k else s.rows k := by
      rw [hfl.2.2.2.2.2.2.2.2.2.2.2.2.2.2.2.2.2]; exact applyAll_rows s s.pending k
    have hph' : s.flush.phase = .loop := by rw [hfl.2.2.2.2.2.1]; exact hph
    simp only [hph', hrow, hfl.1]
    by_cases hk : k ∈ s.pending
    · simp [hk]
    · simp only [hk, if_false]
      have := hf (by simp_all) (by simp_all [S.onDisk]) (by simp_all) k hk (by simp_all)
      simp_all
  | unreg keep =>
    simp only [step] at hs
    split at hs <;> simp at hs
    subst hs
    intro hm hd hu k hk1 hk2
    exact hf hm (by simp_all [S.onDisk]) (by simp_all) k hk1 hk2
  | dropClone =>
    simp only [step] at hs
    split at hs <;> simp at hs
    subst hs
    intro hm hd hu k hk1 hk2
    exact hf hm (by simp_all [S.onDisk]) (by simp_all) k hk1 hk2
  | trip =>
    simp only [step] at hs
    split at hs <;> simp at hs
    subst hs
    intro hm hd hu k hk1 hk2
    exact hf hm (by simp_all [S.onDisk]) (by simp_all) k hk1 hk2
  | ack =>
    simp only [step] at hs
    split at hs <;> simp at hs
    subst hs
    rename_i hp
    intro hm hd hu k hk1 hk2
    have hph : s.phase = .loop := by simp_all
    have hst := h4 hph
    have := hf hm (by simp_all [S.onDisk]) (Or.inl (h1 (by simp [hph])).1) k hk1 hk2
    simp_all
  | drainEnd =>
    simp only [step] at hs
    split at hs <;> simp at hs
    subst hs
    rename_i hp
    have hfl := flush_fields s
    intro hm hd hu k _ hk2
    have hph : s.phase = .drain := by simp_all
    have hrow : s.flush.rows k = if k ∈ s.pending then s.db k else s.rows k := by
      rw [hfl.2.2.2.2.2.2.2.2.2.2.2.2.2.2.2.2.2]; exact applyAll_rows s s.pending k
    simp only [hrow, hfl.1]
    by_cases hk : k ∈ s.pending
    · simp [hk]
    · simp only [hk, if_false]
      have hup := (h1 (by simp [hph])).1
      have hst : s.state.isSome = true := by rcases h5 hph with h | h <;> simp [h]
      have := hf (by simp_all) (by simp_all [S.onDisk]) (Or.inl hup) k hk (by simp_all)
      simp_all
  | stop =>
    simp only [step] at hs
    split at hs <;> simp at hs
    subst hs
    intro hm hd hu k _ _
    simp only [S.onDisk] at hd
    simp at hu
    have hc := h6 hu
    simp only at hm
    have hheld : s.held = [] := by
      by_cases hh : s.held = []
      · exact hh
      · simp_all [S.onDisk]
    have := hf (by simp_all) (by simp_all [S.onDisk]) (Or.inr hu) k (by simp [hc.2.2]) (by simp [hheld])
    simp_all
  | restart =>
    simp only [step] at hs
    split at hs
    · split at hs
      · split at hs
        · simp at hs; subst hs
          rename_i hup hdir hcomp
          intro hm hd hu k hk1 hk2
          have hph : s.phase = .gone := (h6 hcomp).1
          have := hf hm (by simp_all [S.onDisk]) (Or.inr hcomp) k hk1 hk2
          simp_all
        · simp at hs; subst hs
          intro _ hd; simp [S.onDisk] at hd
      · simp at hs; subst hs
        intro _ hd; simp_all [S.onDisk]
    · simp at hs

theorem stepD_fresh {s : S} (o : Op) (hw : WF s) (hf : Fresh s) : Fresh (stepD s o) := by
  unfold stepD
  cases hs : step s o with
  | none => simpa using hf
  | some s' => simpa using step_fresh hw hf hs

theorem run_fresh {s : S} (ops : List Op) (hw : WF s) (hf : Fresh s) : Fresh (run s ops) := by
  induction ops generalizing s with
  | nil => simpa [run] using hf
  | cons o r ih => simpa [run] using ih (stepD_wf o hw) (stepD_fresh o hw hf)

theorem reach_wf (ops : List Op) : WF (run init ops) := run_wf ops init_wf
theorem reach_fresh (ops : List Op) : Fresh (run init ops) := run_fresh ops init_wf init_fresh

/-! ### the stop sequence, stage by stage -/

theorem run_append (s : S) (a b : List Op) : run s (a ++ b) = run (run s a) b := by
  simp [run, List.foldl_append]

/-- trip; the matcher finishes its initial query if it is in it, notices the tripwire, breaks:
a registered subscription ends up in its drain, still registered -/
theorem to_drain {s : S} (hw : WF s) (hs : s.served = true) :
    let d := run s [.trip, .initialDone, .ack]
    d.phase = .drain ∧ d.up = true ∧ d.reg = true ∧ d.clone = false ∧ d.dir = true ∧ d.sid = s.sid ∧
    d.db = s.db ∧ d.missed = s.missed ∧ d.held = s.held := by
  obtain ⟨h1, h2, h3, h4, h5, h6, h7, h8, h9, h10, h11, h12, h14, h15⟩ := hw
  simp only [S.served, Bool.and_eq_true] at hs
  obtain ⟨hup, hreg⟩ := hs
  obtain ⟨_, hph, hc, hcl⟩ := h2 hreg
  have hd := (h1 hph).2
  cases hp : s.phase with
  | gone => exact absurd hp hph
  | init => cases ht : s.tripped <;> simp [run, stepD, step, hp, ht, hup, hreg, hc, hcl, hd]
  | loop => cases ht : s.tripped <;> simp [run, stepD, step, hp, ht, hup, hreg, hc, hcl, hd]
  | drain => cases ht : s.tripped <;> simp [run, stepD, step, hp, ht, hup, hreg, hc, hcl, hd]

/-- applying candidates only looks at the rows, the table and the log -/
theorem applyOne_congr (s t : S) (k : Nat) (h1 : s.rows = t.rows) (h2 : s.db = t.db) (h3 : s.log = t.log) :
    (applyOne s k).rows = (applyOne t k).rows ∧ (applyOne s k).db = (applyOne t k).db ∧
    (applyOne s k).log = (applyOne t k).log := by
  simp only [applyOne, S.lastId, h1, h2, h3]
  split <;> simp [h1, h2, h3]

theorem applyAll_congr (s t : S) (ks : List Nat) (h1 : s.rows = t.rows) (h2 : s.db = t.db) (h3 : s.log = t.log) :
    (applyAll s ks).log = (applyAll t ks).log ∧ (applyAll s ks).rows = (applyAll t ks).rows := by
  induction ks generalizing s t with
  | nil => simp [applyAll, h1, h3]
  | cons k r ih =>
    simp only [applyAll, List.foldl_cons] at ih ⊢
    obtain ⟨c1, c2, c3⟩ := applyOne_congr s t k h1 h2 h3
    exact ih _ _ c1 c2 c3

/-- the state right after `drop_handles()` took the handle out of the manager and cancelled it -/
def unregd (d : S) : S := { d with reg := false, cancelled := true, clone := false }

/-- `drop_handles()`, the other clones go away, the drain ends: everything accepted is applied and
`completed` is written -/
theorem drain_to_completed {d : S} (hp : d.phase = .drain) (hup : d.up = true) (hreg : d.reg = true) :
    let c := run d [.unreg false, .dropClone, .initialDone, .ack, .drainEnd]
    c.state = some .completed ∧ c.phase = .gone ∧ c.up = true ∧ c.reg = false ∧ c.pending = [] ∧
    c.dir = d.dir ∧ c.sid = d.sid ∧ c.db = d.db ∧ c.missed = d.missed ∧ c.held = d.held ∧
    c.applied = d.produced ∧ c.log = (applyAll d d.pending).log ∧ c.rows = (applyAll d d.pending).rows := by
  have key : run d [.unreg false, .dropClone, .initialDone, .ack, .drainEnd]
      = { (unregd d).flush with state := some .completed, phase := .gone } := by
    simp [run, stepD, step, unregd, hp, hup, hreg]
  obtain ⟨e_db, e_dir, e_sid, _, e_up, _, e_reg, _, _, _, _, e_held, _, e_missed, e_pend, e_app, e_log, e_rows⟩ :=
    flush_fields (unregd d)
  obtain ⟨l1, l2⟩ := applyAll_congr (unregd d) d d.pending rfl rfl rfl
  have hpend : (unregd d).pending = d.pending := rfl
  rw [hpend] at e_log e_rows e_app
  intro c
  have hc : c = { (unregd d).flush with state := some .completed, phase := .gone } := key
  clear_value c
  subst hc
  refine ⟨rfl, rfl, ?_, ?_, e_pend, ?_, ?_, ?_, ?_, ?_, ?_, ?_, ?_⟩
  · rw [e_up]; exact hup
  · rw [e_reg]; rfl
  · rw [e_dir]; rfl
  · rw [e_sid]; rfl
  · rw [e_db]; rfl
  · rw [e_missed]; rfl
  · rw [e_held]; rfl
  · rw [e_app]; rfl
  · rw [e_log]; exact l1
  · rw [e_rows]; exact l2

/-- the process exits after the matcher has finished, a new one starts: restored as it was -/
theorem completed_restart {c : S} (hst : c.state = some .completed) (hup : c.up = true) (hd : c.dir = true) :
    let r := run c [.stop, .restart]
    r.served = true ∧ r.dir = true ∧ r.sid = c.sid ∧ r.state = some .running ∧ r.pending = [] ∧
    r.held = [] ∧ r.log = c.log ∧ r.rows = c.rows ∧ r.db = c.db ∧ r.phase = .loop ∧ r.cancelled = false ∧
    r.missed = (if !c.held.isEmpty then c.missed + 1 else c.missed) := by
  simp [run, stepD, step, hst, hup, hd, S.served, S.onDisk]

/-! ### the stop sequence with `drop_handles()` overtaking the matcher -/

/-- the matcher in its drain after a shutdown in which the cancellation reached it first -/
def overtaken (s : S) (rows : Tbl) (st : Option Status) : S :=
  { s with tripped := true, reg := false, cancelled := true, clone := false, rows := rows, state := st,
           phase := .drain }

/-- trip, `drop_handles()` BEFORE the matcher has looked at the tripwire (it is in its initial
query, or was not polled), then the matcher leaves its loop through the cancellation branch — which
writes `cancelled` — and the drain ends: `cancelled` is overwritten by `completed` -/
theorem overtaken_to_completed {s : S} (hw : WF s) (hs : s.served = true) :
    let c := run s [.trip, .unreg false, .dropClone, .initialDone, .ack, .drainEnd]
    c.state = some .completed ∧ c.up = true ∧ c.pending = [] ∧ c.dir = true ∧ c.sid = s.sid ∧
    c.db = s.db ∧ c.missed = s.missed ∧ c.held = s.held := by
  obtain ⟨h1, h2, h3, h4, h5, h6, h7, h8, h9, h10, h11, h12, h14, h15⟩ := hw
  simp only [S.served, Bool.and_eq_true] at hs
  obtain ⟨hup, hreg⟩ := hs
  obtain ⟨_, hph, hc, hcl⟩ := h2 hreg
  have hd := (h1 hph).2
  have main : ∀ rows st, let c : S := { (overtaken s rows st).flush with state := some .completed, phase := .gone }
      c.state = some .completed ∧ c.up = true ∧ c.pending = [] ∧ c.dir = true ∧ c.sid = s.sid ∧
      c.db = s.db ∧ c.missed = s.missed ∧ c.held = s.held := by
    intro rows st
    obtain ⟨e_db, e_dir, e_sid, _, e_up, _, _, _, _, _, _, e_held, _, e_missed, e_pend, _, _, _⟩ :=
      flush_fields (overtaken s rows st)
    refine ⟨rfl, ?_, e_pend, ?_, ?_, ?_, ?_, ?_⟩
    · show (overtaken s rows st).flush.up = true; rw [e_up]; exact hup
    · show (overtaken s rows st).flush.dir = true; rw [e_dir]; exact hd
    · show (overtaken s rows st).flush.sid = s.sid; rw [e_sid]; rfl
    · show (overtaken s rows st).flush.db = s.db; rw [e_db]; rfl
    · show (overtaken s rows st).flush.missed = s.missed; rw [e_missed]; rfl
    · show (overtaken s rows st).flush.held = s.held; rw [e_held]; rfl
  cases hp : s.phase with
  | gone => exact absurd hp hph
  | init =>
    have key : run s [.trip, .unreg false, .dropClone, .initialDone, .ack, .drainEnd]
        = { (overtaken s s.snap (some .cancelled)).flush with state := some .completed, phase := .gone } := by
      cases ht : s.tripped <;> simp [run, stepD, step, overtaken, hp, hup, hreg, ht]
    rw [key]; exact main _ _
  | loop =>
    have key : run s [.trip, .unreg false, .dropClone, .initialDone, .ack, .drainEnd]
        = { (overtaken s s.rows (some .cancelled)).flush with state := some .completed, phase := .gone } := by
      cases ht : s.tripped <;> simp [run, stepD, step, overtaken, hp, hup, hreg, ht]
    rw [key]; exact main _ _
  | drain =>
    have ht := h14 hp hreg
    have key : run s [.trip, .unreg false, .dropClone, .initialDone, .ack, .drainEnd]
        = { (overtaken s s.rows s.state).flush with state := some .completed, phase := .gone } := by
      simp [run, stepD, step, overtaken, hp, hup, hreg, ht]
    rw [key]; exact main _ _

end Corro.SubLife
