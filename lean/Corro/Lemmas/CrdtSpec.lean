/-
C01, CRDT level: the *specification* of a finite set of changes (independent of `merge`), the
*view* of a database (what the property compares: causal lengths, values, column versions — not the
attribution), and the side conditions `Chg.WF`, `Complete`.
-/
import Corro.Lemmas.CrdtLookup

namespace Corro.Crdt

/-! ### side conditions -/

/-- Well-formed change: a column change carries a column version `≥ 1`.  Nothing else is needed
(`cl ≥ 1`, `val = null` on sentinels, "even `cl` only on sentinels" are irrelevant to the model:
a change with `cl = 0` is ignored, a change with even `cl` is treated as a delete whatever its
`cid`). Local writes satisfy it (`applyStmt` writes `colv = 1` or `old + 1`).  The re-export of a
*zeroed leftover* by `Db.changes` does NOT satisfy it; the invariant `merge_fold_inv` and the
`…_strong` theorems therefore do not assume it. -/
def Chg.WF (c : Chg) : Prop := c.cid ≠ sentinel → 1 ≤ c.colv

instance (c : Chg) : Decidable c.WF := by unfold Chg.WF; exact inferInstance

/-- the change belongs to row `(t,p)` -/
def Chg.atRow (c : Chg) (t p : String) : Prop := c.tbl = t ∧ c.pk = p

/-- the change is a column change for cell `(t,p,x)` in incarnation `n` -/
def Chg.atCell (c : Chg) (t p x : String) (n : Nat) : Prop :=
  c.tbl = t ∧ c.pk = p ∧ c.cid = x ∧ c.cl = n

instance (c : Chg) (t p : String) : Decidable (c.atRow t p) := by unfold Chg.atRow; exact inferInstance
instance (c : Chg) (t p x : String) (n : Nat) : Decidable (c.atCell t p x n) := by
  unfold Chg.atCell; exact inferInstance

/-! ### specification of a set of changes -/

def maxNat : List Nat → Nat
  | [] => 0
  | n :: ns => max n (maxNat ns)

theorem le_maxNat {ns : List Nat} {n : Nat} (h : n ∈ ns) : n ≤ maxNat ns := by
  induction ns with
  | nil => cases h
  | cons a l ih =>
    simp only [maxNat]
    rcases List.mem_cons.mp h with rfl | h
    · omega
    · have := ih h; omega

theorem maxNat_mem_or_zero (ns : List Nat) : maxNat ns ∈ ns ∨ (maxNat ns = 0) := by
  induction ns with
  | nil => right; rfl
  | cons a l ih =>
    simp only [maxNat]
    by_cases h : maxNat l ≤ a
    · left; rw [Nat.max_eq_left h]; simp
    · rw [Nat.max_eq_right (by omega)]
      rcases ih with ih | ih
      · left; simp [ih]
      · omega

/-- `cl*`: the largest causal length any change of `S` carries for row `(t,p)` (0 = none) -/
def specCl (S : List Chg) (t p : String) : Nat :=
  maxNat ((S.filter (fun c => decide (c.atRow t p))).map (·.cl))

/-- the winning `(value, col_version)` of cell `(t,p,x)`: the `keyLt`-maximum of the column changes
of `S` for that cell that carry the row's final causal length; none if that is even -/
def specCell (S : List Chg) (t p x : String) : Option (Val × Nat) :=
  let n := specCl S t p
  if n % 2 = 0 ∨ x = sentinel then none
  else (maxKey ((S.filter (fun c => decide (c.atCell t p x n))).map Chg.key)).map
    (fun k => (k.val, k.colv))

/-- what the property compares for one row -/
structure RowView where
  /-- causal length; odd = the row exists, even = deleted, 0 = never seen -/
  cl : Nat
  /-- column ↦ `(value, col_version)` -/
  cell : String → Option (Val × Nat)

/-- the merge of a set of changes, defined without `merge` -/
def spec (S : List Chg) : String → String → RowView :=
  fun t p => ⟨specCl S t p, specCell S t p⟩

/-! ### view of a database -/

def Db.cl (db : Db) (t p : String) : Nat := lclOf (db.findRow t p)

def Db.cell (db : Db) (t p x : String) : Option Cell :=
  match db.findRow t p with
  | some r => r.findCell x
  | none => none

/-- The projection of a database the property speaks about: per row the causal length, per cell the
value and column version.  The attribution `(site, db_version, seq)` and the sentinel's clock are
dropped.  By `findRow_of_mem` / `findCell_of_mem` nothing stored in a `NoDup` database escapes these
lookups. -/
def view (db : Db) : String → String → RowView :=
  fun t p => ⟨db.cl t p, fun x => (db.cell t p x).map (fun l => (l.val, l.clk.colv))⟩

/-- the empty database of site `s` -/
def Db.empty (s : Nat) : Db := { site := s }

/-! ### incarnation-completeness -/

/-- Every column that `S` mentions for a row (at any causal length) has a change at the row's final
causal length `cl*`, whenever `cl*` is odd.  True of histories of local transactions because an
INSERT emits a change for every non-key column. -/
def Complete (S : List Chg) : Prop :=
  ∀ c ∈ S, c.cid ≠ sentinel → specCl S c.tbl c.pk % 2 = 1 →
    ∃ d ∈ S, d.atCell c.tbl c.pk c.cid (specCl S c.tbl c.pk)

/-- `Complete` without assuming `Chg.WF`: the change at `cl*` has a positive column version
(so that it beats a zeroed leftover, or a relayed copy of one). -/
def CompleteStrong (S : List Chg) : Prop :=
  ∀ c ∈ S, c.cid ≠ sentinel → specCl S c.tbl c.pk % 2 = 1 →
    ∃ d ∈ S, d.atCell c.tbl c.pk c.cid (specCl S c.tbl c.pk) ∧ 1 ≤ d.colv

theorem Complete.strong {S : List Chg} (h : Complete S) (hwf : ∀ c ∈ S, c.WF) : CompleteStrong S := by
  intro c hc hs hodd
  obtain ⟨d, hd, hat⟩ := h c hc hs hodd
  refine ⟨d, hd, hat, hwf d hd ?_⟩
  rw [hat.2.2.1]; exact hs

instance (S : List Chg) : Decidable (Complete S) := by unfold Complete; exact inferInstance
instance (S : List Chg) : Decidable (CompleteStrong S) := by unfold CompleteStrong; exact inferInstance

/-! ### characterisation of the specification by bounds -/

theorem specCl_ge {S : List Chg} {t p : String} {c : Chg} (hc : c ∈ S) (h : c.atRow t p) :
    c.cl ≤ specCl S t p := by
  unfold specCl
  apply le_maxNat
  exact List.mem_map.mpr ⟨c, List.mem_filter.mpr ⟨hc, by simpa using h⟩, rfl⟩

theorem specCl_attained (S : List Chg) (t p : String) :
    (∃ c ∈ S, c.atRow t p ∧ c.cl = specCl S t p) ∨ specCl S t p = 0 := by
  unfold specCl
  have h0 := maxNat_mem_or_zero ((S.filter (fun c => decide (c.atRow t p))).map (fun c => c.cl))
  rcases h0 with h | h
  · left
    obtain ⟨c, hc, he⟩ := List.mem_map.mp h
    have := List.mem_filter.mp hc
    exact ⟨c, this.1, by simpa using this.2, he⟩
  · right; exact h

/-- `specCl` is determined by "upper bound and attained (or zero)" -/
theorem specCl_unique {S : List Chg} {t p : String} {n : Nat}
    (hub : ∀ c ∈ S, c.atRow t p → c.cl ≤ n)
    (hat : (∃ c ∈ S, c.atRow t p ∧ c.cl = n) ∨ n = 0) : specCl S t p = n := by
  rcases specCl_attained S t p with ⟨c, hc, hr, he⟩ | h0
  · have h1 := hub c hc hr
    rcases hat with ⟨d, hd, hdr, hde⟩ | hn
    · have := specCl_ge hd hdr; omega
    · omega
  · rcases hat with ⟨d, hd, hdr, hde⟩ | hn
    · have := specCl_ge hd hdr; omega
    · omega

end Corro.Crdt
