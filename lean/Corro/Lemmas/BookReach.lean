/-
Helper lemmas for C02, part 5: the state invariant `Inv`, its preservation by every operation
(`opInsert`, `opPartial`, `opReload`), the `from_conn` round trip and the lookup lemma behind the
partition statement about `generate_sync`.
-/
import Corro.Lemmas.BookSeq

namespace Corro.Book
open Corro Corro.RSet

/-! ### small facts about the partial map -/

/-- largest key (0 if empty) -/
def supKeys : PMap → Nat
  | [] => 0
  | e :: t => max e.1 (supKeys t)

theorem mem_pmPut {m : PMap} {v : Nat} {p : Partial} {e : Nat × Partial} (h : e ∈ pmPut m v p) :
    e = (v, p) ∨ e ∈ m := by
  induction m with
  | nil => simp [pmPut] at h; exact Or.inl h
  | cons a t ih =>
    obtain ⟨k, q⟩ := a
    by_cases h1 : v < k
    · simp only [pmPut, h1, if_true] at h
      rcases List.mem_cons.mp h with h | h
      · exact Or.inl h
      · exact Or.inr h
    · by_cases h2 : v = k
      · subst h2
        simp only [pmPut, h1, if_false, if_true] at h
        rcases List.mem_cons.mp h with h | h
        · exact Or.inl h
        · exact Or.inr (List.mem_cons_of_mem _ h)
      · simp only [pmPut, h1, h2, if_false] at h
        rcases List.mem_cons.mp h with h | h
        · exact Or.inr (by simp [h])
        · rcases ih h with h | h
          · exact Or.inl h
          · exact Or.inr (List.mem_cons_of_mem _ h)

theorem pmPut_ne_nil (m : PMap) (v : Nat) (p : Partial) : pmPut m v p ≠ [] := by
  cases m with
  | nil => simp [pmPut]
  | cons a t =>
    obtain ⟨k, q⟩ := a
    unfold pmPut
    split
    · simp
    · split <;> simp

theorem supKeys_pmPut (m : PMap) (v : Nat) (p : Partial) : supKeys (pmPut m v p) = max v (supKeys m) := by
  induction m with
  | nil => simp [pmPut, supKeys]
  | cons a t ih =>
    obtain ⟨k, q⟩ := a
    unfold pmPut
    split
    · simp [supKeys]
    · split
      · rename_i hk; subst hk; simp only [supKeys]; omega
      · simp only [supKeys, ih]; omega

theorem keysFrom_pmPut {lb : Nat} {m : PMap} (h : KeysFrom lb m) {v : Nat} (hv : lb ≤ v) (p : Partial) :
    KeysFrom lb (pmPut m v p) := by
  induction m generalizing lb with
  | nil => simp [pmPut, KeysFrom]; exact hv
  | cons a t ih =>
    obtain ⟨k, q⟩ := a
    simp only [KeysFrom] at h
    unfold pmPut
    split
    · simp only [KeysFrom]; exact ⟨hv, by omega, h.2⟩
    · split
      · simp only [KeysFrom]; exact h
      · simp only [KeysFrom]; exact ⟨h.1, ih h.2 (by omega)⟩

theorem pmPut_append_new {P0 : PMap} {k : Nat} (h : ∀ e ∈ P0, e.1 < k) (p : Partial) :
    pmPut P0 k p = P0 ++ [(k, p)] := by
  induction P0 with
  | nil => rfl
  | cons a t ih =>
    obtain ⟨c, q⟩ := a
    have hc := h (c, q) (by simp)
    simp only at hc
    have h1 : ¬ k < c := by omega
    have h2 : ¬ k = c := by omega
    simp only [pmPut, h1, h2, if_false, List.cons_append]
    rw [ih (fun e he => h e (by simp [he]))]

theorem pmPut_append_replace {P0 : PMap} {k : Nat} (h : ∀ e ∈ P0, e.1 < k) (q p : Partial) :
    pmPut (P0 ++ [(k, q)]) k p = P0 ++ [(k, p)] := by
  induction P0 with
  | nil => simp [pmPut]
  | cons a t ih =>
    obtain ⟨c, r⟩ := a
    have hc := h (c, r) (by simp)
    simp only at hc
    have h1 : ¬ k < c := by omega
    have h2 : ¬ k = c := by omega
    simp only [List.cons_append, pmPut, h1, h2, if_false]
    rw [ih (fun e he => h e (by simp [he]))]

theorem lookup_append_new {P0 : PMap} {k : Nat} (h : ∀ e ∈ P0, e.1 < k) : P0.lookup k = none := by
  induction P0 with
  | nil => rfl
  | cons a t ih =>
    obtain ⟨c, r⟩ := a
    have hc := h (c, r) (by simp)
    simp only at hc
    rw [lookup_cons_ne (by omega)]
    exact ih (fun e he => h e (by simp [he]))

theorem lookup_append_last {P0 : PMap} {k : Nat} (h : ∀ e ∈ P0, e.1 < k) (q : Partial) :
    (P0 ++ [(k, q)]).lookup k = some q := by
  induction P0 with
  | nil => exact lookup_cons_eq _ _ _
  | cons a t ih =>
    obtain ⟨c, r⟩ := a
    have hc := h (c, r) (by simp)
    simp only at hc
    rw [List.cons_append, lookup_cons_ne (by omega)]
    exact ih (fun e he => h e (by simp [he]))

theorem insert_append_last {lb : Nat} {pre : RSet} {r : Nat × Nat} (h : WFfrom lb (pre ++ [r])) :
    RSet.insert pre r = pre ++ [r] := by
  induction pre generalizing lb with
  | nil => rfl
  | cons p t ih =>
    obtain ⟨c, d⟩ := p
    obtain ⟨a, b⟩ := r
    have ht := wfFrom_tail (t := t ++ [(a, b)]) h
    have := wfFrom_forall ht (a, b) (by simp)
    simp only at this
    simp only [List.cons_append, WFfrom] at h
    have h1 : ¬ b + 1 < c := by omega
    have h2 : d + 1 < a := by omega
    simp only [List.cons_append, RSet.insert, h1, h2, if_false, if_true]
    rw [ih ht]

/-! ### Option bookkeeping of the head -/

theorem opt_ext {a b : Option Nat} (h1 : a = none ↔ b = none) (h2 : a.getD 0 = b.getD 0) : a = b := by
  cases a <;> cases b <;> simp_all

theorem optMax_ne_none (m : Option Nat) (v : Nat) : optMax m v ≠ none := by
  cases m <;> simp [optMax]

theorem foldOptMax_none : ∀ (ks : List Nat) (d : Option Nat),
    (ks.foldl optMax d = none ↔ d = none ∧ ks = []) := by
  intro ks
  induction ks with
  | nil => intro d; simp
  | cons k t ih =>
    intro d
    simp only [List.foldl_cons, ih]
    have := optMax_ne_none d k
    simp [this]

theorem foldOptMax_getD : ∀ (m : PMap) (d : Option Nat),
    ((m.map (·.1)).foldl optMax d).getD 0 = max (d.getD 0) (supKeys m) := by
  intro m
  induction m with
  | nil => intro d; simp [supKeys]
  | cons e t ih =>
    intro d
    simp only [List.map_cons, List.foldl_cons, ih, supKeys, optMax_getD, Option.getD_some]
    omega

theorem dbvAfter_none (dbv : Option Nat) (rs : List (Nat × Nat)) (hne : rs ≠ []) :
    dbvAfter none dbv rs = some (max (dbv.getD 0) (supHi rs)) := by
  unfold dbvAfter
  simp only [optLe, if_true, setDbVersion]
  exact optMax_fold rs dbv hne

theorem dbvAfter_cons (m0 : Nat) (dbv : Option Nat) (r : Nat × Nat) (t : List (Nat × Nat)) :
    dbvAfter (some m0) dbv (r :: t) = dbvAfter (some m0) (if m0 ≤ r.2 then optMax dbv r.2 else dbv) t := by
  simp [dbvAfter, optLe, setDbVersion]

/-- largest end among the ranges that end at or above `m0` (0 if none) -/
def supIf (m0 : Nat) : List (Nat × Nat) → Nat
  | [] => 0
  | r :: t => max (if m0 ≤ r.2 then r.2 else 0) (supIf m0 t)

theorem dbvAfter_getD (m0 : Nat) : ∀ (rs : List (Nat × Nat)) (dbv : Option Nat),
    (dbvAfter (some m0) dbv rs).getD 0 = max (dbv.getD 0) (supIf m0 rs) := by
  intro rs
  induction rs with
  | nil => intro dbv; simp [dbvAfter, supIf]
  | cons r t ih =>
    intro dbv
    rw [dbvAfter_cons, ih]
    by_cases hr : m0 ≤ r.2
    · simp only [hr, if_true, supIf, optMax_getD, Option.getD_some]; omega
    · simp only [hr, if_false, supIf]; omega

theorem dbvAfter_eq_none (m0 : Nat) : ∀ (rs : List (Nat × Nat)) (dbv : Option Nat),
    (dbvAfter (some m0) dbv rs = none ↔ dbv = none ∧ ∀ r ∈ rs, r.2 < m0) := by
  intro rs
  induction rs with
  | nil => intro dbv; simp [dbvAfter]
  | cons r t ih =>
    intro dbv
    rw [dbvAfter_cons, ih]
    by_cases hr : m0 ≤ r.2
    · simp only [hr, if_true]
      have := optMax_ne_none dbv r.2
      constructor
      · rintro ⟨h1, _⟩; exact absurd h1 this
      · rintro ⟨_, h2⟩; have := h2 r (by simp); omega
    · simp only [hr, if_false, List.mem_cons, forall_eq_or_imp]
      constructor
      · rintro ⟨h1, h2⟩; exact ⟨h1, by omega, h2⟩
      · rintro ⟨h1, _, h2⟩; exact ⟨h1, h2⟩

theorem supIf_lt (m0 : Nat) (rs : List (Nat × Nat)) (h : supHi rs < m0) : supIf m0 rs = 0 := by
  induction rs with
  | nil => rfl
  | cons r t ih =>
    simp only [supHi] at h
    have hr : ¬ m0 ≤ r.2 := by omega
    simp only [supIf, hr, if_false, ih (by omega)]; omega

theorem supIf_ge (m0 : Nat) (rs : List (Nat × Nat)) (h : m0 ≤ supHi rs) : supIf m0 rs = supHi rs := by
  induction rs with
  | nil => simp [supHi] at h; simp [supIf, supHi]
  | cons r t ih =>
    simp only [supHi] at h ⊢
    simp only [supIf]
    by_cases hr : m0 ≤ r.2
    · by_cases ht : m0 ≤ supHi t
      · simp only [hr, if_true, ih ht]
      · simp only [hr, if_true, supIf_lt m0 t (by omega)]; omega
    · have ht : m0 ≤ supHi t := by omega
      simp only [hr, if_false, ih ht]; omega

/-! ### the state invariant -/

/-- `L v` is the `last_seq` the origin gave version `v` (every chunk of `v` carries it). -/
structure Inv (L : Nat → Nat) (st : Node) : Prop where
  /-- `needed` canonical, inside `1..head`, mirrored row by row in `__corro_bookkeeping_gaps` -/
  gaps : GapsOk st.book st.db.gaps
  /-- partial versions: distinct, ≥ 1 -/
  keys : KeysFrom 1 st.book.partials
  /-- a partial version is at most the head and is not needed -/
  pin : ∀ e ∈ st.book.partials, e.1 ≤ st.book.max.getD 0 ∧ ¬ Mem st.book.needed e.1
  /-- received seq ranges canonical, non-empty; `last_seq` is the origin's -/
  pwf : ∀ e ∈ st.book.partials, WF e.2.seqs ∧ e.2.seqs ≠ [] ∧ e.2.last = L e.1
  /-- `__corro_seq_bookkeeping` mirrors the partials row by row -/
  seqrows : st.db.seqs = seqRowsOf st.book.partials
  /-- the head is the larger of the `crsql_db_versions` row and the partial versions -/
  head1 : st.book.max.getD 0 = max (st.db.dbv.getD 0) (supKeys st.book.partials)
  head2 : st.book.max = none ↔ (st.db.dbv = none ∧ st.book.partials = [])

/-- operations inside the property's quantifier -/
def OpOk (L : Nat → Nat) : Op → Prop
  | .ins rs => rs ≠ [] ∧ ∀ r ∈ rs, 1 ≤ r.1 ∧ r.1 ≤ r.2
  | .part v _ last => 1 ≤ v ∧ last = L v
  | .reload => True

theorem inv_empty (L : Nat → Nat) : Inv L Node.empty := by
  refine ⟨⟨trivial, rfl, ?_⟩, trivial, ?_, ?_, rfl, rfl, ?_⟩
  · intro x hx; exact absurd hx (mem_nil x)
  · intro e he; cases he
  · intro e he; cases he
  · simp [Node.empty, Book.empty, Durable.empty]

theorem supKeys_le {m : PMap} {e : Nat × Partial} (h : e ∈ m) : e.1 ≤ supKeys m := by
  induction m with
  | nil => cases h
  | cons a t ih =>
    simp only [supKeys]
    rcases List.mem_cons.mp h with rfl | h
    · omega
    · have := ih h; omega

/-! ### whole versions (`Changeset::Empty`, complete changesets) -/

theorem keysFrom_filter {lb : Nat} {m : PMap} (h : KeysFrom lb m) (f : Nat × Partial → Bool) :
    KeysFrom lb (m.filter f) := by
  induction m generalizing lb with
  | nil => simp [KeysFrom]
  | cons e t ih =>
    simp only [KeysFrom] at h
    simp only [List.filter_cons]
    split
    · simp only [KeysFrom]; exact ⟨h.1, ih h.2⟩
    · exact keysFrom_mono (ih h.2) (by omega)

theorem foldl_pmRemoveRange (rs : List (Nat × Nat)) : ∀ (P : PMap),
    rs.foldl pmRemoveRange P = P.filter (fun e => !coveredBy rs e.1) := by
  induction rs with
  | nil =>
    intro P
    simp only [List.foldl_nil, coveredBy, List.any_nil, Bool.not_false]
    exact (List.filter_eq_self.mpr (fun _ _ => rfl)).symm
  | cons r t ih =>
    intro P
    simp only [List.foldl_cons, ih, pmRemoveRange, List.filter_filter]
    apply List.filter_congr
    intro e _
    simp only [coveredBy, List.any_cons, Bool.not_or]
    rw [Bool.and_comm]

theorem filter_tagRows (f : Nat → Bool) (v l : Nat) (s : RSet) :
    (tagRows v l s).filter (fun row => f row.1) = if f v then tagRows v l s else [] := by
  by_cases hf : f v = true
  · simp only [hf, if_true]
    apply List.filter_eq_self.mpr
    intro row hrow
    simp only [tagRows, List.mem_map] at hrow
    obtain ⟨_, _, rfl⟩ := hrow
    exact hf
  · simp only [hf, Bool.false_eq_true, if_false]
    apply List.filter_eq_nil_iff.mpr
    intro row hrow
    simp only [tagRows, List.mem_map] at hrow
    obtain ⟨_, _, rfl⟩ := hrow
    exact hf

theorem seqRowsOf_filter (f : Nat → Bool) (P : PMap) :
    seqRowsOf (P.filter (fun e => f e.1)) = (seqRowsOf P).filter (fun row => f row.1) := by
  induction P with
  | nil => simp [seqRowsOf]
  | cons e t ih =>
    simp only [seqRowsOf, List.filter_append, filter_tagRows, List.filter_cons]
    by_cases hf : f e.1 = true
    · simp only [hf, if_true, seqRowsOf, ih]
    · simp only [hf, Bool.false_eq_true, if_false, ih, List.nil_append]

theorem supKeys_filter_le (P : PMap) (f : Nat × Partial → Bool) : supKeys (P.filter f) ≤ supKeys P := by
  induction P with
  | nil => simp [supKeys]
  | cons e t ih =>
    simp only [List.filter_cons]
    split
    · simp only [supKeys]; omega
    · simp only [supKeys]; omega

theorem supKeys_attained {P : PMap} (h : P ≠ []) : ∃ e ∈ P, e.1 = supKeys P := by
  induction P with
  | nil => exact absurd rfl h
  | cons a t ih =>
    simp only [supKeys]
    by_cases ht : t = []
    · subst ht; exact ⟨a, by simp, by simp [supKeys]⟩
    · obtain ⟨e, he, hee⟩ := ih ht
      by_cases hle : supKeys t ≤ a.1
      · exact ⟨a, by simp, by omega⟩
      · exact ⟨e, by simp [he], by omega⟩

theorem coveredBy_iff (rs : List (Nat × Nat)) (v : Nat) :
    coveredBy rs v = true ↔ ∃ r ∈ rs, r.1 ≤ v ∧ v ≤ r.2 := by
  simp [coveredBy]

/-- the head after a batch of whole versions: still the larger of the db-version row and the
remaining partial versions -/
theorem head_after_whole {L : Nat → Nat} {st : Node} (h : Inv L st) {rs : List (Nat × Nat)}
    (hne : rs ≠ []) :
    max (st.book.max.getD 0) (supHi rs) =
      max ((dbvAfter st.book.max st.db.dbv rs).getD 0)
        (supKeys (st.book.partials.filter (fun e => !coveredBy rs e.1))) ∧
    ¬ (dbvAfter st.book.max st.db.dbv rs = none ∧
        st.book.partials.filter (fun e => !coveredBy rs e.1) = []) := by
  have hfl := supKeys_filter_le st.book.partials (fun e => !coveredBy rs e.1)
  have h1 := h.head1
  cases hm : st.book.max with
  | none =>
    have := h.head2.mp hm
    rw [dbvAfter_none _ _ hne, this.1, this.2]
    simp [supKeys]
  | some m0 =>
    rw [hm] at h1
    simp only [Option.getD_some] at h1 ⊢
    rw [dbvAfter_getD]
    by_cases hle : m0 ≤ supHi rs
    · rw [supIf_ge _ _ hle]
      refine ⟨by omega, ?_⟩
      rintro ⟨hn, _⟩
      obtain ⟨r, hr, he⟩ := supHi_attained hne
      have := ((dbvAfter_eq_none m0 rs st.db.dbv).mp hn).2 r hr
      omega
    · rw [supIf_lt _ _ (by omega)]
      -- nothing is written; if the head is a partial version, no range reaches it
      have hkeep : ∀ e ∈ st.book.partials, e.1 = m0 →
          e ∈ st.book.partials.filter (fun e => !coveredBy rs e.1) := by
        intro e he hem
        apply List.mem_filter.mpr
        refine ⟨he, ?_⟩
        cases hc : coveredBy rs e.1 with
        | false => rfl
        | true =>
          obtain ⟨r, hr, _, hr2⟩ := (coveredBy_iff rs e.1).mp hc
          have := le_supHi hr
          omega
      by_cases hd : supKeys st.book.partials ≤ st.db.dbv.getD 0
      · refine ⟨by omega, ?_⟩
        rintro ⟨hn, hnil⟩
        have hdn := ((dbvAfter_eq_none m0 rs st.db.dbv).mp hn).1
        -- dbv = none: the head must be a partial version, which is kept
        have hP : st.book.partials ≠ [] := by
          intro hp
          have := h.head2.mpr ⟨hdn, hp⟩
          rw [hm] at this; cases this
        obtain ⟨e, he, hee⟩ := supKeys_attained hP
        have hge := keysFrom_forall h.keys e he
        rw [hdn] at hd h1
        simp at hd h1
        omega
      · have hP : st.book.partials ≠ [] := by
          intro hp; rw [hp] at hd; simp [supKeys] at hd
        obtain ⟨e, he, hee⟩ := supKeys_attained hP
        have hin := hkeep e he (by omega)
        have := supKeys_le hin
        refine ⟨by omega, ?_⟩
        rintro ⟨_, hnil⟩
        rw [hnil] at hin; cases hin

theorem wholeVersions_inv {L : Nat → Nat} {st : Node} (h : Inv L st) {rs : List (Nat × Nat)}
    (hne : rs ≠ []) (hrs : ∀ r ∈ rs, 1 ≤ r.1 ∧ r.1 ≤ r.2) :
    ∃ st', wholeVersions st rs = .ok st' ∧ Inv L st' ∧
      st'.book.max = some (max (st.book.max.getD 0) (supHi rs)) ∧
      st'.book.partials = st.book.partials.filter (fun e => !coveredBy rs e.1) ∧
      (∀ x, Mem st'.book.needed x ↔
        (Mem st.book.needed x ∨ (st.book.max.getD 0 + 1 ≤ x ∧ x ≤ supHi rs)) ∧
          ¬ ∃ r ∈ rs, r.1 ≤ x ∧ x ≤ r.2) := by
  have hf : ∀ r ∈ rs, r.1 ≤ r.2 := fun r hr => (hrs r hr).2
  have hS := versOk_ofList hne hrs
  have hsup := supHi_ofList hf
  obtain ⟨b', e1, e2, e3, e4, e5⟩ := insertDb_ok h.gaps hS
  have hpart : b'.partials = st.book.partials := e5 (fun e he => (h.pin e he).2)
  rw [hsup] at e3 e4
  have hmem : ∀ x, Mem b'.needed x ↔
      (Mem st.book.needed x ∨ (st.book.max.getD 0 + 1 ≤ x ∧ x ≤ supHi rs)) ∧
        ¬ ∃ r ∈ rs, r.1 ≤ x ∧ x ≤ r.2 := by
    intro x; rw [e4 x, mem_ofList hf x]
  have hparts : rs.foldl pmRemoveRange b'.partials =
      st.book.partials.filter (fun e => !coveredBy rs e.1) := by
    rw [foldl_pmRemoveRange, hpart]
  have hmaxd : b'.max.getD 0 = max (st.book.max.getD 0) (supHi rs) := by rw [e3]; rfl
  obtain ⟨hh1, hh2⟩ := head_after_whole h (rs := rs) hne
  refine ⟨⟨{ b' with partials := rs.foldl pmRemoveRange b'.partials },
      { gaps := b'.needed, seqs := st.db.seqs.filter (fun row => !coveredBy rs row.1),
        dbv := dbvAfter st.book.max st.db.dbv rs }⟩, ?_, ?_, e3, hparts, hmem⟩
  · unfold wholeVersions
    simp only [e1]
  · refine ⟨⟨e2, rfl, ?_⟩, ?_, ?_, ?_, ?_, ?_, ?_⟩
    · intro x hx
      show 1 ≤ x ∧ x < b'.max.getD 0
      rw [hmaxd, ← hsup]
      apply insertDb_inside h.gaps.inside hS
      rw [hsup]; exact (hmem x |>.mp hx) |> fun hh => by
        rw [← mem_ofList hf x] at hh; exact hh
    · show KeysFrom 1 (rs.foldl pmRemoveRange b'.partials)
      rw [hparts]; exact keysFrom_filter h.keys _
    · intro e he
      have he' : e ∈ st.book.partials := by
        have : e ∈ st.book.partials.filter (fun e => !coveredBy rs e.1) := by rw [← hparts]; exact he
        exact (List.mem_filter.mp this).1
      have := h.pin e he'
      show e.1 ≤ b'.max.getD 0 ∧ ¬ Mem b'.needed e.1
      rw [hmaxd, hmem]
      refine ⟨by omega, ?_⟩
      rintro ⟨h1 | h1, _⟩
      · exact this.2 h1
      · omega
    · intro e he
      have : e ∈ st.book.partials.filter (fun e => !coveredBy rs e.1) := by rw [← hparts]; exact he
      exact h.pwf e (List.mem_filter.mp this).1
    · show st.db.seqs.filter (fun row => !coveredBy rs row.1) = seqRowsOf (rs.foldl pmRemoveRange b'.partials)
      rw [hparts, h.seqrows]
      exact (seqRowsOf_filter (fun v => !coveredBy rs v) st.book.partials).symm
    · show b'.max.getD 0 = max ((dbvAfter st.book.max st.db.dbv rs).getD 0)
        (supKeys (rs.foldl pmRemoveRange b'.partials))
      rw [hmaxd, hparts]; exact hh1
    · show b'.max = none ↔ dbvAfter st.book.max st.db.dbv rs = none ∧ rs.foldl pmRemoveRange b'.partials = []
      rw [e3, hparts]
      constructor
      · intro hh; cases hh
      · intro hh; exact absurd hh hh2

/-! ### the `contains_all` guard -/

theorem containsVersion_iff (b : Book) (x : Nat) :
    containsVersion b x = true ↔ ¬ Mem b.needed x ∧ x ≤ b.max.getD 0 := by
  unfold containsVersion
  have := contains_iff b.needed x
  unfold RSet.contains at this
  cases hb : b.needed.any (fun r => decide (r.1 ≤ x) && decide (x ≤ r.2)) with
  | true =>
    have hm := this.mp hb
    simp [hm]
  | false =>
    have hm : ¬ Mem b.needed x := fun hh => by rw [this.mpr hh] at hb; cases hb
    simp [hm]

theorem containsAll_true {b : Book} {r : Nat × Nat} {s : Option (Nat × Nat)}
    (h : containsAll b r s = true) : ∀ x, r.1 ≤ x → x ≤ r.2 → contains b x s = true := by
  intro x h1 h2
  unfold containsAll at h
  rw [List.all_eq_true] at h
  apply h x
  rw [List.mem_range'_1]
  omega

theorem contains_version_of {b : Book} {x : Nat} {s : Option (Nat × Nat)} (h : contains b x s = true) :
    containsVersion b x = true := by
  unfold contains at h
  simp only [Bool.and_eq_true] at h
  exact h.1

theorem supHi_filter_le (rs : List (Nat × Nat)) (g : Nat × Nat → Bool) : supHi (rs.filter g) ≤ supHi rs := by
  induction rs with
  | nil => simp [supHi]
  | cons r t ih =>
    simp only [List.filter_cons]
    split
    · simp only [supHi]; omega
    · simp only [supHi]; omega

theorem supHi_le_filter (rs : List (Nat × Nat)) (g : Nat × Nat → Bool) (bound : Nat)
    (h : ∀ r ∈ rs, g r = false → r.2 ≤ bound) : supHi rs ≤ max bound (supHi (rs.filter g)) := by
  induction rs with
  | nil => simp [supHi]
  | cons r t ih =>
    have iht := ih (fun q hq => h q (by simp [hq]))
    simp only [List.filter_cons]
    by_cases hg : g r = true
    · simp only [hg, if_true, supHi]; omega
    · have hg' : g r = false := by simpa using hg
      have := h r (by simp) hg'
      simp only [hg', Bool.false_eq_true, if_false, supHi]; omega

/-- one batch of whole versions, whatever the guard drops -/
theorem opInsert_inv {L : Nat → Nat} {st : Node} (h : Inv L st) {rs : List (Nat × Nat)}
    (hne : rs ≠ []) (hrs : ∀ r ∈ rs, 1 ≤ r.1 ∧ r.1 ≤ r.2) :
    Inv L (step st (.ins rs)) ∧
    (step st (.ins rs)).book.max.getD 0 = max (st.book.max.getD 0) (supHi rs) ∧
    (step st (.ins rs)).book.partials = st.book.partials.filter
      (fun e => !coveredBy (rs.filter (fun r => !containsAll st.book r none)) e.1) ∧
    (∀ x, Mem (step st (.ins rs)).book.needed x ↔
      (Mem st.book.needed x ∨ (st.book.max.getD 0 + 1 ≤ x ∧ x ≤ supHi rs)) ∧
        ¬ ∃ r ∈ rs, r.1 ≤ x ∧ x ≤ r.2) := by
  -- what the guard says about a dropped range
  have hknown : ∀ r ∈ rs, (!containsAll st.book r none) = false →
      ∀ x, r.1 ≤ x → x ≤ r.2 → ¬ Mem st.book.needed x ∧ x ≤ st.book.max.getD 0 := by
    intro r _ hg x h1 h2
    have hc : containsAll st.book r none = true := by simpa using hg
    exact (containsVersion_iff _ _).mp (contains_version_of (containsAll_true hc x h1 h2))
  have hbound : ∀ r ∈ rs, (!containsAll st.book r none) = false → r.2 ≤ st.book.max.getD 0 := by
    intro r hr hg
    exact (hknown r hr hg r.2 (hrs r hr).2 (Nat.le_refl _)).2
  have hs1 := supHi_filter_le rs (fun r => !containsAll st.book r none)
  have hs2 := supHi_le_filter rs (fun r => !containsAll st.book r none) (st.book.max.getD 0) hbound
  by_cases hp : rs.filter (fun r => !containsAll st.book r none) = []
  · -- everything already known: nothing happens
    have hstep : step st (.ins rs) = st := by
      simp only [step, opInsert, hp, List.isEmpty_nil, if_true]
    rw [hstep, hp]
    have hall : ∀ r ∈ rs, (!containsAll st.book r none) = false := by
      intro r hr
      have := List.filter_eq_nil_iff.mp hp r hr
      simpa using this
    simp only [hp, supHi] at hs2
    refine ⟨h, by omega, ?_, ?_⟩
    · simp only [coveredBy, List.any_nil, Bool.not_false]
      exact (List.filter_eq_self.mpr (fun _ _ => rfl)).symm
    intro x
    constructor
    · intro hx
      refine ⟨Or.inl hx, ?_⟩
      rintro ⟨r, hr, hx1, hx2⟩
      exact (hknown r hr (hall r hr) x hx1 hx2).1 hx
    · rintro ⟨h1 | h1, _⟩
      · exact h1
      · omega
  · have hsub : ∀ r ∈ rs.filter (fun r => !containsAll st.book r none), 1 ≤ r.1 ∧ r.1 ≤ r.2 :=
      fun r hr => hrs r (List.mem_filter.mp hr).1
    obtain ⟨st', e1, e2, e3, e4, e5⟩ := wholeVersions_inv h hp hsub
    have hstep : step st (.ins rs) = st' := by
      have hemp : (rs.filter (fun r => !containsAll st.book r none)).isEmpty = false := by
        cases hh : rs.filter (fun r => !containsAll st.book r none) with
        | nil => exact absurd hh hp
        | cons _ _ => rfl
      simp only [step, opInsert, hemp, Bool.false_eq_true, if_false, e1]
    rw [hstep]
    refine ⟨e2, by rw [e3]; simp only [Option.getD_some]; omega, e4, ?_⟩
    intro x
    rw [e5 x]
    constructor
    · rintro ⟨h1, h2⟩
      refine ⟨?_, ?_⟩
      · rcases h1 with h1 | h1
        · exact Or.inl h1
        · exact Or.inr ⟨h1.1, by omega⟩
      · rintro ⟨r, hr, hx1, hx2⟩
        by_cases hg : (!containsAll st.book r none) = true
        · exact h2 ⟨r, List.mem_filter.mpr ⟨hr, hg⟩, hx1, hx2⟩
        · have hg' : (!containsAll st.book r none) = false := by simpa using hg
          have := hknown r hr hg' x hx1 hx2
          rcases h1 with h1 | h1
          · exact this.1 h1
          · omega
    · rintro ⟨h1, h2⟩
      refine ⟨?_, ?_⟩
      · rcases h1 with h1 | h1
        · exact Or.inl h1
        · exact Or.inr ⟨h1.1, by omega⟩
      · rintro ⟨r, hr, hx⟩
        exact h2 ⟨r, (List.mem_filter.mp hr).1, hx⟩

/-! ### opPartial -/

theorem seqsOf_wf {L : Nat → Nat} {st : Node} (h : Inv L st) (v : Nat) : WF (seqsOf st.book.partials v) := by
  unfold seqsOf
  cases hl : st.book.partials.lookup v with
  | none => trivial
  | some p => exact (h.pwf _ (mem_of_lookup hl)).1

theorem insertPartial_eq {b : Book} {v last : Nat} {mg : Nat × Nat}
    (hlast : ∀ e ∈ b.partials, e.1 = v → e.2.last = last) :
    (insertPartial b v ⟨[mg], last⟩).1 =
      { b with partials := pmPut b.partials v ⟨RSet.insert (seqsOf b.partials v) mg, last⟩,
               max := match b.partials.lookup v with | none => optMax b.max v | some _ => b.max } := by
  unfold insertPartial seqsOf
  cases hl : b.partials.lookup v with
  | none => simp [RSet.insert]
  | some got =>
    have := hlast _ (mem_of_lookup hl) rfl
    simp only [RSet.insertAll, List.foldl_cons, List.foldl_nil]
    rw [← this]

theorem opPartial_inv {L : Nat → Nat} {st : Node} (h : Inv L st) {v : Nat} {seqs : Nat × Nat}
    (hv : 1 ≤ v) (hlh : seqs.1 ≤ seqs.2) :
    ∃ b' mg, insertDb st.book st.db.gaps (RSet.ofList [(v, v)]) = .ok (b', b'.needed) ∧
      processIncomplete st.db.seqs v seqs (L v) =
        .ok (seqRowsOf (pmPut st.book.partials v ⟨RSet.insert (seqsOf st.book.partials v) mg, L v⟩),
             ⟨[mg], L v⟩) ∧
      Inv L ⟨(insertPartial b' v ⟨[mg], L v⟩).1,
             { st.db with gaps := b'.needed,
                          seqs := seqRowsOf (pmPut st.book.partials v
                            ⟨RSet.insert (seqsOf st.book.partials v) mg, L v⟩) }⟩ ∧
      (insertPartial b' v ⟨[mg], L v⟩).1.partials =
        pmPut st.book.partials v ⟨RSet.insert (seqsOf st.book.partials v) seqs, L v⟩ ∧
      (insertPartial b' v ⟨[mg], L v⟩).1.max.getD 0 = max (st.book.max.getD 0) v ∧
      (insertPartial b' v ⟨[mg], L v⟩).1.needed = b'.needed ∧
      (∀ x, Mem b'.needed x ↔
        (Mem st.book.needed x ∨ (st.book.max.getD 0 + 1 ≤ x ∧ x ≤ v)) ∧ x ≠ v) := by
  have hrs : ∀ r ∈ [(v, v)], 1 ≤ r.1 ∧ r.1 ≤ r.2 := by
    intro r hr; simp at hr; subst hr; exact ⟨hv, Nat.le_refl _⟩
  have hf : ∀ r ∈ [(v, v)], r.1 ≤ r.2 := fun r hr => (hrs r hr).2
  have hS := versOk_ofList (by simp) hrs
  have hsup : supHi (RSet.ofList [(v, v)]) = v := by rw [supHi_ofList hf]; simp [supHi]
  obtain ⟨b', e1, e2, e3, e4, e5⟩ := insertDb_ok h.gaps hS
  have hpart : b'.partials = st.book.partials := e5 (fun e he => (h.pin e he).2)
  rw [hsup] at e3 e4
  have hmem : ∀ x, Mem b'.needed x ↔
      (Mem st.book.needed x ∨ (st.book.max.getD 0 + 1 ≤ x ∧ x ≤ v)) ∧ x ≠ v := by
    intro x
    rw [e4 x, mem_ofList hf x]
    simp only [List.mem_singleton, exists_eq_left]
    constructor
    · rintro ⟨a, b⟩; exact ⟨a, by omega⟩
    · rintro ⟨a, b⟩; exact ⟨a, by omega⟩
  have hlast : ∀ e ∈ st.book.partials, e.1 = v → e.2.last = L v := by
    intro e he hev; rw [← hev]; exact (h.pwf e he).2.2
  obtain ⟨mg, p1, p2, p3, p4⟩ := processIncomplete_spec h.keys v seqs.1 seqs.2 (L v) hlh (seqsOf_wf h v) hlast
  have hip := insertPartial_eq (b := b') (v := v) (last := L v) (mg := mg) (by rw [hpart]; exact hlast)
  rw [hpart] at hip
  have hmaxd : (insertPartial b' v ⟨[mg], L v⟩).1.max.getD 0 = max (st.book.max.getD 0) v := by
    rw [hip]
    show (match st.book.partials.lookup v with | none => optMax b'.max v | some _ => b'.max).getD 0 = _
    rw [e3]
    cases st.book.partials.lookup v <;> simp [optMax_getD]
  have hmaxs : (insertPartial b' v ⟨[mg], L v⟩).1.max ≠ none := by
    rw [hip]
    show (match st.book.partials.lookup v with | none => optMax b'.max v | some _ => b'.max) ≠ none
    rw [e3]
    cases st.book.partials.lookup v <;> simp [optMax_ne_none]
  have hneeded : (insertPartial b' v ⟨[mg], L v⟩).1.needed = b'.needed := by rw [hip]
  have hparts : (insertPartial b' v ⟨[mg], L v⟩).1.partials =
      pmPut st.book.partials v ⟨RSet.insert (seqsOf st.book.partials v) mg, L v⟩ := by rw [hip]
  refine ⟨b', mg, e1, ?_, ?_, ?_, hmaxd, hneeded, hmem⟩
  · rw [h.seqrows]; exact p1
  · refine ⟨⟨?_, hneeded.symm, ?_⟩, ?_, ?_, ?_, ?_, ?_, ?_⟩
    · show WF (insertPartial b' v ⟨[mg], L v⟩).1.needed; rw [hneeded]; exact e2
    · intro x hx
      show 1 ≤ x ∧ x < (insertPartial b' v ⟨[mg], L v⟩).1.max.getD 0
      rw [hmaxd]
      have hx' : Mem b'.needed x := by rw [← hneeded]; exact hx
      have := (hmem x).mp hx'
      rcases this with ⟨h1 | h1, h2⟩
      · have := h.gaps.inside x h1; omega
      · omega
    · show KeysFrom 1 (insertPartial b' v ⟨[mg], L v⟩).1.partials
      rw [hparts]; exact keysFrom_pmPut h.keys hv _
    · intro e he
      show e.1 ≤ (insertPartial b' v ⟨[mg], L v⟩).1.max.getD 0 ∧ ¬ Mem (insertPartial b' v ⟨[mg], L v⟩).1.needed e.1
      rw [hmaxd, hneeded, hmem]
      have he' : e ∈ pmPut st.book.partials v ⟨RSet.insert (seqsOf st.book.partials v) mg, L v⟩ := by
        rw [← hparts]; exact he
      rcases mem_pmPut he' with rfl | he'
      · exact ⟨by simp; omega, fun hh => hh.2 rfl⟩
      · have := h.pin e he'
        refine ⟨by omega, ?_⟩
        rintro ⟨h1 | h1, _⟩
        · exact this.2 h1
        · omega
    · intro e he
      have he' : e ∈ pmPut st.book.partials v ⟨RSet.insert (seqsOf st.book.partials v) mg, L v⟩ := by
        rw [← hparts]; exact he
      rcases mem_pmPut he' with rfl | he'
      · exact ⟨p3, p4, rfl⟩
      · exact h.pwf e he'
    · show seqRowsOf _ = seqRowsOf (insertPartial b' v ⟨[mg], L v⟩).1.partials
      rw [hparts]
    · show (insertPartial b' v ⟨[mg], L v⟩).1.max.getD 0 =
        max (st.db.dbv.getD 0) (supKeys (insertPartial b' v ⟨[mg], L v⟩).1.partials)
      rw [hmaxd, hparts, supKeys_pmPut, h.head1]; omega
    · show (insertPartial b' v ⟨[mg], L v⟩).1.max = none ↔
        st.db.dbv = none ∧ (insertPartial b' v ⟨[mg], L v⟩).1.partials = []
      rw [hparts]
      constructor
      · intro hh; exact absurd hh hmaxs
      · rintro ⟨_, h2⟩; exact absurd h2 (pmPut_ne_nil _ _ _)
  · rw [hparts, p2]

/-! ### from_conn -/

/-- one row of `__corro_seq_bookkeeping` through `insert_partial`, as `from_conn` does it -/
def rowStep (b : Book) (row : SeqRow) : Book :=
  (insertPartial b row.1 ⟨RSet.ofList [(row.2.1, row.2.2.1)], row.2.2.2⟩).1

theorem ofList_single (r : Nat × Nat) : RSet.ofList [r] = [r] := rfl

theorem rows_tail {P0 : PMap} {k l : Nat} (hP0 : ∀ e ∈ P0, e.1 < k) (N : RSet) (mx : Option Nat) :
    ∀ (s' pre : RSet) (lb : Nat), WFfrom lb (pre ++ s') →
      (tagRows k l s').foldl rowStep ⟨P0 ++ [(k, ⟨pre, l⟩)], N, mx⟩ =
        ⟨P0 ++ [(k, ⟨pre ++ s', l⟩)], N, mx⟩ := by
  intro s'
  induction s' with
  | nil => intro pre lb _; simp [tagRows]
  | cons r t ih =>
    intro pre lb hw
    have hw' : WFfrom lb ((pre ++ [r]) ++ t) := by simpa using hw
    have hpre : WFfrom lb (pre ++ [r]) := by
      -- a prefix of a canonical list is canonical
      clear ih
      induction pre generalizing lb with
      | nil =>
        obtain ⟨a, b⟩ := r
        simp only [List.nil_append, WFfrom] at hw ⊢
        exact ⟨hw.1, hw.2.1, trivial⟩
      | cons p pre' ihp =>
        obtain ⟨c, d⟩ := p
        simp only [List.cons_append, WFfrom] at hw ⊢
        exact ⟨hw.1, hw.2.1, ihp (d + 2) hw.2.2 (by simpa using hw.2.2)⟩
    simp only [tagRows, List.map_cons, List.foldl_cons]
    have hstep : rowStep ⟨P0 ++ [(k, ⟨pre, l⟩)], N, mx⟩ (k, r.1, r.2, l) =
        ⟨P0 ++ [(k, ⟨pre ++ [r], l⟩)], N, mx⟩ := by
      unfold rowStep insertPartial
      simp only [lookup_append_last hP0, ofList_single, RSet.insertAll, List.foldl_cons, List.foldl_nil]
      rw [insert_append_last hpre, pmPut_append_replace hP0]
    rw [hstep]
    have := ih (pre ++ [r]) lb hw'
    simp only [tagRows] at this
    rw [this]
    simp

theorem rows_block {P0 : PMap} {k l : Nat} (hP0 : ∀ e ∈ P0, e.1 < k) (N : RSet) (mx : Option Nat)
    {s : RSet} (hs : WF s) (hne : s ≠ []) :
    (tagRows k l s).foldl rowStep ⟨P0, N, mx⟩ = ⟨P0 ++ [(k, ⟨s, l⟩)], N, optMax mx k⟩ := by
  cases s with
  | nil => exact absurd rfl hne
  | cons r t =>
    simp only [tagRows, List.map_cons, List.foldl_cons]
    have hstep : rowStep ⟨P0, N, mx⟩ (k, r.1, r.2, l) = ⟨P0 ++ [(k, ⟨[r], l⟩)], N, optMax mx k⟩ := by
      unfold rowStep insertPartial
      simp only [lookup_append_new hP0, ofList_single]
      rw [pmPut_append_new hP0]
    rw [hstep]
    have := rows_tail hP0 N (optMax mx k) t [r] 0 (l := l) (show WFfrom 0 ([r] ++ t) from hs)
    simp only [tagRows] at this
    rw [this]
    simp

theorem rows_all (N : RSet) : ∀ (P1 P0 : PMap) (lb : Nat) (mx : Option Nat), KeysFrom lb P1 →
    (∀ e ∈ P0, e.1 < lb) → (∀ e ∈ P1, WF e.2.seqs ∧ e.2.seqs ≠ []) →
    (seqRowsOf P1).foldl rowStep ⟨P0, N, mx⟩ = ⟨P0 ++ P1, N, (P1.map (·.1)).foldl optMax mx⟩ := by
  intro P1
  induction P1 with
  | nil => intro P0 lb mx _ _ _; simp [seqRowsOf]
  | cons e t ih =>
    intro P0 lb mx hk hP0 hw
    obtain ⟨k, q⟩ := e
    simp only [KeysFrom] at hk
    have hq := hw (k, q) (by simp)
    simp only [seqRowsOf, List.foldl_append]
    rw [rows_block (fun e he => by have := hP0 e he; omega) N mx hq.1 hq.2]
    have := ih (P0 ++ [(k, q)]) (k + 1) (optMax mx k) hk.2
      (by
        intro e he
        rcases List.mem_append.mp he with he | he
        · have := hP0 e he; omega
        · simp at he; subst he; simp)
      (fun e he => hw e (by simp [he]))
    rw [this]
    simp

/-- `from_conn` of the durable rows gives back the in-memory view -/
theorem fromConn_eq {L : Nat → Nat} {st : Node} (h : Inv L st) : fromConn st.db = st.book := by
  have hfold : st.db.seqs.foldl rowStep ⟨[], [], st.db.dbv⟩ =
      ⟨st.book.partials, [], (st.book.partials.map (·.1)).foldl optMax st.db.dbv⟩ := by
    rw [h.seqrows]
    have := rows_all [] st.book.partials [] 1 st.db.dbv h.keys (by simp)
      (fun e he => ⟨(h.pwf e he).1, (h.pwf e he).2.1⟩)
    simpa using this
  have hdef : fromConn st.db =
      { (st.db.seqs.foldl rowStep ⟨[], [], st.db.dbv⟩) with
        needed := RSet.insertAll (st.db.seqs.foldl rowStep ⟨[], [], st.db.dbv⟩).needed st.db.gaps } := rfl
  rw [hdef, hfold]
  have hn : RSet.insertAll [] st.db.gaps = st.book.needed := by
    rw [h.gaps.rows]; exact ofList_of_wf h.gaps.wf
  have hmax : (st.book.partials.map (·.1)).foldl optMax st.db.dbv = st.book.max := by
    apply opt_ext
    · rw [foldOptMax_none, h.head2]
      simp
    · rw [foldOptMax_getD, h.head1]
  simp only [hn, hmax]

/-! ### preservation -/

theorem step_inv {L : Nat → Nat} {st : Node} (h : Inv L st) {op : Op} (hop : OpOk L op) :
    Inv L (step st op) := by
  cases op with
  | ins rs => exact (opInsert_inv h hop.1 hop.2).1
  | part v seqs last =>
    obtain ⟨hv, hl⟩ := hop
    subst hl
    simp only [step]
    by_cases hc : containsAll st.book (v, v) (some seqs) = true
    · simp only [opPartial, hc, if_true]; exact h
    · by_cases hw : seqs.1 = 0 ∧ seqs.2 = L v
      · obtain ⟨st', e1, e2, _⟩ := wholeVersions_inv h (rs := [(v, v)]) (by simp)
          (by intro r hr; simp at hr; subst hr; exact ⟨hv, Nat.le_refl _⟩)
        simp only [opPartial, hc, hw, Bool.false_eq_true, if_false, and_self, if_true, e1]; exact e2
      · by_cases hi : seqs.2 < seqs.1
        · simp only [opPartial, hc, hw, hi, Bool.false_eq_true, if_true, if_false]; exact h
        · obtain ⟨b', mg, e1, e2, e3, _⟩ := opPartial_inv h (seqs := seqs) hv (by omega)
          simp only [opPartial, hc, hw, hi, Bool.false_eq_true, if_false, e2, e1]; exact e3
  | reload =>
    simp only [step, opReload]
    rw [fromConn_eq h]
    exact h

theorem run_inv {L : Nat → Nat} : ∀ (ops : List Op) (st : Node), Inv L st → (∀ op ∈ ops, OpOk L op) →
    Inv L (run st ops) := by
  intro ops
  induction ops with
  | nil => intro st h _; exact h
  | cons op t ih =>
    intro st h hops
    simp only [run, List.foldl_cons]
    exact ih _ (step_inv h (hops op (by simp))) (fun o ho => hops o (by simp [ho]))

/-! ### generate_sync -/

theorem sync_lookup {lb : Nat} {P : PMap} (h : KeysFrom lb P) (v : Nat) :
    ((P.filter (fun e => !e.2.isComplete)).map (fun e => (e.1, e.2.seqs.gaps (0, e.2.last)))).lookup v =
      match P.lookup v with
      | some p => if p.isComplete then none else some (p.seqs.gaps (0, p.last))
      | none => none := by
  induction P generalizing lb with
  | nil => rfl
  | cons e t ih =>
    obtain ⟨k, q⟩ := e
    simp only [KeysFrom] at h
    by_cases hk : v = k
    · subst hk
      rw [lookup_cons_eq]
      have hnone := lookup_none_of_keysFrom h.2 (Nat.lt_succ_self v)
      have ih' := ih h.2
      rw [hnone] at ih'
      simp only [List.filter_cons]
      by_cases hc : q.isComplete = true
      · simp only [hc, Bool.not_true, Bool.false_eq_true, if_false, if_true]
        exact ih'
      · have hc' : q.isComplete = false := by simpa using hc
        simp only [hc', Bool.not_false, if_true, List.map_cons, Bool.false_eq_true, if_false]
        simp [List.lookup]
    · rw [lookup_cons_ne hk]
      simp only [List.filter_cons]
      split
      · simp only [List.map_cons]
        have : (v == k) = false := by simp [hk]
        simp only [List.lookup, this]
        exact ih h.2
      · exact ih h.2

end Corro.Book
