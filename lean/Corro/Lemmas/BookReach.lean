/-
Helper lemmas for C02, part 5: the state invariant `Inv`, its preservation by every operation
(`opInsert`, `opPartial`, `opReload`), the `from_conn` round trip and the lookup lemma behind the
partition statement about `generate_sync`.
-/
import Corro.Lemmas.BookSeq

namespace Corro.Book
open Corro Corro.RSet

/-! ### small facts about the partial map -/

/-- largest key (0 if empty) -/
def supKeys : PMap → Nat
  | [] => 0
  | e :: t => max e.1 (supKeys t)

theorem mem_pmPut {m : PMap} {v : Nat} {p : Partial} {e : Nat × Partial} (h : e ∈ pmPut m v p) :
    e = (v, p) ∨ e ∈ m := by
  induction m with
  | nil => simp [pmPut] at h; exact Or.inl h
  | cons a t ih =>
    obtain ⟨k, q⟩ := a
    by_cases h1 : v < k
    · simp only [pmPut, h1, if_true] at h
      rcases List.mem_cons.mp h with h | h
      · exact Or.inl h
      · exact Or.inr h
    · by_cases h2 : v = k
      · subst h2
        simp only [pmPut, h1, if_false, if_true] at h
        rcases List.mem_cons.mp h with h | h
        · exact Or.inl h
        · exact Or.inr (List.mem_cons_of_mem _ h)
      · simp only [pmPut, h1, h2, if_false] at h
        rcases List.mem_cons.mp h with h | h
        · exact Or.inr (by simp [h])
        · rcases ih h with h | h
          · exact Or.inl h
          · exact Or.inr (List.mem_cons_of_mem _ h)

theorem pmPut_ne_nil (m : PMap) (v : Nat) (p : Partial) : pmPut m v p ≠ [] := by
  cases m with
  | nil => simp [pmPut]
  | cons a t =>
    obtain ⟨k, q⟩ := a
    unfold pmPut
    split
    · simp
    · split <;> simp

theorem supKeys_pmPut (m : PMap) (v : Nat) (p : Partial) : supKeys (pmPut m v p) = max v (supKeys m) := by
  induction m with
  | nil => simp [pmPut, supKeys]
  | cons a t ih =>
    obtain ⟨k, q⟩ := a
    unfold pmPut
    split
    · simp [supKeys]
    · split
      · rename_i hk; subst hk; simp only [supKeys]; omega
      · simp only [supKeys, ih]; omega

theorem keysFrom_pmPut {lb : Nat} {m : PMap} (h : KeysFrom lb m) {v : Nat} (hv : lb ≤ v) (p : Partial) :
    KeysFrom lb (pmPut m v p) := by
  induction m generalizing lb with
  | nil => simp [pmPut, KeysFrom]; exact hv
  | cons a t ih =>
    obtain ⟨k, q⟩ := a
    simp only [KeysFrom] at h
    unfold pmPut
    split
    · simp only [KeysFrom]; exact ⟨hv, by omega, h.2⟩
    · split
      · simp only [KeysFrom]; exact h
      · simp only [KeysFrom]; exact ⟨h.1, ih h.2 (by omega)⟩

theorem pmPut_append_new {P0 : PMap} {k : Nat} (h : ∀ e ∈ P0, e.1 < k) (p : Partial) :
    pmPut P0 k p = P0 ++ [(k, p)] := by
  induction P0 with
  | nil => rfl
  | cons a t ih =>
    obtain ⟨c, q⟩ := a
    have hc := h (c, q) (by simp)
    simp only at hc
    have h1 : ¬ k < c := by omega
    have h2 : ¬ k = c := by omega
    simp only [pmPut, h1, h2, if_false, List.cons_append]
    rw [ih (fun e he => h e (by simp [he]))]

theorem pmPut_append_replace {P0 : PMap} {k : Nat} (h : ∀ e ∈ P0, e.1 < k) (q p : Partial) :
    pmPut (P0 ++ [(k, q)]) k p = P0 ++ [(k, p)] := by
  induction P0 with
  | nil => simp [pmPut]
  | cons a t ih =>
    obtain ⟨c, r⟩ := a
    have hc := h (c, r) (by simp)
    simp only at hc
    have h1 : ¬ k < c := by omega
    have h2 : ¬ k = c := by omega
    simp only [List.cons_append, pmPut, h1, h2, if_false]
    rw [ih (fun e he => h e (by simp [he]))]

theorem lookup_append_new {P0 : PMap} {k : Nat} (h : ∀ e ∈ P0, e.1 < k) : P0.lookup k = none := by
  induction P0 with
  | nil => rfl
  | cons a t ih =>
    obtain ⟨c, r⟩ := a
    have hc := h (c, r) (by simp)
    simp only at hc
    rw [lookup_cons_ne (by omega)]
    exact ih (fun e he => h e (by simp [he]))

theorem lookup_append_last {P0 : PMap} {k : Nat} (h : ∀ e ∈ P0, e.1 < k) (q : Partial) :
    (P0 ++ [(k, q)]).lookup k = some q := by
  induction P0 with
  | nil => exact lookup_cons_eq _ _ _
  | cons a t ih =>
    obtain ⟨c, r⟩ := a
    have hc := h (c, r) (by simp)
    simp only at hc
    rw [List.cons_append, lookup_cons_ne (by omega)]
    exact ih (fun e he => h e (by simp [he]))

theorem insert_append_last {lb : Nat} {pre : RSet} {r : Nat × Nat} (h : WFfrom lb (pre ++ [r])) :
    RSet.insert pre r = pre ++ [r] := by
  induction pre generalizing lb with
  | nil => rfl
  | cons p t ih =>
    obtain ⟨c, d⟩ := p
    obtain ⟨a, b⟩ := r
    have ht := wfFrom_tail (t := t ++ [(a, b)]) h
    have := wfFrom_forall ht (a, b) (by simp)
    simp only at this
    simp only [List.cons_append, WFfrom] at h
    have h1 : ¬ b + 1 < c := by omega
    have h2 : d + 1 < a := by omega
    simp only [List.cons_append, RSet.insert, h1, h2, if_false, if_true]
    rw [ih ht]

/-! ### Option bookkeeping of the head -/

theorem opt_ext {a b : Option Nat} (h1 : a = none ↔ b = none) (h2 : a.getD 0 = b.getD 0) : a = b := by
  cases a <;> cases b <;> simp_all

theorem optMax_ne_none (m : Option Nat) (v : Nat) : optMax m v ≠ none := by
  cases m <;> simp [optMax]

theorem foldOptMax_none : ∀ (ks : List Nat) (d : Option Nat),
    (ks.foldl optMax d = none ↔ d = none ∧ ks = []) := by
  intro ks
  induction ks with
  | nil => intro d; simp
  | cons k t ih =>
    intro d
    simp only [List.foldl_cons, ih]
    have := optMax_ne_none d k
    simp [this]

theorem foldOptMax_getD : ∀ (m : PMap) (d : Option Nat),
    ((m.map (·.1)).foldl optMax d).getD 0 = max (d.getD 0) (supKeys m) := by
  intro m
  induction m with
  | nil => intro d; simp [supKeys]
  | cons e t ih =>
    intro d
    simp only [List.map_cons, List.foldl_cons, ih, supKeys, optMax_getD, Option.getD_some]
    omega

/-- `crsql_db_versions` after the `process_empty_version` calls of one batch -/
def dbvAfter (max0 dbv : Option Nat) (rs : List (Nat × Nat)) : Option Nat :=
  rs.foldl (fun d r => if optLt max0 r.2 then setDbVersion d r.2 else d) dbv

theorem dbvAfter_none (dbv : Option Nat) (rs : List (Nat × Nat)) (hne : rs ≠ []) :
    dbvAfter none dbv rs = some (max (dbv.getD 0) (supHi rs)) := by
  unfold dbvAfter
  simp only [optLt, if_true, setDbVersion]
  exact optMax_fold rs dbv hne

theorem dbvAfter_cons (m0 : Nat) (dbv : Option Nat) (r : Nat × Nat) (t : List (Nat × Nat)) :
    dbvAfter (some m0) dbv (r :: t) = dbvAfter (some m0) (if m0 < r.2 then optMax dbv r.2 else dbv) t := by
  simp [dbvAfter, optLt, setDbVersion]

/-- largest end among the ranges that end above `m0` (0 if none) -/
def supIf (m0 : Nat) : List (Nat × Nat) → Nat
  | [] => 0
  | r :: t => max (if m0 < r.2 then r.2 else 0) (supIf m0 t)

theorem dbvAfter_getD (m0 : Nat) : ∀ (rs : List (Nat × Nat)) (dbv : Option Nat),
    (dbvAfter (some m0) dbv rs).getD 0 = max (dbv.getD 0) (supIf m0 rs) := by
  intro rs
  induction rs with
  | nil => intro dbv; simp [dbvAfter, supIf]
  | cons r t ih =>
    intro dbv
    rw [dbvAfter_cons, ih]
    by_cases hr : m0 < r.2
    · simp only [hr, if_true, supIf, optMax_getD, Option.getD_some]; omega
    · simp only [hr, if_false, supIf]; omega

theorem dbvAfter_eq_none (m0 : Nat) : ∀ (rs : List (Nat × Nat)) (dbv : Option Nat),
    (dbvAfter (some m0) dbv rs = none ↔ dbv = none ∧ supIf m0 rs = 0) := by
  intro rs
  induction rs with
  | nil => intro dbv; simp [dbvAfter, supIf]
  | cons r t ih =>
    intro dbv
    rw [dbvAfter_cons, ih]
    by_cases hr : m0 < r.2
    · simp only [hr, if_true, supIf]
      have := optMax_ne_none dbv r.2
      constructor
      · rintro ⟨h1, _⟩; exact absurd h1 this
      · rintro ⟨_, h2⟩; omega
    · simp only [hr, if_false, supIf]
      constructor
      · rintro ⟨h1, h2⟩; exact ⟨h1, by omega⟩
      · rintro ⟨h1, h2⟩; exact ⟨h1, by omega⟩

theorem supIf_le (m0 : Nat) (rs : List (Nat × Nat)) (h : supHi rs ≤ m0) : supIf m0 rs = 0 := by
  induction rs with
  | nil => rfl
  | cons r t ih =>
    simp only [supHi] at h
    have hr : ¬ m0 < r.2 := by omega
    simp only [supIf, hr, if_false, ih (by omega)]; omega

theorem supIf_gt (m0 : Nat) (rs : List (Nat × Nat)) (h : m0 < supHi rs) : supIf m0 rs = supHi rs := by
  induction rs with
  | nil => simp [supHi] at h
  | cons r t ih =>
    simp only [supHi] at h ⊢
    simp only [supIf]
    by_cases hr : m0 < r.2
    · by_cases ht : m0 < supHi t
      · simp only [hr, if_true, ih ht]
      · simp only [hr, if_true, supIf_le m0 t (by omega)]; omega
    · have ht : m0 < supHi t := by omega
      simp only [hr, if_false, ih ht]; omega

/-! ### the state invariant -/

/-- `L v` is the `last_seq` the origin gave version `v` (every chunk of `v` carries it). -/
structure Inv (L : Nat → Nat) (st : Node) : Prop where
  /-- `needed` canonical, inside `1..head`, mirrored row by row in `__corro_bookkeeping_gaps` -/
  gaps : GapsOk st.book st.db.gaps
  /-- partial versions: distinct, ≥ 1 -/
  keys : KeysFrom 1 st.book.partials
  /-- a partial version is at most the head and is not needed -/
  pin : ∀ e ∈ st.book.partials, e.1 ≤ st.book.max.getD 0 ∧ ¬ Mem st.book.needed e.1
  /-- received seq ranges canonical, non-empty; `last_seq` is the origin's -/
  pwf : ∀ e ∈ st.book.partials, WF e.2.seqs ∧ e.2.seqs ≠ [] ∧ e.2.last = L e.1
  /-- `__corro_seq_bookkeeping` mirrors the partials row by row -/
  seqrows : st.db.seqs = seqRowsOf st.book.partials
  /-- the head is the larger of the `crsql_db_versions` row and the partial versions -/
  head1 : st.book.max.getD 0 = max (st.db.dbv.getD 0) (supKeys st.book.partials)
  head2 : st.book.max = none ↔ (st.db.dbv = none ∧ st.book.partials = [])

/-- operations inside the property's quantifier -/
def OpOk (L : Nat → Nat) : Op → Prop
  | .ins rs => rs ≠ [] ∧ ∀ r ∈ rs, 1 ≤ r.1 ∧ r.1 ≤ r.2
  | .part v _ last => 1 ≤ v ∧ last = L v
  | .reload => True

theorem inv_empty (L : Nat → Nat) : Inv L Node.empty := by
  refine ⟨⟨trivial, rfl, ?_⟩, trivial, ?_, ?_, rfl, rfl, ?_⟩
  · intro x hx; exact absurd hx (mem_nil x)
  · intro e he; cases he
  · intro e he; cases he
  · simp [Node.empty, Book.empty, Durable.empty]

theorem supKeys_le {m : PMap} {e : Nat × Partial} (h : e ∈ m) : e.1 ≤ supKeys m := by
  induction m with
  | nil => cases h
  | cons a t ih =>
    simp only [supKeys]
    rcases List.mem_cons.mp h with rfl | h
    · omega
    · have := ih h; omega

/-! ### opInsert -/

theorem opInsert_inv {L : Nat → Nat} {st : Node} (h : Inv L st) {rs : List (Nat × Nat)}
    (hne : rs ≠ []) (hrs : ∀ r ∈ rs, 1 ≤ r.1 ∧ r.1 ≤ r.2) :
    ∃ st', opInsert st rs = .ok st' ∧ Inv L st' ∧
      st'.book.max = some (max (st.book.max.getD 0) (supHi rs)) ∧
      st'.book.partials = st.book.partials ∧
      (∀ x, Mem st'.book.needed x ↔
        (Mem st.book.needed x ∨ (st.book.max.getD 0 + 1 ≤ x ∧ x ≤ supHi rs)) ∧
          ¬ ∃ r ∈ rs, r.1 ≤ x ∧ x ≤ r.2) := by
  have hf : ∀ r ∈ rs, r.1 ≤ r.2 := fun r hr => (hrs r hr).2
  have hS := versOk_ofList hne hrs
  have hsup := supHi_ofList hf
  obtain ⟨b', e1, e2, e3, e4, e5⟩ := insertDb_ok h.gaps hS
  have hpart : b'.partials = st.book.partials := e5 (fun e he => (h.pin e he).2)
  rw [hsup] at e3 e4
  have hmem : ∀ x, Mem b'.needed x ↔
      (Mem st.book.needed x ∨ (st.book.max.getD 0 + 1 ≤ x ∧ x ≤ supHi rs)) ∧
        ¬ ∃ r ∈ rs, r.1 ≤ x ∧ x ≤ r.2 := by
    intro x; rw [e4 x, mem_ofList hf x]
  refine ⟨⟨b', { st.db with gaps := b'.needed, dbv := dbvAfter st.book.max st.db.dbv rs }⟩, ?_, ?_, e3,
    hpart, hmem⟩
  · unfold opInsert
    simp only [e1]
    rfl
  · have hmaxd : b'.max.getD 0 = max (st.book.max.getD 0) (supHi rs) := by rw [e3]; rfl
    refine ⟨⟨e2, rfl, ?_⟩, ?_, ?_, ?_, ?_, ?_, ?_⟩
    · intro x hx
      show 1 ≤ x ∧ x < b'.max.getD 0
      rw [hmaxd, ← hsup]
      apply insertDb_inside h.gaps.inside hS
      rw [hsup]; exact (e4 x |>.mp (by rw [← hsup] at e4; exact hx))
    · show KeysFrom 1 b'.partials; rw [hpart]; exact h.keys
    · intro e he
      have he' : e ∈ st.book.partials := by rw [← hpart]; exact he
      have := h.pin e he'
      show e.1 ≤ b'.max.getD 0 ∧ ¬ Mem b'.needed e.1
      rw [hmaxd, hmem]
      refine ⟨by omega, ?_⟩
      rintro ⟨h1 | h1, _⟩
      · exact this.2 h1
      · omega
    · intro e he
      exact h.pwf e (by rw [← hpart]; exact he)
    · show st.db.seqs = seqRowsOf b'.partials; rw [hpart]; exact h.seqrows
    · show b'.max.getD 0 = max ((dbvAfter st.book.max st.db.dbv rs).getD 0) (supKeys b'.partials)
      rw [hmaxd, hpart]
      have h1 := h.head1
      cases hm : st.book.max with
      | none =>
        have := h.head2.mp hm
        rw [dbvAfter_none _ _ hne, this.1, this.2]
        simp [supKeys]
      | some m0 =>
        rw [hm] at h1
        simp only [Option.getD_some] at h1 ⊢
        rw [dbvAfter_getD]
        by_cases hle : supHi rs ≤ m0
        · rw [supIf_le _ _ hle]; omega
        · rw [supIf_gt _ _ (by omega)]; omega
    · show b'.max = none ↔ _
      rw [e3]
      constructor
      · intro hh; cases hh
      · rintro ⟨h1, h2⟩
        exfalso
        cases hm : st.book.max with
        | none => rw [hm, dbvAfter_none _ _ hne] at h1; cases h1
        | some m0 =>
          rw [hm] at h1
          have h1' := (dbvAfter_eq_none m0 rs st.db.dbv).mp h1
          have := h.head2.mpr ⟨h1'.1, by rw [← hpart]; exact h2⟩
          rw [hm] at this; cases this

/-! ### opPartial -/

theorem seqsOf_wf {L : Nat → Nat} {st : Node} (h : Inv L st) (v : Nat) : WF (seqsOf st.book.partials v) := by
  unfold seqsOf
  cases hl : st.book.partials.lookup v with
  | none => trivial
  | some p => exact (h.pwf _ (mem_of_lookup hl)).1

theorem insertPartial_eq {b : Book} {v last : Nat} {mg : Nat × Nat}
    (hlast : ∀ e ∈ b.partials, e.1 = v → e.2.last = last) :
    (insertPartial b v ⟨[mg], last⟩).1 =
      { b with partials := pmPut b.partials v ⟨RSet.insert (seqsOf b.partials v) mg, last⟩,
               max := match b.partials.lookup v with | none => optMax b.max v | some _ => b.max } := by
  unfold insertPartial seqsOf
  cases hl : b.partials.lookup v with
  | none => simp [RSet.insert]
  | some got =>
    have := hlast _ (mem_of_lookup hl) rfl
    simp only [RSet.insertAll, List.foldl_cons, List.foldl_nil]
    rw [← this]

theorem opPartial_inv {L : Nat → Nat} {st : Node} (h : Inv L st) {v : Nat} {seqs : Nat × Nat}
    (hv : 1 ≤ v) (hlh : seqs.1 ≤ seqs.2) :
    ∃ b' mg, insertDb st.book st.db.gaps (RSet.ofList [(v, v)]) = .ok (b', b'.needed) ∧
      processIncomplete st.db.seqs v seqs (L v) =
        .ok (seqRowsOf (pmPut st.book.partials v ⟨RSet.insert (seqsOf st.book.partials v) mg, L v⟩),
             ⟨[mg], L v⟩) ∧
      Inv L ⟨(insertPartial b' v ⟨[mg], L v⟩).1,
             { st.db with gaps := b'.needed,
                          seqs := seqRowsOf (pmPut st.book.partials v
                            ⟨RSet.insert (seqsOf st.book.partials v) mg, L v⟩) }⟩ ∧
      (insertPartial b' v ⟨[mg], L v⟩).1.partials =
        pmPut st.book.partials v ⟨RSet.insert (seqsOf st.book.partials v) seqs, L v⟩ ∧
      (insertPartial b' v ⟨[mg], L v⟩).1.max.getD 0 = max (st.book.max.getD 0) v ∧
      (insertPartial b' v ⟨[mg], L v⟩).1.needed = b'.needed ∧
      (∀ x, Mem b'.needed x ↔
        (Mem st.book.needed x ∨ (st.book.max.getD 0 + 1 ≤ x ∧ x ≤ v)) ∧ x ≠ v) := by
  have hrs : ∀ r ∈ [(v, v)], 1 ≤ r.1 ∧ r.1 ≤ r.2 := by
    intro r hr; simp at hr; subst hr; exact ⟨hv, Nat.le_refl _⟩
  have hf : ∀ r ∈ [(v, v)], r.1 ≤ r.2 := fun r hr => (hrs r hr).2
  have hS := versOk_ofList (by simp) hrs
  have hsup : supHi (RSet.ofList [(v, v)]) = v := by rw [supHi_ofList hf]; simp [supHi]
  obtain ⟨b', e1, e2, e3, e4, e5⟩ := insertDb_ok h.gaps hS
  have hpart : b'.partials = st.book.partials := e5 (fun e he => (h.pin e he).2)
  rw [hsup] at e3 e4
  have hmem : ∀ x, Mem b'.needed x ↔
      (Mem st.book.needed x ∨ (st.book.max.getD 0 + 1 ≤ x ∧ x ≤ v)) ∧ x ≠ v := by
    intro x
    rw [e4 x, mem_ofList hf x]
    simp only [List.mem_singleton, exists_eq_left]
    constructor
    · rintro ⟨a, b⟩; exact ⟨a, by omega⟩
    · rintro ⟨a, b⟩; exact ⟨a, by omega⟩
  have hlast : ∀ e ∈ st.book.partials, e.1 = v → e.2.last = L v := by
    intro e he hev; rw [← hev]; exact (h.pwf e he).2.2
  obtain ⟨mg, p1, p2, p3, p4⟩ := processIncomplete_spec h.keys v seqs.1 seqs.2 (L v) hlh (seqsOf_wf h v) hlast
  have hip := insertPartial_eq (b := b') (v := v) (last := L v) (mg := mg) (by rw [hpart]; exact hlast)
  rw [hpart] at hip
  have hmaxd : (insertPartial b' v ⟨[mg], L v⟩).1.max.getD 0 = max (st.book.max.getD 0) v := by
    rw [hip]
    show (match st.book.partials.lookup v with | none => optMax b'.max v | some _ => b'.max).getD 0 = _
    rw [e3]
    cases st.book.partials.lookup v <;> simp [optMax_getD]
  have hmaxs : (insertPartial b' v ⟨[mg], L v⟩).1.max ≠ none := by
    rw [hip]
    show (match st.book.partials.lookup v with | none => optMax b'.max v | some _ => b'.max) ≠ none
    rw [e3]
    cases st.book.partials.lookup v <;> simp [optMax_ne_none]
  have hneeded : (insertPartial b' v ⟨[mg], L v⟩).1.needed = b'.needed := by rw [hip]
  have hparts : (insertPartial b' v ⟨[mg], L v⟩).1.partials =
      pmPut st.book.partials v ⟨RSet.insert (seqsOf st.book.partials v) mg, L v⟩ := by rw [hip]
  refine ⟨b', mg, e1, ?_, ?_, ?_, hmaxd, hneeded, hmem⟩
  · rw [h.seqrows]; exact p1
  · refine ⟨⟨?_, hneeded.symm, ?_⟩, ?_, ?_, ?_, ?_, ?_, ?_⟩
    · show WF (insertPartial b' v ⟨[mg], L v⟩).1.needed; rw [hneeded]; exact e2
    · intro x hx
      show 1 ≤ x ∧ x < (insertPartial b' v ⟨[mg], L v⟩).1.max.getD 0
      rw [hmaxd]
      have hx' : Mem b'.needed x := by rw [← hneeded]; exact hx
      have := (hmem x).mp hx'
      rcases this with ⟨h1 | h1, h2⟩
      · have := h.gaps.inside x h1; omega
      · omega
    · show KeysFrom 1 (insertPartial b' v ⟨[mg], L v⟩).1.partials
      rw [hparts]; exact keysFrom_pmPut h.keys hv _
    · intro e he
      show e.1 ≤ (insertPartial b' v ⟨[mg], L v⟩).1.max.getD 0 ∧ ¬ Mem (insertPartial b' v ⟨[mg], L v⟩).1.needed e.1
      rw [hmaxd, hneeded, hmem]
      have he' : e ∈ pmPut st.book.partials v ⟨RSet.insert (seqsOf st.book.partials v) mg, L v⟩ := by
        rw [← hparts]; exact he
      rcases mem_pmPut he' with rfl | he'
      · exact ⟨by simp; omega, fun hh => hh.2 rfl⟩
      · have := h.pin e he'
        refine ⟨by omega, ?_⟩
        rintro ⟨h1 | h1, _⟩
        · exact this.2 h1
        · omega
    · intro e he
      have he' : e ∈ pmPut st.book.partials v ⟨RSet.insert (seqsOf st.book.partials v) mg, L v⟩ := by
        rw [← hparts]; exact he
      rcases mem_pmPut he' with rfl | he'
      · exact ⟨p3, p4, rfl⟩
      · exact h.pwf e he'
    · show seqRowsOf _ = seqRowsOf (insertPartial b' v ⟨[mg], L v⟩).1.partials
      rw [hparts]
    · show (insertPartial b' v ⟨[mg], L v⟩).1.max.getD 0 =
        max (st.db.dbv.getD 0) (supKeys (insertPartial b' v ⟨[mg], L v⟩).1.partials)
      rw [hmaxd, hparts, supKeys_pmPut, h.head1]; omega
    · show (insertPartial b' v ⟨[mg], L v⟩).1.max = none ↔
        st.db.dbv = none ∧ (insertPartial b' v ⟨[mg], L v⟩).1.partials = []
      rw [hparts]
      constructor
      · intro hh; exact absurd hh hmaxs
      · rintro ⟨_, h2⟩; exact absurd h2 (pmPut_ne_nil _ _ _)
  · rw [hparts, p2]

/-! ### from_conn -/

/-- one row of `__corro_seq_bookkeeping` through `insert_partial`, as `from_conn` does it -/
def rowStep (b : Book) (row : SeqRow) : Book :=
  (insertPartial b row.1 ⟨RSet.ofList [(row.2.1, row.2.2.1)], row.2.2.2⟩).1

theorem ofList_single (r : Nat × Nat) : RSet.ofList [r] = [r] := rfl

theorem rows_tail {P0 : PMap} {k l : Nat} (hP0 : ∀ e ∈ P0, e.1 < k) (N : RSet) (mx : Option Nat) :
    ∀ (s' pre : RSet) (lb : Nat), WFfrom lb (pre ++ s') →
      (tagRows k l s').foldl rowStep ⟨P0 ++ [(k, ⟨pre, l⟩)], N, mx⟩ =
        ⟨P0 ++ [(k, ⟨pre ++ s', l⟩)], N, mx⟩ := by
  intro s'
  induction s' with
  | nil => intro pre lb _; simp [tagRows]
  | cons r t ih =>
    intro pre lb hw
    have hw' : WFfrom lb ((pre ++ [r]) ++ t) := by simpa using hw
    have hpre : WFfrom lb (pre ++ [r]) := by
      -- a prefix of a canonical list is canonical
      clear ih
      induction pre generalizing lb with
      | nil =>
        obtain ⟨a, b⟩ := r
        simp only [List.nil_append, WFfrom] at hw ⊢
        exact ⟨hw.1, hw.2.1, trivial⟩
      | cons p pre' ihp =>
        obtain ⟨c, d⟩ := p
        simp only [List.cons_append, WFfrom] at hw ⊢
        exact ⟨hw.1, hw.2.1, ihp (d + 2) hw.2.2 (by simpa using hw.2.2)⟩
    simp only [tagRows, List.map_cons, List.foldl_cons]
    have hstep : rowStep ⟨P0 ++ [(k, ⟨pre, l⟩)], N, mx⟩ (k, r.1, r.2, l) =
        ⟨P0 ++ [(k, ⟨pre ++ [r], l⟩)], N, mx⟩ := by
      unfold rowStep insertPartial
      simp only [lookup_append_last hP0, ofList_single, RSet.insertAll, List.foldl_cons, List.foldl_nil]
      rw [insert_append_last hpre, pmPut_append_replace hP0]
    rw [hstep]
    have := ih (pre ++ [r]) lb hw'
    simp only [tagRows] at this
    rw [this]
    simp

theorem rows_block {P0 : PMap} {k l : Nat} (hP0 : ∀ e ∈ P0, e.1 < k) (N : RSet) (mx : Option Nat)
    {s : RSet} (hs : WF s) (hne : s ≠ []) :
    (tagRows k l s).foldl rowStep ⟨P0, N, mx⟩ = ⟨P0 ++ [(k, ⟨s, l⟩)], N, optMax mx k⟩ := by
  cases s with
  | nil => exact absurd rfl hne
  | cons r t =>
    simp only [tagRows, List.map_cons, List.foldl_cons]
    have hstep : rowStep ⟨P0, N, mx⟩ (k, r.1, r.2, l) = ⟨P0 ++ [(k, ⟨[r], l⟩)], N, optMax mx k⟩ := by
      unfold rowStep insertPartial
      simp only [lookup_append_new hP0, ofList_single]
      rw [pmPut_append_new hP0]
    rw [hstep]
    have := rows_tail hP0 N (optMax mx k) t [r] 0 (l := l) (show WFfrom 0 ([r] ++ t) from hs)
    simp only [tagRows] at this
    rw [this]
    simp

theorem rows_all (N : RSet) : ∀ (P1 P0 : PMap) (lb : Nat) (mx : Option Nat), KeysFrom lb P1 →
    (∀ e ∈ P0, e.1 < lb) → (∀ e ∈ P1, WF e.2.seqs ∧ e.2.seqs ≠ []) →
    (seqRowsOf P1).foldl rowStep ⟨P0, N, mx⟩ = ⟨P0 ++ P1, N, (P1.map (·.1)).foldl optMax mx⟩ := by
  intro P1
  induction P1 with
  | nil => intro P0 lb mx _ _ _; simp [seqRowsOf]
  | cons e t ih =>
    intro P0 lb mx hk hP0 hw
    obtain ⟨k, q⟩ := e
    simp only [KeysFrom] at hk
    have hq := hw (k, q) (by simp)
    simp only [seqRowsOf, List.foldl_append]
    rw [rows_block (fun e he => by have := hP0 e he; omega) N mx hq.1 hq.2]
    have := ih (P0 ++ [(k, q)]) (k + 1) (optMax mx k) hk.2
      (by
        intro e he
        rcases List.mem_append.mp he with he | he
        · have := hP0 e he; omega
        · simp at he; subst he; simp)
      (fun e he => hw e (by simp [he]))
    rw [this]
    simp

/-- `from_conn` of the durable rows gives back the in-memory view -/
theorem fromConn_eq {L : Nat → Nat} {st : Node} (h : Inv L st) : fromConn st.db = st.book := by
  have hfold : st.db.seqs.foldl rowStep ⟨[], [], st.db.dbv⟩ =
      ⟨st.book.partials, [], (st.book.partials.map (·.1)).foldl optMax st.db.dbv⟩ := by
    rw [h.seqrows]
    have := rows_all [] st.book.partials [] 1 st.db.dbv h.keys (by simp)
      (fun e he => ⟨(h.pwf e he).1, (h.pwf e he).2.1⟩)
    simpa using this
  have hdef : fromConn st.db =
      { (st.db.seqs.foldl rowStep ⟨[], [], st.db.dbv⟩) with
        needed := RSet.insertAll (st.db.seqs.foldl rowStep ⟨[], [], st.db.dbv⟩).needed st.db.gaps } := rfl
  rw [hdef, hfold]
  have hn : RSet.insertAll [] st.db.gaps = st.book.needed := by
    rw [h.gaps.rows]; exact ofList_of_wf h.gaps.wf
  have hmax : (st.book.partials.map (·.1)).foldl optMax st.db.dbv = st.book.max := by
    apply opt_ext
    · rw [foldOptMax_none, h.head2]
      simp
    · rw [foldOptMax_getD, h.head1]
  simp only [hn, hmax]

/-! ### preservation -/

theorem step_inv {L : Nat → Nat} {st : Node} (h : Inv L st) {op : Op} (hop : OpOk L op) :
    Inv L (step st op) := by
  cases op with
  | ins rs =>
    obtain ⟨st', e1, e2, _⟩ := opInsert_inv h hop.1 hop.2
    simp only [step, e1]; exact e2
  | part v seqs last =>
    obtain ⟨hv, hl⟩ := hop
    subst hl
    simp only [step]
    by_cases hc : containsAll st.book (v, v) (some seqs) = true
    · simp only [opPartial, hc, if_true]; exact h
    · by_cases hi : seqs.2 < seqs.1
      · simp only [opPartial, hc, hi, if_true]; exact h
      · obtain ⟨b', mg, e1, e2, e3, _⟩ := opPartial_inv h (seqs := seqs) hv (by omega)
        simp only [opPartial, hc, hi, if_false, e2, e1]; exact e3
  | reload =>
    simp only [step, opReload]
    rw [fromConn_eq h]
    exact h

theorem run_inv {L : Nat → Nat} : ∀ (ops : List Op) (st : Node), Inv L st → (∀ op ∈ ops, OpOk L op) →
    Inv L (run st ops) := by
  intro ops
  induction ops with
  | nil => intro st h _; exact h
  | cons op t ih =>
    intro st h hops
    simp only [run, List.foldl_cons]
    exact ih _ (step_inv h (hops op (by simp))) (fun o ho => hops o (by simp [ho]))

/-! ### generate_sync -/

theorem sync_lookup {lb : Nat} {P : PMap} (h : KeysFrom lb P) (v : Nat) :
    ((P.filter (fun e => !e.2.isComplete)).map (fun e => (e.1, e.2.seqs.gaps (0, e.2.last)))).lookup v =
      match P.lookup v with
      | some p => if p.isComplete then none else some (p.seqs.gaps (0, p.last))
      | none => none := by
  induction P generalizing lb with
  | nil => rfl
  | cons e t ih =>
    obtain ⟨k, q⟩ := e
    simp only [KeysFrom] at h
    by_cases hk : v = k
    · subst hk
      rw [lookup_cons_eq]
      have hnone := lookup_none_of_keysFrom h.2 (Nat.lt_succ_self v)
      have ih' := ih h.2
      rw [hnone] at ih'
      simp only [List.filter_cons]
      by_cases hc : q.isComplete = true
      · simp only [hc, Bool.not_true, Bool.false_eq_true, if_false, if_true]
        exact ih'
      · have hc' : q.isComplete = false := by simpa using hc
        simp only [hc', Bool.not_false, if_true, List.map_cons, Bool.false_eq_true, if_false]
        simp [List.lookup]
    · rw [lookup_cons_ne hk]
      simp only [List.filter_cons]
      split
      · simp only [List.map_cons]
        have : (v == k) = false := by simp [hk]
        simp only [List.lookup, this]
        exact ih h.2
      · exact ih h.2

end Corro.Book
