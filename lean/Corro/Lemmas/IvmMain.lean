/-
Helper lemmas for C11, part 4: `step` = a fold of slice replacements; the general correctness
statement for one batch from which the theorems of `Corro/Props/C11.lean` are read off.
-/
import Corro.Lemmas.IvmStep

namespace Corro.Ivm

/-- one table of the candidate map -/
def stepFn (q : Query) (db : Db) (s : State) (c : Nat × List Key) : State :=
  match posOf c.1 q.srcs with
  | some i => pass q db s i c.2
  | none => s

theorem step_eq (q : Query) (db : Db) (st : State) (cands : List (Nat × List Key)) :
    step q db st cands =
      { cands.foldl (stepFn q db) st with
        lastRowid := ((cands.foldl (stepFn q db) st).events.drop st.events.length).foldl (fun m e => max m e.rowid) st.lastRowid } := rfl

theorem touchedOut_single {c : Nat × List Key} {srcs : List Src} {x : Out} :
    TouchedOut [c] srcs x ↔ ∃ i, posOf c.1 srcs = some i ∧ sliceOut i c.2 x := by
  simp [TouchedOut]

theorem fold_spec {q : Query} {db1 : Db} (hdb1 : DbOk q.srcs db1) (P : Out → Prop) :
    ∀ (rest done : List (Nat × List Key)) (s : State),
      (∀ c ∈ rest, ∀ k ∈ c.2, CleanKey k) → StOk s →
      (∀ x, x ∈ s.outs ↔ (x ∈ evalKeyed q db1 ∧ TouchedOut done q.srcs x) ∨ (P x ∧ ¬ TouchedOut done q.srcs x)) →
      StOk (rest.foldl (stepFn q db1) s) ∧
      (∀ x, x ∈ (rest.foldl (stepFn q db1) s).outs ↔
        (x ∈ evalKeyed q db1 ∧ TouchedOut (done ++ rest) q.srcs x) ∨ (P x ∧ ¬ TouchedOut (done ++ rest) q.srcs x)) ∧
      ∃ ex, Trans s (rest.foldl (stepFn q db1) s) ex := by
  intro rest
  induction rest with
  | nil => intro done s _ hs hinv; exact ⟨hs, by simpa using hinv, [], Trans.refl s⟩
  | cons c rest ih =>
    intro done s hks hs hinv
    have hks' : ∀ c' ∈ rest, ∀ k ∈ c'.2, CleanKey k := fun c' hc' => hks c' (by simp [hc'])
    have hone : StOk (stepFn q db1 s c) ∧
        (∀ x, x ∈ (stepFn q db1 s c).outs ↔
          (x ∈ evalKeyed q db1 ∧ TouchedOut (done ++ [c]) q.srcs x) ∨ (P x ∧ ¬ TouchedOut (done ++ [c]) q.srcs x)) ∧
        ∃ ex, Trans s (stepFn q db1 s c) ex := by
      unfold stepFn
      cases hp : posOf c.1 q.srcs with
      | none =>
        refine ⟨hs, ?_, [], Trans.refl s⟩
        intro x
        have : TouchedOut (done ++ [c]) q.srcs x ↔ TouchedOut done q.srcs x := by
          rw [touchedOut_append, touchedOut_single]
          simp [hp]
        rw [this]; exact hinv x
      | some i =>
        obtain ⟨src, hsrc, _⟩ := posOf_get hp
        have hS := evalKeyed_stmtFor (ks := c.2) hdb1 hsrc (hks c (by simp))
        simp only []
        rw [pass_eq]
        obtain ⟨h1, m1, ex, t1⟩ := passCore_spec (res := evalKeyed (stmtFor q i c.2) db1) (i := i) (ks := c.2) hs
          (fun o ho => evalKeyed_proper hdb1 ((hS o).mp ho).1)
          (fun o ho o' ho' hpk => evalKeyed_functional hdb1 ((hS o).mp ho).1 ((hS o').mp ho').1 hpk)
          (fun o ho => ((hS o).mp ho).2)
        refine ⟨h1, ?_, ex, t1⟩
        intro x
        have ht : TouchedOut (done ++ [c]) q.srcs x ↔ TouchedOut done q.srcs x ∨ sliceOut i c.2 x := by
          rw [touchedOut_append, touchedOut_single]
          constructor
          · rintro (h | ⟨i', hi', hsl⟩)
            · exact Or.inl h
            · rw [hp] at hi'; cases hi'; exact Or.inr hsl
          · rintro (h | h)
            · exact Or.inl h
            · exact Or.inr ⟨i, hp, h⟩
        rw [m1 x, hS x, hinv x, ht]
        by_cases hsl : sliceOut i c.2 x <;> by_cases hto : TouchedOut done q.srcs x <;> simp [hsl, hto]
    obtain ⟨h1, m1, ex1, t1⟩ := hone
    obtain ⟨h2, m2, ex2, t2⟩ := ih (done ++ [c]) (stepFn q db1 s c) hks' h1 m1
    refine ⟨h2, ?_, ex1 ++ ex2, t1.trans t2⟩
    intro x
    simp only [List.foldl_cons]
    rw [m2 x]
    simp [List.append_assoc]

theorem foldl_max_lt (es : List Event) (m b : Nat) (hm : m < b) (hes : ∀ e ∈ es, e.rowid < b) :
    es.foldl (fun m e => max m e.rowid) m < b := by
  induction es generalizing m with
  | nil => exact hm
  | cons e es ih =>
    simp only [List.foldl_cons]
    apply ih
    · have := hes e (by simp); omega
    · intro e' he'; exact hes e' (by simp [he'])

/-- what one batch does, whatever the database and the candidates: the invariant of the
materialised table is kept, ids are consecutive and the client's copy follows -/
theorem step_mechanics {q : Query} {db1 : Db} (hdb1 : DbOk q.srcs db1) {st : State} (hst : StOk st)
    {cands : List (Nat × List Key)} (hks : ∀ c ∈ cands, ∀ k ∈ c.2, CleanKey k)
    (P : Out → Prop) (hP : ∀ x, x ∈ st.outs ↔ P x) :
    StOk (step q db1 st cands) ∧
    (∀ x, x ∈ (step q db1 st cands).outs ↔
      (x ∈ evalKeyed q db1 ∧ TouchedOut cands q.srcs x) ∨ (P x ∧ ¬ TouchedOut cands q.srcs x)) ∧
    ∃ ex, (step q db1 st cands).events = st.events ++ ex ∧ Consec st.nextId ex ∧
      (step q db1 st cands).nextId = st.nextId + ex.length ∧
      SameSet (replay st.view ex) (step q db1 st cands).view := by
  have hinv0 : ∀ x, x ∈ st.outs ↔ (x ∈ evalKeyed q db1 ∧ TouchedOut [] q.srcs x) ∨ (P x ∧ ¬ TouchedOut [] q.srcs x) := by
    intro x
    have : ¬ TouchedOut [] q.srcs x := by simp [TouchedOut]
    rw [hP x]; simp [this]
  obtain ⟨h1, m1, ex, t1⟩ := fold_spec hdb1 P cands [] st hks hst hinv0
  rw [step_eq]
  obtain ⟨hev, hcon, hnid, _⟩ := t1.ext
  have hdrop : (cands.foldl (stepFn q db1) st).events.drop st.events.length = ex := by
    rw [hev]; simp
  refine ⟨⟨h1.keys, h1.proper, h1.rowids, h1.bound, ?_⟩, ?_, ex, hev, hcon, hnid, t1.view⟩
  · simp only []
    rw [hdrop]
    exact foldl_max_lt ex st.lastRowid _ (Nat.lt_of_lt_of_le hst.last t1.mono) t1.rowids
  · intro x
    have := m1 x
    simpa [State.outs] using this

end Corro.Ivm
