/-
C01, protocol level, BATCHES AND CRASHES — the effect of ONE batch (`Node.deliver batch`, any batch of
changesets satisfying `ChunkOK`) on what a node of a run WITH CRASHES holds (port of
`ClusterBatchEffect.lean` to the merged invariant):

* any node, dead or alive: `deliverB_keeps` — a version booked without a partial (a node's own
  versions) stays booked without a partial; `dbvOf_deliverB_ge` — the db-version rows only grow;
* an ALIVE node with nothing pending (`Crash.CInv NoneP`, not killed since its last restart):
  `deliverB_held_mono`, `deliverB_settles_full` / `deliverB_settles_empty`, `deliverB_nopartial`,
  `deliverB_partial_grows` — as in the crash-free batched model.
-/
import Corro.Lemmas.ClusterFullLive
import Corro.Lemmas.ClusterBatchEffect
import Corro.Lemmas.ClusterCrashConv

namespace Corro.ClusterSys.Full
open Corro.Crdt Corro.Node

/-! ### one actor's transaction, as a whole -/

section
variable {D : Prop} {L : Log} {N0 : Node} {site : Nat} {R0 : List Chg} {C0 : List (Nat × Nat × Nat)}
  {A0 : List (Nat × Nat)}

theorem txFoldG_both (hG : GI D L N0.booked N0.seqRows N0.buf R0 C0 A0)
    (hdbv : ∀ a, dbvOf N0 a ≤ (N0.booked a).max) (hL : LogOK L)
    (items : List Item) (hit : ∀ it ∈ items, ChunkOK L it ∧ it.site = site) (v : Nat) :
    (WillHold (N0.booked site) v → WillHold (vbOf N0 site (txFoldG N0 site items)) v) ∧
    (OwnB (N0.booked site) v → OwnB (vbOf N0 site (txFoldG N0 site items)) v) ∧
    (AllCompleteFor site v items → PU N0 site v items (txFoldG N0 site items)) ∧
    (∀ q0, (N0.booked site).partial? v = some q0 → PB N0 site v q0 items (txFoldG N0 site items)) := by
  have hpwf0 := hG.pwf site
  unfold txFoldG
  have := foldl_inv_prefix items (txStepG (N0.booked site))
    ({ node := N0, seen := [], processed := [], clears := [] }, [])
    (fun done s => TXI D L N0 site R0 C0 A0 s ∧
      (WillHold (N0.booked site) v → WillHold (vbOf N0 site s) v) ∧
      (OwnB (N0.booked site) v → OwnB (vbOf N0 site s) v) ∧
      (AllCompleteFor site v items → PU N0 site v done s) ∧
      (∀ q0, (N0.booked site).partial? v = some q0 → PB N0 site v q0 done s))
    ⟨TXI.init hG hdbv, fun h => h, fun h => h, fun _ => PU.init N0 site v, fun q0 hq0 => PB.init hq0⟩
    (by
      intro done it rest s hl ⟨h1, h2, h2', h3, h4⟩
      have hmem : it ∈ items := by rw [hl]; simp
      obtain ⟨hck, hs⟩ := hit it hmem
      refine ⟨h1.step hL it hck hs, fun hw => h1.willHold_step it hs (h2 hw),
        fun hw => h1.own_step it hs (h2' hw), ?_, ?_⟩
      · intro hall
        exact PU_step (h3 hall) h1 it hs (fun lo hi last cs he => hall it hmem lo hi last cs he)
      · intro q0 hq0
        exact PB_step hq0 (hpwf0.of_partial? hq0) (h4 q0 hq0) h1 it hs)
  exact this.2

/-- the bookkeeping `processActor` installs is the virtual bookkeeping at the end of the transaction -/
theorem processActor_booked (hG : GI D L N0.booked N0.seqRows N0.buf R0 C0 A0)
    (hdbv : ∀ a, dbvOf N0 a ≤ (N0.booked a).max) (hL : LogOK L)
    (items : List Item) (hit : ∀ it ∈ items, ChunkOK L it ∧ it.site = site) :
    (processActor N0 site items).1.booked = ovr N0.booked site (vbOf N0 site (txFoldG N0 site items)) := by
  have hti := txFoldG_txi hG hdbv hL items hit
  have hfst := txFoldG_fst N0 site items
  have hbook := hti.book
  have hfwd := hti.fwd
  unfold vbOf
  rw [hfst] at hbook hfwd ⊢
  have hK := committed_eq_cV N0 site (txFold N0 site items) (hG.needed_wf site) hfwd
  rw [processActor_node]
  split
  · rename_i he
    have hnil : (txFold N0 site items).processed = [] := List.isEmpty_iff.mp he
    simp only
    rw [hnil, cV_nil, ovr_self, booked_fun_of_book hbook]
  · simp only
    rw [hK, booked_setBooked_ovr, booked_fun_of_book hbook]

end

/-! ### the fold over the actors, seen from one actor -/

/-- **one actor through the batch**: whatever the transaction of actor `a` establishes about its
virtual bookkeeping (from any node of the fold whose bookkeeping of `a` is still the original one)
holds of the bookkeeping of `a` after the fold over all actors -/
theorem deliverFold_actor {D : Prop} {P : Nat → Nat → Prop} {L : Log} {n : Node} {R : List Chg}
    (hN : NInv L n R) (hI : Crash.CInv P L n R) (hP : ∀ a v, P a v → D)
    (hL : LogOK L) (batch : List Item) (hck : ∀ it ∈ batch, ChunkOK L it) (a : Nat) (Q : Booked → Prop)
    (hQ : ∀ (N0 : Node) R0 C0 A0, GI D L N0.booked N0.seqRows N0.buf R0 C0 A0 →
      (∀ a', dbvOf N0 a' ≤ (N0.booked a').max) → N0.booked a = n.booked a →
      Q (vbOf N0 a (txFoldG N0 a (txItems n batch a)))) :
    Q ((deliverFold n batch).1.booked a) := by
  have hdistinct : (sitesOf (unknownB n batch)).Pairwise (fun x y => x < y) := by
    rw [sitesOf_eq]; exact dedupSorted_sorted _
  have := foldl_inv_prefix (sitesOf (unknownB n batch)) (actorStepG (unknownB n batch)) ((n, [], []), [])
    (fun done acc => DG D L n R acc ∧ (a ∈ done → Q (acc.1.1.booked a)) ∧ (a ∉ done → acc.1.1.booked a = n.booked a))
    ⟨DG.init hN hI hP, (fun h => by cases h), fun _ => rfl⟩
    (by
      intro done s rest acc hl ⟨h1, h2, h3⟩
      have hs : s ∉ done := by
        intro hmem
        rw [hl] at hdistinct
        have := (List.pairwise_append.mp hdistinct).2.2 s hmem s (by simp)
        omega
      have hit : ∀ it ∈ (unknownB n batch).filter (·.site = s), ChunkOK L it ∧ it.site = s := by
        intro it hit
        have := List.mem_filter.mp hit
        exact ⟨hck it (mem_unknownOf (n := n) this.1), of_decide_eq_true this.2⟩
      have hbk := processActor_booked h1.gi h1.dbv hL _ hit
      have hnode : (actorStepG (unknownB n batch) acc s).1.1 =
          (processActor acc.1.1 s ((unknownB n batch).filter (·.site = s))).1 := rfl
      refine ⟨h1.step hL batch hck s, ?_, ?_⟩
      · intro hmem
        rw [hnode, hbk]
        by_cases hsa : s = a
        · subst hsa
          rw [ovr_same]
          exact hQ acc.1.1 _ _ _ h1.gi h1.dbv (h3 hs)
        · rw [ovr_other _ _ _ (fun h => hsa h.symm)]
          apply h2
          rcases List.mem_append.mp hmem with h | h
          · exact h
          · simp only [List.mem_singleton] at h; exact absurd h.symm hsa
      · intro hmem
        have hsa : s ≠ a := by
          intro h; apply hmem; rw [h]; simp
        rw [hnode, hbk, ovr_other _ _ _ (fun h => hsa h.symm)]
        exact h3 (fun h => hmem (List.mem_append_left _ h)))
  rw [← deliverFoldG_fst]
  unfold deliverFoldG
  by_cases hmem : a ∈ sitesOf (unknownB n batch)
  · exact this.2.1 hmem
  · rw [this.2.2 hmem]
    -- no changeset of `a` reaches a transaction: the empty transaction
    have hnil : txItems n batch a = [] := by
      unfold txItems
      apply List.filter_eq_nil_iff.mpr
      intro it hit hs
      exact hmem (mem_sitesOf.mpr ⟨it, hit, of_decide_eq_true hs⟩)
    have := hQ n R [] [] (gi_of_cinv hN hI hP) hI.dbv_le rfl
    rw [hnil] at this
    exact this

/-! ### clear jobs and applies do not lose "will be held" -/

theorem applyBuffered_cv {D : Prop} {L : Log} {N : Node} {R : List Chg} {C : List (Nat × Nat × Nat)} {A : List (Nat × Nat)}
    (hG : GI D L N.booked N.seqRows N.buf R C A) (a v a' w : Nat)
    (h : (N.booked a').containsVersion w = true) : ((N.applyBuffered a v).booked a').containsVersion w = true := by
  by_cases hskip : ∀ p, (N.booked a).partial? v = some p → p.complete = false
  · rw [applyBuffered_skip N a v hskip]; exact h
  · have hex : ∃ p, (N.booked a).partial? v = some p ∧ p.complete = true := by
      apply Classical.byContradiction
      intro hne
      apply hskip
      intro p hp
      cases hc : p.complete with
      | false => rfl
      | true => exact absurd ⟨p, hp, hc⟩ hne
    obtain ⟨p, hp, hpc⟩ := hex
    rw [applyBuffered_complete N a v p hp hpc, booked_clearMeta]
    by_cases ha : a' = a
    · subst ha
      rw [applyCore_booked_same, containsVersion_insertDb (hG.needed_wf a') (Nat.le_refl v) w]
      exact Or.inr h
    · rw [applyCore_booked_other _ _ _ _ ha]; exact h

theorem applyAll_cv {D : Prop} {L : Log} {R : List Chg} (hL : LogOK L) (hD : ¬ D) (A : List (Nat × Nat)) (N : Node)
    (M : List Chg)
    (hG : GI D L N.booked N.seqRows N.buf (M ++ R) [] A) (a' w : Nat)
    (h : (N.booked a').containsVersion w = true) : ((applyAll N A).booked a').containsVersion w = true := by
  induction A generalizing N M with
  | nil => exact h
  | cons t A ih =>
    show ((applyAll (N.applyBuffered t.1 t.2) A).booked a').containsVersion w = true
    have hnext := gi_apply hG hL hD t.1 t.2 (A' := A) (by
      intro t' ht'
      rcases List.mem_cons.mp ht' with h | h
      · exact Or.inl h
      · exact Or.inr h)
    have hnext' : GI D L (N.applyBuffered t.1 t.2).booked (N.applyBuffered t.1 t.2).seqRows
        (N.applyBuffered t.1 t.2).buf ((M ++ appliedBy N t.1 t.2) ++ R) [] A := by
      apply hnext.congr_R
      intro e
      simp only [List.mem_append]
      constructor
      · rintro (h | h | h)
        · exact Or.inl (Or.inr h)
        · exact Or.inl (Or.inl h)
        · exact Or.inr h
      · rintro ((h | h) | h)
        · exact Or.inr (Or.inl h)
        · exact Or.inl h
        · exact Or.inr (Or.inr h)
    exact ih _ _ hnext' (applyBuffered_cv hG t.1 t.2 a' w h)

/-- on a node satisfying the node invariant "will be held" is "held" -/
theorem held_of_willHold {L : Log} {n : Node} {R : List Chg} (hI : Crash.CInv Crash.NoneP L n R) {a v : Nat}
    (h : WillHold (n.booked a) v) : Held n a v := by
  refine ⟨h.1, ?_⟩
  intro p hp
  have hc := h.2 p hp
  rcases hI.part_state a v p hp with h1 | ⟨h1, _⟩ | ⟨h1, _⟩
  · exact h1
  · rw [hc] at h1; cases h1
  · exact absurd h1 id


/-- **from the fold over the actors to the end of the batch**: a fact about the bookkeeping of `a`
after the fold that only depends on which versions are booked (monotonically) and on the partials
holds after the clear jobs and the applies -/
theorem deliver_actor {L : Log} {n : Node} {R : List Chg} (hN : NInv L n R) (hI : Crash.KInv L n R)
    (hL : LogOK L) (batch : List Item) (hck : ∀ it ∈ batch, ChunkOK L it) (a : Nat) :
    (∀ w, ((deliverFold n batch).1.booked a).containsVersion w = true →
      ((n.deliver batch).booked a).containsVersion w = true) ∧
    (∀ w, ((n.deliver batch).booked a).partial? w = ((deliverFold n batch).1.booked a).partial? w) := by
  have hdg := deliverFoldG_gi (D := n.alive = false) hN hI (fun _ _ h => h) hL batch hck
  have hgi := hdg.gi
  have halive := hdg.alive
  rw [deliverFoldG_fst] at hgi halive
  have hcl := clearAll_gi hL _ _ hgi
  have hal2 : (clearAll (deliverFold n batch).1 (deliverFold n batch).2.2).alive = n.alive := by
    rw [clearAll_alive, halive]
  have hbk : (clearAll (deliverFold n batch).1 (deliverFold n batch).2.2).booked a =
      (deliverFold n batch).1.booked a := booked_of_book (clearAll_book _ _) a
  rw [deliver_eq']
  unfold finish
  cases hal : n.alive with
  | true =>
    rw [hal] at hal2
    rw [if_pos hal2]
    have hD : ¬ (n.alive = false) := by rw [hal]; exact Bool.noConfusion
    constructor
    · intro w hw
      exact applyAll_cv hL hD _ _ _ hcl a w (by rw [hbk]; exact hw)
    · intro w
      rw [partial?_applyAll, hbk]
  | false =>
    rw [hal] at hal2
    have hnal : ¬ ((clearAll (deliverFold n batch).1 (deliverFold n batch).2.2).alive = true) := by
      rw [hal2]; exact Bool.noConfusion
    rw [if_neg hnal, hbk]
    exact ⟨fun w hw => hw, fun w => rfl⟩

/-! ### any node: own versions and db-version rows -/

/-- **a batch never disturbs a version booked without a partial** (any node, dead or alive, any batch
of changesets satisfying `ChunkOK`) -/
theorem deliverB_keeps {L : Log} {n : Node} {R : List Chg} (hN : NInv L n R) (hI : Crash.KInv L n R)
    (hL : LogOK L) {batch : List Item} (hck : ∀ it ∈ batch, ChunkOK L it) {a v : Nat}
    (h : Crash.OwnHeld n a v) : Crash.OwnHeld (n.deliver batch) a v := by
  obtain ⟨h1, h2⟩ := deliver_actor hN hI hL batch hck a
  have hf : OwnB ((deliverFold n batch).1.booked a) v := by
    apply deliverFold_actor (D := n.alive = false) hN hI (fun _ _ h => h) hL batch hck a (fun b => OwnB b v)
    intro N0 R0 C0 A0 hG hdbv hb
    refine (txFoldG_both hG hdbv hL _ (fun it hit => ?_) v).2.1 (by rw [hb]; exact h)
    obtain ⟨g1, g2⟩ := mem_txItems hit
    exact ⟨hck it g1, g2⟩
  exact ⟨h1 v hf.1, by rw [h2]; exact hf.2⟩

/-- the db-version rows only grow through a batch -/
theorem dbvOf_processOne_ge (b0 : Booked) (st : TxSt) (it : Item) (a : Nat) :
    dbvOf st.node a ≤ dbvOf (processOne b0 st it).node a := by
  cases it with
  | empty s vlo vhi =>
    rw [processOne_empty]
    split
    · exact Nat.le_refl _
    · split
      · exact Nat.le_refl _
      · exact Crash.dbvOf_bump_ge st.node s vhi a _
  | full s v lo hi last cs =>
    rw [processOne_full]
    split
    · exact Nat.le_refl _
    · split
      · exact Nat.le_refl _
      · split
        · exact Crash.dbvOf_bump_ge st.node s v a _
        · split
          · exact Nat.le_refl _
          · split
            · exact Crash.dbvOf_mergeChanges_ge st.node cs a
            · unfold stBuffer
              simp only
              rw [dbvOf_congr (bufferChunk_dbv _ _ _ _ _ _ _)]
              exact Nat.le_refl _

theorem dbvOf_processActor_ge (n : Node) (site : Nat) (items : List Item) (a : Nat) :
    dbvOf n a ≤ dbvOf (processActor n site items).1 a := by
  have hfold : dbvOf n a ≤ dbvOf (txFold n site items).node a := by
    unfold txFold
    apply foldl_inv (fun (st : TxSt) => dbvOf n a ≤ dbvOf st.node a)
    · exact Nat.le_refl _
    · intro st it _ hst
      exact Nat.le_trans hst (dbvOf_processOne_ge _ st it a)
  rw [processActor_node]
  split
  · exact hfold
  · simp only
    rw [dbvOf_congr (setBooked_dbv _ _ _)]
    exact hfold

theorem dbvOf_deliverB_ge (n : Node) (batch : List Item) (a : Nat) : dbvOf n a ≤ dbvOf (n.deliver batch) a := by
  have hfold : dbvOf n a ≤ dbvOf (deliverFold n batch).1 a := by
    unfold deliverFold
    apply foldl_inv (fun (acc : Node × List (Nat × Nat) × List (Nat × Nat × Nat)) => dbvOf n a ≤ dbvOf acc.1 a)
    · exact Nat.le_refl _
    · intro acc s _ hacc
      unfold actorStep
      simp only
      exact Nat.le_trans hacc (dbvOf_processActor_ge _ _ _ a)
  rw [deliver_eq']
  unfold finish
  split
  · refine Nat.le_trans ?_ (Crash.dbvOf_applyAll_ge _ _ a)
    rw [dbvOf_clearAll]; exact hfold
  · rw [dbvOf_clearAll]; exact hfold

/-! ### the effect of one batch -/

section Effect
variable {L : Log} {n : Node} {R : List Chg}

/-- the bookkeeping of `a` at the end of the batch inherits what holds after the fold over the
actors -/
theorem willHold_deliver (hN : NInv L n R) (hI : Crash.CInv Crash.NoneP L n R) (hal : n.alive = true) (hL : LogOK L) {batch : List Item}
    (hck : ∀ it ∈ batch, ChunkOK L it) {a v : Nat}
    (h : WillHold ((deliverFold n batch).1.booked a) v) : Held (n.deliver batch) a v := by
  obtain ⟨h1, h2⟩ := deliver_actor hN (hI.mono (fun _ _ h => absurd h id)) hL batch hck a
  apply held_of_willHold (ainv_deliverB hN hI hal hL hck)
  refine ⟨h1 v h.1, ?_⟩
  intro p hp
  rw [h2] at hp
  exact h.2 p hp

/-- **what is held stays held** through a batch -/
theorem deliverB_held_mono (hN : NInv L n R) (hI : Crash.CInv Crash.NoneP L n R) (hal : n.alive = true) (hL : LogOK L) {batch : List Item}
    (hck : ∀ it ∈ batch, ChunkOK L it) {a v : Nat} (hh : Held n a v) : Held (n.deliver batch) a v := by
  apply willHold_deliver hN hI hal hL hck
  apply deliverFold_actor (D := False) hN hI (fun _ _ h => h) hL batch hck a (fun b => WillHold b v)
  intro N0 R0 C0 A0 hG hdbv hb
  refine (txFoldG_both hG hdbv hL _ (fun it hit => ?_) v).1 (by rw [hb]; exact willHold_of_held hh)
  obtain ⟨h1, h2⟩ := mem_txItems hit
  exact ⟨hck it h1, h2⟩

/-- what the transaction of `a` establishes for a version all of whose `Full` changesets in the batch
are complete -/
theorem deliverFold_pu (hN : NInv L n R) (hI : Crash.CInv Crash.NoneP L n R) (_hal : n.alive = true) (hL : LogOK L) {batch : List Item}
    (hck : ∀ it ∈ batch, ChunkOK L it) {a v : Nat} (hall : AllCompleteFor a v batch) :
    (WillHold ((deliverFold n batch).1.booked a) v ∨
      ((deliverFold n batch).1.booked a).partial? v = (n.booked a).partial? v) ∧
    ((n.booked a).partial? v = none → (∃ last cs, Item.full a v 0 last last cs ∈ txItems n batch a) →
      WillHold ((deliverFold n batch).1.booked a) v) ∧
    ((∃ lo hi, Item.empty a lo hi ∈ txItems n batch a ∧ lo ≤ v ∧ v ≤ hi) →
      WillHold ((deliverFold n batch).1.booked a) v) := by
  apply deliverFold_actor (D := False) hN hI (fun _ _ h => h) hL batch hck a (fun b =>
    (WillHold b v ∨ b.partial? v = (n.booked a).partial? v) ∧
    ((n.booked a).partial? v = none → (∃ last cs, Item.full a v 0 last last cs ∈ txItems n batch a) →
      WillHold b v) ∧
    ((∃ lo hi, Item.empty a lo hi ∈ txItems n batch a ∧ lo ≤ v ∧ v ≤ hi) → WillHold b v))
  intro N0 R0 C0 A0 hG hdbv hb
  have hpu := (txFoldG_both hG hdbv hL (txItems n batch a) (fun it hit => by
    obtain ⟨h1, h2⟩ := mem_txItems hit
    exact ⟨hck it h1, h2⟩) v).2.2.1 (by
      intro it hit lo hi last cs he
      exact hall it (mem_txItems hit).1 lo hi last cs he)
  refine ⟨?_, ?_, hpu.finEmpty⟩
  · rcases hpu.st with h | ⟨_, _, h3⟩
    · exact Or.inl h
    · right; rw [h3, hb]
  · intro hpn
    exact hpu.finFull (by rw [hb]; exact hpn)

/-- **no partial, only complete changesets of the version**: held afterwards, or still no partial -/
theorem deliverB_nopartial (hN : NInv L n R) (hI : Crash.CInv Crash.NoneP L n R) (hal : n.alive = true) (hL : LogOK L) {batch : List Item}
    (hck : ∀ it ∈ batch, ChunkOK L it) {a v : Nat} (hall : AllCompleteFor a v batch)
    (hp : (n.booked a).partial? v = none) :
    Held (n.deliver batch) a v ∨ ((n.deliver batch).booked a).partial? v = none := by
  rcases (deliverFold_pu hN hI hal hL hck hall).1 with h | h
  · exact Or.inl (willHold_deliver hN hI hal hL hck h)
  · right
    rw [(deliver_actor hN (hI.mono (fun _ _ h => absurd h id)) hL batch hck a).2, h, hp]

/-- **a complete changeset settles a version without a partial** -/
theorem deliverB_settles_full (hN : NInv L n R) (hI : Crash.CInv Crash.NoneP L n R) (hal : n.alive = true) (hL : LogOK L) {batch : List Item}
    (hck : ∀ it ∈ batch, ChunkOK L it) {a v last : Nat} {cs : List Chg} (hall : AllCompleteFor a v batch)
    (hp : (n.booked a).partial? v = none) (hm : Item.full a v 0 last last cs ∈ batch) :
    Held (n.deliver batch) a v := by
  obtain ⟨it', hb, h1, h2, h3, hcase⟩ := rep_cases n hm
  obtain ⟨last', cs', rfl⟩ := full_of_key (a := a) (v := v) (lo := 0) (hi := last) h1 h2 h3
  obtain ⟨_, hl⟩ := hall _ hb 0 last last' cs' rfl
  subst hl
  rcases hcase with hc | hc
  · exact willHold_deliver hN hI hal hL hck ((deliverFold_pu hN hI hal hL hck hall).2.1 hp ⟨_, _, hc⟩)
  · apply deliverB_held_mono hN hI hal hL hck
    have hc' : (n.booked a).containsAll v v (some (0, last)) = true := hc
    rw [containsAll_single] at hc'
    exact ⟨contains_cv hc', fun p hp' => by rw [hp] at hp'; cases hp'⟩

/-- **an `Empty` settles the versions it covers** (when no incomplete chunk of the version shares
the batch) -/
theorem deliverB_settles_empty (hN : NInv L n R) (hI : Crash.CInv Crash.NoneP L n R) (hal : n.alive = true) (hL : LogOK L) {batch : List Item}
    (hck : ∀ it ∈ batch, ChunkOK L it) {a v lo hi : Nat} (hall : AllCompleteFor a v batch)
    (hm : Item.empty a lo hi ∈ batch) (h1 : lo ≤ v) (h2 : v ≤ hi) : Held (n.deliver batch) a v := by
  obtain ⟨it', _, g1, g2, g3, hcase⟩ := rep_cases n hm
  have := empty_of_key (a := a) (lo := lo) (hi := hi) g1 g2 g3
  subst this
  rcases hcase with hc | hc
  · exact willHold_deliver hN hI hal hL hck ((deliverFold_pu hN hI hal hL hck hall).2.2 ⟨lo, hi, hc, h1, h2⟩)
  · apply deliverB_held_mono hN hI hal hL hck
    have hc' : (n.booked a).containsAll lo hi none = true := hc
    exact held_of_willHold hI ((contains_none_iff _ _).mp ((containsAll_iff _ _ _ _).mp hc' v h1 h2))

/-- **a partial grows**: a node that holds `(a, v)` as the incomplete partial `q0` holds the version
after the batch, or holds a partial — same `last_seq`, still incomplete — that contains `q0.seqs` and
the seq range of every changeset of `(a, v)` in the batch -/
theorem deliverB_partial_grows (hN : NInv L n R) (hI : Crash.CInv Crash.NoneP L n R) (hal : n.alive = true) (hL : LogOK L) {batch : List Item}
    (hck : ∀ it ∈ batch, ChunkOK L it) {a v : Nat} {q0 : Partial} (hq0 : (n.booked a).partial? v = some q0) :
    Held (n.deliver batch) a v ∨
    ∃ q, ((n.deliver batch).booked a).partial? v = some q ∧ q.complete = false ∧ q.last = q0.last ∧
      (∀ x, RSet.Mem q0.seqs x → RSet.Mem q.seqs x) ∧
      (∀ r ∈ rangesFor a v batch, ∀ x, r.1 ≤ x → x ≤ r.2 → RSet.Mem q.seqs x) := by
  have hwf0 := (hI.pwf a).of_partial? hq0
  have hfold := deliverFold_actor (D := False) hN hI (fun _ _ h => h) hL batch hck a (fun b =>
    WillHold b v ∨ ∃ q, b.partial? v = some q ∧ q.last = q0.last ∧
      (∀ x, RSet.Mem q0.seqs x → RSet.Mem q.seqs x) ∧
      (∀ r ∈ rangesFor a v (txItems n batch a), ∀ x, r.1 ≤ x → x ≤ r.2 → RSet.Mem q.seqs x)) (by
    intro N0 R0 C0 A0 hG hdbv hb
    have hpb := (txFoldG_both hG hdbv hL (txItems n batch a) (fun it hit => by
      obtain ⟨h1, h2⟩ := mem_txItems hit
      exact ⟨hck it h1, h2⟩) v).2.2.2 q0 (by rw [hb]; exact hq0)
    rcases hpb with h | ⟨q, g1, g2, g3, g4, _⟩
    · exact Or.inl h
    · exact Or.inr ⟨q, g1, g2, g3, g4⟩)
  rcases hfold with h | ⟨q, g1, g2, g3, g4⟩
  · exact Or.inl (willHold_deliver hN hI hal hL hck h)
  · have hI' := ainv_deliverB hN hI hal hL hck
    have hq' : ((n.deliver batch).booked a).partial? v = some q := by
      rw [(deliver_actor hN (hI.mono (fun _ _ h => absurd h id)) hL batch hck a).2]; exact g1
    cases hc : q.complete with
    | true =>
      left
      rcases hI'.part_state a v q hq' with ⟨_, k2⟩ | ⟨k1, _⟩ | ⟨k1, _⟩
      · refine ⟨hI'.part_known a v q hq', ?_⟩
        intro p hp
        rw [hq'] at hp; cases hp
        exact ⟨hc, k2⟩
      · rw [hc] at k1; cases k1
      · exact absurd k1 id
    | false =>
      right
      refine ⟨q, hq', hc, g2, g3, ?_⟩
      intro r hr x hx1 hx2
      obtain ⟨⟨last, cs, hm⟩, hle⟩ := mem_rangesFor.mp hr
      obtain ⟨it', _, k1, k2, k3, hcase⟩ := rep_cases n hm
      obtain ⟨last', cs', rfl⟩ := full_of_key (a := a) (v := v) (lo := r.1) (hi := r.2) k1 k2 k3
      rcases hcase with hcase | hcase
      · exact g4 r (mem_rangesFor.mpr ⟨⟨last', cs', hcase⟩, hle⟩) x hx1 hx2
      · have hc' : (n.booked a).containsAll v v (some (r.1, r.2)) = true := hcase
        rw [containsAll_single] at hc'
        exact g3 x (mem_of_gaps_empty hwf0 (contains_some_gaps hc' hq0) ⟨hx1, hx2⟩)

end Effect

end Corro.ClusterSys.Full
