/-
C06 helper lemmas, part 2: for a consistent node, `from_conn` rebuilds exactly the in-memory
bookkeeping (minus applied partials), the re-scheduled applies do not change it, and the restarted
node is consistent again with nothing pending.
-/
import Corro.Lemmas.NodeDeliverCons
namespace Corro.Node
open Corro.Crdt

/-! ### `insert_db` of a known version is the identity -/

theorem insertDb_known_eq {b : Booked} (hw : RSet.WF b.needed) {v : Nat} (hv : v ≤ b.max)
    (hn : ¬ RSet.Mem b.needed v) : b.insertDb [(v, v)] = b := by
  have hmx : (b.insertDb [(v, v)]).max = b.max := by
    rw [insertDb_max _ _ (by simp), sup_singleton]; exact Nat.max_eq_left hv
  have hnd : (b.insertDb [(v, v)]).needed = b.needed := by
    apply RSet.wf_unique _ _ (insertDb_needed_wf hw _ (by simp)) hw
    intro x
    rw [mem_insertDb_needed hw [(v, v)] (by simp) (by simp), sup_singleton]
    simp only [List.mem_singleton, exists_eq_left]
    constructor
    · rintro ⟨h1 | h1, _⟩
      · exact h1
      · omega
    · intro h1
      refine ⟨Or.inl h1, ?_⟩
      intro h2
      have : x = v := by omega
      rw [this] at h1; exact hn h1
  have hpt : (b.insertDb [(v, v)]).partials = b.partials := insertDb_partials _ _
  cases b with
  | mk m nd ps =>
    cases hb : (Booked.mk m nd ps).insertDb [(v, v)] with
    | mk m' nd' ps' =>
      rw [hb] at hmx hnd hpt
      simp only at hmx hnd hpt
      rw [hmx, hnd, hpt]

/-- for a consistent node the re-applies never change the bookkeeping -/
theorem applyBuffered_booked {L : Nat → Nat → Nat} {n : Node} (hc : ∀ a, ConsA L n a) (a v a' : Nat) :
    (n.applyBuffered a v).booked a' = n.booked a' := by
  cases hp : (n.booked a).partial? v with
  | none => rw [applyBuffered_skip n a v (fun p h => by rw [hp] at h; cases h)]
  | some p =>
    cases hcomp : p.complete with
    | false => rw [applyBuffered_skip n a v (fun q h => by rw [hp] at h; cases h; exact hcomp)]
    | true =>
      rw [applyBuffered_complete n a v p hp hcomp, booked_clearMeta]
      by_cases ha : a' = a
      · subst ha
        rw [applyCore_booked_same]
        have hk := (hc a').part_known v p hp
        exact insertDb_known_eq (hc a').needed_wf hk.1 hk.2
      · exact applyCore_booked_other n a v a' ha

theorem applyAll_booked {L : Nat → Nat → Nat} {n : Node} (hc : Consistent L n) (ap : List (Nat × Nat))
    (a' : Nat) : (applyAll n ap).booked a' = n.booked a' := by
  induction ap generalizing n with
  | nil => rfl
  | cons t ap ih =>
    show (applyAll (n.applyBuffered t.1 t.2) ap).booked a' = _
    rw [ih (applyBuffered_consistent hc t.1 t.2), applyBuffered_booked hc.actor]

/-! ### the reload agrees with the memory -/

theorem Partial.ext' {p q : Partial} (h1 : p.seqs = q.seqs) (h2 : p.last = q.last) : p = q := by
  cases p; cases q; simp only at h1 h2; rw [h1, h2]

theorem actorRowsForward_of_cons {L : Nat → Nat → Nat} {n : Node} {a : Nat} {cl : List (Nat × Nat)}
    (hc : ConsP L n a cl) : n.ActorRowsForward a :=
  fun r hr hs => (hc.rows_fwd r hr hs).1

/-- what `from_conn` rebuilds for an actor of a consistent node -/
theorem fromConn_spec {L : Nat → Nat → Nat} {n : Node} {a : Nat} (hc : ConsA L n a) :
    (n.fromConn a).max = (n.booked a).max ∧ (n.fromConn a).needed = (n.booked a).needed ∧
    (∀ v, HasRows n a v → (n.fromConn a).partial? v = (n.booked a).partial? v) ∧
    (∀ v, ¬ HasRows n a v → (n.fromConn a).partial? v = none) ∧
    (n.fromConn a).PWF ∧ (n.fromConn a).KeysSorted := by
  have hf := actorRowsForward_of_cons hc
  have hi := fromConn_inv n a hf
  refine ⟨?_, rfl, ?_, ?_, hi.pwf, fromConn_keysSorted n a⟩
  · rw [fromConn_max]
    apply Nat.le_antisymm
    · rcases hi.max_att with h1 | ⟨r, hr, h1⟩
      · rw [h1]; exact hc.dbv_le
      · rw [h1]; have := mem_actorRows.mp hr; exact hc.rows_le r this.1 this.2
    · rcases hc.max_att with h1 | ⟨r, hr, hs, h1, _⟩
      · exact Nat.le_trans h1 hi.max_ge.1
      · exact Nat.le_trans h1 (hi.max_ge.2 r (mem_actorRows.mpr ⟨hr, hs⟩))
  · intro v hv
    have hs := (fromConn_partial_isSome n a v hf).mpr hv
    cases hp' : (n.fromConn a).partial? v with
    | none => rw [hp'] at hs; cases hs
    | some p' =>
      obtain ⟨hw', hm', r, hr, h1, h2, h3⟩ := fromConn_partial_spec n a v hf hp'
      rcases hc.rows_part v hv with h4 | ⟨p, hp, hm⟩
      · exact absurd h4 (not_covered_nil v)
      · rw [hp]
        congr 1
        apply Partial.ext'
        · exact RSet.wf_unique _ _ hw' (hc.pwf.of_partial? hp) (fun x => (hm' x).trans (hm x).symm)
        · rw [h3, (hc.rows_fwd r hr h1).2, h2, hc.part_last v p hp]
  · intro v hv
    cases hp' : (n.fromConn a).partial? v with
    | none => rfl
    | some p' =>
      exfalso; apply hv
      exact (fromConn_partial_isSome n a v hf).mp (by rw [hp']; rfl)

/-- an actor that is not rediscovered has nothing to remember -/
theorem booked_of_not_known {L : Nat → Nat → Nat} {n : Node} {a : Nat} (hc : ConsA L n a)
    (ha : a ∉ n.knownActors) :
    (n.booked a).max = 0 ∧ (n.booked a).needed = [] ∧ ∀ v, ¬ HasRows n a v := by
  have hk := fun h => ha (mem_knownActors.mpr h)
  have hnr : ∀ v, ¬ HasRows n a v := by
    rintro v ⟨r, hr, hs, _⟩; exact hk (Or.inr (Or.inl ⟨r, hr, hs⟩))
  have hd : dbvOf n a = 0 := by
    rw [dbvOf_eq]
    cases hl : alook n.dbv a with
    | none => rfl
    | some x => exact absurd (Or.inl ⟨(a, x), alook_some_mem hl, rfl⟩) hk
  refine ⟨?_, ?_, hnr⟩
  · rcases hc.max_att with h1 | ⟨r, hr, hs, _⟩
    · omega
    · exact absurd ⟨r, hr, hs, rfl⟩ (hnr r.ver)
  · rw [booked_eq]
    cases hl : alook n.book a with
    | none => rfl
    | some b =>
      simp only [Option.getD_some]
      cases hne : b.needed with
      | nil => rfl
      | cons x xs =>
        exfalso
        exact hk (Or.inr (Or.inr ⟨(a, b), alook_some_mem hl, rfl, by rw [hne]; rfl⟩))

/-- the reloaded bookkeeping, actor by actor -/
theorem reloaded_spec {L : Nat → Nat → Nat} {n : Node} (hc : Consistent L n) (a : Nat) :
    ((reloaded n).booked a).max = (n.booked a).max ∧
    ((reloaded n).booked a).needed = (n.booked a).needed ∧
    (∀ v, HasRows n a v → ((reloaded n).booked a).partial? v = (n.booked a).partial? v) ∧
    (∀ v, ¬ HasRows n a v → ((reloaded n).booked a).partial? v = none) ∧
    ((reloaded n).booked a).PWF ∧ ((reloaded n).booked a).KeysSorted := by
  rw [reloaded_booked]
  split
  · exact fromConn_spec (hc.actor a)
  · rename_i ha
    obtain ⟨h1, h2, h3⟩ := booked_of_not_known (hc.actor a) ha
    refine ⟨h1.symm, h2.symm, fun v hv => absurd hv (h3 v), fun v _ => rfl,
      (fun e he => by cases he), List.Pairwise.nil⟩

theorem reloaded_consistent {L : Nat → Nat → Nat} {n : Node} (hc : Consistent L n) :
    Consistent L (reloaded n) := by
  refine ⟨?_, ?_⟩
  · intro a
    have ha := hc.actor a
    obtain ⟨h1, h2, h3, h4, h5, h6⟩ := reloaded_spec hc a
    have hpart : ∀ v p, ((reloaded n).booked a).partial? v = some p →
        HasRows n a v ∧ (n.booked a).partial? v = some p := by
      intro v p hp
      have hr : HasRows n a v := by
        apply Classical.byContradiction
        intro hnr; rw [h4 v hnr] at hp; cases hp
      exact ⟨hr, by rw [← h3 v hr]; exact hp⟩
    refine ⟨h5, h6, ha.rows_fwd, fun v p hp => ha.part_last v p (hpart v p hp).2, ?_, ?_,
      fun v hv => absurd hv (not_covered_nil v), ha.buf_cov, by rw [h1]; exact ha.dbv_le,
      by rw [h1]; exact ha.rows_le, by rw [h1]; exact ha.max_att, by rw [h2]; exact ha.needed_wf, ?_⟩
    · intro v hv
      have hv' : HasRows n a v := hv
      rcases ha.rows_part v hv' with h7 | ⟨p, hp, hm⟩
      · exact absurd h7 (not_covered_nil v)
      · exact Or.inr ⟨p, by rw [h3 v hv']; exact hp, hm⟩
    · intro v p hp hnr
      exact absurd (hpart v p hp).1 hnr
    · intro v p hp
      rw [h1, h2]; exact ha.part_known v p (hpart v p hp).2
  · show (restartBook n).Pairwise (fun x y => x.1 < y.1)
    unfold restartBook
    rw [List.pairwise_map]
    exact knownActors_sorted n

/-- **the restarted node is consistent** -/
theorem restart_consistent' {L : Nat → Nat → Nat} {n : Node} (hc : Consistent L n) :
    Consistent L n.restart := by
  rw [restart_eq']; exact applyAll_consistent (reloaded_consistent hc) _

/-- the restarted node's bookkeeping is the reloaded one -/
theorem restart_booked {L : Nat → Nat → Nat} {n : Node} (hc : Consistent L n) (a : Nat) :
    (n.restart).booked a = (reloaded n).booked a := by
  rw [restart_eq']; exact applyAll_booked (reloaded_consistent hc) _ a

/-- for a consistent node the restart tasks are the versions with rows and a complete partial -/
theorem mem_restartTasks_cons {L : Nat → Nat → Nat} {n : Node} (hc : Consistent L n) (a v : Nat) :
    (a, v) ∈ restartTasks n ↔
      HasRows n a v ∧ ∃ p, (n.booked a).partial? v = some p ∧ p.complete = true := by
  rw [mem_restartTasks]
  simp only
  obtain ⟨_, _, h3, h4, _, _⟩ := fromConn_spec (hc.actor a)
  constructor
  · rintro ⟨_, p, hp, hcomp⟩
    have hr : HasRows n a v := by
      apply Classical.byContradiction
      intro hnr; rw [h4 v hnr] at hp; cases hp
    exact ⟨hr, p, by rw [← h3 v hr]; exact hp, hcomp⟩
  · rintro ⟨hr, p, hp, hcomp⟩
    obtain ⟨r, hr1, hr2, _⟩ := hr
    exact ⟨mem_knownActors.mpr (Or.inr (Or.inl ⟨r, hr1, hr2⟩)), p,
      by rw [h3 v ⟨r, hr1, hr2, by assumption⟩]; exact hp, hcomp⟩

/-- **after a restart nothing is pending** -/
theorem restart_noPending {L : Nat → Nat → Nat} {n : Node} (hc : Consistent L n) :
    NoPending n.restart := by
  intro a v p hp hcomp
  rw [restart_booked hc] at hp
  rw [restart_eq']
  have hrc := reloaded_consistent hc
  by_cases hr : HasRows (reloaded n) a v
  · have hr' : HasRows n a v := hr
    obtain ⟨_, _, h3, _, _, _⟩ := reloaded_spec hc a
    have hp' : (n.booked a).partial? v = some p := by rw [← h3 v hr']; exact hp
    exact not_hasRows_applyAll hp hcomp ((mem_restartTasks_cons hc a v).mpr ⟨hr', p, hp', hcomp⟩)
  · exact fun h => hr (hasRows_applyAll_sub h)

end Corro.Node
