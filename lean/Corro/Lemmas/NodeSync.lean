/-
`generate_sync` (`Node.syncState`) as a function of the per-actor bookkeeping lookups: two nodes with
sorted actor maps whose bookkeeping agrees actor by actor (head, needed, incomplete partials)
advertise the same sync state.
-/
import Corro.Lemmas.NodeRoundtrip
namespace Corro.Node
open Corro.Crdt

/-! ### sorted association lists -/

section Assoc
variable {β γ : Type}

/-- keep the entries on which `g` is defined, with the value `g` gives -/
def nf (g : β → Option γ) (l : List (Nat × β)) : List (Nat × γ) :=
  l.filterMap (fun e => (g e.2).map (fun y => (e.1, y)))

theorem nf_cons (g : β → Option γ) (e : Nat × β) (l : List (Nat × β)) :
    nf g (e :: l) = match g e.2 with | some y => (e.1, y) :: nf g l | none => nf g l := by
  unfold nf
  cases h : g e.2 <;> simp [h]

theorem nf_key_mem {g : β → Option γ} {l : List (Nat × β)} {x : Nat × γ} (h : x ∈ nf g l) :
    ∃ e ∈ l, e.1 = x.1 := by
  unfold nf at h
  obtain ⟨e, he, h1⟩ := List.mem_filterMap.mp h
  cases hg : g e.2 with
  | none => rw [hg] at h1; cases h1
  | some y => rw [hg] at h1; simp only [Option.map_some, Option.some.injEq] at h1; exact ⟨e, he, by rw [← h1]⟩

theorem nf_sorted (g : β → Option γ) {l : List (Nat × β)} (h : l.Pairwise (fun x y => x.1 < y.1)) :
    (nf g l).Pairwise (fun x y => x.1 < y.1) := by
  induction l with
  | nil => exact List.Pairwise.nil
  | cons e l ih =>
    have h' := List.pairwise_cons.mp h
    rw [nf_cons]
    cases hg : g e.2 with
    | none => exact ih h'.2
    | some y =>
      refine List.pairwise_cons.mpr ⟨?_, ih h'.2⟩
      intro x hx
      obtain ⟨e', he', hk⟩ := nf_key_mem hx
      have := h'.1 e' he'
      simp only; omega

theorem alook_none_of_lt {l : List (Nat × β)} {k : Nat} (h : ∀ e ∈ l, k < e.1) : alook l k = none :=
  alook_eq_none.mpr (fun e he hk => by have := h e he; omega)

theorem nf_alook (g : β → Option γ) {l : List (Nat × β)} (h : l.Pairwise (fun x y => x.1 < y.1)) (k : Nat) :
    alook (nf g l) k = (alook l k).bind g := by
  induction l with
  | nil => rfl
  | cons e l ih =>
    have h' := List.pairwise_cons.mp h
    rw [nf_cons, alook_cons]
    by_cases hk : e.1 = k
    · subst hk
      rw [if_pos rfl]
      cases hg : g e.2 with
      | none =>
        simp only [Option.bind_some, hg]
        rw [ih h'.2, alook_none_of_lt h'.1]; rfl
      | some y => simp [alook_cons, hg]
    · rw [if_neg hk]
      cases hg : g e.2 with
      | none => exact ih h'.2
      | some y => simp only; rw [alook_cons, if_neg hk]; exact ih h'.2

theorem assoc_ext : ∀ {l₁ l₂ : List (Nat × γ)}, l₁.Pairwise (fun x y => x.1 < y.1) →
    l₂.Pairwise (fun x y => x.1 < y.1) → (∀ k, alook l₁ k = alook l₂ k) → l₁ = l₂ := by
  intro l₁
  induction l₁ with
  | nil =>
    intro l₂ _ _ h
    cases l₂ with
    | nil => rfl
    | cons b t => have := h b.1; rw [alook_cons, if_pos rfl] at this; cases this
  | cons a s ih =>
    intro l₂ h1 h2 h
    cases l₂ with
    | nil => have := h a.1; rw [alook_cons, if_pos rfl] at this; cases this
    | cons b t =>
      have h1' := List.pairwise_cons.mp h1
      have h2' := List.pairwise_cons.mp h2
      have hk : a.1 = b.1 := by
        have ha := h a.1
        have hb := h b.1
        rw [alook_cons, if_pos rfl, alook_cons] at ha
        rw [alook_cons, alook_cons, if_pos rfl] at hb
        by_cases hab : a.1 = b.1
        · exact hab
        · exfalso
          rw [if_neg (fun h' => hab h'.symm)] at ha
          rw [if_neg hab] at hb
          have m1 := alook_some_mem ha.symm
          have m2 := alook_some_mem hb
          have := h2'.1 _ m1
          have := h1'.1 _ m2
          simp only at *
          omega
      have hv : a.2 = b.2 := by
        have ha := h a.1
        rw [alook_cons, if_pos rfl, alook_cons, if_pos hk.symm] at ha
        exact Option.some.inj ha
      have hab : a = b := Prod.ext hk hv
      subst hab
      congr 1
      apply ih h1'.2 h2'.2
      intro k
      have := h k
      rw [alook_cons, alook_cons] at this
      by_cases hka : a.1 = k
      · subst hka
        rw [alook_none_of_lt h1'.1, alook_none_of_lt h2'.1]
      · rw [if_neg hka, if_neg hka] at this; exact this

theorem nf_congr (g : β → Option γ) {l₁ l₂ : List (Nat × β)} (h1 : l₁.Pairwise (fun x y => x.1 < y.1))
    (h2 : l₂.Pairwise (fun x y => x.1 < y.1)) (h : ∀ k, (alook l₁ k).bind g = (alook l₂ k).bind g) :
    nf g l₁ = nf g l₂ :=
  assoc_ext (nf_sorted g h1) (nf_sorted g h2) (fun k => by rw [nf_alook g h1, nf_alook g h2]; exact h k)

end Assoc

/-! ### `syncState` in normal form -/

def gP (p : Partial) : Option RSet := if p.complete then none else some (RSet.gaps p.seqs (0, p.last))

def gH (b : Booked) : Option Nat := if b.max ≠ 0 then some b.max else none

def gN (b : Booked) : Option RSet :=
  if b.max ≠ 0 then (if b.needed.isEmpty then none else some b.needed) else none

def gPN (b : Booked) : Option (List (Nat × RSet)) :=
  if b.max ≠ 0 then (if (nf gP b.partials).isEmpty then none else some (nf gP b.partials)) else none

theorem partials_nf (ps : List (Nat × Partial)) :
    ps.filterMap (fun vp => if vp.2.complete then none else some (vp.1, RSet.gaps vp.2.seqs (0, vp.2.last))) =
      nf gP ps := by
  unfold nf
  congr 1
  funext vp
  unfold gP
  split <;> rfl

theorem syncState_nf (n : Node) :
    n.syncState = ⟨n.id, nf gH n.book, nf gN n.book, nf gPN n.book⟩ := by
  unfold Node.syncState
  simp only
  congr 1
  · induction n.book with
    | nil => rfl
    | cons e l ih =>
      rw [nf_cons]
      by_cases h : e.2.max ≠ 0
      · rw [List.filter_cons_of_pos (by simpa using h), List.map_cons, ih]
        simp [gH, h]
      · rw [List.filter_cons_of_neg (by simpa using h), ih]
        simp [gH, h]
  · induction n.book with
    | nil => rfl
    | cons e l ih =>
      rw [nf_cons]
      by_cases h : e.2.max ≠ 0
      · rw [List.filter_cons_of_pos (by simpa using h), List.filterMap_cons]
        by_cases h2 : e.2.needed.isEmpty = true
        · simp only [h2, if_true]; rw [ih]; simp [gN, h, h2]
        · simp only [h2, Bool.false_eq_true, if_false]; rw [ih]; simp [gN, h, h2]
      · rw [List.filter_cons_of_neg (by simpa using h), ih]
        simp [gN, h]
  · simp only [partials_nf]
    induction n.book with
    | nil => rfl
    | cons e l ih =>
      rw [nf_cons]
      by_cases h : e.2.max ≠ 0
      · rw [List.filter_cons_of_pos (by simpa using h), List.filterMap_cons]
        by_cases h2 : (nf gP e.2.partials).isEmpty = true
        · simp only [h2, if_true]; rw [ih]; simp [gPN, h, h2]
        · simp only [h2, Bool.false_eq_true, if_false]; rw [ih]; simp [gPN, h, h2]
      · rw [List.filter_cons_of_neg (by simpa using h), ih]
        simp [gPN, h]

/-! ### congruence -/

/-- the two bookkeepings advertise the same: head, needed, and gaps of the incomplete partials -/
def BookEqv (b b' : Booked) : Prop :=
  b.max = b'.max ∧ b.needed = b'.needed ∧ ∀ v, (b.partial? v).bind gP = (b'.partial? v).bind gP

theorem BookEqv.refl (b : Booked) : BookEqv b b := ⟨rfl, rfl, fun _ => rfl⟩

theorem bind_booked (g : Booked → Option γ) (hg : g {} = none) (n : Node) (a : Nat) :
    (alook n.book a).bind g = g (n.booked a) := by
  rw [booked_eq]
  cases alook n.book a with
  | none => exact hg.symm
  | some b => rfl

theorem syncState_congr {A B : Node} (hid : A.id = B.id)
    (hA : A.book.Pairwise (fun x y => x.1 < y.1)) (hB : B.book.Pairwise (fun x y => x.1 < y.1))
    (hkA : ∀ a, (A.booked a).KeysSorted) (hkB : ∀ a, (B.booked a).KeysSorted)
    (h : ∀ a, BookEqv (A.booked a) (B.booked a)) : A.syncState = B.syncState := by
  rw [syncState_nf, syncState_nf, hid]
  have hps : ∀ a, nf gP (A.booked a).partials = nf gP (B.booked a).partials := by
    intro a
    exact nf_congr gP (hkA a) (hkB a) (fun v => (h a).2.2 v)
  congr 1
  · apply nf_congr gH hA hB
    intro a
    rw [bind_booked gH rfl, bind_booked gH rfl]
    unfold gH; rw [(h a).1]
  · apply nf_congr gN hA hB
    intro a
    rw [bind_booked gN rfl, bind_booked gN rfl]
    unfold gN; rw [(h a).1, (h a).2.1]
  · apply nf_congr gPN hA hB
    intro a
    rw [bind_booked gPN rfl, bind_booked gPN rfl]
    unfold gPN; rw [(h a).1, hps a]

end Corro.Node
