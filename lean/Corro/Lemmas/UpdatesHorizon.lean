/-
C14 helper lemmas, part 3: the specification of `filterChanges`, the "room in the cache" sufficient
condition for the horizon hypothesis, and the pieces of the general eviction counterexample.
Core Lean only.
-/
import Corro.Lemmas.UpdatesInv

namespace Corro.Updates

theorem lookup_append (k : Nat) (a b : List Cand) :
    lookup k (a ++ b) = (lookup k a).orElse (fun _ => lookup k b) := by
  induction a with
  | nil => simp [lookup]
  | cons c rest ih =>
    simp only [List.cons_append, lookup]
    split
    · simp
    · exact ih

theorem filter_fold_spec (k : Nat) : ∀ (cs : List Change) (acc : List Cand),
    lookup k (cs.foldl filterOne acc) =
      (lookup k acc).orElse (fun _ => (cs.find? (fun c => c.mine && c.key == k)).map (·.cl)) := by
  intro cs
  induction cs with
  | nil =>
    intro acc
    simp only [List.foldl_nil, List.find?_nil, Option.map_none]
    cases lookup k acc <;> rfl
  | cons c rest ih =>
    intro acc
    simp only [List.foldl_cons, ih, List.find?_cons]
    unfold filterOne
    cases hm : c.mine with
    | false => simp
    | true =>
      simp only [if_true, Bool.true_and]
      by_cases hk : c.key = k
      · subst hk
        simp only [beq_self_eq_true]
        cases hl : lookup c.key acc with
        | some v => simp [hl]
        | none => simp [hl, lookup_append, lookup]
      · have hb : (c.key == k) = false := by simp [hk]
        simp only [hb]
        cases hl : lookup c.key acc with
        | some v => simp
        | none =>
          simp only [Option.isSome_none, Bool.false_eq_true, if_false, lookup_append, lookup, hk, if_false]
          cases lookup k acc <;> simp

theorem filter_fold_nodup : ∀ (cs : List Change) (acc : List Cand),
    (acc.map (·.1)).Nodup → ((cs.foldl filterOne acc).map (·.1)).Nodup := by
  intro cs
  induction cs with
  | nil => intro acc h; exact h
  | cons c rest ih =>
    intro acc h
    simp only [List.foldl_cons]
    apply ih
    unfold filterOne
    split
    · split
      · exact h
      · rename_i hn
        rw [List.map_append, List.nodup_append]
        refine ⟨h, by simp, ?_⟩
        intro a ha b hb
        simp only [List.map_cons, List.map_nil, List.mem_singleton] at hb
        subst hb; intro e; subst e
        exact hn ((lookup_isSome_iff_mem_keys _ _).2 ha)
    · exact h

theorem clsOf_getLast (k : Key) (es : List Event) (m : Nat)
    (h : (clsOf k es).getLast? = some m) : ∃ e, lastEventOf k es = some e ∧ e.cl = m := by
  unfold clsOf at h; unfold lastEventOf
  rw [List.getLast?_map] at h
  cases hl : (es.filter (·.key = k)).getLast? with
  | none => rw [hl] at h; simp at h
  | some e => rw [hl] at h; simp only [Option.map_some, Option.some.injEq] at h; exact ⟨e, rfl, h⟩

theorem length_pushCand_le (s : St) (c : Cand) : (pushCand s c).cache.length ≤ s.cache.length + 1 := by
  unfold pushCand; split
  · omega
  · exact length_upsert_le _ _ _

theorem length_fold_le : ∀ (b : List Cand) (s : St),
    (b.foldl pushCand s).cache.length ≤ s.cache.length + b.length := by
  intro b
  induction b with
  | nil => intro s; simp
  | cons c rest ih =>
    intro s
    have h1 := ih (pushCand s c)
    have h2 := length_pushCand_le s c
    simp only [List.foldl_cons, List.length_cons]; omega

theorem pushCand_keeps_cached {s : St} (c : Cand) {k : Nat} (h : cached k s = true) :
    cached k (pushCand s c) = true := by
  simp only [cached] at h ⊢
  obtain ⟨v, hv⟩ := Option.isSome_iff_exists.1 h
  obtain ⟨v', hv', _⟩ := pushCand_cache_mono c hv
  simp [hv']

theorem fold_keeps_cached {s : St} (b : List Cand) {k : Nat} (h : cached k s = true) :
    cached k (b.foldl pushCand s) = true := by
  induction b generalizing s with
  | nil => exact h
  | cons c rest ih => exact ih (pushCand_keeps_cached c h)

theorem fold_caches_offered : ∀ (b : List Cand) (s : St) (k : Nat),
    offeredIn k (.batch b) ≠ [] → cached k (b.foldl pushCand s) = true := by
  intro b
  induction b with
  | nil => intro s k h; simp [offeredIn] at h
  | cons c rest ih =>
    intro s k h
    simp only [List.foldl_cons]
    by_cases hk : c.1 = k
    · apply fold_keeps_cached
      simp only [cached]
      unfold pushCand
      cases hst : stale s c with
      | true =>
        simp only [if_true]
        unfold stale at hst
        cases hl : lookup c.1 s.cache with
        | none => rw [hl] at hst; simp at hst
        | some v => rw [← hk, hl]; rfl
      | false =>
        simp only [Bool.false_eq_true, if_false]
        rw [← hk, lookup_upsert_self]; rfl
    · apply ih
      simpa [offeredIn, List.filter_cons, hk] using h

/-- While the cache cannot exceed its capacity nothing is evicted: a key that was cached before an
iteration, or is offered in it, is cached after it. -/
theorem keptStep_of_room {p : Params} {k : Nat} {s : St} (x : In)
    (hroom : (folded s x).cache.length ≤ p.cap) : keptStep p k s x := by
  intro h
  simp only [cached, step_cache]
  cases x with
  | tick =>
    simp only [arm]
    rcases h with h | h
    · split <;> simpa [cached] using h
    · simp [offeredIn] at h
  | batch b =>
    have hc : cached k (b.foldl pushCand s) = true := by
      rcases h with h | h
      · exact fold_keeps_cached b h
      · exact fold_caches_offered b s k h
    simp only [folded] at hroom
    have he : evict p (b.foldl pushCand s).cache = (b.foldl pushCand s).cache := by
      unfold evict; rw [if_neg (by omega)]
    simp only [arm]
    split <;> (simp only [he]; simpa [cached] using hc)

theorem step_cache_length_le (p : Params) (s : St) (x : In) :
    (step p s x).1.cache.length ≤ (folded s x).cache.length := by
  rw [step_cache]
  cases x with
  | tick => simp only [arm, folded]; split <;> simp
  | batch b =>
    simp only [arm, folded]
    have : (evict p (b.foldl pushCand s).cache).length ≤ (b.foldl pushCand s).cache.length := by
      unfold evict; split
      · simp
      · omega
    split <;> exact this

theorem folded_length_le (s : St) (x : In) :
    (folded s x).cache.length ≤ s.cache.length + candCount [x] := by
  cases x with
  | tick => simp [folded, candCount]
  | batch b => simpa [folded, candCount] using length_fold_le b s

theorem kept_of_room (p : Params) (k : Nat) : ∀ (xs : List In) (s : St),
    s.cache.length + candCount xs ≤ p.cap → keptThroughout p k s xs = true := by
  intro xs
  induction xs with
  | nil => intro s _; rfl
  | cons x xs ih =>
    intro s h
    have hx : candCount (x :: xs) = candCount [x] + candCount xs := by
      cases x <;> simp [candCount]
    have hf := folded_length_le s x
    have hs := step_cache_length_le p s x
    have hkept : keptStep p k s x := keptStep_of_room x (by omega)
    simp only [keptThroughout, Bool.and_eq_true]
    refine ⟨?_, ih _ (by omega)⟩
    split
    · rename_i hc
      apply hkept
      simp only [Bool.or_eq_true, Bool.not_eq_true', List.isEmpty_eq_false_iff] at hc
      rcases hc with hc | hc
      · exact Or.inl hc
      · exact Or.inr hc
    · rfl

theorem upsert_of_not_mem {k v : Nat} {l : List Cand} (h : k ∉ l.map (·.1)) :
    upsert k v l = l ++ [(k, v)] := by
  induction l with
  | nil => rfl
  | cons c rest ih =>
    simp only [List.map_cons, List.mem_cons, not_or] at h
    unfold upsert
    rw [if_neg (fun e => h.1 e.symm), ih h.2]; rfl

theorem fold_fresh : ∀ (b : List Cand) (s : St),
    (b.map (·.1)).Nodup → (∀ k ∈ b.map (·.1), k ∉ s.cache.map (·.1) ∧ k ∉ s.buf.map (·.1)) →
    b.foldl pushCand s =
      { s with cache := s.cache ++ b, buf := s.buf ++ b, bufCount := s.bufCount + b.length } := by
  intro b
  induction b with
  | nil => intro s _ _; simp
  | cons c rest ih =>
    intro s hn hf
    simp only [List.map_cons, List.nodup_cons] at hn
    have hc := hf c.1 (by simp)
    have hst : stale s c = false := by
      unfold stale; rw [(lookup_eq_none_iff _ _).2 hc.1]
    have hp : pushCand s c =
        { s with cache := s.cache ++ [c], buf := s.buf ++ [c], bufCount := s.bufCount + 1 } := by
      unfold pushCand; rw [hst]
      simp only [Bool.false_eq_true, if_false, upsert_of_not_mem hc.1, upsert_of_not_mem hc.2]
    simp only [List.foldl_cons]
    rw [hp, ih _ hn.2]
    · simp only [List.append_assoc, List.singleton_append, List.length_cons]
      congr 1; omega
    · intro k hk
      have := hf k (by simp [hk])
      simp only [List.map_append, List.map_cons, List.map_nil, List.mem_append, List.mem_singleton, not_or]
      have hne : k ≠ c.1 := by intro e; apply hn.1; rw [← e]; exact hk
      exact ⟨⟨this.1, hne⟩, ⟨this.2, hne⟩⟩

theorem fill_keys (n : Nat) : (fill n).map (·.1) = (List.range n).map (· + 1) := by
  simp [fill, Function.comp_def]

theorem fill_keys_nodup (n : Nat) : ((fill n).map (·.1)).Nodup := by
  rw [fill_keys]
  rw [List.Nodup, List.pairwise_map]
  exact (List.nodup_range (n := n)).imp (by intro a b h; simpa using h)

theorem zero_not_in_fill (n : Nat) : 0 ∉ (fill n).map (·.1) := by
  rw [fill_keys]; simp

theorem lookup_zero_drop_fill (n m : Nat) : lookup 0 ((fill n).drop m) = none := by
  rw [lookup_eq_none_iff, List.map_drop]
  intro h; exact zero_not_in_fill n (List.mem_of_mem_drop h)

theorem clsOf_zero_fill (n : Nat) : clsOf 0 ((fill n).map toEvent) = [] :=
  clsOf_map_toEvent_of_none ((lookup_eq_none_iff _ _).2 (zero_not_in_fill n))

end Corro.Updates
