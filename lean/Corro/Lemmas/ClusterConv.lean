/-
C01, protocol level — liveness under a fairness hypothesis: every node holds its own versions
(`OwnInv`), a lossless session `i ← j` makes `i` hold every foreign version `j` holds
(`sync_step_progress`), hence after writes have stopped any schedule of lossless sessions that
contains a session `i ← a` for every ordered pair ends with every node holding every version
(`allHeld_after_schedule`).
-/
import Corro.Lemmas.ClusterLive

namespace Corro.ClusterSys
open Corro.Crdt Corro.Node

/-! ### node ids -/

theorem clearedNode_id (N : Node) (a vlo vhi : Nat) (B : Booked) : (clearedNode N a vlo vhi B).id = N.id := by
  rw [clearedNode_eq]; split <;> simp

theorem deliver_id (n : Node) (it : Item) : (n.deliver [it]).id = n.id := by
  cases it with
  | empty a vlo vhi =>
    cases hc : (n.booked a).containsAll vlo vhi none with
    | true => rw [deliver_empty_skip n a vlo vhi hc]
    | false =>
      rw [deliver_empty n a vlo vhi hc, clearedNode_id]
      split <;> simp
  | full a v lo hi last cs =>
    cases hc : (n.booked a).containsAll v v (some (lo, hi)) with
    | true => rw [deliver_full_skip n a v lo hi last cs hc]
    | false =>
      by_cases hcomp : lo = 0 ∧ hi = last
      · obtain ⟨rfl, rfl⟩ := hcomp
        by_cases hne : cs = []
        · subst hne
          rw [deliver_full_cleared n a v hi hc, clearedNode_id]
          split <;> simp
        · rw [deliver_full_complete n a v hi cs hc hne, clearedNode_id, mergeChanges_id]
      · by_cases hlt : hi < lo
        · rw [deliver_full_backward n a v lo hi last cs hc hlt]
        · rw [deliver_full_buffer n a v lo hi last cs hc (by omega) hcomp]
          have hb : (bufNode n a v lo hi last cs).id = n.id := by unfold bufNode; simp
          split
          · rw [applyBuffered_id, hb]
          · exact hb

theorem fold_id (items : List Item) (s : Node × List Chg) : (items.foldl deliverOne s).1.id = s.1.id := by
  induction items generalizing s with
  | nil => rfl
  | cons it items ih =>
    rw [List.foldl_cons, ih]
    exact deliver_id s.1 it

/-! ### every node holds its own versions -/

/-- nodes sit at their ids, the log only mentions nodes of the cluster, and every node holds every
version it has produced -/
structure OwnInv (k : Nat) (c : Cluster) : Prop where
  len : c.nodes.length = k
  ids : ∀ (i : Nat) (n : Node), c.nodes[i]? = some n → n.id = i
  sites : ∀ e ∈ c.log, e.1.1 < k
  own : ∀ (i : Nat) (n : Node), c.nodes[i]? = some n → ∀ v, 1 ≤ v → v ≤ c.log.head i → Held n i v

theorem setNode_nodes_self {c : Cluster} {i : Nat} {n : Node} (hi : c.nodes[i]? = some n)
    (s : Node × List Chg) : (c.setNode i s).nodes[i]? = some s.1 := by
  have hlt : i < c.nodes.length := (List.getElem?_eq_some_iff.mp hi).1
  simp [Cluster.setNode, hlt]

theorem setNode_nodes_other {c : Cluster} {i j : Nat} (hij : i ≠ j) (s : Node × List Chg) :
    (c.setNode i s).nodes[j]? = c.nodes[j]? := by
  simp [Cluster.setNode, List.getElem?_set_ne hij]

/-- replacing node `i` by a node with the same id that holds everything it held keeps `OwnInv` -/
theorem ownInv_setNode {k : Nat} {c : Cluster} (h : OwnInv k c) {i : Nat} {n : Node}
    (hi : c.nodes[i]? = some n) {s : Node × List Chg} (hid : s.1.id = n.id)
    (hmono : ∀ a v, Held n a v → Held s.1 a v) : OwnInv k (c.setNode i s) := by
  refine ⟨by simp [Cluster.setNode, h.len], ?_, h.sites, ?_⟩
  · intro j m hj
    by_cases hij : i = j
    · subst hij
      rw [setNode_nodes_self hi] at hj
      cases hj
      rw [hid]; exact h.ids i n hi
    · rw [setNode_nodes_other hij] at hj
      exact h.ids j m hj
  · intro j m hj v h1 h2
    by_cases hij : i = j
    · subst hij
      rw [setNode_nodes_self hi] at hj
      cases hj
      exact hmono i v (h.own i n hi v h1 h2)
    · rw [setNode_nodes_other hij] at hj
      exact h.own j m hj v h1 h2

theorem ownInv_init (k : Nat) : OwnInv k (Cluster.init k) := by
  refine ⟨by simp [Cluster.init], ?_, fun e he => absurd he List.not_mem_nil, ?_⟩
  · intro i n hi
    simp only [Cluster.init, List.getElem?_map] at hi
    cases hr : (List.range k)[i]? with
    | none => rw [hr] at hi; cases hi
    | some x =>
      rw [hr] at hi
      simp only [Option.map_some, Option.some.injEq] at hi
      obtain ⟨hlt, hx⟩ := List.getElem?_eq_some_iff.mp hr
      rw [List.getElem_range] at hx
      rw [← hi, ← hx]; rfl
  · intro i n _ v h1 h2
    have : Log.head (Cluster.init k).log i = 0 := rfl
    omega

theorem reachLive_own {k : Nat} {c : Cluster} (h : ReachLive k c) (hL : LogOK c.log) : OwnInv k c := by
  induction h with
  | init => exact ownInv_init k
  | @step c op hr hlive hok hclean ih =>
    have hL0 := logOK_of_step hL
    have ih := ih hL0
    have hfull := reachLive_inv hr hL0
    cases op with
    | write i stmts =>
      rw [step_write] at hL ⊢
      cases hi : c.nodes[i]? with
      | none => simp only [hi] at hL ⊢; exact ih
      | some n =>
        simp only [hi] at hL ⊢
        split at hL
        · rename_i n' ver chs hw
          simp only at hL
          have hn := hfull.node i n hi
          obtain ⟨_, hheld, hid⟩ := linv_write hn.1 hn.2 hw hL
          have hni := ih.ids i n hi
          have hlt : i < c.nodes.length := (List.getElem?_eq_some_iff.mp hi).1
          have hver : ver = c.log.head n.id + 1 := hL.2.1
          refine ⟨by simp [ih.len], ?_, ?_, ?_⟩
          · intro j m hj
            by_cases hij : i = j
            · subst hij
              simp only [List.getElem?_set_self hlt, Option.some.injEq] at hj
              rw [← hj, hid]; exact hni
            · simp only [List.getElem?_set_ne hij] at hj
              exact ih.ids j m hj
          · intro e he
            rcases List.mem_cons.mp he with rfl | he
            · simp only; rw [hni, ← ih.len]; exact hlt
            · exact ih.sites e he
          · intro j m hj v h1 h2
            rw [head_cons] at h2
            simp only at h2
            by_cases hij : i = j
            · subst hij
              simp only [List.getElem?_set_self hlt, Option.some.injEq] at hj
              rw [← hj]
              rw [if_pos hni] at h2
              rw [hni] at hver
              by_cases hv : v = ver
              · exact (hheld i v).mpr (Or.inl ⟨hni.symm, by omega, by omega⟩)
              · exact (hheld i v).mpr (Or.inr (ih.own i n hi v h1 (by omega)))
            · simp only [List.getElem?_set_ne hij] at hj
              rw [if_neg (by rw [hni]; exact hij)] at h2
              exact ih.own j m hj v h1 h2
        · exact ih
    | deliverOrigin i site ver lo hi =>
      rw [step_deliverOrigin] at hL ⊢
      cases hi' : c.nodes[i]? with
      | none => simp only [hi'] at hL ⊢; exact ih
      | some n =>
        simp only [hi'] at hL ⊢
        split
        · rename_i hg
          simp only [Bool.and_eq_true] at hg
          have hn := hfull.node i n hi'
          have hck := chunkOK_origin (lo := lo) (hi := hi) hL0 hg.1.1
          exact ownInv_setNode ih hi' (deliver_id n _)
            (fun a v hh => (deliver_full_effect hn.1 hn.2 hL0 hck).1 a v hh)
        · exact ih
    | sync i j keep =>
      rw [step_sync] at hL ⊢
      cases hi : c.nodes[i]? with
      | none => simp only [hi] at hL ⊢; exact ih
      | some ni =>
        cases hj : c.nodes[j]? with
        | none => simp only [hi, hj] at hL ⊢; exact ih
        | some nj =>
          simp only [hi, hj] at hL ⊢
          split
          · exact ih
          · have hni := hfull.node i ni hi
            have hnj := hfull.node j nj hj
            have hck : ∀ it ∈ pick (answers ni nj) keep, ChunkOK c.log it :=
              fun it hit => chunkOK_answers hnj.1 hnj.2 hL0 (clean_node hclean hj) (mem_pick hit)
            exact ownInv_setNode ih hi (fold_id _ _)
              (fun a v hh => fold_held_mono hL0 _ (ni, c.R i) hni.1 hni.2 hck hh)
    | kill i => cases hlive
    | restart i => cases hlive

/-! ### one lossless session -/

/-- **`sync_round_progress`.**  In a cluster reachable under R1–R4, from a clean state, a session of
client `i` with server `j` in which every answer is delivered (`pick … keep = answers`) leaves `i`
holding every version of every actor other than `i` that `j` holds — and everything `i` held. -/
theorem sync_step_progress {k : Nat} {c : Cluster} (h : ReachLive k c) (hL : LogOK c.log)
    (hcl : c.clean = true) {i j : Nat} (hij : i ≠ j) {ni nj : Node} (hi : c.nodes[i]? = some ni)
    (hj : c.nodes[j]? = some nj) {keep : List Nat} (hkeep : pick (answers ni nj) keep = answers ni nj) :
    ∃ ni', (step c (.sync i j keep)).nodes[i]? = some ni' ∧
      (∀ a v, a ≠ i → 1 ≤ v → Held nj a v → Held ni' a v) ∧ (∀ a v, Held ni a v → Held ni' a v) := by
  have hfull := reachLive_inv h hL
  have hown := reachLive_own h hL
  have hni := hfull.node i ni hi
  have hnj := hfull.node j nj hj
  have hck : ∀ it ∈ answers ni nj, ChunkOK c.log it :=
    fun it hit => chunkOK_answers hnj.1 hnj.2 hL (clean_node hcl hj) hit
  rw [step_sync]
  simp only [hi, hj, if_neg hij, hkeep]
  refine ⟨_, setNode_nodes_self hi _, ?_, ?_⟩
  · intro a v ha hv hh
    exact session_progress hL hni.1 hni.2 hnj.1 hnj.2 (clean_node hcl hj)
      (by rw [hown.ids i ni hi]; exact ha) hv hh
  · intro a v hh
    exact fold_held_mono hL _ (ni, c.R i) hni.1 hni.2 hck hh

/-! ### a schedule of lossless sessions -/

/-- every op of the run is a sync session, executed from a clean state, in which every answer is
delivered -/
def LosslessRun : Cluster → List Op → Prop
  | _, [] => True
  | c, op :: ops =>
    (∃ i j keep, op = .sync i j keep ∧
      ∀ (ni nj : Node), c.nodes[i]? = some ni → c.nodes[j]? = some nj → pick (answers ni nj) keep = answers ni nj) ∧
    c.clean = true ∧ LosslessRun (step c op) ops

/-- node `i` holds every version of actor `a` -/
def HoldsAll (c : Cluster) (i a : Nat) : Prop :=
  ∀ (n : Node), c.nodes[i]? = some n → ∀ v, 1 ≤ v → v ≤ c.log.head a → Held n a v

theorem sync_log (c : Cluster) (i j : Nat) (keep : List Nat) : (step c (.sync i j keep)).log = c.log := by
  rw [step_sync]
  split
  · split <;> rfl
  · rfl

theorem sync_nodes_other (c : Cluster) (i j : Nat) (keep : List Nat) {m : Nat} (hm : i ≠ m) :
    (step c (.sync i j keep)).nodes[m]? = c.nodes[m]? := by
  rw [step_sync]
  split
  · split
    · rfl
    · exact setNode_nodes_other hm _
  · rfl

theorem reachLive_sync {k : Nat} {c : Cluster} (h : ReachLive k c) (hcl : c.clean = true) (i j : Nat)
    (keep : List Nat) : ReachLive k (step c (.sync i j keep)) :=
  ReachLive.step (.sync i j keep) h rfl trivial hcl

/-- a sync session never loses `HoldsAll` -/
theorem holdsAll_sync {k : Nat} {c : Cluster} (h : ReachLive k c) (hL : LogOK c.log) (hcl : c.clean = true)
    (i j : Nat) (keep : List Nat) {m a : Nat} (hm : HoldsAll c m a) :
    HoldsAll (step c (.sync i j keep)) m a := by
  intro n hn v h1 h2
  rw [sync_log] at h2
  by_cases him : i = m
  · subst him
    rw [step_sync] at hn
    cases hi : c.nodes[i]? with
    | none => simp only [hi] at hn; cases hn
    | some ni =>
      cases hj : c.nodes[j]? with
      | none => simp only [hi, hj] at hn; cases hn; exact hm _ hi v h1 h2
      | some nj =>
        simp only [hi, hj] at hn
        split at hn
        · rw [hi] at hn; cases hn; exact hm _ hi v h1 h2
        · rw [setNode_nodes_self hi] at hn
          cases hn
          have hfull := reachLive_inv h hL
          have hni := hfull.node i ni hi
          have hnj := hfull.node j nj hj
          exact fold_held_mono hL _ (ni, c.R i) hni.1 hni.2
            (fun it hit => chunkOK_answers hnj.1 hnj.2 hL (clean_node hcl hj) (mem_pick hit))
            (hm ni hi v h1 h2)
  · rw [sync_nodes_other c i j keep him] at hn
    exact hm n hn v h1 h2

/-- **`eventual_convergence`, the bookkeeping half.**  Start from a cluster reachable under R1–R4
with a well-formed log, and run ANY schedule `ops` of lossless sync sessions from clean states (no
more writes).  If for every ordered pair of distinct nodes `(i, a)` the schedule contains a session
`i ← a`, then at the end every node holds every version of every actor. -/
theorem allHeld_after_schedule {k : Nat} {c : Cluster} (h : ReachLive k c) (hL : LogOK c.log)
    (ops : List Op) (hrun : LosslessRun c ops)
    (hcov : ∀ i a, i < k → a < k → HoldsAll c i a ∨ (i ≠ a ∧ ∃ keep, Op.sync i a keep ∈ ops)) :
    ReachLive k (run c ops) ∧ (run c ops).log = c.log ∧
      ∀ i a, i < k → a < k → HoldsAll (run c ops) i a := by
  induction ops generalizing c with
  | nil =>
    refine ⟨h, rfl, ?_⟩
    intro i a hi ha
    rcases hcov i a hi ha with h1 | ⟨_, _, h2⟩
    · exact h1
    · cases h2
  | cons op ops ih =>
    obtain ⟨⟨i0, j0, keep0, rfl, hless⟩, hcl, hrest⟩ := hrun
    have hr' := reachLive_sync h hcl i0 j0 keep0
    have hlog := sync_log c i0 j0 keep0
    have hL' : LogOK (step c (.sync i0 j0 keep0)).log := by rw [hlog]; exact hL
    have := ih hr' hL' hrest ?_
    · refine ⟨this.1, this.2.1.trans hlog, this.2.2⟩
    · intro i a hi ha
      rcases hcov i a hi ha with h1 | ⟨hne, keep, hmem⟩
      · exact Or.inl (holdsAll_sync h hL hcl i0 j0 keep0 h1)
      · rcases List.mem_cons.mp hmem with heq | hmem
        · -- this is the session `i ← a`
          simp only [Op.sync.injEq] at heq
          obtain ⟨rfl, rfl, rfl⟩ := heq
          left
          have hown := reachLive_own h hL
          have hlen := hown.len
          obtain ⟨ni, hni⟩ : ∃ ni, c.nodes[i]? = some ni :=
            ⟨c.nodes[i]'(by omega), List.getElem?_eq_getElem (by omega)⟩
          obtain ⟨na, hna⟩ : ∃ na, c.nodes[a]? = some na :=
            ⟨c.nodes[a]'(by omega), List.getElem?_eq_getElem (by omega)⟩
          obtain ⟨ni', h1, h2, _⟩ := sync_step_progress h hL hcl hne hni hna (hless ni na hni hna)
          intro n hn v hv1 hv2
          rw [h1] at hn
          cases hn
          rw [hlog] at hv2
          exact h2 a v (fun h => hne h.symm) hv1 (hown.own a na hna v hv1 hv2)
        · exact Or.inr ⟨hne, keep, hmem⟩


/-! ### checking a concrete schedule -/

def losslessOp (c : Cluster) : Op → Bool
  | .sync i j keep =>
    match c.nodes[i]?, c.nodes[j]? with
    | some ni, some nj => decide (pick (answers ni nj) keep = answers ni nj)
    | _, _ => true
  | _ => false

def losslessCheck : Cluster → List Op → Bool
  | _, [] => true
  | c, op :: ops => losslessOp c op && c.clean && losslessCheck (step c op) ops

theorem losslessRun_of_check {c : Cluster} {ops : List Op} (h : losslessCheck c ops = true) :
    LosslessRun c ops := by
  induction ops generalizing c with
  | nil => trivial
  | cons op ops ih =>
    unfold losslessCheck at h
    simp only [Bool.and_eq_true] at h
    obtain ⟨⟨h1, h2⟩, h3⟩ := h
    refine ⟨?_, h2, ih h3⟩
    cases op with
    | sync i j keep =>
      refine ⟨i, j, keep, rfl, ?_⟩
      intro ni nj hi hj
      have h1' : (match c.nodes[i]?, c.nodes[j]? with
          | some ni, some nj => decide (pick (answers ni nj) keep = answers ni nj)
          | _, _ => true) = true := h1
      rw [hi, hj] at h1'
      exact of_decide_eq_true h1'
    | write => cases h1
    | deliverOrigin => cases h1
    | kill => cases h1
    | restart => cases h1

/-- keeping the first `N` answers in order, with `N` at least the number of answers, is lossless -/
theorem pick_range (l : List Item) (N : Nat) (h : l.length ≤ N) : pick l (List.range N) = l := by
  unfold pick
  induction l generalizing N with
  | nil =>
    apply List.filterMap_eq_nil_iff.mpr
    intro k _
    rfl
  | cons x xs ih =>
    cases N with
    | zero => simp at h
    | succ M =>
      rw [List.range_succ_eq_map, List.filterMap_cons]
      simp only [List.getElem?_cons_zero, List.filterMap_map]
      congr 1
      have := ih M (by simpa using h)
      have hf : ((fun k => (x :: xs)[k]?) ∘ fun x => x + 1) = fun k => xs[k]? := by
        funext k; simp
      rw [hf]
      exact this

/-- one round of sessions over all ordered pairs of distinct nodes, every session keeping the first
`N` answers in order -/
def allPairs (k N : Nat) : List Op :=
  (List.range k).flatMap (fun i => (List.range k).filterMap (fun a =>
    if i = a then none else some (Op.sync i a (List.range N))))

theorem allPairs_covers {k N i a : Nat} (hi : i < k) (ha : a < k) (hne : i ≠ a) :
    Op.sync i a (List.range N) ∈ allPairs k N := by
  unfold allPairs
  refine List.mem_flatMap.mpr ⟨i, List.mem_range.mpr hi, List.mem_filterMap.mpr ⟨a, List.mem_range.mpr ha, ?_⟩⟩
  rw [if_neg hne]

end Corro.ClusterSys
