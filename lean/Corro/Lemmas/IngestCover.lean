/-
What the duplicate cache's lookup means (C10): a changeset some part of which nothing in the pool
carries is not suppressed; a suppressed changeset is carried, part by part, by the pool.
-/
import Corro.Lemmas.IngestInv

namespace Corro.Ingest
open Corro Corro.Node

theorem not_suppressed_of_fresh {P : List Item} {sn : Seen} {it : Item}
    (hs : SoundWrt P sn) (hf : Fresh P it) : suppresses sn it = false := by
  cases it with
  | full site ver lo hi last cs =>
    obtain ⟨x, hx1, hx2, hno⟩ := hf
    cases hg : sn.get? (site, ver) with
    | none => simp [suppresses, hg]
    | some rs =>
      simp only [suppresses, hg]
      apply Bool.eq_false_iff.2
      intro hall
      rw [List.all_eq_true] at hall
      have hc := hall (x - lo) (by simp; omega)
      have hx : lo + (x - lo) = x := by omega
      rw [hx] at hc
      have hmem := (RSet.contains_iff rs x).1 hc
      obtain ⟨i, hi, hcov⟩ := (hs _ (get?_some_mem hg)).2 x hmem
      exact hno i hi hcov
  | empty site vlo vhi =>
    obtain ⟨v, hv1, hv2, hno⟩ := hf
    simp only [suppresses]
    apply Bool.eq_false_iff.2
    intro hall
    rw [List.all_eq_true] at hall
    have hc := hall (v - vlo) (by simp; omega)
    have hv : vlo + (v - vlo) = v := by omega
    rw [hv] at hc
    obtain ⟨e, he, hk⟩ := (hasKey_iff sn (site, v)).1 hc
    obtain ⟨⟨i, hi, hb⟩, _⟩ := hs e he
    rw [hk] at hb
    exact hno i hi hb

theorem coveredBy_self (it : Item) {D : List Item} (h : it ∈ D) : CoveredBy D it := by
  cases it with
  | full site ver lo hi last cs =>
    intro x h1 h2
    exact ⟨_, h, ⟨rfl, Nat.le_refl _, Nat.le_refl _⟩, (lo, hi), rfl, h1, h2⟩
  | empty site vlo vhi =>
    intro v h1 h2
    exact ⟨_, h, rfl, h1, h2⟩

theorem coveredBy_mono {D D' : List Item} {it : Item} (h : ∀ i ∈ D, i ∈ D') (hc : CoveredBy D it) :
    CoveredBy D' it := by
  cases it with
  | full site ver lo hi last cs =>
    intro x h1 h2
    obtain ⟨i, hi', hcov⟩ := hc x h1 h2
    exact ⟨i, h i hi', hcov⟩
  | empty site vlo vhi =>
    intro v h1 h2
    obtain ⟨i, hi', hb⟩ := hc v h1 h2
    exact ⟨i, h i hi', hb⟩

theorem coveredBy_of_suppressed {P : List Item} {sn : Seen} {it : Item}
    (hs : SoundWrt P sn) (h : suppresses sn it = true) : CoveredBy P it := by
  cases it with
  | full site ver lo hi last cs =>
    cases hg : sn.get? (site, ver) with
    | none => simp [suppresses, hg] at h
    | some rs =>
      simp only [suppresses, hg] at h
      rw [List.all_eq_true] at h
      intro x h1 h2
      have hc := h (x - lo) (by simp; omega)
      have hx : lo + (x - lo) = x := by omega
      rw [hx] at hc
      exact (hs _ (get?_some_mem hg)).2 x ((RSet.contains_iff rs x).1 hc)
  | empty site vlo vhi =>
    simp only [suppresses] at h
    rw [List.all_eq_true] at h
    intro v h1 h2
    have hc := h (v - vlo) (by simp; omega)
    have hv : vlo + (v - vlo) = v := by omega
    rw [hv] at hc
    obtain ⟨e, he, hk⟩ := (hasKey_iff sn (site, v)).1 hc
    obtain ⟨⟨i, hi, hb⟩, _⟩ := hs e he
    rw [hk] at hb
    exact ⟨i, hi, hb⟩

theorem coveredBy_of_inverted {D : List Item} {it : Item} (h : inverted it = true) : CoveredBy D it := by
  cases it with
  | full site ver lo hi last cs =>
    intro x h1 h2
    simp only [inverted, decide_eq_true_eq] at h
    omega
  | empty site vlo vhi => simp [inverted] at h

end Corro.Ingest
