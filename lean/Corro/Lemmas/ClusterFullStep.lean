/-
C01, protocol level, BATCHES AND CRASHES — the cluster invariant `NInv ∧ KInv` (`Crash.FullK`) of every
node is preserved by EVERY step of the batched cluster model `ClusterSys.stepB`: local writes, batches
of original chunks, sync sessions processed in batches, `kill`, `restart` — in any order
(`reachF_inv`).  `ReachF` = all runs of `stepB` whose write steps satisfy `OpOK` and in whose sync
steps the SERVER is clean.
-/
import Corro.Lemmas.ClusterFullDeliver
import Corro.Lemmas.ClusterBatchStep

namespace Corro.ClusterSys.Full
open Corro.Crdt Corro.Node

/-! ### reachability -/

/-- the side condition of a step beyond `OpOKB`: the SERVER of a sync session has no sequence row
without a buffered row of its version (`nodeClean`) -/
def serverCleanB (c : Cluster) : OpB → Bool
  | .syncB _ j _ =>
    match c.nodes[j]? with
    | some nj => nodeClean nj
    | none => true
  | _ => true

theorem serverCleanB_of_clean {c : Cluster} (h : c.clean = true) (op : OpB) : serverCleanB c op = true := by
  cases op with
  | syncB i j batches =>
    cases hj : c.nodes[j]? with
    | none => simp only [serverCleanB, hj]
    | some nj => simp only [serverCleanB, hj]; exact clean_node h hj
  | write => rfl
  | deliverOrigins => rfl
  | kill => rfl
  | restart => rfl

theorem serverCleanB_sync {c : Cluster} {i j : Nat} {batches : List (List Pick)}
    (h : serverCleanB c (.syncB i j batches) = true) {nj : Node} (hj : c.nodes[j]? = some nj) :
    nodeClean nj = true := by
  simp only [serverCleanB, hj] at h
  exact h

/-- clusters reachable from `k` fresh nodes by ANY steps of the batched model — writes, batches of
original chunks, sync sessions in batches, `kill`, `restart`, in any order — whose write steps satisfy
`OpOK` (R3) and in whose sync steps the SERVER is clean (R4') -/
inductive ReachF (k : Nat) : Cluster → Prop
  | init : ReachF k (Cluster.init k)
  | step {c : Cluster} (op : OpB) : ReachF k c → OpOKB c op → serverCleanB c op = true →
      ReachF k (stepB c op)

theorem ReachF.reachB {k : Nat} {c : Cluster} (h : ReachF k c) : ReachB k c := by
  induction h with
  | init => exact ReachB.init
  | step op _ hok _ ih => exact ReachB.step op ih hok

/-- a crash-free run of the batched model through clean states is such a run -/
theorem reachF_of_reachLiveB {k : Nat} {c : Cluster} (h : ReachLiveB k c) : ReachF k c := by
  induction h with
  | init => exact ReachF.init
  | step op _ _ hok hcl ih => exact ReachF.step op ih hok (serverCleanB_of_clean hcl op)

/-! ### what the batches of a step consist of -/

theorem chunkOK_pickBatches {P : Nat → Nat → Prop} {L : Log} {ni nj : Node} {Rj : List Chg}
    (hN : NInv L nj Rj) (hI : Crash.CInv P L nj Rj)
    (hL : LogOK L) (hcl : nodeClean nj = true) (batches : List (List Pick)) :
    ∀ b ∈ batches.map (pickBatch L (answers ni nj)), ∀ it ∈ b, ChunkOK L it := by
  intro b hb it hit
  obtain ⟨ps, _, rfl⟩ := List.mem_map.mp hb
  rcases mem_pickBatch hit with h | ⟨site, ver, lo, hi, hhas, rfl⟩
  · exact Crash.chunkOK_answers hN hI hL hcl h
  · exact chunkOK_origin hL hhas

/-! ### the invariant of reachable clusters -/

/-- **`held_inv`, cluster level, batches and crashes**: in every cluster reachable by any steps of the
batched model (sync steps with a clean server), with a well-formed log, every node — dead or alive —
satisfies the full invariant -/
theorem reachF_inv {k : Nat} {c : Cluster} (h : ReachF k c) (hL : LogOK c.log) :
    AllNodes (Crash.FullK c.log) c := by
  induction h with
  | init => exact allNodes_init _ k (fun i => ⟨ninv_fresh i, Crash.cinv_fresh _ i⟩)
  | @step c op _ hok hclean ih =>
    have hL0 := logOK_of_stepB hL
    have ih := ih hL0
    cases op with
    | write i stmts =>
      rw [stepB_write, step_write] at hL ⊢
      cases hi : c.nodes[i]? with
      | none => simp only [hi] at hL ⊢; exact ih
      | some n =>
        simp only [hi] at hL ⊢
        split at hL
        · rename_i n' ver chs hw
          simp only at hL
          have ih' : AllNodes (Crash.FullK (((n.id, ver), chs) :: c.log))
              ({ c with log := ((n.id, ver), chs) :: c.log } : Cluster) :=
            allNodes_mono ih rfl rfl (fun _ _ h => ⟨h.1.cons_log _, h.2.cons_log h.1.rsub hL⟩)
          have hn := ih.node i n hi
          obtain ⟨h1, _, _, _, hal, _⟩ := Crash.cinv_write hn.1 hn.2 hw hL
          exact allNodes_setNode (c := { c with log := ((n.id, ver), chs) :: c.log }) ih' hi
            (s := (n', chs ++ c.R i))
            ⟨ninv_write hn.1 hw (opOK_write hok hi) hL, h1.mono (fun _ _ h => by rw [hal]; exact h)⟩
        · exact ih
    | deliverOrigins i chunks =>
      rw [stepB_deliverOrigins] at hL ⊢
      cases hi' : c.nodes[i]? with
      | none => simp only [hi'] at hL ⊢; exact ih
      | some n =>
        simp only [hi'] at hL ⊢
        have hn := ih.node i n hi'
        have hck : ∀ it ∈ originBatch c.log chunks, ChunkOK c.log it := by
          intro it hit
          obtain ⟨site, ver, lo, hi, hhas, rfl⟩ := mem_originBatch hit
          exact chunkOK_origin hL0 hhas
        exact allNodes_setNode ih hi'
          ⟨ninv_deliverB hn.1 hL0 (fun it hit => chunkOK_changes hL0 (hck it hit)),
            kinv_deliverB hn.1 hn.2 hL0 hck⟩
    | syncB i j batches =>
      rw [stepB_syncB] at hL ⊢
      cases hi : c.nodes[i]? with
      | none => simp only [hi] at hL ⊢; exact ih
      | some ni =>
        cases hj : c.nodes[j]? with
        | none => simp only [hi, hj] at hL ⊢; exact ih
        | some nj =>
          simp only [hi, hj] at hL ⊢
          split
          · exact ih
          · have hni := ih.node i ni hi
            have hnj := ih.node j nj hj
            exact allNodes_setNode ih hi (deliverB_fold_kinv hL0 _ (ni, c.R i) hni.1 hni.2
              (chunkOK_pickBatches hnj.1 hnj.2 hL0 (serverCleanB_sync hclean hj) batches))
    | kill i =>
      rw [stepB_kill, step_kill] at hL ⊢
      cases hi : c.nodes[i]? with
      | none => simp only [hi] at hL ⊢; exact ih
      | some n =>
        simp only [hi] at hL ⊢
        have hn := ih.node i n hi
        exact allNodes_setNode ih hi (s := (n.kill, c.R i)) ⟨ninv_kill hn.1, Crash.kinv_kill hn.2⟩
    | restart i =>
      rw [stepB_restart, step_restart] at hL ⊢
      cases hi : c.nodes[i]? with
      | none => simp only [hi] at hL ⊢; exact ih
      | some n =>
        simp only [hi] at hL ⊢
        have hn := ih.node i n hi
        exact allNodes_setNode ih hi (s := (n.restart, restartMerged n ++ c.R i))
          ⟨ninv_restart hn.1 hL0, Crash.kinv_restart hn.2 hL0⟩

/-! ### checking a concrete run -/

/-- every step of the run satisfies its side condition, and the server of every sync step is
clean -/
def runOKF : Cluster → List OpB → Prop
  | _, [] => True
  | c, op :: ops => OpOKB c op ∧ serverCleanB c op = true ∧ runOKF (stepB c op) ops

instance : (c : Cluster) → (ops : List OpB) → Decidable (runOKF c ops)
  | _, [] => isTrue trivial
  | c, op :: ops =>
    have := instDecidableRunOKF (stepB c op) ops
    by unfold runOKF; exact inferInstance

theorem reachF_run {k : Nat} {c : Cluster} (h : ReachF k c) (ops : List OpB) (hok : runOKF c ops) :
    ReachF k (runB c ops) := by
  induction ops generalizing c with
  | nil => exact h
  | cons op ops ih =>
    obtain ⟨h1, h2, h3⟩ := hok
    exact ih (ReachF.step op h h1 h2) h3

end Corro.ClusterSys.Full
