/-
C01, protocol level — the per-node invariants of the cluster model and their preservation by the
delivery of ONE changeset (`Node.deliver [it]`):

* `NInv L n R` (any node, dead or alive): the store is a merge of exactly the ghost list `R`, every
  live entry is literally a change of `R`, `R` and the buffered rows consist of changes of the log;
* `LInv L n R` (alive nodes): the bookkeeping is structurally sound, every received seq range of a
  partially held version is backed by buffered rows or dominated changes (`cover`), and **`held`**:
  every change of a version the node books as held is merged or dominated in the log;
* `ChunkOK L it`: what a changeset must satisfy to be delivered — shown for original chunks in
  `ClusterStep.lean` and for everything a sync server sends in `ClusterServe.lean`.
-/
import Corro.Lemmas.ClusterLog
import Corro.Lemmas.ClusterDeliver

namespace Corro.ClusterSys
open Corro.Crdt Corro.Node

/-! ### definitions -/

/-- store-level invariant of a node with ghost list `R`, relative to the log `L` -/
structure NInv (L : Log) (n : Node) (R : List Chg) : Prop where
  store : StoreOK n.db R
  rsub : ∀ e ∈ R, e ∈ L.all
  bufsub : ∀ e ∈ n.buf, e ∈ L.all

/-- **node `n` books `(a, v)` as held**: `v` is within the head and not needed, and if there is a
partial for it, it is complete and applied (its sequence rows are gone) -/
def Held (n : Node) (a v : Nat) : Prop :=
  (n.booked a).containsVersion v = true ∧
  ∀ p, (n.booked a).partial? v = some p → p.complete = true ∧ ¬ HasRows n a v

instance (n : Node) (a v : Nat) : Decidable (HasRows n a v) := by unfold HasRows; exact inferInstance

instance (n : Node) (a v : Nat) : Decidable (Held n a v) :=
  match h : (n.booked a).partial? v with
  | none =>
    if hc : (n.booked a).containsVersion v = true then
      isTrue ⟨hc, fun p hp => by rw [h] at hp; cases hp⟩
    else isFalse (fun hh => hc hh.1)
  | some p =>
    if hc : (n.booked a).containsVersion v = true ∧ p.complete = true ∧ ¬ HasRows n a v then
      isTrue ⟨hc.1, fun q hq => by rw [h] at hq; cases hq; exact hc.2⟩
    else isFalse (fun hh => hc ⟨hh.1, hh.2 p h⟩)

/-- invariant of an alive node with ghost list `R`, relative to the log `L` -/
structure LInv (L : Log) (n : Node) (R : List Chg) : Prop where
  alive : n.alive = true
  sorted : n.book.Pairwise (fun x y => x.1 < y.1)
  needed_wf : ∀ a, RSet.WF (n.booked a).needed
  pwf : ∀ a, (n.booked a).PWF
  keys : ∀ a, (n.booked a).KeysSorted
  rows_fwd : ∀ r ∈ n.seqRows, r.lo ≤ r.hi
  rows_le : ∀ r ∈ n.seqRows, r.ver ≤ (n.booked r.site).max
  head_le : ∀ a, (n.booked a).max ≤ L.head a
  part_known : ∀ a v p, (n.booked a).partial? v = some p → (n.booked a).containsVersion v = true
  /-- a partial is either complete and applied, or incomplete with its received ranges in the
  sequence rows -/
  part_state : ∀ a v p, (n.booked a).partial? v = some p →
    (p.complete = true ∧ ¬ HasRows n a v) ∨
    (p.complete = false ∧ HasRows n a v ∧ ∀ x, RSet.Mem p.seqs x → SeqMem n.seqRows a v x)
  /-- every change of the log whose seq lies in a received range is buffered or dominated -/
  cover : ∀ a v x, SeqMem n.seqRows a v x → ∀ c ∈ L.get a v, c.seq = x → c ∈ n.buf ∨ Dom L.all c
  /-- every change of the log beyond the `last_seq` a row / a partial carries is dominated -/
  last_rows : ∀ r ∈ n.seqRows, ∀ c ∈ L.get r.site r.ver, r.last < c.seq → Dom L.all c
  last_part : ∀ a v p, (n.booked a).partial? v = some p → p.complete = false →
    ∀ c ∈ L.get a v, p.last < c.seq → Dom L.all c
  /-- **`held_inv`** -/
  held : ∀ a v, Held n a v → ∀ c ∈ L.get a v, c ∈ R ∨ Dom L.all c
  /-- everything merged belongs to a held version -/
  rheld : ∀ e ∈ R, Held n e.site e.dbv
  /-- a sequence row belongs to a version with a partial; a buffered row to a version with rows -/
  rows_part : ∀ r ∈ n.seqRows, ∃ p, (n.booked r.site).partial? r.ver = some p
  buf_rows : ∀ c ∈ n.buf, HasRows n c.site c.dbv

/-- what a changeset must satisfy: it is about versions of the log, carries changes of its version
only, carries every non-dominated change of its seq range, and every change beyond its `last_seq`
is dominated; an `Empty` changeset covers only versions all of whose changes are dominated -/
def ChunkOK (L : Log) : Item → Prop
  | .full a v lo hi last cs =>
    v ≤ L.head a ∧ (∀ e ∈ cs, e ∈ L.get a v) ∧
    (∀ c ∈ L.get a v, lo ≤ c.seq → c.seq ≤ hi → c ∈ cs ∨ Dom L.all c) ∧
    (∀ c ∈ L.get a v, last < c.seq → Dom L.all c)
  | .empty a vlo vhi => vhi ≤ L.head a ∧ ∀ v, vlo ≤ v → v ≤ vhi → ∀ c ∈ L.get a v, Dom L.all c

/-! ### bookkeeping algebra -/

theorem containsVersion_iff (b : Booked) (v : Nat) :
    b.containsVersion v = true ↔ ¬ RSet.Mem b.needed v ∧ v ≤ b.max := by
  unfold Booked.containsVersion
  rw [Bool.and_eq_true, decide_eq_true_eq, ← RSet.contains_iff]
  cases RSet.contains b.needed v <;> simp

theorem containsVersion_insertDb {b : Booked} (hw : RSet.WF b.needed) {lo hi : Nat} (hlh : lo ≤ hi)
    (v : Nat) :
    (b.insertDb [(lo, hi)]).containsVersion v = true ↔
      (lo ≤ v ∧ v ≤ hi) ∨ b.containsVersion v = true := by
  rw [containsVersion_iff, containsVersion_iff,
    mem_insertDb_needed hw [(lo, hi)] (by intro r hr; rw [List.mem_singleton] at hr; subst hr; exact hlh) (by simp),
    insertDb_max _ _ (by simp), sup_singleton]
  simp only [List.mem_singleton, exists_eq_left]
  have hmax : Nat.max b.max hi = max b.max hi := rfl
  rw [hmax]
  by_cases hm : RSet.Mem b.needed v
  · simp only [hm, true_or, true_and, not_true_eq_false, false_and, or_false]
    constructor
    · intro h; exact Classical.not_not.mp h.1
    · intro h; exact ⟨fun h' => h' h, by omega⟩
  · simp only [hm, false_or, not_false_eq_true, true_and]
    constructor
    · rintro ⟨h1, h2⟩
      by_cases h3 : lo ≤ v ∧ v ≤ hi
      · exact Or.inl h3
      · right
        by_cases h4 : b.max + 1 ≤ v ∧ v ≤ hi
        · exact absurd ⟨h4, h3⟩ h1
        · omega
    · rintro (h | h)
      · exact ⟨fun h' => h'.2 h, by omega⟩
      · exact ⟨fun h' => by omega, by omega⟩

theorem booked_of_book {n N : Node} (h : N.book = n.book) (a : Nat) : N.booked a = n.booked a := by
  unfold Node.booked; rw [h]

theorem hasRows_iff_of_rows {n n' : Node} {a vlo vhi : Nat}
    (hr : ∀ r, r ∈ n'.seqRows ↔ r ∈ n.seqRows ∧ ¬ (r.site = a ∧ vlo ≤ r.ver ∧ r.ver ≤ vhi))
    (a' w : Nat) :
    HasRows n' a' w ↔ HasRows n a' w ∧ ¬ (a' = a ∧ vlo ≤ w ∧ w ≤ vhi) := by
  unfold HasRows
  constructor
  · rintro ⟨r, h1, h2, h3⟩
    have := (hr r).mp h1
    exact ⟨⟨r, this.1, h2, h3⟩, by rw [← h2, ← h3]; exact this.2⟩
  · rintro ⟨⟨r, h1, h2, h3⟩, h4⟩
    exact ⟨r, (hr r).mpr ⟨h1, by rw [h2, h3]; exact h4⟩, h2, h3⟩

theorem seqMem_iff_of_rows {n n' : Node} {a vlo vhi : Nat}
    (hr : ∀ r, r ∈ n'.seqRows ↔ r ∈ n.seqRows ∧ ¬ (r.site = a ∧ vlo ≤ r.ver ∧ r.ver ≤ vhi))
    (a' w x : Nat) :
    SeqMem n'.seqRows a' w x ↔ SeqMem n.seqRows a' w x ∧ ¬ (a' = a ∧ vlo ≤ w ∧ w ≤ vhi) := by
  unfold SeqMem
  constructor
  · rintro ⟨r, h1, h2, h3, h4⟩
    have := (hr r).mp h1
    exact ⟨⟨r, this.1, h2, h3, h4⟩, by rw [← h2, ← h3]; exact this.2⟩
  · rintro ⟨⟨r, h1, h2, h3, h4⟩, h5⟩
    exact ⟨r, (hr r).mpr ⟨h1, by rw [h2, h3]; exact h5⟩, h2, h3, h4⟩

/-! ### a range of versions of one actor becomes held -/

/-- **the closing step**: `n'` is `n` after the versions `vlo..=vhi` of actor `a` were completed,
cleared or applied: their rows and buffered rows are gone, their partials are gone or complete, the
bookkeeping of `a` contains them, everything else is as before, and every change of these versions
is in the new ghost list or dominated. -/
theorem linv_close {L : Log} {n n' : Node} {R R' : List Chg} {a vlo vhi : Nat}
    (hI : LInv L n R) (hL : LogOK L)
    (c_alive : n'.alive = true) (c_sorted : n'.book.Pairwise (fun x y => x.1 < y.1))
    (c_other : ∀ a', a' ≠ a → n'.booked a' = n.booked a')
    (c_cv : ∀ w, (n'.booked a).containsVersion w = true ↔
      (vlo ≤ w ∧ w ≤ vhi) ∨ (n.booked a).containsVersion w = true)
    (c_wf : RSet.WF (n'.booked a).needed) (c_pwf : (n'.booked a).PWF)
    (c_keys : (n'.booked a).KeysSorted)
    (c_max : (n.booked a).max ≤ (n'.booked a).max) (c_head : (n'.booked a).max ≤ L.head a)
    (c_part : ∀ w, ¬ (vlo ≤ w ∧ w ≤ vhi) → (n'.booked a).partial? w = (n.booked a).partial? w)
    (c_part_in : ∀ w p, vlo ≤ w → w ≤ vhi → (n'.booked a).partial? w = some p → p.complete = true)
    (c_rows : ∀ r, r ∈ n'.seqRows ↔ r ∈ n.seqRows ∧ ¬ (r.site = a ∧ vlo ≤ r.ver ∧ r.ver ≤ vhi))
    (c_buf : ∀ c, c ∈ n'.buf ↔ c ∈ n.buf ∧ ¬ (c.site = a ∧ vlo ≤ c.dbv ∧ c.dbv ≤ vhi))
    (c_R : ∀ e ∈ R, e ∈ R') (c_new : ∀ e ∈ R', e ∈ R ∨ (e.site = a ∧ vlo ≤ e.dbv ∧ e.dbv ≤ vhi))
    (c_data : ∀ v, vlo ≤ v → v ≤ vhi → ∀ c ∈ L.get a v, c ∈ R' ∨ Dom L.all c) :
    LInv L n' R' ∧
    (∀ a' w, Held n' a' w ↔ (a' = a ∧ vlo ≤ w ∧ w ≤ vhi) ∨ Held n a' w) ∧
    (∀ a' w, ¬ (a' = a ∧ vlo ≤ w ∧ w ≤ vhi) → (n'.booked a').partial? w = (n.booked a').partial? w) := by
  have hHR := hasRows_iff_of_rows c_rows
  have hSM := seqMem_iff_of_rows c_rows
  -- `Held` before and after
  have held_back : ∀ a' w, Held n' a' w → (a' = a ∧ vlo ≤ w ∧ w ≤ vhi) ∨ Held n a' w := by
    intro a' w ⟨h1, h2⟩
    by_cases hin : a' = a ∧ vlo ≤ w ∧ w ≤ vhi
    · exact Or.inl hin
    · right
      by_cases ha : a' = a
      · subst ha
        have hw : ¬ (vlo ≤ w ∧ w ≤ vhi) := fun h => hin ⟨rfl, h⟩
        refine ⟨?_, ?_⟩
        · rcases (c_cv w).mp h1 with h | h
          · exact absurd h hw
          · exact h
        · intro p hp
          rw [← c_part w hw] at hp
          obtain ⟨h3, h4⟩ := h2 p hp
          exact ⟨h3, fun hr => h4 ((hHR a' w).mpr ⟨hr, hin⟩)⟩
      · rw [c_other a' ha] at h1 h2
        refine ⟨h1, ?_⟩
        intro p hp
        obtain ⟨h3, h4⟩ := h2 p hp
        exact ⟨h3, fun hr => h4 ((hHR a' w).mpr ⟨hr, hin⟩)⟩
  have held_in : ∀ w, vlo ≤ w → w ≤ vhi → Held n' a w := by
    intro w h1 h2
    refine ⟨(c_cv w).mpr (Or.inl ⟨h1, h2⟩), ?_⟩
    intro p hp
    exact ⟨c_part_in w p h1 h2 hp, fun hr => ((hHR a w).mp hr).2 ⟨rfl, h1, h2⟩⟩
  have held_fwd : ∀ a' w, Held n a' w → Held n' a' w := by
    intro a' w ⟨h1, h2⟩
    by_cases ha : a' = a
    · subst ha
      by_cases hw : vlo ≤ w ∧ w ≤ vhi
      · exact held_in w hw.1 hw.2
      · refine ⟨(c_cv w).mpr (Or.inr h1), ?_⟩
        intro p hp
        rw [c_part w hw] at hp
        obtain ⟨h3, h4⟩ := h2 p hp
        exact ⟨h3, fun hr => h4 ((hHR a' w).mp hr).1⟩
    · refine ⟨by rw [c_other a' ha]; exact h1, ?_⟩
      intro p hp
      rw [c_other a' ha] at hp
      obtain ⟨h3, h4⟩ := h2 p hp
      exact ⟨h3, fun hr => h4 ((hHR a' w).mp hr).1⟩
  have main : LInv L n' R' := by
    refine ⟨c_alive, c_sorted, ?_, ?_, ?_, ?_, ?_, ?_, ?_, ?_, ?_, ?_, ?_, ?_, ?_, ?_, ?_⟩
    · intro a'
      by_cases ha : a' = a
      · subst ha; exact c_wf
      · rw [c_other a' ha]; exact hI.needed_wf a'
    · intro a'
      by_cases ha : a' = a
      · subst ha; exact c_pwf
      · rw [c_other a' ha]; exact hI.pwf a'
    · intro a'
      by_cases ha : a' = a
      · subst ha; exact c_keys
      · rw [c_other a' ha]; exact hI.keys a'
    · intro r hr; exact hI.rows_fwd r ((c_rows r).mp hr).1
    · intro r hr
      have := hI.rows_le r ((c_rows r).mp hr).1
      by_cases ha : r.site = a
      · rw [ha] at this ⊢; omega
      · rw [c_other _ ha]; exact this
    · intro a'
      by_cases ha : a' = a
      · subst ha; exact c_head
      · rw [c_other a' ha]; exact hI.head_le a'
    · intro a' w p hp
      by_cases ha : a' = a
      · subst ha
        by_cases hw : vlo ≤ w ∧ w ≤ vhi
        · exact (c_cv w).mpr (Or.inl hw)
        · rw [c_part w hw] at hp
          exact (c_cv w).mpr (Or.inr (hI.part_known a' w p hp))
      · rw [c_other a' ha] at hp ⊢
        exact hI.part_known a' w p hp
    · intro a' w p hp
      by_cases hin : a' = a ∧ vlo ≤ w ∧ w ≤ vhi
      · obtain ⟨rfl, h1, h2⟩ := hin
        exact Or.inl ⟨c_part_in w p h1 h2 hp, fun hr => ((hHR a' w).mp hr).2 ⟨rfl, h1, h2⟩⟩
      · have hp' : (n.booked a').partial? w = some p := by
          by_cases ha : a' = a
          · subst ha
            rw [← c_part w (fun h => hin ⟨rfl, h⟩)]; exact hp
          · rw [← c_other a' ha]; exact hp
        rcases hI.part_state a' w p hp' with ⟨h1, h2⟩ | ⟨h1, h2, h3⟩
        · exact Or.inl ⟨h1, fun hr => h2 ((hHR a' w).mp hr).1⟩
        · exact Or.inr ⟨h1, (hHR a' w).mpr ⟨h2, hin⟩, fun x hx => (hSM a' w x).mpr ⟨h3 x hx, hin⟩⟩
    · intro a' w x hx c hc hcx
      obtain ⟨hx1, hx2⟩ := (hSM a' w x).mp hx
      rcases hI.cover a' w x hx1 c hc hcx with h | h
      · left
        refine (c_buf c).mpr ⟨h, ?_⟩
        obtain ⟨_, h1, h2, _⟩ := hL.mem_get hc
        rw [h1, h2]; exact hx2
      · exact Or.inr h
    · intro r hr; exact hI.last_rows r ((c_rows r).mp hr).1
    · intro a' w p hp hc
      by_cases hin : a' = a ∧ vlo ≤ w ∧ w ≤ vhi
      · obtain ⟨rfl, h1, h2⟩ := hin
        rw [c_part_in w p h1 h2 hp] at hc; cases hc
      · have hp' : (n.booked a').partial? w = some p := by
          by_cases ha : a' = a
          · subst ha
            rw [← c_part w (fun h => hin ⟨rfl, h⟩)]; exact hp
          · rw [← c_other a' ha]; exact hp
        exact hI.last_part a' w p hp' hc
    · intro a' w hh c hc
      rcases held_back a' w hh with ⟨rfl, h1, h2⟩ | h
      · exact c_data w h1 h2 c hc
      · rcases hI.held a' w h c hc with h | h
        · exact Or.inl (c_R c h)
        · exact Or.inr h
    · intro e he
      rcases c_new e he with h | ⟨h1, h2, h3⟩
      · exact held_fwd _ _ (hI.rheld e h)
      · rw [h1]; exact held_in _ h2 h3
    · intro r hr
      obtain ⟨hr1, hr2⟩ := (c_rows r).mp hr
      obtain ⟨p, hp⟩ := hI.rows_part r hr1
      refine ⟨p, ?_⟩
      by_cases ha : r.site = a
      · rw [ha] at hp hr2 ⊢
        rw [c_part r.ver (fun h => hr2 ⟨rfl, h⟩)]; exact hp
      · rw [c_other _ ha]; exact hp
    · intro c hc
      obtain ⟨hc1, hc2⟩ := (c_buf c).mp hc
      exact (hHR c.site c.dbv).mpr ⟨hI.buf_rows c hc1, hc2⟩
  refine ⟨main, ?_, ?_⟩
  · intro a' w
    constructor
    · exact held_back a' w
    · rintro (⟨rfl, h1, h2⟩ | h)
      · exact held_in w h1 h2
      · exact held_fwd a' w h
  · intro a' w hne
    by_cases ha : a' = a
    · subst ha
      exact c_part w (fun h => hne ⟨rfl, h⟩)
    · rw [c_other a' ha]

/-! ### the store-level invariant under a delivery -/

theorem mem_mergedBy {n : Node} {it : Item} {e : Chg} (h : e ∈ mergedBy n it) :
    e ∈ n.buf ∨ e ∈ itemChanges it := by
  cases it with
  | empty site vlo vhi => cases h
  | full site ver lo hi last cs =>
    unfold mergedBy at h
    simp only at h
    split at h
    · cases h
    · split at h
      · exact Or.inr h
      · split at h
        · cases h
        · split at h
          · rw [mem_sortBySeq] at h
            exact mem_bufferChunk_buf (List.mem_filter.mp h).1
          · cases h

/-- **`received_set`, one delivery**: the store stays a merge of exactly the ghost list, which stays
inside the log, as do the buffered rows -/
theorem ninv_deliver {L : Log} {n : Node} {R : List Chg} {it : Item} (hN : NInv L n R) (hL : LogOK L)
    (hit : ∀ e ∈ itemChanges it, e ∈ L.all) : NInv L (n.deliver [it]) (mergedBy n it ++ R) := by
  have hm : ∀ e ∈ mergedBy n it, e ∈ L.all := by
    intro e he
    rcases mem_mergedBy he with h | h
    · exact hN.bufsub e h
    · exact hit e h
  refine ⟨?_, ?_, ?_⟩
  · rw [mergedBy_spec]
    exact hN.store.mergeAll (fun c hc => hL.chgOK (hm c hc))
  · intro e he
    rcases List.mem_append.mp he with h | h
    · exact hm e h
    · exact hN.rsub e h
  · intro e he
    rcases mem_deliver_buf he with h | h
    · exact hN.bufsub e h
    · exact hit e h

/-! ### complete changesets and `Empty` ranges -/

theorem containsVersion_dropPartials (b : Booked) (lo hi w : Nat) :
    (b.dropPartials lo hi).containsVersion w = b.containsVersion w := rfl

theorem linv_cleared {L : Log} {n N : Node} {R R' : List Chg} {a vlo vhi : Nat}
    (hI : LInv L n R) (hL : LogOK L) (hbook : N.book = n.book) (hrows : N.seqRows = n.seqRows)
    (hbuf : N.buf = n.buf) (halive : N.alive = n.alive) (hlh : vlo ≤ vhi) (hhead : vhi ≤ L.head a)
    (c_R : ∀ e ∈ R, e ∈ R') (c_new : ∀ e ∈ R', e ∈ R ∨ (e.site = a ∧ vlo ≤ e.dbv ∧ e.dbv ≤ vhi))
    (c_data : ∀ v, vlo ≤ v → v ≤ vhi → ∀ c ∈ L.get a v, c ∈ R' ∨ Dom L.all c) :
    LInv L (clearedNode N a vlo vhi (((n.booked a).insertDb [(vlo, vhi)]).dropPartials vlo vhi)) R' ∧
    (∀ a' w, Held (clearedNode N a vlo vhi (((n.booked a).insertDb [(vlo, vhi)]).dropPartials vlo vhi)) a' w ↔
      (a' = a ∧ vlo ≤ w ∧ w ≤ vhi) ∨ Held n a' w) ∧
    (∀ a' w, ¬ (a' = a ∧ vlo ≤ w ∧ w ≤ vhi) →
      ((clearedNode N a vlo vhi (((n.booked a).insertDb [(vlo, vhi)]).dropPartials vlo vhi)).booked a').partial? w =
        (n.booked a').partial? w) := by
  have hmax : ((n.booked a).insertDb [(vlo, vhi)]).max = max (n.booked a).max vhi := by
    rw [insertDb_max _ _ (by simp), sup_singleton]
  refine linv_close hI hL ?_ ?_ ?_ ?_ ?_ ?_ ?_ ?_ ?_ ?_ ?_ ?_ ?_ c_R c_new c_data
  · rw [clearedNode_alive, halive]; exact hI.alive
  · exact clearedNode_sorted (by rw [hbook]; exact hI.sorted) _ _ _ _
  · intro a' ha
    rw [clearedNode_booked_other _ _ _ _ _ _ ha]
    exact booked_of_book hbook a'
  · intro w
    rw [clearedNode_booked_same, containsVersion_dropPartials]
    exact containsVersion_insertDb (hI.needed_wf a) hlh w
  · rw [clearedNode_booked_same, dropPartials_needed]
    exact insertDb_needed_wf (hI.needed_wf a) _ (by intro r hr; rw [List.mem_singleton] at hr; subst hr; exact hlh)
  · rw [clearedNode_booked_same]
    exact dropPartials_pwf (insertDb_pwf (hI.pwf a) _) _ _
  · rw [clearedNode_booked_same]
    exact dropPartials_keysSorted (insertDb_keysSorted (hI.keys a) _) _ _
  · rw [clearedNode_booked_same, dropPartials_max, hmax]; omega
  · rw [clearedNode_booked_same, dropPartials_max, hmax]
    have := hI.head_le a
    omega
  · intro w hw
    rw [clearedNode_booked_same, partial?_dropPartials, if_neg hw, partial?_insertDb]
  · intro w p h1 h2 hp
    rw [clearedNode_booked_same, partial?_dropPartials, if_pos ⟨h1, h2⟩] at hp
    cases hp
  · intro r; rw [mem_clearedNode_rows, hrows]
  · intro c; rw [mem_clearedNode_buf, hbuf]

/-! ### an incomplete chunk -/

section Buffer
variable {L : Log} {n : Node} {R : List Chg} {a v lo hi last : Nat} {cs : List Chg}

theorem mem_single_range (lo hi x : Nat) : RSet.Mem [(lo, hi)] x ↔ lo ≤ x ∧ x ≤ hi := by
  unfold RSet.Mem; simp

theorem wf_single_range {lo hi : Nat} (h : lo ≤ hi) : RSet.WF [(lo, hi)] :=
  rowPartial_wf (r := ⟨0, 0, lo, hi, 0⟩) h

theorem bufChunk_range (n : Node) (a v lo hi last : Nat) (cs : List Chg) :
    (n.bufferChunk a v lo hi last cs).2.1 ≤ lo ∧ hi ≤ (n.bufferChunk a v lo hi last cs).2.2 := by
  rw [bufferChunk_eq]
  exact ⟨mergedLo_le _ _ _ _ _, le_mergedHi _ _ _ _ _⟩

theorem bufChunk_fwd (n : Node) (a v : Nat) {lo hi : Nat} (last : Nat) (cs : List Chg) (hlh : lo ≤ hi) :
    (n.bufferChunk a v lo hi last cs).2.1 ≤ (n.bufferChunk a v lo hi last cs).2.2 := by
  have := bufChunk_range n a v lo hi last cs
  omega

theorem bufNode_booked_same (n : Node) (a v lo hi last : Nat) (cs : List Chg) :
    (bufNode n a v lo hi last cs).booked a = bufBooked n a v lo hi last cs := by
  unfold bufNode; rw [booked_setBooked_same]

theorem bufNode_booked_other (n : Node) (a v lo hi last : Nat) (cs : List Chg) (a' : Nat) (h : a' ≠ a) :
    (bufNode n a v lo hi last cs).booked a' = n.booked a' := by
  unfold bufNode
  rw [booked_setBooked_other _ _ _ _ h]
  exact booked_of_book (bufferChunk_book _ _ _ _ _ _ _) a'

theorem bufBooked_needed (n : Node) (a v lo hi last : Nat) (cs : List Chg) :
    (bufBooked n a v lo hi last cs).needed = ((n.booked a).insertDb [(v, v)]).needed := by
  unfold bufBooked; rw [insertPartial_needed]

theorem bufBooked_max (n : Node) (a v lo hi last : Nat) (cs : List Chg) :
    (bufBooked n a v lo hi last cs).max = max (n.booked a).max v := by
  unfold bufBooked
  rw [insertPartial_max, insertDb_max _ _ (by simp), sup_singleton]
  have : Nat.max (n.booked a).max v = max (n.booked a).max v := rfl
  split
  · rfl
  · show Nat.max (Nat.max _ _) _ = _
    rw [this]
    show max (max _ _) _ = _
    omega

theorem bufBooked_cv (hw : RSet.WF (n.booked a).needed) (w : Nat) :
    (bufBooked n a v lo hi last cs).containsVersion w = true ↔
      w = v ∨ (n.booked a).containsVersion w = true := by
  have h1 : (bufBooked n a v lo hi last cs).containsVersion w =
      ((n.booked a).insertDb [(v, v)]).containsVersion w := by
    unfold Booked.containsVersion
    rw [bufBooked_needed, bufBooked_max, insertDb_max _ _ (by simp), sup_singleton]
  rw [h1, containsVersion_insertDb hw (Nat.le_refl v)]
  constructor
  · rintro (h | h)
    · left; omega
    · exact Or.inr h
  · rintro (h | h)
    · left; omega
    · exact Or.inr h

theorem bufBooked_partial_same (n : Node) (a v lo hi last : Nat) (cs : List Chg) :
    (bufBooked n a v lo hi last cs).partial? v = some (bufPartial n a v lo hi last cs) := by
  unfold bufBooked bufPartial; rw [partial?_insertPartial_same]

theorem bufBooked_partial_other (n : Node) (a v lo hi last : Nat) (cs : List Chg) (w : Nat) (h : w ≠ v) :
    (bufBooked n a v lo hi last cs).partial? w = (n.booked a).partial? w := by
  unfold bufBooked; rw [partial?_insertPartial_other _ _ _ _ h, partial?_insertDb]

theorem bufBooked_pwf (hp : (n.booked a).PWF) (hlh : lo ≤ hi) :
    (bufBooked n a v lo hi last cs).PWF := by
  unfold bufBooked
  exact insertPartial_pwf (insertDb_pwf hp _) v (wf_single_range (bufChunk_fwd n a v last cs hlh))

theorem bufBooked_keys (hk : (n.booked a).KeysSorted) : (bufBooked n a v lo hi last cs).KeysSorted := by
  unfold bufBooked
  exact insertPartial_keysSorted (insertDb_keysSorted hk _) v _

theorem mem_bufPartial (hlh : lo ≤ hi) (x : Nat) :
    RSet.Mem (bufPartial n a v lo hi last cs).seqs x ↔
      (∃ old, (n.booked a).partial? v = some old ∧ RSet.Mem old.seqs x) ∨
      ((n.bufferChunk a v lo hi last cs).2.1 ≤ x ∧ x ≤ (n.bufferChunk a v lo hi last cs).2.2) := by
  unfold bufPartial
  rw [mem_mergedPartial v (wf_single_range (bufChunk_fwd n a v last cs hlh)), partial?_insertDb]
  simp only
  rw [mem_single_range]

theorem bufPartial_last (n : Node) (a v lo hi last : Nat) (cs : List Chg) :
    (bufPartial n a v lo hi last cs).last =
      match (n.booked a).partial? v with | none => last | some old => old.last := by
  unfold bufPartial; rw [mergedPartial_last, partial?_insertDb]
  cases (n.booked a).partial? v <;> rfl

theorem bufPartial_complete_of_old (hp : (n.booked a).PWF) (hlh : lo ≤ hi) {old : Partial}
    (ho : (n.booked a).partial? v = some old) (hc : old.complete = true) :
    (bufPartial n a v lo hi last cs).complete = true := by
  unfold bufPartial
  exact mergedPartial_complete_mono (insertDb_pwf hp _) v (wf_single_range (bufChunk_fwd n a v last cs hlh))
    (by rw [partial?_insertDb]; exact ho) hc

theorem bufNode_rows (n : Node) (a v lo hi last : Nat) (cs : List Chg) :
    (bufNode n a v lo hi last cs).seqRows = (n.bufferChunk a v lo hi last cs).1.seqRows := by
  unfold bufNode; rw [setBooked_seqRows]

theorem bufNode_buf (n : Node) (a v lo hi last : Nat) (cs : List Chg) :
    (bufNode n a v lo hi last cs).buf = (n.bufferChunk a v lo hi last cs).1.buf := by
  unfold bufNode; rw [setBooked_buf]

theorem bufNode_newRow (n : Node) (a v lo hi last : Nat) (cs : List Chg) :
    (⟨a, v, (n.bufferChunk a v lo hi last cs).2.1, (n.bufferChunk a v lo hi last cs).2.2, last⟩ : SeqRow) ∈
      (bufNode n a v lo hi last cs).seqRows := by
  rw [bufNode_rows, bufferChunk_eq]
  simp

theorem mem_bufNode_rows_other {r : SeqRow} (h : ¬ (r.site = a ∧ r.ver = v)) :
    r ∈ (bufNode n a v lo hi last cs).seqRows ↔ r ∈ n.seqRows := by
  rw [bufNode_rows]; exact mem_bufferChunk_rows_other h

theorem mem_bufNode_rows {r : SeqRow} (h : r ∈ (bufNode n a v lo hi last cs).seqRows) :
    r ∈ n.seqRows ∨
      r = ⟨a, v, (n.bufferChunk a v lo hi last cs).2.1, (n.bufferChunk a v lo hi last cs).2.2, last⟩ := by
  rw [bufNode_rows, bufferChunk_eq] at h
  simp only [List.mem_append, List.mem_filter, List.mem_singleton] at h
  rcases h with h | h
  · exact Or.inl h.1
  · exact Or.inr h

theorem seqMem_bufNode_same (hf : ∀ r ∈ n.seqRows, r.lo ≤ r.hi) (hlh : lo ≤ hi) (x : Nat) :
    SeqMem (bufNode n a v lo hi last cs).seqRows a v x ↔ SeqMem n.seqRows a v x ∨ (lo ≤ x ∧ x ≤ hi) := by
  rw [bufNode_rows]
  exact seqMem_bufferChunk n a v lo hi last cs hlh (fun r hr => hf r (mem_rowsOf.mp hr).1) x

theorem seqMem_bufNode_other {a' w : Nat} (h : ¬ (a' = a ∧ w = v)) (x : Nat) :
    SeqMem (bufNode n a v lo hi last cs).seqRows a' w x ↔ SeqMem n.seqRows a' w x := by
  rw [bufNode_rows]
  exact seqMem_bufferChunk_other n a v lo hi last cs a' w h x

theorem hasRows_bufNode_same (n : Node) (a v lo hi last : Nat) (cs : List Chg) :
    HasRows (bufNode n a v lo hi last cs) a v :=
  ⟨_, bufNode_newRow n a v lo hi last cs, rfl, rfl⟩

theorem hasRows_bufNode_other {a' w : Nat} (h : ¬ (a' = a ∧ w = v)) :
    HasRows (bufNode n a v lo hi last cs) a' w ↔ HasRows n a' w := by
  unfold HasRows
  constructor
  · rintro ⟨r, h1, h2, h3⟩
    exact ⟨r, (mem_bufNode_rows_other (by rw [h2, h3]; exact h)).mp h1, h2, h3⟩
  · rintro ⟨r, h1, h2, h3⟩
    exact ⟨r, (mem_bufNode_rows_other (by rw [h2, h3]; exact h)).mpr h1, h2, h3⟩

/-- the received ranges of the partial after buffering lie in the sequence rows, unless the old
partial was complete (applied before) -/
theorem seqs_bufNode (hI : LInv L n R) (hlh : lo ≤ hi)
    (hold : ∀ old, (n.booked a).partial? v = some old → old.complete = false) (x : Nat)
    (hx : RSet.Mem (bufPartial n a v lo hi last cs).seqs x) :
    SeqMem (bufNode n a v lo hi last cs).seqRows a v x := by
  rcases (mem_bufPartial hlh x).mp hx with ⟨old, ho, hm⟩ | hm
  · rcases hI.part_state a v old ho with ⟨h1, _⟩ | ⟨_, _, h3⟩
    · rw [hold old ho] at h1; cases h1
    · exact (seqMem_bufNode_same hI.rows_fwd hlh x).mpr (Or.inl (h3 x hm))
  · exact ⟨_, bufNode_newRow n a v lo hi last cs, rfl, rfl, hm.1, hm.2⟩

/-- every change of the version whose seq lies in a sequence row after buffering is buffered or
dominated -/
theorem cover_bufNode (hN : NInv L n R) (hI : LInv L n R) (hL : LogOK L)
    (hck : ChunkOK L (.full a v lo hi last cs)) (hlh : lo ≤ hi) (x : Nat)
    (hx : SeqMem (bufNode n a v lo hi last cs).seqRows a v x) (c : Chg) (hc : c ∈ L.get a v)
    (hcx : c.seq = x) : c ∈ (bufNode n a v lo hi last cs).buf ∨ Dom L.all c := by
  obtain ⟨_, hcs, hcov, _⟩ := hck
  rw [bufNode_buf]
  rcases (seqMem_bufNode_same hI.rows_fwd hlh x).mp hx with h | h
  · rcases hI.cover a v x h c hc hcx with h | h
    · exact Or.inl (mem_buf_bufferChunk h)
    · exact Or.inr h
  · rcases hcov c hc (by omega) (by omega) with h | h
    · left
      rw [bufferChunk_eq]
      obtain ⟨y, hy, hk⟩ := bufAdd_has_key n.buf cs h
      have hyL : y ∈ L.all := by
        rcases mem_bufAdd hy with h' | h'
        · exact hN.bufsub y h'
        · exact (hL.mem_get (hcs y h')).1
      have := hL.attr_unique hyL (hL.mem_get hc).1 hk.1 hk.2.1 hk.2.2
      rw [← this]; exact hy
    · exact Or.inr h

/-- **pending**: the chunk was buffered and the version is still incomplete -/
theorem linv_buffer_pending (hN : NInv L n R) (hI : LInv L n R) (hL : LogOK L)
    (hck : ChunkOK L (.full a v lo hi last cs))
    (hnc : (n.booked a).containsAll v v (some (lo, hi)) = false) (hlh : lo ≤ hi)
    (hpc : (bufPartial n a v lo hi last cs).complete = false) :
    LInv L (bufNode n a v lo hi last cs) R ∧
    (∀ a' w, ¬ (a' = a ∧ w = v) → (Held (bufNode n a v lo hi last cs) a' w ↔ Held n a' w)) ∧
    ¬ Held n a v := by
  have hck' := hck
  obtain ⟨hvh, hcs, hcov, hlast⟩ := hck
  have hrange := bufChunk_range n a v lo hi last cs
  have hold : ∀ old, (n.booked a).partial? v = some old → old.complete = false := by
    intro old ho
    cases hc : old.complete with
    | false => rfl
    | true => rw [bufPartial_complete_of_old (hI.pwf a) hlh ho hc] at hpc; cases hpc
  have hcv := @bufBooked_cv n a v lo hi last cs (hI.needed_wf a)
  -- `Held` before and after, for versions other than `(a, v)`
  have held_iff : ∀ a' w, ¬ (a' = a ∧ w = v) →
      (Held (bufNode n a v lo hi last cs) a' w ↔ Held n a' w) := by
    intro a' w hne
    unfold Held
    by_cases ha : a' = a
    · subst ha
      have hw : w ≠ v := fun h => hne ⟨rfl, h⟩
      rw [bufNode_booked_same, hcv w, bufBooked_partial_other _ _ _ _ _ _ _ w hw,
        hasRows_bufNode_other hne]
      constructor
      · rintro ⟨h1 | h1, h2⟩
        · exact absurd h1 hw
        · exact ⟨h1, h2⟩
      · rintro ⟨h1, h2⟩; exact ⟨Or.inr h1, h2⟩
    · rw [bufNode_booked_other _ _ _ _ _ _ _ a' ha, hasRows_bufNode_other hne]
  have not_held : ¬ Held n a v := by
    rintro ⟨h1, h2⟩
    rw [containsAll_single] at hnc
    unfold Booked.contains at hnc
    rw [h1] at hnc
    cases ho : (n.booked a).partial? v with
    | none => rw [ho] at hnc; simp at hnc
    | some old =>
      have := (h2 old ho).1
      rw [hold old ho] at this; cases this
  have main : LInv L (bufNode n a v lo hi last cs) R := by
    refine ⟨?_, ?_, ?_, ?_, ?_, ?_, ?_, ?_, ?_, ?_, ?_, ?_, ?_, ?_, ?_, ?_, ?_⟩
    · unfold bufNode; rw [setBooked_alive, bufferChunk_alive]; exact hI.alive
    · unfold bufNode
      exact setBooked_sorted (by rw [bufferChunk_book]; exact hI.sorted) _ _
    · intro a'
      by_cases ha : a' = a
      · subst ha
        rw [bufNode_booked_same, bufBooked_needed]
        exact insertDb_needed_wf (hI.needed_wf a') _ (by intro r hr; rw [List.mem_singleton] at hr; subst hr; exact Nat.le_refl _)
      · rw [bufNode_booked_other _ _ _ _ _ _ _ a' ha]; exact hI.needed_wf a'
    · intro a'
      by_cases ha : a' = a
      · subst ha
        rw [bufNode_booked_same]; exact bufBooked_pwf (hI.pwf a') hlh
      · rw [bufNode_booked_other _ _ _ _ _ _ _ a' ha]; exact hI.pwf a'
    · intro a'
      by_cases ha : a' = a
      · subst ha
        rw [bufNode_booked_same]; exact bufBooked_keys (hI.keys a')
      · rw [bufNode_booked_other _ _ _ _ _ _ _ a' ha]; exact hI.keys a'
    · intro r hr
      rcases mem_bufNode_rows hr with h | h
      · exact hI.rows_fwd r h
      · subst h; simp only; omega
    · intro r hr
      rcases mem_bufNode_rows hr with h | h
      · have := hI.rows_le r h
        by_cases ha : r.site = a
        · rw [ha] at this ⊢
          rw [bufNode_booked_same, bufBooked_max]; omega
        · rw [bufNode_booked_other _ _ _ _ _ _ _ _ ha]; exact this
      · subst h
        simp only
        rw [bufNode_booked_same, bufBooked_max]; omega
    · intro a'
      by_cases ha : a' = a
      · subst ha
        rw [bufNode_booked_same, bufBooked_max]
        have := hI.head_le a'
        omega
      · rw [bufNode_booked_other _ _ _ _ _ _ _ a' ha]; exact hI.head_le a'
    · intro a' w p hp
      by_cases ha : a' = a
      · subst ha
        rw [bufNode_booked_same] at hp ⊢
        rw [hcv w]
        by_cases hw : w = v
        · exact Or.inl hw
        · rw [bufBooked_partial_other _ _ _ _ _ _ _ w hw] at hp
          exact Or.inr (hI.part_known a' w p hp)
      · rw [bufNode_booked_other _ _ _ _ _ _ _ a' ha] at hp ⊢
        exact hI.part_known a' w p hp
    · intro a' w p hp
      by_cases hav : a' = a ∧ w = v
      · obtain ⟨rfl, rfl⟩ := hav
        rw [bufNode_booked_same, bufBooked_partial_same] at hp
        cases hp
        exact Or.inr ⟨hpc, hasRows_bufNode_same n a' w lo hi last cs,
          fun x hx => seqs_bufNode hI hlh hold x hx⟩
      · have hp' : (n.booked a').partial? w = some p := by
          by_cases ha : a' = a
          · subst ha
            rw [bufNode_booked_same, bufBooked_partial_other _ _ _ _ _ _ _ w (fun h => hav ⟨rfl, h⟩)] at hp
            exact hp
          · rw [bufNode_booked_other _ _ _ _ _ _ _ a' ha] at hp; exact hp
        rcases hI.part_state a' w p hp' with ⟨h1, h2⟩ | ⟨h1, h2, h3⟩
        · exact Or.inl ⟨h1, fun hr => h2 ((hasRows_bufNode_other hav).mp hr)⟩
        · exact Or.inr ⟨h1, (hasRows_bufNode_other hav).mpr h2,
            fun x hx => (seqMem_bufNode_other hav x).mpr (h3 x hx)⟩
    · intro a' w x hx c hc hcx
      by_cases hav : a' = a ∧ w = v
      · obtain ⟨rfl, rfl⟩ := hav
        exact cover_bufNode hN hI hL hck' hlh x hx c hc hcx
      · rcases hI.cover a' w x ((seqMem_bufNode_other hav x).mp hx) c hc hcx with h | h
        · left; rw [bufNode_buf]; exact mem_buf_bufferChunk h
        · exact Or.inr h
    · intro r hr
      rcases mem_bufNode_rows hr with h | h
      · exact hI.last_rows r h
      · subst h; exact hlast
    · intro a' w p hp hc
      by_cases hav : a' = a ∧ w = v
      · obtain ⟨rfl, rfl⟩ := hav
        rw [bufNode_booked_same, bufBooked_partial_same] at hp
        cases hp
        rw [bufPartial_last]
        cases ho : (n.booked a').partial? w with
        | none => exact hlast
        | some old => exact hI.last_part a' w old ho (hold old ho)
      · have hp' : (n.booked a').partial? w = some p := by
          by_cases ha : a' = a
          · subst ha
            rw [bufNode_booked_same, bufBooked_partial_other _ _ _ _ _ _ _ w (fun h => hav ⟨rfl, h⟩)] at hp
            exact hp
          · rw [bufNode_booked_other _ _ _ _ _ _ _ a' ha] at hp; exact hp
        exact hI.last_part a' w p hp' hc
    · intro a' w hh
      by_cases hav : a' = a ∧ w = v
      · obtain ⟨rfl, rfl⟩ := hav
        exfalso
        have := (hh.2 _ (by rw [bufNode_booked_same, bufBooked_partial_same])).1
        rw [hpc] at this; cases this
      · exact hI.held a' w ((held_iff a' w hav).mp hh)
    · intro e he
      have := hI.rheld e he
      by_cases hav : e.site = a ∧ e.dbv = v
      · rw [hav.1, hav.2] at this
        exact absurd this not_held
      · exact (held_iff _ _ hav).mpr this
    · intro r hr
      by_cases hav : r.site = a ∧ r.ver = v
      · rw [hav.1, hav.2, bufNode_booked_same, bufBooked_partial_same]
        exact ⟨_, rfl⟩
      · obtain ⟨p, hp⟩ := hI.rows_part r ((mem_bufNode_rows_other hav).mp hr)
        refine ⟨p, ?_⟩
        by_cases ha : r.site = a
        · rw [ha] at hp ⊢
          rw [bufNode_booked_same, bufBooked_partial_other _ _ _ _ _ _ _ r.ver (fun h => hav ⟨ha, h⟩)]
          exact hp
        · rw [bufNode_booked_other _ _ _ _ _ _ _ _ ha]; exact hp
    · intro c hc
      rw [bufNode_buf] at hc
      rcases mem_bufferChunk_buf hc with h | h
      · have := hI.buf_rows c h
        by_cases hav : c.site = a ∧ c.dbv = v
        · rw [hav.1, hav.2]; exact hasRows_bufNode_same n a v lo hi last cs
        · exact (hasRows_bufNode_other hav).mpr this
      · obtain ⟨_, h1, h2, _⟩ := hL.mem_get (hcs c h)
        rw [h1, h2]; exact hasRows_bufNode_same n a v lo hi last cs
  exact ⟨main, held_iff, not_held⟩

/-- **applied**: the chunk completed the version and the apply loop merged the buffered rows -/
theorem linv_buffer_apply (hN : NInv L n R) (hI : LInv L n R) (hL : LogOK L)
    (hck : ChunkOK L (.full a v lo hi last cs)) (hlh : lo ≤ hi)
    (hpc : (bufPartial n a v lo hi last cs).complete = true) :
    LInv L ((bufNode n a v lo hi last cs).applyBuffered a v)
      (sortBySeq (bufOf (bufNode n a v lo hi last cs).buf a v) ++ R) ∧
    (∀ a' w, Held ((bufNode n a v lo hi last cs).applyBuffered a v) a' w ↔
      (a' = a ∧ v ≤ w ∧ w ≤ v) ∨ Held n a' w) ∧
    (∀ a' w, ¬ (a' = a ∧ v ≤ w ∧ w ≤ v) →
      (((bufNode n a v lo hi last cs).applyBuffered a v).booked a').partial? w = (n.booked a').partial? w) := by
  have hck' := hck
  obtain ⟨hvh, hcs, hcov, hlast⟩ := hck
  have hcv := @bufBooked_cv n a v lo hi last cs (hI.needed_wf a)
  have hX := applyBuffered_complete (bufNode n a v lo hi last cs) a v _
    (bufNode_partial n a v lo hi last cs) hpc
  have hbk_same : ((bufNode n a v lo hi last cs).applyBuffered a v).booked a =
      (bufBooked n a v lo hi last cs).insertDb [(v, v)] := by
    rw [hX, booked_clearMeta, applyCore_booked_same, bufNode_booked_same]
  have hwf2 : RSet.WF (bufBooked n a v lo hi last cs).needed := by
    rw [bufBooked_needed]
    exact insertDb_needed_wf (hI.needed_wf a) _ (by intro r hr; rw [List.mem_singleton] at hr; subst hr; exact Nat.le_refl _)
  have hmax2 : ((bufBooked n a v lo hi last cs).insertDb [(v, v)]).max = max (n.booked a).max v := by
    rw [insertDb_max _ _ (by simp), sup_singleton, bufBooked_max]
    show max (max _ _) _ = _
    omega
  have hsorted : (bufNode n a v lo hi last cs).book.Pairwise (fun x y => x.1 < y.1) := by
    unfold bufNode
    exact setBooked_sorted (by rw [bufferChunk_book]; exact hI.sorted) _ _
  refine linv_close (a := a) (vlo := v) (vhi := v) hI hL ?_ ?_ ?_ ?_ ?_ ?_ ?_ ?_ ?_ ?_ ?_ ?_ ?_ ?_ ?_ ?_
  · rw [hX, clearMeta_alive, applyCore_alive]
    unfold bufNode; rw [setBooked_alive, bufferChunk_alive]; exact hI.alive
  · exact applyBuffered_sorted hsorted a v
  · intro a' ha
    rw [hX, booked_clearMeta, applyCore_booked_other _ _ _ _ ha, bufNode_booked_other _ _ _ _ _ _ _ a' ha]
  · intro w
    rw [hbk_same, containsVersion_insertDb hwf2 (Nat.le_refl v), hcv w]
    constructor
    · rintro (h | h | h)
      · exact Or.inl h
      · left; omega
      · exact Or.inr h
    · rintro (h | h)
      · exact Or.inl h
      · exact Or.inr (Or.inr h)
  · rw [hbk_same]
    exact insertDb_needed_wf hwf2 _ (by intro r hr; rw [List.mem_singleton] at hr; subst hr; exact Nat.le_refl _)
  · rw [hbk_same]; exact insertDb_pwf (bufBooked_pwf (hI.pwf a) hlh) _
  · rw [hbk_same]; exact insertDb_keysSorted (bufBooked_keys (hI.keys a)) _
  · rw [hbk_same, hmax2]; omega
  · rw [hbk_same, hmax2]
    have := hI.head_le a
    omega
  · intro w hw
    rw [hbk_same, partial?_insertDb, bufBooked_partial_other _ _ _ _ _ _ _ w (by omega)]
  · intro w p h1 h2 hp
    have : w = v := by omega
    subst this
    rw [hbk_same, partial?_insertDb, bufBooked_partial_same] at hp
    cases hp; exact hpc
  · intro r
    rw [hX, mem_clearMeta_rows, applyCore_seqRows]
    constructor
    · rintro ⟨h1, h2⟩
      have h3 : ¬ (r.site = a ∧ r.ver = v) := fun h => h2 ⟨h.1, by omega, by omega⟩
      exact ⟨(mem_bufNode_rows_other h3).mp h1, h2⟩
    · rintro ⟨h1, h2⟩
      have h3 : ¬ (r.site = a ∧ r.ver = v) := fun h => h2 ⟨h.1, by omega, by omega⟩
      exact ⟨(mem_bufNode_rows_other h3).mpr h1, h2⟩
  · intro c
    rw [hX, mem_clearMeta_buf, applyCore_buf, bufNode_buf]
    constructor
    · rintro ⟨h1, h2⟩
      refine ⟨?_, h2⟩
      rcases mem_bufferChunk_buf h1 with h | h
      · exact h
      · exfalso
        obtain ⟨_, h3, h4, _⟩ := hL.mem_get (hcs c h)
        exact h2 ⟨h3, by omega, by omega⟩
    · rintro ⟨h1, h2⟩
      exact ⟨mem_buf_bufferChunk h1, h2⟩
  · intro e he; exact List.mem_append_right _ he
  · intro e he
    rcases List.mem_append.mp he with h | h
    · right
      rw [mem_sortBySeq] at h
      have := (List.mem_filter.mp h).2
      simp only [decide_eq_true_eq] at this
      exact ⟨this.1, by omega, by omega⟩
    · exact Or.inl h
  · intro w h1 h2 c hc
    have : w = v := by omega
    subst this
    cases ho : (n.booked a).partial? w with
    | some old =>
      cases hoc : old.complete with
      | true =>
        -- the version was applied before: everything is in `R` already
        rcases hI.part_state a w old ho with ⟨_, h4⟩ | ⟨h3, _⟩
        · have hh : Held n a w := by
            refine ⟨hI.part_known a w old ho, ?_⟩
            intro p hp
            rw [ho] at hp; cases hp
            exact ⟨hoc, h4⟩
          rcases hI.held a w hh c hc with h | h
          · exact Or.inl (List.mem_append_right _ h)
          · exact Or.inr h
        · rw [hoc] at h3; cases h3
      | false =>
        have hold : ∀ old', (n.booked a).partial? w = some old' → old'.complete = false := by
          intro old' ho'; rw [ho] at ho'; cases ho'; exact hoc
        by_cases hle : c.seq ≤ (bufPartial n a w lo hi last cs).last
        · have hm := (complete_iff (bufBooked_pwf (hI.pwf a) hlh |>.of_partial?
            (bufBooked_partial_same n a w lo hi last cs))).mp hpc c.seq hle
          rcases cover_bufNode hN hI hL hck' hlh c.seq (seqs_bufNode hI hlh hold c.seq hm) c hc rfl with h | h
          · left
            apply List.mem_append_left
            rw [mem_sortBySeq]
            obtain ⟨_, h3, h4, _⟩ := hL.mem_get hc
            exact List.mem_filter.mpr ⟨h, by simpa using ⟨h3, h4⟩⟩
          · exact Or.inr h
        · right
          rw [bufPartial_last, ho] at hle
          exact hI.last_part a w old ho hoc c hc (by simpa using hle)
    | none =>
      have hold : ∀ old', (n.booked a).partial? w = some old' → old'.complete = false := by
        intro old' ho'; rw [ho] at ho'; cases ho'
      by_cases hle : c.seq ≤ (bufPartial n a w lo hi last cs).last
      · have hm := (complete_iff (bufBooked_pwf (hI.pwf a) hlh |>.of_partial?
          (bufBooked_partial_same n a w lo hi last cs))).mp hpc c.seq hle
        rcases cover_bufNode hN hI hL hck' hlh c.seq (seqs_bufNode hI hlh hold c.seq hm) c hc rfl with h | h
        · left
          apply List.mem_append_left
          rw [mem_sortBySeq]
          obtain ⟨_, h3, h4, _⟩ := hL.mem_get hc
          exact List.mem_filter.mpr ⟨h, by simpa using ⟨h3, h4⟩⟩
        · exact Or.inr h
      · right
        rw [bufPartial_last, ho] at hle
        exact hlast c hc (by simpa using hle)

end Buffer

/-! ### one delivery -/

theorem mergedBy_full_buffer (n : Node) (a v lo hi last : Nat) (cs : List Chg)
    (hnc : (n.booked a).containsAll v v (some (lo, hi)) = false) (hlh : lo ≤ hi)
    (hinc : ¬ (lo = 0 ∧ hi = last)) :
    mergedBy n (.full a v lo hi last cs) =
      if (bufPartial n a v lo hi last cs).complete && n.alive then
        sortBySeq (bufOf (bufNode n a v lo hi last cs).buf a v) else [] := by
  have hb : (lo == 0 && hi == last) = false := by
    cases h : (lo == 0 && hi == last) with
    | false => rfl
    | true =>
      simp only [Bool.and_eq_true, beq_iff_eq] at h
      exact absurd h hinc
  unfold mergedBy
  simp only [hnc, hb, Bool.false_eq_true, if_false]
  rw [if_neg (by omega), insertPartial_snd, bufNode_buf]
  rfl

/-- **`held_inv`, one delivery**: delivering a changeset that satisfies `ChunkOK` to an alive node
preserves the node invariant, with the ghost list extended by what the delivery merged -/
theorem linv_deliver {L : Log} {n : Node} {R : List Chg} {it : Item} (hN : NInv L n R) (hI : LInv L n R)
    (hL : LogOK L) (hck : ChunkOK L it) : LInv L (n.deliver [it]) (mergedBy n it ++ R) := by
  cases it with
  | empty a vlo vhi =>
    show LInv L _ R
    cases hc : (n.booked a).containsAll vlo vhi none with
    | true => rw [deliver_empty_skip n a vlo vhi hc]; exact hI
    | false =>
      have hle : vlo ≤ vhi := by
        apply Classical.byContradiction
        intro h
        rw [containsAll_backward _ _ _ _ (by omega)] at hc
        cases hc
      rw [deliver_empty n a vlo vhi hc]
      refine (linv_cleared hI hL ?_ ?_ ?_ ?_ hle hck.1 (fun e he => he) (fun e he => Or.inl he) ?_).1
      · split <;> simp
      · split <;> simp
      · split <;> simp
      · split <;> simp
      · intro w h1 h2 c hcm
        exact Or.inr (hck.2 w h1 h2 c hcm)
  | full a v lo hi last cs =>
    obtain ⟨hvh, hcs, hcov, hlast⟩ := hck
    have hdata : lo = 0 → hi = last → ∀ c ∈ L.get a v, c ∈ cs ∨ Dom L.all c := by
      intro h1 h2 c hc
      by_cases hle : c.seq ≤ last
      · exact hcov c hc (by omega) (by omega)
      · exact Or.inr (hlast c hc (by omega))
    cases hc : (n.booked a).containsAll v v (some (lo, hi)) with
    | true =>
      rw [deliver_full_skip n a v lo hi last cs hc]
      have : mergedBy n (.full a v lo hi last cs) = [] := by
        unfold mergedBy; simp only [hc, if_true]
      rw [this]; exact hI
    | false =>
      by_cases hcomp : lo = 0 ∧ hi = last
      · obtain ⟨rfl, rfl⟩ := hcomp
        have hm : mergedBy n (.full a v 0 hi hi cs) = cs := by
          unfold mergedBy
          simp only [hc, Bool.false_eq_true, if_false, beq_self_eq_true, Bool.and_self, if_true]
        rw [hm]
        by_cases hne : cs = []
        · subst hne
          rw [deliver_full_cleared n a v hi hc]
          refine (linv_cleared hI hL ?_ ?_ ?_ ?_ (Nat.le_refl v) hvh (fun e he => he)
            (fun e he => Or.inl he) ?_).1
          · split <;> simp
          · split <;> simp
          · split <;> simp
          · split <;> simp
          · intro w h1 h2 c hcm
            have : w = v := by omega
            subst this
            rcases hdata rfl rfl c hcm with h | h
            · cases h
            · exact Or.inr h
        · rw [deliver_full_complete n a v hi cs hc hne]
          refine (linv_cleared hI hL (by simp) (by simp) (by simp) (by simp) (Nat.le_refl v) hvh
            (fun e he => List.mem_append_right _ he) ?_ ?_).1
          · intro e he
            rcases List.mem_append.mp he with h | h
            · right
              obtain ⟨_, h1, h2, _⟩ := hL.mem_get (hcs e h)
              exact ⟨h1, by omega, by omega⟩
            · exact Or.inl h
          · intro w h1 h2 c hcm
            have : w = v := by omega
            subst this
            rcases hdata rfl rfl c hcm with h | h
            · exact Or.inl (List.mem_append_left _ h)
            · exact Or.inr h
      · by_cases hlt : hi < lo
        · rw [deliver_full_backward n a v lo hi last cs hc hlt]
          have : mergedBy n (.full a v lo hi last cs) = [] := by
            have hb : (lo == 0 && hi == last) = false := by
              cases h : (lo == 0 && hi == last) with
              | false => rfl
              | true =>
                simp only [Bool.and_eq_true, beq_iff_eq] at h
                exact absurd h hcomp
            unfold mergedBy
            simp only [hc, hb, Bool.false_eq_true, if_false, hlt, if_true]
          rw [this]; exact hI
        · have hlh : lo ≤ hi := by omega
          have hck' : ChunkOK L (.full a v lo hi last cs) := ⟨hvh, hcs, hcov, hlast⟩
          rw [deliver_full_buffer n a v lo hi last cs hc hlh hcomp,
            mergedBy_full_buffer n a v lo hi last cs hc hlh hcomp, hI.alive, Bool.and_true]
          cases hpc : (bufPartial n a v lo hi last cs).complete with
          | true =>
            simp only [if_true]
            exact (linv_buffer_apply hN hI hL hck' hlh hpc).1
          | false =>
            simp only [Bool.false_eq_true, if_false]
            exact (linv_buffer_pending hN hI hL hck' hc hlh hpc).1

end Corro.ClusterSys
