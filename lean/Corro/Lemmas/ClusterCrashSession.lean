/-
C01 with crashes — what a LOSSLESS sync session achieves (`session_progress`): an ALIVE client with
nothing pending (not killed since its last restart) ends up holding every version of a foreign actor
that the server holds.  The server may be dead or alive (it serves from its durable state and its
in-memory bookkeeping either way).  (Port of the second half of `ClusterLive.lean`.)
-/
import Corro.Lemmas.ClusterCrashLive

namespace Corro.ClusterSys.Crash
open Corro.Crdt Corro.Node Corro.ClusterSys

section Session
open Corro.Needs

/-- an advertised partial is an incomplete partial of the bookkeeping -/
theorem partialsOf_incomplete {P : Nat → Nat → Prop} {L : Log} {n : Node} {R : List Chg}
    (hI : CInv P L n R) {a : Nat}
    {x : Nat × List (Nat × Nat)} (hx : x ∈ partialsOf n.syncState a) :
    ∃ q, (n.booked a).partial? x.1 = some q ∧ q.complete = false ∧ x.2 = RSet.gaps q.seqs (0, q.last) := by
  by_cases hm : (n.booked a).max ≠ 0
  · rw [partialsOf_eq hI.sorted a hm] at hx
    obtain ⟨e, he, h1, h2⟩ := mem_nf hx
    have hp := partial?_of_mem (hI.keys a) (show (x.1, e.2) ∈ (n.booked a).partials by rw [← h1]; exact he)
    unfold gP at h2
    split at h2
    · cases h2
    · rename_i hc
      simp only [Option.some.injEq] at h2
      exact ⟨e.2, hp, by simpa using hc, h2.symm⟩
  · exfalso
    unfold partialsOf at hx
    rw [syncState_nf, aget_eq_alook] at hx
    simp only at hx
    rw [nf_alook gPN hI.sorted, bind_booked gPN rfl] at hx
    unfold gPN at hx
    rw [if_neg hm] at hx
    cases hx

variable {Pi Pj : Nat → Nat → Prop} {L : Log} {ni nj : Node} {Ri Rj : List Chg}

theorem held_no_rows {P : Nat → Nat → Prop} {n : Node} {R : List Chg} (hI : CInv P L n R) {a v : Nat}
    (hh : Held n a v) : ¬ HasRows n a v := by
  rintro ⟨r, hr, h1, h2⟩
  obtain ⟨p, hp⟩ := hI.rows_part r hr
  rw [h1, h2] at hp
  exact (hh.2 p hp).2 ⟨r, hr, h1, h2⟩

theorem held_no_buf {P : Nat → Nat → Prop} {n : Node} {R : List Chg} (hI : CInv P L n R) {a v : Nat}
    (hh : Held n a v) : n.hasBuf a v = false := by
  apply hasBuf_false_iff.mpr
  intro c hc hk
  have := hI.buf_rows c hc
  rw [hk.1, hk.2] at this
  exact held_no_rows hI hh this

/-- the version the server holds is among what it advertises as held -/
theorem haves_mem (hIj : CInv Pj L nj Rj) {a v : Nat} (hh : Held nj a v) (hv : 1 ≤ v) :
    RSet.Mem (otherHaves (nj.booked a).max (needOf nj.syncState a) (partialsOf nj.syncState a)) v := by
  have hcv := (containsVersion_iff _ _).mp hh.1
  have hfw : ∀ r ∈ needOf nj.syncState a, r.1 ≤ r.2 := by
    intro r hr
    exact Corro.Needs.wf_forward (hIj.needed_wf a) r (needOf_syncState hIj.sorted a hr)
  refine (mem_otherHaves _ (by omega) _ _ hfw v).mpr ⟨⟨hv, hcv.2⟩, ?_, ?_⟩
  · rintro ⟨r, hr, hx⟩
    exact hcv.1 ⟨r, needOf_syncState hIj.sorted a hr, hx⟩
  · intro x hx hxv
    obtain ⟨q, hq, hqc, _⟩ := partialsOf_incomplete hIj hx
    rw [hxv] at hq
    have := (hh.2 q hq).1
    rw [hqc] at this; cases this

/-- **a version the client lacks and the server holds is requested** (C04 `full_complete`) -/
theorem need_full_exists (hIi : CInv Pi L ni Ri) (hIj : CInv Pj L nj Rj) {a v : Nat} (ha : a ≠ ni.id)
    (hv : 1 ≤ v) (hh : Held nj a v) (hlack : (ni.booked a).containsVersion v = false) :
    ∃ ns lo hi, (a, ns) ∈ computeAvailableNeeds ni.syncState nj.syncState ∧ Need.full lo hi ∈ ns ∧
      lo ≤ v ∧ v ≤ hi := by
  have hcv := (containsVersion_iff _ _).mp hh.1
  have hM := held_max_ne_zero hh hv
  have hlack' : RSet.Mem (ni.booked a).needed v ∨ (ni.booked a).max < v := by
    by_cases hm : RSet.Mem (ni.booked a).needed v
    · exact Or.inl hm
    · right
      apply Classical.byContradiction
      intro hle
      have := (containsVersion_iff (ni.booked a) v).mpr ⟨hm, by omega⟩
      rw [hlack] at this; cases this
  suffices key : ∃ lo hi, Need.full lo hi ∈ needsFor ni.syncState nj.syncState a (nj.booked a).max ∧
      lo ≤ v ∧ v ≤ hi by
    obtain ⟨lo, hi, hn, h1, h2⟩ := key
    exact ⟨_, lo, hi, mem_compute_of_mem_needsFor (heads_mem hIj.sorted hM) (by rw [syncState_actor]; exact ha)
      hM hn, hn, h1, h2⟩
  by_cases hz : (ni.booked a).max ≠ 0
  · rcases hlack' with hm | hgt
    · obtain ⟨r, hr, hrv⟩ := hm
      have hr' : r ∈ needOf ni.syncState a := by rw [needOf_eq hIi.sorted a hz]; exact hr
      obtain ⟨p, hp, hx⟩ := (mem_clip_overlapping _ r v).mpr ⟨hrv, haves_mem hIj hh hv⟩
      exact ⟨_, _, mem_needsFor.mpr (Or.inl (mem_fullFromNeed.mpr ⟨r, hr', p, hp, rfl⟩)), hx⟩
    · refine ⟨(ni.booked a).max + 1, (nj.booked a).max, mem_needsFor.mpr (Or.inr (Or.inr ?_)), by omega, hcv.2⟩
      rw [aget_heads hIi.sorted a, if_pos hz]
      exact mem_missing.mpr (Or.inr ⟨_, rfl, by omega, rfl⟩)
  · refine ⟨1, (nj.booked a).max, mem_needsFor.mpr (Or.inr (Or.inr ?_)), hv, hcv.2⟩
    rw [aget_heads hIi.sorted a, if_neg hz]
    exact mem_missing.mpr (Or.inl ⟨rfl, rfl⟩)

/-- **the missing seq ranges of a partial are requested from a holder** (C04 `partial_complete`) -/
theorem need_part_exists (hIi : CInv Pi L ni Ri) (hIj : CInv Pj L nj Rj) {a v : Nat} (ha : a ≠ ni.id)
    (hv : 1 ≤ v) (hh : Held nj a v) {p : Partial} (hp : (ni.booked a).partial? v = some p)
    (hpc : p.complete = false) :
    ∃ ns, (a, ns) ∈ computeAvailableNeeds ni.syncState nj.syncState ∧
      Need.part v (RSet.gaps p.seqs (0, p.last)) ∈ ns := by
  have hM := held_max_ne_zero hh hv
  have hz : (ni.booked a).max ≠ 0 := by
    have := ((containsVersion_iff _ _).mp (hIi.part_known a v p hp)).2
    omega
  have hin : (v, RSet.gaps p.seqs (0, p.last)) ∈ partialsOf ni.syncState a := by
    rw [partialsOf_eq hIi.sorted a hz]
    exact mem_nf_of (e := (v, p)) (alook_some_mem hp) (by unfold gP; rw [hpc]; rfl)
  have hn : Need.part v (RSet.gaps p.seqs (0, p.last)) ∈
      needsFor ni.syncState nj.syncState a (nj.booked a).max :=
    mem_needsFor.mpr (Or.inr (Or.inl (mem_partialNeeds.mpr
      ⟨(v, RSet.gaps p.seqs (0, p.last)), hin, Or.inl ⟨haves_mem hIj hh hv, rfl⟩⟩)))
  exact ⟨_, mem_compute_of_mem_needsFor (heads_mem hIj.sorted hM) (by rw [syncState_actor]; exact ha) hM hn, hn⟩

/-- a holder settles a requested version: one complete changeset with its live changes, or an
`Empty` covering it -/
theorem final_item_exists (hIj : CInv Pj L nj Rj) {a v lo hi : Nat} (hh : Held nj a v) (h1 : lo ≤ v)
    (h2 : v ≤ hi) : ∃ it ∈ handleNeed nj a (.full lo hi), Final a v it := by
  cases hl : (nj.live a v).isEmpty with
  | false =>
    exact ⟨_, mem_handleNeed_full.mpr (Or.inl ⟨v, h1, h2, liveItem_of_live hl⟩), Or.inl ⟨_, _, rfl⟩⟩
  | true =>
    have hg : nj.inGaps a v = false := by
      cases hgg : nj.inGaps a v with
      | false => rfl
      | true => exact absurd (inGaps_iff.mp hgg) ((containsVersion_iff _ _).mp hh.1).1
    have hm : RSet.Mem (emptyRanges nj a lo hi) v :=
      mem_emptyRanges.mpr (mem_emptyVs.mpr ⟨h1, h2, hl, held_no_buf hIj hh, hg⟩)
    obtain ⟨p, hp, hx⟩ := hm
    exact ⟨_, mem_handleNeed_full.mpr (Or.inr (Or.inr ⟨p, hp, rfl⟩)), Or.inr ⟨_, _, rfl, hx.1, hx.2⟩⟩

/-- a holder answers a `Partial` need with one changeset per requested range, or with `Empty` -/
theorem part_items_exist (hIj : CInv Pj L nj Rj) {a v : Nat} (hh : Held nj a v) (seqs : List (Nat × Nat)) :
    (∀ r ∈ seqs, ∃ last cs, Corro.Node.Item.full a v r.1 r.2 last cs ∈ handleNeed nj a (.part v seqs)) ∨
    Corro.Node.Item.empty a v v ∈ handleNeed nj a (.part v seqs) := by
  cases hl : (nj.live a v).isEmpty with
  | false =>
    left
    intro r hr
    exact ⟨_, _, mem_handleNeed_part.mpr (Or.inl ⟨hl, r, hr, livePart_isSome hl r⟩)⟩
  | true =>
    right
    have hg : nj.inGaps a v = false := by
      cases hgg : nj.inGaps a v with
      | false => rfl
      | true => exact absurd (inGaps_iff.mp hgg) ((containsVersion_iff _ _).mp hh.1).1
    exact mem_handleNeed_part.mpr (Or.inr (Or.inr ⟨hl, held_no_buf hIj hh, hg, rfl⟩))

/-- every changeset of `(a, v)` a holder sends to a client without an incomplete partial of it is
complete -/
theorem answers_shape (hIi : CInv Pi L ni Ri) (hIj : CInv Pj L nj Rj) {a v : Nat} (hh : Held nj a v)
    (hnp : ∀ p, (ni.booked a).partial? v = some p → p.complete = true) :
    ∀ it ∈ answers ni nj, ∀ lo hi last cs, it = Corro.Node.Item.full a v lo hi last cs → lo = 0 ∧ hi = last := by
  intro it hit lo hi last cs heq
  unfold answers at hit
  obtain ⟨an, han, hit⟩ := List.mem_flatMap.mp hit
  obtain ⟨need, hneed, hit⟩ := List.mem_flatMap.mp hit
  obtain ⟨a', ns⟩ := an
  have hit := mem_serve hit
  subst heq
  cases need with
  | full lo' hi' =>
    rcases mem_handleNeed_full.mp hit with ⟨w, _, _, h3⟩ | ⟨w, r, _, _, _, hb, h5, h6⟩ | ⟨p, _, h6⟩
    · obtain ⟨_, he⟩ := liveItem_some h3
      simp only [Corro.Node.Item.full.injEq] at he
      exact ⟨he.2.2.1, by rw [he.2.2.2.1, he.2.2.2.2.1]⟩
    · exfalso
      simp only [bufItem, Corro.Node.Item.full.injEq] at h6
      obtain ⟨rfl, rfl, _⟩ := h6
      rw [held_no_buf hIj hh] at hb; cases hb
    · cases h6
  | part w seqs =>
    exfalso
    have hav : a' = a ∧ w = v := by
      rcases mem_handleNeed_part.mp hit with ⟨_, r, _, h3⟩ | ⟨_, _, r, _, row, _, _, h6⟩ | ⟨_, _, _, h6⟩
      · have := livePart_some h3
        simp only [Corro.Node.Item.full.injEq] at this
        exact ⟨this.1.symm, this.2.1.symm⟩
      · simp only [partItem, Corro.Node.Item.full.injEq] at h6
        exact ⟨h6.1.symm, h6.2.1.symm⟩
      · cases h6
    obtain ⟨rfl, rfl⟩ := hav
    obtain ⟨head, _, _, _, rfl, _⟩ := mem_computeAvailableNeeds.mp han
    rcases mem_needsFor.mp hneed with h | h | h
    · obtain ⟨r, _, p, _, he⟩ := mem_fullFromNeed.mp h; cases he
    · obtain ⟨q, hq, h⟩ := mem_partialNeeds.mp h
      have hqw : q.1 = w := by
        rcases h with ⟨_, he⟩ | ⟨_, os, _, _, he⟩ <;> (simp only [Need.part.injEq] at he; exact he.1.symm)
      obtain ⟨p, hp, hpc, _⟩ := partialsOf_incomplete hIi hq
      rw [hqw] at hp
      rw [hnp p hp] at hpc; cases hpc
    · rcases mem_missing.mp h with ⟨_, he⟩ | ⟨oh, _, _, he⟩ <;> cases he

/-- **`sync_round_progress`, one version, with crashes.**  After a LOSSLESS session an alive client
with nothing pending holds every version of a foreign actor that the server (dead or alive) holds. -/
theorem session_progress (hL : LogOK L) (hAi : AInv L ni Ri) (hNj : NInv L nj Rj)
    (hIj : CInv Pj L nj Rj) (hcl : nodeClean nj = true) {a v : Nat} (ha : a ≠ ni.id) (hv : 1 ≤ v)
    (hh : Held nj a v) : Held ((answers ni nj).foldl deliverOne (ni, Ri)).1 a v := by
  have hIi := hAi.cinv
  have hck : ∀ it ∈ answers ni nj, ChunkOK L it := fun it hit => chunkOK_answers hNj hIj hL hcl hit
  cases hp : (ni.booked a).partial? v with
  | none =>
    have hshape := answers_shape hIi hIj hh (fun p hp' => by rw [hp] at hp'; cases hp')
    cases hcv : (ni.booked a).containsVersion v with
    | true =>
      exact fold_held_mono hL _ (ni, Ri) hAi hck ⟨hcv, fun p hp' => by rw [hp] at hp'; cases hp'⟩
    | false =>
      obtain ⟨ns, lo, hi, hns, hneed, h1, h2⟩ := need_full_exists hIi hIj ha hv hh hcv
      obtain ⟨it, hit, hF⟩ := final_item_exists hIj hh h1 h2
      have hmem : it ∈ answers ni nj :=
        mem_answers hns hneed (by rw [serve_of_held hh hv (need := .full lo hi) ⟨h1, h2⟩]; exact hit)
      exact fold_finalize hL _ (ni, Ri) hAi hck hshape (Or.inr ⟨hp, it, hmem, hF⟩)
  | some p =>
    cases hpc : p.complete with
    | true =>
      rcases hIi.part_state a v p hp with ⟨_, h2⟩ | ⟨h1, _⟩ | ⟨h1, _⟩
      · refine fold_held_mono hL _ (ni, Ri) hAi hck ⟨hIi.part_known a v p hp, ?_⟩
        intro q hq
        rw [hp] at hq; cases hq
        exact ⟨hpc, h2⟩
      · rw [hpc] at h1; cases h1
      · exact absurd h1 id
    | false =>
      obtain ⟨ns, hns, hneed⟩ := need_part_exists hIi hIj ha hv hh hp hpc
      have hserve := serve_of_held hh hv (need := .part v (RSet.gaps p.seqs (0, p.last))) rfl
      rcases part_items_exist hIj hh (RSet.gaps p.seqs (0, p.last)) with hall | hemp
      · have hgw := RSet.gaps_wfFrom p.seqs 0 p.last 0 ((hIi.pwf a).of_partial? hp)
        have hranges : ∀ r ∈ RSet.gaps p.seqs (0, p.last), r ∈ rangesFor a v (answers ni nj) := by
          intro r hr
          obtain ⟨last, cs, hit⟩ := hall r hr
          have hmem : Corro.Node.Item.full a v r.1 r.2 last cs ∈ answers ni nj :=
            mem_answers hns hneed (by rw [hserve]; exact hit)
          unfold rangesFor
          refine List.mem_filterMap.mpr ⟨_, hmem, ?_⟩
          have hfw := Corro.Node.wfFrom_forward hgw r hr
          simp only [hfw, and_self, if_true]
        rcases fold_partial_grows hL (answers ni nj) (ni, Ri) hAi hck (p := p) (fun _ => False)
            (Or.inr ⟨p, hp, hpc, rfl, fun x hx => hx, fun r hr => absurd hr id⟩) with h | ⟨q, h1, h2, h3, h4, h5⟩
        · exact h
        · exfalso
          have hI' := (fold_ainv hL (answers ni nj) (ni, Ri) hAi hck).cinv
          have hqw := (hI'.pwf a).of_partial? h1
          have : q.complete = true := by
            rw [complete_iff hqw]
            intro x hx
            by_cases hm : RSet.Mem p.seqs x
            · exact h4 x hm
            · have hg : RSet.Mem (RSet.gaps p.seqs (0, p.last)) x :=
                (RSet.mem_gaps p.seqs 0 p.last x 0 ((hIi.pwf a).of_partial? hp)).mpr
                  ⟨⟨Nat.zero_le _, by rw [← h3]; exact hx⟩, hm⟩
              obtain ⟨r, hr, hx1, hx2⟩ := hg
              exact h5 r (Or.inr (hranges r hr)) x hx1 hx2
          rw [h2] at this; cases this
      · exact fold_empty_holds hL _ (ni, Ri) hAi hck
          (mem_answers hns hneed (by rw [hserve]; exact hemp)) (Nat.le_refl v) (Nat.le_refl v)

end Session

end Corro.ClusterSys.Crash
