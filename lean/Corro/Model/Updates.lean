/-
Model of the row-level update feed of one table (`crates/klukai-types/src/updates.rs`), as the code
is.  Import-free.

* `filterChanges`   — `match_changes` + `UpdateHandle::filter_matchable_change`: of one change list
                      (one committed version, in `seq` order) keep, per primary key of the handle's
                      table, the FIRST causal length seen; result in first-occurrence order
                      (`IndexMap`).
* `rereadBatch`     — `match_changes_from_db_version` after a chunked version was applied from the buffer:
                      nothing when no row was impacted, else the same filter over the re-read live
                      winners of that version.
* `step (.batch b)` — one `changes_rx.recv()` arm of `batch_candidates`: every candidate is tested
                      against `cl_cache` (`*o.get() > cl` → skipped; otherwise cache and buffer are
                      overwritten IN PLACE, a new key is appended; `buf_count += 1` per accepted
                      candidate, also for a key already buffered), then the cache is cut to its
                      newest `keep` entries BY INSERTION POSITION when it exceeds `cap`, then
                      `buf_count ≥ thr` raises `process`.
* `step .tick`      — the 600 ms deadline arm: `buf_count ≠ 0` raises `process`.
* `process` is declared outside the loop and never reset in the code: once raised, every later
  iteration flushes.  The model keeps that flag as it is (the extractor checks it stays so).
* flush             — `handle_candidates`: one event per buffered key in buffer order,
                      `cl % 2 == 0` → Delete, otherwise Update.

Keys are opaque (`Nat`; the driver interns primary-key tokens).  Causal lengths are `Nat`.
-/
namespace Corro.Updates

abbrev Key := Nat
/-- a candidate `(primary key, causal length)` -/
abbrev Cand := Key × Nat

inductive Kind where
  | update
  | delete
deriving DecidableEq, Repr, Inhabited

structure Event where
  key  : Key
  kind : Kind
  cl   : Nat          -- not on the wire (the client sees key + kind); kept for the theorems
deriving DecidableEq, Repr, Inhabited

structure Params where
  cap  : Nat          -- MAX_CACHE_ENTRIES
  keep : Nat          -- KEEP_CACHE_ENTRIES
  thr  : Nat          -- PROCESS_CHANGES_THRESHOLD
deriving DecidableEq, Repr, Inhabited

/-- one `Change` as `filter_matchable_change` sees it: does its table equal the handle's table,
its packed primary key, its causal length -/
structure Change where
  mine : Bool
  key  : Key
  cl   : Nat
deriving DecidableEq, Repr, Inhabited

/-- `IndexMap::get` -/
def lookup (k : Key) : List Cand → Option Nat
  | [] => none
  | c :: rest => if c.1 = k then some c.2 else lookup k rest

/-- `IndexMap::insert`: replace the value in place, or append -/
def upsert (k : Key) (v : Nat) : List Cand → List Cand
  | [] => [(k, v)]
  | c :: rest => if c.1 = k then (k, v) :: rest else c :: upsert k v rest

/-- `filter_matchable_change` on one change -/
def filterOne (acc : List Cand) (c : Change) : List Cand :=
  if c.mine then (if (lookup c.key acc).isSome then acc else acc ++ [(c.key, c.cl)]) else acc

/-- the candidate batch `match_changes` sends to the handle for one change list -/
def filterChanges (cs : List Change) : List Cand := cs.foldl filterOne []

/-- The SECOND producer: `process_fully_buffered_changes` → `match_changes_from_db_version`.  A remote
version that arrived in chunks is applied from `__corro_buffered_changes`; `impacted` is
`crsql_rows_impacted() > 0` of that transaction; only then the version's entries are RE-READ from
`crsql_changes` (`WHERE db_version = ? AND site_id = ? ORDER BY seq`: the changes of that version that
won the merge and are still live, `live`) and run through the same per-key filter.  `none` = no
candidate batch is sent at all. -/
def rereadBatch (impacted : Bool) (live : List Change) : Option (List Cand) :=
  if impacted then some (filterChanges live) else none

/-- within one version every change of a row of the table carries the same causal length
(what cr-sqlite produces: the causal length is a property of the row) -/
def UniformCl (cs : List Change) : Prop :=
  ∀ c1 ∈ cs, ∀ c2 ∈ cs, c1.mine = true → c2.mine = true → c1.key = c2.key → c1.cl = c2.cl

structure St where
  cache    : List Cand := []     -- cl_cache, insertion order
  buf      : List Cand := []     -- buf[table], insertion order
  bufCount : Nat := 0
  process  : Bool := false
deriving DecidableEq, Repr, Inhabited

def init : St := {}

/-- is the candidate skipped by the cache test? -/
def stale (s : St) (c : Cand) : Bool :=
  match lookup c.1 s.cache with
  | some old => decide (old > c.2)
  | none => false

def pushCand (s : St) (c : Cand) : St :=
  if stale s c then s
  else { s with cache := upsert c.1 c.2 s.cache, buf := upsert c.1 c.2 s.buf, bufCount := s.bufCount + 1 }

/-- `if cl_cache.len() > MAX { cl_cache = cl_cache.split_off(cl_cache.len() - KEEP) }` -/
def evict (p : Params) (cache : List Cand) : List Cand :=
  if cache.length > p.cap then cache.drop (cache.length - p.keep) else cache

def kindOf (cl : Nat) : Kind := if cl % 2 = 0 then .delete else .update

def toEvent (c : Cand) : Event := ⟨c.1, kindOf c.2, c.2⟩

/-- the `if process { handle_candidates(take(buf)); buf_count = 0 }` tail of one loop iteration -/
def finish (s : St) : St × List Event :=
  if s.process then ({ s with buf := [], bufCount := 0 }, s.buf.map toEvent) else (s, [])

inductive In where
  | batch (b : List Cand)
  | tick
deriving DecidableEq, Repr, Inhabited

/-- the state after the select arm, before the `if process` tail -/
def arm (p : Params) (s : St) : In → St
  | .batch b =>
    let s1 := b.foldl pushCand s
    let s2 := { s1 with cache := evict p s1.cache }
    if s2.bufCount ≥ p.thr then { s2 with process := true } else s2
  | .tick => if s.bufCount ≠ 0 then { s with process := true } else s

/-- one iteration of the loop of `batch_candidates` -/
def step (p : Params) (s : St) (x : In) : St × List Event := finish (arm p s x)

/-- final state and all events, in emission order -/
def run (p : Params) : St → List In → St × List Event
  | s, [] => (s, [])
  | s, x :: xs =>
    let r := step p s x
    let q := run p r.1 xs
    (q.1, r.2 ++ q.2)

def stateAfter (p : Params) (s : St) (xs : List In) : St := (run p s xs).1
def events (p : Params) (s : St) (xs : List In) : List Event := (run p s xs).2

/-- candidates of key `k` offered by an input, in order -/
def offeredIn (k : Key) : In → List Nat
  | .batch b => (b.filter (·.1 = k)).map (·.2)
  | .tick => []

def offered (k : Key) (xs : List In) : List Nat := xs.flatMap (offeredIn k)

/-- causal lengths of the events of key `k` -/
def clsOf (k : Key) (es : List Event) : List Nat := (es.filter (·.key = k)).map (·.cl)

def cached (k : Key) (s : St) : Bool := (lookup k s.cache).isSome

/-- **horizon**: the causal lengths of `k`'s events emitted from state `s` on, up to and including
the first loop iteration after which `k` is no longer in `cl_cache` -/
def horizonCls (p : Params) (k : Key) : St → List In → List Nat
  | _, [] => []
  | s, x :: xs =>
    let r := step p s x
    clsOf k r.2 ++ (if cached k r.1 then horizonCls p k r.1 xs else [])

/-- `k` is in the cache after every iteration of the run, from the first one that offers it on
(i.e. it is never evicted once seen) -/
def keptThroughout (p : Params) (k : Key) : St → List In → Bool
  | _, [] => true
  | s, x :: xs =>
    let r := step p s x
    (if cached k s || !(offeredIn k x).isEmpty then cached k r.1 else true) && keptThroughout p k r.1 xs

def maxCl : List Nat → Nat
  | [] => 0
  | c :: cs => max c (maxCl cs)

/-- the last event of key `k` in an event list -/
def lastEventOf (k : Key) (es : List Event) : Option Event := (es.filter (·.key = k)).getLast?

/-- number of candidates of an input -/
def candCount : List In → Nat
  | [] => 0
  | .batch b :: xs => b.length + candCount xs
  | .tick :: xs => candCount xs

/-- `n` fresh keys `1..n`, all inserts -/
def fill (n : Nat) : List Cand := (List.range n).map (fun i => (i + 1, 1))

end Corro.Updates
