/-
Model of the per-actor version bookkeeping (crates/klukai-types/src/agent.rs):
`PartialVersion`, `BookedVersions`, `VersionsSnapshot::{compute_gaps_change, insert_db}`,
`BookedVersions::{from_conn, insert_partial, contains*, commit_snapshot}`, of `generate_sync`
(crates/klukai-types/src/sync.rs) for one actor, and of the way the callers in
crates/klukai-agent/src/agent/util.rs (`process_multiple_changes`, `process_incomplete_version`,
`process_empty_version`) drive them.  Import-free apart from the interval-set model.

Versions and sequence numbers are `Nat` (u64 wrap-around is out of scope: `versions.start() - 1`
for version 0 underflows in the real code; here `0 - 1 = 0`; the theorems exclude version 0).
The model follows the code as it is, in its decision order.
-/
import Corro.Model.Ranges

namespace Corro.Book
open Corro

/-! ### PartialVersion -/

/-- `PartialVersion` without its timestamp. -/
structure Partial where
  seqs : RSet
  last : Nat
deriving Repr, DecidableEq, Inhabited

/-- `PartialVersion::full_range` (`0..=last_seq`, the repaired code). -/
def Partial.fullRange (p : Partial) : Nat × Nat := (0, p.last)

/-- `PartialVersion::is_complete`: `self.seqs.gaps(&self.full_range()).count() == 0`. -/
def Partial.isComplete (p : Partial) : Bool := (p.seqs.gaps p.fullRange).isEmpty

/-! ### `BTreeMap<CrsqlDbVersion, PartialVersion>` as an association list in key order -/

abbrev PMap := List (Nat × Partial)

/-- `BTreeMap::insert` (replaces an existing entry). -/
def pmPut : PMap → Nat → Partial → PMap
  | [], v, p => [(v, p)]
  | (k, q) :: t, v, p =>
    if v < k then (v, p) :: (k, q) :: t
    else if v = k then (k, p) :: t
    else (k, q) :: pmPut t v p

/-- `for version in range { partials.remove(&version) }` -/
def pmRemoveRange (m : PMap) (r : Nat × Nat) : PMap :=
  m.filter (fun e => !(r.1 ≤ e.1 && e.1 ≤ r.2))

/-! ### BookedVersions / VersionsSnapshot (same three fields) -/

structure Book where
  partials : PMap
  needed : RSet
  max : Option Nat
deriving Repr, DecidableEq, Inhabited

/-- `BookedVersions::new` -/
def Book.empty : Book := ⟨[], [], none⟩

/-- `cmp::max(m, Some(v))` on `Option<CrsqlDbVersion>` (`None` is the least element). -/
def optMax (m : Option Nat) (v : Nat) : Option Nat :=
  match m with
  | none => some v
  | some a => some (Nat.max a v)

/-- `Some(v) >= m` on `Option<CrsqlDbVersion>`. -/
def optLe (m : Option Nat) (v : Nat) : Bool :=
  match m with
  | none => true
  | some a => a ≤ v

/-- `BookedVersions::contains_version` -/
def containsVersion (b : Book) (v : Nat) : Bool :=
  !(b.needed.any (fun r => r.1 ≤ v && v ≤ r.2)) && (b.max.getD 0 ≥ v)

/-- `check_seqs.clone().all(|seq| partial.seqs.contains(&seq))` -/
def seqsAllIn (s : RSet) (r : Nat × Nat) : Bool :=
  (List.range' r.1 (r.2 + 1 - r.1)).all (fun q => s.contains q)

/-- `BookedVersions::contains` (a version held only in part is not known as a whole) -/
def contains (b : Book) (v : Nat) (seqs : Option (Nat × Nat)) : Bool :=
  containsVersion b v &&
    (match seqs, b.partials.lookup v with
     | some cs, some p => seqsAllIn p.seqs cs
     | none, some p => p.isComplete
     | _, none => true)

/-- `BookedVersions::contains_all` -/
def containsAll (b : Book) (vs : Nat × Nat) (seqs : Option (Nat × Nat)) : Bool :=
  (List.range' vs.1 (vs.2 + 1 - vs.1)).all (fun v => contains b v seqs)

/-- `BookedVersions::insert_partial`; returns the stored partial as the real function does. -/
def insertPartial (b : Book) (v : Nat) (p : Partial) : Book × Partial :=
  match b.partials.lookup v with
  | none => ({ b with partials := pmPut b.partials v p, max := optMax b.max v }, p)
  | some got =>
    let got' : Partial := { got with seqs := got.seqs.insertAll p.seqs }   -- `got.seqs.extend(partial.seqs)`
    ({ b with partials := pmPut b.partials v got' }, got')

/-! ### compute_gaps_change -/

/-- `GapsChanges`.  `remove_ranges` is a `HashSet` in the real code: kept duplicate-free here; its
iteration order does not matter because every element is handled independently. -/
structure GapsChanges where
  max : Option Nat
  insertSet : RSet
  removeRanges : List (Nat × Nat)
deriving Repr, DecidableEq, Inhabited

/-- `HashSet::insert` -/
def hsInsert (l : List (Nat × Nat)) (r : Nat × Nat) : List (Nat × Nat) :=
  if l.contains r then l else l ++ [r]

/-- `changes.insert_set.insert(range.clone()); changes.remove_ranges.insert(range.clone());` -/
def addCollapsible (c : GapsChanges) (r : Nat × Nat) : GapsChanges :=
  { c with insertSet := c.insertSet.insert r, removeRanges := hsInsert c.removeRanges r }

def addGet (needed : RSet) (c : GapsChanges) (x : Nat) : GapsChanges :=
  match needed.get? x with
  | some r => addCollapsible c r
  | none => c

/-- body of the first `for versions in versions.clone()` loop; `needed`/`selfMax` are the snapshot's
fields, which the loop does not change. -/
def stepRange (needed : RSet) (selfMax : Option Nat) (c : GapsChanges) (v : Nat × Nat) : GapsChanges :=
  -- only update the max if it's bigger
  let c := { c with max := optMax c.max v.2 }
  -- iterate all partially or fully overlapping changes
  let c := (needed.overlapping v).foldl addCollapsible c
  -- previous range with an end version = start version - 1
  let c := addGet needed c (v.1 - 1)
  -- next range with a start version = end version + 1
  let c := addGet needed c (v.2 + 1)
  let gapStart := selfMax.getD 0 + 1
  if gapStart < v.1 then
    let range := (gapStart, v.1)          -- inclusive of `start`; removed again by the final loop
    let c := { c with insertSet := c.insertSet.insert range }
    (needed.overlapping range).foldl addCollapsible c
  else c

/-- `VersionsSnapshot::compute_gaps_change` -/
def computeGapsChange (s : Book) (versions : RSet) : GapsChanges :=
  let c := versions.foldl (stepRange s.needed s.max) ⟨s.max, [], []⟩
  { c with insertSet := c.insertSet.removeAll versions }

/-! ### the `__corro_bookkeeping_gaps` table (rows of one actor, in primary-key order) -/

abbrev Rows := List (Nat × Nat)

/-- rows matched by `DELETE … WHERE actor_id = ? AND start = ? AND end = ?` -/
def rowCount (rows : Rows) (r : Nat × Nat) : Nat := (rows.filter (fun p => p == r)).length

def rowDelete (rows : Rows) (r : Nat × Nat) : Rows := rows.filter (fun p => !(p == r))

/-- does `INSERT` hit the primary key `(actor_id, start)` -/
def rowConflict (rows : Rows) (r : Nat × Nat) : Bool := rows.any (fun p => p.1 == r.1)

/-- insertion in primary-key order -/
def rowInsert : Rows → Nat × Nat → Rows
  | [], r => [r]
  | p :: t, r => if r.1 < p.1 then r :: p :: t else p :: rowInsert t r

inductive DbErr
  | deleteMiss      -- `count != 1` ("ineffective deletion of gaps in-db")
  | insertConflict  -- UNIQUE constraint failed: __corro_bookkeeping_gaps.actor_id, start
  | seqNonContiguous -- "deleted non-contiguous seq ranges!"
  | seqConflict     -- UNIQUE constraint on __corro_seq_bookkeeping (site_id, db_version, start_seq)
deriving Repr, DecidableEq, Inhabited

/-- first loop of `insert_db`: per removed range one DELETE, then drop it from the snapshot. -/
def deleteLoop : List (Nat × Nat) → Book → Rows → Except DbErr (Book × Rows)
  | [], s, rows => .ok (s, rows)
  | r :: rs, s, rows =>
    if rowCount rows r = 1 then
      deleteLoop rs { s with partials := pmRemoveRange s.partials r, needed := s.needed.remove r }
        (rowDelete rows r)
    else .error .deleteMiss

/-- second loop of `insert_db`: per range of the insert set one INSERT, then add it to the snapshot. -/
def insertLoop : List (Nat × Nat) → Book → Rows → Except DbErr (Book × Rows)
  | [], s, rows => .ok (s, rows)
  | r :: rs, s, rows =>
    if rowConflict rows r then .error .insertConflict
    else insertLoop rs { s with needed := s.needed.insert r } (rowInsert rows r)

/-- `VersionsSnapshot::insert_db` on a snapshot `s` and the gaps rows of its actor. -/
def insertDb (s : Book) (rows : Rows) (versions : RSet) : Except DbErr (Book × Rows) :=
  let ch := computeGapsChange s versions
  match deleteLoop ch.removeRanges s rows with
  | .error e => .error e
  | .ok (s1, rows1) =>
    match insertLoop ch.insertSet s1 rows1 with
    | .error e => .error e
    | .ok (s2, rows2) => .ok ({ s2 with max := ch.max }, rows2)

/-! ### durable state and `from_conn` -/

/-- a row of `__corro_seq_bookkeeping` for the actor: `(db_version, start_seq, end_seq, last_seq)` -/
abbrev SeqRow := Nat × Nat × Nat × Nat

/-- What `from_conn` reads: gaps rows, seq rows (both in primary-key order) and the actor's row of
`crsql_db_versions`. -/
structure Durable where
  gaps : Rows
  seqs : List SeqRow
  dbv : Option Nat
deriving Repr, DecidableEq, Inhabited

def Durable.empty : Durable := ⟨[], [], none⟩

/-- `BookedVersions::from_conn` -/
def fromConn (d : Durable) : Book :=
  -- the biggest version we know; a partial version might override this below
  let bv : Book := { Book.empty with max := d.dbv }
  let bv := d.seqs.foldl
    (fun b row => (insertPartial b row.1 ⟨RSet.ofList [(row.2.1, row.2.2.1)], row.2.2.2⟩).1) bv
  -- `snap.needed.insert(start_v..=end_v)` per gaps row, then `commit_snapshot`
  { bv with needed := RSet.insertAll bv.needed d.gaps }

/-! ### generate_sync, one actor -/

structure SyncOut where
  head : Option Nat
  need : List (Nat × Nat)
  partialNeed : List (Nat × List (Nat × Nat))
deriving Repr, DecidableEq, Inhabited

/-- `generate_sync` restricted to one `Booked` entry (an actor whose `last()` is `None` is skipped). -/
def generateSync (b : Book) : SyncOut :=
  match b.max with
  | none => ⟨none, [], []⟩
  | some h =>
    ⟨some h, b.needed,
     (b.partials.filter (fun e => !e.2.isComplete)).map (fun e => (e.1, e.2.seqs.gaps (0, e.2.last)))⟩

/-! ### the callers (util.rs): one batch = one operation -/

/-- in-memory + durable state of one origin actor on one node -/
structure Node where
  book : Book
  db : Durable
deriving Repr, DecidableEq, Inhabited

def Node.empty : Node := ⟨Book.empty, Durable.empty⟩

/-- `crsql_set_db_version(site, v)`: `INSERT … ON CONFLICT DO UPDATE … WHERE db_version < excluded.db_version`
(cr-sqlite, trusted). -/
def setDbVersion (d : Option Nat) (v : Nat) : Option Nat := optMax d v

/-- `crsql_db_versions` after the `process_empty_version` calls of one batch: only ends that are
not below the head the batch started with are written (`if Some(end) >= max`; a partial that is
about to be dropped may be all that recorded the head so far) -/
def dbvAfter (max0 dbv : Option Nat) (rs : List (Nat × Nat)) : Option Nat :=
  rs.foldl (fun d r => if optLe max0 r.2 then setDbVersion d r.2 else d) dbv

/-- is the row's version covered by one of the ranges -/
def coveredBy (rs : List (Nat × Nat)) (v : Nat) : Bool := rs.any (fun r => r.1 ≤ v && v ≤ r.2)

/-- `process_multiple_changes` for whole versions (`Changeset::Empty { versions }`, or a complete
changeset) that passed the `contains_all` guard, in batch order: `process_empty_version` when the
end is not below the head the batch started with (for applied changes cr-sqlite moves
`crsql_db_versions` itself), `check_buffered_meta_to_clear` → the clear job for those versions
(run to completion here), `snapshot()` → `insert_db(collect(rs))` → commit → `commit_snapshot`,
then every partial inside a processed range is dropped from memory.  An error rolls the
transaction back and the snapshot is dropped. -/
def wholeVersions (st : Node) (rs : List (Nat × Nat)) : Except DbErr Node :=
  match insertDb st.book st.db.gaps (RSet.ofList rs) with
  | .error e => .error e
  | .ok (b, rows) =>
    .ok ⟨{ b with partials := rs.foldl pmRemoveRange b.partials },
         { gaps := rows,
           seqs := st.db.seqs.filter (fun row => !coveredBy rs row.1),
           dbv := dbvAfter st.book.max st.db.dbv rs }⟩

inductive InsertOutcome
  | skipped            -- every changeset of the batch was already known
  | done (st : Node)
  | failed (e : DbErr) -- transaction rolled back, state unchanged
deriving Repr, DecidableEq, Inhabited

/-- one batch of whole-version changesets, one per range of `rs`: those already known
(`contains_all(versions, None)`) are dropped, the rest is processed together.
(The in-batch `seen` map only drops ranges covered by earlier ranges of the same batch, which
changes nothing below.) -/
def opInsert (st : Node) (rs : List (Nat × Nat)) : InsertOutcome :=
  let processed := rs.filter (fun r => !containsAll st.book r none)
  if processed.isEmpty then .skipped
  else match wholeVersions st processed with
    | .ok st' => .done st'
    | .error e => .failed e

/-- the WHERE clause of the seq-range merge DELETE in `process_incomplete_version`
(row `(s, e)`, incoming `(lo, hi)`; SQL integers are signed, so `:start - 1` is `-1` for 0). -/
def seqTouches (s e lo hi : Nat) : Bool :=
  (lo ≤ s && s ≤ hi) || (s ≤ lo && e ≥ hi) || (s ≤ hi && e ≥ hi) || (lo ≤ e && e ≤ hi) ||
  (s = hi + 1 && e ≠ 0) || (e + 1 = lo)

def seqRowInsert : List SeqRow → SeqRow → List SeqRow
  | [], r => [r]
  | p :: t, r =>
    if r.1 < p.1 || (r.1 = p.1 && r.2.1 < p.2.1) then r :: p :: t else p :: seqRowInsert t r

/-- rows removed by the merge DELETE for an incoming `(v, lo..=hi)` -/
def seqHit (v lo hi : Nat) (r : SeqRow) : Bool := r.1 = v && seqTouches r.2.1 r.2.2.1 lo hi

/-- the bookkeeping part of `process_incomplete_version` (buffered changes are not modelled):
delete the touching rows of `v`, merge them with the incoming range, insert the merged row.
Returns the new rows and the `PartialVersion` handed to `insert_partial`. -/
def processIncomplete (rows : List SeqRow) (v : Nat) (seqs : Nat × Nat) (last : Nat) :
    Except DbErr (List SeqRow × Partial) :=
  let deleted := (rows.filter (seqHit v seqs.1 seqs.2)).map (fun r => (r.2.1, r.2.2.1))
  let rest := rows.filter (fun r => !seqHit v seqs.1 seqs.2 r)
  let newRanges := (RSet.ofList deleted).insert seqs
  match newRanges with
  | [m] =>
    if rest.any (fun r => r.1 = v && r.2.1 = m.1) then .error .seqConflict
    else .ok (seqRowInsert rest (v, m.1, m.2, last), ⟨[m], last⟩)
  | _ => .error .seqNonContiguous

inductive PartialOutcome
  | skipped            -- `contains_all(versions, seqs)`: already known, nothing is done
  | invalid            -- "seqs start is greater than seqs end": dropped
  | done (st : Node)
  | failed (e : DbErr) -- transaction rolled back, state unchanged
deriving Repr, DecidableEq, Inhabited

/-- `process_multiple_changes` for one changeset `Full { version: v, changes: [], seqs, last_seq }`:
the `contains_all` guard; a chunk that spans `0..=last_seq` and carries no changes is complete and
empty, i.e. handled as a cleared version; otherwise `process_incomplete_version`,
`insert_db({v})`, commit, `commit_snapshot`, `insert_partial`. -/
def opPartial (st : Node) (v : Nat) (seqs : Nat × Nat) (last : Nat) : PartialOutcome :=
  if containsAll st.book (v, v) (some seqs) then .skipped
  else if seqs.1 = 0 ∧ seqs.2 = last then
    match wholeVersions st [(v, v)] with
    | .ok st' => .done st'
    | .error e => .failed e
  else if seqs.2 < seqs.1 then .invalid
  else
    match processIncomplete st.db.seqs v seqs last with
    | .error e => .failed e
    | .ok (seqRows, pv) =>
      match insertDb st.book st.db.gaps (RSet.ofList [(v, v)]) with
      | .error e => .failed e
      | .ok (b, rows) =>
        .done ⟨(insertPartial b v pv).1, { st.db with gaps := rows, seqs := seqRows }⟩

/-- restart: the in-memory view is rebuilt from the durable rows -/
def opReload (st : Node) : Node := ⟨fromConn st.db, st.db⟩

/-- operations of the property's quantifier -/
inductive Op
  | ins (rs : List (Nat × Nat))
  | part (v : Nat) (seqs : Nat × Nat) (last : Nat)
  | reload
deriving Repr, DecidableEq, Inhabited

/-- one operation; a failed / skipped operation leaves the state unchanged (rollback) -/
def step (st : Node) : Op → Node
  | .ins rs => match opInsert st rs with | .done st' => st' | _ => st
  | .part v seqs last => match opPartial st v seqs last with | .done st' => st' | _ => st
  | .reload => opReload st

def run (st : Node) (ops : List Op) : Node := ops.foldl step st

end Corro.Book
