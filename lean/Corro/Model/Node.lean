/-
Model of one corrosion node's replication state and of the operations the cluster correspondence
drives on REAL agents (harness/src/cluster.rs): local transactions, `process_multiple_changes`,
the background apply of fully buffered versions (`process_fully_buffered_changes`) and clearing of
buffered meta, `generate_sync`, `handle_need`, a sync session, and restart (`from_conn` for every
discovered actor).  Bookkeeping is kept at the level of interval sets (`Corro.RSet`); the row-level
algorithm of `insert_db` is C02's business (its theorem says it computes exactly this).
Import-free apart from other model files.
-/
import Corro.Model.Ranges
import Corro.Model.Crdt
import Corro.Model.Needs

namespace Corro.Node
open Corro.Crdt

/-! ### per-actor bookkeeping (`BookedVersions`) -/

structure Partial where
  seqs : RSet
  last : Nat
deriving Repr, DecidableEq, Inhabited

structure Booked where
  max : Nat := 0                      -- 0 = `None`
  needed : RSet := []
  partials : List (Nat × Partial) := []   -- by version, ascending (BTreeMap)
deriving Repr, DecidableEq, Inhabited

def Partial.complete (p : Partial) : Bool := (RSet.gaps p.seqs (0, p.last)).isEmpty

def Booked.partial? (b : Booked) (v : Nat) : Option Partial := (b.partials.find? (·.1 = v)).map (·.2)

def Booked.containsVersion (b : Booked) (v : Nat) : Bool := !(RSet.contains b.needed v) && decide (v ≤ b.max)

/-- `BookedVersions::contains` (as of the fix: a whole version held only in part is not known) -/
def Booked.contains (b : Booked) (v : Nat) (seqs : Option (Nat × Nat)) : Bool :=
  b.containsVersion v &&
  match seqs, b.partial? v with
  | some s, some p => (RSet.gaps p.seqs s).isEmpty
  | none, some p => p.complete
  | _, none => true

def Booked.containsAll (b : Booked) (vlo vhi : Nat) (seqs : Option (Nat × Nat)) : Bool :=
  (List.range (vhi + 1 - vlo)).all (fun i => b.contains (vlo + i) seqs)

def sup (rs : List (Nat × Nat)) : Nat := rs.foldl (fun m r => Nat.max m r.2) 0

/-- `snapshot().insert_db(versions)` + `commit_snapshot`, at the level of sets:
`needed' = (needed ∪ [max+1, sup S]) \ S`, `max' = max(max, sup S)`. -/
def Booked.insertDb (b : Booked) (vs : List (Nat × Nat)) : Booked :=
  if vs.isEmpty then b else
  let s := sup vs
  let needed1 := if b.max + 1 ≤ s then RSet.insert b.needed (b.max + 1, s) else b.needed
  { b with max := Nat.max b.max s, needed := RSet.removeAll needed1 vs }

def insertSortedBy {α : Type} (key : α → Nat) (x : α) : List α → List α
  | [] => [x]
  | y :: ys => if key x < key y then x :: y :: ys else y :: insertSortedBy key x ys

/-- `insert_partial` -/
def Booked.insertPartial (b : Booked) (v : Nat) (p : Partial) : Booked × Partial :=
  match b.partial? v with
  | none => ({ b with max := Nat.max b.max v, partials := insertSortedBy (·.1) (v, p) b.partials }, p)
  | some old =>
    let merged : Partial := { old with seqs := RSet.insertAll old.seqs p.seqs }
    ({ b with partials := b.partials.map (fun e => if e.1 = v then (v, merged) else e) }, merged)

def Booked.dropPartials (b : Booked) (vlo vhi : Nat) : Booked :=
  { b with partials := b.partials.filter (fun e => !(decide (vlo ≤ e.1) && decide (e.1 ≤ vhi))) }

/-! ### node state -/

/-- a row of `__corro_seq_bookkeeping` -/
structure SeqRow where
  site : Nat
  ver : Nat
  lo : Nat
  hi : Nat
  last : Nat
deriving Repr, DecidableEq, Inhabited

structure Node where
  id : Nat
  db : Db
  book : List (Nat × Booked) := []      -- in-memory Bookie, by actor
  seqRows : List SeqRow := []           -- durable
  buf : List Chg := []                  -- durable `__corro_buffered_changes`
  dbv : List (Nat × Nat) := []          -- durable `crsql_db_versions`
  alive : Bool := true                  -- background apply loop running
deriving Repr, Inhabited

def Node.fresh (i : Nat) : Node := { id := i, db := { site := i } }

def Node.booked (n : Node) (a : Nat) : Booked := ((n.book.find? (·.1 = a)).map (·.2)).getD {}

def Node.setBooked (n : Node) (a : Nat) (b : Booked) : Node :=
  if n.book.any (·.1 = a) then { n with book := n.book.map (fun e => if e.1 = a then (a, b) else e) }
  else { n with book := insertSortedBy (·.1) (a, b) n.book }

def Node.bumpDbv (n : Node) (site ver : Nat) : Node :=
  if n.dbv.any (·.1 = site) then
    { n with dbv := n.dbv.map (fun e => if e.1 = site then (site, Nat.max e.2 ver) else e) }
  else { n with dbv := insertSortedBy (·.1) (site, ver) n.dbv }

/-- merging changes through `crsql_changes` also records the origin's db version -/
def Node.mergeChanges (n : Node) (cs : List Chg) : Node :=
  cs.foldl (fun n c => { (n.bumpDbv c.site c.dbv) with db := merge n.db c }) n

/-! ### wire items -/

inductive Item where
  | full (site ver lo hi last : Nat) (changes : List Chg)
  | empty (site vlo vhi : Nat)
deriving Repr, DecidableEq, Inhabited

def Item.site : Item → Nat
  | .full s .. => s
  | .empty s .. => s

def Item.versions : Item → Nat × Nat
  | .full _ v .. => (v, v)
  | .empty _ lo hi => (lo, hi)

def Item.seqs : Item → Option (Nat × Nat)
  | .full _ _ lo hi _ _ => some (lo, hi)
  | .empty .. => none

def Item.isComplete : Item → Bool
  | .full _ _ lo hi last _ => lo == 0 && hi == last
  | .empty .. => true

def Item.isEmpty : Item → Bool
  | .full _ _ _ _ _ cs => cs.isEmpty
  | .empty .. => true

/-! ### `process_multiple_changes` -/

/-- what became of one changeset inside the transaction -/
structure Processed where
  vlo : Nat
  vhi : Nat
  part : Option Partial
deriving Repr, Inhabited

def hasBufferedMeta (n : Node) (site vlo vhi : Nat) : Bool :=
  n.buf.any (fun c => c.site = site ∧ vlo ≤ c.dbv ∧ c.dbv ≤ vhi) ||
  n.seqRows.any (fun r => r.site = site ∧ vlo ≤ r.ver ∧ r.ver ≤ vhi)

/-- the clear job of `clear_buffered_meta_loop` for `(site, vlo..=vhi)` -/
def Node.clearMeta (n : Node) (site vlo vhi : Nat) : Node :=
  { n with
    buf := n.buf.filter (fun c => !(c.site == site && decide (vlo ≤ c.dbv) && decide (c.dbv ≤ vhi)))
    seqRows := n.seqRows.filter (fun r => !(r.site == site && decide (vlo ≤ r.ver) && decide (r.ver ≤ vhi))) }

/-- `process_incomplete_version`: buffer the rows (first writer of a `(site,dbv,seq)` wins), merge
the sequence rows that overlap or touch the chunk's range into one row carrying the chunk's
`last_seq`.  Returns the new node and the merged range. -/
def Node.bufferChunk (n : Node) (site ver lo hi last : Nat) (cs : List Chg) : Node × (Nat × Nat) :=
  let buf := cs.foldl (fun b c =>
    if b.any (fun x => x.site = c.site ∧ x.dbv = c.dbv ∧ x.seq = c.seq) then b else b ++ [c]) n.buf
  let touching (r : SeqRow) : Bool :=
    r.site == site && r.ver == ver &&
      ((decide (lo ≤ r.lo) && decide (r.lo ≤ hi)) || (decide (r.lo ≤ lo) && decide (hi ≤ r.hi)) ||
       (decide (r.lo ≤ hi) && decide (hi ≤ r.hi)) || (decide (lo ≤ r.hi) && decide (r.hi ≤ hi)) ||
       (r.lo == hi + 1 && r.hi != 0) || (r.hi + 1 == lo))
  let deleted := n.seqRows.filter touching
  let mlo := deleted.foldl (fun m r => Nat.min m r.lo) lo
  let mhi := deleted.foldl (fun m r => Nat.max m r.hi) hi
  let rows := (n.seqRows.filter (fun r => !touching r)) ++ [⟨site, ver, mlo, mhi, last⟩]
  ({ n with buf := buf, seqRows := rows }, (mlo, mhi))

/-- state threaded through one actor's changesets inside the transaction -/
structure TxSt where
  node : Node
  seen : List ((Nat × Nat) × Option Partial)     -- `seen` RangeInclusiveMap: ranges of versions
  processed : List Processed
  clears : List (Nat × Nat × Nat)                -- scheduled `tx_clear_buf` jobs
deriving Inhabited

def seenGet (seen : List ((Nat × Nat) × Option Partial)) (v : Nat) : Option (Option Partial) :=
  (seen.find? (fun e => e.1.1 ≤ v ∧ v ≤ e.1.2)).map (·.2)

/-- "check if we've seen this version here" -/
def alreadySeen (seen : List ((Nat × Nat) × Option Partial)) (it : Item) : Bool :=
  let (vlo, vhi) := it.versions
  (List.range (vhi + 1 - vlo)).all fun i =>
    let v := vlo + i
    match it.seqs with
    | some s => match seenGet seen v with
      | some (some p) => (RSet.gaps p.seqs s).isEmpty
      | some none => true
      | none => false
    | none => (seenGet seen v).isSome

/-- later insertions into a `RangeInclusiveMap` overwrite the overlapped part; lookups above use the
first match, so new entries go to the front -/
def seenInsert (seen : List ((Nat × Nat) × Option Partial)) (r : Nat × Nat) (p : Option Partial) :=
  (r, p) :: seen

def processOne (booked0 : Booked) (st : TxSt) (it : Item) : TxSt :=
  let (vlo, vhi) := it.versions
  if booked0.containsAll vlo vhi it.seqs then st
  else if alreadySeen st.seen it then st
  else
    if it.isComplete && it.isEmpty then
      -- Cleared: record the db version when it is not below the max, schedule clearing of stale meta
      let n1 := if booked0.max ≤ vhi then st.node.bumpDbv it.site vhi else st.node
      let clears := if hasBufferedMeta n1 it.site vlo vhi then st.clears ++ [(it.site, vlo, vhi)] else st.clears
      { node := n1, seen := seenInsert st.seen (vlo, vhi) none,
        processed := st.processed ++ [⟨vlo, vhi, none⟩], clears := clears }
    else
      match it with
      | .empty .. => st     -- unreachable: handled above
      | .full site ver lo hi last cs =>
        if hi < lo then st else
        if lo == 0 && hi == last then
          -- complete: apply right away
          let n1 := st.node.mergeChanges cs
          let clears := if hasBufferedMeta n1 site ver ver then st.clears ++ [(site, ver, ver)] else st.clears
          { node := n1, seen := seenInsert st.seen (ver, ver) none,
            processed := st.processed ++ [⟨ver, ver, none⟩], clears := clears }
        else
          let (n1, m) := st.node.bufferChunk site ver lo hi last cs
          let p : Partial := ⟨[m], last⟩
          { node := n1, seen := seenInsert st.seen (ver, ver) (some p),
            processed := st.processed ++ [⟨ver, ver, some p⟩], clears := st.clears }

def dedupeBatch (batch : List Item) : List Item :=
  batch.foldl (fun acc it => if acc.any (fun x => x.site = it.site ∧ x.versions = it.versions ∧ x.seqs = it.seqs) then acc else acc ++ [it]) []

def sitesOf (batch : List Item) : List Nat :=
  (batch.foldl (fun acc it => if acc.contains it.site then acc else insertSortedBy (fun (x : Nat) => x) it.site acc) [])

/-- one actor's share of the batch: the transaction part, then the in-memory part after commit.
Returns the node and the versions whose partial became complete (→ `tx_apply`). -/
def processActor (n : Node) (site : Nat) (items : List Item) : Node × List (Nat × Nat) × List (Nat × Nat × Nat) :=
  let booked0 := n.booked site
  let st := items.foldl (processOne booked0) { node := n, seen := [], processed := [], clears := [] }
  if st.processed.isEmpty then (st.node, [], st.clears) else
  -- snap.insert_db(all processed versions), commit, commit_snapshot
  let b1 := booked0.insertDb (st.processed.map (fun p => (p.vlo, p.vhi)))
  -- after commit: insert_partial / stale partial removal, in processing order
  let (b2, applies) := st.processed.foldl (fun (acc : Booked × List (Nat × Nat)) p =>
    match p.part with
    | some part =>
      let (b', got) := acc.1.insertPartial p.vlo part
      if got.complete then (b', acc.2 ++ [(site, p.vlo)]) else (b', acc.2)
    | none => (acc.1.dropPartials p.vlo p.vhi, acc.2)) (b1, [])
  (st.node.setBooked site b2, applies, st.clears)

/-- `process_fully_buffered_changes` for `(site, ver)` -/
def Node.applyBuffered (n : Node) (site ver : Nat) : Node :=
  let b := n.booked site
  match b.partial? ver with
  | none => n
  | some p =>
    if !p.complete then n else
    let rows := sortBySeq (n.buf.filter (fun c => c.site = site ∧ c.dbv = ver))
    let n1 := if rows.isEmpty then n.bumpDbv site ver else n.mergeChanges rows
    let n2 := n1.setBooked site (b.insertDb [(ver, ver)])
    n2.clearMeta site ver ver

/-- the whole of `process_multiple_changes` followed by whatever the background loops then do
(applies only while the node is alive; clear jobs always run) -/
def Node.deliver (n : Node) (batch : List Item) : Node :=
  let batch := dedupeBatch batch
  -- first pass: `ensure` + drop what is already known
  let unknown := batch.filter (fun it =>
    let (vlo, vhi) := it.versions
    !((n.booked it.site).containsAll vlo vhi it.seqs))
  let (n1, applies, clears) := (sitesOf unknown).foldl (fun (acc : Node × List (Nat × Nat) × List (Nat × Nat × Nat)) s =>
    let (n', a, c) := processActor acc.1 s (unknown.filter (·.site = s))
    (n', acc.2.1 ++ a, acc.2.2 ++ c)) (n, [], [])
  let n2 := clears.foldl (fun n c => n.clearMeta c.1 c.2.1 c.2.2) n1
  if n2.alive then applies.foldl (fun n a => n.applyBuffered a.1 a.2) n2 else n2

/-! ### local transactions -/

def Node.localWrite (n : Node) (stmts : List Stmt) : Except WErr (Node × Option (Nat × List Chg)) :=
  match localTx n.db stmts with
  | .error e => .error e
  | .ok (_, none) => .ok (n, none)
  | .ok (db', some (ver, chs)) =>
    let n1 := { n with db := db' }
    let n2 := (n1.bumpDbv n.id ver).setBooked n.id ((n1.booked n.id).insertDb [(ver, ver)])
    .ok (n2, some (ver, chs))

/-! ### `generate_sync` -/

def Node.syncState (n : Node) : Needs.SyncState :=
  let known := n.book.filter (fun e => e.2.max ≠ 0)
  { actor := n.id
    heads := known.map (fun e => (e.1, e.2.max))
    need := known.filterMap (fun e => if e.2.needed.isEmpty then none else some (e.1, e.2.needed))
    partialNeed := known.filterMap (fun e =>
      let ps := e.2.partials.filterMap (fun vp =>
        if vp.2.complete then none else some (vp.1, RSet.gaps vp.2.seqs (0, vp.2.last)))
      if ps.isEmpty then none else some (e.1, ps)) }

/-! ### `handle_need` (the sync server's lookup) -/

/-- live entries of `crsql_changes` attributed to `(site, ver)`, by seq -/
def Node.live (n : Node) (site ver : Nat) : List Chg := sortBySeq (n.db.changesOf site ver 0 1000000000)

def maxSeq (cs : List Chg) : Nat := cs.foldl (fun m c => Nat.max m c.seq) 0

def Node.inGaps (n : Node) (site ver : Nat) : Bool := RSet.contains (n.booked site).needed ver

/-- descending list of versions in `lo..=hi` -/
def versionsDesc (lo hi : Nat) : List Nat := (List.range (hi + 1 - lo)).reverse.map (lo + ·)
def versionsAsc (lo hi : Nat) : List Nat := (List.range (hi + 1 - lo)).map (lo + ·)

def seqRowsOf (n : Node) (site ver : Nat) : List SeqRow :=
  let rs := n.seqRows.filter (fun r => r.site = site ∧ r.ver = ver)
  rs.foldl (fun acc r => insertSortedBy (·.lo) r acc) []

/-- every version is small in the correspondence, so each `ChunkedChanges` yields one chunk -/
def handleNeed (n : Node) (site : Nat) : Needs.Need → List Item
  | .full lo hi =>
    let liveMsgs := (versionsDesc lo hi).filterMap fun v =>
      let cs := n.live site v
      if cs.isEmpty then none else some (Item.full site v 0 (maxSeq cs) (maxSeq cs) cs)
    let rest := (versionsAsc lo hi).filter (fun v => (n.live site v).isEmpty)
    let bufMsgs := rest.flatMap fun v =>
      let buffered := n.buf.any (fun c => c.site = site ∧ c.dbv = v)
      if !buffered then [] else
      (seqRowsOf n site v).map fun r =>
        Item.full site v r.lo r.hi r.last (sortBySeq (n.buf.filter (fun c => c.site = site ∧ c.dbv = v ∧ r.lo ≤ c.seq ∧ c.seq ≤ r.hi)))
    let empties := rest.filter fun v =>
      !(n.buf.any (fun c => c.site = site ∧ c.dbv = v)) && !(n.inGaps site v)
    let emptyRanges := empties.foldl (fun s v => RSet.insert s (v, v)) ([] : RSet)
    liveMsgs ++ bufMsgs ++ emptyRanges.map (fun r => Item.empty site r.1 r.2)
  | .part v seqs =>
    let cs := n.live site v
    if !cs.isEmpty then
      let last := maxSeq cs
      seqs.filterMap fun r =>
        let sub := cs.filter (fun c => r.1 ≤ c.seq ∧ c.seq ≤ r.2)
        if sub.isEmpty && r.1 == 0 && r.2 == last then none
        else some (Item.full site v r.1 r.2 last sub)
    else
      let buffered := n.buf.any (fun c => c.site = site ∧ c.dbv = v)
      let bufMsgs := if !buffered then [] else
        seqs.flatMap fun r =>
          ((seqRowsOf n site v).filter (fun row =>
              (decide (r.1 ≤ row.lo) && decide (row.lo ≤ r.2)) || (decide (row.lo ≤ r.1) && decide (r.2 ≤ row.hi)) ||
              (decide (row.lo ≤ r.2) && decide (r.2 ≤ row.hi)) || (decide (r.1 ≤ row.hi) && decide (row.hi ≤ r.2)))).map fun row =>
            let s := Nat.max row.lo r.1
            let e := Nat.min row.hi r.2
            Item.full site v s e row.last (sortBySeq (n.buf.filter (fun c => c.site = site ∧ c.dbv = v ∧ s ≤ c.seq ∧ c.seq ≤ e)))
      bufMsgs ++ (if !buffered && !(n.inGaps site v) then [Item.empty site v v] else [])

/-- `process_sync`'s filter in front of `handle_need`: an actor the server has no bookkeeping for is
skipped; a need is skipped when the server itself still needs all of it or it lies beyond its head. -/
def Node.serves (n : Node) (site : Nat) (need : Needs.Need) : Bool :=
  match n.book.find? (·.1 = site) with
  | none => false
  | some (_, b) =>
    let lacking (v : Nat) : Bool := RSet.contains b.needed v || (b.max != 0 && decide (v > b.max))
    match need with
    | .full lo hi => !((versionsAsc lo hi).all lacking)
    | .part v _ => !(lacking v)

/-- one request through the sync server -/
def Node.serve (n : Node) (site : Nat) (need : Needs.Need) : List Item :=
  if n.serves site need then handleNeed n site need else []

/-! ### restart -/

/-- `BookedVersions::from_conn`: head from `crsql_db_versions`, partials from the sequence rows (in
primary-key order, through `insert_partial`), needed from the gap rows (= the committed in-memory
`needed`, by C02's invariant). -/
def Node.fromConn (n : Node) (a : Nat) : Booked :=
  let max0 := ((n.dbv.find? (·.1 = a)).map (·.2)).getD 0
  let rows := (n.seqRows.filter (·.site = a)).foldl
    (fun acc r => insertSortedBy (fun (x : SeqRow) => x.ver * 1000000 + x.lo) r acc) []
  let b1 := rows.foldl (fun (b : Booked) r => (b.insertPartial r.ver ⟨[(r.lo, r.hi)], r.last⟩).1) { max := max0 }
  { b1 with needed := (n.booked a).needed }

/-- actors rediscovered at start: anyone with a db-version row, sequence rows or gap rows -/
def Node.knownActors (n : Node) : List Nat :=
  let all := n.dbv.map (·.1) ++ n.seqRows.map (·.site) ++ (n.book.filter (fun e => !e.2.needed.isEmpty)).map (·.1)
  all.foldl (fun acc a => if acc.contains a then acc else insertSortedBy (fun (x : Nat) => x) a acc) []

/-- a fresh agent on the same files: in-memory bookkeeping reloaded, fully buffered versions
scheduled for apply -/
def Node.restart (n : Node) : Node :=
  let actors := n.knownActors
  let book := actors.map (fun a => (a, n.fromConn a))
  let n1 : Node := { n with book := book, alive := true }
  book.foldl (fun n e => e.2.partials.foldl (fun n vp => if vp.2.complete then n.applyBuffered e.1 vp.1 else n) n) n1

def Node.kill (n : Node) : Node := { n with alive := false }

end Corro.Node
