/-
Model of the cluster-id gates (C16).  Import-free: this file is linked into the driver.  Decision logic
only, each function following the Rust expression as it is written:

* `acceptBroadcast`   crates/klukai-agent/src/agent/uni.rs  `spawn_unipayload_handler`
                      `if cluster_id != payload_cluster_id { continue; }  changes.push(..)`
                      (`cluster_id` = the agent's id captured when the connection was accepted,
                      handlers.rs `spawn_incoming_connection_handlers`)
* `decodeCluster`     crates/klukai-types/src/broadcast.rs  `#[speedy(default_on_eof)] cluster_id: ClusterId`
                      on `UniPayload::V1` / `BiPayload::V1`: a frame that ends before the field decodes as
                      `ClusterId::default()` = 0
* `serveSync`         crates/klukai-agent/src/api/peer/mod.rs `serve_sync`: the first statement after the
                      set-up is `if cluster_id != agent.cluster_id() { write Rejection(DifferentCluster);
                      return Ok(0) }`; then the clock is read, a permit taken (else
                      `Rejection(MaxConcurrencyReached)`), then `State`, `Clock`, then changesets on request
* `clientSync`        `parallel_sync`: `Some(State(..))` continues, `Some(Rejection(r)) => return Err(r)`;
                      nothing is requested and nothing reaches `tx_changes` after a rejection
* `syncCandidates`    crates/klukai-agent/src/agent/handlers.rs `handle_sync`
                      `.filter(|(id, state)| **id != agent.actor_id() && state.cluster_id == agent.cluster_id())`
* `ring0Targets`      crates/klukai-types/src/members.rs `Members::ring0(cluster_id)`
                      `v.ring.and_then(|ring| (v.cluster_id == cluster_id && ring == 0).then_some(v.addr))`
                      (no self-exclusion there), called with `agent.cluster_id()` in broadcast/mod.rs
* `broadcastTargets`  crates/klukai-agent/src/broadcast/mod.rs `handle_broadcasts`
                      `if *member_id == actor_id || state.cluster_id != agent.cluster_id()
                          || (pending.is_local && ring0.contains(&state.addr))
                          || pending.sent_to.contains(&state.addr) { None } else { Some(state.addr) }`

Cluster ids are `u16` in the code and `Nat` here (no arithmetic is done on them, only `==`/`!=`).
-/
namespace Corro.ClusterGate

/-- The `cluster_id` field of a decoded payload: `none` = the frame ended before the field
(`default_on_eof`), which reads as `ClusterId(0)`. -/
def decodeCluster : Option Nat → Nat
  | none => 0
  | some c => c

/-- uni.rs: `true` = the change is pushed towards `tx_changes`, `false` = `continue` (dropped).
`captured` is the id the handler was spawned with. -/
def acceptBroadcast (captured : Nat) (payloadCluster : Option Nat) : Bool :=
  if captured != decodeCluster payloadCluster then false else true

inductive Rejection where
  | differentCluster
  | maxConcurrencyReached
deriving Repr, DecidableEq, Inhabited

/-- Messages a sync server writes on the bi stream. -/
inductive Msg where
  | rejection (r : Rejection)
  | state
  | clock
  | changeset
deriving Repr, DecidableEq, Inhabited

/-- `serve_sync`: everything the server writes, in order.  `theirs` is the `cluster_id` field of the
`BiPayload::V1` that opened the stream (`none` = absent), `permit` whether a sync permit is free,
`requested` how many changesets the client's requests would make the server send. -/
def serveSync (mine : Nat) (theirs : Option Nat) (permit : Bool) (requested : Nat) : List Msg :=
  if decodeCluster theirs != mine then [Msg.rejection Rejection.differentCluster]
  else if !permit then [Msg.rejection Rejection.maxConcurrencyReached]
  else Msg.state :: Msg.clock :: List.replicate requested Msg.changeset

/-- Is the first message a rejection (what the client of `parallel_sync` branches on)? -/
def firstIsRejection : List Msg → Option Rejection
  | Msg.rejection r :: _ => some r
  | _ => none

/-- Number of changesets in a response. -/
def changesetCount (ms : List Msg) : Nat := (ms.filter (· == Msg.changeset)).length

/-- `parallel_sync` against `serve_sync`: the client with id `client` opens a session to a server with id
`server`; returns the number of changesets that reach the client's `tx_changes`.  After a rejection the
client returns an error before sending any request. -/
def clientSync (client server : Nat) (permit : Bool) (requested : Nat) : Nat :=
  let resp := serveSync server (some client) permit requested
  match firstIsRejection resp with
  | some _ => 0
  | none => changesetCount resp

/-- One row of `Members.states`. -/
structure Member where
  actor : Nat
  addr : Nat
  cluster : Nat
  ring : Option Nat
deriving Repr, DecidableEq, Inhabited

/-- `handle_sync`: the candidate list (before the random choice of at most 2×desired and the sort). -/
def syncCandidates (self mine : Nat) (ms : List Member) : List Member :=
  ms.filter (fun m => m.actor != self && m.cluster == mine)

/-- `Members::ring0(cluster_id)`. -/
def ring0Targets (mine : Nat) (ms : List Member) : List Nat :=
  ms.filterMap (fun m => m.ring.bind (fun ring => if m.cluster == mine && ring == 0 then some m.addr else none))

/-- `handle_broadcasts`: the addresses a pending broadcast may be sent to (before `choose_multiple`). -/
def broadcastTargets (self mine : Nat) (isLocal : Bool) (ring0 sentTo : List Nat) (ms : List Member) : List Nat :=
  ms.filterMap (fun m =>
    if m.actor == self || m.cluster != mine || (isLocal && ring0.contains m.addr) || sentTo.contains m.addr
    then none else some m.addr)

/-- An accepted connection keeps the id it was spawned with; `cluster set-id` (admin.rs) changes only
`agent.cluster_id()`.  `Conn.captured` is that frozen id. -/
structure Conn where
  captured : Nat
deriving Repr, DecidableEq

def acceptOnConn (c : Conn) (payloadCluster : Option Nat) : Bool := acceptBroadcast c.captured payloadCluster

/-- The node's own cluster id is STATE (`Agent.cluster_id`, an `ArcSwap`): `cluster set-id` (admin.rs →
`Agent::set_cluster_id`) replaces it while the long-running tasks keep running.  `handle_broadcasts`,
`handle_sync`, `serve_sync` and `parallel_sync` call `agent.cluster_id()` at every use, i.e. they decide
with the CURRENT value of this component. -/
structure Node where
  self : Nat
  cluster : Nat
deriving Repr, DecidableEq

/-- `Agent::set_cluster_id` -/
def Node.setCluster (n : Node) (c : Nat) : Node := { n with cluster := c }

/-- the `cluster_id` stamped into every `UniPayload::V1` / `BiPayload::V1` the node writes -/
def Node.stamp (n : Node) : Nat := n.cluster

def Node.candidates (n : Node) (ms : List Member) : List Member := syncCandidates n.self n.cluster ms

def Node.ring0 (n : Node) (ms : List Member) : List Nat := ring0Targets n.cluster ms

def Node.targets (n : Node) (isLocal : Bool) (ring0 sentTo : List Nat) (ms : List Member) : List Nat :=
  broadcastTargets n.self n.cluster isLocal ring0 sentTo ms

/-- an inbound connection accepted by the node now -/
def Node.accept (n : Node) : Conn := ⟨n.cluster⟩

end Corro.ClusterGate
