/-
Model of the file-lock protocol that `sqlite3_restore::restore` (crates/klukai-types/src/
sqlite3_restore.rs) relies on: POSIX `fcntl` byte-range locks on the database file and on the
`-shm` file, the lock sequences SQLite's readers and writers follow in rollback-journal and in WAL
mode, and the sequence `lock_all` + `restore` follow.  Import-free.

POSIX record locks as used here:
* a lock is owned by a PROCESS (not a file descriptor); a process never conflicts with itself,
  re-locking a range it already holds converts the lock (shared ↔ exclusive);
* two different processes may both hold a SHARED (`F_RDLCK`) lock on a byte, an EXCLUSIVE
  (`F_WRLCK`) lock is incompatible with any lock of another process on that byte;
* `F_SETLK` never blocks: it succeeds or fails at once (the callers retry, or give up);
* closing the file (or process exit) drops every lock the process holds on it.

SQLite and `lock_all` only ever lock a fixed set of byte ranges, always as a whole, so the table is
kept per named range (`Slot`) instead of per byte:
db file  — PENDING 0x40000000, RESERVED 0x40000001, SHARED 0x40000002..+510;
shm file — WRITE 120, CKPT 121, RECOVER 122, READ0..READ4 123..127, DMS 128.
-/
namespace Corro.Locks

inductive Slot where
  | pending | reserved | shared
  | wWrite | wCkpt | wRecover | wRead0 | wRead1 | wRead2 | wRead3 | wRead4 | wDms
deriving Repr, DecidableEq, Inhabited

inductive Kind where
  /-- `F_RDLCK` -/
  | sh
  /-- `F_WRLCK` -/
  | ex
deriving Repr, DecidableEq, Inhabited

/-- what one process holds: at most one entry per slot -/
abbrev Held := List (Slot × Kind)

inductive Io where
  /-- `is_wal_mode`: read the 100-byte header -/
  | readHdr
  /-- a SQLite connection reads database pages (from the db file and/or the WAL) -/
  | readPages
  /-- a SQLite writer / checkpointer writes pages of the db file -/
  | writePages
  /-- a SQLite WAL writer appends frames -/
  | appendWal
  /-- the restore: `remove_file("<db>-journal")` -/
  | rmJournal
  /-- the restore: truncate `<db>-wal` -/
  | truncWal
  /-- the restore: `copy_check` (copy, `set_len`, `sync_all`) -/
  | copy
  /-- the restore: zero the first 136 bytes of `<db>-shm` -/
  | zeroShm
deriving Repr, DecidableEq, Inhabited

/-- the restore's operations that change what a reader of the destination would see -/
def Io.isMut : Io → Bool
  | .rmJournal | .truncWal | .copy | .zeroShm => true
  | _ => false

inductive Step where
  /-- `fcntl(F_SETLK)` for the slot; retried while it fails, unless the caller gives up -/
  | acquire (s : Slot) (k : Kind)
  /-- `fcntl(F_SETLK, F_UNLCK)` -/
  | release (s : Slot)
  | io (op : Io)
  /-- the files are closed: every lock of the process is gone -/
  | closeAll
deriving Repr, DecidableEq, Inhabited

def Step.isMut : Step → Bool
  | .io op => op.isMut
  | _ => false

def Step.isAcquire : Step → Bool
  | .acquire _ _ => true
  | _ => false

/-- effect of a successful `F_SETLK` on the caller's own locks -/
def lockSlot (h : Held) (s : Slot) (k : Kind) : Held := (s, k) :: h.filter (fun e => e.1 != s)
def unlockSlot (h : Held) (s : Slot) : Held := h.filter (fun e => e.1 != s)

/-- the caller's locks after one step that went through -/
def stepHeld (h : Held) : Step → Held
  | .acquire s k => lockSlot h s k
  | .release s => unlockSlot h s
  | .io _ => h
  | .closeAll => []

/-- the caller's locks after a run of steps that all went through -/
def heldAfter (h : Held) : List Step → Held
  | [] => h
  | st :: r => heldAfter (stepHeld h st) r

def iosOf : List Step → List Io
  | [] => []
  | .io op :: r => op :: iosOf r
  | _ :: r => iosOf r

structure Proc where
  held : Held := []
  /-- steps still to run -/
  prog : List Step := []
  /-- io operations performed so far, oldest first -/
  done : List Io := []
deriving Repr, DecidableEq, Inhabited

/-- would `F_SETLK(s, k)` be refused because of what the OTHER processes hold? -/
def conflicts (others : List Proc) (s : Slot) (k : Kind) : Bool :=
  others.any fun q => q.held.any fun e => e.1 == s && (k == .ex || e.2 == .ex)

inductive Choice where
  | go
  /-- at an `acquire`: stop retrying (time-out / SQLITE_BUSY): the operation is abandoned and the
  files are closed, which releases everything -/
  | giveUp
deriving Repr, DecidableEq, Inhabited

/-- one step of one process; `none` = it cannot move (finished, or its lock request is refused) -/
def Proc.step (others : List Proc) (p : Proc) (c : Choice) : Option Proc :=
  match p.prog with
  | [] => none
  | .acquire s k :: rest =>
    match c with
    | .giveUp => some { p with held := [], prog := [] }
    | .go => if conflicts others s k then none else some { p with held := lockSlot p.held s k, prog := rest }
  | .release s :: rest => some { p with held := unlockSlot p.held s, prog := rest }
  | .io op :: rest => some { p with prog := rest, done := p.done ++ [op] }
  | .closeAll :: rest => some { p with held := [], prog := rest }

/-- everybody but process `i` -/
def others (sys : List Proc) (i : Nat) : List Proc := sys.take i ++ sys.drop (i + 1)

/-- a system is a list of processes (process id = position); a schedule picks who moves next -/
def stepAt (sys : List Proc) (i : Nat) (c : Choice) : Option (List Proc) :=
  match sys[i]? with
  | none => none
  | some p => (p.step (others sys i) c).map fun p' => sys.set i p'

/-- run a schedule; moves that are not possible are skipped (the process retries later) -/
def runSched (sys : List Proc) : List (Nat × Choice) → List Proc
  | [] => sys
  | (i, c) :: r => runSched ((stepAt sys i c).getD sys) r

/-- every state some schedule can reach -/
inductive Reach (init : List Proc) : List Proc → Prop
  | refl : Reach init init
  | step {sys sys' : List Proc} (i : Nat) (c : Choice) :
      Reach init sys → stepAt sys i c = some sys' → Reach init sys'

/-! ### the restore's program (`lock_all`, then `restore`) -/

/-- `lock_all` up to the point where the journal mode is known -/
def lockProbe : List Step :=
  [.acquire .pending .sh, .acquire .shared .sh, .release .pending, .io .readHdr]

/-- destination is a non-empty file; `wal` = what the header says -/
def restoreProg (wal : Bool) : List Step :=
  lockProbe ++
  (if wal then
    [.acquire .wDms .sh, .acquire .wWrite .ex, .acquire .wCkpt .ex, .acquire .wRecover .ex,
     .acquire .wRead0 .ex, .acquire .wRead1 .ex, .acquire .wRead2 .ex, .acquire .wRead3 .ex,
     .acquire .wRead4 .ex,
     .io .rmJournal, .io .truncWal, .io .copy, .io .zeroShm, .closeAll]
  else
    [.acquire .reserved .ex, .acquire .pending .ex, .acquire .shared .ex,
     .io .rmJournal, .io .copy, .closeAll])

/-- destination absent or zero-length: "destination is empty, just copying" — no lock is taken -/
def restoreProgEmpty : List Step := [.io .copy, .closeAll]

/-! ### SQLite's own lock sequences (os_unix.c `unixLock`, wal.c) -/

/-- the slots whose possession lets a connection read pages, per journal mode -/
def readSlots (wal : Bool) : List Slot :=
  if wal then [.wRead0, .wRead1, .wRead2, .wRead3, .wRead4] else [.shared]

def holdsRead (wal : Bool) (h : Held) : Bool := h.any fun e => (readSlots wal).contains e.1

/-- rollback-journal mode, one read transaction of `n` page reads -/
def rollbackReader (n : Nat) : List Step :=
  [.acquire .pending .sh, .acquire .shared .sh, .release .pending] ++
  List.replicate n (.io .readPages) ++ [.release .shared]

/-- rollback-journal mode, one write transaction -/
def rollbackWriter : List Step :=
  [.acquire .pending .sh, .acquire .shared .sh, .release .pending, .io .readPages,
   .acquire .reserved .ex, .acquire .pending .ex, .acquire .shared .ex, .io .writePages,
   .acquire .shared .sh, .release .pending, .release .reserved, .release .shared]

/-- WAL mode: what a connection holds for as long as the database is open -/
def walConnect : List Step :=
  [.acquire .pending .sh, .acquire .shared .sh, .release .pending, .acquire .wDms .sh]

/-- WAL mode, one read transaction on read-mark slot `r` -/
def walReader (r : Slot) (n : Nat) : List Step :=
  walConnect ++ [.acquire r .sh] ++ List.replicate n (.io .readPages) ++ [.release r]

/-- WAL mode, one write transaction -/
def walWriter (r : Slot) : List Step :=
  walConnect ++ [.acquire r .sh, .io .readPages, .acquire .wWrite .ex, .io .appendWal,
                 .release .wWrite, .release r]

/-- WAL mode, a checkpoint (writes pages of the db file) -/
def walCheckpoint : List Step :=
  walConnect ++ [.acquire .wCkpt .ex, .acquire .wRead0 .ex, .io .writePages, .release .wRead0,
                 .release .wCkpt]

/-- the discipline SQLite's pager follows and that the theorems assume of every other process:
pages are read only while a read lock of the journal mode is held.  Checked at every program
point (`n` steps done). -/
def readsUnderLock (wal : Bool) (prog : List Step) : Bool :=
  (List.range (prog.length + 1)).all fun n =>
    match (prog.drop n).head? with
    | some (.io .readPages) => holdsRead wal (heldAfter [] (prog.take n))
    | _ => true

/-! ### what a WAL-mode reader notices afterwards (cache validation, wal.c `walTryBeginRead` /
pager.c `pagerBeginReadTransaction`) — a sketch of SQLite internals, used to state the known
finding `restore-live-wal-stale-readers`; nothing above depends on it -/

/-- the part of the wal-index header a reader compares: is it initialised, how many frames are in
the WAL, the WAL's salt -/
structure WalHdr where
  valid : Bool
  mxFrame : Nat
  salt : Nat
deriving Repr, DecidableEq, Inhabited

structure WalDb where
  /-- which database the file holds (0 = before the restore, 1 = the snapshot) -/
  gen : Nat
  /-- frames in the -wal file, and its salt -/
  walFrames : Nat
  walSalt : Nat
  /-- the wal-index header in the -shm file -/
  shm : WalHdr
deriving Repr, DecidableEq, Inhabited

structure WalReader where
  /-- its private copy of the wal-index header -/
  hdr : WalHdr
  /-- the database its cached pages (page 1 and the schema among them) belong to -/
  cacheGen : Option Nat
deriving Repr, DecidableEq, Inhabited

/-- WAL recovery rebuilds the wal-index header from the -wal file alone; an empty WAL always gives
the same header -/
def walRecover (f : WalDb) : WalDb :=
  { f with shm := ⟨true, f.walFrames, if f.walFrames = 0 then 0 else f.walSalt⟩ }

/-- start of a read transaction: an uninitialised header is recovered (and the recovering
connection drops its cache); otherwise the cache is dropped exactly when the header differs from
the connection's copy -/
def walBeginRead (f : WalDb) (r : WalReader) : WalDb × WalReader :=
  if !f.shm.valid then
    let f' := walRecover f
    (f', { hdr := f'.shm, cacheGen := none })
  else if f.shm = r.hdr then (f, r)
  else (f, { hdr := f.shm, cacheGen := none })

/-- the databases a query sees that touches both a cached and an uncached page -/
def walQueryGens (f : WalDb) (r : WalReader) : List Nat :=
  match r.cacheGen with
  | some g => if g = f.gen then [g] else [g, f.gen]
  | none => [f.gen]

def walAfterQuery (f : WalDb) (r : WalReader) : WalReader :=
  { r with cacheGen := some (r.cacheGen.getD f.gen) }

/-- `sqlite3_restore::restore` on a WAL destination: truncate the WAL, copy the snapshot over the
file, zero the wal-index header -/
def walRestore (f : WalDb) (snapshotGen : Nat) : WalDb :=
  { gen := snapshotGen, walFrames := 0, walSalt := f.walSalt, shm := ⟨false, 0, 0⟩ }

/-! ### printing the restore's program for the correspondence with a syscall trace -/

def Slot.name : Slot → String
  | .pending => "db.PENDING" | .reserved => "db.RESERVED" | .shared => "db.SHARED"
  | .wWrite => "shm.WRITE" | .wCkpt => "shm.CKPT" | .wRecover => "shm.RECOVER"
  | .wRead0 => "shm.READ0" | .wRead1 => "shm.READ1" | .wRead2 => "shm.READ2"
  | .wRead3 => "shm.READ3" | .wRead4 => "shm.READ4" | .wDms => "shm.DMS"

def Kind.name : Kind → String
  | .sh => "r" | .ex => "w"

def Io.name : Io → String
  | .readHdr => "readhdr" | .readPages => "readpages" | .writePages => "writepages"
  | .appendWal => "appendwal" | .rmJournal => "rmjournal" | .truncWal => "truncwal"
  | .copy => "copy" | .zeroShm => "zeroshm"

def Step.name : Step → String
  | .acquire s k => s!"lock:{s.name}:{k.name}"
  | .release s => s!"unlock:{s.name}"
  | .io op => op.name
  | .closeAll => "close"

def Held.show (h : Held) : List String := h.map fun e => s!"{e.1.name}:{e.2.name}"

end Corro.Locks
