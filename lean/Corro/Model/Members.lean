/-
Model of `Members` (crates/klukai-types/src/members.rs) as it is at /repo HEAD, i.e. including the
three `fix:` commits (down about a newer identity removes the member and its own index entry; an
address change moves the index entry, resets and recomputes the ring; an average outside every
bucket clears the ring), and of the way `handle_notifications`
(crates/klukai-agent/src/agent/handlers.rs) applies SWIM notifications to it: `MemberUp(actor)` →
`add_member(&actor)`, `MemberDown(actor)` → `remove_member(&actor)`, `Rename` and the rest → nothing.

Import-free: this file is linked into the driver.

Field for field: `states : BTreeMap<ActorId, MemberState>`, `by_addr : BTreeMap<SocketAddr, ActorId>`,
`rtts : BTreeMap<SocketAddr, Rtt>` are association lists kept sorted by key (so iteration order is
the BTreeMap's).  Actor ids, socket addresses, cluster ids are small `Nat`s; an identity timestamp
is the `Nat` its `to_duration()` compares as.  `MemberState.last_sync_ts` is not read or written by
any of the modelled functions and is left out.  The `Rtt` buffer is `CircularBuffer<20, u64>` filled
with `push_front`: newest sample first, the oldest one falls off the back.
-/
namespace Corro.Members

/-! ### sorted association lists (the three `BTreeMap`s) -/

abbrev Map (α : Type) := List (Nat × α)

/-- `BTreeMap::get` -/
def get {α : Type} : Map α → Nat → Option α
  | [], _ => none
  | (k', v) :: t, k => if k' = k then some v else get t k

/-- `BTreeMap::insert` (replaces the value of an existing key; keeps the keys sorted) -/
def put {α : Type} (k : Nat) (v : α) : Map α → Map α
  | [] => [(k, v)]
  | (k', v') :: t =>
    if k < k' then (k, v) :: (k', v') :: t
    else if k = k' then (k, v) :: t
    else (k', v') :: put k v t

/-- `BTreeMap::remove` -/
def del {α : Type} (k : Nat) : Map α → Map α
  | [] => []
  | (k', v') :: t => if k' = k then del k t else (k', v') :: del k t

/-! ### the structures -/

structure MemberState where
  addr : Nat
  ts : Nat
  cluster : Nat
  ring : Option Nat
deriving Repr, DecidableEq, Inhabited

structure Members where
  states : Map MemberState
  byAddr : Map Nat
  rtts : Map (List Nat)
deriving Repr, DecidableEq, Inhabited

/-- `Members::default()` -/
def init : Members := ⟨[], [], []⟩

inductive AddResult where
  | newMember
  | updated
  | ignored
deriving Repr, DecidableEq, Inhabited

/-- The tunable constants of `members.rs`.  Nothing in this file or in the theorems depends on their
values: the driver instantiates them from `Corro/Gen/MembersConsts.lean` (regenerated from the source
by `tools/extract_c18.py`), the examples of `Props/C18.lean` from a fixed table of their own. -/
structure Cfg where
  /-- `RING_BUCKETS`, half-open `lo..hi` in milliseconds, in table order -/
  buckets : List (Nat × Nat)
  /-- capacity `K` of the `CircularBuffer<K, u64>` sample window -/
  cap : Nat
  /-- a buffer that keeps no sample at all is not a configuration of the code -/
  cap_pos : 0 < cap

section
variable (cfg : Cfg)

/-- index of the first bucket containing `avg` (`for (ring, n) in RING_BUCKETS.iter().enumerate()`
with `break`), `none` when no bucket contains it. -/
def findBucket : List (Nat × Nat) → Nat → Nat → Option Nat
  | [], _, _ => none
  | (lo, hi) :: t, avg, i => if lo ≤ avg ∧ avg < hi then some i else findBucket t avg (i + 1)

/-- the average the code computes: `None` for an empty buffer, else `sum / len` (integer division) -/
def avgOf (buf : List Nat) : Option Nat :=
  if buf.isEmpty then none else some (buf.sum / buf.length)

/-- `avg` lies in the first bucket of the table (ring 0) -/
def inFirstBucket (bs : List (Nat × Nat)) (avg : Nat) : Prop :=
  match bs with
  | [] => False
  | (lo, hi) :: _ => lo ≤ avg ∧ avg < hi

/-- the ring that a buffer stands for: bucket index of its average; `none` without samples or
without a matching bucket. -/
def ringOf (buf : List Nat) : Option Nat :=
  match avgOf buf with
  | none => none
  | some avg => findBucket cfg.buckets avg 0

/-- `recalculate_rings(addr)`: only if the address is indexed, has a non-empty sample buffer and the
indexed actor is in `states`; then the ring is `None` or the first matching bucket. -/
def recalc (m : Members) (addr : Nat) : Members :=
  match get m.byAddr addr with
  | none => m
  | some id =>
    match (get m.rtts addr).bind avgOf with
    | none => m
    | some avg =>
      match get m.states id with
      | none => m
      | some st => { m with states := put id { st with ring := findBucket cfg.buckets avg 0 } m.states }

/-- the index entry of `addr` is removed only if it belongs to `id` -/
def dropIndex (ba : Map Nat) (addr id : Nat) : Map Nat :=
  if get ba addr = some id then del addr ba else ba

/-- `add_member(&Actor { id, addr, ts, cluster_id })` -/
def addMember (m : Members) (id addr ts cluster : Nat) : Members × AddResult :=
  match get m.states id with
  | none =>
    -- entry inserted with ring None; timestamps equal, neither comparison fires; NewMember tail
    let m1 : Members := { m with states := put id ⟨addr, ts, cluster, none⟩ m.states }
    let m2 : Members := { m1 with byAddr := put addr id m1.byAddr }
    (recalc cfg m2 addr, .newMember)
  | some st =>
    if ts < st.ts then (m, .ignored)
    else if st.ts < ts then
      if st.addr ≠ addr then
        let m1 : Members := { m with states := put id ⟨addr, ts, cluster, none⟩ m.states }
        let m2 : Members := { m1 with byAddr := put addr id (dropIndex m1.byAddr st.addr id) }
        (recalc cfg m2 addr, .updated)
      else
        ({ m with states := put id { st with addr := addr, ts := ts, cluster := cluster } m.states }, .updated)
    else (m, .ignored)

/-- `remove_member(&Actor { id, ts, .. })`: the notification's address and cluster are not looked at -/
def removeMember (m : Members) (id ts : Nat) : Members × Bool :=
  match get m.states id with
  | none => (m, false)
  | some st =>
    if st.ts ≤ ts then
      ({ m with byAddr := dropIndex m.byAddr st.addr id, states := del id m.states }, true)
    else (m, false)

/-- `push_front` on the `cap`-slot circular buffer -/
def pushSample (ms : Nat) (buf : List Nat) : List Nat := (ms :: buf).take cfg.cap

/-- `add_rtt(addr, Duration::from_millis(ms))` -/
def addRtt (m : Members) (addr ms : Nat) : Members :=
  let buf := (get m.rtts addr).getD []
  recalc cfg { m with rtts := put addr (pushSample cfg ms buf) m.rtts } addr

/-- `ring0(cluster_id)`, in `states` iteration order -/
def ring0 (m : Members) (cluster : Nat) : List Nat :=
  m.states.filterMap fun kv =>
    match kv.2.ring with
    | none => none
    | some r => if kv.2.cluster = cluster ∧ r = 0 then some kv.2.addr else none

/-! ### notification / observation sequences -/

inductive Op where
  /-- `Notification::MemberUp(Actor { id, addr, ts, cluster })` -/
  | up (id addr ts cluster : Nat)
  /-- `Notification::MemberDown(Actor { id, addr, ts, cluster })` -/
  | down (id addr ts cluster : Nat)
  /-- a round-trip sample of `ms` milliseconds for an address -/
  | rtt (addr ms : Nat)
  /-- the query `ring0(cluster)`; does not change the state -/
  | ring0 (cluster : Nat)
deriving Repr, DecidableEq, Inhabited

def step (m : Members) : Op → Members
  | .up id addr ts cluster => (addMember cfg m id addr ts cluster).1
  | .down id _ ts _ => (removeMember m id ts).1
  | .rtt addr ms => addRtt cfg m addr ms
  | .ring0 _ => m

def runFrom (m : Members) (ops : List Op) : Members := ops.foldl (step cfg) m

def run (ops : List Op) : Members := runFrom cfg init ops

/-! ### the glue: `handle_notifications` and `impl Identity for Actor`

The dispatch table of `handle_notifications` and the comparison of `win_addr_conflict` are not written
here: `tools/extract_c18.py` reads them off handlers.rs / actor.rs into `Corro/Gen/MembersGlue.lean` at
the start of every check (and raises when an arm touches the member table in any other way than one
leading `add_member(&payload)` / `remove_member(&payload)`).  Below is what a table means. -/

/-- the variants of `foca::OwnedNotification<Actor>` (`other`: a variant this model has no name for) -/
inductive NotifKind where
  | memberUp | memberDown | rename | active | idle | defunct | rejoin | other
deriving Repr, DecidableEq, Inhabited

/-- what an arm of `match notification` does to `agent.members().write()` with its payload -/
inductive MemberCall where
  | addMember | removeMember | nothing
deriving Repr, DecidableEq, Inhabited

/-- the arm taken for a notification: the first one whose pattern names the variant (the `match` has
no guards and no wildcard — checked by the extractor; it is exhaustive or the code does not compile) -/
def callOf (tbl : List (NotifKind × MemberCall)) (k : NotifKind) : MemberCall :=
  match tbl.find? (fun r => r.1 == k) with
  | some r => r.2
  | none => .nothing

/-- one iteration of the loop of `handle_notifications` on the member table, for a notification of
kind `k` whose payload is the actor `(id, addr, ts, cluster)` -/
def applyNotif (tbl : List (NotifKind × MemberCall)) (m : Members) (k : NotifKind)
    (id addr ts cluster : Nat) : Members :=
  match callOf tbl k with
  | .addMember => (addMember cfg m id addr ts cluster).1
  | .removeMember => (removeMember m id ts).1
  | .nothing => m

/-- the comparison operator of `self.ts <op> adversary.ts` in `win_addr_conflict` -/
inductive Cmp where
  | lt | le | gt | ge | eq | ne
deriving Repr, DecidableEq, Inhabited

def Cmp.holds : Cmp → Nat → Nat → Bool
  | .lt, a, b => decide (a < b)
  | .le, a, b => decide (a ≤ b)
  | .gt, a, b => decide (b < a)
  | .ge, a, b => decide (b ≤ a)
  | .eq, a, b => decide (a = b)
  | .ne, a, b => decide (a ≠ b)

/-- an `Actor` identity -/
structure ActorM where
  id : Nat
  addr : Nat
  ts : Nat
  cluster : Nat
deriving Repr, DecidableEq, Inhabited

/-- `Identity::win_addr_conflict(&self, adversary)` -/
def winAddrConflict (op : Cmp) (self adversary : ActorM) : Bool := op.holds self.ts adversary.ts

/-- `Identity::renew(&self)`: `Some(Self { id: self.id, addr: self.addr, ts: <now>, cluster_id:
self.cluster_id })` (shape checked by the extractor); `now` is the wall clock read by
`duration_since_epoch()` -/
def renew (self : ActorM) (now : Nat) : Option ActorM := some { self with ts := now }

/-! ### the specification: fold by newest identity -/

/-- What has been heard about one actor: its newest identity (highest identity timestamp seen) and
whether the last notification about that identity was an up. -/
structure Ident where
  ts : Nat
  addr : Nat
  cluster : Nat
  up : Bool
deriving Repr, DecidableEq, Inhabited

/-- One notification folded into the per-actor record.  Older timestamp: ignored.  Newer timestamp:
the record is replaced.  Equal timestamp: an up keeps the identity already listed while it is up
(first seen wins) and re-lists the actor with the announced address/cluster when it was down; a down
marks it down. -/
def specStep (sp : Map Ident) : Op → Map Ident
  | .up id addr ts cluster =>
    match get sp id with
    | none => put id ⟨ts, addr, cluster, true⟩ sp
    | some e =>
      if ts < e.ts then sp
      else if e.ts < ts then put id ⟨ts, addr, cluster, true⟩ sp
      else if e.up then sp else put id ⟨ts, addr, cluster, true⟩ sp
  | .down id addr ts cluster =>
    match get sp id with
    | none => put id ⟨ts, addr, cluster, false⟩ sp
    | some e =>
      if ts < e.ts then sp
      else if e.ts < ts then put id ⟨ts, addr, cluster, false⟩ sp
      else put id { e with up := false } sp
  | _ => sp

def specRun (ops : List Op) : Map Ident := ops.foldl specStep []

/-- The plain "first seen wins on ties" fold: an equal-timestamp notification never changes the
recorded address/cluster.  Coincides with `specStep` when an identity timestamp determines the
identity (`Props/C18.lean`, `spec_eq_first_seen`). -/
def specStepFirst (sp : Map Ident) : Op → Map Ident
  | .up id addr ts cluster =>
    match get sp id with
    | none => put id ⟨ts, addr, cluster, true⟩ sp
    | some e =>
      if ts < e.ts then sp
      else if e.ts < ts then put id ⟨ts, addr, cluster, true⟩ sp
      else put id { e with up := true } sp
  | .down id addr ts cluster =>
    match get sp id with
    | none => put id ⟨ts, addr, cluster, false⟩ sp
    | some e =>
      if ts < e.ts then sp
      else if e.ts < ts then put id ⟨ts, addr, cluster, false⟩ sp
      else put id { e with up := false } sp
  | _ => sp

def specRunFirst (ops : List Op) : Map Ident := ops.foldl specStepFirst []

/-- running maximum of the identity timestamps heard of for actor `id` -/
def maxStep (id : Nat) (acc : Option Nat) (op : Op) : Option Nat :=
  match op with
  | .up i _ t _ | .down i _ t _ =>
    if i = id then (match acc with | none => some t | some m => some (max m t)) else acc
  | _ => acc

/-- the highest identity timestamp any notification of the sequence carries for actor `id` -/
def maxTs (id : Nat) (ops : List Op) : Option Nat := ops.foldl (maxStep id) none

/-- was the latest notification about identity `(id, ts)` so far an up? -/
def lastStep (id ts : Nat) (acc : Option Bool) (op : Op) : Option Bool :=
  match op with
  | .up i _ t _ => if i = id ∧ t = ts then some true else acc
  | .down i _ t _ => if i = id ∧ t = ts then some false else acc
  | _ => acc

/-- `some true`/`some false`: the last notification of the sequence about the identity of actor `id`
with timestamp `ts` was an up/a down; `none`: there was none -/
def lastAbout (id ts : Nat) (ops : List Op) : Option Bool := ops.foldl (lastStep id ts) none

/-- what the member table says about an actor: `(addr, ts, cluster)` if listed -/
def view (m : Members) (id : Nat) : Option (Nat × Nat × Nat) :=
  (get m.states id).map fun st => (st.addr, st.ts, st.cluster)

/-- what the specification says the member table must say -/
def specView (sp : Map Ident) (id : Nat) : Option (Nat × Nat × Nat) :=
  match get sp id with
  | none => none
  | some e => if e.up then some (e.addr, e.ts, e.cluster) else none

/-- all samples recorded for `addr` in a sequence, oldest first -/
def samplesFor (addr : Nat) : List Op → List Nat
  | [] => []
  | .rtt a ms :: r => if a = addr then ms :: samplesFor addr r else samplesFor addr r
  | _ :: r => samplesFor addr r

/-- the (at most `cap`) newest samples for `addr`, newest first -/
def newestSamples (addr : Nat) (ops : List Op) : List Nat := (samplesFor addr ops).reverse.take cfg.cap

/-! ### predicates used by the property statements (`Props/C18.lean`) -/

/-- Side condition of the property between an earlier notification `o1` and a later one `o2`:
when `o1` reports an identity of an actor down and `o2` reports the same actor up, the up does not
carry an older identity timestamp. -/
def upRespectsDown : Op → Op → Bool
  | .down id _ t1 _, .up id' _ t2 _ => id != id' || decide (t1 ≤ t2)
  | _, _ => true

/-- "an actor's 'up' never carries an identity older than one already reported down" -/
def Admissible (ops : List Op) : Prop := ops.Pairwise fun o1 o2 => upRespectsDown o1 o2 = true

instance (ops : List Op) : Decidable (Admissible ops) := by unfold Admissible; infer_instance

/-- the notification carried by an op: `(actor, ts, addr, cluster)` -/
def notif : Op → Option (Nat × Nat × Nat × Nat)
  | .up id a t c => some (id, t, a, c)
  | .down id a t c => some (id, t, a, c)
  | _ => none

def agreeOnIdentity (o1 o2 : Op) : Bool :=
  match notif o1, notif o2 with
  | some (i, t, a, c), some (i', t', a', c') => !(i == i' && t == t') || (a == a' && c == c')
  | _, _ => true

/-- an identity timestamp determines the identity: two notifications about the same actor with the
same timestamp carry the same address and cluster -/
def TsDeterminesIdentity (ops : List Op) : Prop := ∀ o1 ∈ ops, ∀ o2 ∈ ops, agreeOnIdentity o1 o2 = true

instance (ops : List Op) : Decidable (TsDeterminesIdentity ops) := by
  unfold TsDeterminesIdentity; infer_instance

/-- no two listed members have the same address (the SWIM layer keeps one identity per address) -/
def DistinctAddrs (m : Members) : Prop :=
  ∀ kv ∈ m.states, ∀ kv' ∈ m.states, kv.2.addr = kv'.2.addr → kv.1 = kv'.1

instance (m : Members) : Decidable (DistinctAddrs m) := by unfold DistinctAddrs; infer_instance

/-- … at every point of the sequence -/
def NoSharedAddr (ops : List Op) : Prop := ∀ k, k ≤ ops.length → DistinctAddrs (run cfg (ops.take k))

instance (ops : List Op) : Decidable (NoSharedAddr cfg ops) := by unfold NoSharedAddr; infer_instance

/-- every index entry points to a listed member whose current address it is -/
def IndexSound (m : Members) : Prop :=
  ∀ a id, get m.byAddr a = some id → ∃ st, get m.states id = some st ∧ st.addr = a

/-- every listed member is indexed under its current address -/
def IndexComplete (m : Members) : Prop :=
  ∀ id st, get m.states id = some st → get m.byAddr st.addr = some id

/-- a listed member that the index attributes its current address to has the ring of that
address's current sample buffer -/
def RingCurrent (m : Members) : Prop :=
  ∀ id st, get m.states id = some st → get m.byAddr st.addr = some id →
    st.ring = ringOf cfg ((get m.rtts st.addr).getD [])

end

end Corro.Members
