/-
Model of the agent's blocking resources and of tasks as acquisition programs.
Import-free.

Resources, by kind:
* `conn`   — the single write connection (`SplitPool::write_priority|normal|low`; the admission
             protocol behind it is `Corro.WritePool`, here it is one exclusive lock);
* `bookie` — the `Bookie` map lock (`CountedTokioRwLock<BookieInner>`), read or write mode;
* `booked` — one `Booked` lock per actor (`CountedTokioRwLock<BookedVersions>`), read or write mode;
* `chan c` — the bounded mpsc channel number `c` of the agent (`bounded(cap, "label")`), seen as a lock:
             **the consumer of the channel holds it for the whole of an iteration** (from the start of the
             loop body that contains its `recv` to the end of that body: "the channel is full until the
             consumer has finished the current item and receives again"), and **a blocking send is
             `acq (chan c); rel (chan c)`** (it waits while the consumer is busy with an item).
             Assumptions of this abstraction: `try_send` never blocks (it is not an operation of the
             model); an unbounded channel never blocks a sender; a send from a spawned task is a program
             of its own that holds nothing; a full channel whose consumer sits in `recv` is drained at
             once (the consumer task is alive); several blocked senders wait for one another only
             through the consumer (tokio's channel semaphore is FIFO).

Lock order of the code: "connection first, then bookie, then booked" = strictly increasing rank; a
channel must rank below everything its consumer acquires while it processes an item.  The ranks are a
table (`Ranking`) emitted by the extractor and checked by Lean.
A task is a program: a list of `acq`/`rel` operations (what `tools/extract_c20.py` reads off the
writer functions: acquisitions in textual order, a release where the guard's scope ends).
-/
namespace Corro.LockOrder

inductive Kind
  | conn | bookie | booked
  | chan (c : Nat)
deriving DecidableEq, Repr, Inhabited

/-- rank table; a kind that is not listed has rank 0 -/
abbrev Ranking := List (Kind × Nat)

def rankOf (rk : Ranking) (k : Kind) : Nat :=
  match rk with
  | [] => 0
  | (k', n) :: rest => if k' = k then n else rankOf rest k

/-- an upper bound of every rank of the table -/
def maxRank : Ranking → Nat
  | [] => 0
  | (_, n) :: rest => max n (maxRank rest)

/-- the order of the code comment: connection first, then bookie, then booked -/
def Ranking.lockOrder (rk : Ranking) : Prop :=
  rankOf rk .conn < rankOf rk .bookie ∧ rankOf rk .bookie < rankOf rk .booked

instance (rk : Ranking) : Decidable rk.lockOrder := by unfold Ranking.lockOrder; exact inferInstance

/-- the ranking when there are no channels -/
def Ranking.base : Ranking := [(.conn, 0), (.bookie, 1), (.booked, 2)]

inductive Mode
  | R | W
deriving DecidableEq, Repr, Inhabited

inductive Op
  /-- acquire the lock of kind `k` (for `booked`: the one of actor `a`; `a` is ignored otherwise) -/
  | acq (k : Kind) (a : Nat) (m : Mode)
  /-- drop the guard of kind `k` this task holds (a guard releases the lock it was taken on) -/
  | rel (k : Kind)
deriving DecidableEq, Repr

abbrev Prog := List Op

/-- what is compared between a program template and its instances: everything but the actor -/
def Op.shape : Op → Kind × Option Mode
  | .acq k _ m => (k, some m)
  | .rel k => (k, none)

/-- a named program, as emitted by the extractor -/
structure Named where
  name : String
  ops : Prog

/-- **The discipline.** Starting with guards of the kinds `held`, the program
* acquires a lock only if its rank is strictly above the rank of everything it holds
  (so it never waits for a lower- or equal-ranked resource while holding a higher-ranked one,
  and never holds two locks of the same kind),
* releases only what it holds, and
* holds nothing when it ends. -/
def ordered (rk : Ranking) : List Kind → Prog → Bool
  | held, [] => held.isEmpty
  | held, .acq k _ _ :: rest =>
    held.all (fun h => decide (rankOf rk h < rankOf rk k)) && ordered rk (k :: held) rest
  | held, .rel k :: rest => held.contains k && ordered rk (held.erase k) rest

structure Held where
  kind : Kind
  actor : Nat
  mode : Mode
deriving DecidableEq, Repr

/-- is the guard `h` a guard of lock `(k, a)`? -/
def Held.isLock (h : Held) (k : Kind) (a : Nat) : Bool :=
  h.kind == k && (k != .booked || h.actor == a)

def eraseKind (k : Kind) : List Held → List Held
  | [] => []
  | h :: t => if h.kind = k then t else h :: eraseKind k t

structure Task where
  rest : Prog
  held : List Held

/-- any number of tasks, indexed by naturals; a task without program is `⟨[], []⟩` -/
abbrev State := Nat → Task

def initState (progs : Nat → Prog) : State := fun i => ⟨progs i, []⟩

def update (s : State) (i : Nat) (t : Task) : State := fun j => if j = i then t else s j

/-- the modes in which tasks other than `i` hold lock `(k, a)` -/
def heldByOther (s : State) (i : Nat) (k : Kind) (a : Nat) : Mode → Prop :=
  fun m => ∃ j, j ≠ i ∧ ∃ h ∈ (s j).held, h.isLock k a = true ∧ h.mode = m

/-- When is an acquisition granted?  Any rule is admitted that grants a lock nobody else holds. -/
structure Policy where
  grant : (Mode → Prop) → Mode → Prop
  free : ∀ (others : Mode → Prop) (m : Mode), (∀ m', ¬ others m') → grant others m

/-- every acquisition is exclusive (the pessimistic reading) -/
def exclusive : Policy := ⟨fun others _ => ∀ m', ¬ others m', fun _ _ h => h⟩

/-- readers share, writers exclude -/
def readersWriter : Policy :=
  ⟨fun others m => match m with
      | .R => ¬ others .W
      | .W => ∀ m', ¬ others m',
   fun others m h => by cases m <;> simp_all⟩

/-- one step of one task; releases are never blocked -/
inductive Step (pol : Policy) : State → State → Prop
  | acq {s : State} (i : Nat) (k : Kind) (a : Nat) (m : Mode) (rest : Prog) :
      (s i).rest = .acq k a m :: rest → pol.grant (heldByOther s i k a) m →
      Step pol s (update s i ⟨rest, ⟨k, a, m⟩ :: (s i).held⟩)
  | rel {s : State} (i : Nat) (k : Kind) (rest : Prog) :
      (s i).rest = .rel k :: rest →
      Step pol s (update s i ⟨rest, eraseKind k (s i).held⟩)

/-- all interleavings -/
inductive Reachable (pol : Policy) (s0 : State) : State → Prop
  | refl : Reachable pol s0 s0
  | step {s s' : State} : Reachable pol s0 s → Step pol s s' → Reachable pol s0 s'

end Corro.LockOrder
