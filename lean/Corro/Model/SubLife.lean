/-
Life cycle of ONE persistent subscription directory across process stops and restarts.

Model of `Matcher::create` / `run` / `cmd_loop` / `run_restore` / `restore`
(crates/klukai-types/src/pubsub.rs), `SubsManager::drop_handles`, the tail of `process_sub_channel`
(crates/klukai-agent/src/api/public/pubsub.rs), `setup_spawn_subscriptions`
(crates/klukai-agent/src/agent/setup.rs), `match_changes` (crates/klukai-types/src/updates.rs) and the
stop sequence of `command/agent.rs`.  Import-free: this file is linked into the driver.

The query is abstracted to "the table itself": the node database is a map key ↦ value, the
materialised `query` table is such a map too, a candidate is a key, applying a candidate re-reads the
key from the CURRENT database (as `handle_candidates` re-runs the query restricted to the candidate
keys) and appends one change with the next id iff the materialised value differs.

Durable state (survives `stop`): `db`, `dir`, `sid`, `state`, `rows`, `log`, `applied`.
Everything else is in the memory of the process.  The model follows the code as it is:
* `cancelled` is written when the loop takes its cancellation branch and is later overwritten by
  `completed` on the same code path (the repository's own test `test_diff` restores a subscription
  right after `subs.remove` + `handle.cleanup()`, so this is intended);
* `completed` is written after the drain loop saw every sender go away — nothing checks whether a
  transaction committed (or will still be matched) after the handle left the manager;
* the directory is only removed at start (state ≠ `completed`) or on matcher errors (not modelled).
-/
namespace Corro.SubLife

inductive Status where
  | created | running | cancelled | completed
deriving DecidableEq, Repr, Inhabited

/-- where the matcher task of this subscription is -/
inductive Phase where
  | gone    -- no task (never spawned, finished, or the process is down)
  | init    -- `run`: initial query in progress
  | loop    -- `cmd_loop`: select loop
  | drain   -- after the `break`: "draining changes channel" until every sender is gone
deriving DecidableEq, Repr, Inhabited

/-- key ↦ value of one table / of the query result -/
abbrev Tbl := Nat → Option Nat

def Tbl.empty : Tbl := fun _ => none

def Tbl.set (t : Tbl) (k : Nat) (v : Option Nat) : Tbl := fun x => if x = k then v else t x

/-- one transaction: assignments applied in order (`none` deletes the row) -/
abbrev Tx := List (Nat × Option Nat)

def Tbl.apply (t : Tbl) : Tx → Tbl
  | [] => t
  | (k, v) :: r => Tbl.apply (t.set k v) r

def Tx.keys (tx : Tx) : List Nat := tx.map (·.1)

structure S where
  /-- the table the query reads, in the node database -/
  db        : Tbl
  /-- the subscription directory exists -/
  dir       : Bool
  /-- id of the subscription that owns the directory -/
  sid       : Nat
  /-- `meta.state` in sub.sqlite; `none`: the schema transaction of `Matcher::create` has not committed -/
  state     : Option Status
  /-- materialised `query` table -/
  rows      : Tbl
  /-- ids of the `changes` table, newest first -/
  log       : List Nat
  /-- number of candidates applied so far (durable only in the sense that their effect is) -/
  applied   : Nat
  -- in memory ------------------------------------------------------------------------------
  up        : Bool
  phase     : Phase
  /-- the handle is in the `SubsManager`: look-ups by id find it, `match_changes` reaches it -/
  reg       : Bool
  /-- some other `MatcherHandle` clone (a `changes_tx` sender) is alive outside the manager -/
  clone     : Bool
  cancelled : Bool
  tripped   : Bool
  /-- read snapshot of the initial query -/
  snap      : Tbl
  /-- candidates accepted into the channel / buffer and not yet applied -/
  pending   : List Nat
  /-- keys of committed transactions whose match step (`broadcast_changes` → `match_changes`) has not run yet -/
  held      : List Nat
  -- bookkeeping of the model -----------------------------------------------------------------
  nextSid   : Nat
  /-- committed transactions that never produced a candidate for this directory's subscription -/
  missed    : Nat

def init : S :=
  { db := Tbl.empty, dir := false, sid := 0, state := none, rows := Tbl.empty, log := [], applied := 0,
    up := true, phase := .gone, reg := false, clone := false, cancelled := false, tripped := false,
    snap := Tbl.empty, pending := [], held := [], nextSid := 1, missed := 0 }

def S.lastId (s : S) : Nat := s.log.headD 0

/-- candidates accepted so far for the current run: applied ones and those still waiting -/
def S.produced (s : S) : Nat := s.applied + s.pending.length

/-- a subscription exists on disk (its schema transaction committed) -/
def S.onDisk (s : S) : Bool := s.dir && s.state.isSome

/-- a client asking for the id is served (`GET /v1/subscriptions/{id}` = 200), otherwise 404 -/
def S.served (s : S) : Bool := s.up && s.reg

/-- `handle_candidates` for one key: re-read it from the current database -/
def applyOne (s : S) (k : Nat) : S :=
  if s.rows k = s.db k then s
  else { s with rows := s.rows.set k (s.db k), log := (s.lastId + 1) :: s.log }

def applyAll (s : S) (ks : List Nat) : S := ks.foldl applyOne s

/-- apply everything that is buffered -/
def S.flush (s : S) : S :=
  let s' := applyAll s s.pending
  { s' with applied := s.applied + s.pending.length, pending := [] }

inductive Op where
  /-- `Matcher::new` inside `get_or_insert`: directory + empty sub.sqlite -/
  | mkdir
  /-- `Matcher::create`: schema + `state = created` committed, handle registered, `run` spawned
      (its read transaction on the node database starts right away) -/
  | create
  /-- the initial query's transaction commits the rows and `state = running`; `cmd_loop` starts -/
  | initialDone
  /-- a transaction commits on the node and its match step runs at once -/
  | write (tx : Tx)
  /-- a transaction commits, its match step is still to come -/
  | writeHeld (tx : Tx)
  /-- the outstanding match steps run now -/
  | matchHeld
  /-- `cmd_loop` applies what it has buffered (deadline / threshold) -/
  | process
  /-- the handle leaves the manager and is cancelled: `drop_handles()` or the tail of
      `process_sub_channel`; `keep`: some other clone of the handle stays alive -/
  | unreg (keep : Bool)
  | dropClone
  | trip
  /-- `cmd_loop` notices cancellation (writes `cancelled`) or the tripwire, and breaks -/
  | ack
  /-- every sender is gone: the remainder is applied (`skip_send`), `completed` is written -/
  | drainEnd
  /-- the process ends now, wherever it is -/
  | stop
  /-- a new process starts: `setup_spawn_subscriptions` (restore + `run_restore` up to `running`) -/
  | restart

def step (s : S) : Op → Option S
  | .mkdir =>
    if s.up && !s.dir then
      some { s with dir := true, sid := s.nextSid, nextSid := s.nextSid + 1, state := none,
                    rows := Tbl.empty, log := [], applied := 0, missed := 0 }
    else none
  | .create =>
    if s.up && s.dir && s.state.isNone && !s.reg && s.phase == .gone then
      some { s with state := some .created, reg := true, phase := .init, snap := s.db,
                    cancelled := false, clone := false, pending := [] }
    else none
  | .initialDone =>
    if s.phase == .init then
      some { s with rows := s.snap, state := some .running, phase := .loop }
    else none
  | .write tx =>
    if s.up then
      let s1 := { s with db := s.db.apply tx }
      if s.onDisk then
        if s.reg then some { s1 with pending := s.pending ++ tx.keys }
        else some { s1 with missed := s.missed + 1 }
      else some s1
    else none
  | .writeHeld tx =>
    if s.up then some { s with db := s.db.apply tx, held := s.held ++ tx.keys } else none
  | .matchHeld =>
    if s.up && !s.held.isEmpty then
      if s.reg then some { s with pending := s.pending ++ s.held, held := [] }
      else if s.onDisk then some { s with missed := s.missed + 1, held := [] }
      else some { s with held := [] }
    else none
  | .process =>
    if s.phase == .loop && !s.cancelled then some s.flush else none
  | .unreg keep =>
    if s.up && s.reg then some { s with reg := false, cancelled := true, clone := keep } else none
  | .dropClone =>
    if s.clone then some { s with clone := false } else none
  | .trip =>
    if s.up && !s.tripped then some { s with tripped := true } else none
  | .ack =>
    if s.phase == .loop && (s.cancelled || s.tripped) then
      -- biased select: the cancellation branch comes first and writes `cancelled`
      some { s with phase := .drain, state := if s.cancelled then some .cancelled else s.state }
    else none
  | .drainEnd =>
    if s.phase == .drain && !s.reg && !s.clone then
      some { s.flush with state := some .completed, phase := .gone }
    else none
  | .stop =>
    if s.up then
      some { s with up := false, phase := .gone, reg := false, clone := false, cancelled := false,
                    tripped := false, snap := Tbl.empty, pending := [], held := [],
                    missed := if !s.held.isEmpty && s.onDisk then s.missed + 1 else s.missed }
    else none
  | .restart =>
    if !s.up then
      if s.dir then
        if s.state = some .completed then
          -- `Matcher::restore` accepts, `run_restore` re-attaches and writes `running`
          some { s with up := true, reg := true, phase := .loop, state := some .running }
        else
          -- `Matcher::cleanup`
          some { s with up := true, dir := false, state := none, rows := Tbl.empty, log := [], applied := 0 }
      else some { s with up := true }
    else none

/-- an op that is not enabled leaves the state alone -/
def stepD (s : S) (o : Op) : S := (step s o).getD s

def run (s : S) (ops : List Op) : S := ops.foldl stepD s

/-- the binary's stop sequence followed by a start, from wherever the subscription is:
trip; the matcher finishes its initial query if it is still in it and breaks out of its loop;
`drop_handles()`; other clones go away; the drain ends; the process exits; a new one starts. -/
def gracefulRestart : List Op :=
  [.trip, .initialDone, .ack, .unreg false, .dropClone, .initialDone, .ack, .drainEnd, .stop, .restart]

end Corro.SubLife
