/-
Model of the cr-sqlite cell store as the bundled extension behaves (observed through the
correspondence check `hx C01`, DESIGN.md §3): local writes producing change lists, and the merge
performed by `INSERT INTO crsql_changes`.  Import-free.

A row `(tbl, pk)` has a causal length `cl` (odd = exists, even = deleted, 0 = never seen), an
optional sentinel clock entry (cid `-1`, present whenever `cl > 1` or the table has only key columns)
and one clock entry per non-key column that ever received a value in the current incarnation.
-/
namespace Corro.Crdt

/-- SQLite values as cr-sqlite compares them at equal column versions:
NULL < BLOB < TEXT < (REAL) < INTEGER; same type: numeric / bytewise then length. -/
inductive Val where
  | null
  | blob (b : List Nat)
  | text (b : List Nat)
  | int (i : Int)
deriving Repr, DecidableEq, Inhabited

def Val.rank : Val → Nat
  | .null => 0 | .blob _ => 1 | .text _ => 2 | .int _ => 4

/-- bytewise lexicographic comparison, shorter prefix first -/
def bytesLt : List Nat → List Nat → Bool
  | [], [] => false
  | [], _ :: _ => true
  | _ :: _, [] => false
  | a :: as, b :: bs => if a < b then true else if b < a then false else bytesLt as bs

/-- strict "greater value wins" order used at equal column versions -/
def Val.lt (a b : Val) : Bool :=
  if a.rank ≠ b.rank then a.rank < b.rank else
  match a, b with
  | .blob x, .blob y => bytesLt x y
  | .text x, .text y => bytesLt x y
  | .int x, .int y => x < y
  | _, _ => false

structure Clock where
  colv : Nat
  site : Nat
  dbv  : Nat
  seq  : Nat
deriving Repr, DecidableEq, Inhabited

structure Cell where
  cid : String
  val : Val
  clk : Clock
deriving Repr, DecidableEq, Inhabited

structure Row where
  tbl   : String
  pk    : String
  cl    : Nat
  sent  : Option Clock
  cells : List Cell
deriving Repr, DecidableEq, Inhabited

/-- one entry of `crsql_changes` -/
structure Chg where
  tbl  : String
  pk   : String
  cid  : String
  val  : Val
  colv : Nat
  cl   : Nat
  site : Nat
  dbv  : Nat
  seq  : Nat
deriving Repr, DecidableEq, Inhabited

structure Db where
  site : Nat
  dbv  : Nat := 0            -- versions this site has produced
  rows : List Row := []
deriving Repr, Inhabited

def sentinel : String := "-1"

def Db.findRow (db : Db) (tbl pk : String) : Option Row :=
  db.rows.find? (fun r => r.tbl = tbl ∧ r.pk = pk)

def Db.setRow (db : Db) (r : Row) : Db :=
  if db.rows.any (fun x => x.tbl = r.tbl ∧ x.pk = r.pk) then
    { db with rows := db.rows.map (fun x => if x.tbl = r.tbl ∧ x.pk = r.pk then r else x) }
  else { db with rows := db.rows ++ [r] }

def Row.findCell (r : Row) (cid : String) : Option Cell := r.cells.find? (·.cid = cid)

def Row.setCell (r : Row) (c : Cell) : Row :=
  if r.cells.any (·.cid = c.cid) then
    { r with cells := r.cells.map (fun x => if x.cid = c.cid then c else x) }
  else { r with cells := r.cells ++ [c] }

def Chg.clock (c : Chg) : Clock := ⟨c.colv, c.site, c.dbv, c.seq⟩

/-- does the incoming column change beat the local cell (same causal length)? -/
def wins (c : Chg) (l : Cell) : Bool :=
  if c.colv ≠ l.clk.colv then c.colv > l.clk.colv
  else if l.val.lt c.val then true
  else if c.val.lt l.val then false
  else c.site > l.clk.site                    -- equal values: `merge-equal-values` → larger site id

/-- the new incarnation created by a change with a larger causal length: cells of an older
incarnation keep their value and attribution but their column version drops to 0. -/
def resurrect (old : Option Row) (c : Chg) : Row :=
  let cells := match old with
    | some r => if r.cl % 2 = 1 then r.cells.map (fun x => { x with clk := { x.clk with colv := 0 } }) else []
    | none => []
  { tbl := c.tbl, pk := c.pk, cl := c.cl, sent := some ⟨c.cl, c.site, c.dbv, c.seq⟩, cells := cells }

/-- `INSERT INTO crsql_changes VALUES (c)` -/
def merge (db : Db) (c : Chg) : Db :=
  let old := db.findRow c.tbl c.pk
  let lcl := match old with | some r => r.cl | none => 0
  if c.cl < lcl then db
  else if c.cl % 2 = 0 then
    if c.cl = lcl then db
    else db.setRow { tbl := c.tbl, pk := c.pk, cl := c.cl, sent := some ⟨c.cl, c.site, c.dbv, c.seq⟩, cells := [] }
  else if c.cid = sentinel then
    if c.cl = lcl then db else db.setRow (resurrect old c)
  else if c.cl > lcl then
    let base : Row :=
      if lcl = 0 ∧ c.cl = 1 then { tbl := c.tbl, pk := c.pk, cl := 1, sent := none, cells := [] }
      else resurrect old c
    db.setRow (base.setCell ⟨c.cid, c.val, c.clock⟩)
  else
    match old with
    | none => db   -- unreachable: lcl = c.cl ≥ 1 means the row is known
    | some r =>
      match r.findCell c.cid with
      | none => db.setRow (r.setCell ⟨c.cid, c.val, c.clock⟩)
      | some l => if wins c l then db.setRow (r.setCell ⟨c.cid, c.val, c.clock⟩) else db

def mergeAll (db : Db) (cs : List Chg) : Db := cs.foldl merge db

/-- all live entries of `crsql_changes` -/
def Db.changes (db : Db) : List Chg :=
  db.rows.flatMap fun r =>
    (match r.sent with
      | some k => [⟨r.tbl, r.pk, sentinel, .null, k.colv, r.cl, k.site, k.dbv, k.seq⟩]
      | none => []) ++
    r.cells.map (fun x => ⟨r.tbl, r.pk, x.cid, x.val, x.clk.colv, r.cl, x.clk.site, x.clk.dbv, x.clk.seq⟩)

/-- live entries attributed to `(site, dbv)` with `lo ≤ seq ≤ hi` -/
def Db.changesOf (db : Db) (site dbv lo hi : Nat) : List Chg :=
  db.changes.filter (fun c => c.site = site ∧ c.dbv = dbv ∧ lo ≤ c.seq ∧ c.seq ≤ hi)

def insertBySeq (c : Chg) : List Chg → List Chg
  | [] => [c]
  | x :: xs => if c.seq < x.seq then c :: x :: xs else x :: insertBySeq c xs

def sortBySeq (cs : List Chg) : List Chg := cs.foldl (fun acc c => insertBySeq c acc) []

/-! ### local writes -/

inductive Stmt where
  | ins (tbl pk : String) (assigns : List (String × Val))
  | upd (tbl pk : String) (assigns : List (String × Val))
  | del (tbl pk : String)
deriving Repr, Inhabited

/-- non-key columns of the correspondence schema, in table order -/
def tableCols : String → Option (List String)
  | "t" => some ["a", "b"]
  | "u" => some ["x"]
  | "k" => some []
  | _ => none

inductive WErr where | constraint | badOp
deriving Repr, DecidableEq

/-- one statement inside a local transaction that will become version `ver`; `seq` is the next
sequence number -/
def applyStmt (db : Db) (ver : Nat) (seq : Nat) : Stmt → Except WErr (Db × Nat)
  | .ins tbl pk assigns =>
    match tableCols tbl with
    | none => .error .badOp
    | some cols =>
      let lcl := match db.findRow tbl pk with | some r => r.cl | none => 0
      if lcl % 2 = 1 then .error .constraint else
      let ncl := if lcl = 0 then 1 else lcl + 1
      let needSent := ncl > 1 ∨ cols.isEmpty
      let seq0 := if needSent then seq + 1 else seq
      let sent : Option Clock := if needSent then some ⟨ncl, db.site, ver, seq⟩ else none
      let cells := cols.zipIdx.map fun (c, i) =>
        let v := match assigns.find? (·.1 = c) with | some (_, v) => v | none => Val.null
        (⟨c, v, ⟨1, db.site, ver, seq0 + i⟩⟩ : Cell)
      .ok (db.setRow { tbl := tbl, pk := pk, cl := ncl, sent := sent, cells := cells }, seq0 + cols.length)
  | .upd tbl pk assigns =>
    match tableCols tbl with
    | none => .error .badOp
    | some cols =>
      match db.findRow tbl pk with
      | none => .ok (db, seq)
      | some r =>
        if r.cl % 2 = 0 then .ok (db, seq) else
        let (r', seq') := cols.foldl (fun (acc : Row × Nat) c =>
          match assigns.find? (·.1 = c) with
          | none => acc
          | some (_, v) =>
            let (r, s) := acc
            let old := r.findCell c
            let oldVal := match old with | some x => x.val | none => Val.null
            if oldVal = v then acc else
            let oldV := match old with | some x => x.clk.colv | none => 0
            (r.setCell ⟨c, v, ⟨oldV + 1, db.site, ver, s⟩⟩, s + 1)) (r, seq)
        .ok (db.setRow r', seq')
  | .del tbl pk =>
    match db.findRow tbl pk with
    | none => .ok (db, seq)
    | some r =>
      if r.cl % 2 = 0 then .ok (db, seq) else
      .ok (db.setRow { r with cl := r.cl + 1, sent := some ⟨r.cl + 1, db.site, ver, seq⟩, cells := [] }, seq + 1)

def applyStmts (db : Db) (ver : Nat) : Nat → List Stmt → Except WErr (Db × Nat)
  | seq, [] => .ok (db, seq)
  | seq, s :: ss =>
    match applyStmt db ver seq s with
    | .error e => .error e
    | .ok (db', seq') => applyStmts db' ver seq' ss

/-- a local transaction: all-or-nothing; consumes a version only if it produced changes.
Returns the new database and the version's change list (live entries, by seq). -/
def localTx (db : Db) (stmts : List Stmt) : Except WErr (Db × Option (Nat × List Chg)) :=
  let ver := db.dbv + 1
  match applyStmts db ver 0 stmts with
  | .error e => .error e
  | .ok (db', _) =>
    let chs := sortBySeq (db'.changesOf db.site ver 0 (db'.changes.foldl (fun m c => max m c.seq) 0))
    if chs.isEmpty then .ok (db, none)
    else .ok ({ db' with dbv := ver }, some (ver, chs))

end Corro.Crdt
