/-
Model of `SyncStateV1::compute_available_needs` (crates/klukai-types/src/sync.rs:126) and of the
client-side request chunking + de-duplication of `parallel_sync`
(crates/klukai-agent/src/api/peer/mod.rs:1229-1396).  Import-free apart from other model files:
this file is linked into the driver.

`HashMap`s are association lists with strictly increasing keys (the canonical representation of a
map; the driver rejects anything else), so "iterate the map" is "walk the list": the iteration
order of the real `HashMap` is canonicalised by sorting.  Actor ids are `Nat`s (the harness maps
them to 16-byte ids).
-/
import Corro.Model.Ranges
import Corro.Model.Chunker

namespace Corro.Needs

abbrev Actor := Nat

/-- `HashMap::get` on an association list. -/
def aget {κ β : Type} [DecidableEq κ] (k : κ) : List (κ × β) → Option β
  | [] => none
  | (k', v) :: t => if k' = k then some v else aget k t

/-- `HashMap::insert` / `*entry(k).or_default() = v` on an association list. -/
def aset {κ β : Type} [DecidableEq κ] (k : κ) (v : β) : List (κ × β) → List (κ × β)
  | [] => [(k, v)]
  | (k', v') :: t => if k' = k then (k, v) :: t else (k', v') :: aset k v t

/-- `SyncNeedV1` (the `Empty` variant is never produced by `compute_available_needs`). -/
inductive Need where
  | full (lo hi : Nat)                          -- `Full { versions: lo..=hi }`
  | part (version : Nat) (seqs : List (Nat × Nat))  -- `Partial { version, seqs }`
deriving Repr, DecidableEq, Inhabited

/-- `SyncStateV1` without `last_cleared_ts` (not read by `compute_available_needs`). -/
structure SyncState where
  actor : Actor
  heads : List (Actor × Nat)
  need : List (Actor × List (Nat × Nat))
  partialNeed : List (Actor × List (Nat × List (Nat × Nat)))
deriving Repr, DecidableEq, Inhabited

def needOf (s : SyncState) (a : Actor) : List (Nat × Nat) := (aget a s.need).getD []
def partialsOf (s : SyncState) (a : Actor) : List (Nat × List (Nat × Nat)) :=
  (aget a s.partialNeed).getD []

/-- `other_haves`: `1..=head` minus the peer's `need` ranges minus the peer's partial versions. -/
def otherHaves (head : Nat) (otherNeed : List (Nat × Nat))
    (otherPartials : List (Nat × List (Nat × Nat))) : RSet :=
  RSet.removeAll (RSet.removeAll [(1, head)] otherNeed) (otherPartials.map (fun p => (p.1, p.1)))

/-- `max(range.start, overlap.start) ..= min(range.end, overlap.end)` -/
def clip (r p : Nat × Nat) : Nat × Nat := (max r.1 p.1, min r.2 p.2)

/-- first source of needs: our `need` ranges cut against what the peer fully holds. -/
def fullFromNeed (haves : RSet) (ourNeed : List (Nat × Nat)) : List Need :=
  ourNeed.flatMap (fun r => (RSet.overlapping haves r).map (fun p => Need.full (clip r p).1 (clip r p).2))

/-- `ranges.iter().map(|r| *r.end()).max()` -/
def maxEnd? : List (Nat × Nat) → Option Nat
  | [] => none
  | r :: t => match maxEnd? t with
    | none => some r.2
    | some m => some (max r.2 m)

/-- `cmp::max` on `Option<u64>` (`None` is the least element). -/
def optMax : Option Nat → Option Nat → Option Nat
  | none, b => b
  | a, none => a
  | some x, some y => some (max x y)

/-- both sides hold the version partially: the seq ranges we miss that the peer does not miss,
looking no further than the largest seq either side mentions. -/
def partialSeqs (ourSeqs otherSeqs : List (Nat × Nat)) : List (Nat × Nat) :=
  match optMax (maxEnd? otherSeqs) (maxEnd? ourSeqs) with
  | none => []
  | some e =>
    let otherSeqsHaves := RSet.removeAll [(0, e)] otherSeqs
    ourSeqs.flatMap (fun r => (RSet.overlapping otherSeqsHaves r).map (clip r))

/-- second source: our partial versions. -/
def partialNeeds (haves : RSet) (ourPartials otherPartials : List (Nat × List (Nat × Nat))) :
    List Need :=
  ourPartials.filterMap (fun p =>
    if RSet.contains haves p.1 then some (Need.part p.1 p.2)
    else match aget p.1 otherPartials with
      | none => none
      | some os =>
        let s := partialSeqs p.2 os
        if s.isEmpty then none else some (Need.part p.1 s))

/-- third source: everything beyond our head (or everything, for an actor we do not know). -/
def missing (ourHead : Option Nat) (head : Nat) : List Need :=
  match ourHead with
  | some oh => if head > oh then [Need.full (oh + 1) head] else []
  | none => [Need.full 1 head]

/-- the body of the loop over `other.heads` for one foreign actor with a non-zero head. -/
def needsFor (us peer : SyncState) (a : Actor) (head : Nat) : List Need :=
  let haves := otherHaves head (needOf peer a) (partialsOf peer a)
  fullFromNeed haves (needOf us a)
    ++ partialNeeds haves (partialsOf us a) (partialsOf peer a)
    ++ missing (aget a us.heads) head

/-- `self.compute_available_needs(other)`, keys in the order of `other.heads` (sorted). -/
def computeAvailableNeeds (us peer : SyncState) : List (Actor × List Need) :=
  peer.heads.filterMap (fun ah =>
    if ah.1 = us.actor then none
    else if ah.2 = 0 then none
    else
      let ns := needsFor us peer ah.1 ah.2
      if ns.isEmpty then none else some (ah.1, ns))

/-! ### client side: chunking and de-duplication (`parallel_sync`) -/

/-- an element of a server's `VecDeque<(ActorId, SyncNeedV1)>` -/
abbrev Item := Actor × Need

/-- `Full` needs are cut by `chunk_range(versions, k)` (k = 10 in the code), others pass. -/
def chunkNeed (k : Nat) : Need → List Need
  | .full lo hi => (Chunker.chunkRange lo hi k).map (fun b => Need.full b.1 b.2)
  | n => [n]

/-- `actor_needs`: the queue built from one peer's computed needs. -/
def queueOf (k : Nat) (needs : List (Actor × List Need)) : List Item :=
  needs.flatMap (fun an => (an.2.flatMap (chunkNeed k)).map (fun n => (an.1, n)))

/-- state of the request-sending task: `req_full`, `req_partials`, and the needs put on the wire
so far as `(server, actor, need)` in sending order. -/
structure DState where
  reqFull : List (Actor × RSet)
  reqPartials : List ((Actor × Nat) × RSet)
  sent : List (Actor × Actor × Need)
deriving Repr, DecidableEq, Inhabited

def DState.empty : DState := ⟨[], [], []⟩

/-- one popped `(actor_id, need)` for server `srv`: subtract what was already requested in this
session (from anyone), remember and send the rest. -/
def dedupStep (st : DState) (srv : Actor) (it : Item) : DState :=
  match it with
  | (a, .full lo hi) =>
    let range := (aget a st.reqFull).getD []
    let newVersions := RSet.removeAll [(lo, hi)] (RSet.overlapping range (lo, hi))
    if newVersions.isEmpty then st
    else { st with
      reqFull := aset a (RSet.insertAll range newVersions) st.reqFull
      sent := st.sent ++ newVersions.map (fun v => (srv, a, Need.full v.1 v.2)) }
  | (a, .part v seqs) =>
    let range := (aget (a, v) st.reqPartials).getD []
    let newSeqs := seqs.foldl (fun n s => RSet.removeAll n (RSet.overlapping range s)) (RSet.ofList seqs)
    if newSeqs.isEmpty then st
    else { st with
      reqPartials := aset (a, v) (RSet.insertAll range newSeqs) st.reqPartials
      sent := st.sent ++ [(srv, a, Need.part v newSeqs)] }

/-- one pass of `for (server, needs, tx) in servers`: every server with a non-empty queue pops up
to `d` (10 in the code) items from the back; servers whose queue became empty are dropped.
Returns the popped items in popping order and the next `servers`. -/
def roundStep (d : Nat) : List (Actor × List Item) → List (Actor × Item) × List (Actor × List Item)
  | [] => ([], [])
  | (s, q) :: rest =>
    let r := roundStep d rest
    if q.isEmpty then r
    else
      let popped := (q.reverse.take d).map (fun it => (s, it))
      let remaining := q.take (q.length - d)
      (popped ++ r.1, if remaining.isEmpty then r.2 else (s, remaining) :: r.2)

/-- the `loop { … servers = next_servers }`: the order in which items are popped over the whole
session.  `fuel` bounds the number of rounds. -/
def schedule (d : Nat) : Nat → List (Actor × List Item) → List (Actor × Item)
  | 0, _ => []
  | _ + 1, [] => []
  | f + 1, servers =>
    let r := roundStep d servers
    r.1 ++ schedule d f r.2

def totalLen (servers : List (Actor × List Item)) : Nat := (servers.map (fun s => s.2.length)).sum

/-- the de-duplication folded over a popping order. -/
def sendAll (st : DState) (items : List (Actor × Item)) : DState :=
  items.foldl (fun st si => dedupStep st si.1 si.2) st

/-- `servers`: one entry per peer whose handshake succeeded and whose needs are non-empty. -/
def serversOf (k : Nat) (us : SyncState) (peers : List SyncState) : List (Actor × List Item) :=
  peers.filterMap (fun p =>
    let needs := computeAvailableNeeds us p
    if needs.isEmpty then none else some (p.actor, queueOf k needs))

/-- everything put on the wire in one `parallel_sync` session with the given peers
(`k` = chunk size, `d` = items drained per server per round; both 10 in the code). -/
def syncSession (k d : Nat) (us : SyncState) (peers : List SyncState) : List (Actor × Actor × Need) :=
  let servers := serversOf k us peers
  (sendAll DState.empty (schedule d (totalLen servers + 1) servers)).sent

end Corro.Needs
