/-
Model of `ChunkedChanges::next` (crates/klukai-types/src/change.rs) and of `chunk_range`
(crates/klukai-agent/src/api/peer/mod.rs).  Import-free: this file is linked into the driver.

A change is reduced to what the chunker looks at: its sequence number and its estimated byte size
(`Change::estimated_byte_size`, read from the real code by the harness).  `lim k` is the value of
`max_buf_size` during the k-th call of `next` (the sync server changes it between calls).
-/
namespace Corro.Chunker

structure Chg where
  seq  : Nat
  size : Nat
deriving Repr, DecidableEq, Inhabited

structure Chunk where
  changes : List Chg
  lo : Nat
  hi : Nat
deriving Repr, DecidableEq, Inhabited

/-- The whole iteration of `ChunkedChanges`, one list cell per `self.iter.next()`.
`acc` is `self.changes` (reversed), `buf` is `self.buffered_size`, `start` is `self.last_start_seq`,
`k` counts completed calls of `next`. -/
def go (last : Nat) (lim : Nat → Nat) (k : Nat) (start : Nat) (acc : List Chg) (buf : Nat) :
    List Chg → List Chunk
  | [] => [⟨acc.reverse, start, last⟩]                       -- iterator exhausted: final chunk
  | c :: rest =>
    if c.seq = last then [⟨(c :: acc).reverse, start, last⟩]  -- "this was the last seq! break early"
    else if buf + c.size ≥ lim k then
      match rest with
      | [] => [⟨(c :: acc).reverse, start, last⟩]             -- peek() is none: final chunk
      | r :: rs => ⟨(c :: acc).reverse, start, c.seq⟩ :: go last lim (k + 1) (c.seq + 1) [] 0 (r :: rs)
    else go last lim k start (c :: acc) (buf + c.size) rest

/-- `ChunkedChanges::new(iter, start, last, _).collect()` with limit `lim k` during call `k`. -/
def chunks (start last : Nat) (lim : Nat → Nat) (cs : List Chg) : List Chunk :=
  go last lim 0 start [] 0 cs

/-- `chunk_range(lo..=hi, k)`: `step_by(k)` block starts, each block `start..=min(start+k, hi)`.
Fuel `hi + 1 - lo` is enough for every `k ≥ 1` (the real code panics for `k = 0`). -/
def chunkRangeAux (hi k : Nat) : Nat → Nat → List (Nat × Nat)
  | 0, _ => []
  | f + 1, cur =>
    if cur ≤ hi then (cur, min (cur + k) hi) :: chunkRangeAux hi k f (cur + k) else []

def chunkRange (lo hi k : Nat) : List (Nat × Nat) := chunkRangeAux hi k (hi + 1 - lo) lo

end Corro.Chunker
