/-
Model of `handle_changes` (crates/klukai-agent/src/agent/handlers.rs): the receive loop that bundles
incoming changesets into batches for `process_multiple_changes`, sheds load by dropping the oldest
queued changeset, and suppresses duplicates through the `seen` cache.

State of the loop: `queue` (VecDeque), `bufCost`, `seen` (an IndexMap: insertion order matters for
the trim), the `JoinSet` of running batches (`inflight`, in spawn order) and the node the batches
are applied to (`Corro.Node.Node`, whose `deliver` is the model of `process_multiple_changes` + the
background apply).  Three ghost fields record what became of every accepted changeset
(`delivered`, `failed`, `droppedItems`); no transition reads them.

Events: a changeset arrives (`offer`), the `max_wait` interval fires (`tick`), a running batch
finishes with `Ok` or `Err` (`batchDone`).  After every event the real loop goes back to its top
and runs the spawn `while`; `step` does the same (`loopTop`).

The model follows the code AS IT IS.  `Params.evictDropped = false` is the eviction on drop as
the code has it (keyed with the INCOMING change's actor; an entry whose seqs become empty keeps its
key); `true` is the repaired rule (the dropped change's actor; emptied entries removed).  The
driver runs the variant that matches the code.
Import-free apart from model files.
-/
import Corro.Model.Ranges
import Corro.Model.Node

namespace Corro.Ingest
open Corro Corro.Node

structure Params where
  maxQueueLen : Nat          -- perf.processing_queue_len  (also `max_seen_cache_len`)
  maxChangesChunk : Nat      -- perf.apply_queue_len
  maxConcurrent : Nat := 5   -- MAX_CONCURRENT
  keepSeen : Nat := 0        -- keep_seen_cache_size
  evictDropped : Bool := false
deriving Repr, DecidableEq, Inhabited

/-- `keep_seen_cache_size` as the code derives it from `processing_queue_len` -/
def keepSeenOf (maxQueueLen : Nat) : Nat :=
  if maxQueueLen > 10 then Nat.max 10 (maxQueueLen / 10) else 0

/-- `Changeset::processing_cost` -/
def cost : Item → Nat
  | .full _ _ _ _ _ cs => cs.length
  | .empty _ lo hi => Nat.min (hi - lo + 1) 20

def costs (q : List Item) : Nat := (q.map cost).sum

/-- `change.versions()` as a list -/
def versionsOf (it : Item) : List Nat :=
  (List.range (it.versions.2 + 1 - it.versions.1)).map (it.versions.1 + ·)

/-! ### the `seen` cache: `IndexMap<(ActorId, version), RangeInclusiveSet<seq>>` -/

abbrev Key := Nat × Nat
abbrev Seen := List (Key × RSet)

def Seen.get? (s : Seen) (k : Key) : Option RSet := (s.find? (fun e => e.1 = k)).map (·.2)

def Seen.hasKey (s : Seen) (k : Key) : Bool := s.any (fun e => e.1 = k)

/-- `entry(k).or_default()` followed by an update of the value: a new key goes to the end -/
def Seen.upsert (s : Seen) (k : Key) (f : RSet → RSet) : Seen :=
  if s.hasKey k then s.map (fun e => if e.1 = k then (k, f e.2) else e) else s ++ [(k, f [])]

/-- update of an occupied entry only -/
def Seen.modify (s : Seen) (k : Key) (f : RSet → RSet) : Seen :=
  s.map (fun e => if e.1 = k then (k, f e.2) else e)

/-- `IndexMap::swap_remove`: the last entry takes the place of the removed one -/
def Seen.swapRemove (s : Seen) (k : Key) : Seen :=
  if s.hasKey k then
    match s.getLast? with
    | none => s
    | some l => if l.1 = k then s.dropLast else s.dropLast.map (fun e => if e.1 = k then l else e)
  else s

/-- the lookup in front of the queue: `Full` — every seq of the chunk is recorded for
`(actor, version)`; `Empty` — every version of the range has a key -/
def suppresses (seen : Seen) : Item → Bool
  | .full site ver lo hi _ _ =>
    match seen.get? (site, ver) with
    | some rs => (List.range (hi + 1 - lo)).all (fun i => RSet.contains rs (lo + i))
    | none => false
  | .empty site vlo vhi => (List.range (vhi + 1 - vlo)).all (fun i => seen.hasKey (site, vlo + i))

/-- insertion after acceptance: one entry per version, `Full` adds its seq range -/
def record (seen : Seen) (it : Item) : Seen :=
  (versionsOf it).foldl (fun sn v =>
    sn.upsert (it.site, v) (fun rs => match it.seqs with | some r => RSet.insert rs r | none => rs)) seen

/-- eviction of one `(actor, v)` when a queued changeset with `dseqs` is dropped
(`if let Entry::Occupied(..)`).  `fixed`: also remove the entry when its seqs become empty. -/
def evictOne (fixed : Bool) (dseqs : Option (Nat × Nat)) (sn : Seen) (k : Key) : Seen :=
  if sn.hasKey k then
    match dseqs with
    | some r =>
      let sn' := sn.modify k (fun rs => RSet.remove rs r)
      if fixed && ((sn'.get? k).getD []).isEmpty then sn'.swapRemove k else sn'
    | none => sn.swapRemove k
  else sn

/-! ### state -/

structure State where
  queue : List Item := []
  bufCost : Nat := 0
  seen : Seen := []
  inflight : List (List Item) := []
  node : Node
  /-- ghost: batches that finished with `Ok`, in completion order -/
  delivered : List (List Item) := []
  /-- ghost: batches that finished with `Err` -/
  failed : List (List Item) := []
  /-- ghost: what `corro.agent.changes.dropped` counted -/
  droppedItems : List Item := []
deriving Inhabited

def State.init (n : Node) : State := { node := n }

/-- the bookkeeping check: `booked.contains_all(change.versions(), change.seqs())` -/
def held (n : Node) (it : Item) : Bool :=
  (n.booked it.site).containsAll it.versions.1 it.versions.2 it.seqs

/-! ### the spawn `while` at the top of the loop -/

/-- the inner `while let Some(..) = queue.pop_front()`: `(batch, rest of the queue, tmp_cost)` -/
def takeBatch (chunk : Nat) : Nat → List Item → List Item × List Item × Nat
  | acc, [] => ([], [], acc)
  | acc, it :: rest =>
    if acc + cost it ≥ chunk then ([it], rest, acc + cost it)
    else
      let r := takeBatch chunk (acc + cost it) rest
      (it :: r.1, r.2.1, r.2.2)

def spawnCond (p : Params) (s : State) : Bool :=
  (decide (s.bufCost ≥ p.maxChangesChunk) || (!s.queue.isEmpty && s.inflight.isEmpty)) &&
    decide (s.inflight.length < p.maxConcurrent)

def spawnLoop (p : Params) : Nat → State → State
  | 0, s => s
  | fuel + 1, s =>
    if spawnCond p s then
      let r := takeBatch p.maxChangesChunk 0 s.queue
      if r.1.isEmpty then s
      else spawnLoop p fuel { s with queue := r.2.1, inflight := s.inflight ++ [r.1], bufCost := s.bufCost - r.2.2 }
    else s

/-- every iteration takes at least one changeset off the queue -/
def loopTop (p : Params) (s : State) : State := spawnLoop p (s.queue.length + 1) s

/-! ### events -/

/-- drop-oldest: `queue.pop_front()`, eviction from `seen`, cost, counter -/
def dropOldest (p : Params) (s : State) (incoming : Item) : State :=
  match s.queue with
  | [] => s
  | d :: rest =>
    let actor := if p.evictDropped then d.site else incoming.site
    { s with
      queue := rest
      seen := (versionsOf d).foldl (fun sn v => evictOne p.evictDropped d.seqs sn (actor, v)) s.seen
      bufCost := s.bufCost - cost d
      droppedItems := s.droppedItems ++ [d] }

/-- does the loop enqueue this changeset (own-actor skip, `seen` lookup, bookkeeping check)? -/
def accepts (s : State) (it : Item) : Bool :=
  !(it.site == s.node.id) && !(suppresses s.seen it) && !(held s.node it)

/-- the body of the loop for one received changeset (before going back to the top) -/
def offer (p : Params) (s : State) (it : Item) : State :=
  if accepts s it then
    let s1 := if s.queue.length ≥ p.maxQueueLen then dropOldest p s it else s
    { s1 with seen := record s1.seen it, queue := s1.queue ++ [it], bufCost := s1.bufCost + cost it }
  else s

/-- the tick branch: flush when below the chunk size, trim of `seen` -/
def tick (p : Params) (s : State) : State :=
  let s1 :=
    if s.bufCost < p.maxChangesChunk ∧ s.queue ≠ [] ∧ s.inflight.length < p.maxConcurrent then
      { s with inflight := s.inflight ++ [s.queue], queue := [], bufCost := 0 }
    else s
  if s1.seen.length > p.maxQueueLen then
    { s1 with seen := s1.seen.drop (s1.seen.length - p.keepSeen) }
  else s1

/-- `join_set.join_next()`: batch `i` (in spawn order) finished.  `Ok`: it went through
`process_multiple_changes` (= `Node.deliver`); `Err`: only logged. -/
def batchDone (s : State) (i : Nat) (ok : Bool) : State :=
  match s.inflight[i]? with
  | none => s
  | some b =>
    if ok then { s with inflight := s.inflight.eraseIdx i, node := s.node.deliver b, delivered := s.delivered ++ [b] }
    else { s with inflight := s.inflight.eraseIdx i, failed := s.failed ++ [b] }

inductive Event where
  | offer (it : Item) (bcast : Bool)
  | tick
  | batchDone (i : Nat) (ok : Bool)
deriving Repr, Inhabited

def step (p : Params) (s : State) : Event → State
  | .offer it _ => loopTop p (offer p s it)
  | .tick => loopTop p (tick p s)
  | .batchDone i ok => loopTop p (batchDone s i ok)

def run (p : Params) (s : State) (evs : List Event) : State := evs.foldl (step p) s

/-- let the oldest running batch finish, `n` times (what happens when nothing else arrives) -/
def drainN (p : Params) (ok : Bool) : Nat → State → State
  | 0, s => s
  | n + 1, s => if s.inflight.isEmpty then s else drainN p ok n (step p s (.batchDone 0 ok))

/-- enough rounds to empty queue and in-flight: every completion removes a batch and every spawn
moves at least one changeset -/
def drain (p : Params) (ok : Bool) (s : State) : State := drainN p ok (s.queue.length + s.inflight.length + 1) s

end Corro.Ingest
