/-
Model of `handle_changes` (crates/klukai-agent/src/agent/handlers.rs): the receive loop that bundles
incoming changesets into batches for `process_multiple_changes`, sheds load by dropping the oldest
queued changeset, and suppresses duplicates through the `seen` cache.

State of the loop: `queue` (VecDeque), `bufCost`, `seen` (an IndexMap: insertion order matters for
the trim), the `JoinSet` of running batches (`inflight`, in spawn order) and the node the batches
are applied to (`Corro.Node.Node`, whose `deliver` is the model of `process_multiple_changes` + the
background apply).  Three ghost fields record what became of every accepted changeset
(`delivered`, `failed`, `droppedItems`); no transition reads them.

Events: a changeset arrives (`offer`), the `max_wait` interval fires (`tick`), a running batch
finishes with `Ok` or `Err` (`batchDone`).  After every event the real loop goes back to its top
and runs the spawn `while`; `step` does the same (`loopTop`).

The model follows the code AS IT IS.  Two flags select between the code as it stood and as it was
repaired; the driver runs the variant that matches the source (`Corro/Gen/IngestCode.lean`,
regenerated on every run), the theorems cover both:
* `Params.evictDropped = false`: the eviction on drop keyed with the INCOMING change's actor, an
  entry whose seqs become empty keeps its key; `true` (repo commit f26a9aa): the dropped change's
  actor, emptied entries removed;
* `Params.clearOnFail = false`: a failed batch is only logged; `true` (repo commit bcbe93d): the
  loop also clears `seen`.
A `Full` changeset whose seq range is inverted is skipped right after the own-actor check (repo
commit ada86b3; before it the loop panicked on such a changeset).
Import-free apart from model files.
-/
import Corro.Model.Ranges
import Corro.Model.Node

namespace Corro.Ingest
open Corro Corro.Node

structure Params where
  maxQueueLen : Nat          -- perf.processing_queue_len  (also `max_seen_cache_len`)
  maxChangesChunk : Nat      -- perf.apply_queue_len
  maxConcurrent : Nat := 5   -- MAX_CONCURRENT
  keepSeen : Nat := 0        -- keep_seen_cache_size
  evictDropped : Bool := false
  clearOnFail : Bool := false
deriving Repr, DecidableEq, Inhabited

/-- `keep_seen_cache_size` as the code derives it from `processing_queue_len` -/
def keepSeenOf (maxQueueLen : Nat) : Nat :=
  if maxQueueLen > 10 then Nat.max 10 (maxQueueLen / 10) else 0

/-- `Changeset::processing_cost` -/
def cost : Item → Nat
  | .full _ _ _ _ _ cs => cs.length
  | .empty _ lo hi => Nat.min (hi - lo + 1) 20

def costs (q : List Item) : Nat := (q.map cost).sum

/-- `change.versions()` as a list -/
def versionsOf (it : Item) : List Nat :=
  (List.range (it.versions.2 + 1 - it.versions.1)).map (it.versions.1 + ·)

/-! ### the `seen` cache: `IndexMap<(ActorId, version), RangeInclusiveSet<seq>>` -/

abbrev Key := Nat × Nat
abbrev Seen := List (Key × RSet)

def Seen.get? (s : Seen) (k : Key) : Option RSet := (s.find? (fun e => e.1 = k)).map (·.2)

def Seen.hasKey (s : Seen) (k : Key) : Bool := s.any (fun e => e.1 = k)

/-- `entry(k).or_default()` followed by an update of the value: a new key goes to the end -/
def Seen.upsert (s : Seen) (k : Key) (f : RSet → RSet) : Seen :=
  if s.hasKey k then s.map (fun e => if e.1 = k then (k, f e.2) else e) else s ++ [(k, f [])]

/-- update of an occupied entry only -/
def Seen.modify (s : Seen) (k : Key) (f : RSet → RSet) : Seen :=
  s.map (fun e => if e.1 = k then (k, f e.2) else e)

/-- `IndexMap::swap_remove`: the last entry takes the place of the removed one -/
def Seen.swapRemove (s : Seen) (k : Key) : Seen :=
  if s.hasKey k then
    match s.getLast? with
    | none => s
    | some l => if l.1 = k then s.dropLast else s.dropLast.map (fun e => if e.1 = k then l else e)
  else s

/-- the lookup in front of the queue: `Full` — every seq of the chunk is recorded for
`(actor, version)`; `Empty` — every version of the range has a key -/
def suppresses (seen : Seen) : Item → Bool
  | .full site ver lo hi _ _ =>
    match seen.get? (site, ver) with
    | some rs => (List.range (hi + 1 - lo)).all (fun i => RSet.contains rs (lo + i))
    | none => false
  | .empty site vlo vhi => (List.range (vhi + 1 - vlo)).all (fun i => seen.hasKey (site, vlo + i))

/-- insertion after acceptance: one entry per version, `Full` adds its seq range -/
def record (seen : Seen) (it : Item) : Seen :=
  (versionsOf it).foldl (fun sn v =>
    sn.upsert (it.site, v) (fun rs => match it.seqs with | some r => RSet.insert rs r | none => rs)) seen

/-- eviction of one `(actor, v)` when a queued changeset with `dseqs` is dropped
(`if let Entry::Occupied(..)`).  `fixed`: also remove the entry when its seqs become empty. -/
def evictOne (fixed : Bool) (dseqs : Option (Nat × Nat)) (sn : Seen) (k : Key) : Seen :=
  if sn.hasKey k then
    match dseqs with
    | some r =>
      if fixed && (((sn.modify k (fun rs => RSet.remove rs r)).get? k).getD []).isEmpty then
        (sn.modify k (fun rs => RSet.remove rs r)).swapRemove k
      else sn.modify k (fun rs => RSet.remove rs r)
    | none => sn.swapRemove k
  else sn

/-- `for v in dropped_change.versions() { … seen.entry((actor, v)) … }` -/
def evictAll (fixed : Bool) (d : Item) (actor : Nat) (sn : Seen) : Seen :=
  (versionsOf d).foldl (fun sn v => evictOne fixed d.seqs sn (actor, v)) sn

/-! ### state -/

structure State where
  queue : List Item := []
  bufCost : Nat := 0
  seen : Seen := []
  inflight : List (List Item) := []
  node : Node
  /-- ghost: batches that finished with `Ok`, in completion order -/
  delivered : List (List Item) := []
  /-- ghost: batches that finished with `Err` -/
  failed : List (List Item) := []
  /-- ghost: what `corro.agent.changes.dropped` counted -/
  droppedItems : List Item := []
deriving Inhabited

def State.init (n : Node) : State := { node := n }

/-- the bookkeeping check: `booked.contains_all(change.versions(), change.seqs())` -/
def held (n : Node) (it : Item) : Bool :=
  (n.booked it.site).containsAll it.versions.1 it.versions.2 it.seqs

/-! ### the spawn `while` at the top of the loop -/

/-- the inner `while let Some(..) = queue.pop_front()`: `(batch, rest of the queue, tmp_cost)` -/
def takeBatch (chunk : Nat) : Nat → List Item → List Item × List Item × Nat
  | acc, [] => ([], [], acc)
  | acc, it :: rest =>
    if acc + cost it ≥ chunk then ([it], rest, acc + cost it)
    else
      let r := takeBatch chunk (acc + cost it) rest
      (it :: r.1, r.2.1, r.2.2)

def spawnCond (p : Params) (s : State) : Bool :=
  (decide (s.bufCost ≥ p.maxChangesChunk) || (!s.queue.isEmpty && s.inflight.isEmpty)) &&
    decide (s.inflight.length < p.maxConcurrent)

/-- one `join_set.spawn(process_multiple_changes(..))` of the batch taken off the front of the queue -/
def spawned (p : Params) (s : State) : State :=
  { s with
    queue := (takeBatch p.maxChangesChunk 0 s.queue).2.1
    inflight := s.inflight ++ [(takeBatch p.maxChangesChunk 0 s.queue).1]
    bufCost := s.bufCost - (takeBatch p.maxChangesChunk 0 s.queue).2.2 }

def spawnLoop (p : Params) : Nat → State → State
  | 0, s => s
  | fuel + 1, s =>
    if spawnCond p s then
      if (takeBatch p.maxChangesChunk 0 s.queue).1.isEmpty then s
      else spawnLoop p fuel (spawned p s)
    else s

/-- every iteration takes at least one changeset off the queue -/
def loopTop (p : Params) (s : State) : State := spawnLoop p (s.queue.length + 1) s

/-! ### events -/

/-- drop-oldest: `queue.pop_front()`, eviction from `seen`, cost, counter -/
def dropOldest (p : Params) (s : State) (incoming : Item) : State :=
  match s.queue with
  | [] => s
  | d :: rest =>
    { s with
      queue := rest
      seen := evictAll p.evictDropped d (if p.evictDropped then d.site else incoming.site) s.seen
      bufCost := s.bufCost - cost d
      droppedItems := s.droppedItems ++ [d] }

/-- "received an invalid change, seqs start is greater than seqs end" -/
def inverted : Item → Bool
  | .full _ _ lo hi _ _ => decide (hi < lo)
  | .empty .. => false

/-- does the loop enqueue this changeset (own-actor skip, inverted-range skip, `seen` lookup,
bookkeeping check)? -/
def accepts (s : State) (it : Item) : Bool :=
  !(it.site == s.node.id) && !(inverted it) && !(suppresses s.seen it) && !(held s.node it)

/-- "drop old items when the queue is full" -/
def shed (p : Params) (s : State) (it : Item) : State :=
  if s.queue.length ≥ p.maxQueueLen then dropOldest p s it else s

/-- insertion into `seen`, `push_back`, cost -/
def enqueue (s : State) (it : Item) : State :=
  { s with seen := record s.seen it, queue := s.queue ++ [it], bufCost := s.bufCost + cost it }

/-- the body of the loop for one received changeset (before going back to the top) -/
def offer (p : Params) (s : State) (it : Item) : State :=
  if accepts s it then enqueue (shed p s it) it else s

/-- tick, first half: "we can process this right away" -/
def flush (p : Params) (s : State) : State :=
  if s.bufCost < p.maxChangesChunk ∧ s.queue ≠ [] ∧ s.inflight.length < p.maxConcurrent then
    { s with inflight := s.inflight ++ [s.queue], queue := [], bufCost := 0 }
  else s

/-- tick, second half: `seen.drain(..seen.len() - keep_seen_cache_size)` when the cache is too long -/
def trim (p : Params) (s : State) : State :=
  if s.seen.length > p.maxQueueLen then { s with seen := s.seen.drop (s.seen.length - p.keepSeen) } else s

/-- the tick branch -/
def tick (p : Params) (s : State) : State := trim p (flush p s)

/-- `join_set.join_next()`: batch `i` (in spawn order) finished.  `Ok`: it went through
`process_multiple_changes` (= `Node.deliver`); `Err` (or a join error): logged, and with
`clearOnFail` the whole `seen` cache is cleared. -/
def batchDone (p : Params) (s : State) (i : Nat) (ok : Bool) : State :=
  match s.inflight[i]? with
  | none => s
  | some b =>
    if ok then { s with inflight := s.inflight.eraseIdx i, node := s.node.deliver b, delivered := s.delivered ++ [b] }
    else { s with inflight := s.inflight.eraseIdx i, failed := s.failed ++ [b],
                  seen := if p.clearOnFail then [] else s.seen }

inductive Event where
  | offer (it : Item) (bcast : Bool)
  | tick
  | batchDone (i : Nat) (ok : Bool)
deriving Repr, Inhabited

def step (p : Params) (s : State) : Event → State
  | .offer it _ => loopTop p (offer p s it)
  | .tick => loopTop p (tick p s)
  | .batchDone i ok => loopTop p (batchDone p s i ok)

def run (p : Params) (s : State) (evs : List Event) : State := evs.foldl (step p) s

/-- let the oldest running batch finish, `n` times (what happens when nothing else arrives) -/
def drainN (p : Params) (ok : Bool) : Nat → State → State
  | 0, s => s
  | n + 1, s => if s.inflight.isEmpty then s else drainN p ok n (step p s (.batchDone 0 ok))

/-- enough rounds to empty queue and in-flight: every completion removes a batch and every spawn
moves at least one changeset -/
def drain (p : Params) (ok : Bool) (s : State) : State := drainN p ok (s.queue.length + s.inflight.length + 1) s

end Corro.Ingest
