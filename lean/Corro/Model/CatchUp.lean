/-
Model of attaching to / resuming a subscription (C12).  Import-free: linked into the driver.

Code followed (as it is, not as it should be):
* `crates/klukai-types/src/pubsub.rs`
  - `Matcher::handle_candidates`: every change of a batch is first SENT (`evt_tx.blocking_send`,
    then `last_change_tx.send(id)`) and the whole batch is COMMITTED to the `changes` table afterwards;
  - `cmd_loop` / `PurgeOldChanges`: `DELETE FROM changes WHERE id < MAX(id) - 500`;
  - `MatcherHandle::{all_rows, changes_since, max_change_id, last_change_id_sent}`.
* `crates/klukai-agent/src/api/public/pubsub.rs`
  - `process_sub_channel`: the pipe matcher → `broadcast::Sender` (FIFO, arbitrary delay);
  - `catch_up_sub` (+ `catch_up_sub_anew`, `catch_up_sub_from`) and `forward_sub_to_sender`
    (as of repo commit cb48448, which fixed F9; `Cfg.fixed := false` gives the code before it).
* `tokio::sync::broadcast` (trusted): every receiver is a cursor into one stream; a receiver that
  is more than the capacity behind gets `Lagged` once and continues at the oldest retained value.

Change ids are consecutive (`1, 2, 3, …`), so every FIFO of ids in the system is an interval and the
whole state is a handful of natural numbers:

* ids `1 ..= sent` have been emitted by the matcher, `1 ..= published` have left the pipe and are on
  the broadcast channel, the log holds `pruned+1 ..= committed`;
* a subscriber's broadcast receiver is the cursor `cur` (next id it will read), its catch-up queue
  holds the ids `qHead ..< qTail`.

Nondeterminism is an explicit schedule: a list of `Act`.  An action that is not enabled is a no-op
(the task is blocked), so `run` is total and executable.
-/
namespace Corro.CatchUp

/-- Constants of the code (parameters here; the driver uses the values compiled into the code). -/
structure Cfg where
  /-- `PurgeOldChanges` keeps ids `≥ max - keep` -/
  keep : Nat := 500
  /-- capacity of the catch-up queue (`mpsc::channel(10240)` in `catch_up_sub`) -/
  qcap : Nat := 10240
  /-- effective capacity of the broadcast channel (`broadcast::channel(10240)` rounds up to 16384) -/
  bcap : Nat := 16384
  /-- number of re-reads in the reconcile loop -/
  attempts : Nat := 5
  /-- `true`: the code since repo commit cb48448 (`forward_sub_to_sender` skips ids `≤` the last id
  delivered during the catch-up; a lagged receiver ends the buffering task with an error).
  `false`: the code before it (forwarding unfiltered; the lag is swallowed) — kept as a regression
  witness, see `handover_duplicate_before_fix`. -/
  fixed : Bool := true
deriving Repr, DecidableEq, Inhabited

/-- Matcher, change log, pipe and broadcast channel. -/
structure Env where
  /-- last change id sent by the matcher (`last_change_id_sent`); ids `1..=sent` are in the pipe or beyond -/
  sent : Nat := 0
  /-- largest id committed to the `changes` table -/
  committed : Nat := 0
  /-- ids `≤ pruned` have been deleted from the `changes` table -/
  pruned : Nat := 0
  /-- ids `1..=published` have been put on the broadcast channel -/
  published : Nat := 0
deriving Repr, DecidableEq, Inhabited

/-- What the client of one HTTP response stream receives. -/
inductive Item where
  /-- `Columns` + all `Row` events, read from version `v` of the materialised `query` table
      (version = number of changes applied to it) -/
  | rows (v : Nat)
  | eoq (s : Nat)
  | change (k : Nat)
  | error
  | closed
deriving Repr, DecidableEq, Inhabited

inductive Mode where
  /-- `from = None, skip_rows = false` -/
  | anew
  /-- `from = None, skip_rows = true` -/
  | skip
  /-- `from = Some n` -/
  | since (n : Nat)
deriving Repr, DecidableEq, Inhabited

/-- The buffering task spawned by `catch_up_sub`. -/
inductive QTask where
  | running
  /-- (before cb48448 only) `sub_rx.recv()` returned `Lagged`: the `Ok(res) = …` branch is disabled, the task
  waits for the cancellation only -/
  | stuck
  /-- left the loop after the cancellation and returned the receiver -/
  | stopped
  /-- `try_send` failed (queue full) or (since cb48448) the receiver lagged: returned the error, receiver and
  queue sender dropped -/
  | failed
deriving Repr, DecidableEq, Inhabited

/-- Program counter of `catch_up_sub`'s main task. -/
inductive Pc where
  | start
  /-- inside `all_rows`' read transaction pinned at version `pin`, rows sent, `MAX(id)` not read yet -/
  | readEoq (pin : Nat)
  | tryRecv
  | loop (i : Nat)
  | afterLoop
  | sendPending
  | cancel
  | drain
  | join
  /-- `forward_sub_to_sender` -/
  | live
  | done
deriving Repr, DecidableEq, Inhabited

structure Sub where
  mode : Mode
  pc : Pc := .start
  /-- broadcast receiver: next id it will read -/
  cur : Nat
  qHead : Nat
  qTail : Nat
  qt : QTask := .running
  cancelled : Bool := false
  /-- `last_change_id` -/
  last : Nat := 0
  /-- `min_change_id` -/
  minId : Nat := 0
  /-- `pending_event` -/
  pending : Option Nat := none
  /-- `last_sub_change_id` -/
  target : Option Nat := none
  /-- ghost: the id the delivered changes must follow (snapshot's id / `from` / `max_change_id`) -/
  base : Option Nat := none
  /-- ghost: the receiver has been handed to `forward_sub_to_sender` -/
  handed : Bool := false
  out : List Item := []
deriving Repr, DecidableEq, Inhabited

/-- `tx.subscribe()`: the receiver sees what is published from now on. -/
def attach (e : Env) (m : Mode) : Sub :=
  { mode := m, cur := e.published + 1, qHead := e.published + 1, qTail := e.published + 1 }

/-- ids `lo+1 ..= hi` -/
def idsFrom (lo hi : Nat) : List Nat := List.range' (lo + 1) (hi - lo)

/-- `changes_since(since)`: one SELECT, i.e. one log state.  Rows with `id > since` that are still in
the table; returns the events and the new `last_change_id`. -/
def logRead (e : Env) (since : Nat) : List Item × Nat :=
  ((idsFrom (max since e.pruned) e.committed).map Item.change, max since e.committed)

inductive Act where
  /-- matcher: send the next change (pipe and watch) -/
  | emit
  /-- matcher: commit everything sent so far -/
  | commit
  /-- pipe: `process_sub_channel` puts the next id on the broadcast channel -/
  | publish
  /-- matcher: `PurgeOldChanges` -/
  | prune
  /-- subscriber: next step of `catch_up_sub`'s main task / of `forward_sub_to_sender` -/
  | main
  /-- buffering task: `sub_rx.recv()` branch of its `select!` -/
  | qrecv
  /-- buffering task: `cancel.cancelled()` branch of its `select!` -/
  | qcancel
deriving Repr, DecidableEq, Inhabited

def stepEnv (cfg : Cfg) (e : Env) : Act → Env
  | .emit => { e with sent := e.sent + 1 }
  | .commit => { e with committed := e.sent }
  | .publish => if e.published < e.sent then { e with published := e.published + 1 } else e
  | .prune => { e with pruned := max e.pruned (e.committed - cfg.keep - 1) }
  | _ => e

/-- A batch of `n` changes that the matcher has SENT and not committed: `n` times `emit`
(`handle_candidates` from its first `blocking_send` up to, not including, `tx.commit()` — where the
verification hook `verif_hooks::before_matcher_commit` can hold it, for any `n`). -/
def sendBatch (cfg : Cfg) (e : Env) : Nat → Env
  | 0 => e
  | n + 1 => sendBatch cfg (stepEnv cfg e .emit) n

/-- the matcher is let go: `tx.commit()` of the batch -/
def commitBatch (cfg : Cfg) (e : Env) : Env := stepEnv cfg e .commit

/-- more than the capacity behind: the next `recv` returns `Lagged` -/
def lagging (cfg : Cfg) (e : Env) (s : Sub) : Bool := decide (cfg.bcap < e.published + 1 - s.cur)

/-- One step of the main task. -/
def stepMain (cfg : Cfg) (e : Env) (s : Sub) : Sub :=
  match s.pc with
  | .start =>
    match s.mode with
    | .anew => { s with pc := .readEoq e.committed, out := s.out ++ [.rows e.committed] }
    | .skip => { s with pc := .tryRecv, last := e.committed, base := some e.committed }
    | .since n =>
      let r := logRead e n
      { s with pc := .tryRecv, last := r.2, base := some n, out := s.out ++ r.1 }
  | .readEoq pin => { s with pc := .tryRecv, last := pin, base := some pin, out := s.out ++ [.eoq pin] }
  | .tryRecv =>
    let s := { s with minId := s.last + 1, pending := none }
    if s.qHead < s.qTail then
      { s with pending := some s.qHead, target := some s.qHead, qHead := s.qHead + 1, pc := .loop 0 }
    else if s.qt = .failed ∨ s.qt = .stopped then
      { s with pc := .done, out := s.out ++ [.error, .closed] }
    else if e.sent ≤ s.last then { s with target := none, pc := .sendPending }
    else { s with target := some e.sent, pc := .loop 0 }
  | .loop i =>
    match s.target with
    | none => { s with pc := .sendPending }
    | some t =>
      if i < cfg.attempts then
        let s := { s with minId := s.last + 1 }
        if s.minId ≤ t then
          let r := logRead e s.last
          { s with last := r.2, out := s.out ++ r.1, pc := .loop (i + 1) }
        else { s with pc := .afterLoop }
      else { s with pc := .afterLoop }
  | .afterLoop =>
    match s.target with
    | none => { s with pc := .sendPending }
    | some t =>
      if s.minId ≤ t then { s with pc := .done, out := s.out ++ [.error, .closed] }
      else { s with pc := .sendPending }
  | .sendPending =>
    match s.pending with
    | some c =>
      if s.last < c then { s with pc := .cancel, last := c, out := s.out ++ [.change c] }
      else { s with pc := .cancel }
    | none => { s with pc := .cancel }
  | .cancel => { s with pc := .drain, cancelled := true }
  | .drain =>
    if s.qHead < s.qTail then
      if s.last < s.qHead then
        { s with qHead := s.qHead + 1, last := s.qHead, out := s.out ++ [.change s.qHead] }
      else { s with qHead := s.qHead + 1 }
    else if s.qt = .stopped ∨ s.qt = .failed then { s with pc := .join }
    else s
  | .join =>
    if s.qt = .failed then { s with pc := .done, out := s.out ++ [.error, .closed] }
    else { s with pc := .live, handed := true }
  | .live =>
    if lagging cfg e s then { s with pc := .done, out := s.out ++ [.closed] }
    else if s.cur ≤ e.published then
      if cfg.fixed then
        -- `last_change_id: Some(last)`: ids `≤ last` were in flight at the hand-over, skip them
        if s.cur ≤ s.last then { s with cur := s.cur + 1 }
        else { s with cur := s.cur + 1, last := s.cur, out := s.out ++ [.change s.cur] }
      else { s with cur := s.cur + 1, out := s.out ++ [.change s.cur] }
    else s
  | .done => s

/-- The `sub_rx.recv()` branch of the buffering task. -/
def stepQRecv (cfg : Cfg) (e : Env) (s : Sub) : Sub :=
  if s.qt = .running then
    if lagging cfg e s then
      if cfg.fixed then { s with qt := .failed } else { s with qt := .stuck, cur := e.published + 1 - cfg.bcap }
    else if s.cur ≤ e.published then
      if cfg.qcap ≤ s.qTail - s.qHead then { s with qt := .failed }
      else { s with qTail := s.cur + 1, cur := s.cur + 1 }
    else s
  else s

/-- The `cancel.cancelled()` branch of the buffering task. -/
def stepQCancel (s : Sub) : Sub :=
  if s.cancelled ∧ (s.qt = .running ∨ s.qt = .stuck) then { s with qt := .stopped } else s

abbrev State := Env × Sub

def step (cfg : Cfg) (st : State) (a : Act) : State :=
  match a with
  | .main => (st.1, stepMain cfg st.1 st.2)
  | .qrecv => (st.1, stepQRecv cfg st.1 st.2)
  | .qcancel => (st.1, stepQCancel st.2)
  | a => (stepEnv cfg st.1 a, st.2)

def run (cfg : Cfg) (st : State) : List Act → State
  | [] => st
  | a :: as => run cfg (step cfg st a) as

/-- change ids of an output, in order -/
def chg : List Item → List Nat
  | [] => []
  | .change k :: r => k :: chg r
  | _ :: r => chg r

/-! ### coarse steps used by the driver (what a free-running real task does between two
observable points) -/

/-- Is some step of the subscriber's two tasks enabled? -/
def quiescent (cfg : Cfg) (e : Env) (s : Sub) : Bool :=
  stepQRecv cfg e s == s && stepQCancel s == s && stepMain cfg e s == s

/-- Let the buffering task read everything it can (the main task is held). -/
def runQ (cfg : Cfg) (e : Env) : Nat → Sub → Sub
  | 0, s => s
  | f + 1, s =>
    let s' := stepQRecv cfg e s
    if s' == s then s else runQ cfg e f s'

/-- Let both tasks run until they block: buffering task first (it only copies), then one main step. -/
def runFree (cfg : Cfg) (e : Env) : Nat → Sub → Sub
  | 0, s => s
  | f + 1, s =>
    let s1 := stepQCancel (runQ cfg e (cfg.qcap + cfg.bcap + 2) s)
    let s2 := stepMain cfg e s1
    if s2 == s then s else runFree cfg e f s2

/-! ### the client library (`klukai-client/src/sub.rs`) -/

/-- `SubscriptionStream::handle_change`: `none` = accepted, `some (expected, got)` = `MissedChange`;
`last_change_id` is not advanced on a miss. -/
def handleChange (last : Option Nat) (id : Nat) : Option Nat × Option (Nat × Nat) :=
  match last with
  | some l => if l + 1 ≠ id then (last, some (l + 1, id)) else (some id, none)
  | none => (some id, none)

/-- `handle_eoq` -/
def handleEoq (_last : Option Nat) (cid : Option Nat) : Option Nat := cid

/-- verdicts of `handle_change` over a sequence of change ids -/
def clientRun : Option Nat → List Nat → List (Option (Nat × Nat))
  | _, [] => []
  | last, id :: r => let x := handleChange last id; x.2 :: clientRun x.1 r

end Corro.CatchUp
