/-
Model of the speedy wire codecs reachable from a peer (crates/klukai-types/src/{broadcast,sync,api,
actor,base,change}.rs; decode sites klukai-agent/src/agent/{uni,bi}.rs and `SyncMessage::from_buf`).
Import-free apart from `Corro.Model.Pack` (byte strings, `Val`, `validUtf8`).

speedy conventions (0.8.7, `LittleEndian` context, `read_from_buffer`): little-endian integers;
derived enums: `u32` tag; `Vec`/`String`/`&str`/`HashMap`/`SmallVec`: `u32` length; `Option`: one flag
byte (any non-zero byte = `Some`); `usize`: `u64`; tuples and structs: fields in order; arrays: no
length; trailing bytes after the value are ignored.  The hand-written readers (`Changeset`,
`SyncStateV1`, `SyncNeedV1`, `SqliteValue`) use `u8` tags and (`usize`) `u64` lengths.

A decoder maps the remaining input to an `Out`: the value or an error, the reader position after the
call (ALSO on error: `#[speedy(default_on_eof)]` resumes from there), and `alloc`, an account of the
memory the real code reserves up front (`Vec::with_capacity`, `HashMap::with_capacity`, `read_vec`) —
every place where a length taken from the wire turns into a reservation before the data has been
read.  `reserve e k minsz` is the guard in front of such a reservation of `k` elements
(`checked_capacity(reader, k, minsz)` in the hand-written readers, `minimum_bytes_needed() * k ≤
remaining` in speedy's `read_vec`): it fails unless `k * minsz` bytes remain, and then books
`k * minsz` — the bytes of input that back the reservation.  The memory actually reserved is `k` times
the in-memory element size; per site (x86-64): `Change` 648 B per 37 backing bytes, `SyncNeedV1` 32 per
2, `RangeInclusive<u64>` 24 per 16, `(ActorId, Vec)` map/vec entries 40 per 24 / 20, bytes 1 per 1: at
most 18 bytes of memory per booked byte.  A guard with `minsz = 0` guards nothing; it books one unit
per element.

Maps (`HashMap`) are association lists in wire order; the drivers compare them canonically.
-/
import Corro.Model.Pack

namespace Corro.Codec
open Corro.Pack (Bytes Val validUtf8 pat64 ofPat64)

inductive Err where
  | eof      -- speedy `UnexpectedEndOfInput` (the only kind `default_on_eof` swallows)
  | invalid  -- unknown tag, invalid UTF-8, `checked_capacity` refusal, …
deriving DecidableEq, Repr

structure Out (α : Type) where
  alloc : Nat
  rest : Bytes
  val : Except Err α

def Dec (α : Type) : Type := Bytes → Out α

instance : Monad Dec where
  pure a := fun bs => ⟨0, bs, .ok a⟩
  bind d f := fun bs =>
    let o := d bs
    match o.val with
    | .error e => ⟨o.alloc, o.rest, .error e⟩
    | .ok a => let o2 := f a o.rest; ⟨o.alloc + o2.alloc, o2.rest, o2.val⟩

/-- value-or-error and reader position (what the round-trip theorems talk about) -/
def Dec.run (d : Dec α) (bs : Bytes) : Except Err α × Bytes := ((d bs).val, (d bs).rest)

def fail (e : Err) : Dec α := fun bs => ⟨0, bs, .error e⟩

/-! ### primitives -/

/-- low `k` bytes of `n`, least significant first -/
def leBytes : Nat → Nat → Bytes
  | 0, _ => []
  | k + 1, n => UInt8.ofNat (n % 256) :: leBytes k (n / 256)

def leNat : Bytes → Nat
  | [] => 0
  | b :: bs => b.toNat + 256 * leNat bs

/-- `read_bytes` / `read_bytes_borrowed`: `n` bytes or EOF without consuming anything -/
def take (n : Nat) : Dec Bytes := fun bs =>
  if bs.length < n then ⟨0, bs, .error .eof⟩ else ⟨0, bs.drop n, .ok (bs.take n)⟩

/-- the guard in front of a reservation of `k` items of at least `minsz` encoded bytes each:
refused (with `e`) unless the remaining input can back it up; books the backing bytes
(`k * minsz`; one unit per item when `minsz = 0`, where the guard is vacuous) -/
def reserve (e : Err) (k minsz : Nat) : Dec Unit := fun bs =>
  if k * minsz ≤ bs.length then ⟨k * max minsz 1, bs, .ok ()⟩ else ⟨0, bs, .error e⟩

/-- `read_vec::<u8>(n)` (owned bytes: `Vec<u8>`, `String`, `SmallVec<[u8; _]>`) -/
def takeOwned (n : Nat) : Dec Bytes := do
  reserve .eof n 1
  take n

def uN (k : Nat) : Dec Nat := do let b ← take k; pure (leNat b)
def u8 : Dec Nat := uN 1
def u16 : Dec Nat := uN 2
def u32 : Dec Nat := uN 4
def u64 : Dec Nat := uN 8
def i64 : Dec Int := do let n ← u64; pure (ofPat64 n)

def many (d : Dec α) : Nat → Dec (List α)
  | 0 => pure []
  | n + 1 => do let a ← d; let as ← many d n; pure (a :: as)

/-- a collection whose capacity is reserved up front: guard, reservation, then `n` items -/
def vec (e : Err) (minsz : Nat) (d : Dec α) (n : Nat) : Dec (List α) := do
  reserve e n minsz
  many d n

/-- `Option<T>`: flag byte, any non-zero value means `Some` -/
def opt (d : Dec α) : Dec (Option α) := do
  let f ← u8
  if f ≠ 0 then do let a ← d; pure (some a) else pure none

/-- `#[speedy(default_on_eof)]`: an EOF error inside the field yields the default and decoding goes
on from wherever the reader stopped -/
def defaultOnEof (d : Dec α) (dflt : α) : Dec α := fun bs =>
  let o := d bs
  match o.val with
  | .error .eof => ⟨o.alloc, o.rest, .ok dflt⟩
  | _ => o

/-- owned `String` / `SqliteValue::Text`: `u32` length, bytes, UTF-8 check -/
def str : Dec Bytes := do
  let n ← u32
  let b ← takeOwned n
  if validUtf8 b then pure b else fail .invalid

/-- `Vec<u8>` / `SmallVec<[u8; 512]>` -/
def bytes : Dec Bytes := do let n ← u32; takeOwned n

def encU8 (n : Nat) : Bytes := leBytes 1 n
def encU16 (n : Nat) : Bytes := leBytes 2 n
def encU32 (n : Nat) : Bytes := leBytes 4 n
def encU64 (n : Nat) : Bytes := leBytes 8 n
def encI64 (v : Int) : Bytes := leBytes 8 (pat64 v)
def encStr (b : Bytes) : Bytes := encU32 b.length ++ b
def encOpt (e : α → Bytes) : Option α → Bytes
  | none => [0]
  | some a => 1 :: e a
def encMany (e : α → Bytes) : List α → Bytes
  | [] => []
  | a :: as => e a ++ encMany e as

/-! ### leaf types -/

abbrev Range := Nat × Nat

/-- `RangeInclusive<CrsqlDbVersion>` / `RangeInclusive<CrsqlSeq>` as the hand-written code writes it:
start, end -/
def range : Dec Range := do let lo ← u64; let hi ← u64; pure (lo, hi)
def encRange (r : Range) : Bytes := encU64 r.1 ++ encU64 r.2

/-- the hand-written `Vec<RangeInclusive<_>>` readers: `usize` length,
`Vec::with_capacity(checked_capacity(reader, len, 16)?)`, then the ranges -/
def rangeVec : Dec (List Range) := do
  let n ← u64
  vec .invalid 16 range n

/-- `ActorId`: 16 raw bytes -/
def actor : Dec Bytes := take 16

/-- `Option<Timestamp>` -/
def optTs : Dec (Option Nat) := opt u64

/-- `SqliteValue` (api.rs:656): `u8` tag; text is checked UTF-8 -/
def sqliteValue : Dec Val := do
  let t ← u8
  match t with
  | 0 => pure .null
  | 1 => do let v ← i64; pure (.int v)
  | 2 => do let b ← u64; pure (.real b)
  | 3 => do let s ← str; pure (.text s)
  | 4 => do let b ← bytes; pure (.blob b)
  | _ => fail .invalid

def encSqliteValue : Val → Bytes
  | .null => [0]
  | .int v => 1 :: encI64 v
  | .real b => 2 :: encU64 b
  | .text s => 3 :: encStr s
  | .blob b => 4 :: encStr b

/-! ### Change, Changeset, ChangeV1 -/

structure Change where
  table : Bytes
  pk : Bytes
  cid : Bytes
  val : Val
  colVersion : Int
  dbVersion : Nat
  seq : Nat
  siteId : Bytes
  cl : Int
deriving DecidableEq, Repr

/-- borrowed `&str` copied into a `CompactString` (`TableName`, `ColumnName`): the bytes are checked
against the remaining input before anything is copied; booked like an owned string -/
def strBorrowed : Dec Bytes := str

/-- derived `Readable for Change`: fields in order; `site_id: [u8; 16]` byte by byte -/
def change : Dec Change := do
  let table ← strBorrowed
  let pk ← bytes
  let cid ← strBorrowed
  let val ← sqliteValue
  let colVersion ← i64
  let dbVersion ← u64
  let seq ← u64
  let siteId ← take 16
  let cl ← i64
  pure ⟨table, pk, cid, val, colVersion, dbVersion, seq, siteId, cl⟩

def encChange (c : Change) : Bytes :=
  encStr c.table ++ encStr c.pk ++ encStr c.cid ++ encSqliteValue c.val ++ encI64 c.colVersion ++
    encU64 c.dbVersion ++ encU64 c.seq ++ c.siteId ++ encI64 c.cl

/-- `<Change as Readable>::minimum_bytes_needed()` as the derive computes it: 0 (TableName) + 4 (pk)
+ 0 (ColumnName) + 1 (SqliteValue) + 8 + 0 + 0 + 16 + 8.  Checked against the real constant by the
harness (`minbytes change`). -/
def changeMinBytes : Nat := 37

inductive Changeset where
  | empty (versions : Range) (ts : Option Nat)
  | full (version : Nat) (changes : List Change) (seqs : Range) (lastSeq : Nat) (ts : Nat)
  | emptySet (versions : List Range) (ts : Nat)
deriving DecidableEq, Repr

/-- hand-written `Readable for Changeset` (broadcast.rs:307) -/
def changeset : Dec Changeset := do
  let t ← u8
  match t with
  | 0 => do
    let vs ← range
    let ts ← optTs
    pure (.empty vs ts)
  | 1 => do
    let version ← u64
    let n ← u32                              -- Vec::<Change>::read_from: read_length + read_vec
    let changes ← vec .eof changeMinBytes change n
    let seqs ← range
    let lastSeq ← u64
    let ts ← u64
    pure (.full version changes seqs lastSeq ts)
  | 2 => do
    let vs ← rangeVec                        -- usize length, checked_capacity(reader, len, 16)
    let ts ← u64
    pure (.emptySet vs ts)
  | _ => fail .invalid

def encChangeset : Changeset → Bytes
  | .empty vs ts => 0 :: (encRange vs ++ encOpt encU64 ts)
  | .full version changes seqs lastSeq ts =>
    1 :: (encU64 version ++ encU32 changes.length ++ encMany encChange changes ++ encRange seqs ++
      encU64 lastSeq ++ encU64 ts)
  | .emptySet vs ts => 2 :: (encU64 vs.length ++ encMany encRange vs ++ encU64 ts)

structure ChangeV1 where
  actorId : Bytes
  changeset : Changeset
deriving DecidableEq, Repr

def changeV1 : Dec ChangeV1 := do let a ← actor; let c ← changeset; pure ⟨a, c⟩
def encChangeV1 (c : ChangeV1) : Bytes := c.actorId ++ encChangeset c.changeset

/-! ### SyncNeedV1, SyncStateV1 -/

inductive SyncNeed where
  | full (versions : Range)
  | part (version : Nat) (seqs : List Range)
  | empty (ts : Option Nat)
deriving DecidableEq, Repr

/-- hand-written `Readable for SyncNeedV1` (sync.rs:374) -/
def syncNeed : Dec SyncNeed := do
  let t ← u8
  match t with
  | 0 => do let vs ← range; pure (.full vs)
  | 1 => do
    let version ← u64
    let seqs ← rangeVec
    pure (.part version seqs)
  | 2 => do let ts ← optTs; pure (.empty ts)
  | _ => fail .invalid

def encSyncNeed : SyncNeed → Bytes
  | .full vs => 0 :: encRange vs
  | .part version seqs => 1 :: (encU64 version ++ encU64 seqs.length ++ encMany encRange seqs)
  | .empty ts => 2 :: encOpt encU64 ts

structure SyncState where
  actorId : Bytes
  heads : List (Bytes × Nat)
  need : List (Bytes × List Range)
  partialNeed : List (Bytes × List (Nat × List Range))
  lastClearedTs : Option Nat
deriving DecidableEq, Repr

def headEntry : Dec (Bytes × Nat) := do let a ← actor; let v ← u64; pure (a, v)

def needEntry : Dec (Bytes × List Range) := do let a ← actor; let rs ← rangeVec; pure (a, rs)

def versionEntry : Dec (Nat × List Range) := do let v ← u64; let rs ← rangeVec; pure (v, rs)

def partialEntry : Dec (Bytes × List (Nat × List Range)) := do
  let a ← actor
  let n ← u64
  let vs ← vec .invalid 16 versionEntry n    -- HashMap::with_capacity(checked_capacity(.., 16))
  pure (a, vs)

/-- hand-written `Readable for SyncStateV1` (sync.rs:251); `heads` is speedy's generic `HashMap`
reader (`u32` length, entries collected one by one, nothing reserved) -/
def syncState : Dec SyncState := do
  let actorId ← actor
  let nh ← u32
  let heads ← many headEntry nh
  let nn ← u64
  let need ← vec .invalid 24 needEntry nn    -- HashMap::with_capacity(checked_capacity(.., 24))
  let np ← u64
  let partialNeed ← vec .invalid 24 partialEntry np
  let ts ← optTs
  pure ⟨actorId, heads, need, partialNeed, ts⟩

def encRangeVec (rs : List Range) : Bytes := encU64 rs.length ++ encMany encRange rs
def encHeadEntry (e : Bytes × Nat) : Bytes := e.1 ++ encU64 e.2
def encNeedEntry (e : Bytes × List Range) : Bytes := e.1 ++ encRangeVec e.2
def encVersionEntry (e : Nat × List Range) : Bytes := encU64 e.1 ++ encRangeVec e.2
def encPartialEntry (e : Bytes × List (Nat × List Range)) : Bytes :=
  e.1 ++ encU64 e.2.length ++ encMany encVersionEntry e.2

def encSyncState (s : SyncState) : Bytes :=
  s.actorId ++ encU32 s.heads.length ++ encMany encHeadEntry s.heads ++
    encU64 s.need.length ++ encMany encNeedEntry s.need ++
    encU64 s.partialNeed.length ++ encMany encPartialEntry s.partialNeed ++
    encOpt encU64 s.lastClearedTs

/-! ### top-level frames -/

/-- `UniPayload::V1 { data: UniPayloadV1::Broadcast(BroadcastV1::Change(change)), cluster_id }`:
three single-variant derived enums (three `u32` tags 0) around `ChangeV1`, then
`#[speedy(default_on_eof)] cluster_id: ClusterId(u16)` -/
structure UniPayload where
  change : ChangeV1
  clusterId : Nat
deriving DecidableEq, Repr

def tag0 : Dec Unit := do let t ← u32; if t = 0 then pure () else fail .invalid

def uniPayload : Dec UniPayload := do
  tag0; tag0; tag0
  let c ← changeV1
  let cl ← defaultOnEof u16 0
  pure ⟨c, cl⟩

def encUniData (c : ChangeV1) : Bytes := encU32 0 ++ encU32 0 ++ encU32 0 ++ encChangeV1 c
def encUniPayload (u : UniPayload) : Bytes := encUniData u.change ++ encU16 u.clusterId

/-- `SyncTraceContextV1 { traceparent: Option<String>, tracestate: Option<String> }` -/
structure TraceCtx where
  traceparent : Option Bytes
  tracestate : Option Bytes
deriving DecidableEq, Repr

def traceCtx : Dec TraceCtx := do let a ← opt str; let b ← opt str; pure ⟨a, b⟩
def encTraceCtx (t : TraceCtx) : Bytes := encOpt encStr t.traceparent ++ encOpt encStr t.tracestate

/-- `BiPayload::V1 { data: BiPayloadV1::SyncStart { actor_id, #[default_on_eof] trace_ctx },
#[default_on_eof] cluster_id }` -/
structure BiPayload where
  actorId : Bytes
  traceCtx : TraceCtx
  clusterId : Nat
deriving DecidableEq, Repr

def biPayload : Dec BiPayload := do
  tag0; tag0
  let a ← actor
  let t ← defaultOnEof traceCtx ⟨none, none⟩
  let cl ← defaultOnEof u16 0
  pure ⟨a, t, cl⟩

def encBiPayload (b : BiPayload) : Bytes :=
  encU32 0 ++ encU32 0 ++ b.actorId ++ encTraceCtx b.traceCtx ++ encU16 b.clusterId

/-- `SyncMessage::V1(SyncMessageV1)`; `SyncRejectionV1` is its variant index (0 =
MaxConcurrencyReached, 1 = DifferentCluster); `SyncRequestV1 = Vec<(ActorId, Vec<SyncNeedV1>)>` -/
inductive SyncMsg where
  | state (s : SyncState)
  | changeset (c : ChangeV1)
  | clock (ts : Nat)
  | rejection (r : Nat)
  | request (r : List (Bytes × List SyncNeed))
deriving DecidableEq, Repr

/-- `<SyncNeedV1 as Readable>::minimum_bytes_needed()` (sync.rs, since fix 756fff2: tag + option flag of
`Empty { ts: None }`; before that fix it was speedy's default 0 and the guard of `Vec<SyncNeedV1>`
guarded nothing, see `syncMsg_alloc_unguarded_counterexample`).  Checked against the real constant by
the harness (`minbytes sync_need`). -/
def syncNeedMinBytes : Nat := 2

def requestEntry (needMin : Nat) : Dec (Bytes × List SyncNeed) := do
  let a ← actor
  let n ← u32
  let ns ← vec .eof needMin syncNeed n
  pure (a, ns)

/-- `(ActorId, Vec<SyncNeedV1>)::minimum_bytes_needed()` = 16 + 4 -/
def requestEntryMinBytes : Nat := 20

def syncMsgP (needMin : Nat) : Dec SyncMsg := do
  tag0
  let t ← u32
  match t with
  | 0 => do let s ← syncState; pure (.state s)
  | 1 => do let c ← changeV1; pure (.changeset c)
  | 2 => do let ts ← u64; pure (.clock ts)
  | 3 => do
    let r ← u32
    if r < 2 then pure (.rejection r) else fail .invalid
  | 4 => do
    let n ← u32
    let es ← vec .eof requestEntryMinBytes (requestEntry needMin) n
    pure (.request es)
  | _ => fail .invalid

def syncMsg : Dec SyncMsg := syncMsgP syncNeedMinBytes

def encRequestEntry (e : Bytes × List SyncNeed) : Bytes :=
  e.1 ++ encU32 e.2.length ++ encMany encSyncNeed e.2

def encSyncMsg : SyncMsg → Bytes
  | .state s => encU32 0 ++ encU32 0 ++ encSyncState s
  | .changeset c => encU32 0 ++ encU32 1 ++ encChangeV1 c
  | .clock ts => encU32 0 ++ encU32 2 ++ encU64 ts
  | .rejection r => encU32 0 ++ encU32 3 ++ encU32 r
  | .request es => encU32 0 ++ encU32 4 ++ encU32 es.length ++ encMany encRequestEntry es

end Corro.Codec

namespace Corro.Codec
open Corro.Pack (Bytes Val validUtf8)

/-! ### well-formed values (the quantifier of the round-trip theorems)

Numbers fit their wire width, lengths fit their length field, ids are 16 bytes, text is valid UTF-8
(`validUtf8`, the executable check of `Corro.Pack`, assumed to accept exactly what Rust's
`str::from_utf8` accepts; compared with it differentially by the harness). -/

def U64 (n : Nat) : Prop := n < 18446744073709551616
def I64 (v : Int) : Prop := -9223372036854775808 ≤ v ∧ v < 9223372036854775808
def Len32 (b : Bytes) : Prop := b.length < 4294967296
def WFText (b : Bytes) : Prop := b.length < 4294967296 ∧ validUtf8 b = true
def WFActor (a : Bytes) : Prop := a.length = 16
def WFRange (r : Range) : Prop := U64 r.1 ∧ U64 r.2
def WFRanges (rs : List Range) : Prop := rs.length < 18446744073709551616 ∧ ∀ r ∈ rs, WFRange r

def WFOptTs : Option Nat → Prop
  | none => True
  | some t => U64 t

/-- a `SqliteValue` on the wire: any `i64`, any `f64` bit pattern, valid text, lengths below 2³² -/
def WFWireVal : Val → Prop
  | .null => True
  | .int v => I64 v
  | .real b => U64 b
  | .text s => WFText s
  | .blob b => Len32 b

def WFChange (c : Change) : Prop :=
  WFText c.table ∧ Len32 c.pk ∧ WFText c.cid ∧ WFWireVal c.val ∧ I64 c.colVersion ∧
    U64 c.dbVersion ∧ U64 c.seq ∧ c.siteId.length = 16 ∧ I64 c.cl

def WFChangeset : Changeset → Prop
  | .empty vs ts => WFRange vs ∧ WFOptTs ts
  | .full version changes seqs lastSeq ts =>
    U64 version ∧ changes.length < 4294967296 ∧ (∀ c ∈ changes, WFChange c) ∧ WFRange seqs ∧
      U64 lastSeq ∧ U64 ts
  | .emptySet vs ts => WFRanges vs ∧ U64 ts

def WFChangeV1 (c : ChangeV1) : Prop := WFActor c.actorId ∧ WFChangeset c.changeset

def WFSyncNeed : SyncNeed → Prop
  | .full vs => WFRange vs
  | .part version seqs => U64 version ∧ WFRanges seqs
  | .empty ts => WFOptTs ts

def WFSyncState (s : SyncState) : Prop :=
  WFActor s.actorId ∧
  (s.heads.length < 4294967296 ∧ ∀ e ∈ s.heads, WFActor e.1 ∧ U64 e.2) ∧
  (s.need.length < 18446744073709551616 ∧ ∀ e ∈ s.need, WFActor e.1 ∧ WFRanges e.2) ∧
  (s.partialNeed.length < 18446744073709551616 ∧ ∀ e ∈ s.partialNeed, WFActor e.1 ∧
    e.2.length < 18446744073709551616 ∧ ∀ v ∈ e.2, U64 v.1 ∧ WFRanges v.2) ∧
  WFOptTs s.lastClearedTs

def WFOptText : Option Bytes → Prop
  | none => True
  | some t => WFText t

def WFTraceCtx (t : TraceCtx) : Prop := WFOptText t.traceparent ∧ WFOptText t.tracestate

def WFUniPayload (u : UniPayload) : Prop := WFChangeV1 u.change ∧ u.clusterId < 65536

def WFBiPayload (b : BiPayload) : Prop :=
  WFActor b.actorId ∧ WFTraceCtx b.traceCtx ∧ b.clusterId < 65536

def WFSyncMsg : SyncMsg → Prop
  | .state s => WFSyncState s
  | .changeset c => WFChangeV1 c
  | .clock ts => U64 ts
  | .rejection r => r < 2
  | .request es => es.length < 4294967296 ∧ ∀ e ∈ es, WFActor e.1 ∧ e.2.length < 4294967296 ∧
      ∀ n ∈ e.2, WFSyncNeed n

end Corro.Codec

namespace Corro.Codec
open Corro.Pack (Bytes Val validUtf8)

/-! ### "no text that is not valid UTF-8" -/

def ValTextValid : Val → Prop
  | .text s => validUtf8 s = true
  | _ => True

def ChangeTextValid (c : Change) : Prop :=
  validUtf8 c.table = true ∧ validUtf8 c.cid = true ∧ ValTextValid c.val

def ChangesetTextValid : Changeset → Prop
  | .full _ changes _ _ _ => ∀ c ∈ changes, ChangeTextValid c
  | _ => True

def OptTextValid : Option Bytes → Prop
  | some s => validUtf8 s = true
  | none => True

end Corro.Codec
